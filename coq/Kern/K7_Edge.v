(* Kern/K7_Edge.v — interface lemmas about the translated IngredientIndex tag bit
   (src/zalsa.rs), QueryEdge / PackedQueryEdge (src/zalsa_local.rs), DatabaseKeyIndex
   (src/key.rs), the persisted raw key, and the origin tag bytes.  These are the kernel
   theorems of property C25. *)
From Coq Require Import NArith ZArith Bool Lia.
From Salsa.gen Require Import Kernels.
From Salsa.Kern Require Import KBits K5_Id.
Open Scope N_scope.

Ltac Zify.zify_post_hook ::= Z.to_euclidean_division_equations.

Lemma k_ING_MAX_INDEX_val : k_ING_MAX_INDEX = 2147483647.  Proof. reflexivity. Qed.
Lemma k_PE_INGREDIENT_SHIFT_val : k_PE_INGREDIENT_SHIFT = 20.  Proof. reflexivity. Qed.
Lemma k_PE_GENERATION_MASK_val : k_PE_GENERATION_MASK = 1048575.  Proof. reflexivity. Qed.
Lemma k_PE_INGREDIENT_MASK_val : k_PE_INGREDIENT_MASK = 4095.  Proof. reflexivity. Qed.

(* the packed word is exactly filled: 12 + 20 = 32 bits, masks are the all-ones fields *)
Lemma k_PE_layout :
  k_PE_GENERATION_MASK = N.ones k_PE_INGREDIENT_SHIFT /\
  k_PE_INGREDIENT_MASK = N.ones (32 - k_PE_INGREDIENT_SHIFT).
Proof. split; reflexivity. Qed.

(* ---- the tag bit on IngredientIndex *)
Lemma k_ing_with_tag_false x : k_ing_with_tag x false = x mod 2147483648.
Proof.
  unfold k_ing_with_tag. cbn zeta. rewrite k_ING_MAX_INDEX_val.
  change 2147483647 with (N.ones 31). rewrite N.land_ones.
  change (N.shiftl 0 31 mod 4294967296) with 0. now rewrite N.lor_0_r.
Qed.

Lemma k_ing_with_tag_true x : k_ing_with_tag x true = x mod 2147483648 + 2147483648.
Proof.
  unfold k_ing_with_tag. cbn zeta. rewrite k_ING_MAX_INDEX_val.
  change 2147483647 with (N.ones 31). rewrite N.land_ones.
  change (N.shiftl 1 31 mod 4294967296) with (N.shiftl 1 31).
  rewrite lor_shiftl_add.
  - change (2 ^ 31) with 2147483648. lia.
  - apply N.mod_lt. discriminate.
Qed.

Lemma k_ing_tag_iff x : x < 4294967296 -> (k_ing_tag x = true <-> 2147483648 <= x).
Proof.
  intros Hx. unfold k_ing_tag. rewrite k_ING_MAX_INDEX_val.
  change (4294967295 - 2147483647) with (2 ^ 31). rewrite land_pow2.
  rewrite <- (testbit_top x 31) by exact Hx.
  destruct (N.testbit x 31); cbn; split; intros; congruence.
Qed.

Lemma k_ing_tag_with_tag x b : k_ing_tag (k_ing_with_tag x b) = b.
Proof.
  pose proof (N.mod_lt x 2147483648 ltac:(discriminate)) as Hm.
  destruct b.
  - rewrite k_ing_with_tag_true. apply k_ing_tag_iff; lia.
  - rewrite k_ing_with_tag_false.
    destruct (k_ing_tag (x mod 2147483648)) eqn:E; [|reflexivity].
    apply k_ing_tag_iff in E; lia.
Qed.

Lemma k_ing_with_tag_false_id x : x <= k_ING_MAX_INDEX -> k_ing_with_tag x false = x.
Proof. rewrite k_ING_MAX_INDEX_val, k_ing_with_tag_false. intros. apply N.mod_small. lia. Qed.

Lemma k_ing_untag x b :
  x <= k_ING_MAX_INDEX -> k_ing_with_tag (k_ing_with_tag x b) false = x.
Proof.
  rewrite k_ING_MAX_INDEX_val. intros Hx. rewrite k_ing_with_tag_false.
  destruct b.
  - rewrite k_ing_with_tag_true. lia.
  - rewrite k_ing_with_tag_false. lia.
Qed.

Lemma k_ing_with_tag_range x b : k_ing_with_tag x b < 4294967296.
Proof.
  pose proof (N.mod_lt x 2147483648 ltac:(discriminate)).
  destruct b; [rewrite k_ing_with_tag_true | rewrite k_ing_with_tag_false]; lia.
Qed.

Lemma k_ing_new_iff v : k_ing_new v = Some v <-> v <= k_ING_MAX_INDEX.
Proof.
  unfold k_ing_new. destruct (N.leb_spec v k_ING_MAX_INDEX); split; intros; try lia;
    try reflexivity; discriminate.
Qed.

(* ---- QueryEdge::{input, output, key, kind} : C25_tag *)
Definition key_wf (k : k_DatabaseKeyIndex) : Prop :=
  id_wf (k_DatabaseKeyIndex_key_index k) /\ k_DatabaseKeyIndex_ingredient_index k <= k_ING_MAX_INDEX.

Lemma k_qe_id_input k : id_wf (k_DatabaseKeyIndex_key_index k) -> k_qe_id (k_qe_input k) = k_DatabaseKeyIndex_key_index k.
Proof.
  intros H. unfold k_qe_id, k_qe_input. cbn zeta. cbn [k_QueryEdge_index k_QueryEdge_generation].
  unfold k_dki_key_index. now apply k_id_from_index_index.
Qed.

Lemma k_qe_kind_input k : key_wf k -> k_qe_kind (k_qe_input k) = k_QueryEdgeKind_Input.
Proof.
  intros (Hid & Hing). unfold k_qe_kind, k_qe_input. cbn zeta. cbn [k_QueryEdge_ingredient].
  unfold k_dki_ingredient_index. rewrite k_ING_MAX_INDEX_val in Hing.
  destruct (k_ing_tag (k_DatabaseKeyIndex_ingredient_index k)) eqn:E; [|reflexivity].
  apply k_ing_tag_iff in E; lia.
Qed.

Lemma k_qe_kind_output k : k_qe_kind (k_qe_output k) = k_QueryEdgeKind_Output.
Proof.
  unfold k_qe_kind, k_qe_output. cbn zeta. cbn [k_QueryEdge_ingredient].
  now rewrite k_ing_tag_with_tag.
Qed.

Lemma k_qe_key_input k : key_wf k -> k_qe_key (k_qe_input k) = k.
Proof.
  intros (Hid & Hing). unfold k_qe_key. rewrite k_qe_id_input by exact Hid.
  unfold k_qe_input. cbn zeta. cbn [k_QueryEdge_ingredient]. unfold k_dki_ingredient_index.
  rewrite k_ing_with_tag_false_id by exact Hing. now destruct k.
Qed.

Lemma k_qe_key_output k : key_wf k -> k_qe_key (k_qe_output k) = k.
Proof.
  intros (Hid & Hing). unfold k_qe_key.
  assert (k_qe_id (k_qe_output k) = k_DatabaseKeyIndex_key_index k) as ->.
  { unfold k_qe_id, k_qe_output. cbn zeta. cbn [k_QueryEdge_index k_QueryEdge_generation].
    unfold k_dki_key_index. now apply k_id_from_index_index. }
  unfold k_qe_output. cbn zeta. cbn [k_QueryEdge_ingredient]. unfold k_dki_ingredient_index.
  rewrite k_ing_untag by exact Hing. now destruct k.
Qed.

Lemma k_QueryEdgeKind_distinct : k_QueryEdgeKind_Input <> k_QueryEdgeKind_Output.
Proof. discriminate. Qed.

(* input and output edges of the same key differ (the tag is part of the edge) *)
Lemma k_qe_input_output_differ k : key_wf k -> k_qe_input k <> k_qe_output k.
Proof.
  intros Hk E. apply (f_equal k_qe_kind) in E.
  rewrite k_qe_kind_input, k_qe_kind_output in E by exact Hk. discriminate.
Qed.

(* ---- PackedQueryEdge::{new, edge} : C25_packed_roundtrip *)
Definition edge_wf (e : k_QueryEdge) : Prop :=
  k_QueryEdge_index e < 4294967296 /\ k_QueryEdge_generation e < 4294967296 /\
  k_QueryEdge_ingredient e < 4294967296.

Lemma k_pe_new_none_iff e :
  k_pe_new e = None <->
  k_PE_INGREDIENT_MASK < k_QueryEdge_ingredient e \/ k_PE_GENERATION_MASK < k_QueryEdge_generation e.
Proof.
  unfold k_pe_new. cbn zeta. unfold k_ing_as_u32.
  destruct (N.ltb_spec k_PE_INGREDIENT_MASK (k_QueryEdge_ingredient e)),
           (N.ltb_spec k_PE_GENERATION_MASK (k_QueryEdge_generation e));
    cbn [orb]; split; intros; try reflexivity; try discriminate; try lia; tauto.
Qed.

Lemma k_pe_new_some_iff e :
  (exists p, k_pe_new e = Some p) <->
  k_QueryEdge_ingredient e <= 4095 /\ k_QueryEdge_generation e <= 1048575.
Proof.
  rewrite <- k_PE_INGREDIENT_MASK_val, <- k_PE_GENERATION_MASK_val.
  pose proof (k_pe_new_none_iff e) as Hn. destruct (k_pe_new e) as [p|].
  - split; [intros _ | intros _; now exists p].
    split; apply N.le_ngt; intros C; [assert (Some p = None) by (apply Hn; now left)
                                    | assert (Some p = None) by (apply Hn; now right)]; discriminate.
  - split; [intros (p & Hp); discriminate | intros (H1 & H2)].
    destruct (proj1 Hn eq_refl); lia.
Qed.

Lemma k_pe_new_roundtrip e p : k_pe_new e = Some p -> k_pe_edge p = e.
Proof.
  unfold k_pe_new. cbn zeta. unfold k_ing_as_u32.
  rewrite k_PE_INGREDIENT_MASK_val, k_PE_GENERATION_MASK_val, k_PE_INGREDIENT_SHIFT_val.
  destruct e as [idx gen ing]. cbn [k_QueryEdge_index k_QueryEdge_generation k_QueryEdge_ingredient].
  destruct (N.ltb_spec 4095 ing) as [|Hing]; [discriminate|].
  destruct (N.ltb_spec 1048575 gen) as [|Hgen]; [discriminate|]. cbn [orb].
  intros E. injection E as <-.
  unfold k_pe_edge, k_ing_new_unchecked.
  cbn [k_PackedQueryEdge_index k_PackedQueryEdge_metadata].
  rewrite k_PE_GENERATION_MASK_val, k_PE_INGREDIENT_SHIFT_val.
  assert (N.shiftl ing 20 mod 4294967296 = N.shiftl ing 20) as ->.
  { apply N.mod_small. rewrite N.shiftl_mul_pow2. change (2 ^ 20) with 1048576. lia. }
  assert (gen < 2 ^ 20) as Hg by (change (2 ^ 20) with 1048576; lia).
  f_equal.
  - change 1048575 with (N.ones 20). now apply lor_shiftl_land.
  - now apply lor_shiftl_high.
Qed.

(* the packed metadata word fits in 32 bits *)
Lemma k_pe_new_range e p :
  k_QueryEdge_index e < 4294967296 -> k_pe_new e = Some p ->
  k_PackedQueryEdge_index p < 4294967296 /\ k_PackedQueryEdge_metadata p < 4294967296.
Proof.
  intros Hi. unfold k_pe_new. cbn zeta. unfold k_ing_as_u32.
  rewrite k_PE_INGREDIENT_MASK_val, k_PE_GENERATION_MASK_val, k_PE_INGREDIENT_SHIFT_val.
  destruct (N.ltb_spec 4095 (k_QueryEdge_ingredient e)) as [|Hing]; [discriminate|].
  destruct (N.ltb_spec 1048575 (k_QueryEdge_generation e)) as [|Hgen]; [discriminate|].
  cbn [orb]. intros E. injection E as <-.
  cbn [k_PackedQueryEdge_index k_PackedQueryEdge_metadata]. split; [exact Hi|].
  change 4294967296 with (2 ^ 32). apply lor_bound.
  - change (2 ^ 32) with 4294967296. lia.
  - apply N.mod_lt. discriminate.
Qed.

(* only input edges pack: an output edge (tag bit set) is always wide *)
Lemma k_pe_new_input e p :
  k_QueryEdge_ingredient e < 4294967296 -> k_pe_new e = Some p ->
  k_qe_kind e = k_QueryEdgeKind_Input.
Proof.
  intros Hr Hp. assert (exists p, k_pe_new e = Some p) as Hs by (now exists p).
  apply k_pe_new_some_iff in Hs. destruct Hs as (Hing & _).
  unfold k_qe_kind. destruct (k_ing_tag (k_QueryEdge_ingredient e)) eqn:E; [|reflexivity].
  apply k_ing_tag_iff in E; [lia | exact Hr].
Qed.

Lemma k_pe_new_output_none e :
  k_QueryEdge_ingredient e < 4294967296 -> k_qe_kind e = k_QueryEdgeKind_Output ->
  k_pe_new e = None.
Proof.
  intros Hr Hk. destruct (k_pe_new e) as [p|] eqn:E; [|reflexivity].
  rewrite (k_pe_new_input e p Hr E) in Hk. discriminate.
Qed.

Lemma k_pe_edge_kind p e : k_pe_new e = Some p -> k_qe_kind (k_pe_edge p) = k_qe_kind e.
Proof. intros H. now rewrite (k_pe_new_roundtrip e p H). Qed.

(* ---- persisted raw key (serde of QueryEdge): C25_serde kernel *)
Lemma k_qe_deserialize_raw_key e :
  k_QueryEdge_index e < 4294967295 -> k_qe_deserialize (k_qe_raw_key e) = e.
Proof.
  intros Hi. destruct e as [idx gen ing]. cbn [k_QueryEdge_index] in Hi.
  unfold k_qe_deserialize, k_qe_raw_key, k_qe_id, k_dki_new, k_dki_key_index,
    k_dki_ingredient_index. cbn zeta.
  cbn [k_QueryEdge_index k_QueryEdge_generation k_QueryEdge_ingredient
       k_DatabaseKeyIndex_key_index k_DatabaseKeyIndex_ingredient_index].
  assert (k_id_index (k_id_with_generation (k_id_from_index idx) gen) = idx) as ->.
  { rewrite (proj2 (proj2 (k_id_with_generation_proj (k_id_from_index idx) gen))).
    now apply k_id_index_from_index. }
  reflexivity.
Qed.

Lemma k_qe_raw_key_wf e :
  k_QueryEdge_index e < 4294967295 -> k_QueryEdge_generation e < 4294967296 ->
  id_wf (k_DatabaseKeyIndex_key_index (k_qe_raw_key e)).
Proof.
  intros Hi Hg. unfold k_qe_raw_key, k_dki_new, k_qe_id. cbn [k_DatabaseKeyIndex_key_index].
  apply k_id_with_generation_wf; [now apply k_id_from_index_wf | exact Hg].
Qed.

(* the raw key keeps the tag: it is *not* the public key of an output edge *)
Lemma k_qe_raw_key_ingredient e :
  k_DatabaseKeyIndex_ingredient_index (k_qe_raw_key e) = k_QueryEdge_ingredient e.
Proof. reflexivity. Qed.

(* an edge built from a well-formed key is well formed and serialisable *)
Lemma k_qe_input_wf k :
  key_wf k -> edge_wf (k_qe_input k) /\ k_QueryEdge_index (k_qe_input k) < 4294967295.
Proof.
  intros ((H1 & H2 & H3) & Hing). rewrite k_ING_MAX_INDEX_val in Hing.
  unfold edge_wf, k_qe_input. cbn zeta.
  cbn [k_QueryEdge_index k_QueryEdge_generation k_QueryEdge_ingredient].
  unfold k_dki_key_index, k_dki_ingredient_index, k_id_generation.
  rewrite k_id_index_eq by assumption. lia.
Qed.

Lemma k_qe_output_wf k :
  key_wf k -> edge_wf (k_qe_output k) /\ k_QueryEdge_index (k_qe_output k) < 4294967295.
Proof.
  intros ((H1 & H2 & H3) & Hing).
  unfold edge_wf, k_qe_output. cbn zeta.
  cbn [k_QueryEdge_index k_QueryEdge_generation k_QueryEdge_ingredient].
  unfold k_dki_key_index, k_dki_ingredient_index, k_id_generation.
  rewrite k_id_index_eq by assumption.
  pose proof (k_ing_with_tag_range (k_DatabaseKeyIndex_ingredient_index k) true). lia.
Qed.

(* ---- origin tag bytes *)
Lemma k_tag_consts :
  k_QOT_KIND_MASK = 3 /\ k_QOT_LAYOUT_MASK = 4 /\ k_OET_WITH_EXTRA_MASK = 8 /\
  k_DerivedOriginKind_Derived = 3 /\ k_DerivedOriginKind_DerivedUntracked = 2 /\
  k_QueryOriginKind_Assigned = 1 /\ k_QueryEdgeLayout_Packed = 0 /\ k_QueryEdgeLayout_Wide = 4.
Proof. repeat split. Qed.

Definition is_derived_kind (k : N) : Prop :=
  k = k_DerivedOriginKind_Derived \/ k = k_DerivedOriginKind_DerivedUntracked.
Definition is_layout (l : N) : Prop :=
  l = k_QueryEdgeLayout_Packed \/ l = k_QueryEdgeLayout_Wide.

(* the byte written by with_extra/without_extra (derived (kind, layout)) decodes to the
   same kind, edge layout and extra flag *)
Lemma k_tag_roundtrip k l (x : bool) :
  is_derived_kind k -> is_layout l ->
  let tag := if x then k_oet_with_extra (k_qot_derived k l)
             else k_oet_without_extra (k_qot_derived k l) in
  k_qot_kind (k_oet_origin tag) = Some k /\
  k_qot_layout (k_oet_origin tag) = l /\
  k_oet_layout tag = (if x then k_OriginAndExtraLayout_WithExtra
                      else k_OriginAndExtraLayout_WithoutExtra).
Proof.
  intros [->| ->] [->| ->]; destruct x; cbn zeta; repeat split.
Qed.

Lemma k_tag_roundtrip_assigned (x : bool) :
  let tag := if x then k_oet_with_extra k_qot_assigned else k_oet_without_extra k_qot_assigned in
  k_qot_kind (k_oet_origin tag) = Some k_QueryOriginKind_Assigned /\
  k_oet_layout tag = (if x then k_OriginAndExtraLayout_WithExtra
                      else k_OriginAndExtraLayout_WithoutExtra).
Proof. destruct x; cbn zeta; repeat split. Qed.

Example key_wf_ex :
  key_wf (mk_k_DatabaseKeyIndex (mk_k_Id 4294967040 4294967295) 2147483647) /\
  k_pe_new (mk_k_QueryEdge 4294967039 1048575 4095)
    = Some (mk_k_PackedQueryEdge 4294967039 4294967295) /\
  k_pe_new (mk_k_QueryEdge 0 1048576 0) = None /\ k_pe_new (mk_k_QueryEdge 0 0 4096) = None.
Proof.
  unfold key_wf, id_wf. cbn [k_DatabaseKeyIndex_key_index k_DatabaseKeyIndex_ingredient_index
    k_Id_index k_Id_generation]. rewrite k_ING_MAX_INDEX_val. repeat split; lia.
Qed.

(* ExtractStructs.v — extraction of the executable Structs model, its specification side and
   the DSL compiler for ocaml/structs_driver.ml.  Only ExtrOcamlBasic is used: bool, option,
   unit, list, prod, sumbool map to OCaml's; N / positive / nat stay the extracted inductive
   types.  No Extract Constant. *)
From Coq Require Import Extraction ExtrOcamlBasic.
From Salsa Require Import Base.
From Salsa.Kern Require Import CoreK.
From Salsa.Structs Require Import Model Spec Dsl.
Extraction Language OCaml.
Separate Extraction
  Model.step Model.run_ops Model.init Model.level Model.fetch Model.spanic_code Model.live_slots
  Spec.spec_get Spec.spec_gets Spec.spec_live Spec.spec_ignored Spec.snap_of Spec.model_names Spec.spec_ids
  Dsl.prog_of Dsl.binop_eval
  N.of_nat N.to_nat Nat.add.

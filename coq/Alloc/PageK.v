(* Alloc/PageK.v — the integer kernels of src/table.rs (`make_id`, `split_id`, PAGE_LEN constants) and of
   `Id::next_generation` (src/id.rs), hand-transcribed.

   HAND-WRITTEN STAND-IN.  Alloc/PageKGen.v provides the same names, types and interface lemmas
   on top of the translator's output (coq/gen/Kernels.v: k_make_id, k_split_id and the k_id_ family).
   Alloc/Model.v picks one of the two in its single `Require Export` line (default: PageKGen);
   every other file of the layer gets the kernels through Alloc/Model.v.  Types:
     make_id  : N -> N -> N        (page index, slot index) -> Id index (u32)
     split_id : N -> N * N         Id index -> (page index, slot index)
     next_generation : N -> option N     u32 checked_add(1) *)
From Coq Require Import NArith Bool Lia.
Open Scope N_scope.

(* const PAGE_LEN_BITS: usize = 7; const PAGE_LEN_MASK = PAGE_LEN - 1; const PAGE_LEN = 1 << 7; *)
Definition PAGE_LEN_BITS : N := 7.
Definition PAGE_LEN : N := 128.
Definition PAGE_LEN_MASK : N := 127.
(* Id::MAX_U32 = u32::MAX - 0xFF; const MAX_PAGES: usize = Id::MAX_USIZE / PAGE_LEN; *)
Definition ID_MAX_U32 : N := 4294967040.
Definition MAX_PAGES : N := 33554430.
Definition U32_MOD : N := 4294967296.
Definition U32_MAX : N := 4294967295.

(* fn make_id(page: PageIndex, slot: SlotIndex) -> Id {
     let page = page.0 as u32; let slot = slot.0 as u32;
     unsafe { Id::from_index((page << PAGE_LEN_BITS) | slot) } }
   `as u32` truncates, `<<` on u32 drops the high bits. *)
Definition make_id (page slot : N) : N :=
  N.lor (N.shiftl (page mod U32_MOD) PAGE_LEN_BITS mod U32_MOD) (slot mod U32_MOD).

(* pub fn split_id(id: Id) -> (PageIndex, SlotIndex) {
     let index = id.index() as usize;
     let slot = index & PAGE_LEN_MASK; let page = index >> PAGE_LEN_BITS; (page, slot) } *)
Definition split_id (index : N) : N * N :=
  (N.shiftr index PAGE_LEN_BITS, N.land index PAGE_LEN_MASK).

(* Id::next_generation: self.generation().checked_add(1) *)
Definition next_generation (g : N) : option N :=
  if g <? U32_MAX then Some (g + 1) else None.

(* ---- interface lemmas ---- *)

Lemma max_pages_ok : MAX_PAGES = ID_MAX_U32 / PAGE_LEN.
Proof. vm_compute. reflexivity. Qed.

Lemma make_id_arith page slot :
  page < MAX_PAGES -> slot < PAGE_LEN -> make_id page slot = page * PAGE_LEN + slot.
Proof.
  intros Hp Hs. unfold make_id, MAX_PAGES, PAGE_LEN, U32_MOD, PAGE_LEN_BITS in *.
  rewrite (N.mod_small page) by lia. rewrite (N.mod_small slot) by lia.
  rewrite N.shiftl_mul_pow2. change (2 ^ 7) with 128.
  rewrite (N.mod_small (page * 128)) by lia.
  (* disjoint bits: lor = add *)
  apply N.bits_inj. intros n.
  rewrite N.lor_spec.
  destruct (N.lt_ge_cases n 7) as [Hn | Hn].
  - (* low bit: comes from slot *)
    replace (page * 128) with (page * 2 ^ 7) by reflexivity.
    rewrite N.mul_pow2_bits_low by exact Hn. cbn [orb].
    replace (page * 2 ^ 7 + slot) with (slot + page * 2 ^ 7) by lia.
    rewrite <- (N.mod_pow2_bits_low (slot + page * 2 ^ 7) 7 n Hn).
    rewrite N.mod_add by (cbn; lia).
    rewrite N.mod_small by (cbn; lia). reflexivity.
  - (* high bit: comes from page *)
    assert (Es : N.testbit slot n = false).
    { destruct (N.eq_dec slot 0) as [-> | Hne]; [apply N.bits_0 |].
      apply N.bits_above_log2. apply N.lt_le_trans with 7; [| exact Hn].
      apply N.log2_lt_pow2; [lia | cbn; lia]. }
    rewrite Es, orb_false_r.
    replace (page * 128) with (page * 2 ^ 7) by reflexivity.
    rewrite N.mul_pow2_bits_high by exact Hn.
    replace n with (n - 7 + 7) at 2 by lia.
    rewrite <- N.div_pow2_bits.
    replace (page * 2 ^ 7 + slot) with (slot + page * 2 ^ 7) by lia.
    rewrite N.div_add by (cbn; lia).
    rewrite N.div_small by (cbn; lia). reflexivity.
Qed.

Lemma split_make_id page slot :
  page < MAX_PAGES -> slot < PAGE_LEN -> split_id (make_id page slot) = (page, slot).
Proof.
  intros Hp Hs. rewrite (make_id_arith _ _ Hp Hs). unfold split_id, PAGE_LEN, PAGE_LEN_BITS, PAGE_LEN_MASK in *.
  f_equal.
  - rewrite N.shiftr_div_pow2. change (2 ^ 7) with 128.
    replace (page * 128 + slot) with (slot + page * 128) by lia.
    rewrite N.div_add by lia. rewrite N.div_small by lia. reflexivity.
  - change 127 with (N.ones 7). rewrite N.land_ones. change (2 ^ 7) with 128.
    replace (page * 128 + slot) with (slot + page * 128) by lia.
    rewrite N.mod_add by lia. apply N.mod_small; lia.
Qed.

Lemma make_id_inj p1 s1 p2 s2 :
  p1 < MAX_PAGES -> s1 < PAGE_LEN -> p2 < MAX_PAGES -> s2 < PAGE_LEN ->
  make_id p1 s1 = make_id p2 s2 -> p1 = p2 /\ s1 = s2.
Proof.
  intros H1 H2 H3 H4 E.
  pose proof (split_make_id _ _ H1 H2) as E1. pose proof (split_make_id _ _ H3 H4) as E2.
  rewrite E in E1. rewrite E1 in E2. inversion E2; auto.
Qed.

(* the precondition of the unsafe `Id::from_index` *)
Lemma make_id_bound page slot :
  page < MAX_PAGES -> slot < PAGE_LEN -> make_id page slot < ID_MAX_U32.
Proof.
  intros Hp Hs. rewrite (make_id_arith _ _ Hp Hs).
  unfold MAX_PAGES, PAGE_LEN, ID_MAX_U32 in *. lia.
Qed.

Lemma split_id_slot_bound i : snd (split_id i) < PAGE_LEN.
Proof.
  unfold split_id, PAGE_LEN_MASK, PAGE_LEN. cbn [snd].
  change 127 with (N.ones 7). rewrite N.land_ones. apply N.mod_lt. cbn; lia.
Qed.

Lemma next_generation_spec g g' : next_generation g = Some g' -> g' = g + 1 /\ g' <= U32_MAX.
Proof.
  unfold next_generation. destruct (N.ltb_spec g U32_MAX); [| discriminate].
  intros E; inversion E; subst. split; [reflexivity | lia].
Qed.

Global Arguments make_id : simpl never.
Global Arguments split_id : simpl never.
Global Arguments next_generation : simpl never.

(* Alloc/Model.v — executable model of salsa's page allocation (definitions only).

   Mirrors (hand-transcribed; tied to the code by the `alloc` shuttle profile of
   /verif/harness-conc and the OCaml replayer /verif/ocaml/conc/replay.ml):
     src/table.rs        Table { pages: boxcar::Vec<Page>, non_full_pages: Mutex<Map<Ingredient, Vec<PageIndex>>> },
                         PageView::allocate (load / write / store), push_page, fetch_or_push_page,
                         take_non_full_page, record_unfilled_page, Table::get (bounds check), make_id/split_id
     src/zalsa_local.rs  ZalsaLocal::{allocate, allocate_cold, record_unfilled_pages}, most_recent_pages
     src/storage.rs      Clone for Storage (fresh ZalsaLocal), Drop for Storage, into_zalsa_handle
     src/tracked_struct.rs  IngredientImpl::allocate (free_list.pop / next_generation / overwrite),
                         delete_entity (free_list.push)
     src/input.rs, src/interned.rs   new_input / intern_id_cold call ZalsaLocal::allocate

   One step = one atomic action of one handle (a `Storage`, used by one thread at a time because
   `ZalsaLocal` is !Sync).  Any number of handles, any interleaving.
   Modelling assumptions (named in DESIGN §8): `allocated` behaves as a sequentially consistent
   register; a critical section under `non_full_pages.lock()` is atomic; `boxcar::Vec::push`
   returns a fresh index; `SegQueue` is FIFO; the value closure passed to `allocate` does not
   re-enter `allocate` on the same handle (documented for `intern`: "may result in a deadlock"). *)
From Salsa Require Import Base.
(* SWAP POINT (one line): PageKGen = kernels translated from the Rust source (coq/gen/Kernels.v);
   PageK = the hand-transcribed stand-in with the same interface.  Every file of this layer gets
   the kernels through this export. *)
From Salsa.Alloc Require Export PageKGen.

Definition id := (N * N)%type.          (* (index, generation) — what `Id` compares by *)

(* a handle's in-flight PageView::allocate *)
Record pending := {
  p_ing : N;                  (* ingredient *)
  p_page : N;                 (* page index *)
  p_idx : N;                  (* `index` loaded from `allocated` *)
  p_val : option val          (* Some v once the slot has been written *)
}.

Record ahandle := {
  ah_id : N;
  ah_cache : list (N * N);    (* most_recent_pages: ingredient -> page (association list, one entry per key) *)
  ah_pend : option pending;
  ah_dropping : bool          (* inside record_unfilled_pages (drain in progress) *)
}.

Record astate := {
  a_npages : N;               (* pages.count() *)
  a_ing : N -> N;             (* page -> Page.ingredient *)
  a_alloc : N -> N;           (* page -> Page.allocated *)
  a_data : N -> N -> option val;   (* page -> slot -> initialised contents *)
  a_shared : list (N * N);    (* non_full_pages, all ingredients, newest first: (ingredient, page) *)
  a_hs : list ahandle;        (* live handles *)
  a_next : N;                 (* next fresh handle name *)
  a_free : N -> list id;      (* ingredient -> tracked-struct free_list (front first) *)
  (* ghost *)
  a_cur : N -> option (N * bool);  (* id index -> (current generation, slot is deleted) ; None = never allocated *)
  a_ret : list (id * val)     (* every id ever returned by an allocation, with the value it was created with *)
}.

Definition ainit : astate :=
  {| a_npages := 0; a_ing := fun _ => 0; a_alloc := fun _ => 0; a_data := fun _ _ => None;
     a_shared := [];
     a_hs := [ {| ah_id := 0; ah_cache := []; ah_pend := None; ah_dropping := false |} ];
     a_next := 1; a_free := fun _ => []; a_cur := fun _ => None; a_ret := [] |}.

Inductive aact :=
| AClone (src : N)
    (* Clone for Storage: ZalsaLocal::new() — a fresh handle with an empty cache *)
| ARecord (h ing : N)
    (* record_unfilled_pages: one drained entry; table.record_unfilled_page(ing, page) under the mutex.
       Every cached page is recorded, full or not. *)
| ADropDone (h : N)
    (* the drain is finished and the handle is gone *)
| ATake (h ing : N)
    (* allocate_cold, no cached page: fetch_or_push_page -> take_non_full_page = Some(page) *)
| APush (h ing : N)
    (* push_page: fetch_or_push_page after take_non_full_page = None, or the Err arm of
       allocate_cold's loop (cached page full) *)
| ALoad (h ing : N)
    (* PageView::allocate: let index = allocated.load(Acquire); if index >= PAGE_LEN { Err } *)
| AWrite (h : N) (v : val)
    (* `( *entry.get()).write(value(id))` *)
| APublish (h : N)
    (* allocated.store(index + 1, Release); Ok((id, value)) *)
| AFree (ing : N) (idx gen : N)
    (* tracked_struct delete_entity: free_list.push(id).  Enabled only for the slot's current,
       undeleted id — the obligation of the Structs layer (C06/C07); a second delete panics in
       Rust ("cannot delete write-locked id") *)
| AReuse (h ing : N) (v : val)
    (* tracked_struct allocate: free_list.pop() = Some(id); next_generation; *data_raw = value(id).
       Interned slot reuse (interned.rs: generation bump under the shard lock) is AFree;AReuse. *)
| ARead (idx : N).
    (* Table::get: split_id, `&page.data()[slot]` with data() = first `allocated` entries *)

Inductive aout :=
| ONone
| ONewHandle (h : N)
| OPage (p : N)
| OFull                      (* Err(value): page full *)
| OIndex (page idx : N)      (* result of the load *)
| OId (index gen : N)        (* the id returned by the allocation *)
| OLeaked (index : N)        (* generation overflow: slot leaked, loop continues *)
| OVal (v : option val)      (* contents read *)
| OOob.                      (* slot index out of bounds: Rust panics *)

(* ---- handles ---- *)

Definition find_ah (hs : list ahandle) (h : N) : option ahandle :=
  find (fun x => ah_id x =? h) hs.

Definition upd_ah (hs : list ahandle) (h : N) (f : ahandle -> ahandle) : list ahandle :=
  map (fun x => if ah_id x =? h then f x else x) hs.

Definition del_ah (hs : list ahandle) (h : N) : list ahandle :=
  filter (fun x => negb (ah_id x =? h)) hs.

Definition set_cache (c : list (N * N)) (x : ahandle) : ahandle :=
  {| ah_id := ah_id x; ah_cache := c; ah_pend := ah_pend x; ah_dropping := ah_dropping x |}.
Definition set_pend (p : option pending) (x : ahandle) : ahandle :=
  {| ah_id := ah_id x; ah_cache := ah_cache x; ah_pend := p; ah_dropping := ah_dropping x |}.
Definition set_dropping (x : ahandle) : ahandle :=
  {| ah_id := ah_id x; ah_cache := ah_cache x; ah_pend := ah_pend x; ah_dropping := true |}.

(* ---- association lists keyed by ingredient ---- *)

Definition lookup (c : list (N * N)) (ing : N) : option N :=
  match find (fun e => fst e =? ing) c with
  | Some e => Some (snd e)
  | None => None
  end.

Definition remove_key (c : list (N * N)) (ing : N) : list (N * N) :=
  filter (fun e => negb (fst e =? ing)) c.

(* HashMap::insert *)
Definition cache_set (c : list (N * N)) (ing p : N) : list (N * N) :=
  (ing, p) :: remove_key c ing.

(* Vec::pop for one ingredient's vector inside the shared map: the newest entry of `ing` *)
Fixpoint take_first (l : list (N * N)) (ing : N) : option (N * list (N * N)) :=
  match l with
  | [] => None
  | e :: rest =>
      if fst e =? ing then Some (snd e, rest)
      else match take_first rest ing with
           | Some (p, rest') => Some (p, e :: rest')
           | None => None
           end
  end.

(* ---- state updates ---- *)

Definition with_ahs (s : astate) (hs : list ahandle) : astate :=
  {| a_npages := a_npages s; a_ing := a_ing s; a_alloc := a_alloc s; a_data := a_data s;
     a_shared := a_shared s; a_hs := hs; a_next := a_next s; a_free := a_free s;
     a_cur := a_cur s; a_ret := a_ret s |}.

Definition upd2 {A} (m : N -> N -> A) (p sl : N) (v : A) : N -> N -> A :=
  fun p' sl' => if (p =? p') && (sl =? sl') then v else m p' sl'.

(* a handle that may start a new operation *)
Definition ready (x : ahandle) : bool :=
  negb (ah_dropping x) && match ah_pend x with None => true | Some _ => false end.

Definition astep (s : astate) (a : aact) : option (astate * aout) :=
  match a with
  | AClone src =>
      match find_ah (a_hs s) src with
      | Some _ =>
          Some ({| a_npages := a_npages s; a_ing := a_ing s; a_alloc := a_alloc s;
                   a_data := a_data s; a_shared := a_shared s;
                   a_hs := a_hs s ++ [ {| ah_id := a_next s; ah_cache := []; ah_pend := None;
                                          ah_dropping := false |} ];
                   a_next := a_next s + 1; a_free := a_free s; a_cur := a_cur s;
                   a_ret := a_ret s |}, ONewHandle (a_next s))
      | None => None
      end
  | ARecord h ing =>
      match find_ah (a_hs s) h with
      | Some x =>
          match ah_pend x, lookup (ah_cache x) ing with
          | None, Some p =>
              Some ({| a_npages := a_npages s; a_ing := a_ing s; a_alloc := a_alloc s;
                       a_data := a_data s; a_shared := (ing, p) :: a_shared s;
                       a_hs := upd_ah (a_hs s) h
                                 (fun x => set_dropping (set_cache (remove_key (ah_cache x) ing) x));
                       a_next := a_next s; a_free := a_free s; a_cur := a_cur s;
                       a_ret := a_ret s |}, OPage p)
          | _, _ => None
          end
      | None => None
      end
  | ADropDone h =>
      match find_ah (a_hs s) h with
      | Some x =>
          match ah_pend x, ah_cache x with
          | None, [] => Some (with_ahs s (del_ah (a_hs s) h), ONone)
          | _, _ => None
          end
      | None => None
      end
  | ATake h ing =>
      match find_ah (a_hs s) h with
      | Some x =>
          if ready x then
            match lookup (ah_cache x) ing, take_first (a_shared s) ing with
            | None, Some (p, rest) =>
                Some ({| a_npages := a_npages s; a_ing := a_ing s; a_alloc := a_alloc s;
                         a_data := a_data s; a_shared := rest;
                         a_hs := upd_ah (a_hs s) h (fun x => set_cache (cache_set (ah_cache x) ing p) x);
                         a_next := a_next s; a_free := a_free s; a_cur := a_cur s;
                         a_ret := a_ret s |}, OPage p)
            | _, _ => None
            end
          else None
      | None => None
      end
  | APush h ing =>
      match find_ah (a_hs s) h with
      | Some x =>
          if ready x && (a_npages s <? MAX_PAGES) &&
             match lookup (ah_cache x) ing with
             | None => true
             | Some p => PAGE_LEN <=? a_alloc s p
             end
          then
            let p := a_npages s in
            Some ({| a_npages := p + 1; a_ing := updN (a_ing s) p ing;
                     a_alloc := updN (a_alloc s) p 0; a_data := a_data s;
                     a_shared := a_shared s;
                     a_hs := upd_ah (a_hs s) h (fun x => set_cache (cache_set (ah_cache x) ing p) x);
                     a_next := a_next s; a_free := a_free s; a_cur := a_cur s;
                     a_ret := a_ret s |}, OPage p)
          else None
      | None => None
      end
  | ALoad h ing =>
      match find_ah (a_hs s) h with
      | Some x =>
          if ready x then
            match lookup (ah_cache x) ing with
            | Some p =>
                let idx := a_alloc s p in
                if PAGE_LEN <=? idx then Some (s, OFull)
                else Some (with_ahs s (upd_ah (a_hs s) h
                             (set_pend (Some {| p_ing := ing; p_page := p; p_idx := idx;
                                                p_val := None |}))),
                           OIndex p idx)
            | None => None
            end
          else None
      | None => None
      end
  | AWrite h v =>
      match find_ah (a_hs s) h with
      | Some x =>
          match ah_pend x with
          | Some pd =>
              match p_val pd with
              | None =>
                  Some ({| a_npages := a_npages s; a_ing := a_ing s; a_alloc := a_alloc s;
                           a_data := upd2 (a_data s) (p_page pd) (p_idx pd) (Some v);
                           a_shared := a_shared s;
                           a_hs := upd_ah (a_hs s) h
                                     (set_pend (Some {| p_ing := p_ing pd; p_page := p_page pd;
                                                        p_idx := p_idx pd; p_val := Some v |}));
                           a_next := a_next s; a_free := a_free s; a_cur := a_cur s;
                           a_ret := a_ret s |}, ONone)
              | Some _ => None
              end
          | None => None
          end
      | None => None
      end
  | APublish h =>
      match find_ah (a_hs s) h with
      | Some x =>
          match ah_pend x with
          | Some pd =>
              match p_val pd with
              | Some v =>
                  let i := make_id (p_page pd) (p_idx pd) in
                  Some ({| a_npages := a_npages s; a_ing := a_ing s;
                           a_alloc := updN (a_alloc s) (p_page pd) (p_idx pd + 1);
                           a_data := a_data s; a_shared := a_shared s;
                           a_hs := upd_ah (a_hs s) h (set_pend None);
                           a_next := a_next s; a_free := a_free s;
                           a_cur := updN (a_cur s) i (Some (0, false));
                           a_ret := ((i, 0), v) :: a_ret s |}, OId i 0)
              | None => None
              end
          | None => None
          end
      | None => None
      end
  | AFree ing idx gen =>
      match a_cur s idx with
      | Some (g, false) =>
          if (g =? gen) && (a_ing s (fst (split_id idx)) =? ing) then
            Some ({| a_npages := a_npages s; a_ing := a_ing s; a_alloc := a_alloc s;
                     a_data := a_data s; a_shared := a_shared s; a_hs := a_hs s;
                     a_next := a_next s;
                     a_free := updN (a_free s) ing (a_free s ing ++ [(idx, gen)]);
                     a_cur := updN (a_cur s) idx (Some (gen, true));
                     a_ret := a_ret s |}, ONone)
          else None
      | _ => None
      end
  | AReuse h ing v =>
      match find_ah (a_hs s) h with
      | Some x =>
          if ready x then
            match a_free s ing with
            | (idx, gen) :: rest =>
                match next_generation gen with
                | Some gen' =>
                    let '(p, sl) := split_id idx in
                    Some ({| a_npages := a_npages s; a_ing := a_ing s; a_alloc := a_alloc s;
                             a_data := upd2 (a_data s) p sl (Some v);
                             a_shared := a_shared s; a_hs := a_hs s; a_next := a_next s;
                             a_free := updN (a_free s) ing rest;
                             a_cur := updN (a_cur s) idx (Some (gen', false));
                             a_ret := ((idx, gen'), v) :: a_ret s |}, OId idx gen')
                | None =>
                    Some ({| a_npages := a_npages s; a_ing := a_ing s; a_alloc := a_alloc s;
                             a_data := a_data s; a_shared := a_shared s; a_hs := a_hs s;
                             a_next := a_next s; a_free := updN (a_free s) ing rest;
                             a_cur := a_cur s; a_ret := a_ret s |}, OLeaked idx)
                end
            | [] => None
            end
          else None
      | None => None
      end
  | ARead idx =>
      let '(p, sl) := split_id idx in
      if sl <? a_alloc s p then Some (s, OVal (a_data s p sl)) else Some (s, OOob)
  end.

Fixpoint arun (s : astate) (acts : list aact) : option astate :=
  match acts with
  | [] => Some s
  | a :: rest =>
      match astep s a with
      | Some (s', _) => arun s' rest
      | None => None
      end
  end.

Fixpoint arun_out (s : astate) (acts : list aact) : option (astate * list aout) :=
  match acts with
  | [] => Some (s, [])
  | a :: rest =>
      match astep s a with
      | Some (s', o) =>
          match arun_out s' rest with
          | Some (s'', os) => Some (s'', o :: os)
          | None => None
          end
      | None => None
      end
  end.

Inductive areach : astate -> Prop :=
| ar_init : areach ainit
| ar_step s a s' o : areach s -> astep s a = Some (s', o) -> areach s'.

(* the pages a handle holds *)
Definition pages_of (x : ahandle) : list N := map snd (ah_cache x).

(* Alloc/Proofs.v — invariant and lemmas of the page-allocation model (C24). *)
From Salsa Require Import Base.
From Salsa.Alloc Require Import Model.

(* ---------- generic list lemmas ---------- *)

Lemma NoDup_snoc {A} (l : list A) x : NoDup l -> ~ In x l -> NoDup (l ++ [x]).
Proof.
  induction l as [| y l IH]; intros Hnd Hn; cbn.
  - constructor; [intros [] | constructor].
  - inversion Hnd as [| ? ? Hy Hnd']; subst. constructor.
    + intros Hin. apply in_app_or in Hin. destruct Hin as [Hin | [<- | []]]; [auto |].
      apply Hn. left; reflexivity.
    + apply IH; [exact Hnd' |]. intros Hin. apply Hn. right; exact Hin.
Qed.

Lemma NoDup_map_filter {A B} (g : A -> B) (f : A -> bool) l :
  NoDup (map g l) -> NoDup (map g (filter f l)).
Proof.
  induction l as [| x l IH]; intros Hnd; [constructor |].
  cbn in Hnd. inversion Hnd as [| ? ? Hx Hnd']; subst.
  cbn. destruct (f x); [| apply IH; exact Hnd'].
  cbn. constructor; [| apply IH; exact Hnd'].
  intros Hin. apply Hx. apply in_map_iff in Hin. destruct Hin as [y [Hy Hin]].
  apply filter_In in Hin. apply in_map_iff. exists y. tauto.
Qed.

Lemma in_map_filter {A B} (g : A -> B) (f : A -> bool) l b :
  In b (map g (filter f l)) -> In b (map g l).
Proof.
  intros Hin. apply in_map_iff in Hin. destruct Hin as [y [Hy Hin]].
  apply filter_In in Hin. apply in_map_iff. exists y. tauto.
Qed.

(* ---------- association lists ---------- *)

Lemma lookup_some c ing p : lookup c ing = Some p -> In (ing, p) c.
Proof.
  unfold lookup. destruct (find (fun e => fst e =? ing) c) as [e |] eqn:E; [| discriminate].
  intros H; inversion H; subst. apply find_some in E. destruct E as [Hin He].
  apply N.eqb_eq in He. destruct e as [k v]; cbn in *. subst. exact Hin.
Qed.

Lemma lookup_none c ing : lookup c ing = None -> ~ In ing (map fst c).
Proof.
  unfold lookup. destruct (find (fun e => fst e =? ing) c) as [e |] eqn:E; [discriminate |].
  intros _ Hin. apply in_map_iff in Hin. destruct Hin as [e [He Hin]].
  pose proof (find_none _ _ E e Hin) as Hn. cbn in Hn. apply N.eqb_neq in Hn. contradiction.
Qed.

Lemma remove_key_none c ing : ~ In ing (map fst c) -> remove_key c ing = c.
Proof.
  induction c as [| e c IH]; intros Hn; [reflexivity |].
  cbn in *. destruct (N.eqb_spec (fst e) ing) as [E | E]; [exfalso; auto |].
  cbn. f_equal. apply IH. tauto.
Qed.

Lemma in_remove_key c ing e : In e (remove_key c ing) <-> In e c /\ fst e <> ing.
Proof. unfold remove_key. rewrite filter_In, negb_true_iff, N.eqb_neq. tauto. Qed.

Lemma remove_key_notin c ing : ~ In ing (map fst (remove_key c ing)).
Proof.
  intros Hin. apply in_map_iff in Hin. destruct Hin as [e [He Hin]].
  apply in_remove_key in Hin. tauto.
Qed.

(* removing the entry of `ing` also removes its page, because pages are distinct *)
Lemma remove_key_page c ing p :
  NoDup (map snd c) -> In (ing, p) c -> ~ In p (map snd (remove_key c ing)).
Proof.
  induction c as [| e c IH]; intros Hnd Hin Hp; [contradiction |].
  cbn in Hnd. inversion Hnd as [| ? ? He Hnd']; subst.
  cbn in Hp. destruct Hin as [-> | Hin].
  - cbn in Hp. rewrite N.eqb_refl in Hp. cbn in Hp. apply He. cbn.
    eapply in_map_filter. exact Hp.
  - destruct (negb (fst e =? ing)); cbn in Hp.
    + destruct Hp as [Hp | Hp]; [| apply IH; auto].
      apply He. rewrite Hp. apply in_map_iff. exists (ing, p). auto.
    + apply IH; auto.
Qed.

Lemma take_first_split l ing p rest :
  take_first l ing = Some (p, rest) ->
  exists l1 l2, l = l1 ++ (ing, p) :: l2 /\ rest = l1 ++ l2.
Proof.
  revert p rest. induction l as [| e l IH]; intros p rest H; [discriminate |].
  cbn in H. destruct (N.eqb_spec (fst e) ing) as [E | E].
  - inversion H; subst. destruct e as [k v]; cbn in *; subst. exists []. eexists. split; reflexivity.
  - destruct (take_first l ing) as [[p' rest'] |]; [| discriminate].
    inversion H; subst. destruct (IH _ _ eq_refl) as [l1 [l2 [-> ->]]].
    exists (e :: l1), l2. auto.
Qed.

(* ---------- handle lists ---------- *)

Lemma find_ah_some hs h x : find_ah hs h = Some x -> In x hs /\ ah_id x = h.
Proof.
  unfold find_ah. intros H. apply find_some in H. destruct H as [Hin He].
  apply N.eqb_eq in He. auto.
Qed.

Lemma ah_ids_inj hs a b :
  NoDup (map ah_id hs) -> In a hs -> In b hs -> ah_id a = ah_id b -> a = b.
Proof.
  induction hs as [| x hs IH]; intros Hnd Ha Hb He; [contradiction |].
  cbn in Hnd. inversion Hnd as [| ? ? Hnot Hnd']; subst.
  destruct Ha as [-> | Ha], Hb as [-> | Hb]; auto.
  - exfalso. apply Hnot. rewrite He. apply in_map; exact Hb.
  - exfalso. apply Hnot. rewrite <- He. apply in_map; exact Ha.
Qed.

Lemma upd_ah_ids hs h f :
  (forall x, ah_id (f x) = ah_id x) -> map ah_id (upd_ah hs h f) = map ah_id hs.
Proof.
  intros Hf. unfold upd_ah. rewrite map_map. apply map_ext. intros x.
  destruct (ah_id x =? h); auto.
Qed.

Lemma in_upd_ah hs h f x0 x' :
  NoDup (map ah_id hs) -> find_ah hs h = Some x0 ->
  In x' (upd_ah hs h f) -> (In x' hs /\ ah_id x' <> h) \/ x' = f x0.
Proof.
  intros Hnd Hf Hin. destruct (find_ah_some _ _ _ Hf) as [H0 H0e].
  unfold upd_ah in Hin. apply in_map_iff in Hin. destruct Hin as [y [Hy Hin]].
  destruct (N.eqb_spec (ah_id y) h) as [E | E]; subst x'.
  - right. f_equal. eapply ah_ids_inj; eauto. congruence.
  - left. auto.
Qed.

Lemma in_upd_ah_other hs h f x : In x hs -> ah_id x <> h -> In x (upd_ah hs h f).
Proof.
  intros Hin Hne. unfold upd_ah. apply in_map_iff. exists x. split; [| exact Hin].
  apply N.eqb_neq in Hne. rewrite Hne. reflexivity.
Qed.

Lemma in_upd_ah_same hs h f x : In x hs -> ah_id x = h -> In (f x) (upd_ah hs h f).
Proof.
  intros Hin He. unfold upd_ah. apply in_map_iff. exists x. split; [| exact Hin].
  apply N.eqb_eq in He. rewrite He. reflexivity.
Qed.

Lemma in_del_ah hs h x : In x (del_ah hs h) <-> In x hs /\ ah_id x <> h.
Proof. unfold del_ah. rewrite filter_In, negb_true_iff, N.eqb_neq. tauto. Qed.

(* ---------- the invariant ---------- *)

Record ainv (s : astate) : Prop := {
  (* handles *)
  ai_nodup : NoDup (map ah_id (a_hs s));
  ai_fresh : forall x, In x (a_hs s) -> ah_id x < a_next s;
  ai_keys : forall x, In x (a_hs s) -> NoDup (map fst (ah_cache x));
  (* ownership: a page is in at most one cache or in the shared list, never both *)
  ai_own_cache : forall x, In x (a_hs s) -> NoDup (pages_of x);
  ai_own_excl : forall x y p, In x (a_hs s) -> In y (a_hs s) ->
      In p (pages_of x) -> In p (pages_of y) -> ah_id x = ah_id y;
  ai_own_shared : NoDup (map snd (a_shared s));
  ai_own_disj : forall x p, In x (a_hs s) -> In p (pages_of x) -> ~ In p (map snd (a_shared s));
  (* page table *)
  ai_cache_ok : forall x ing p, In x (a_hs s) -> In (ing, p) (ah_cache x) ->
      p < a_npages s /\ a_ing s p = ing;
  ai_shared_ok : forall ing p, In (ing, p) (a_shared s) -> p < a_npages s /\ a_ing s p = ing;
  ai_npages : a_npages s <= MAX_PAGES;
  ai_alloc_le : forall p, a_alloc s p <= PAGE_LEN;
  ai_alloc_0 : forall p, a_npages s <= p -> a_alloc s p = 0;
  (* the in-flight allocation of a handle *)
  ai_pend : forall x pd, In x (a_hs s) -> ah_pend x = Some pd ->
      In (p_ing pd, p_page pd) (ah_cache x) /\
      p_idx pd = a_alloc s (p_page pd) /\ p_idx pd < PAGE_LEN /\
      (forall v, p_val pd = Some v -> a_data s (p_page pd) (p_idx pd) = Some v) /\
      ah_dropping x = false;
  (* slots and ids *)
  ai_cur : forall i g fr, a_cur s i = Some (g, fr) ->
      fst (split_id i) < a_npages s /\ snd (split_id i) < a_alloc s (fst (split_id i)) /\
      i = make_id (fst (split_id i)) (snd (split_id i)) /\ g <= U32_MAX;
  ai_pub : forall p sl, p < a_npages s -> sl < a_alloc s p ->
      exists g fr, a_cur s (make_id p sl) = Some (g, fr);
  ai_ret_cur : forall i g v, In ((i, g), v) (a_ret s) ->
      exists g' fr, a_cur s i = Some (g', fr) /\ g <= g';
  ai_ret_data : forall i g v, In ((i, g), v) (a_ret s) -> a_cur s i = Some (g, false) ->
      a_data s (fst (split_id i)) (snd (split_id i)) = Some v;
  ai_cur_ret : forall i g, a_cur s i = Some (g, false) -> exists v, In ((i, g), v) (a_ret s);
  ai_free_ok : forall ing i g, In (i, g) (a_free s ing) ->
      a_cur s i = Some (g, true) /\ a_ing s (fst (split_id i)) = ing;
  ai_free_nodup : forall ing, NoDup (map fst (a_free s ing));
  (* C24 *)
  ai_distinct : NoDup (map fst (a_ret s))
}.

Lemma ainv_init : ainv ainit.
Proof.
  constructor; cbn; try (intros; contradiction); try (intros; discriminate);
    try (constructor; fail).
  - constructor; [intros [] | constructor].
  - intros x [<- | []]. cbn. lia.
  - intros x [<- | []]. constructor.
  - intros x [<- | []]. constructor.
  - intros x y p [<- | []] [<- | []]. reflexivity.
  - intros x p [<- | []]. cbn. auto.
  - intros x ing p [<- | []]. cbn. contradiction.
  - intros x pd [<- | []]. cbn. discriminate.
  - intros p sl H. lia.
Qed.

(* ---------- preservation, one action at a time ---------- *)

Local Arguments cache_set : simpl never.
Local Arguments remove_key : simpl never.
Local Arguments take_first : simpl never.

Lemma ainv_clone s src s' o : ainv s -> astep s (AClone src) = Some (s', o) -> ainv s'.
Proof.
  intros Hi Hstep. cbn in Hstep. destruct (find_ah (a_hs s) src); [| discriminate].
  inversion Hstep; subst s' o; clear Hstep. destruct Hi.
  set (nh := {| ah_id := a_next s; ah_cache := []; ah_pend := None; ah_dropping := false |}).
  assert (Hin : forall x, In x (a_hs s ++ [nh]) -> In x (a_hs s) \/ x = nh).
  { intros x Hx. apply in_app_or in Hx. destruct Hx as [? | [<- | []]]; auto. }
  constructor; cbn; try assumption.
  - rewrite map_app. cbn. apply NoDup_snoc; [assumption |].
    intros H. apply in_map_iff in H. destruct H as [x [Hx Hxin]].
    pose proof (ai_fresh0 x Hxin). lia.
  - intros x Hx. destruct (Hin x Hx) as [Hx' | ->]; [pose proof (ai_fresh0 x Hx'); lia | cbn; lia].
  - intros x Hx. destruct (Hin x Hx) as [Hx' | ->]; [auto | constructor].
  - intros x Hx. destruct (Hin x Hx) as [Hx' | ->]; [auto | constructor].
  - intros x y p Hx Hy Hpx Hpy.
    destruct (Hin x Hx) as [Hx' | ->]; [| contradiction].
    destruct (Hin y Hy) as [Hy' | ->]; [| contradiction]. eauto.
  - intros x p Hx Hp. destruct (Hin x Hx) as [Hx' | ->]; [eauto | contradiction].
  - intros x ing p Hx Hp. destruct (Hin x Hx) as [Hx' | ->]; [eauto | contradiction].
  - intros x pd Hx Hp. destruct (Hin x Hx) as [Hx' | ->]; [eauto | discriminate].
Qed.

Lemma ainv_dropdone s h s' o : ainv s -> astep s (ADropDone h) = Some (s', o) -> ainv s'.
Proof.
  intros Hi Hstep. cbn in Hstep. destruct (find_ah (a_hs s) h) as [x0 |]; [| discriminate].
  destruct (ah_pend x0); [discriminate |]. destruct (ah_cache x0); [| discriminate].
  inversion Hstep; subst s' o; clear Hstep. destruct Hi.
  assert (Hin : forall x, In x (del_ah (a_hs s) h) -> In x (a_hs s)).
  { intros x Hx. apply in_del_ah in Hx. tauto. }
  constructor; cbn; try assumption.
  - unfold del_ah. apply NoDup_map_filter. assumption.
  - intros x Hx. eauto.
  - intros x Hx. eauto.
  - intros x Hx. eauto.
  - intros x y p Hx Hy. eauto.
  - intros x p Hx. eauto.
  - intros x ing p Hx. eauto.
  - intros x pd Hx. eauto.
Qed.

Lemma ready_inv x : ready x = true -> ah_dropping x = false /\ ah_pend x = None.
Proof.
  unfold ready. destruct (ah_dropping x), (ah_pend x); cbn; intros H; try discriminate; auto.
Qed.

(* steps that only replace the `pend` field of one handle *)
Lemma ainv_setpend_hs s h x0 pd' :
  ainv s -> find_ah (a_hs s) h = Some x0 ->
  let hs' := upd_ah (a_hs s) h (set_pend pd') in
  NoDup (map ah_id hs') /\
  (forall x, In x hs' -> ah_id x < a_next s) /\
  (forall x, In x hs' -> NoDup (map fst (ah_cache x))) /\
  (forall x, In x hs' -> NoDup (pages_of x)) /\
  (forall x y p, In x hs' -> In y hs' -> In p (pages_of x) -> In p (pages_of y) -> ah_id x = ah_id y) /\
  (forall x p, In x hs' -> In p (pages_of x) -> ~ In p (map snd (a_shared s))) /\
  (forall x ing p, In x hs' -> In (ing, p) (ah_cache x) -> p < a_npages s /\ a_ing s p = ing) /\
  (forall x, In x hs' -> (In x (a_hs s) /\ ah_id x <> h) \/ x = set_pend pd' x0).
Proof.
  intros Hi Hf hs'. destruct Hi. destruct (find_ah_some _ _ _ Hf) as [H0 H0e].
  assert (Hin : forall x, In x hs' -> (In x (a_hs s) /\ ah_id x <> h) \/ x = set_pend pd' x0).
  { intros x Hx. eapply in_upd_ah; eauto. }
  assert (Hold : forall x, In x hs' -> exists y, In y (a_hs s) /\ ah_id y = ah_id x /\ ah_cache y = ah_cache x).
  { intros x Hx. destruct (Hin x Hx) as [[Hx' _] | ->]; [exists x; auto | exists x0; auto]. }
  split; [unfold hs'; rewrite upd_ah_ids by reflexivity; assumption |].
  split; [intros x Hx; destruct (Hold x Hx) as [y [Hy [E1 E2]]]; rewrite <- E1; auto |].
  split; [intros x Hx; destruct (Hold x Hx) as [y [Hy [E1 E2]]]; rewrite <- E2; auto |].
  split; [intros x Hx; destruct (Hold x Hx) as [y [Hy [E1 E2]]]; unfold pages_of; rewrite <- E2;
          apply ai_own_cache0; auto |].
  split.
  { intros x y p Hx Hy Hpx Hpy.
    destruct (Hold x Hx) as [x1 [Hx1 [E1 E2]]]. destruct (Hold y Hy) as [y1 [Hy1 [E3 E4]]].
    rewrite <- E1, <- E3. apply (ai_own_excl0 x1 y1 p); auto; unfold pages_of in *; congruence. }
  split.
  { intros x p Hx Hp. destruct (Hold x Hx) as [y [Hy [E1 E2]]].
    apply (ai_own_disj0 y p Hy). unfold pages_of in *. congruence. }
  split.
  { intros x ing p Hx Hp. destruct (Hold x Hx) as [y [Hy [E1 E2]]]. rewrite <- E2 in Hp.
    apply (ai_cache_ok0 y ing p Hy Hp). }
  exact Hin.
Qed.

Lemma ainv_load s h ing s' o : ainv s -> astep s (ALoad h ing) = Some (s', o) -> ainv s'.
Proof.
  intros Hi Hstep. cbn in Hstep. destruct (find_ah (a_hs s) h) as [x0 |] eqn:Hf; [| discriminate].
  destruct (ready x0) eqn:Hr; [| discriminate].
  destruct (lookup (ah_cache x0) ing) as [p |] eqn:Hl; [| discriminate].
  destruct (N.leb_spec PAGE_LEN (a_alloc s p)) as [Hfull | Hlt]; inversion Hstep; subst s' o; clear Hstep;
    [exact Hi |].
  destruct (ready_inv _ Hr) as [Hd Hp].
  set (pd := {| p_ing := ing; p_page := p; p_idx := a_alloc s p; p_val := None |}).
  destruct (ainv_setpend_hs s h x0 (Some pd) Hi Hf) as [H1 [H2 [H3 [H4 [H5 [H6 [H7 Hin]]]]]]].
  destruct Hi. constructor; cbn; try assumption.
  intros x pd' Hx Hpd. destruct (Hin x Hx) as [[Hx' _] | ->]; [eauto |].
  cbn in Hpd. inversion Hpd; subst pd'. cbn.
  repeat split; auto. apply lookup_some; exact Hl. discriminate.
Qed.

Lemma upd2_same {A} (m : N -> N -> A) p sl v : upd2 m p sl v p sl = v.
Proof. unfold upd2. rewrite !N.eqb_refl. reflexivity. Qed.

Lemma upd2_other {A} (m : N -> N -> A) p sl v p' sl' :
  (p, sl) <> (p', sl') -> upd2 m p sl v p' sl' = m p' sl'.
Proof.
  intros Hne. unfold upd2.
  destruct (N.eqb_spec p p') as [-> | ?]; [| reflexivity].
  destruct (N.eqb_spec sl sl') as [-> | ?]; [| reflexivity].
  exfalso; apply Hne; reflexivity.
Qed.

(* two handles never have in-flight allocations on the same page *)
Lemma pend_pages_differ s x y pdx pdy :
  ainv s -> In x (a_hs s) -> In y (a_hs s) -> ah_id x <> ah_id y ->
  ah_pend x = Some pdx -> ah_pend y = Some pdy -> p_page pdx <> p_page pdy.
Proof.
  intros Hi Hx Hy Hne Hpx Hpy E.
  destruct (ai_pend _ Hi x pdx Hx Hpx) as [Hcx _]. destruct (ai_pend _ Hi y pdy Hy Hpy) as [Hcy _].
  apply Hne. apply (ai_own_excl _ Hi x y (p_page pdx) Hx Hy).
  - unfold pages_of. apply in_map_iff. exists (p_ing pdx, p_page pdx). auto.
  - unfold pages_of. apply in_map_iff. exists (p_ing pdy, p_page pdy). rewrite E. auto.
Qed.

Lemma ainv_write s h v s' o : ainv s -> astep s (AWrite h v) = Some (s', o) -> ainv s'.
Proof.
  intros Hi Hstep. cbn in Hstep. destruct (find_ah (a_hs s) h) as [x0 |] eqn:Hf; [| discriminate].
  destruct (ah_pend x0) as [pd |] eqn:Hp; [| discriminate].
  destruct (p_val pd) eqn:Hv; [discriminate |].
  inversion Hstep; subst s' o; clear Hstep.
  destruct (find_ah_some _ _ _ Hf) as [H0 H0e].
  set (pd1 := {| p_ing := p_ing pd; p_page := p_page pd; p_idx := p_idx pd; p_val := Some v |}).
  destruct (ainv_setpend_hs s h x0 (Some pd1) Hi Hf) as [H1 [H2 [H3 [H4 [H5 [H6 [H7 Hin]]]]]]].
  destruct (ai_pend _ Hi x0 pd H0 Hp) as [Hc0 [Hidx0 [Hlt0 [_ Hd0]]]].
  pose proof Hi as Hi'. destruct Hi. constructor; cbn; try assumption.
  - (* pend *)
    intros x pd' Hx Hpd. destruct (Hin x Hx) as [[Hx' Hne] | ->].
    + destruct (ai_pend0 x pd' Hx' Hpd) as [A [B [C [D E]]]].
      repeat split; auto. intros v' Hv'. rewrite upd2_other; [auto |].
      intros Heq. apply pair_equal_spec in Heq. destruct Heq as [E1 E2].
      apply (pend_pages_differ s x0 x pd pd' Hi' H0 Hx'); auto. congruence.
    + cbn in Hpd. inversion Hpd; subst pd'. cbn.
      repeat split; auto. intros v' Hv'. inversion Hv'; subst. apply upd2_same.
  - (* ret_data *)
    intros i g v' Hr Hc. rewrite upd2_other; [eauto |].
    destruct (ai_cur0 i g false Hc) as [_ [Hsl _]].
    intros Heq. apply pair_equal_spec in Heq. destruct Heq as [E1 E2].
    rewrite <- E1, <- E2 in Hsl. lia.
Qed.

Lemma ainv_publish s h s' o : ainv s -> astep s (APublish h) = Some (s', o) -> ainv s'.
Proof.
  intros Hi Hstep. cbn in Hstep. destruct (find_ah (a_hs s) h) as [x0 |] eqn:Hf; [| discriminate].
  destruct (ah_pend x0) as [pd |] eqn:Hp; [| discriminate].
  destruct (p_val pd) as [v |] eqn:Hv; [| discriminate].
  inversion Hstep; subst s' o; clear Hstep.
  destruct (find_ah_some _ _ _ Hf) as [H0 H0e].
  destruct (ainv_setpend_hs s h x0 None Hi Hf) as [H1 [H2 [H3 [H4 [H5 [H6 [H7 Hin]]]]]]].
  destruct (ai_pend _ Hi x0 pd H0 Hp) as [Hc0 [Hidx0 [Hlt0 [Hdat0 Hd0]]]].
  destruct (ai_cache_ok _ Hi x0 _ _ H0 Hc0) as [Hpg0 _].
  pose proof (ai_npages _ Hi) as Hnp.
  assert (Hpm : p_page pd < MAX_PAGES) by lia.
  set (P := p_page pd) in *. set (I := p_idx pd) in *.
  set (i0 := make_id P I).
  assert (Hsplit : split_id i0 = (P, I)) by (apply split_make_id; assumption).
  assert (Hfresh : a_cur s i0 = None).
  { destruct (a_cur s i0) as [[g fr] |] eqn:E; [| reflexivity].
    destruct (ai_cur _ Hi i0 g fr E) as [_ [Hsl _]]. rewrite Hsplit in Hsl. cbn in Hsl. lia. }
  pose proof Hi as Hi'. destruct Hi. constructor; cbn; try assumption.
  - (* alloc_le *)
    intros p. unfold updN. destruct (N.eqb_spec P p); [lia | auto].
  - (* alloc_0 *)
    intros p Hge. unfold updN. destruct (N.eqb_spec P p); [lia | auto].
  - (* pend *)
    intros x pd' Hx Hpd. destruct (Hin x Hx) as [[Hx' Hne] | ->]; [| discriminate].
    destruct (ai_pend0 x pd' Hx' Hpd) as [A [B [C [D E]]]].
    assert (Hpp : P <> p_page pd').
    { apply (pend_pages_differ s x0 x pd pd' Hi' H0 Hx'); auto. congruence. }
    repeat split; auto. rewrite updN_other by exact Hpp. exact B.
  - (* cur *)
    intros i g fr. unfold updN at 1. destruct (N.eqb_spec i0 i) as [<- | Hne].
    + intros E; inversion E; subst g fr. rewrite Hsplit. cbn.
      rewrite updN_same. repeat split; try lia.
    + intros E. destruct (ai_cur0 i g fr E) as [A [B [C D]]]. repeat split; auto.
      unfold updN. destruct (N.eqb_spec P (fst (split_id i))) as [Ep | ?]; [| exact B].
      rewrite <- Ep in B. lia.
  - (* pub *)
    intros p sl Hp' Hsl. unfold updN at 1.
    destruct (N.eqb_spec i0 (make_id p sl)) as [E | Hne]; [eauto |].
    apply ai_pub0; [exact Hp' |]. unfold updN in Hsl.
    destruct (N.eqb_spec P p) as [<- | ?]; [| exact Hsl].
    assert (sl <> I) by (intros ->; apply Hne; reflexivity). lia.
  - (* ret_cur *)
    intros i g v' [E | Hr].
    + inversion E; subst. exists 0, false. rewrite updN_same. split; [reflexivity | lia].
    + destruct (ai_ret_cur0 i g v' Hr) as [g' [fr [Ec Hle]]]. exists g', fr.
      split; [| exact Hle]. rewrite updN_other; [exact Ec |]. intros <-. congruence.
  - (* ret_data *)
    intros i g v' [E | Hr] Hc.
    + inversion E; subst. rewrite Hsplit. cbn. apply Hdat0; exact Hv.
    + destruct (ai_ret_cur0 i g v' Hr) as [g' [fr [Ec _]]].
      assert (i0 <> i) by (intros <-; congruence).
      rewrite updN_other in Hc by assumption. eauto.
  - (* cur_ret *)
    intros i g. unfold updN. destruct (N.eqb_spec i0 i) as [<- | Hne].
    + intros E; inversion E; subst. exists v. left; reflexivity.
    + intros E. destruct (ai_cur_ret0 i g E) as [v' Hr]. exists v'. right; exact Hr.
  - (* free_ok *)
    intros ing i g Hfr. destruct (ai_free_ok0 ing i g Hfr) as [Ec Ei]. split; [| exact Ei].
    rewrite updN_other; [exact Ec |]. intros <-. congruence.
  - (* distinct *)
    constructor; [| assumption]. intros Hin'. apply in_map_iff in Hin'.
    destruct Hin' as [[[i g] v'] [E Hr]]. cbn in E. inversion E; subst.
    destruct (ai_ret_cur0 _ _ _ Hr) as [g' [fr [Ec _]]]. congruence.
Qed.

(* steps that replace the cache of one ready handle: what has to be shown about the new cache *)
Lemma ainv_setcache_hs s h x0 (g : ahandle -> ahandle) c' :
  ainv s -> find_ah (a_hs s) h = Some x0 ->
  (forall x, ah_id (g x) = ah_id x) -> ah_cache (g x0) = c' ->
  NoDup (map fst c') -> NoDup (map snd c') ->
  (* pages of the new cache are not held by any other handle *)
  (forall y p, In y (a_hs s) -> ah_id y <> h -> In p (map snd c') -> ~ In p (pages_of y)) ->
  let hs' := upd_ah (a_hs s) h g in
  NoDup (map ah_id hs') /\
  (forall x, In x hs' -> ah_id x < a_next s) /\
  (forall x, In x hs' -> NoDup (map fst (ah_cache x))) /\
  (forall x, In x hs' -> NoDup (pages_of x)) /\
  (forall x y p, In x hs' -> In y hs' -> In p (pages_of x) -> In p (pages_of y) -> ah_id x = ah_id y) /\
  (forall x, In x hs' -> (In x (a_hs s) /\ ah_id x <> h) \/ x = g x0).
Proof.
  intros Hi Hf Hgid Hgc Hk Hp Hothers hs'. destruct Hi.
  destruct (find_ah_some _ _ _ Hf) as [H0 H0e].
  assert (Hin : forall x, In x hs' -> (In x (a_hs s) /\ ah_id x <> h) \/ x = g x0).
  { intros x Hx. eapply in_upd_ah; eauto. }
  split; [unfold hs'; rewrite upd_ah_ids by exact Hgid; assumption |].
  split.
  { intros x Hx. destruct (Hin x Hx) as [[Hx' _] | ->]; [auto |]. rewrite Hgid. auto. }
  split.
  { intros x Hx. destruct (Hin x Hx) as [[Hx' _] | ->]; [auto |]. rewrite Hgc. exact Hk. }
  split.
  { intros x Hx. destruct (Hin x Hx) as [[Hx' _] | ->]; [auto |]. unfold pages_of. rewrite Hgc. exact Hp. }
  split; [| exact Hin].
  intros x y p Hx Hy Hpx Hpy.
  destruct (Hin x Hx) as [[Hx' Hnx] | ->]; destruct (Hin y Hy) as [[Hy' Hny] | ->].
  - eauto.
  - exfalso. unfold pages_of in Hpy. rewrite Hgc in Hpy. exact (Hothers x p Hx' Hnx Hpy Hpx).
  - exfalso. unfold pages_of in Hpx. rewrite Hgc in Hpx. exact (Hothers y p Hy' Hny Hpx Hpy).
  - reflexivity.
Qed.

Lemma in_pages_of x p : In p (pages_of x) <-> exists ing, In (ing, p) (ah_cache x).
Proof.
  unfold pages_of. rewrite in_map_iff. split.
  - intros [[ing p'] [E Hin]]. cbn in E. subst. eauto.
  - intros [ing Hin]. exists (ing, p). auto.
Qed.

Lemma ainv_take s h ing s' o : ainv s -> astep s (ATake h ing) = Some (s', o) -> ainv s'.
Proof.
  intros Hi Hstep. cbn in Hstep. destruct (find_ah (a_hs s) h) as [x0 |] eqn:Hf; [| discriminate].
  destruct (ready x0) eqn:Hr; [| discriminate].
  destruct (lookup (ah_cache x0) ing) eqn:Hl; [discriminate |].
  destruct (take_first (a_shared s) ing) as [[p rest] |] eqn:Ht; [| discriminate].
  inversion Hstep; subst s' o; clear Hstep.
  destruct (find_ah_some _ _ _ Hf) as [H0 H0e]. destruct (ready_inv _ Hr) as [Hd Hp].
  destruct (take_first_split _ _ _ _ Ht) as [l1 [l2 [Esh Erest]]].
  pose proof (lookup_none _ _ Hl) as Hnk.
  assert (Ec' : cache_set (ah_cache x0) ing p = (ing, p) :: ah_cache x0).
  { unfold cache_set. rewrite remove_key_none by exact Hnk. reflexivity. }
  pose proof (ai_own_shared _ Hi) as Hns. rewrite Esh, map_app in Hns. cbn in Hns.
  apply NoDup_remove in Hns. destruct Hns as [Hns1 Hns2]. rewrite <- map_app, <- Erest in Hns1, Hns2.
  assert (Hpsh : In p (map snd (a_shared s))).
  { rewrite Esh, map_app. apply in_or_app. right. left. reflexivity. }
  assert (Hsub : forall e, In e rest -> In e (a_shared s)).
  { intros e He. rewrite Erest in He. rewrite Esh. apply in_app_or in He.
    apply in_or_app. destruct He; [left | right; right]; assumption. }
  assert (Hnot0 : ~ In p (pages_of x0)) by (intros Hx; exact (ai_own_disj _ Hi x0 p H0 Hx Hpsh)).
  destruct (ainv_setcache_hs s h x0 (fun x => set_cache (cache_set (ah_cache x) ing p) x)
              ((ing, p) :: ah_cache x0) Hi Hf) as [H1 [H2 [H3 [H4 [H5 Hin]]]]]; cbn; auto.
  { constructor; [exact Hnk | apply (ai_keys _ Hi); exact H0]. }
  { constructor; [exact Hnot0 | apply (ai_own_cache _ Hi); exact H0]. }
  { intros y q Hy Hne [<- | Hq] Hqy.
    - exact (ai_own_disj _ Hi y p Hy Hqy Hpsh).
    - apply Hne. rewrite <- H0e. symmetry. apply (ai_own_excl _ Hi x0 y q H0 Hy Hq Hqy). }
  pose proof Hi as Hi'. destruct Hi. constructor; cbn; try assumption.
  - (* own_disj *)
    intros x q Hx Hq Hqs.
    assert (Hqs' : In q (map snd (a_shared s))).
    { apply in_map_iff in Hqs. destruct Hqs as [e [E He]]. apply in_map_iff. exists e. auto. }
    destruct (Hin x Hx) as [[Hx' _] | ->]; [exact (ai_own_disj0 x q Hx' Hq Hqs') |].
    unfold pages_of in Hq. cbn in Hq. rewrite Ec' in Hq. cbn in Hq.
    destruct Hq as [<- | Hq]; [exact (Hns2 Hqs) | exact (ai_own_disj0 x0 q H0 Hq Hqs')].
  - (* cache_ok *)
    intros x ing' q Hx Hq. destruct (Hin x Hx) as [[Hx' _] | ->]; [eauto |].
    cbn in Hq. rewrite Ec' in Hq. destruct Hq as [E | Hq]; [| eauto].
    inversion E; subst. apply ai_shared_ok0. rewrite Esh. apply in_or_app. right. left. reflexivity.
  - (* shared_ok *)
    intros ing' q Hq. apply ai_shared_ok0. apply Hsub; exact Hq.
  - (* pend *)
    intros x pd Hx Hpd. destruct (Hin x Hx) as [[Hx' _] | ->]; [eauto |].
    cbn in Hpd. congruence.
Qed.

Lemma cache_set_keys c ing p : NoDup (map fst c) -> NoDup (map fst (cache_set c ing p)).
Proof.
  intros Hnd. unfold cache_set. cbn. constructor; [apply remove_key_notin |].
  unfold remove_key. apply NoDup_map_filter. exact Hnd.
Qed.

Lemma in_cache_set c ing p e : In e (cache_set c ing p) -> e = (ing, p) \/ (In e c /\ fst e <> ing).
Proof.
  unfold cache_set. intros [<- | Hin]; [left; reflexivity |]. right. apply in_remove_key. exact Hin.
Qed.

Lemma ainv_push s h ing s' o : ainv s -> astep s (APush h ing) = Some (s', o) -> ainv s'.
Proof.
  intros Hi Hstep. cbn in Hstep. destruct (find_ah (a_hs s) h) as [x0 |] eqn:Hf; [| discriminate].
  match type of Hstep with (if ?c then _ else _) = _ => destruct c eqn:Hc; [| discriminate] end.
  inversion Hstep; subst s' o; clear Hstep.
  apply andb_true_iff in Hc. destruct Hc as [Hc _]. apply andb_true_iff in Hc. destruct Hc as [Hr Hmax].
  apply N.ltb_lt in Hmax.
  destruct (find_ah_some _ _ _ Hf) as [H0 H0e]. destruct (ready_inv _ Hr) as [Hd Hp].
  set (P := a_npages s) in *.
  assert (Hold_lt : forall y q, In y (a_hs s) -> In q (pages_of y) -> q < P).
  { intros y q Hy Hq. apply in_pages_of in Hq. destruct Hq as [k Hq].
    apply (ai_cache_ok _ Hi y k q Hy Hq). }
  assert (Hpages' : forall q, In q (map snd (cache_set (ah_cache x0) ing P)) -> q = P \/ In q (pages_of x0)).
  { intros q Hq. apply in_map_iff in Hq. destruct Hq as [e [E He]]. apply in_cache_set in He.
    destruct He as [-> | [He _]]; [left; cbn in E; auto |]. right. unfold pages_of.
    apply in_map_iff. exists e. auto. }
  destruct (ainv_setcache_hs s h x0 (fun x => set_cache (cache_set (ah_cache x) ing P) x)
              (cache_set (ah_cache x0) ing P) Hi Hf) as [H1 [H2 [H3 [H4 [H5 Hin]]]]]; cbn; auto.
  { apply cache_set_keys. apply (ai_keys _ Hi); exact H0. }
  { unfold cache_set. cbn. constructor.
    - intros Hq. apply in_map_filter in Hq. pose proof (Hold_lt x0 P H0 Hq). lia.
    - unfold remove_key. apply NoDup_map_filter. apply (ai_own_cache _ Hi); exact H0. }
  { intros y q Hy Hne Hq Hqy. destruct (Hpages' q Hq) as [-> | Hq0].
    - pose proof (Hold_lt y P Hy Hqy). lia.
    - apply Hne. rewrite <- H0e. symmetry. apply (ai_own_excl _ Hi x0 y q H0 Hy Hq0 Hqy). }
  pose proof Hi as Hi'. destruct Hi. constructor; cbn; try assumption.
  - (* own_disj *)
    intros x q Hx Hq Hqs. destruct (Hin x Hx) as [[Hx' _] | ->]; [exact (ai_own_disj0 x q Hx' Hq Hqs) |].
    unfold pages_of in Hq. cbn in Hq. destruct (Hpages' q Hq) as [-> | Hq0].
    + apply in_map_iff in Hqs. destruct Hqs as [[k q'] [E He]]. cbn in E. subst q'.
      pose proof (proj1 (ai_shared_ok0 k P He)). lia.
    + exact (ai_own_disj0 x0 q H0 Hq0 Hqs).
  - (* cache_ok *)
    intros x k q Hx Hq.
    assert (Hcase : (In x (a_hs s) /\ In (k, q) (ah_cache x)) \/ (k = ing /\ q = P) \/
                    In (k, q) (ah_cache x0)).
    { destruct (Hin x Hx) as [[Hx' _] | ->]; [left; auto |]. cbn in Hq.
      apply in_cache_set in Hq. destruct Hq as [E | [Hq _]]; [inversion E; auto | auto]. }
    destruct Hcase as [[Hx' Hq'] | [[-> ->] | Hq']].
    + destruct (ai_cache_ok0 x k q Hx' Hq') as [A B]. split; [lia |].
      rewrite updN_other by lia. exact B.
    + split; [lia | apply updN_same].
    + destruct (ai_cache_ok0 x0 k q H0 Hq') as [A B]. split; [lia |].
      rewrite updN_other by lia. exact B.
  - (* shared_ok *)
    intros k q Hq. destruct (ai_shared_ok0 k q Hq) as [A B]. split; [lia |].
    rewrite updN_other by lia. exact B.
  - (* npages *) lia.
  - (* alloc_le *)
    intros p. unfold updN. destruct (P =? p); [unfold PAGE_LEN; lia | auto].
  - (* alloc_0 *)
    intros p Hge. unfold updN. destruct (N.eqb_spec P p); [reflexivity | apply ai_alloc_1; lia].
  - (* pend *)
    intros x pd Hx Hpd. destruct (Hin x Hx) as [[Hx' _] | ->]; [| cbn in Hpd; congruence].
    destruct (ai_pend0 x pd Hx' Hpd) as [A [B [C [D E]]]].
    destruct (ai_cache_ok0 x _ _ Hx' A) as [Hlt _].
    repeat split; auto. rewrite updN_other by lia. exact B.
  - (* cur *)
    intros i g fr E. destruct (ai_cur0 i g fr E) as [A [B [C D]]].
    repeat split; auto; [lia |]. rewrite updN_other by lia. exact B.
  - (* pub *)
    intros p sl Hp' Hsl. unfold updN in Hsl. destruct (N.eqb_spec P p) as [<- | Hne]; [lia |].
    apply ai_pub0; [lia | exact Hsl].
  - (* free_ok *)
    intros k i g Hfr. destruct (ai_free_ok0 k i g Hfr) as [Ec Ei]. split; [exact Ec |].
    destruct (ai_cur0 i g true Ec) as [A _]. rewrite updN_other by lia. exact Ei.
Qed.

Lemma ainv_record s h ing s' o : ainv s -> astep s (ARecord h ing) = Some (s', o) -> ainv s'.
Proof.
  intros Hi Hstep. cbn in Hstep. destruct (find_ah (a_hs s) h) as [x0 |] eqn:Hf; [| discriminate].
  destruct (ah_pend x0) eqn:Hp; [discriminate |].
  destruct (lookup (ah_cache x0) ing) as [p |] eqn:Hl; [| discriminate].
  inversion Hstep; subst s' o; clear Hstep.
  destruct (find_ah_some _ _ _ Hf) as [H0 H0e]. apply lookup_some in Hl.
  assert (Hp0 : In p (pages_of x0)) by (apply in_pages_of; eauto).
  assert (Hsub : forall q, In q (map snd (remove_key (ah_cache x0) ing)) -> In q (pages_of x0)).
  { intros q Hq. unfold remove_key in Hq. apply in_map_filter in Hq. exact Hq. }
  destruct (ainv_setcache_hs s h x0
              (fun x => set_dropping (set_cache (remove_key (ah_cache x) ing) x))
              (remove_key (ah_cache x0) ing) Hi Hf) as [H1 [H2 [H3 [H4 [H5 Hin]]]]]; cbn; auto.
  { unfold remove_key. apply NoDup_map_filter. apply (ai_keys _ Hi); exact H0. }
  { unfold remove_key. apply NoDup_map_filter. apply (ai_own_cache _ Hi); exact H0. }
  { intros y q Hy Hne Hq Hqy. apply Hne. rewrite <- H0e. symmetry.
    apply (ai_own_excl _ Hi x0 y q H0 Hy (Hsub q Hq) Hqy). }
  pose proof Hi as Hi'. destruct Hi. constructor; cbn; try assumption.
  - (* own_shared *)
    constructor; [| assumption]. exact (ai_own_disj0 x0 p H0 Hp0).
  - (* own_disj *)
    intros x q Hx Hq [<- | Hqs].
    + destruct (Hin x Hx) as [[Hx' Hne] | ->].
      * apply Hne. rewrite <- H0e. apply (ai_own_excl0 x x0 p Hx' H0 Hq Hp0).
      * unfold pages_of in Hq. cbn in Hq.
        exact (remove_key_page _ _ _ (ai_own_cache0 x0 H0) Hl Hq).
    + destruct (Hin x Hx) as [[Hx' _] | ->]; [exact (ai_own_disj0 x q Hx' Hq Hqs) |].
      unfold pages_of in Hq. cbn in Hq. exact (ai_own_disj0 x0 q H0 (Hsub q Hq) Hqs).
  - (* cache_ok *)
    intros x k q Hx Hq. destruct (Hin x Hx) as [[Hx' _] | ->]; [eauto |].
    cbn in Hq. apply in_remove_key in Hq. destruct Hq as [Hq _]. eauto.
  - (* shared_ok *)
    intros k q [E | Hq]; [inversion E; subst; eauto | eauto].
  - (* pend *)
    intros x pd Hx Hpd. destruct (Hin x Hx) as [[Hx' _] | ->]; [eauto |].
    cbn in Hpd. congruence.
Qed.

Lemma ainv_free s ing idx gen s' o : ainv s -> astep s (AFree ing idx gen) = Some (s', o) -> ainv s'.
Proof.
  intros Hi Hstep. cbn in Hstep.
  destruct (a_cur s idx) as [[g fr] |] eqn:Ec; [| discriminate].
  destruct fr; [discriminate |].
  destruct (N.eqb_spec g gen) as [-> | ?]; cbn in Hstep; [| discriminate].
  destruct (N.eqb_spec (a_ing s (fst (split_id idx))) ing) as [Eing | ?]; [| discriminate].
  inversion Hstep; subst s' o; clear Hstep.
  pose proof Hi as Hi'. destruct Hi. constructor; cbn; try assumption.
  - (* cur *)
    intros i g fr. unfold updN. destruct (N.eqb_spec idx i) as [<- | Hne]; [| apply ai_cur0].
    intros E; inversion E; subst. exact (ai_cur0 idx g false Ec).
  - (* pub *)
    intros p sl Hp Hsl. unfold updN. destruct (N.eqb_spec idx (make_id p sl)); eauto.
  - (* ret_cur *)
    intros i g v Hr. destruct (ai_ret_cur0 i g v Hr) as [g' [fr [E Hle]]].
    unfold updN. destruct (N.eqb_spec idx i) as [<- | Hne]; [| eauto].
    rewrite Ec in E. inversion E; subst. eauto.
  - (* ret_data *)
    intros i g v Hr. unfold updN. destruct (N.eqb_spec idx i) as [<- | Hne]; [discriminate |].
    apply ai_ret_data0; exact Hr.
  - (* cur_ret *)
    intros i g. unfold updN. destruct (N.eqb_spec idx i) as [<- | Hne]; [discriminate |].
    apply ai_cur_ret0.
  - (* free_ok *)
    intros k i g. unfold updN at 1. destruct (N.eqb_spec ing k) as [<- | Hk].
    + intros Hin. apply in_app_or in Hin. destruct Hin as [Hin | [E | []]].
      * destruct (ai_free_ok0 ing i g Hin) as [A B]. split; [| exact B].
        rewrite updN_other; [exact A |]. intros <-. congruence.
      * inversion E; subst. rewrite updN_same. auto.
    + intros Hin. destruct (ai_free_ok0 k i g Hin) as [A B]. split; [| exact B].
      rewrite updN_other; [exact A |]. intros <-. congruence.
  - (* free_nodup *)
    intros k. unfold updN. destruct (N.eqb_spec ing k) as [<- | Hk]; [| apply ai_free_nodup0].
    rewrite map_app. cbn. apply NoDup_snoc; [apply ai_free_nodup0 |].
    intros Hin. apply in_map_iff in Hin. destruct Hin as [[i g] [E Hin]]. cbn in E. subst i.
    destruct (ai_free_ok0 ing idx g Hin) as [A _]. congruence.
Qed.

Lemma ainv_reuse s h ing v s' o : ainv s -> astep s (AReuse h ing v) = Some (s', o) -> ainv s'.
Proof.
  intros Hi Hstep. cbn in Hstep. destruct (find_ah (a_hs s) h) as [x0 |] eqn:Hf; [| discriminate].
  destruct (ready x0) eqn:Hrdy; [| discriminate].
  destruct (a_free s ing) as [| [idx gen] rest] eqn:Efree; [discriminate |].
  assert (Hhead : In (idx, gen) (a_free s ing)) by (rewrite Efree; left; reflexivity).
  destruct (ai_free_ok _ Hi ing idx gen Hhead) as [Ecur Eing].
  pose proof (ai_free_nodup _ Hi ing) as Hnd. rewrite Efree in Hnd. cbn in Hnd.
  apply NoDup_cons_iff in Hnd. destruct Hnd as [Hnotin Hnd'].
  assert (Hrest : forall k i g, In (i, g) (updN (a_free s) ing rest k) ->
                                In (i, g) (a_free s k) /\ i <> idx).
  { intros k i g. unfold updN. destruct (N.eqb_spec ing k) as [Ek | Hk].
    - rewrite <- Ek. intros Hin. split; [rewrite Efree; right; exact Hin |].
      intros Ei. apply Hnotin. apply in_map_iff. exists (i, g). split; [exact Ei | exact Hin].
    - intros Hin. split; [exact Hin |]. intros Ei. rewrite Ei in Hin.
      destruct (ai_free_ok _ Hi k idx g Hin) as [_ B]. congruence. }
  assert (Hrest_nd : forall k, NoDup (map fst (updN (a_free s) ing rest k))).
  { intros k. unfold updN. destruct (N.eqb_spec ing k) as [Ek | Hk]; [exact Hnd' |].
    apply (ai_free_nodup _ Hi). }
  destruct (next_generation gen) as [gen' |] eqn:Eg.
  - (* reuse with the next generation *)
    destruct (split_id idx) as [P SL] eqn:Esplit.
    injection Hstep as Es' Eo. rewrite <- Es'. clear Es' Eo.
    destruct (next_generation_spec _ _ Eg) as [Egen' Hmax].
    destruct (ai_cur _ Hi idx gen true Ecur) as [Hpg [Hsl [Hmk _]]].
    rewrite Esplit in Hpg, Hsl, Hmk. cbn [fst snd] in Hpg, Hsl, Hmk.
    pose proof Hi as Hi'. destruct Hi. constructor; cbn; try assumption.
    + (* pend *)
      intros x pd Hx Hpd. destruct (ai_pend0 x pd Hx Hpd) as [A [B [C [D E]]]].
      repeat split; auto. intros v' Hv'. rewrite upd2_other; [auto |].
      intros Heq. apply pair_equal_spec in Heq. destruct Heq as [E1 E2].
      rewrite <- E1, <- E2 in B. lia.
    + (* cur *)
      intros i g fr. unfold updN. destruct (N.eqb_spec idx i) as [Ei | Hne]; [| apply ai_cur0].
      intros E. injection E as Eg1 Efr. rewrite <- Ei, Esplit. cbn [fst snd].
      repeat split; auto. lia.
    + (* pub *)
      intros p sl Hp Hsl'. unfold updN. destruct (N.eqb_spec idx (make_id p sl)); eauto.
    + (* ret_cur *)
      intros i g v' [E | Hret].
      * injection E as Ei Eg1 Ev. rewrite <- Ei. exists gen', false. rewrite updN_same.
        split; [reflexivity | lia].
      * destruct (ai_ret_cur0 i g v' Hret) as [g1 [fr [Ec Hle]]].
        unfold updN. destruct (N.eqb_spec idx i) as [Ei | Hne]; [| eauto].
        rewrite <- Ei, Ecur in Ec. injection Ec as Eg1 Efr. exists gen', false.
        split; [reflexivity | lia].
    + (* ret_data *)
      intros i g v' [E | Hret].
      * injection E as Ei Eg1 Ev. intros _. rewrite <- Ei, Esplit, <- Ev. cbn [fst snd].
        apply upd2_same.
      * unfold updN. destruct (N.eqb_spec idx i) as [Ei | Hne].
        -- intros Ec. injection Ec as Eg1. exfalso.
           destruct (ai_ret_cur0 i g v' Hret) as [g1 [fr [Ec' Hle]]].
           rewrite <- Ei, Ecur in Ec'. injection Ec' as Eg2 Efr. lia.
        -- intros Ec. rewrite upd2_other; [apply (ai_ret_data0 i g v'); auto |].
           destruct (ai_cur0 i g false Ec) as [_ [_ [Hmk' _]]].
           intros Heq. apply pair_equal_spec in Heq. destruct Heq as [E1 E2].
           apply Hne. rewrite Hmk, Hmk', <- E1, <- E2. reflexivity.
    + (* cur_ret *)
      intros i g. unfold updN. destruct (N.eqb_spec idx i) as [Ei | Hne].
      * intros E. injection E as Eg1. exists v. left. rewrite Ei, Eg1. reflexivity.
      * intros E. destruct (ai_cur_ret0 i g E) as [v' Hret]. exists v'. right; exact Hret.
    + (* free_ok *)
      intros k i g Hin. destruct (Hrest k i g Hin) as [Hin' Hne].
      destruct (ai_free_ok0 k i g Hin') as [A B]. split; [| exact B].
      rewrite updN_other; [exact A |]. intros Ei. apply Hne. symmetry. exact Ei.
    + (* distinct *)
      constructor; [| assumption]. intros Hin. apply in_map_iff in Hin.
      destruct Hin as [[[i g] v'] [E Hret]]. cbn [fst] in E. injection E as Ei Eg1.
      destruct (ai_ret_cur0 _ _ _ Hret) as [g1 [fr [Ec Hle]]]. rewrite Ei, Ecur in Ec.
      injection Ec as Eg2 Efr. lia.
  - (* generation overflow: the slot is leaked *)
    injection Hstep as Es' Eo. rewrite <- Es'. clear Es' Eo.
    destruct Hi. constructor; cbn; try assumption.
    intros k i g Hin. destruct (Hrest k i g Hin) as [Hin' _]. eauto.
Qed.

Lemma ainv_step s a s' o : ainv s -> astep s a = Some (s', o) -> ainv s'.
Proof.
  intros Hi Hstep. destruct a.
  - eapply ainv_clone; eauto.
  - eapply ainv_record; eauto.
  - eapply ainv_dropdone; eauto.
  - eapply ainv_take; eauto.
  - eapply ainv_push; eauto.
  - eapply ainv_load; eauto.
  - eapply ainv_write; eauto.
  - eapply ainv_publish; eauto.
  - eapply ainv_free; eauto.
  - eapply ainv_reuse; eauto.
  - cbn in Hstep. destruct (split_id idx) as [p sl].
    destruct (sl <? a_alloc s p); inversion Hstep; subst; exact Hi.
Qed.

Lemma areach_ainv s : areach s -> ainv s.
Proof.
  induction 1 as [| s a s' o Hr IH Hs]; [apply ainv_init | eapply ainv_step; eauto].
Qed.

(* ---------- C24 ---------- *)

Lemma distinct_ids s : areach s -> NoDup (map fst (a_ret s)).
Proof. intros Hr. apply (ai_distinct _ (areach_ainv _ Hr)). Qed.

(* two allocation events with the same identity are the same event *)
Lemma distinct_ids_pairwise s n m e1 e2 :
  areach s -> nth_error (a_ret s) n = Some e1 -> nth_error (a_ret s) m = Some e2 ->
  fst e1 = fst e2 -> n = m.
Proof.
  intros Hr H1 H2 E. pose proof (distinct_ids _ Hr) as Hnd.
  rewrite NoDup_nth_error in Hnd. apply Hnd.
  - rewrite map_length. apply nth_error_Some. congruence.
  - rewrite !nth_error_map, H1, H2. cbn. congruence.
Qed.

(* an id that is still current reads back the value it was created with *)
Lemma readback s i g v :
  areach s -> In ((i, g), v) (a_ret s) -> a_cur s i = Some (g, false) ->
  astep s (ARead i) = Some (s, OVal (Some v)).
Proof.
  intros Hr Hin Hc. pose proof (areach_ainv _ Hr) as Hi.
  destruct (ai_cur _ Hi i g false Hc) as [_ [Hsl _]].
  pose proof (ai_ret_data _ Hi i g v Hin Hc) as Hd.
  cbn. destruct (split_id i) as [p sl]. cbn in *.
  apply N.ltb_lt in Hsl. rewrite Hsl, Hd. reflexivity.
Qed.

(* whatever slot a reader finds below `allocated` is initialised, belongs to an id that was
   returned, and (unless the slot has since been deleted) holds that id's value *)
Lemma published_slot_initialised s p sl :
  areach s -> p < a_npages s -> sl < a_alloc s p ->
  exists g fr, a_cur s (make_id p sl) = Some (g, fr) /\
    (fr = false -> exists v, In ((make_id p sl, g), v) (a_ret s) /\ a_data s p sl = Some v).
Proof.
  intros Hr Hp Hsl. pose proof (areach_ainv _ Hr) as Hi.
  destruct (ai_pub _ Hi p sl Hp Hsl) as [g [fr Ec]]. exists g, fr. split; [exact Ec |].
  intros ->. destruct (ai_cur_ret _ Hi _ _ Ec) as [v Hin]. exists v. split; [exact Hin |].
  pose proof (ai_ret_data _ Hi _ _ _ Hin Ec) as Hd.
  pose proof (ai_npages _ Hi). pose proof (ai_alloc_le _ Hi p).
  rewrite split_make_id in Hd by lia. exact Hd.
Qed.

(* the ownership discipline that makes the non-atomic load/write/store sequence safe *)
Lemma page_ownership s :
  areach s ->
  (forall x y p, In x (a_hs s) -> In y (a_hs s) -> In p (pages_of x) -> In p (pages_of y) ->
                 ah_id x = ah_id y) /\
  (forall x, In x (a_hs s) -> NoDup (pages_of x)) /\
  NoDup (map snd (a_shared s)) /\
  (forall x p, In x (a_hs s) -> In p (pages_of x) -> ~ In p (map snd (a_shared s))) /\
  (forall p, a_alloc s p <= PAGE_LEN).
Proof.
  intros Hr. destruct (areach_ainv _ Hr). auto 10.
Qed.

(* a returned id is within the bounds `Id::from_index` requires *)
Lemma returned_id_bounds s i g v :
  areach s -> In ((i, g), v) (a_ret s) -> i < ID_MAX_U32 /\ g <= U32_MAX.
Proof.
  intros Hr Hin. pose proof (areach_ainv _ Hr) as Hi.
  destruct (ai_ret_cur _ Hi i g v Hin) as [g' [fr [Ec Hle]]].
  destruct (ai_cur _ Hi i g' fr Ec) as [A [B [C D]]].
  pose proof (ai_npages _ Hi). pose proof (ai_alloc_le _ Hi (fst (split_id i))).
  split; [| lia]. rewrite C. apply make_id_bound; lia.
Qed.

Lemma arun_reach : forall acts s s', areach s -> arun s acts = Some s' -> areach s'.
Proof.
  induction acts as [| a acts IH]; intros s s' Hr Hrun; cbn in Hrun.
  - inversion Hrun; subst; exact Hr.
  - destruct (astep s a) as [[s1 o] |] eqn:Es; [| discriminate].
    eapply IH; [| exact Hrun]. eapply ar_step; eauto.
Qed.

(* Alloc/Examples.v — the lemmas behind Props/C24.v in the form they are quoted there, and
   non-vacuity witnesses: a concrete interleaving with two handles allocating concurrently,
   a handle dropped and re-created, a recycled partially filled page, a deleted slot reused
   with a generation bump. *)
From Salsa Require Import Base.
From Salsa.Alloc Require Import Model.
From Salsa.Alloc Require Export Proofs.

Lemma C24_distinct_lemma :
  (forall s, areach s -> NoDup (map fst (a_ret s))) /\
  (forall s n m e1 e2, areach s ->
     nth_error (a_ret s) n = Some e1 -> nth_error (a_ret s) m = Some e2 ->
     fst e1 = fst e2 -> n = m) /\
  (forall s i g v, areach s -> In ((i, g), v) (a_ret s) -> i < ID_MAX_U32 /\ g <= U32_MAX).
Proof. split; [exact distinct_ids |]. split; [exact distinct_ids_pairwise | exact returned_id_bounds]. Qed.

Lemma C24_readback_lemma :
  (forall s i g v, areach s -> In ((i, g), v) (a_ret s) -> a_cur s i = Some (g, false) ->
     astep s (ARead i) = Some (s, OVal (Some v))) /\
  (forall s p sl, areach s -> p < a_npages s -> sl < a_alloc s p ->
     exists g fr, a_cur s (make_id p sl) = Some (g, fr) /\
       (fr = false -> exists v, In ((make_id p sl, g), v) (a_ret s) /\ a_data s p sl = Some v)).
Proof. split; [exact readback | exact published_slot_initialised]. Qed.

Lemma C24_ownership_lemma :
  forall s, areach s ->
  (forall x y p, In x (a_hs s) -> In y (a_hs s) -> In p (pages_of x) -> In p (pages_of y) ->
                 ah_id x = ah_id y) /\
  (forall x, In x (a_hs s) -> NoDup (pages_of x)) /\
  NoDup (map snd (a_shared s)) /\
  (forall x p, In x (a_hs s) -> In p (pages_of x) -> ~ In p (map snd (a_shared s))) /\
  (forall p, a_alloc s p <= PAGE_LEN).
Proof. exact page_ownership. Qed.

Definition alloc_demo : list aact :=
  [ APush 0 5;                              (* handle 0, ingredient 5: fresh page 0 *)
    ALoad 0 5; AWrite 0 100; APublish 0;    (* id 0 *)
    AClone 0;                               (* handle 1 *)
    APush 1 5;                              (* nothing to take: fresh page 1 *)
    ALoad 0 5; ALoad 1 5;                   (* two allocations in flight, interleaved *)
    AWrite 1 201; AWrite 0 101;
    APublish 1;                             (* id 128 = make_id 1 0 *)
    APublish 0;                             (* id 1 *)
    ARecord 1 5; ADropDone 1;               (* handle 1 dropped: page 1 goes to the shared list *)
    AClone 0;                               (* handle 2 (a handle "re-created") *)
    ATake 2 5;                              (* takes the partially filled page 1 *)
    ALoad 2 5; AWrite 2 202; APublish 2;    (* id 129: continues after slot 0 *)
    AFree 5 128 0;                          (* tracked struct 128 deleted *)
    AReuse 0 5 300;                         (* slot reused: id (128, generation 1) *)
    ARead 128; ARead 1; ARead 130 ].

Example alloc_demo_outputs :
  option_map snd (arun_out ainit alloc_demo) =
  Some [ OPage 0; OIndex 0 0; ONone; OId 0 0; ONewHandle 1; OPage 1; OIndex 0 1; OIndex 1 0;
         ONone; ONone; OId 128 0; OId 1 0; OPage 1; ONone; ONewHandle 2; OPage 1; OIndex 1 1;
         ONone; OId 129 0; ONone; OId 128 1; OVal (Some 300); OVal (Some 101); OOob ].
Proof. vm_compute. reflexivity. Qed.

Definition alloc_demo_state : astate :=
  match arun ainit alloc_demo with Some s => s | None => ainit end.

Example alloc_demo_reach : areach alloc_demo_state.
Proof. apply (arun_reach alloc_demo ainit); [apply ar_init | vm_compute; reflexivity]. Qed.

(* hypotheses of C24_distinct / C24_readback hold in a state with five returned ids, one of
   them a reused slot, one of them no longer current *)
Example alloc_demo_facts :
  a_ret alloc_demo_state =
    [ ((128, 1), 300); ((129, 0), 202); ((1, 0), 101); ((128, 0), 201); ((0, 0), 100) ] /\
  a_cur alloc_demo_state 128 = Some (1, false) /\
  a_cur alloc_demo_state 1 = Some (0, false) /\
  a_npages alloc_demo_state = 2 /\ a_alloc alloc_demo_state 1 = 2.
Proof. vm_compute. auto 10. Qed.

(* what goes wrong without exclusive page ownership: if two handles could load the same page
   before either publishes, both would obtain the same index.  In the model this schedule is
   not executable — the second handle has no way to get the page: *)
Example no_second_owner :
  match arun ainit [ APush 0 5; AClone 0; ALoad 0 5 ] with
  | Some s => astep s (ATake 1 5) = None /\ astep s (ALoad 1 5) = None
  | None => False
  end.
Proof. vm_compute. auto. Qed.

(* make_id / split_id on the boundary values *)
Example make_id_boundary :
  make_id 0 0 = 0 /\ make_id 1 0 = 128 /\ make_id 33554429 127 = 4294967039 /\
  split_id 4294967039 = (33554429, 127).
Proof. vm_compute. auto. Qed.

(* beyond MAX_PAGES the u32 shift wraps — which is why APush is disabled there *)
Example make_id_wraps_beyond_bound : make_id 33554432 0 = make_id 0 0.
Proof. vm_compute. reflexivity. Qed.

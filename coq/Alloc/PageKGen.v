(* Alloc/PageKGen.v — the kernels of Alloc/PageK.v, taken from the translator's output
   (coq/gen/Kernels.v, regenerated from /repo's Rust source): src/table.rs `make_id`, `split_id`,
   PAGE_LEN constants; src/id.rs `Id::next_generation`.  Same names, same types, same interface
   lemmas as the hand-written Alloc/PageK.v; Alloc/Model.v chooses between the two in its one
   `Require Export` line.  The model identifies an `Id` by (index, generation); the translated
   kernels work on the record `k_Id` (NonZero index word, generation): `make_id` projects the
   index, `split_id` goes through `k_id_from_index`. *)
From Coq Require Import NArith Bool Lia.
From Salsa.gen Require Import Kernels.
From Salsa.Kern Require Import K5_Id K6_Page.
Open Scope N_scope.

Definition PAGE_LEN_BITS : N := 7.
Definition PAGE_LEN : N := 128.
Definition PAGE_LEN_MASK : N := 127.
Definition ID_MAX_U32 : N := 4294967040.
Definition MAX_PAGES : N := 33554430.
Definition U32_MOD : N := 4294967296.
Definition U32_MAX : N := 4294967295.

(* the literals above are the translated constants *)
Lemma constants_are_translated :
  PAGE_LEN_BITS = k_PAGE_LEN_BITS /\ PAGE_LEN = k_PAGE_LEN /\ PAGE_LEN_MASK = k_PAGE_LEN_MASK /\
  ID_MAX_U32 = k_ID_MAX_U32 /\ MAX_PAGES = k_MAX_PAGES.
Proof. repeat split; reflexivity. Qed.

Definition make_id (page slot : N) : N := k_id_index (k_make_id page slot).

Definition split_id (index : N) : N * N := k_split_id (k_id_from_index index).

Definition next_generation (g : N) : option N :=
  match k_id_next_generation (mk_k_Id 1 g) with
  | Some id => Some (k_id_generation id)
  | None => None
  end.

(* ---- interface lemmas ---- *)

Lemma max_pages_ok : MAX_PAGES = ID_MAX_U32 / PAGE_LEN.
Proof. vm_compute. reflexivity. Qed.

Lemma make_id_arith page slot :
  page < MAX_PAGES -> slot < PAGE_LEN -> make_id page slot = page * PAGE_LEN + slot.
Proof.
  intros Hp Hs. unfold make_id. rewrite (k_make_id_eq page slot Hp Hs).
  unfold MAX_PAGES, PAGE_LEN in *.
  rewrite (proj1 (k_id_index_from_index (slot + page * 128) ltac:(lia))). lia.
Qed.

Lemma split_make_id page slot :
  page < MAX_PAGES -> slot < PAGE_LEN -> split_id (make_id page slot) = (page, slot).
Proof.
  intros Hp Hs. unfold split_id. rewrite (make_id_arith _ _ Hp Hs).
  replace (page * PAGE_LEN + slot) with (slot + page * 128) by (unfold PAGE_LEN; lia).
  rewrite <- (k_make_id_eq page slot Hp Hs). apply k_split_make_id; assumption.
Qed.

Lemma make_id_inj p1 s1 p2 s2 :
  p1 < MAX_PAGES -> s1 < PAGE_LEN -> p2 < MAX_PAGES -> s2 < PAGE_LEN ->
  make_id p1 s1 = make_id p2 s2 -> p1 = p2 /\ s1 = s2.
Proof.
  intros H1 H2 H3 H4 E.
  pose proof (split_make_id _ _ H1 H2) as E1. pose proof (split_make_id _ _ H3 H4) as E2.
  rewrite E in E1. rewrite E1 in E2. inversion E2; auto.
Qed.

(* the precondition of the unsafe `Id::from_index` *)
Lemma make_id_bound page slot :
  page < MAX_PAGES -> slot < PAGE_LEN -> make_id page slot < ID_MAX_U32.
Proof.
  intros Hp Hs. rewrite (make_id_arith _ _ Hp Hs).
  unfold MAX_PAGES, PAGE_LEN, ID_MAX_U32 in *. lia.
Qed.

Lemma split_id_slot_bound i : snd (split_id i) < PAGE_LEN.
Proof.
  unfold split_id. rewrite k_split_id_eq. cbn [snd]. unfold PAGE_LEN.
  change 127 with (N.ones 7). rewrite N.land_ones. apply N.mod_lt. cbn; lia.
Qed.

Lemma next_generation_spec g g' : next_generation g = Some g' -> g' = g + 1 /\ g' <= U32_MAX.
Proof.
  unfold next_generation.
  destruct (k_id_next_generation (mk_k_Id 1 g)) as [id |] eqn:E; [| discriminate].
  intros H; inversion H; subst g'.
  destruct (k_id_next_generation_spec _ _ E) as [Hg [_ Hlt]].
  unfold U32_MAX. cbn in Hg. split; [exact Hg | lia].
Qed.

Global Arguments make_id : simpl never.
Global Arguments split_id : simpl never.
Global Arguments next_generation : simpl never.

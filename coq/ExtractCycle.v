(* ExtractCycle.v — extraction of the executable Cycle model, its specifications (kleene,
   spec_fallback, evalo) and per-run certificates for the correspondence driver
   (ocaml/cycle_driver.ml).  Only ExtrOcamlBasic; no Extract Constant.  Monolithic extraction
   into one file because Salsa.Core.Model and Salsa.Cycle.Model share their short module name. *)
From Coq Require Import Extraction ExtrOcamlBasic.
From Salsa Require Import Base.
From Salsa.Kern Require Import CoreK.
From Salsa.Core Require Model Spec Dsl.
From Salsa.Cycle Require Import StampK Model Spec Cert DslSpec.
Extraction Language OCaml.
Extraction "cycle_model.ml"
  Model.cstep Model.crun_ops Model.cinit_db Model.clevel Model.cfetch Model.cpanic_code
  Model.iter_of Model.raw_heads Model.conv_of
  Spec.kleene Spec.spec_fallback Spec.cyclic_nodes Spec.succs DslSpec.mono_table Cert.is_fixpoint_state Cert.is_fallback_state Cert.csnap_of
  Salsa.Core.Spec.evalo Salsa.Core.Dsl.prog_of Salsa.Core.Dsl.binop_eval Base.panic_code
  StampK.stamp_iteration StampK.stamp_ccount
  N.of_nat N.to_nat Nat.add.

(* Life/ProofsOps.v — per-operation preservation lemmas (operations under `&db` that do not free). *)
From Salsa Require Import Base.
From Salsa.gen Require Import Kernels.
From Salsa.Kern Require Import K9_Retention.
From Salsa.Life Require Import Model ProofsBase ProofsInv ProofsStep.

Lemma Inv_slot_meta st j sl sl' :
  Inv st -> l_slots st j = Some sl ->
  (forall f, s_memos sl' f = s_memos sl f) -> s_fields sl' = s_fields sl ->
  (s_stamp sl <> None \/ s_kind sl <> KTracked) ->
  (lock_ok (l_cur st) (l_free st) j sl -> lock_ok (l_cur st) (l_free st) j sl') ->
  Inv (put_slot st j sl').
Proof.
  intros [HL HE HC HS HF HR HQ] E M F NF LK. constructor; simpl_st; auto.
  - eapply InvC_slot_meta; eauto.
  - eapply InvS_slot_meta; eauto. rewrite F. eapply is_fields; eauto.
  - apply InvF_slot_meta; auto. eapply not_free_of_stamp; eauto.
  - eapply InvR_slot_meta; eauto.
Qed.

Lemma Inv_push_ref st t v :
  Inv st -> ref_ok (l_cur st) (l_cells st) (l_slots st) (l_free st) (mk_ref t (l_cur st) v) ->
  Inv (push_ref st t v).
Proof.
  intros [HL HE HC HS HF HR HQ] H. constructor; simpl_st; auto.
  intros r [<-|Hr]; auto.
Qed.

Lemma Inv_qrecord st g : Inv st -> Inv (qrecord st g).
Proof.
  intros [HL HE HC HS HF HR HQ].
  destruct (qrecord_spec st g HQ) as (Q & E1 & E2 & E3 & E4 & E5 & E6 & E7 & E8 & E9 & E10 & E11 & E12 & E13 & E14).
  constructor; rewrite ?E1, ?E2, ?E3, ?E4, ?E5, ?E6, ?E7, ?E8, ?E9, ?E10, ?E11, ?E12, ?E13, ?E14; auto.
  rewrite <- E1. exact Q.
Qed.

Lemma Inv_clear_refs st : Inv st -> Inv (set_refs st []).
Proof.
  intros [HL HE HC HS HF HR HQ]. constructor; simpl_st; auto. apply InvR_nil.
Qed.

(* ---------------------------------------------------------------- OReadRef *)

Lemma readref_ok st n : Inv st -> fst (step_shared st (OReadRef n)) = st.
Proof.
  intros HI. cbn [step_shared]. destruct (nth_error (l_refs st) n) as [r|] eqn:E; [|reflexivity].
  apply nth_error_In in E. destruct (inv_r _ HI r E) as (_ & Ht).
  destruct (r_tgt r) as [c|j].
  - destruct Ht as (cl & Ec & Hs & _). rewrite Ec. destruct (c_state cl); try reflexivity. congruence.
  - destruct Ht as (sl & Es & Hf & _). rewrite Es, Hf. reflexivity.
Qed.

(* a kept reference reads the value it was handed out with *)
Lemma readref_value st n r :
  Inv st -> nth_error (l_refs st) n = Some r ->
  exists x, step_shared st (OReadRef n) = (st, LOk (Some x) (Some (r_val r))).
Proof.
  intros HI E. cbn [step_shared]. rewrite E.
  apply nth_error_In in E. destruct (inv_r _ HI r E) as (_ & Ht).
  destruct (r_tgt r) as [c|j].
  - destruct Ht as (cl & Ec & Hs & Hv & _). rewrite Ec. exists c.
    destruct (c_state cl); try congruence; now rewrite Hv.
  - destruct Ht as (sl & Es & Hf & _). rewrite Es, Hf. now exists j.
Qed.

(* ---------------------------------------------------------------- OPushPage *)

Lemma pushpage_inv st ing : Inv st -> Inv (fst (step_shared st (OPushPage ing))).
Proof.
  intros HI. cbn [step_shared]. destruct (N.ltb_spec (l_npages st) MAX_PAGES) as [Hlt|]; [|exact HI].
  cbn [fst]. destruct HI as [HL HE HC HS HF HR HQ]. constructor; simpl_st; auto.
  destruct HS as [D ND B P A FI]. constructor; auto.
  - intros j. rewrite B. split; intros (p & k & -> & Hp & Hk); exists p, k.
    + split; [reflexivity|]. split; [lia|]. rewrite updN_other by lia. exact Hk.
    + split; [reflexivity|]. unfold updN in Hk. destruct (N.eqb_spec (l_npages st) p); [lia|].
      split; [lia | exact Hk].
  - lia.
  - intros p. unfold updN. destruct (l_npages st =? p); [unfold PAGE_LEN; lia | apply A].
Qed.

(* ---------------------------------------------------------------- OReadField *)

Lemma readfield_inv st i : Inv st -> Inv (fst (step_shared st (OReadField i))).
Proof.
  intros HI. cbn [step_shared].
  match goal with |- Inv (fst (with_slot st i ?k)) =>
    destruct (with_slot_cases st i k (inv_s _ HI)) as [->|(j & sl & _ & Es & ->)]; [exact HI|] end.
  destruct (memos_access (l_cur st) sl) as [sl1|] eqn:EA; [|exact HI].
  destruct (contract_ok (l_cur st) sl1) eqn:EC; cbn [negb]; [|exact HI].
  destruct (memos_access_spec _ _ _ EA) as (K & I & G & R & F & M & T & NT).
  assert (Inv (put_slot st j sl1)) as HI1.
  { apply (Inv_slot_meta _ j sl);
      [exact HI | exact Es | intros f0; now rewrite M | exact F | | eapply access_lock_mono; eauto].
    destruct (s_kind sl) eqn:Ks; [right; congruence | left; apply T; reflexivity | right; congruence]. }
  pose proof (is_fields _ _ _ _ (inv_s _ HI) j sl Es) as Hf. rewrite <- F in Hf.
  destruct (s_fields sl1) as [v|] eqn:Ef; [|congruence]. cbn [fst].
  apply Inv_push_ref; [exact HI1|]. split; [reflexivity|]. cbn [r_tgt r_val].
  exists sl1. simpl_st. rewrite updN_same. repeat split; auto.
  eapply access_lock_ok; eauto.
Qed.

(* ---------------------------------------------------------------- OFetchMemo *)

Lemma fetch_inv st i f : Inv st -> Inv (fst (step_shared st (OFetchMemo i f))).
Proof.
  intros HI. cbn [step_shared]. destruct (f <? l_ntypes st); cbn [negb]; [|exact HI].
  match goal with |- Inv (fst (with_slot st i ?k)) =>
    destruct (with_slot_cases st i k (inv_s _ HI)) as [->|(j & sl & _ & Es & ->)]; [exact HI|] end.
  destruct (memos_access (l_cur st) sl) as [sl1|] eqn:EA; [|exact HI].
  destruct (contract_ok (l_cur st) sl1) eqn:EC; cbn [negb]; [|exact HI].
  destruct (memos_access_spec _ _ _ EA) as (K & I & G & R & F & M & T & NT).
  assert (Inv (put_slot st j sl1)) as HI1.
  { apply (Inv_slot_meta _ j sl);
      [exact HI | exact Es | intros f0; now rewrite M | exact F | | eapply access_lock_mono; eauto].
    destruct (s_kind sl) eqn:Ks; [right; congruence | left; apply T; reflexivity | right; congruence]. }
  destruct (s_memos sl1 f) as [c|] eqn:Em; [|exact HI1].
  rewrite M in Em.
  destruct (ic_table _ _ _ _ _ (inv_c _ HI) j sl f c Es Em) as (cl & Ec & L & S & Fn).
  replace (l_cells (put_slot st j sl1) c) with (l_cells st c) by reflexivity.
  rewrite Ec, L. destruct (c_val cl) as [v|] eqn:Ev; [|exact HI1]. cbn [fst].
  apply Inv_push_ref; [exact HI1|]. split; [reflexivity|]. cbn [r_tgt r_val].
  exists cl. simpl_st. repeat split; auto; [congruence|]. intros _.
  exists sl1. rewrite S, updN_same. split; [reflexivity|]. eapply access_lock_ok; eauto.
Qed.

(* ---------------------------------------------------------------- OInternHit / OInternMca *)

Lemma internhit_inv st i raise : Inv st -> Inv (fst (step_shared st (OInternHit i raise))).
Proof.
  intros HI. cbn [step_shared].
  match goal with |- Inv (fst (with_slot st i ?k)) =>
    destruct (with_slot_cases st i k (inv_s _ HI)) as [->|(j & sl & _ & Es & ->)]; [exact HI|] end.
  destruct (s_kind sl) eqn:K; cbn [is_kind negb]; try exact HI. cbn [fst].
  pose proof (Inv_qrecord st (s_ing sl) HI) as HI0.
  destruct (qrecord_spec st (s_ing sl) (inv_q _ HI)) as (_ & E1 & _ & _ & _ & _ & _ & _ & E8 & _ & E10 & _).
  rewrite <- E1.
  apply (Inv_slot_meta _ j sl);
    [exact HI0 | rewrite E8; exact Es | intros f; reflexivity | reflexivity | right; congruence |].
  rewrite E1, E10. unfold lock_ok. simpl_sl. rewrite K. intros [H|(l & H1 & H2)].
  - left. rewrite H. reflexivity.
  - right. rewrite H1. exists (N.max l (l_cur st)). split; [reflexivity | lia].
Qed.

Lemma internmca_inv st i g : Inv st -> Inv (fst (step_shared st (OInternMca i g))).
Proof.
  intros HI. cbn [step_shared].
  match goal with |- Inv (fst (with_slot st i ?k)) =>
    destruct (with_slot_cases st i k (inv_s _ HI)) as [->|(j & sl & _ & Es & ->)]; [exact HI|] end.
  destruct (s_kind sl) eqn:K; cbn [is_kind negb]; try exact HI.
  pose proof (Inv_qrecord st (s_ing sl) HI) as HI0.
  destruct (g <? s_gen sl); [exact HI0|]. cbn [fst].
  destruct (qrecord_spec st (s_ing sl) (inv_q _ HI)) as (_ & E1 & _ & _ & _ & _ & _ & _ & E8 & _ & E10 & _).
  rewrite <- E1.
  apply (Inv_slot_meta _ j sl);
    [exact HI0 | rewrite E8; exact Es | intros f; reflexivity | reflexivity | right; congruence |].
  rewrite E1, E10. unfold lock_ok. simpl_sl. rewrite K. intros [H|_]; [now left|].
    right. exists (l_cur st). split; [reflexivity | lia].
Qed.

(* Life/ProofsInsert.v — insert_memo: a new Live cell, the previous one becomes Retired. *)
From Salsa Require Import Base.
From Salsa.gen Require Import Kernels.
From Salsa.Life Require Import Model ProofsBase ProofsInv ProofsStep ProofsOps.

Definition retired_of (cl : mcell) : mcell :=
  mk_cell Retired (c_slot cl) (c_fn cl) (c_val cl) (c_frees cl).

Lemma InvC_insert nt nc cells slots del j sl sl1 f ov :
  InvC nt nc cells slots del -> slots j = Some sl -> f < nt ->
  (forall f0, s_memos sl1 f0 = s_memos sl f0) ->
  s_memos sl f = None ->
  InvC nt (nc + 1) (updN cells nc (Some (mk_cell Live j f ov 0)))
       (updN slots j (Some (set_memos sl1 (updN (s_memos sl1) f (Some nc))))) del.
Proof.
  intros HC Es Hf M Eold. destruct HC as [D L T D1 D2 ND FR].
  assert (cells nc = None) as Enc.
  { destruct (cells nc) eqn:E; [|reflexivity]. assert (nc < nc) by (apply D; congruence). lia. }
  constructor.
  - intros c. unfold updN. destruct (N.eqb_spec nc c) as [<-|Hne].
    + split; [lia | discriminate].
    + rewrite D. lia.
  - intros c cl. unfold updN at 1. destruct (N.eqb_spec nc c) as [<-|Hne].
    + intros H _. injection H as <-. cbn. split; [exact Hf|].
      eexists. rewrite updN_same. split; [reflexivity|]. simpl_sl. now rewrite updN_same.
    + intros Ec Hl. destruct (L c cl Ec Hl) as (Hfn & sl0 & Es0 & Em). split; [exact Hfn|].
      unfold updN at 1. destruct (N.eqb_spec j (c_slot cl)) as [Heq|Hnj]; [|eauto].
      eexists. split; [reflexivity|]. simpl_sl. rewrite <- Heq in Es0. rewrite Es in Es0. injection Es0 as <-.
      unfold updN. destruct (N.eqb_spec f (c_fn cl)) as [->|]; [congruence|]. now rewrite M.
  - intros j0 sl0 f0 c. unfold updN at 1. destruct (N.eqb_spec j j0) as [<-|Hnj].
    + intros H. injection H as <-. simpl_sl. unfold updN at 1.
      destruct (N.eqb_spec f f0) as [<-|Hnf].
      * intros H. injection H as <-. eexists. rewrite updN_same. repeat split.
      * rewrite M. intros Em. destruct (T j sl f0 c Es Em) as (cl & Ec & H).
        exists cl. rewrite updN_other; [auto|]. intros <-. congruence.
    + intros Es0 Em. destruct (T j0 sl0 f0 c Es0 Em) as (cl & Ec & H).
      exists cl. rewrite updN_other; [auto|]. intros <-. congruence.
  - intros c Hc. destruct (D1 c Hc) as (cl & Ec & R). exists cl. rewrite updN_other; [auto|].
    intros <-. congruence.
  - intros c cl. unfold updN. destruct (N.eqb_spec nc c) as [<-|]; [|apply D2].
    intros H. injection H as <-. discriminate.
  - exact ND.
  - intros c cl. unfold updN. destruct (N.eqb_spec nc c) as [<-|]; [|apply FR].
    intros H. injection H as <-. reflexivity.
Qed.

Lemma InvC_replace nt nc cells slots del j sl sl1 f ov old clo :
  InvC nt nc cells slots del -> slots j = Some sl -> f < nt ->
  (forall f0, s_memos sl1 f0 = s_memos sl f0) ->
  s_memos sl f = Some old -> cells old = Some clo ->
  InvC nt (nc + 1)
       (updN (updN cells nc (Some (mk_cell Live j f ov 0))) old (Some (retired_of clo)))
       (updN slots j (Some (set_memos sl1 (updN (s_memos sl1) f (Some nc))))) (old :: del).
Proof.
  intros HC Es Hf M Eold Eclo. pose proof HC as [D L T D1 D2 ND FR].
  destruct (T j sl f old Es Eold) as (clo' & Eclo' & Lo & So & Fo).
  rewrite Eclo in Eclo'. injection Eclo' as <-.
  assert (cells nc = None) as Enc.
  { destruct (cells nc) eqn:E; [|reflexivity]. assert (nc < nc) by (apply D; congruence). lia. }
  assert (old <> nc) as Hon by congruence.
  constructor.
  - intros c. unfold updN. destruct (N.eqb_spec old c) as [<-|Ho].
    + split; [intros _|discriminate]. assert (old < nc) by (apply D; congruence). lia.
    + destruct (N.eqb_spec nc c) as [<-|Hne]; [split; [lia | discriminate]|]. rewrite D. lia.
  - intros c cl. unfold updN at 1. destruct (N.eqb_spec old c) as [<-|Ho].
    + intros H. injection H as <-. discriminate.
    + unfold updN at 1. destruct (N.eqb_spec nc c) as [<-|Hne].
      * intros H _. injection H as <-. cbn. split; [exact Hf|].
        eexists. rewrite updN_same. split; [reflexivity|]. simpl_sl. now rewrite updN_same.
      * intros Ec Hl. destruct (L c cl Ec Hl) as (Hfn & sl0 & Es0 & Em). split; [exact Hfn|].
        unfold updN at 1. destruct (N.eqb_spec j (c_slot cl)) as [Heq|Hnj]; [|eauto].
        eexists. split; [reflexivity|]. simpl_sl. rewrite <- Heq in Es0. rewrite Es in Es0. injection Es0 as <-.
        unfold updN. destruct (N.eqb_spec f (c_fn cl)) as [->|]; [congruence|]. now rewrite M.
  - intros j0 sl0 f0 c. unfold updN at 1. destruct (N.eqb_spec j j0) as [<-|Hnj].
    + intros H. injection H as <-. simpl_sl. unfold updN at 1.
      destruct (N.eqb_spec f f0) as [<-|Hnf].
      * intros H. injection H as <-. eexists. rewrite updN_other by congruence. rewrite updN_same. repeat split.
      * rewrite M. intros Em. destruct (T j sl f0 c Es Em) as (cl & Ec & Hl & Hs & Hfn).
        exists cl. rewrite !updN_other; [auto | intros <-; congruence | intros <-; congruence].
    + intros Es0 Em. destruct (T j0 sl0 f0 c Es0 Em) as (cl & Ec & Hl & Hs & Hfn).
      exists cl. rewrite !updN_other; [auto | intros <-; congruence | intros <-; congruence].
  - intros c [<-|Hc].
    + exists (retired_of clo). rewrite updN_same. split; reflexivity.
    + destruct (D1 c Hc) as (cl & Ec & R). exists cl.
      rewrite !updN_other; [auto | intros <-; congruence | intros <-; congruence].
  - intros c cl. unfold updN at 1. destruct (N.eqb_spec old c) as [<-|Ho]; [intros _ _; now left|].
    unfold updN. destruct (N.eqb_spec nc c) as [<-|].
    + intros H. injection H as <-. discriminate.
    + intros Ec R. right. eapply D2; eauto.
  - constructor; [|exact ND]. intros Hin. destruct (D1 old Hin) as (cl & Ec & R). congruence.
  - intros c cl. unfold updN at 1. destruct (N.eqb_spec old c) as [<-|Ho].
    + intros H. injection H as <-. cbn. rewrite (FR old clo Eclo), Lo. reflexivity.
    + unfold updN. destruct (N.eqb_spec nc c) as [<-|]; [|apply FR].
      intros H. injection H as <-. reflexivity.
Qed.

(* references: existing ones keep denoting what they denoted (a replaced cell is Retired, still
   allocated, value untouched) *)
Lemma InvR_insert cur cells slots free refs j sl sl1 nc newc (old : option N) :
  InvR cur cells slots free refs -> slots j = Some sl -> cells nc = None ->
  s_kind sl1 = s_kind sl -> s_ing sl1 = s_ing sl -> s_fields sl1 = s_fields sl ->
  (lock_ok cur free j sl -> lock_ok cur free j sl1) ->
  forall m,
  InvR cur
    (match old with
     | Some o => match cells o with
                 | Some clo => updN (updN cells nc (Some newc)) o (Some (retired_of clo))
                 | None => updN cells nc (Some newc)
                 end
     | None => updN cells nc (Some newc)
     end)
    (updN slots j (Some (set_memos sl1 m))) free refs.
Proof.
  intros H Es Enc K I F LK m r Hr. destruct (H r Hr) as (Hrev & Ht). split; [exact Hrev|].
  assert (forall j0 sl0, slots j0 = Some sl0 -> lock_ok cur free j0 sl0 ->
          exists sl2, updN slots j (Some (set_memos sl1 m)) j0 = Some sl2 /\ lock_ok cur free j0 sl2 /\
                      s_fields sl2 = s_fields sl0) as Hslot.
  { intros j0 sl0 Es0 Hk. unfold updN. destruct (N.eqb_spec j j0) as [<-|]; [|eauto].
    rewrite Es in Es0. injection Es0 as <-. eexists. split; [reflexivity|]. split; [|exact F].
    apply LK in Hk. unfold lock_ok in *. simpl_sl. exact Hk. }
  destruct (r_tgt r) as [c|j0].
  - destruct Ht as (cl & Ec & Hs & Hv & Hl).
    assert (c <> nc) as Hcn by congruence.
    destruct old as [o|].
    + destruct (cells o) as [clo|] eqn:Eo.
      * unfold updN at 1. destruct (N.eqb_spec o c) as [<-|Hoc].
        -- rewrite Ec in Eo. injection Eo as <-. exists (retired_of cl). split; [reflexivity|].
           cbn. repeat split; auto; discriminate.
        -- exists cl. rewrite updN_other by congruence. repeat split; auto. intros Hlive.
           destruct (Hl Hlive) as (sl0 & Es0 & Hk). destruct (Hslot _ _ Es0 Hk) as (sl2 & E2 & K2 & _). eauto.
      * exists cl. rewrite updN_other by congruence. repeat split; auto. intros Hlive.
        destruct (Hl Hlive) as (sl0 & Es0 & Hk). destruct (Hslot _ _ Es0 Hk) as (sl2 & E2 & K2 & _). eauto.
    + exists cl. rewrite updN_other by congruence. repeat split; auto. intros Hlive.
      destruct (Hl Hlive) as (sl0 & Es0 & Hk). destruct (Hslot _ _ Es0 Hk) as (sl2 & E2 & K2 & _). eauto.
  - destruct Ht as (sl0 & Es0 & Hf & Hk). destruct (Hslot _ _ Es0 Hk) as (sl2 & E2 & K2 & F2).
    exists sl2. repeat split; auto. congruence.
Qed.

Lemma lock_ok_set_memos cur free j sl m :
  lock_ok cur free j (set_memos sl m) <-> lock_ok cur free j sl.
Proof. unfold lock_ok. simpl_sl. tauto. Qed.

Lemma insert_inv st i f ov : Inv st -> Inv (fst (step_shared st (OInsertMemo i f ov))).
Proof.
  intros HI. cbn [step_shared].
  destruct (N.ltb_spec f (l_ntypes st)) as [Hf|]; cbn [negb]; [|exact HI].
  match goal with |- Inv (fst (with_slot st i ?k)) =>
    destruct (with_slot_cases st i k (inv_s _ HI)) as [->|(j & sl & _ & Es & ->)]; [exact HI|] end.
  destruct (memos_access (l_cur st) sl) as [sl1|] eqn:EA; [|exact HI].
  destruct (contract_ok (l_cur st) sl1) eqn:EC; cbn [negb]; [|exact HI].
  destruct (memos_access_spec _ _ _ EA) as (K & I & G & R & F & M & T & NT).
  pose proof (access_not_free _ _ _ _ _ _ (inv_f _ HI) Es EA) as NF.
  pose proof (access_lock_ok (l_cur st) (l_free st) j sl sl1 EA EC) as LK1.
  assert (l_cells st (l_ncells st) = None) as Enc.
  { destruct (l_cells st (l_ncells st)) eqn:E; [|reflexivity].
    assert (l_ncells st < l_ncells st) by (apply (ic_dom _ _ _ _ _ (inv_c _ HI)); congruence). lia. }
  assert (s_fields sl1 <> None) as Hfld.
  { rewrite F. eapply is_fields; [apply (inv_s _ HI) | eauto]. }
  cbn [fst].
  destruct (s_memos sl1 f) as [old|] eqn:Eold.
  - (* an older memo is replaced and retired *)
    assert (s_memos sl f = Some old) as Eold' by (now rewrite <- M).
    destruct (ic_table _ _ _ _ _ (inv_c _ HI) j sl f old Es Eold') as (clo & Eclo & Lo & So & Fo).
    assert (old <> l_ncells st) as Hon by congruence.
    unfold retire_cell. simpl_st. rewrite (updN_other _ (l_ncells st) old) by congruence. rewrite Eclo, Lo. cbv iota.
    assert (Inv (mk_l (l_cur st) (l_ntypes st) (l_ncells st + 1)
              (updN (updN (l_cells st) (l_ncells st) (Some (mk_cell Live j f ov 0))) old
                    (Some (retired_of clo)))
              (l_npages st) (l_ping st) (l_palloc st)
              (updN (l_slots st) j (Some (set_memos sl1 (updN (s_memos sl1) f (Some (l_ncells st))))))
              (l_slotids st) (l_free st) (old :: l_deleted st) (l_queue st) (l_refs st)
              (l_dropped st) (l_err st))) as HI3.
    { destruct HI as [HL HE HC HS HF HR HQ]. constructor; simpl_st; auto.
      - eapply InvC_replace; eauto. intros f0. now rewrite M.
      - eapply InvS_slot_meta; eauto.
      - apply InvF_slot_meta; auto.
      - pose proof (InvR_insert (l_cur st) (l_cells st) (l_slots st) (l_free st) (l_refs st) j sl sl1
                      (l_ncells st) (mk_cell Live j f ov 0) (Some old) HR Es Enc K I F
                      (access_lock_mono _ _ _ _ _ EA)
                      (updN (s_memos sl1) f (Some (l_ncells st)))) as H.
        cbn in H. rewrite Eclo in H. exact H. }
    unfold retired_of in HI3.
    destruct ov as [v|]; [|exact HI3].
    apply (Inv_push_ref _ (TCell (l_ncells st)) v HI3). split; [reflexivity|]. cbn [r_tgt r_val]. simpl_st.
    eexists. rewrite updN_other by congruence. rewrite updN_same. split; [reflexivity|]. cbn.
    repeat split; [discriminate|]. intros _. eexists. rewrite updN_same. split; [reflexivity|].
    apply lock_ok_set_memos. exact LK1.
  - assert (s_memos sl f = None) as Eold' by (now rewrite <- M).
    assert (Inv (mk_l (l_cur st) (l_ntypes st) (l_ncells st + 1)
              (updN (l_cells st) (l_ncells st) (Some (mk_cell Live j f ov 0)))
              (l_npages st) (l_ping st) (l_palloc st)
              (updN (l_slots st) j (Some (set_memos sl1 (updN (s_memos sl1) f (Some (l_ncells st))))))
              (l_slotids st) (l_free st) (l_deleted st) (l_queue st) (l_refs st)
              (l_dropped st) (l_err st))) as HI3.
    { destruct HI as [HL HE HC HS HF HR HQ]. constructor; simpl_st; auto.
      - eapply InvC_insert; eauto. intros f0. now rewrite M.
      - eapply InvS_slot_meta; eauto.
      - apply InvF_slot_meta; auto.
      - exact (InvR_insert (l_cur st) (l_cells st) (l_slots st) (l_free st) (l_refs st) j sl sl1
                      (l_ncells st) (mk_cell Live j f ov 0) None HR Es Enc K I F
                      (access_lock_mono _ _ _ _ _ EA)
                      (updN (s_memos sl1) f (Some (l_ncells st)))). }
    simpl_st.
    destruct ov as [v|]; [|exact HI3].
    apply (Inv_push_ref _ (TCell (l_ncells st)) v HI3). split; [reflexivity|]. cbn [r_tgt r_val]. simpl_st.
    eexists. rewrite updN_same. split; [reflexivity|]. cbn.
    repeat split; [discriminate|]. intros _. eexists. rewrite updN_same. split; [reflexivity|].
    apply lock_ok_set_memos. exact LK1.
Qed.

(* Life/ProofsBase.v — list / map lemmas and the effect of the cell-freeing primitives of
   Life/Model.v.  No property statements here. *)
From Salsa Require Import Base.
From Salsa.gen Require Import Kernels.
From Salsa.Life Require Import Model.
From Coq Require Import FinFun.

(* ---------------------------------------------------------------- lists *)

Lemma In_range n x : In x (range n) <-> x < n.
Proof.
  unfold range. rewrite in_map_iff. split.
  - intros (k & <- & Hk). apply in_seq in Hk. lia.
  - intros H. exists (N.to_nat x). split; [apply N2Nat.id|]. apply in_seq. lia.
Qed.

Lemma NoDup_range n : NoDup (range n).
Proof.
  unfold range. apply Injective_map_NoDup; [|apply seq_NoDup].
  intros a b H. now apply Nat2N.inj.
Qed.

Lemma NoDup_app_intro {A} (l1 l2 : list A) :
  NoDup l1 -> NoDup l2 -> (forall x, In x l1 -> ~ In x l2) -> NoDup (l1 ++ l2).
Proof.
  induction l1 as [|a l1 IH]; intros H1 H2 Hd; [exact H2|].
  inversion H1 as [|? ? Ha Hl1]; subst. cbn. constructor.
  - rewrite in_app_iff. intros [H|H]; [contradiction|]. apply (Hd a); [now left|exact H].
  - apply IH; auto. intros x Hx. apply Hd. now right.
Qed.

Lemma NoDup_app_elim {A} (l1 l2 : list A) :
  NoDup (l1 ++ l2) -> NoDup l1 /\ NoDup l2 /\ (forall x, In x l1 -> ~ In x l2).
Proof.
  induction l1 as [|a l1 IH]; cbn; intros H.
  - repeat split; auto. constructor.
  - inversion H as [|? ? Ha Hl]; subst. destruct (IH Hl) as (N1 & N2 & D).
    rewrite in_app_iff in Ha. repeat split; auto.
    + constructor; tauto.
    + intros x [<-|Hx]; [tauto | now apply D].
Qed.

Lemma NoDup_flat_map {A B} (f : A -> list B) l :
  NoDup l -> (forall a, In a l -> NoDup (f a)) ->
  (forall a b x, In a l -> In b l -> In x (f a) -> In x (f b) -> a = b) ->
  NoDup (flat_map f l).
Proof.
  induction l as [|a l IH]; intros Hl Hf Hd; cbn; [constructor|].
  inversion Hl as [|? ? Ha Hl']; subst.
  apply NoDup_app_intro.
  - apply Hf. now left.
  - apply IH; auto.
    + intros b Hb. apply Hf. now right.
    + intros b c x Hb Hc. apply Hd; now right.
  - intros x Hx Hx'. apply in_flat_map in Hx'. destruct Hx' as (b & Hb & Hxb).
    assert (a = b) by (apply (Hd a b x); [now left | now right | auto | auto]). subst. contradiction.
Qed.

Lemma In_table_cells n m c : In c (table_cells n m) <-> exists f, f < n /\ m f = Some c.
Proof.
  unfold table_cells. rewrite in_flat_map. split.
  - intros (f & Hf & Hc). apply In_range in Hf. destruct (m f) eqn:E; [|destruct Hc].
    destruct Hc as [<-|[]]. eauto.
  - intros (f & Hf & E). exists f. split; [now apply In_range|]. rewrite E. now left.
Qed.

Lemma NoDup_table_cells n m :
  (forall f g c, m f = Some c -> m g = Some c -> f = g) -> NoDup (table_cells n m).
Proof.
  intros Hinj. unfold table_cells. apply NoDup_flat_map.
  - apply NoDup_range.
  - intros f _. destruct (m f); repeat constructor. intros [].
  - intros f g x _ _ Hf Hg. destruct (m f) eqn:Ef; [|destruct Hf]. destruct (m g) eqn:Eg; [|destruct Hg].
    destruct Hf as [<-|[]]. destruct Hg as [->|[]]. eapply Hinj; eauto.
Qed.

Lemma table_cells_no_memos n : table_cells n no_memos = [].
Proof.
  unfold table_cells, no_memos. induction (range n) as [|a l IH]; [reflexivity | exact IH].
Qed.

(* ---------------------------------------------------------------- frames *)

(* everything except the cell store and the error flag *)
Definition same_but_cells (st st' : lstate) : Prop :=
  l_cur st' = l_cur st /\ l_ntypes st' = l_ntypes st /\ l_ncells st' = l_ncells st /\
  l_npages st' = l_npages st /\ l_ping st' = l_ping st /\ l_palloc st' = l_palloc st /\
  l_slots st' = l_slots st /\ l_slotids st' = l_slotids st /\ l_free st' = l_free st /\
  l_deleted st' = l_deleted st /\ l_queue st' = l_queue st /\ l_refs st' = l_refs st /\
  l_dropped st' = l_dropped st.

Lemma same_but_cells_refl st : same_but_cells st st.
Proof. unfold same_but_cells. tauto. Qed.

Lemma same_but_cells_trans a b c : same_but_cells a b -> same_but_cells b c -> same_but_cells a c.
Proof.
  unfold same_but_cells. intros H1 H2.
  repeat match goal with H : _ /\ _ |- _ => destruct H end.
  repeat split; congruence.
Qed.

Definition freed_of (cl : mcell) : mcell :=
  mk_cell Freed (c_slot cl) (c_fn cl) None (c_frees cl + 1).

Lemma free_cell_some c st cl :
  l_cells st c = Some cl ->
  same_but_cells st (free_cell c st) /\ l_err (free_cell c st) = l_err st /\
  l_cells (free_cell c st) c = Some (freed_of cl) /\
  (forall d, d <> c -> l_cells (free_cell c st) d = l_cells st d).
Proof.
  intros E. unfold free_cell. rewrite E. cbn.
  split; [unfold same_but_cells; cbn; tauto|]. split; [reflexivity|].
  split; [now rewrite updN_same|]. intros d Hd. apply updN_other. congruence.
Qed.

Lemma free_cells_spec cs : forall st,
  NoDup cs -> (forall c, In c cs -> l_cells st c <> None) ->
  same_but_cells st (free_cells cs st) /\ l_err (free_cells cs st) = l_err st /\
  (forall c, In c cs -> exists cl, l_cells st c = Some cl /\
                                   l_cells (free_cells cs st) c = Some (freed_of cl)) /\
  (forall c, ~ In c cs -> l_cells (free_cells cs st) c = l_cells st c).
Proof.
  induction cs as [|a cs IH]; intros st Hnd Hex.
  - cbn. split; [apply same_but_cells_refl|]. split; [reflexivity|]. split; [intros c []| reflexivity].
  - inversion Hnd as [|? ? Ha Hnd']; subst.
    destruct (l_cells st a) as [cl|] eqn:Ea; [|exfalso; apply (Hex a); [now left | exact Ea]].
    destruct (free_cell_some a st cl Ea) as (F1 & F2 & F3 & F4).
    change (free_cells (a :: cs) st) with (free_cells cs (free_cell a st)).
    destruct (IH (free_cell a st) Hnd') as (G1 & G2 & G3 & G4).
    { intros c Hc. rewrite F4; [apply Hex; now right | intros ->; contradiction]. }
    split; [eapply same_but_cells_trans; eauto|]. split; [congruence|]. split.
    + intros c [<-|Hc].
      * exists cl. split; [exact Ea|]. rewrite G4; auto.
      * destruct (G3 c Hc) as (cl' & E1 & E2). exists cl'. split; [|exact E2].
        rewrite <- E1. symmetry. apply F4. intros ->; contradiction.
    + intros c Hc. rewrite G4 by (intros H; apply Hc; now right).
      apply F4. intros ->. apply Hc. now left.
Qed.

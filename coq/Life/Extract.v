(* Life/Extract.v — extraction of the executable lifetime machine (Life/Model.v) for the OCaml
   replayer /verif/ocaml/life/replay.ml.  ExtrOcamlBasic only: bool, option, unit, list, prod,
   sumbool are mapped to OCaml's; N / positive / nat stay the extracted inductives.
   Compiled by /verif/ocaml/life/build.sh in its build directory (the .ml goes to the cwd);
   not part of _CoqProject. *)
From Coq Require Import Extraction ExtrOcamlBasic.
From Salsa Require Import Base.
From Salsa.Life Require Import Model.

Extraction Language OCaml.

Extraction "life_model.ml"
  linit lstep
  l_cur l_ntypes l_ncells l_cells l_npages l_palloc l_slots l_slotids l_free l_deleted l_queue
  l_refs l_dropped l_err
  c_state c_slot c_fn c_val c_frees
  s_kind s_ing s_gen s_stamp s_reusable s_fields s_memos
  r_tgt r_rev r_val
  split_id make_id loc table_cells.

(* Life/Examples.v — concrete runs of the lifetime machine (non-vacuity of the C23 lemmas and of
   their hypotheses; the behaviours the guards are there for). *)
From Salsa Require Import Base.
From Salsa.gen Require Import Kernels.
From Salsa.Life Require Import Model Proofs.

Definition ql3 : N -> nat := fun _ => 3%nat.

Example ex_qlen_ok : qlen_ok ql3.
Proof. intros g. vm_compute. reflexivity. Qed.

Definition st_of (ops : list lop) : lstate := lrun (linit 2 ql3) ops.
Definition outs_of (ops : list lop) : list lout := lrun_outs (linit 2 ql3) ops.
Definition cell_view (st : lstate) (c : N) : option (cstate * option val * N) :=
  match l_cells st c with Some cl => Some (c_state cl, c_val cl, c_frees cl) | None => None end.

(* An input with one memoised function: the memo is replaced twice within a revision (a cycle
   iteration would do that), the first reference stays readable, the new revision frees the two
   retired cells, eviction drops the value in place, drop frees the rest. *)
Definition h_input : list lop :=
  [ OPushPage 0; ONewSlot KInput 0 7 false;        (* location 0 *)
    OInsertMemo 0 0 (Some 10);                     (* cell 0, reference 0 *)
    OInsertMemo 0 0 (Some 11);                     (* cell 1; cell 0 retired *)
    OInsertMemo 0 0 (Some 12);                     (* cell 2; cell 1 retired *)
    OReadRef 2;                                    (* the oldest reference: still 10 *)
    ONewRevision [];                               (* cells 0 and 1 freed, references gone *)
    OFetchMemo 0 0;                                (* cell 2 again *)
    OEvictLru [(0, 0, true)];                      (* value of cell 2 dropped in place *)
    OFetchMemo 0 0;                                (* no value, no reference *)
    ODropDb ].

Example ex_input_history :
  outs_of h_input =
    [ LOk (Some 0) None; LOk (Some 0) None; LOk (Some 0) (Some 10); LOk (Some 1) (Some 11);
      LOk (Some 2) (Some 12); LOk (Some 0) (Some 10); LOk (Some 2) None; LOk (Some 2) (Some 12);
      LOk None None; LOk (Some 2) None; LOk None None ] /\
  map (cell_view (st_of (firstn 6 h_input))) [0; 1; 2] =
    [ Some (Retired, Some 10, 0); Some (Retired, Some 11, 0); Some (Live, Some 12, 0) ] /\
  map (cell_view (st_of (firstn 7 h_input))) [0; 1; 2] =
    [ Some (Freed, None, 1); Some (Freed, None, 1); Some (Live, Some 12, 0) ] /\
  map (cell_view (st_of h_input)) [0; 1; 2] =
    [ Some (Freed, None, 1); Some (Freed, None, 1); Some (Freed, None, 1) ] /\
  l_err (st_of h_input) = false /\ l_dropped (st_of h_input) = true.
Proof. vm_compute. repeat split. Qed.

(* A tracked struct: its memo is freed under `&db` by delete_entity in a later revision; in the
   revision in which the memo was handed out delete_entity panics instead (after the swap) and
   the reference stays valid; the slot is reused with the next generation. *)
Definition h_struct : list lop :=
  [ OPushPage 5; ONewSlot KTracked 0 1 false;      (* location 0, updated_at = R1 *)
    OInsertMemo 0 1 (Some 20);                     (* cell 0, reference *)
    ODeleteEntity 0 false;                         (* read-locked in R1: panic *)
    OReadRef 0 ].

Example ex_delete_in_same_revision_panics :
  outs_of h_struct =
    [ LOk (Some 0) None; LOk (Some 0) None; LOk (Some 0) (Some 20); LPanic P_DELETE_LOCKED;
      LOk (Some 0) (Some 20) ] /\
  cell_view (st_of h_struct) 0 = Some (Live, Some 20, 0).
Proof. vm_compute. repeat split. Qed.

Definition h_struct2 : list lop :=
  [ OPushPage 5; ONewSlot KTracked 0 1 false;
    OInsertMemo 0 1 (Some 20);
    ONewRevision [];
    ODeleteEntity 0 false;                         (* updated_at = R1 <> R2: memo freed at once *)
    OFetchMemo 0 1;                                (* write lock taken: panic *)
    OReuseStruct 5 2;                              (* generation 1, updated_at = R2 *)
    OFetchMemo 0 1;                                (* empty table *)
    OReadField 0;
    OUpdateStruct 0 3 false;                       (* read-locked in R2: untouched *)
    OReadRef 0;
    ODropDb ].

Example ex_delete_reuse :
  outs_of h_struct2 =
    [ LOk (Some 0) None; LOk (Some 0) None; LOk (Some 0) (Some 20); LOk (Some 2) None;
      LOk None None; LPanic P_WRITE_LOCKED; LOk (Some 0) None; LOk None None;
      LOk (Some 0) (Some 2); LOk (Some 0) None; LOk (Some 0) (Some 2); LOk None None ] /\
  cell_view (st_of (firstn 5 h_struct2)) 0 = Some (Freed, None, 1) /\
  cell_view (st_of h_struct2) 0 = Some (Freed, None, 1).
Proof. vm_compute. repeat split. Qed.

(* An interned value (REVISIONS = 3): reusable, goes stale after three further revisions in which
   the ingredient is used, is then reused (its memo is freed under `&db`); before that the machine
   refuses a memo access that was not preceded by a validation in the current revision. *)
Definition h_intern : list lop :=
  [ OPushPage 9; ONewSlot KInterned 0 1 true;      (* location 0, stamp R1 *)
    OInsertMemo 0 0 (Some 30);                     (* cell 0 *)
    ONewRevision [];
    OFetchMemo 0 0;                                (* not validated in R2: refused *)
    OInternMca 0 0;                                (* validated: stamp R2 *)
    OFetchMemo 0 0;                                (* fine *)
    OInternReuse 0 5 true;                         (* not stale: refused *)
    ONewRevision []; ONewSlot KInterned 0 2 true;  (* R3, location 1 *)
    ONewRevision []; OInternHit 1 false;           (* R4 *)
    ONewRevision []; OInternHit 1 false;           (* R5: queue [5;4;3], stamp 2 is stale *)
    OInternReuse 0 5 true;                         (* accepted: cell 0 freed, generation 1 *)
    OInternMca 0 0 ].                              (* the old id: changed *)

Example ex_intern_reuse :
  outs_of h_intern =
    [ LOk (Some 0) None; LOk (Some 0) None; LOk (Some 0) (Some 30); LOk (Some 2) None;
      LRefused R_CONTRACT; LOk (Some 0) None; LOk (Some 0) (Some 30); LRefused R_NOTHING;
      LOk (Some 3) None; LOk (Some 1) None; LOk (Some 4) None; LOk (Some 1) None;
      LOk (Some 5) None; LOk (Some 1) None; LOk (Some 0) None; LOk None None ] /\
  cell_view (st_of h_intern) 0 = Some (Freed, None, 1) /\
  l_queue (st_of h_intern) 9 = [5; 4; 3] /\ l_err (st_of h_intern) = false.
Proof. vm_compute. repeat split. Qed.

(* bounds: an id that was never allocated is rejected by the check, not dereferenced *)
Example ex_bounds :
  outs_of [ OPushPage 0; ONewSlot KInput 0 7 false; OReadField 1; OReadField 128; OReadField 0 ] =
    [ LOk (Some 0) None; LOk (Some 0) None; LPanic P_BOUNDS; LPanic P_BOUNDS; LOk (Some 0) (Some 7) ].
Proof. vm_compute. reflexivity. Qed.

(* the error flag and the free counter are not decoration: a machine state that violates the
   protocol (a table entry pointing at a freed cell) trips them *)
Definition bad_state : lstate :=
  let st := st_of [ OPushPage 0; ONewSlot KInput 0 7 false; OInsertMemo 0 0 (Some 1) ] in
  free_cell 0 st.

Example ex_flag_trips :
  l_err (fst (lstep bad_state (OFetchMemo 0 0))) = true /\
  l_err (fst (lstep bad_state (OReadRef 0))) = true /\
  cell_view (fst (lstep bad_state ODropDb)) 0 = Some (Freed, None, 2).
Proof. vm_compute. repeat split. Qed.

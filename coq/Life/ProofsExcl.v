(* Life/ProofsExcl.v — the operations that need `&mut db`: new revision, LRU eviction, input
   write, and dropping the database. *)
From Salsa Require Import Base.
From Salsa.gen Require Import Kernels.
From Salsa.Life Require Import Model ProofsBase ProofsInv ProofsStep ProofsOps.

(* ---------------------------------------------------------------- eviction: value dropped in place *)

Lemma InvC_set_val nt nc cells slots del c cl :
  InvC nt nc cells slots del -> cells c = Some cl ->
  InvC nt nc (updN cells c (Some (mk_cell (c_state cl) (c_slot cl) (c_fn cl) None (c_frees cl)))) slots del.
Proof.
  intros [D L T D1 D2 ND FR] Ec. constructor; auto.
  - intros c0. unfold updN. destruct (N.eqb_spec c c0) as [<-|]; [|apply D].
    split; [intros _; apply D; congruence | discriminate].
  - intros c0 cl0. unfold updN. destruct (N.eqb_spec c c0) as [<-|]; [|apply L].
    intros H. injection H as <-. cbn. exact (L c cl Ec).
  - intros j sl f c0 Es Em. destruct (T j sl f c0 Es Em) as (cl0 & Ec0 & H). unfold updN.
    destruct (N.eqb_spec c c0) as [<-|]; [|eauto]. rewrite Ec in Ec0. injection Ec0 as <-.
    eexists. split; [reflexivity|]. exact H.
  - intros c0 Hc. destruct (D1 c0 Hc) as (cl0 & Ec0 & R). unfold updN.
    destruct (N.eqb_spec c c0) as [<-|]; [|eauto]. rewrite Ec in Ec0. injection Ec0 as <-.
    eexists. split; [reflexivity|]. exact R.
  - intros c0 cl0. unfold updN. destruct (N.eqb_spec c c0) as [<-|]; [|apply D2].
    intros H. injection H as <-. cbn. exact (D2 c cl Ec).
  - intros c0 cl0. unfold updN. destruct (N.eqb_spec c c0) as [<-|]; [|apply FR].
    intros H. injection H as <-. cbn. exact (FR c cl Ec).
Qed.

Definition Quiet (st : lstate) : Prop := Inv st /\ l_refs st = [].

Lemma evict_one_quiet st e : Quiet st -> Quiet (evict_one st e).
Proof.
  intros (HI & HR). destruct e as [[i f] can]. unfold evict_one.
  destruct (loc st i) as [j|] eqn:El; [|split; assumption].
  destruct (loc_slot _ _ _ (inv_s _ HI) El) as (sl & Es). rewrite Es.
  destruct (s_memos sl f) as [c|] eqn:Em; [|split; assumption].
  destruct (ic_table _ _ _ _ _ (inv_c _ HI) j sl f c Es Em) as (cl & Ec & L & _). rewrite Ec, L.
  destruct can; [|split; assumption].
  split; [|exact HR].
  destruct HI as [HL HE HC HS HF HRf HQ]. constructor; simpl_st; auto.
  - rewrite <- L. apply InvC_set_val; auto.
  - rewrite HR. apply InvR_nil.
Qed.

Lemma evict_all_quiet evs : forall st, Quiet st -> Quiet (fold_left evict_one evs st).
Proof.
  induction evs as [|e evs IH]; intros st H; [exact H|]. cbn. apply IH. now apply evict_one_quiet.
Qed.

(* ---------------------------------------------------------------- deleted_entries.clear() *)

Lemma InvC_free_deleted nt nc cells cells' slots del :
  InvC nt nc cells slots del ->
  (forall c, In c del -> exists cl, cells c = Some cl /\ cells' c = Some (freed_of cl)) ->
  (forall c, ~ In c del -> cells' c = cells c) ->
  InvC nt nc cells' slots [].
Proof.
  intros [D L T D1 D2 ND FR] HX HN.
  assert (forall c, {In c del} + {~ In c del}) as Xdec by (intros c; apply in_dec, N.eq_dec).
  constructor.
  - intros c. rewrite <- D. destruct (Xdec c) as [Hc|Hc].
    + destruct (HX c Hc) as (cl & E1 & E2). rewrite E1, E2. split; discriminate.
    + now rewrite HN.
  - intros c cl Ec Hl. destruct (Xdec c) as [Hc|Hc].
    + destruct (HX c Hc) as (cl0 & _ & E2). rewrite E2 in Ec. injection Ec as <-. discriminate.
    + rewrite HN in Ec by assumption. eauto.
  - intros j sl f c Es Em. destruct (T j sl f c Es Em) as (cl & Ec & Hl & H). exists cl.
    split; [|auto]. rewrite HN; [exact Ec|]. intros Hc. destruct (D1 c Hc) as (cl' & Ec' & R). congruence.
  - intros c [].
  - intros c cl Ec R. destruct (Xdec c) as [Hc|Hc].
    + destruct (HX c Hc) as (cl0 & _ & E2). rewrite E2 in Ec. injection Ec as <-. discriminate.
    + rewrite HN in Ec by assumption. exfalso. apply Hc. eapply D2; eauto.
  - constructor.
  - intros c cl Ec. destruct (Xdec c) as [Hc|Hc].
    + destruct (HX c Hc) as (cl0 & E1 & E2). rewrite E2 in Ec. injection Ec as <-.
      destruct (D1 c Hc) as (cl' & Ec' & R). rewrite E1 in Ec'. injection Ec' as <-.
      cbn. rewrite (FR c cl0 E1), R. reflexivity.
    + rewrite HN in Ec by assumption. eauto.
Qed.

Lemma free_deleted_quiet st : Quiet st -> Quiet (set_deleted (free_cells (l_deleted st) st) []).
Proof.
  intros (HI & HR).
  destruct (free_cells_spec (l_deleted st) st) as (SB & EE & HX & HN).
  { apply (ic_nodup _ _ _ _ _ (inv_c _ HI)). }
  { intros c Hc. destruct (ic_del1 _ _ _ _ _ (inv_c _ HI) c Hc) as (cl & Ec & _). congruence. }
  destruct SB as (E1 & E2 & E3 & E4 & E5 & E6 & E7 & E8 & E9 & E10 & E11 & E12 & E13).
  split; [|simpl_st; congruence].
  destruct HI as [HL HE HC HS HF HRf HQ].
  constructor; simpl_st; rewrite ?E1, ?E2, ?E3, ?E4, ?E5, ?E6, ?E7, ?E8, ?E9, ?E11, ?E12, ?E13; auto.
  - congruence.
  - eapply InvC_free_deleted; eauto.
  - rewrite HR. apply InvR_nil.
Qed.

Lemma reset_all_quiet st evs : Quiet st -> Quiet (reset_all st evs).
Proof.
  intros H. unfold reset_all. apply free_deleted_quiet. now apply evict_all_quiet.
Qed.

Lemma clear_refs_quiet st : Inv st -> Quiet (set_refs st []).
Proof. intros H. split; [now apply Inv_clear_refs | reflexivity]. Qed.

(* ---------------------------------------------------------------- new revision *)

Lemma free_cell_cur c st : l_cur (free_cell c st) = l_cur st.
Proof. unfold free_cell. destruct (l_cells st c); reflexivity. Qed.

Lemma free_cells_cur cs : forall st, l_cur (free_cells cs st) = l_cur st.
Proof.
  induction cs as [|c cs IH]; intros st; [reflexivity|].
  change (free_cells (c :: cs) st) with (free_cells cs (free_cell c st)).
  now rewrite IH, free_cell_cur.
Qed.

Lemma evict_one_cur st e : l_cur (evict_one st e) = l_cur st.
Proof.
  destruct e as [[i f] can]. unfold evict_one.
  destruct (loc st i); [|reflexivity]. destruct (l_slots st n); [|reflexivity].
  destruct (s_memos s f); [|reflexivity]. destruct (l_cells st n0); [|reflexivity].
  destruct (c_state m); try reflexivity; destruct can; reflexivity.
Qed.

Lemma evict_all_cur evs : forall st, l_cur (fold_left evict_one evs st) = l_cur st.
Proof.
  induction evs as [|e evs IH]; intros st; [reflexivity|]. cbn. now rewrite IH, evict_one_cur.
Qed.

Lemma reset_all_cur st evs : l_cur (reset_all st evs) = l_cur st.
Proof. unfold reset_all. simpl_st. now rewrite free_cells_cur, evict_all_cur. Qed.

Lemma newrev_inv st evs : Inv st -> Inv (fst (step_excl st (ONewRevision evs))).
Proof.
  intros HI. cbn [step_excl fst].
  destruct (reset_all_quiet (set_refs st []) evs (clear_refs_quiet st HI)) as (H & HR).
  pose proof (reset_all_cur (set_refs st []) evs) as Ecur.
  destruct H as [HL HE HC HS HF HRf HQ]. constructor; simpl_st; auto.
  - rewrite HR. apply InvR_nil.
  - destruct HQ as (Hc & Hq). rewrite Ecur in *. simpl_st. split; [lia|]. intros g.
    destruct (Hq g) as (Hl & Hin). split; [exact Hl|]. intros x Hx. apply Hin in Hx. lia.
Qed.

Lemma evictlru_inv st evs : Inv st -> Inv (fst (step_excl st (OEvictLru evs))).
Proof.
  intros HI. cbn [step_excl fst]. apply (reset_all_quiet (set_refs st []) evs (clear_refs_quiet st HI)).
Qed.

(* ---------------------------------------------------------------- input write *)

Lemma setinput_inv st i v : Inv st -> Inv (fst (step_excl st (OSetInput i v))).
Proof.
  intros HI0. cbn [step_excl].
  pose proof (Inv_clear_refs st HI0) as HI. set (st1 := set_refs st []) in *.
  match goal with |- Inv (fst (with_slot st1 i ?k)) =>
    destruct (with_slot_cases st1 i k (inv_s _ HI)) as [->|(j & sl & _ & Es & ->)]; [exact HI|] end.
  destruct (s_kind sl) eqn:K; cbn [is_kind negb]; try exact HI. cbn [fst].
  assert (l_refs st1 = []) as HR by reflexivity.
  destruct HI as [HL HE HC HS HF HRf HQ]. constructor; simpl_st; auto.
  - eapply InvC_slot_meta; eauto.
  - eapply InvS_slot_meta; eauto. discriminate.
  - apply InvF_slot_meta; auto. eapply not_free_of_stamp; eauto. right. congruence.
  - apply InvR_nil.
Qed.

(* ---------------------------------------------------------------- dropping the database *)

Lemma drop_slot_spec st j sl :
  InvC (l_ntypes st) (l_ncells st) (l_cells st) (l_slots st) [] -> l_slots st j = Some sl ->
  l_deleted st = [] ->
  InvC (l_ntypes st) (l_ncells st) (l_cells (drop_slot st j))
       (updN (l_slots st) j (Some (set_fields (set_memos sl no_memos) None))) [] /\
  l_slots (drop_slot st j) = updN (l_slots st) j (Some (set_fields (set_memos sl no_memos) None)) /\
  l_err (drop_slot st j) = l_err st /\ l_ntypes (drop_slot st j) = l_ntypes st /\
  l_ncells (drop_slot st j) = l_ncells st /\ l_npages (drop_slot st j) = l_npages st /\
  l_palloc (drop_slot st j) = l_palloc st /\ l_slotids (drop_slot st j) = l_slotids st /\
  l_deleted (drop_slot st j) = [] /\ l_refs (drop_slot st j) = l_refs st.
Proof.
  intros HC Es Ed. unfold drop_slot. rewrite Es.
  rewrite <- Ed in HC.
  destruct (clear_memos_spec st j sl HC Es) as (SB & EE & HX & HN).
  change (free_cells (table_cells (l_ntypes st) (s_memos sl)) st) with (clear_memos st sl).
  destruct SB as (E1 & E2 & E3 & E4 & E5 & E6 & E7 & E8 & E9 & E10 & E11 & E12 & E13).
  simpl_st. rewrite ?E2, ?E3, ?E4, ?E6, ?E7, ?E8, ?E10, ?E12.
  split; [rewrite Ed in HC; eapply InvC_clear; eauto | repeat split; auto].
Qed.

Lemma drop_loop ids : forall st,
  NoDup ids -> (forall j, In j ids -> l_slots st j <> None) ->
  InvC (l_ntypes st) (l_ncells st) (l_cells st) (l_slots st) [] -> l_deleted st = [] ->
  InvC (l_ntypes st) (l_ncells st) (l_cells (fold_left drop_slot ids st))
       (l_slots (fold_left drop_slot ids st)) [] /\
  l_err (fold_left drop_slot ids st) = l_err st /\
  l_ntypes (fold_left drop_slot ids st) = l_ntypes st /\
  l_ncells (fold_left drop_slot ids st) = l_ncells st /\
  l_npages (fold_left drop_slot ids st) = l_npages st /\
  l_palloc (fold_left drop_slot ids st) = l_palloc st /\
  l_slotids (fold_left drop_slot ids st) = l_slotids st /\
  l_deleted (fold_left drop_slot ids st) = [] /\
  l_refs (fold_left drop_slot ids st) = l_refs st /\
  (forall j, In j ids -> exists sl, l_slots (fold_left drop_slot ids st) j = Some sl /\
                                    s_fields sl = None /\ forall f, s_memos sl f = None) /\
  (forall j, ~ In j ids -> l_slots (fold_left drop_slot ids st) j = l_slots st j).
Proof.
  induction ids as [|j ids IH]; intros st ND Hex HC Ed.
  - cbn. split; [exact HC|]. repeat split; auto. intros j [].
  - apply NoDup_cons_iff in ND. destruct ND as (Hj & ND).
    destruct (l_slots st j) as [sl|] eqn:Es; [|exfalso; apply (Hex j); [now left | exact Es]].
    destruct (drop_slot_spec st j sl HC Es Ed) as (C1 & S1 & E1 & E2 & E3 & E4 & E5 & E6 & E7 & E8).
    cbn [fold_left].
    destruct (IH (drop_slot st j) ND) as (C2 & F1 & F2 & F3 & F4 & F5 & F6 & F7 & F8 & F9 & F10).
    { intros j0 Hj0. rewrite S1. rewrite updN_other; [apply Hex; now right | intros <-; contradiction]. }
    { rewrite E2, E3, S1. exact C1. }
    { exact E7. }
    rewrite E2, E3 in C2.
    split; [exact C2|]. repeat split; try congruence.
    + intros j0 [<-|Hj0]; [|now apply F9].
      rewrite F10 by assumption. rewrite S1, updN_same. eexists. split; [reflexivity|]. simpl_sl. auto.
    + intros j0 Hn. rewrite F10 by (intros H; apply Hn; now right). rewrite S1.
      apply updN_other. intros <-. apply Hn. now left.
Qed.

Lemma drop_final st : Inv st -> Final (fst (step_excl st ODropDb)).
Proof.
  intros HI0. cbn [step_excl fst].
  destruct (free_deleted_quiet (set_refs st []) (clear_refs_quiet st HI0)) as (HI & HR).
  set (st1 := set_deleted (free_cells (l_deleted (set_refs st [])) (set_refs st [])) []) in *.
  assert (l_deleted st1 = []) as Ed by reflexivity.
  pose proof (inv_c _ HI) as HC. rewrite Ed in HC.
  pose proof (inv_s _ HI) as HS.
  destruct (drop_loop (l_slotids st1) st1 (is_nodup _ _ _ _ HS)) as
    (C2 & F1 & F2 & F3 & F4 & F5 & F6 & F7 & F8 & F9 & F10); auto.
  { intros j Hj. now apply (is_dom _ _ _ _ HS). }
  set (st2 := fold_left drop_slot (l_slotids st1) st1) in *.
  assert (forall j sl, l_slots st2 j = Some sl -> s_fields sl = None /\ forall f, s_memos sl f = None) as Hsl.
  { intros j sl Es. destruct (in_dec N.eq_dec j (l_slotids st1)) as [Hin|Hn].
    - destruct (F9 j Hin) as (sl' & Es' & H). rewrite Es in Es'. injection Es' as <-. exact H.
    - rewrite F10 in Es by assumption. exfalso. apply Hn. apply (is_dom _ _ _ _ HS). congruence. }
  constructor; simpl_st.
  - reflexivity.
  - rewrite F1. apply (inv_err _ HI).
  - rewrite F3. apply (ic_dom _ _ _ _ _ C2).
  - intros c cl Ec.
    destruct (c_state cl) eqn:S.
    + destruct (ic_live _ _ _ _ _ C2 c cl Ec S) as (_ & sl & Es & Em).
      destruct (Hsl _ _ Es) as (_ & Hm). rewrite Hm in Em. discriminate.
    + destruct (ic_del2 _ _ _ _ _ C2 c cl Ec S).
    + split; [reflexivity|]. rewrite (ic_frees _ _ _ _ _ C2 c cl Ec), S. reflexivity.
  - exact Hsl.
  - intros j. rewrite F6. rewrite <- (is_dom _ _ _ _ HS j).
    destruct (in_dec N.eq_dec j (l_slotids st1)) as [Hin|Hn].
    + destruct (F9 j Hin) as (sl' & Es' & _). rewrite Es'. apply (is_dom _ _ _ _ HS) in Hin. split; [intros _; exact Hin | discriminate].
    + now rewrite F10.
  - intros j. rewrite F4, F5, F6. apply (is_bounds _ _ _ _ HS).
  - rewrite F4, F5. split; [apply (is_pages _ _ _ _ HS) | apply (is_alloc _ _ _ _ HS)].
  - rewrite F8. exact HR.
  - exact F7.
Qed.

(* Life/ProofsStep.v — every step of the lifetime machine preserves the invariant. *)
From Salsa Require Import Base.
From Salsa.gen Require Import Kernels.
From Salsa.Kern Require Import K9_Retention.
From Salsa.Life Require Import Model ProofsBase ProofsInv.

Ltac simpl_st :=
  unfold push_ref, put_slot, set_cur, set_cells, set_pages, set_slots, set_slotids, set_free,
         set_deleted, set_queue, set_refs, set_dropped, set_err in *;
  cbn [l_cur l_ntypes l_ncells l_cells l_npages l_ping l_palloc l_slots l_slotids l_free
       l_deleted l_queue l_refs l_dropped l_err] in *.

Ltac simpl_sl :=
  unfold set_stamp, set_reusable, set_fields, set_memos, set_gen in *;
  cbn [s_kind s_ing s_gen s_stamp s_reusable s_fields s_memos] in *.

(* ---------------------------------------------------------------- locations *)

Lemma loc_some st i j :
  loc st i = Some j ->
  exists p k, split_id i = (p, k) /\ j = make_id p k /\ p < l_npages st /\ k < l_palloc st p.
Proof.
  unfold loc. destruct (split_id i) as [p k].
  destruct (N.ltb_spec p (l_npages st)) as [Hp|Hp]; cbn [andb]; [|discriminate].
  destruct (N.ltb_spec k (l_palloc st p)) as [Hk|Hk]; [|discriminate].
  intros E. injection E as <-. exists p, k. repeat split; assumption.
Qed.

Lemma loc_slot st i j :
  InvS (l_npages st) (l_palloc st) (l_slots st) (l_slotids st) ->
  loc st i = Some j -> exists sl, l_slots st j = Some sl.
Proof.
  intros HS H. destruct (loc_some _ _ _ H) as (p & k & _ & -> & Hp & Hk).
  assert (In (make_id p k) (l_slotids st)) as Hin by (apply (is_bounds _ _ _ _ HS); eauto).
  apply (is_dom _ _ _ _ HS) in Hin. destruct (l_slots st (make_id p k)); [eauto | congruence].
Qed.

(* the bounds check accepts every initialised location, and leads back to it *)
Lemma loc_self st j :
  InvS (l_npages st) (l_palloc st) (l_slots st) (l_slotids st) ->
  l_slots st j <> None -> loc st j = Some j.
Proof.
  intros HS H. apply (is_dom _ _ _ _ HS) in H. apply (is_bounds _ _ _ _ HS) in H.
  destruct H as (p & k & -> & Hp & Hk).
  pose proof (is_pages _ _ _ _ HS) as HP. pose proof (is_alloc _ _ _ _ HS p) as HA.
  unfold loc. rewrite split_make_id by lia.
  destruct (N.ltb_spec p (l_npages st)); [|lia].
  destruct (N.ltb_spec k (l_palloc st p)); [|lia]. reflexivity.
Qed.

Lemma with_slot_cases st i (k : N -> slot -> lstate * lout) :
  InvS (l_npages st) (l_palloc st) (l_slots st) (l_slotids st) ->
  with_slot st i k = (st, LPanic P_BOUNDS) \/
  exists j sl, loc st i = Some j /\ l_slots st j = Some sl /\ with_slot st i k = k j sl.
Proof.
  intros HS. unfold with_slot. destruct (loc st i) as [j|] eqn:E; [|now left].
  destruct (loc_slot _ _ _ HS E) as (sl & Es). rewrite Es. right. eauto.
Qed.

(* ---------------------------------------------------------------- memo-table access *)

Lemma memos_access_spec cur sl sl1 :
  memos_access cur sl = Some sl1 ->
  s_kind sl1 = s_kind sl /\ s_ing sl1 = s_ing sl /\ s_gen sl1 = s_gen sl /\
  s_reusable sl1 = s_reusable sl /\ s_fields sl1 = s_fields sl /\ s_memos sl1 = s_memos sl /\
  (s_kind sl = KTracked -> s_stamp sl <> None /\ s_stamp sl1 = Some cur) /\
  (s_kind sl <> KTracked -> sl1 = sl).
Proof.
  unfold memos_access. destruct (s_kind sl) eqn:K.
  - intros H. injection H as <-. repeat split; auto; congruence.
  - destruct (s_stamp sl) eqn:S; [|discriminate]. intros H. injection H as <-. simpl_sl.
    repeat split; auto; congruence.
  - intros H. injection H as <-. repeat split; auto; congruence.
Qed.

Lemma access_lock_mono cur free j sl sl1 :
  memos_access cur sl = Some sl1 -> lock_ok cur free j sl -> lock_ok cur free j sl1.
Proof.
  intros H. destruct (memos_access_spec _ _ _ H) as (K & I & _ & R & _ & _ & T & NT).
  unfold lock_ok. rewrite K. destruct (s_kind sl) eqn:Ks.
  - auto.
  - intros _. left. apply T. reflexivity.
  - rewrite NT by congruence. auto.
Qed.

Lemma access_lock_ok cur free j sl sl1 :
  memos_access cur sl = Some sl1 -> contract_ok cur sl1 = true -> lock_ok cur free j sl1.
Proof.
  intros H C. destruct (memos_access_spec _ _ _ H) as (K & I & _ & R & _ & _ & T & NT).
  unfold lock_ok, contract_ok in *. rewrite K in *. destruct (s_kind sl) eqn:Ks.
  - exact Logic.I.
  - left. apply T. reflexivity.
  - apply orb_true_iff in C. destruct C as [C|C].
    + left. now apply negb_true_iff in C.
    + right. destruct (s_stamp sl1) as [l|]; [|discriminate]. exists l. split; [reflexivity|].
      now apply N.leb_le.
Qed.

Lemma access_not_free slots free j sl sl1 cur :
  InvF slots free -> slots j = Some sl -> memos_access cur sl = Some sl1 ->
  forall g, ~ In j (free g).
Proof.
  intros HF E H. eapply not_free_of_stamp; eauto.
  destruct (memos_access_spec _ _ _ H) as (_ & _ & _ & _ & _ & _ & T & _).
  destruct (s_kind sl) eqn:K; [right; congruence | left; apply T; reflexivity | right; congruence].
Qed.

(* ---------------------------------------------------------------- clearing a memo table *)

Lemma table_cells_ext n m m' : (forall f, m f = m' f) -> table_cells n m = table_cells n m'.
Proof.
  intros H. unfold table_cells. induction (range n) as [|a l IH]; [reflexivity|].
  cbn. now rewrite IH, H.
Qed.

Lemma table_inj nt nc cells slots del j sl :
  InvC nt nc cells slots del -> slots j = Some sl ->
  forall f g c, s_memos sl f = Some c -> s_memos sl g = Some c -> f = g.
Proof.
  intros HC E f g c Hf Hg.
  destruct (ic_table _ _ _ _ _ HC j sl f c E Hf) as (cl & Ec & _ & _ & F1).
  destruct (ic_table _ _ _ _ _ HC j sl g c E Hg) as (cl' & Ec' & _ & _ & F2).
  congruence.
Qed.

Lemma InvC_clear nt nc cells cells' slots del j sl sl' :
  InvC nt nc cells slots del -> slots j = Some sl ->
  (forall f, s_memos sl' f = None) ->
  (forall c, In c (table_cells nt (s_memos sl)) ->
             exists cl, cells c = Some cl /\ cells' c = Some (freed_of cl)) ->
  (forall c, ~ In c (table_cells nt (s_memos sl)) -> cells' c = cells c) ->
  InvC nt nc cells' (updN slots j (Some sl')) del.
Proof.
  intros HC E M HX HN. set (X := table_cells nt (s_memos sl)) in *.
  assert (forall c, In c X -> exists cl, cells c = Some cl /\ c_state cl = Live /\ c_slot cl = j) as XL.
  { intros c Hc. apply In_table_cells in Hc. destruct Hc as (f & _ & Hf).
    destruct (ic_table _ _ _ _ _ HC j sl f c E Hf) as (cl & Ec & L & S & _). eauto. }
  assert (forall c, {In c X} + {~ In c X}) as Xdec by (intros c; apply in_dec, N.eq_dec).
  constructor.
  - intros c. rewrite <- (ic_dom _ _ _ _ _ HC c). destruct (Xdec c) as [Hc|Hc].
    + destruct (HX c Hc) as (cl & E1 & E2). rewrite E1, E2. split; discriminate.
    + now rewrite HN.
  - intros c cl Ec Hl. destruct (Xdec c) as [Hc|Hc].
    + destruct (HX c Hc) as (cl0 & _ & E2). rewrite E2 in Ec. injection Ec as <-. discriminate.
    + rewrite HN in Ec by assumption.
      destruct (ic_live _ _ _ _ _ HC c cl Ec Hl) as (Hf & sl0 & Es & Em). split; [exact Hf|].
      assert (c_slot cl <> j) as Hne.
      { intros Heq. apply Hc. apply In_table_cells. exists (c_fn cl). split; [exact Hf|].
        rewrite Heq in Es. rewrite E in Es. now injection Es as <-. }
      exists sl0. rewrite updN_other by congruence. auto.
  - intros j0 sl0 f c. unfold updN. destruct (N.eqb_spec j j0) as [<-|Hne].
    + intros H. injection H as <-. rewrite M. discriminate.
    + intros Es Em. destruct (ic_table _ _ _ _ _ HC j0 sl0 f c Es Em) as (cl & Ec & L & S & F).
      exists cl. repeat split; auto. rewrite HN; [exact Ec|].
      intros Hc. destruct (XL c Hc) as (cl' & Ec' & _ & S'). congruence.
  - intros c Hc. destruct (ic_del1 _ _ _ _ _ HC c Hc) as (cl & Ec & R). exists cl. split; [|exact R].
    rewrite HN; [exact Ec|]. intros Hx. destruct (XL c Hx) as (cl' & Ec' & L & _). congruence.
  - intros c cl Ec R. destruct (Xdec c) as [Hc|Hc].
    + destruct (HX c Hc) as (cl0 & _ & E2). rewrite E2 in Ec. injection Ec as <-. discriminate.
    + rewrite HN in Ec by assumption. eapply ic_del2; eauto.
  - apply (ic_nodup _ _ _ _ _ HC).
  - intros c cl Ec. destruct (Xdec c) as [Hc|Hc].
    + destruct (HX c Hc) as (cl0 & E1 & E2). rewrite E2 in Ec. injection Ec as <-.
      destruct (XL c Hc) as (cl' & Ec' & L & _). rewrite E1 in Ec'. injection Ec' as <-.
      cbn. rewrite (ic_frees _ _ _ _ _ HC c cl0 E1), L. reflexivity.
    + rewrite HN in Ec by assumption. eapply ic_frees; eauto.
Qed.

(* what clear_memos does to the state *)
Lemma clear_memos_spec st j sl :
  InvC (l_ntypes st) (l_ncells st) (l_cells st) (l_slots st) (l_deleted st) ->
  l_slots st j = Some sl ->
  same_but_cells st (clear_memos st sl) /\ l_err (clear_memos st sl) = l_err st /\
  (forall c, In c (table_cells (l_ntypes st) (s_memos sl)) ->
             exists cl, l_cells st c = Some cl /\
                        l_cells (clear_memos st sl) c = Some (freed_of cl)) /\
  (forall c, ~ In c (table_cells (l_ntypes st) (s_memos sl)) ->
             l_cells (clear_memos st sl) c = l_cells st c).
Proof.
  intros HC E. unfold clear_memos. apply free_cells_spec.
  - apply NoDup_table_cells. eapply table_inj; eauto.
  - intros c Hc. apply In_table_cells in Hc. destruct Hc as (f & _ & Hf).
    destruct (ic_table _ _ _ _ _ HC j sl f c E Hf) as (cl & Ec & _). congruence.
Qed.

(* the memos of an unprotected slot are referenced by nobody: only they change *)
Lemma clear_keeps_others nt nc cells cells' slots del j sl :
  InvC nt nc cells slots del -> slots j = Some sl ->
  (forall c, ~ In c (table_cells nt (s_memos sl)) -> cells' c = cells c) ->
  forall c cl, cells c = Some cl -> ~ (c_state cl = Live /\ c_slot cl = j) -> cells' c = Some cl.
Proof.
  intros HC E HN c cl Ec Hn. rewrite HN; [exact Ec|]. intros Hc. apply Hn.
  apply In_table_cells in Hc. destruct Hc as (f & _ & Hf).
  destruct (ic_table _ _ _ _ _ HC j sl f c E Hf) as (cl' & Ec' & L & S & _).
  rewrite Ec in Ec'. injection Ec' as <-. auto.
Qed.

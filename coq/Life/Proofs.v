(* Life/Proofs.v — the invariant holds in every reachable state; the C23 lemmas. *)
From Salsa Require Import Base.
From Salsa.gen Require Import Kernels.
From Salsa.Kern Require Import K9_Retention.
From Salsa.Life Require Import Model ProofsBase ProofsInv ProofsStep ProofsOps ProofsOps2
     ProofsInsert ProofsExcl.

(* fewer than 2^64 retained revisions per interned ingredient (REVISIONS is a usize) *)
Definition qlen_ok (ql : N -> nat) : Prop := forall g, N.of_nat (ql g) < 18446744073709551616.

Lemma init_inv nt ql : qlen_ok ql -> Inv (linit nt ql).
Proof.
  intros Hq. unfold linit. constructor; cbn.
  - reflexivity.
  - reflexivity.
  - constructor.
    + intros c. split; [congruence | lia].
    + intros; discriminate.
    + intros; discriminate.
    + intros c [].
    + intros; discriminate.
    + constructor.
    + intros; discriminate.
  - constructor.
    + intros j. split; [congruence | intros []].
    + constructor.
    + intros j. split; [intros [] | intros (p & k & _ & Hp & _); lia].
    + unfold MAX_PAGES. lia.
    + intros p. unfold PAGE_LEN. lia.
    + intros; discriminate.
  - constructor; [intros g j [] | intros g; constructor].
  - apply InvR_nil.
  - split; [unfold REV_START; lia|]. intros g. split.
    + rewrite k_len_length, repeat_length. apply Hq.
    + intros x Hx. apply repeat_spec in Hx. subst. unfold REV_START. lia.
Qed.

Lemma step_shared_inv st o : Inv st -> is_excl o = false -> Inv (fst (step_shared st o)).
Proof.
  intros HI He. destruct o; try discriminate.
  - now apply pushpage_inv.
  - now apply newslot_inv.
  - now apply reuse_inv.
  - now apply update_inv.
  - now apply delete_inv.
  - now apply readfield_inv.
  - now apply fetch_inv.
  - now apply insert_inv.
  - now apply internhit_inv.
  - now apply internmca_inv.
  - now apply internreuse_inv.
  - rewrite readref_ok; auto.
Qed.

Lemma step_good st o : Good st -> Good (fst (lstep st o)).
Proof.
  intros [HI|HF]; unfold lstep.
  - rewrite (inv_live _ HI). destruct (is_excl o) eqn:He.
    + destruct o; try discriminate.
      * left. now apply newrev_inv.
      * left. now apply evictlru_inv.
      * left. now apply setinput_inv.
      * right. now apply drop_final.
    + left. now apply step_shared_inv.
  - rewrite (fin_dropped _ HF). right. exact HF.
Qed.

Lemma run_good ops : forall st, Good st -> Good (lrun st ops).
Proof.
  induction ops as [|o ops IH]; intros st H; [exact H|]. cbn. apply IH. now apply step_good.
Qed.

Lemma reach_good nt ql ops : qlen_ok ql -> Good (lrun (linit nt ql) ops).
Proof. intros Hq. apply run_good. left. now apply init_inv. Qed.

(* ---------------------------------------------------------------- references persist under `&db` *)

Lemma free_cell_refs c st : l_refs (free_cell c st) = l_refs st.
Proof. unfold free_cell. destruct (l_cells st c); reflexivity. Qed.

Lemma free_cells_refs cs : forall st, l_refs (free_cells cs st) = l_refs st.
Proof.
  induction cs as [|c cs IH]; intros st; [reflexivity|].
  change (free_cells (c :: cs) st) with (free_cells cs (free_cell c st)).
  now rewrite IH, free_cell_refs.
Qed.

Lemma qrecord_refs st g : l_refs (qrecord st g) = l_refs st.
Proof. unfold qrecord. destruct (l_queue st g); reflexivity. Qed.

Lemma retire_cell_refs st c : l_refs (retire_cell st c) = l_refs st.
Proof. unfold retire_cell. destruct (l_cells st c); reflexivity. Qed.

Lemma with_slot_refs st i k :
  (forall j sl, incl (l_refs st) (l_refs (fst (k j sl)))) ->
  incl (l_refs st) (l_refs (fst (with_slot st i k))).
Proof.
  intros H. unfold with_slot. destruct (loc st i); [|apply incl_refl].
  destruct (l_slots st n); [apply H | apply incl_refl].
Qed.

Lemma shared_keeps_refs st o :
  is_excl o = false -> incl (l_refs st) (l_refs (fst (step_shared st o))).
Proof.
  intros He. destruct o; try discriminate; cbn [step_shared].
  - destruct (l_npages st <? MAX_PAGES); apply incl_refl.
  - destruct (p <? l_npages st); [|apply incl_refl]. destruct (l_palloc st p <? PAGE_LEN); [|apply incl_refl].
    cbn [fst]. simpl_st. destruct k; try apply incl_refl. rewrite qrecord_refs. apply incl_refl.
  - destruct (l_free st g); [apply incl_refl|].
    apply (with_slot_refs (set_free st (updN (l_free st) g l))). intros j sl.
    destruct (next_generation (s_gen sl)); [|apply incl_refl]. destruct (s_stamp sl); apply incl_refl.
  - apply with_slot_refs. intros j sl. destruct (negb (is_kind (s_kind sl) KTracked)); [apply incl_refl|].
    destruct (s_stamp sl); [|apply incl_refl]. destruct (n =? l_cur st); [apply incl_refl|].
    destruct (next_generation (s_gen sl)); [|apply incl_refl].
    destruct idchg; cbn [fst]; simpl_st; [|apply incl_refl].
    unfold clear_memos. rewrite free_cells_refs. apply incl_refl.
  - apply with_slot_refs. intros j sl. destruct (negb (is_kind (s_kind sl) KTracked)); [apply incl_refl|].
    destruct (s_stamp sl); [|apply incl_refl]. destruct (n =? l_cur st); [apply incl_refl|].
    destruct cb_panics; cbn [fst]; simpl_st; unfold clear_memos; rewrite free_cells_refs; apply incl_refl.
  - apply with_slot_refs. intros j sl. destruct (memos_access (l_cur st) sl); [|apply incl_refl].
    destruct (negb (contract_ok (l_cur st) s)); [apply incl_refl|].
    destruct (s_fields s); cbn [fst]; simpl_st; [apply incl_tl|]; apply incl_refl.
  - destruct (negb (f <? l_ntypes st)); [apply incl_refl|].
    apply with_slot_refs. intros j sl. destruct (memos_access (l_cur st) sl); [|apply incl_refl].
    destruct (negb (contract_ok (l_cur st) s)); [apply incl_refl|].
    destruct (s_memos s f); [|apply incl_refl].
    destruct (l_cells (put_slot st j s) n); [|apply incl_refl].
    destruct (c_state m); try apply incl_refl; destruct (c_val m); cbn [fst]; simpl_st;
      try apply incl_refl; apply incl_tl, incl_refl.
  - destruct (negb (f <? l_ntypes st)); [apply incl_refl|].
    apply with_slot_refs. intros j sl. destruct (memos_access (l_cur st) sl); [|apply incl_refl].
    destruct (negb (contract_ok (l_cur st) s)); [apply incl_refl|]. cbn [fst].
    destruct (s_memos s f); destruct ov; simpl_st; rewrite ?retire_cell_refs; simpl_st;
      try apply incl_refl; apply incl_tl, incl_refl.
  - apply with_slot_refs. intros j sl. destruct (negb (is_kind (s_kind sl) KInterned)); [apply incl_refl|].
    cbn [fst]. simpl_st. rewrite qrecord_refs. apply incl_refl.
  - apply with_slot_refs. intros j sl. destruct (negb (is_kind (s_kind sl) KInterned)); [apply incl_refl|].
    destruct (g <? s_gen sl); cbn [fst]; simpl_st; rewrite qrecord_refs; apply incl_refl.
  - apply with_slot_refs. intros j sl. destruct (negb (is_kind (s_kind sl) KInterned)); [apply incl_refl|].
    match goal with |- context [if ?b then _ else _] => destruct b end;
      [cbn [fst]; rewrite qrecord_refs; apply incl_refl|].
    destruct (next_generation (s_gen sl)); cbn [fst]; simpl_st; unfold clear_memos;
      rewrite ?free_cells_refs, qrecord_refs; apply incl_refl.
  - destruct (nth_error (l_refs st) n); [|apply incl_refl].
    destruct (r_tgt l).
    + destruct (l_cells st c); [|apply incl_refl]. destruct (c_state m); apply incl_refl.
    + destruct (l_slots st j); [|apply incl_refl]. destruct (s_fields s); apply incl_refl.
Qed.

Lemma lstep_keeps_refs st o :
  is_excl o = false -> incl (l_refs st) (l_refs (fst (lstep st o))).
Proof.
  intros He. unfold lstep. destruct (l_dropped st); [apply incl_refl|]. rewrite He.
  now apply shared_keeps_refs.
Qed.

Lemma lrun_keeps_refs ops : forall st,
  Forall (fun o => is_excl o = false) ops -> incl (l_refs st) (l_refs (lrun st ops)).
Proof.
  induction ops as [|o ops IH]; intros st H; [apply incl_refl|].
  inversion H as [|? ? Ho Hops]; subst. cbn.
  eapply incl_tran; [apply (lstep_keeps_refs st o Ho) | apply IH; exact Hops].
Qed.

(* ---------------------------------------------------------------- what a reference denotes *)

Definition denotes (st : lstate) (r : lref) : Prop :=
  match r_tgt r with
  | TCell c => exists cl, l_cells st c = Some cl /\
                          (c_state cl = Live \/ c_state cl = Retired) /\ c_val cl = Some (r_val r)
  | TField j => exists sl, l_slots st j = Some sl /\ s_fields sl = Some (r_val r)
  end.

Lemma good_refs st r : Good st -> In r (l_refs st) -> r_rev r = l_cur st /\ denotes st r.
Proof.
  intros [HI|HF] Hr.
  - destruct (inv_r _ HI r Hr) as (Hrev & Ht). split; [exact Hrev|]. unfold denotes.
    destruct (r_tgt r) as [c|j].
    + destruct Ht as (cl & Ec & Hs & Hv & _). exists cl. repeat split; auto.
      destruct (c_state cl); auto. congruence.
    + destruct Ht as (sl & Es & Hf & _). eauto.
  - rewrite (fin_refs _ HF) in Hr. destruct Hr.
Qed.

Lemma good_err st : Good st -> l_err st = false.
Proof. intros [HI|HF]; [apply (inv_err _ HI) | apply (fin_err _ HF)]. Qed.

(* ---------------------------------------------------------------- C23 lemmas *)

Lemma C23_no_uaf_lemma nt ql : qlen_ok ql -> forall ops,
  let st := lrun (linit nt ql) ops in
  (* no operation of the history read or wrote a freed cell, dropped fields or an
     uninitialised slot *)
  l_err st = false /\
  (* every outstanding reference was handed out in the current revision and still denotes an
     allocated (Live or Retired) cell, or the fields of an initialised slot, holding the value it
     was handed out with *)
  (forall r, In r (l_refs st) -> r_rev r = l_cur st /\ denotes st r) /\
  (* ... and stays outstanding, valid and unmodified across any further operations under `&db`,
     i.e. until the database is next borrowed mutably *)
  (forall ops', Forall (fun o => is_excl o = false) ops' ->
     forall r, In r (l_refs st) ->
       In r (l_refs (lrun st ops')) /\ denotes (lrun st ops') r /\ l_err (lrun st ops') = false) /\
  (* dereferencing the n-th outstanding reference yields the recorded value *)
  (forall n r, nth_error (l_refs st) n = Some r ->
     exists x, lstep st (OReadRef n) = (st, LOk (Some x) (Some (r_val r)))).
Proof.
  intros Hq ops st. pose proof (reach_good nt ql ops Hq) as HG. fold st in HG.
  split; [now apply good_err|]. split; [intros r Hr; now apply good_refs|]. split.
  - intros ops' Hs r Hr. pose proof (run_good ops' st HG) as HG'.
    assert (In r (l_refs (lrun st ops'))) as Hr' by (apply (lrun_keeps_refs ops' st Hs); exact Hr).
    split; [exact Hr'|]. split; [apply (good_refs _ _ HG' Hr') | now apply good_err].
  - intros n r E. destruct HG as [HI|HF].
    + unfold lstep. rewrite (inv_live _ HI). cbn [is_excl]. now apply readref_value.
    + rewrite (fin_refs _ HF) in E. destruct n; discriminate.
Qed.

Lemma C23_no_double_free_lemma nt ql : qlen_ok ql -> forall ops c cl,
  l_cells (lrun (linit nt ql) ops) c = Some cl ->
  c_frees cl <= 1 /\ (c_frees cl = 1 <-> c_state cl = Freed).
Proof.
  intros Hq ops c cl Ec. destruct (reach_good nt ql ops Hq) as [HI|HF].
  - rewrite (ic_frees _ _ _ _ _ (inv_c _ HI) c cl Ec). destruct (c_state cl); split; try lia;
      split; intros; try discriminate; try lia; reflexivity.
  - destruct (fin_cells _ HF c cl Ec) as (S & F). rewrite S, F. split; [lia | tauto].
Qed.

Lemma C23_drop_frees_lemma nt ql : qlen_ok ql -> forall ops,
  let st := lrun (linit nt ql) ops in
  (* dropping is always possible ... *)
  (l_dropped st = false -> l_dropped (fst (lstep st ODropDb)) = true) /\
  (* ... and once the database has been dropped, every cell ever allocated has been freed
     exactly once, every slot's fields have been dropped, nothing is parked or referenced *)
  (l_dropped st = true ->
     (forall c, c < l_ncells st ->
        exists cl, l_cells st c = Some cl /\ c_state cl = Freed /\ c_frees cl = 1) /\
     (forall j sl, l_slots st j = Some sl -> s_fields sl = None /\ forall f, s_memos sl f = None) /\
     l_deleted st = [] /\ l_refs st = [] /\ l_err st = false).
Proof.
  intros Hq ops st. pose proof (reach_good nt ql ops Hq) as HG. fold st in HG. split.
  - intros Hd. destruct HG as [HI|HF]; [|rewrite (fin_dropped _ HF) in Hd; discriminate].
    unfold lstep. rewrite Hd. cbn [is_excl]. apply (fin_dropped _ (drop_final st HI)).
  - intros Hd. destruct HG as [HI|HF]; [rewrite (inv_live _ HI) in Hd; discriminate|].
    split; [|split; [apply (fin_slots _ HF) | split; [apply (fin_deleted _ HF) | split;
              [apply (fin_refs _ HF) | apply (fin_err _ HF)]]]].
    intros c Hc. apply (fin_dom _ HF) in Hc. destruct (l_cells st c) as [cl|] eqn:E; [|congruence].
    exists cl. destruct (fin_cells _ HF c cl E). auto.
Qed.

Lemma C23_in_bounds_lemma nt ql : qlen_ok ql -> forall ops,
  let st := lrun (linit nt ql) ops in
  (* the initialised locations are exactly the slots below each page's `allocated` *)
  (forall j, l_slots st j <> None <->
             exists p k, j = make_id p k /\ p < l_npages st /\ k < l_palloc st p) /\
  (* `allocated` never exceeds the page length, the page count never exceeds MAX_PAGES (so that
     make_id's `Id::from_index` precondition holds and split_id inverts make_id) *)
  (l_npages st <= MAX_PAGES /\ forall p, l_palloc st p <= PAGE_LEN) /\
  (* the bounds check of Table::get accepts every initialised location and leads back to it *)
  (forall j, l_slots st j <> None -> loc st j = Some j) /\
  (* whatever passes the bounds check is initialised *)
  (forall i j, loc st i = Some j -> l_slots st j <> None) /\
  (* the ids salsa stores internally are initialised locations: owners of allocated memo cells,
     free-list entries, targets of outstanding field references *)
  (l_dropped st = false ->
     (forall c cl, l_cells st c = Some cl -> c_state cl = Live ->
                   l_slots st (c_slot cl) <> None /\ c_fn cl < l_ntypes st) /\
     (forall g j, In j (l_free st g) -> l_slots st j <> None) /\
     (forall r j, In r (l_refs st) -> r_tgt r = TField j -> l_slots st j <> None)).
Proof.
  intros Hq ops st. pose proof (reach_good nt ql ops Hq) as HG. fold st in HG.
  assert (InvS_core : (forall j, l_slots st j <> None <-> In j (l_slotids st)) /\
                      (forall j, In j (l_slotids st) <->
                         exists p k, j = make_id p k /\ p < l_npages st /\ k < l_palloc st p) /\
                      l_npages st <= MAX_PAGES /\ (forall p, l_palloc st p <= PAGE_LEN)).
  { destruct HG as [HI|HF].
    - destruct (inv_s _ HI) as [D ND B P A FI]. auto.
    - destruct (fin_pages _ HF). split; [apply (fin_s_dom _ HF)|]. split; [apply (fin_bounds _ HF)|]. auto. }
  destruct InvS_core as (D & B & P & A).
  assert (forall j, l_slots st j <> None -> loc st j = Some j) as Hself.
  { intros j Hj. apply D in Hj. apply B in Hj. destruct Hj as (p & k & -> & Hp & Hk).
    pose proof (A p). unfold loc. rewrite split_make_id by lia.
    destruct (N.ltb_spec p (l_npages st)); [|lia]. destruct (N.ltb_spec k (l_palloc st p)); [|lia].
    reflexivity. }
  split; [intros j; rewrite D; apply B|]. split; [auto|]. split; [exact Hself|]. split.
  - intros i j Hl. destruct (loc_some _ _ _ Hl) as (p & k & _ & -> & Hp & Hk).
    apply D. apply B. eauto.
  - intros Hd. destruct HG as [HI|HF]; [|rewrite (fin_dropped _ HF) in Hd; discriminate].
    split; [|split].
    + intros c cl Ec L. destruct (ic_live _ _ _ _ _ (inv_c _ HI) c cl Ec L) as (Hf & sl & Es & _).
      split; [congruence | exact Hf].
    + intros g j Hin. destruct (if_slot _ _ (inv_f _ HI) g j Hin) as (sl & Es & _). congruence.
    + intros r j Hr Et. destruct (inv_r _ HI r Hr) as (_ & Ht). rewrite Et in Ht.
      destruct Ht as (sl & Es & _). congruence.
Qed.

Lemma C23_protocol_lemma nt ql : qlen_ok ql -> forall ops,
  let st := lrun (linit nt ql) ops in
  l_err st = false /\
  (forall r, In r (l_refs st) -> r_rev r = l_cur st /\ denotes st r) /\
  (forall c cl, l_cells st c = Some cl -> c_frees cl <= 1 /\ (c_frees cl = 1 <-> c_state cl = Freed)) /\
  (forall j, l_slots st j <> None <->
             exists p k, j = make_id p k /\ p < l_npages st /\ k < l_palloc st p) /\
  (l_dropped st = true ->
     forall c, c < l_ncells st ->
       exists cl, l_cells st c = Some cl /\ c_state cl = Freed /\ c_frees cl = 1).
Proof.
  intros Hq ops st.
  destruct (C23_no_uaf_lemma nt ql Hq ops) as (U1 & U2 & _).
  destruct (C23_drop_frees_lemma nt ql Hq ops) as (_ & D2).
  destruct (C23_in_bounds_lemma nt ql Hq ops) as (B1 & _).
  split; [exact U1|]. split; [exact U2|]. split; [apply (C23_no_double_free_lemma nt ql Hq ops)|].
  split; [exact B1|]. intros Hd. apply (D2 Hd).
Qed.

(* Life/ProofsInv.v — the invariant of the lifetime machine, split into parts that each depend on
   a few components of the state, and the frame lemmas for each part. *)
From Salsa Require Import Base.
From Salsa.gen Require Import Kernels.
From Salsa.Kern Require Import K9_Retention.
From Salsa.Life Require Import Model ProofsBase.

(* ---------------------------------------------------------------- parts *)

(* C: cells, memo tables, deleted_entries *)
Record InvC (ntypes ncells : N) (cells : N -> option mcell) (slots : N -> option slot)
            (deleted : list N) : Prop := {
  ic_dom : forall c, cells c <> None <-> c < ncells;
  ic_live : forall c cl, cells c = Some cl -> c_state cl = Live ->
      c_fn cl < ntypes /\ exists sl, slots (c_slot cl) = Some sl /\ s_memos sl (c_fn cl) = Some c;
  ic_table : forall j sl f c, slots j = Some sl -> s_memos sl f = Some c ->
      exists cl, cells c = Some cl /\ c_state cl = Live /\ c_slot cl = j /\ c_fn cl = f;
  ic_del1 : forall c, In c deleted -> exists cl, cells c = Some cl /\ c_state cl = Retired;
  ic_del2 : forall c cl, cells c = Some cl -> c_state cl = Retired -> In c deleted;
  ic_nodup : NoDup deleted;
  ic_frees : forall c cl, cells c = Some cl ->
      c_frees cl = match c_state cl with Freed => 1 | _ => 0 end
}.

(* S: pages, initialised locations, fields *)
Record InvS (npages : N) (palloc : N -> N) (slots : N -> option slot) (slotids : list N) : Prop := {
  is_dom : forall j, slots j <> None <-> In j slotids;
  is_nodup : NoDup slotids;
  is_bounds : forall j, In j slotids <-> exists p k, j = make_id p k /\ p < npages /\ k < palloc p;
  is_pages : npages <= MAX_PAGES;
  is_alloc : forall p, palloc p <= PAGE_LEN;
  is_fields : forall j sl, slots j = Some sl -> s_fields sl <> None
}.

(* F: free lists of tracked-struct ingredients *)
Record InvF (slots : N -> option slot) (free : N -> list N) : Prop := {
  if_slot : forall g j, In j (free g) -> exists sl, slots j = Some sl /\ s_kind sl = KTracked /\
      s_ing sl = g /\ s_stamp sl = None /\ forall f, s_memos sl f = None;
  if_nodup : forall g, NoDup (free g)
}.

(* the stamp protects what a reference into slot j denotes *)
Definition lock_ok (cur : N) (free : N -> list N) (j : N) (sl : slot) : Prop :=
  match s_kind sl with
  | KInput => True
  | KTracked => s_stamp sl = Some cur \/ (s_stamp sl = None /\ ~ In j (free (s_ing sl)))
  | KInterned => s_reusable sl = false \/ exists l, s_stamp sl = Some l /\ cur <= l
  end.

Definition ref_ok (cur : N) (cells : N -> option mcell) (slots : N -> option slot)
                  (free : N -> list N) (r : lref) : Prop :=
  r_rev r = cur /\
  match r_tgt r with
  | TCell c => exists cl, cells c = Some cl /\ c_state cl <> Freed /\ c_val cl = Some (r_val r) /\
                 (c_state cl = Live -> exists sl, slots (c_slot cl) = Some sl /\
                                                  lock_ok cur free (c_slot cl) sl)
  | TField j => exists sl, slots j = Some sl /\ s_fields sl = Some (r_val r) /\ lock_ok cur free j sl
  end.

Definition InvR cur cells slots free (refs : list lref) : Prop :=
  forall r, In r refs -> ref_ok cur cells slots free r.

(* Q: revision queues *)
Definition InvQ (cur : N) (queue : N -> list N) : Prop :=
  1 <= cur /\ forall g, k_len (queue g) < 18446744073709551616 /\
                        forall x, In x (queue g) -> 1 <= x <= cur.

Record Inv (st : lstate) : Prop := {
  inv_live : l_dropped st = false;
  inv_err : l_err st = false;
  inv_c : InvC (l_ntypes st) (l_ncells st) (l_cells st) (l_slots st) (l_deleted st);
  inv_s : InvS (l_npages st) (l_palloc st) (l_slots st) (l_slotids st);
  inv_f : InvF (l_slots st) (l_free st);
  inv_r : InvR (l_cur st) (l_cells st) (l_slots st) (l_free st) (l_refs st);
  inv_q : InvQ (l_cur st) (l_queue st)
}.

(* after drop *)
Record Final (st : lstate) : Prop := {
  fin_dropped : l_dropped st = true;
  fin_err : l_err st = false;
  fin_dom : forall c, l_cells st c <> None <-> c < l_ncells st;
  fin_cells : forall c cl, l_cells st c = Some cl -> c_state cl = Freed /\ c_frees cl = 1;
  fin_slots : forall j sl, l_slots st j = Some sl -> s_fields sl = None /\ forall f, s_memos sl f = None;
  fin_s_dom : forall j, l_slots st j <> None <-> In j (l_slotids st);
  fin_bounds : forall j, In j (l_slotids st) <->
                         exists p k, j = make_id p k /\ p < l_npages st /\ k < l_palloc st p;
  fin_pages : l_npages st <= MAX_PAGES /\ forall p, l_palloc st p <= PAGE_LEN;
  fin_refs : l_refs st = [];
  fin_deleted : l_deleted st = []
}.

Definition Good (st : lstate) : Prop := Inv st \/ Final st.

(* ---------------------------------------------------------------- small facts *)

Lemma cstate_dec (a b : cstate) : {a = b} + {a <> b}.
Proof. decide equality. Qed.

Lemma lock_ok_free_ext cur free free' j sl :
  (forall g, In j (free' g) <-> In j (free g)) -> lock_ok cur free j sl -> lock_ok cur free' j sl.
Proof.
  unfold lock_ok. intros H. destruct (s_kind sl); auto.
  intros [E|[E N]]; [now left | right; split; [exact E|]]. now rewrite H.
Qed.

Lemma free_stamp_none slots free g j sl :
  InvF slots free -> In j (free g) -> slots j = Some sl -> s_kind sl = KTracked /\ s_stamp sl = None.
Proof.
  intros HF Hin E. destruct (if_slot _ _ HF g j Hin) as (sl' & E' & K & _ & S & _).
  rewrite E in E'. injection E' as <-. auto.
Qed.

Lemma not_free_of_stamp slots free j sl :
  InvF slots free -> slots j = Some sl -> (s_stamp sl <> None \/ s_kind sl <> KTracked) ->
  forall g, ~ In j (free g).
Proof.
  intros HF E H g Hin. destruct (free_stamp_none _ _ _ _ _ HF Hin E) as (K & S).
  destruct H; congruence.
Qed.

(* ---------------------------------------------------------------- frame lemmas: a slot's
   meta data (stamp, fields, reusable, generation) changes, its memo table does not *)

Lemma InvC_slot_meta nt nc cells slots del j sl sl' :
  InvC nt nc cells slots del -> slots j = Some sl -> (forall f, s_memos sl' f = s_memos sl f) ->
  InvC nt nc cells (updN slots j (Some sl')) del.
Proof.
  intros H E M. destruct H as [D L T D1 D2 ND FR]. constructor; auto.
  - intros c cl Ec Hl. destruct (L c cl Ec Hl) as (Hf & sl0 & Es & Em). split; [exact Hf|].
    unfold updN. destruct (N.eqb_spec j (c_slot cl)) as [Heq|Hne].
    + exists sl'. split; [reflexivity|]. rewrite M. rewrite <- Heq in Es. rewrite E in Es.
      now injection Es as <-.
    + eauto.
  - intros j0 sl0 f c. unfold updN. destruct (N.eqb_spec j j0) as [<-|Hne].
    + intros Es Em. injection Es as <-. rewrite M in Em. eapply T; eauto.
    + apply T.
Qed.

Lemma InvS_slot_meta np pa slots ids j sl sl' :
  InvS np pa slots ids -> slots j = Some sl -> s_fields sl' <> None ->
  InvS np pa (updN slots j (Some sl')) ids.
Proof.
  intros H E F. destruct H as [D ND B P A FI]. constructor; auto.
  - intros j0. unfold updN. destruct (N.eqb_spec j j0) as [<-|Hne]; [|apply D].
    split; [intros _; apply D; congruence | discriminate].
  - intros j0 sl0. unfold updN. destruct (N.eqb_spec j j0) as [<-|Hne]; [|apply FI].
    intros H. now injection H as <-.
Qed.

Lemma InvF_slot_meta slots free j sl' :
  InvF slots free -> (forall g, ~ In j (free g)) -> InvF (updN slots j (Some sl')) free.
Proof.
  intros [S ND] Hn. constructor; auto.
  intros g j0 Hin. rewrite updN_other; [apply (S g j0 Hin)|]. intros ->. exact (Hn g Hin).
Qed.

Lemma InvR_slot_meta cur cells slots free refs j sl sl' :
  InvR cur cells slots free refs -> slots j = Some sl ->
  s_fields sl' = s_fields sl ->
  (lock_ok cur free j sl -> lock_ok cur free j sl') ->
  InvR cur cells (updN slots j (Some sl')) free refs.
Proof.
  intros H E F L r Hr. destruct (H r Hr) as (Hrev & Ht). split; [exact Hrev|].
  destruct (r_tgt r) as [c|j0].
  - destruct Ht as (cl & Ec & Hs & Hv & Hl). exists cl. repeat split; auto.
    intros Hlive. destruct (Hl Hlive) as (sl0 & Es & Hk).
    unfold updN. destruct (N.eqb_spec j (c_slot cl)) as [Heq|Hne].
    + exists sl'. split; [reflexivity|]. rewrite <- Heq in *. rewrite E in Es. injection Es as <-. auto.
    + eauto.
  - destruct Ht as (sl0 & Es & Hf & Hk). unfold updN. destruct (N.eqb_spec j j0) as [<-|Hne].
    + rewrite E in Es. injection Es as <-. exists sl'. split; [reflexivity|]. split; [congruence | auto].
    + eauto.
Qed.

(* references survive when only the cells that are Live and owned by an unprotected slot j change,
   and j itself is overwritten *)
Lemma InvR_kill_slot cur cells cells' slots free free' refs j sl sl' :
  InvR cur cells slots free refs -> slots j = Some sl -> ~ lock_ok cur free j sl ->
  (forall c cl, cells c = Some cl -> ~ (c_state cl = Live /\ c_slot cl = j) -> cells' c = Some cl) ->
  (forall j0 g, j0 <> j -> (In j0 (free' g) <-> In j0 (free g))) ->
  InvR cur cells' (updN slots j (Some sl')) free' refs.
Proof.
  intros H E NL HC HF r Hr. destruct (H r Hr) as (Hrev & Ht). split; [exact Hrev|].
  destruct (r_tgt r) as [c|j0].
  - destruct Ht as (cl & Ec & Hs & Hv & Hl). exists cl.
    destruct (cstate_dec (c_state cl) Live) as [Hlive|Hnl].
    + destruct (Hl Hlive) as (sl0 & Es & Hk).
      assert (c_slot cl <> j) as Hne.
      { intros Heq. rewrite Heq in *. rewrite E in Es. injection Es as <-. contradiction. }
      split; [apply HC; [exact Ec | tauto]|]. repeat split; auto. intros _.
      exists sl0. rewrite updN_other by congruence. split; [exact Es|].
      eapply lock_ok_free_ext; [|exact Hk]. intros g. now apply HF.
    + split; [apply HC; [exact Ec | tauto]|]. repeat split; auto. intros; contradiction.
  - destruct Ht as (sl0 & Es & Hf & Hk).
    assert (j0 <> j) as Hne.
    { intros ->. rewrite E in Es. injection Es as <-. contradiction. }
    exists sl0. rewrite updN_other by congruence. repeat split; auto.
    eapply lock_ok_free_ext; [|exact Hk]. intros g. now apply HF.
Qed.

Lemma InvR_nil cur cells slots free : InvR cur cells slots free [].
Proof. intros r []. Qed.

(* ---------------------------------------------------------------- queue *)

Lemma In_removelast {A} (l : list A) x : In x (removelast l) -> In x l.
Proof.
  induction l as [|a l IH]; [auto|]. destruct l as [|b l]; [intros []|].
  change (removelast (a :: b :: l)) with (a :: removelast (b :: l)).
  intros [<-|H]; [now left | right; auto].
Qed.

Lemma InvQ_record cur queue g :
  InvQ cur queue -> queue g <> [] -> InvQ cur (updN queue g (k_rq_record (queue g) cur)).
Proof.
  intros (Hc & H) Hne. split; [exact Hc|]. intros g0. unfold updN.
  destruct (N.eqb_spec g g0) as [<-|Hg]; [|apply H].
  destruct (H g) as (Hlen & Hin). split.
  - rewrite k_rq_record_length; auto.
  - intros x. rewrite k_rq_record_spec by assumption.
    destruct (cur <=? k_nth (queue g) 0); [apply Hin|].
    intros [<-|Hx]; [lia|]. apply Hin. now apply In_removelast.
Qed.

Lemma qrecord_spec st g :
  InvQ (l_cur st) (l_queue st) ->
  InvQ (l_cur (qrecord st g)) (l_queue (qrecord st g)) /\
  l_cur (qrecord st g) = l_cur st /\ l_ntypes (qrecord st g) = l_ntypes st /\
  l_ncells (qrecord st g) = l_ncells st /\ l_cells (qrecord st g) = l_cells st /\
  l_npages (qrecord st g) = l_npages st /\ l_ping (qrecord st g) = l_ping st /\
  l_palloc (qrecord st g) = l_palloc st /\ l_slots (qrecord st g) = l_slots st /\
  l_slotids (qrecord st g) = l_slotids st /\ l_free (qrecord st g) = l_free st /\
  l_deleted (qrecord st g) = l_deleted st /\ l_refs (qrecord st g) = l_refs st /\
  l_dropped (qrecord st g) = l_dropped st /\ l_err (qrecord st g) = l_err st.
Proof.
  intros HQ. unfold qrecord. destruct (l_queue st g) as [|x t] eqn:E.
  - split; [exact HQ|]. repeat split.
  - split; [|cbn; repeat split].
    cbn. rewrite <- E. apply InvQ_record; [exact HQ | congruence].
Qed.

(* a stale stamp is older than the current revision *)
Lemma stale_lt_cur cur queue g l :
  InvQ cur queue -> k_rq_is_stale (queue g) l = true -> l < cur.
Proof.
  intros (Hc & H) Hs. destruct (H g) as (_ & Hin).
  apply k_rq_is_stale_iff in Hs.
  - destruct Hs as (_ & o & Eo & Hlt). rewrite k_last_spec in Eo.
    destruct (queue g) as [|x t] eqn:E; [discriminate|]. injection Eo as <-.
    assert (In (last (x :: t) 0) (x :: t)) as Hl.
    { destruct (exists_last (l := x :: t) ltac:(discriminate)) as (l' & a & El).
      rewrite El, last_last. apply in_or_app. right. now left. }
    apply Hin in Hl. change (l < last (x :: t) 0) in Hlt. lia.
  - apply Forall_forall. intros x Hx. change k_rev_start with 1. apply Hin in Hx. lia.
Qed.

(* Life/ProofsOps2.v — slot allocation, struct reuse / update / deletion, memo insertion,
   interned slot reuse. *)
From Salsa Require Import Base.
From Salsa.gen Require Import Kernels.
From Salsa.Kern Require Import K9_Retention.
From Salsa.Life Require Import Model ProofsBase ProofsInv ProofsStep ProofsOps.

(* ---------------------------------------------------------------- a fresh location *)

Lemma InvC_slot_fresh nt nc cells slots del j sl :
  InvC nt nc cells slots del -> slots j = None -> (forall f, s_memos sl f = None) ->
  InvC nt nc cells (updN slots j (Some sl)) del.
Proof.
  intros [D L T D1 D2 ND FR] E M. constructor; auto.
  - intros c cl Ec Hl. destruct (L c cl Ec Hl) as (Hf & sl0 & Es & Em). split; [exact Hf|].
    exists sl0. rewrite updN_other; [auto | congruence].
  - intros j0 sl0 f c. unfold updN. destruct (N.eqb_spec j j0) as [<-|Hne]; [|apply T].
    intros H. injection H as <-. rewrite M. discriminate.
Qed.

Lemma InvF_slot_fresh slots free j sl :
  InvF slots free -> slots j = None -> InvF (updN slots j (Some sl)) free.
Proof.
  intros [S ND] E. constructor; auto. intros g j0 Hin.
  destruct (S g j0 Hin) as (sl0 & Es & H). exists sl0. rewrite updN_other; [auto | congruence].
Qed.

Lemma InvR_slot_fresh cur cells slots free refs j sl :
  InvR cur cells slots free refs -> slots j = None -> InvR cur cells (updN slots j (Some sl)) free refs.
Proof.
  intros H E r Hr. destruct (H r Hr) as (Hrev & Ht). split; [exact Hrev|].
  destruct (r_tgt r) as [c|j0].
  - destruct Ht as (cl & Ec & Hs & Hv & Hl). exists cl. repeat split; auto. intros Hlive.
    destruct (Hl Hlive) as (sl0 & Es & Hk). exists sl0. rewrite updN_other; [auto | congruence].
  - destruct Ht as (sl0 & Es & Hf & Hk). exists sl0. rewrite updN_other; [auto | congruence].
Qed.

Lemma newslot_inv st k p v reusable : Inv st -> Inv (fst (step_shared st (ONewSlot k p v reusable))).
Proof.
  intros HI. cbn [step_shared].
  destruct (N.ltb_spec p (l_npages st)) as [Hp|]; [|exact HI].
  destruct (N.ltb_spec (l_palloc st p) PAGE_LEN) as [Hk|]; [|exact HI]. cbn [fst].
  set (st0 := match k with KInterned => qrecord st (l_ping st p) | _ => st end).
  assert (Inv st0 /\ l_cur st0 = l_cur st /\ l_ntypes st0 = l_ntypes st /\ l_ncells st0 = l_ncells st /\
          l_cells st0 = l_cells st /\ l_slots st0 = l_slots st /\ l_free st0 = l_free st /\
          l_deleted st0 = l_deleted st /\ l_refs st0 = l_refs st /\ l_dropped st0 = l_dropped st /\
          l_err st0 = l_err st) as (HI0 & E1 & E2 & E3 & E4 & E8 & E10 & E11 & E12 & E13 & E14).
  { unfold st0. destruct k; try (split; [exact HI | repeat split]).
    split; [now apply Inv_qrecord|].
    destruct (qrecord_spec st (l_ping st p) (inv_q _ HI)) as (_ & ? & ? & ? & ? & ? & ? & ? & ? & ? & ? & ? & ? & ? & ?).
    repeat split; assumption. }
  clearbody st0.
  set (j := make_id p (l_palloc st p)).
  pose proof (inv_s _ HI) as HS.
  pose proof (is_pages _ _ _ _ HS) as HP.
  assert (~ In j (l_slotids st)) as Hfresh.
  { intros Hin. apply (is_bounds _ _ _ _ HS) in Hin. destruct Hin as (p' & k' & Ej & Hp' & Hk').
    pose proof (is_alloc _ _ _ _ HS p') as HA.
    apply make_id_inj in Ej; try lia. destruct Ej as (<- & <-). lia. }
  assert (l_slots st j = None) as Enone.
  { destruct (l_slots st j) eqn:E; [|reflexivity]. exfalso. apply Hfresh.
    apply (is_dom _ _ _ _ HS). congruence. }
  destruct HI0 as [HL HE HC HS0 HF HR HQ]. rewrite ?E1, ?E2, ?E3, ?E4, ?E8, ?E10, ?E11, ?E12 in *.
  constructor; simpl_st; rewrite ?E1, ?E2, ?E3, ?E4, ?E8, ?E10, ?E11, ?E12; auto.
  - apply InvC_slot_fresh; auto.
  - destruct HS as [D ND B P A FI]. constructor; auto.
    + intros j0. unfold updN. destruct (N.eqb_spec j j0) as [<-|Hne].
      * split; [intros _; now left | discriminate].
      * rewrite D. split; [now right | intros [H|H]; [congruence | exact H]].
    + constructor; auto.
    + intros j0. split.
      * intros [<-|Hin].
        -- exists p, (l_palloc st p). split; [reflexivity|]. split; [exact Hp|]. rewrite updN_same. lia.
        -- apply B in Hin. destruct Hin as (p' & k' & -> & Hp' & Hk'). exists p', k'.
           split; [reflexivity|]. split; [exact Hp'|]. unfold updN. destruct (N.eqb_spec p p') as [<-|]; lia.
      * intros (p' & k' & -> & Hp' & Hk'). unfold updN in Hk'.
        destruct (N.eqb_spec p p') as [<-|Hne].
        -- destruct (N.eq_dec k' (l_palloc st p)) as [->|Hk2]; [now left|]. right. apply B.
           exists p, k'. split; [reflexivity|]. split; [exact Hp | lia].
        -- right. apply B. exists p', k'. auto.
    + intros p'. unfold updN. destruct (N.eqb_spec p p') as [<-|]; [lia | apply A].
    + intros j0 sl0. unfold updN. destruct (N.eqb_spec j j0) as [<-|]; [|apply FI].
      intros H. injection H as <-. discriminate.
  - apply InvF_slot_fresh; auto.
  - apply InvR_slot_fresh; auto.
Qed.

(* ---------------------------------------------------------------- OReuseStruct *)

Lemma reuse_inv st g v : Inv st -> Inv (fst (step_shared st (OReuseStruct g v))).
Proof.
  intros HI. cbn [step_shared]. destruct (l_free st g) as [|i rest] eqn:Efree; [exact HI|].
  set (st0 := set_free st (updN (l_free st) g rest)).
  pose proof (inv_f _ HI) as HF. pose proof (inv_s _ HI) as HS.
  destruct (if_slot _ _ HF g i) as (sl & Es & K & Ig & St & M); [rewrite Efree; now left|].
  pose proof (if_nodup _ _ HF g) as NDg. rewrite Efree in NDg. apply NoDup_cons_iff in NDg. destruct NDg as (Hni & NDrest).
  assert (forall g0 j0, In j0 (updN (l_free st) g rest g0) -> In j0 (l_free st g0)) as Hsub.
  { intros g0 j0. unfold updN. destruct (N.eqb_spec g g0) as [<-|]; [|auto].
    rewrite Efree. intros H. now right. }
  assert (forall g0, ~ In i (updN (l_free st) g rest g0)) as Hnoti.
  { intros g0. unfold updN. destruct (N.eqb_spec g g0) as [<-|Hne]; [exact Hni|].
    intros Hin. destruct (if_slot _ _ HF g0 i Hin) as (sl' & Es' & _ & Ig' & _).
    rewrite Es in Es'. injection Es' as <-. congruence. }
  assert (Inv st0) as HI0.
  { unfold st0. destruct HI as [HL HE HC HS' HF' HR HQ]. constructor; simpl_st; auto.
    - constructor.
      + intros g0 j0 Hin. apply (if_slot _ _ HF g0 j0). now apply Hsub.
      + intros g0. unfold updN. destruct (N.eqb_spec g g0) as [<-|]; [exact NDrest | apply (if_nodup _ _ HF)].
    - intros r Hr. destruct (HR r Hr) as (Hrev & Ht). split; [exact Hrev|].
      assert (forall j0 sl0, lock_ok (l_cur st) (l_free st) j0 sl0 ->
                             lock_ok (l_cur st) (updN (l_free st) g rest) j0 sl0) as Hmono.
      { intros j0 sl0. unfold lock_ok. destruct (s_kind sl0); auto.
        intros [H|(H1 & H2)]; [now left | right; split; [exact H1|]]. intros Hin. apply H2. now apply Hsub. }
      destruct (r_tgt r) as [c|j0].
      + destruct Ht as (cl & Ec & Hs & Hv & Hl). exists cl. repeat split; auto. intros Hlive.
        destruct (Hl Hlive) as (sl0 & Es0 & Hk). eauto.
      + destruct Ht as (sl0 & Es0 & Hf & Hk). eauto. }
  assert (loc st0 i = Some i) as Eloc.
  { apply (loc_self st0); [apply (inv_s _ HI0) | unfold st0; simpl_st; rewrite Es; discriminate]. }
  unfold with_slot. rewrite Eloc. replace (l_slots st0 i) with (l_slots st i) by reflexivity. rewrite Es.
  destruct (next_generation (s_gen sl)) as [g'|]; [|exact HI0].
  rewrite St. cbn [fst]. clear HI0 Eloc. unfold st0. clear st0.
  destruct HI as [HL HE HC HS' HF' HR HQ]. constructor; simpl_st; auto.
  - eapply InvC_slot_meta; eauto.
  - eapply InvS_slot_meta; eauto. discriminate.
  - constructor.
    + intros g0 j0 Hin. destruct (if_slot _ _ HF g0 j0 (Hsub _ _ Hin)) as (sl0 & Es0 & H).
      exists sl0. rewrite updN_other; [auto|]. intros <-. exact (Hnoti g0 Hin).
    + intros g0. unfold updN. destruct (N.eqb_spec g g0) as [<-|]; [exact NDrest | apply (if_nodup _ _ HF)].
  - eapply InvR_kill_slot with (cells := l_cells st) (free := l_free st); eauto.
    + unfold lock_ok. rewrite K, St, Ig. intros [H|(_ & H)]; [discriminate|].
      apply H. rewrite Efree. now left.
    + intros j0 g0 Hne. unfold updN. destruct (N.eqb_spec g g0) as [<-|]; [|tauto].
      rewrite Efree. split; [intros H; now right | intros [H|H]; [congruence | exact H]].
Qed.

(* ---------------------------------------------------------------- clearing the memos of an
   unprotected slot under `&db` and overwriting the slot *)

Lemma Inv_clear_slot st j sl sl' free' :
  Inv st -> l_slots st j = Some sl -> ~ lock_ok (l_cur st) (l_free st) j sl ->
  s_fields sl' <> None -> (forall f, s_memos sl' f = None) ->
  InvF (updN (l_slots st) j (Some sl')) free' ->
  (forall j0 g, j0 <> j -> (In j0 (free' g) <-> In j0 (l_free st g))) ->
  Inv (set_free (put_slot (clear_memos st sl) j sl') free').
Proof.
  intros HI Es NL Hf M HF' Hfree.
  destruct (clear_memos_spec st j sl (inv_c _ HI) Es) as (SB & EE & HX & HN).
  unfold same_but_cells in SB.
  destruct SB as (E1 & E2 & E3 & E4 & E5 & E6 & E7 & E8 & E9 & E10 & E11 & E12 & E13).
  destruct HI as [HL HE HC HS HF HR HQ].
  constructor; simpl_st; rewrite ?E1, ?E2, ?E3, ?E4, ?E5, ?E6, ?E7, ?E8, ?E9, ?E10, ?E11, ?E12, ?E13; auto.
  - congruence.
  - eapply InvC_clear; eauto.
  - eapply InvS_slot_meta; eauto.
  - eapply InvR_kill_slot; eauto. eapply clear_keeps_others; eauto.
Qed.

Lemma Inv_clear_slot_same_free st j sl sl' :
  Inv st -> l_slots st j = Some sl -> ~ lock_ok (l_cur st) (l_free st) j sl ->
  (forall g, ~ In j (l_free st g)) ->
  s_fields sl' <> None -> (forall f, s_memos sl' f = None) ->
  Inv (put_slot (clear_memos st sl) j sl').
Proof.
  intros HI Es NL NF Hf M.
  pose proof (Inv_clear_slot st j sl sl' (l_free st) HI Es NL Hf M) as H.
  destruct (clear_memos_spec st j sl (inv_c _ HI) Es) as (SB & _).
  destruct SB as (_ & _ & _ & _ & _ & _ & _ & _ & E9 & _).
  assert (set_free (put_slot (clear_memos st sl) j sl') (l_free st) = put_slot (clear_memos st sl) j sl') as Eq.
  { unfold put_slot, set_slots, set_free. cbn. now rewrite E9. }
  rewrite <- Eq. apply H.
  - apply InvF_slot_meta; [apply (inv_f _ HI) | exact NF].
  - tauto.
Qed.

(* a struct whose stamp is an older revision is not protected *)
Lemma tracked_old_unprotected cur free j sl r :
  s_kind sl = KTracked -> s_stamp sl = Some r -> r <> cur -> ~ lock_ok cur free j sl.
Proof.
  intros K S Hr. unfold lock_ok. rewrite K, S. intros [H|(H & _)]; [|discriminate]. congruence.
Qed.

(* ---------------------------------------------------------------- OUpdateStruct *)

Lemma update_inv st i v idchg : Inv st -> Inv (fst (step_shared st (OUpdateStruct i v idchg))).
Proof.
  intros HI. cbn [step_shared].
  match goal with |- Inv (fst (with_slot st i ?k)) =>
    destruct (with_slot_cases st i k (inv_s _ HI)) as [->|(j & sl & _ & Es & ->)]; [exact HI|] end.
  destruct (s_kind sl) eqn:K; cbn [is_kind negb]; try exact HI.
  destruct (s_stamp sl) as [r|] eqn:S; [|exact HI].
  destruct (N.eqb_spec r (l_cur st)) as [|Hr]; [exact HI|].
  destruct (next_generation (s_gen sl)) as [g'|]; [|exact HI].
  pose proof (tracked_old_unprotected (l_cur st) (l_free st) j sl r K S Hr) as NL.
  assert (forall g, ~ In j (l_free st g)) as NF.
  { eapply not_free_of_stamp; [apply (inv_f _ HI) | exact Es | left; congruence]. }
  destruct idchg; cbn [fst].
  - apply (Inv_clear_slot_same_free st j sl _ HI Es NL NF); simpl_sl; [discriminate | reflexivity].
  - destruct HI as [HL HE HC HS HF HR HQ]. constructor; simpl_st; auto.
    + eapply InvC_slot_meta; eauto.
    + eapply InvS_slot_meta; eauto. discriminate.
    + apply InvF_slot_meta; auto.
    + eapply InvR_kill_slot with (cells := l_cells st) (free := l_free st); eauto. tauto.
Qed.

(* ---------------------------------------------------------------- ODeleteEntity *)

Lemma delete_inv st i cb : Inv st -> Inv (fst (step_shared st (ODeleteEntity i cb))).
Proof.
  intros HI. cbn [step_shared].
  match goal with |- Inv (fst (with_slot st i ?k)) =>
    destruct (with_slot_cases st i k (inv_s _ HI)) as [->|(j & sl & _ & Es & ->)]; [exact HI|] end.
  destruct (s_kind sl) eqn:K; cbn [is_kind negb]; try exact HI.
  destruct (s_stamp sl) as [r|] eqn:S; [|exact HI].
  assert (forall g, ~ In j (l_free st g)) as NF.
  { eapply not_free_of_stamp; [apply (inv_f _ HI) | exact Es | left; congruence]. }
  destruct (N.eqb_spec r (l_cur st)) as [->|Hr]; cbn [fst].
  - (* read-locked in this revision: the swap has happened, then the panic *)
    apply (Inv_slot_meta st j sl); auto.
    + left. congruence.
    + unfold lock_ok. simpl_sl. rewrite K. intros _. right. split; [reflexivity | apply NF].
  - pose proof (tracked_old_unprotected (l_cur st) (l_free st) j sl r K S Hr) as NL.
    destruct cb; cbn [fst].
    + apply (Inv_clear_slot_same_free st j sl _ HI Es NL NF); simpl_sl; [|reflexivity].
      eapply is_fields; [apply (inv_s _ HI) | eauto].
    + destruct (clear_memos_spec st j sl (inv_c _ HI) Es) as (SB & _).
      destruct SB as (_ & _ & _ & _ & _ & _ & _ & _ & E9 & _).
      replace (l_free (put_slot (clear_memos st sl) j (set_memos (set_stamp sl None) no_memos)))
        with (l_free st) by (simpl_st; now rewrite E9).
      apply (Inv_clear_slot st j sl _ _ HI Es NL); simpl_sl.
      * eapply is_fields; [apply (inv_s _ HI) | eauto].
      * reflexivity.
      * constructor.
        -- intros g j0 Hin.
           assert (In j0 (l_free st g) \/ (j0 = j /\ g = s_ing sl)) as Hc.
           { unfold updN in Hin. destruct (N.eqb_spec (s_ing sl) g) as [<-|Hg]; [|now left].
             apply in_app_iff in Hin. destruct Hin as [H|[<-|[]]]; [now left | right; auto]. }
           destruct Hc as [Hin'|(-> & ->)].
           ++ destruct (if_slot _ _ (inv_f _ HI) _ _ Hin') as (sl0 & Es0 & H). exists sl0.
              rewrite updN_other; [auto|]. intros <-. exact (NF _ Hin').
           ++ rewrite updN_same. eexists. split; [reflexivity|]. cbn. auto.
        -- intros g. unfold updN. destruct (N.eqb_spec (s_ing sl) g) as [<-|Hg]; [|apply (if_nodup _ _ (inv_f _ HI))].
           apply NoDup_app_intro; [apply (if_nodup _ _ (inv_f _ HI)) | repeat constructor; intros [] |].
           intros x Hx [<-|[]]. exact (NF _ Hx).
      * intros j0 g Hne. unfold updN. destruct (N.eqb_spec (s_ing sl) g) as [<-|Hg]; [|tauto].
        rewrite in_app_iff. split; [intros [H|[H|[]]]; [exact H | congruence] | intros H; now left].
Qed.

(* ---------------------------------------------------------------- OInternReuse *)

Lemma internreuse_inv st i v reusable : Inv st -> Inv (fst (step_shared st (OInternReuse i v reusable))).
Proof.
  intros HI. cbn [step_shared].
  match goal with |- Inv (fst (with_slot st i ?k)) =>
    destruct (with_slot_cases st i k (inv_s _ HI)) as [->|(j & sl & _ & Es & ->)]; [exact HI|] end.
  destruct (s_kind sl) eqn:K; cbn [is_kind negb]; try exact HI.
  pose proof (Inv_qrecord st (s_ing sl) HI) as HI0.
  destruct (qrecord_spec st (s_ing sl) (inv_q _ HI)) as (_ & E1 & _ & _ & _ & _ & _ & _ & E8 & _ & E10 & _).
  set (st0 := qrecord st (s_ing sl)) in *.
  destruct (s_reusable sl) eqn:R; cbn [andb negb]; [|exact HI0].
  destruct (s_stamp sl) as [l|] eqn:S; cbn [negb]; [|exact HI0].
  destruct (k_rq_is_stale (l_queue st0 (s_ing sl)) l) eqn:Stale; cbn [negb]; [|exact HI0].
  destruct (next_generation (s_gen sl)) as [g'|]; [|exact HI0]. cbn [fst].
  pose proof (stale_lt_cur _ _ _ _ (inv_q _ HI0) Stale) as Hlt.
  rewrite <- E1.
  apply (Inv_clear_slot_same_free st0 j sl _ HI0).
  - rewrite E8. exact Es.
  - rewrite E1, E10. unfold lock_ok. rewrite K, R, S. intros [H|(l0 & H1 & H2)]; [discriminate|].
    injection H1 as <-. rewrite E1 in Hlt. lia.
  - rewrite E10. eapply not_free_of_stamp; [apply (inv_f _ HI) | exact Es | right; congruence].
  - simpl_sl. discriminate.
  - reflexivity.
Qed.

(* Life/Model.v — executable machine of salsa's memo-cell / slot LIFETIME PROTOCOL (definitions only).

   What is modelled: who may free or overwrite what, and when.  Memo allocations ("cells") are
   `Live` (reachable from a slot's memo table), `Retired` (swapped out of the table by
   `insert_memo` and parked in `deleted_entries`) or `Freed`.  Slots (input / tracked struct /
   interned values in table pages) carry their fields, their memo table and the stamp that salsa
   uses as a lock (`updated_at` / `last_interned_at`).  References handed out to the user are
   recorded with the revision in which they were handed out and the value they denoted.

   Mirrors (hand-transcribed; tied to the code by hook H4 `salsa::verif_life`, the harness
   /verif/harness-life and the replayer /verif/ocaml/life/replay.ml):
     src/function.rs          insert_memo (Box::leak, swap into the table, old memo ->
                              deleted_entries.push), extend_memo_lifetime, reset_for_new_revision
                              (LRU evictions, then deleted_entries.clear())
     src/function/delete.rs   DeletedEntries::{push, clear}, SharedBox::drop
     src/function/memo.rs     evict_value_from_memo_for (memo.value = None in place, &mut)
     src/function/fetch.rs    fetch: the reference returned to the user points into the memo that
                              is in the table
     src/table/memo.rs        MemoTableWithTypes::{insert (swap), get}, MemoTableWithTypesMut::
                              {map_memo, take_memos, drop}, MemoEntry::take, MemoTable::reset;
                              a MemoTable has NO Drop for its memos (only the entry array)
     src/table.rs             Table::{get, get_raw, memos, memos_mut} (bounds checks: `pages[p]`,
                              `data()[slot]` / `Page::get` assert), PageView::allocate
                              (index >= PAGE_LEN -> Err), push_page, Page::drop (per initialised
                              slot: memo table drop, then drop_in_place of the slot)
     src/tracked_struct.rs    allocate (free_list.pop / next_generation / `*data_raw = value`),
                              update (write lock = updated_at.swap(None), early return when
                              updated_at == current revision), delete_entity (lock test AFTER the
                              swap, clear_memos, free_list.push), clear_memos (take_memos: every
                              memo is freed at once; drop guard for a panicking callback),
                              acquire_read_lock, Slot::memos (read lock on memo-table access),
                              tracked_field / untracked_field
     src/interned.rs          intern_id fast path (stamp := max, durability only rises), cold path,
                              reuse path (find_reusable_slot: reusable && is_stale(stamp); fields
                              replaced, clear_memos, generation bump), maybe_changed_after
                              (stamp := current), data (debug_assert), Slot::memos (no check)
     src/input.rs             new_input, set_field (&mut), field
     src/zalsa.rs             new_revision, evict_lru (&mut), field order of `Zalsa` (ingredients,
                              hence every `deleted_entries`, are dropped before the table)

   ACCESS MODES.  Operations marked [&mut] need `&mut db`; Rust's borrow checker ends every
   `&'db` borrow before such a call, which the machine expresses by emptying `l_refs` — this is
   the only place where references die.  Everything else runs under `&db` and leaves `l_refs`
   alone: `insert_memo`, `delete_entity`, tracked `update`, struct slot reuse and interned slot
   reuse all happen while user references may be outstanding; what protects those references is
   (a) the Retired state for replaced memos and (b) the stamps:
     tracked struct:  every memo-table access and every field read sets updated_at := current;
                      `update` returns early and `delete_entity` panics when updated_at = current;
     interned value:  reuse needs `reusable && is_stale(last_interned_at)` (translated kernels
                      k_rq_is_stale / k_rq_record), and a stale stamp is < current.
   For interned values salsa has NO runtime check on memo access (`Slot::memos` comment: "it must
   have been interned, and thus validated, in the current revision") and only a debug_assert in
   `data`.  The machine names this client obligation `contract_ok` and REFUSES (LRefused) an
   access that violates it; the replayer reports any real access the machine refuses.

   The machine never blocks a memory error by a guard: reading or writing a Freed cell, reading
   dropped fields or an uninitialised slot sets the ghost flag `l_err`; freeing a cell increments
   its ghost counter `c_frees`.  The theorems (Life/Proofs.v, Props/C23.v) say the flag stays
   false and the counter never exceeds one.

   NOT modelled (outside any Gallina model of this kind; named in evidence as unverified):
   raw-pointer provenance and aliasing, `SliceWithHeader` / `OriginAndExtra` layout arithmetic,
   the `transmute` lifetime extensions themselves (the machine assumes they produce exactly
   `'db`), `Send`/`Sync` impls, atomics and memory ordering, several handles / threads (C20,
   C24), the intrusive LRU list of the interned ingredient, type identity of pages. *)
From Salsa Require Import Base.
From Salsa.gen Require Import Kernels.
From Salsa.Alloc Require Export PageKGen.

(* ---------------------------------------------------------------- cells *)

Inductive cstate := Live | Retired | Freed.

Record mcell := mk_cell {
  c_state : cstate;
  c_slot : N;                 (* owner: location (id index) of the slot whose table held it *)
  c_fn : N;                   (* memo ingredient index *)
  c_val : option val;         (* None = value evicted (memo.value = None) *)
  c_frees : N                 (* ghost: how many times the Box was dropped *)
}.

Definition cstate_eqb (a b : cstate) : bool :=
  match a, b with Live, Live | Retired, Retired | Freed, Freed => true | _, _ => false end.

(* ---------------------------------------------------------------- slots *)

Inductive skind := KInput | KTracked | KInterned.

Record slot := mk_slot {
  s_kind : skind;
  s_ing : N;                  (* ingredient of the page *)
  s_gen : N;                  (* generation of the id currently stored *)
  s_stamp : option N;         (* tracked: updated_at (None = write-locked / deleted);
                                 interned: Some last_interned_at; input: unused *)
  s_reusable : bool;          (* interned: is_reusable(durability) *)
  s_fields : option val;      (* None once dropped by Page::drop *)
  s_memos : N -> option N     (* memo ingredient index -> cell *)
}.

Definition set_stamp (sl : slot) (x : option N) : slot :=
  mk_slot (s_kind sl) (s_ing sl) (s_gen sl) x (s_reusable sl) (s_fields sl) (s_memos sl).
Definition set_reusable (sl : slot) (b : bool) : slot :=
  mk_slot (s_kind sl) (s_ing sl) (s_gen sl) (s_stamp sl) b (s_fields sl) (s_memos sl).
Definition set_fields (sl : slot) (x : option val) : slot :=
  mk_slot (s_kind sl) (s_ing sl) (s_gen sl) (s_stamp sl) (s_reusable sl) x (s_memos sl).
Definition set_memos (sl : slot) (m : N -> option N) : slot :=
  mk_slot (s_kind sl) (s_ing sl) (s_gen sl) (s_stamp sl) (s_reusable sl) (s_fields sl) m.
Definition set_gen (sl : slot) (g : N) : slot :=
  mk_slot (s_kind sl) (s_ing sl) g (s_stamp sl) (s_reusable sl) (s_fields sl) (s_memos sl).

Definition no_memos : N -> option N := fun _ => None.

(* ---------------------------------------------------------------- references *)

Inductive target := TCell (c : N) | TField (j : N).

Record lref := mk_ref {
  r_tgt : target;
  r_rev : N;                  (* revision in which it was handed out *)
  r_val : val                 (* what it denoted then *)
}.

(* ---------------------------------------------------------------- state *)

Record lstate := mk_l {
  l_cur : N;                  (* current revision *)
  l_ntypes : N;               (* MemoTableTypes::len(), fixed when the database is created *)
  l_ncells : N;
  l_cells : N -> option mcell;
  l_npages : N;               (* pages.count() *)
  l_ping : N -> N;            (* Page.ingredient *)
  l_palloc : N -> N;          (* Page.allocated *)
  l_slots : N -> option slot; (* location (make_id page slot) -> contents *)
  l_slotids : list N;         (* ghost: every initialised location, newest first *)
  l_free : N -> list N;       (* tracked ingredient -> free_list (front first) *)
  l_deleted : list N;         (* deleted_entries of all function ingredients *)
  l_queue : N -> list N;      (* interned ingredient -> RevisionQueue, newest first ([] = IMMORTAL) *)
  l_refs : list lref;         (* outstanding `&'db` references *)
  l_dropped : bool;
  l_err : bool                (* ghost: a memory error happened *)
}.

Definition set_cur st x := mk_l x (l_ntypes st) (l_ncells st) (l_cells st) (l_npages st) (l_ping st)
  (l_palloc st) (l_slots st) (l_slotids st) (l_free st) (l_deleted st) (l_queue st) (l_refs st)
  (l_dropped st) (l_err st).
Definition set_cells st n x := mk_l (l_cur st) (l_ntypes st) n x (l_npages st) (l_ping st)
  (l_palloc st) (l_slots st) (l_slotids st) (l_free st) (l_deleted st) (l_queue st) (l_refs st)
  (l_dropped st) (l_err st).
Definition set_pages st n pi pa := mk_l (l_cur st) (l_ntypes st) (l_ncells st) (l_cells st) n pi
  pa (l_slots st) (l_slotids st) (l_free st) (l_deleted st) (l_queue st) (l_refs st)
  (l_dropped st) (l_err st).
Definition set_slots st x := mk_l (l_cur st) (l_ntypes st) (l_ncells st) (l_cells st) (l_npages st)
  (l_ping st) (l_palloc st) x (l_slotids st) (l_free st) (l_deleted st) (l_queue st) (l_refs st)
  (l_dropped st) (l_err st).
Definition set_slotids st x := mk_l (l_cur st) (l_ntypes st) (l_ncells st) (l_cells st) (l_npages st)
  (l_ping st) (l_palloc st) (l_slots st) x (l_free st) (l_deleted st) (l_queue st) (l_refs st)
  (l_dropped st) (l_err st).
Definition set_free st x := mk_l (l_cur st) (l_ntypes st) (l_ncells st) (l_cells st) (l_npages st)
  (l_ping st) (l_palloc st) (l_slots st) (l_slotids st) x (l_deleted st) (l_queue st) (l_refs st)
  (l_dropped st) (l_err st).
Definition set_deleted st x := mk_l (l_cur st) (l_ntypes st) (l_ncells st) (l_cells st) (l_npages st)
  (l_ping st) (l_palloc st) (l_slots st) (l_slotids st) (l_free st) x (l_queue st) (l_refs st)
  (l_dropped st) (l_err st).
Definition set_queue st x := mk_l (l_cur st) (l_ntypes st) (l_ncells st) (l_cells st) (l_npages st)
  (l_ping st) (l_palloc st) (l_slots st) (l_slotids st) (l_free st) (l_deleted st) x (l_refs st)
  (l_dropped st) (l_err st).
Definition set_refs st x := mk_l (l_cur st) (l_ntypes st) (l_ncells st) (l_cells st) (l_npages st)
  (l_ping st) (l_palloc st) (l_slots st) (l_slotids st) (l_free st) (l_deleted st) (l_queue st) x
  (l_dropped st) (l_err st).
Definition set_dropped st x := mk_l (l_cur st) (l_ntypes st) (l_ncells st) (l_cells st) (l_npages st)
  (l_ping st) (l_palloc st) (l_slots st) (l_slotids st) (l_free st) (l_deleted st) (l_queue st)
  (l_refs st) x (l_err st).
Definition set_err st := mk_l (l_cur st) (l_ntypes st) (l_ncells st) (l_cells st) (l_npages st)
  (l_ping st) (l_palloc st) (l_slots st) (l_slotids st) (l_free st) (l_deleted st) (l_queue st)
  (l_refs st) (l_dropped st) true.

(* `qlen g` = the REVISIONS parameter of interned ingredient g (0 = IMMORTAL: no queue);
   RevisionQueue::new fills the queue with Revision::start(). *)
Definition linit (ntypes : N) (qlen : N -> nat) : lstate :=
  mk_l REV_START ntypes 0 (fun _ => None) 0 (fun _ => 0) (fun _ => 0) (fun _ => None) []
       (fun _ => []) [] (fun g => repeat REV_START (qlen g)) [] false false.

(* ---------------------------------------------------------------- operations *)

Inductive lop :=
(* ---- under `&db` ---- *)
| OPushPage (ing : N)
    (* Table::push_page *)
| ONewSlot (k : skind) (p : N) (v : val) (reusable : bool)
    (* PageView::allocate on page p: new_input / tracked_struct::allocate (fresh path) /
       intern_id_cold.  `reusable` is only used for interned values. *)
| OReuseStruct (g : N) (v : val)
    (* tracked_struct::allocate, one turn of `while let Some(id) = self.free_list.pop()` *)
| OUpdateStruct (i : N) (v : val) (idchg : bool)
    (* tracked_struct::update; idchg = C::update_fields reported changed identity fields *)
| ODeleteEntity (i : N) (cb_panics : bool)
    (* tracked_struct::delete_entity; cb_panics = the user's event callback (or remove_outputs)
       panics inside clear_memos: the drop guard still frees every memo, the free-list push is
       not reached *)
| OReadField (i : N)
    (* field getter: input::field / tracked_field / untracked_field / interned::data *)
| OFetchMemo (i f : N)
    (* memo_table_for(id).get(f) and, if it holds a value, the `&'db` handed out by fetch *)
| OInsertMemo (i f : N) (ov : option val)
    (* insert_memo *)
| OInternHit (i : N) (raise : bool)
    (* intern_id fast path; raise = the interning query's durability lifts the value above LOW *)
| OInternMca (i g : N)
    (* interned maybe_changed_after for id (i, g) *)
| OInternReuse (i : N) (v : val) (reusable : bool)
    (* intern_id reuse path on the slot chosen by find_reusable_slot *)
| OReadRef (n : nat)
    (* the user dereferences the n-th outstanding reference *)
(* ---- under `&mut db` ---- *)
| ONewRevision (evs : list (N * N * bool))
    (* Zalsa::new_revision: per function ingredient reset_for_new_revision; evs = the LRU's
       choice (location, memo ingredient index, can_evict_value) *)
| OEvictLru (evs : list (N * N * bool))
    (* Zalsa::evict_lru: the same without the revision bump *)
| OSetInput (i : N) (v : val)
    (* input::set_field *)
| ODropDb.
    (* the last handle is dropped: Zalsa's fields in declaration order *)

Inductive lout :=
| LOk (r : option N) (v : option val)   (* r = id / cell returned, v = value read *)
| LPanic (code : N)                     (* a panic!/assert!/bounds check of the real code fires *)
| LRefused (code : N).                  (* not expressible for a safe client / obligation violated *)

(* panic codes *)
Definition P_BOUNDS : N := 1.       (* pages[p] / data()[slot] / Page::get assert *)
Definition P_WRITE_LOCKED : N := 2. (* acquire_read_lock / update: updated_at is None *)
Definition P_DELETE_LOCKED : N := 3. (* delete_entity: write- or read-locked id *)
Definition P_CALLBACK : N := 4.     (* user callback panicked inside clear_memos *)
Definition P_DEBUG_ASSERT : N := 5. (* a debug_assert! (interned::data, free-list entry, MAX_PAGES) *)
(* refusal codes *)
Definition R_DROPPED : N := 1.      (* the database was moved into drop *)
Definition R_KIND : N := 2.         (* the id does not belong to this ingredient (type assert) *)
Definition R_CONTRACT : N := 3.     (* interned value used without validation in this revision *)
Definition R_FN : N := 4.           (* memo ingredient index not registered *)
Definition R_NOTHING : N := 5.      (* free list empty / page full / slot not reusable / no such ref *)

(* ---------------------------------------------------------------- helpers *)

Definition range (n : N) : list N := map N.of_nat (seq 0 (N.to_nat n)).

(* Table::get: split_id, pages[p] (bounds), data()[slot] (slot < allocated).  The result is the
   location that is then dereferenced. *)
Definition loc (st : lstate) (i : N) : option N :=
  let '(p, k) := split_id i in
  if (p <? l_npages st) && (k <? l_palloc st p) then Some (make_id p k) else None.

(* one Box drop *)
Definition free_cell (c : N) (st : lstate) : lstate :=
  match l_cells st c with
  | Some cl =>
      set_cells st (l_ncells st)
        (updN (l_cells st) c (Some (mk_cell Freed (c_slot cl) (c_fn cl) None (c_frees cl + 1))))
  | None => set_err st                       (* dropping a Box that was never allocated *)
  end.

Definition free_cells (cs : list N) (st : lstate) : lstate :=
  fold_left (fun s c => free_cell c s) cs st.

(* the non-null entries of a memo table, in index order *)
Definition table_cells (ntypes : N) (m : N -> option N) : list N :=
  flat_map (fun f => match m f with Some c => [c] | None => [] end) (range ntypes).

Definition put_slot (st : lstate) (j : N) (sl : slot) : lstate :=
  set_slots st (updN (l_slots st) j (Some sl)).

(* clear_memos / MemoTableWithTypesMut::drop: free every memo of the table (the caller stores the
   slot with its table reset: `memo_table.reset()` / all entries taken) *)
Definition clear_memos (st : lstate) (sl : slot) : lstate :=
  free_cells (table_cells (l_ntypes st) (s_memos sl)) st.

(* Slot::memos: tracked structs take the read lock *)
Definition memos_access (cur : N) (sl : slot) : option slot :=
  match s_kind sl with
  | KTracked => match s_stamp sl with
                | None => None
                | Some _ => Some (set_stamp sl (Some cur))
                end
  | _ => Some sl
  end.

(* the client obligation for reusable interned values *)
Definition contract_ok (cur : N) (sl : slot) : bool :=
  match s_kind sl with
  | KInterned => negb (s_reusable sl) ||
                 match s_stamp sl with Some l => cur <=? l | None => false end
  | _ => true
  end.

(* RevisionQueue::record(current) — skipped for IMMORTAL ingredients *)
Definition qrecord (st : lstate) (g : N) : lstate :=
  match l_queue st g with
  | [] => st
  | q => set_queue st (updN (l_queue st) g (k_rq_record q (l_cur st)))
  end.

Definition push_ref (st : lstate) (t : target) (v : val) : lstate :=
  set_refs st (mk_ref t (l_cur st) v :: l_refs st).

(* one LRU eviction: table.memos_mut(id) (bounds), map_memo *)
Definition evict_one (st : lstate) (e : N * N * bool) : lstate :=
  let '(i, f, can) := e in
  match loc st i with
  | None => st                                   (* would panic; the LRU only holds live ids *)
  | Some j =>
      match l_slots st j with
      | None => set_err st
      | Some sl =>
          match s_memos sl f with
          | None => st
          | Some c =>
              match l_cells st c with
              | None => set_err st
              | Some cl =>
                  match c_state cl with
                  | Freed => set_err st          (* `&mut *freed` *)
                  | _ => if can
                         then set_cells st (l_ncells st)
                                (updN (l_cells st) c
                                   (Some (mk_cell (c_state cl) (c_slot cl) (c_fn cl) None (c_frees cl))))
                         else st
                  end
              end
          end
      end
  end.

(* reset_for_new_revision of every function ingredient *)
Definition reset_all (st : lstate) (evs : list (N * N * bool)) : lstate :=
  let st1 := fold_left evict_one evs st in
  set_deleted (free_cells (l_deleted st1) st1) [].

(* Page::drop for one initialised slot *)
Definition drop_slot (st : lstate) (j : N) : lstate :=
  match l_slots st j with
  | None => set_err st
  | Some sl =>
      let st1 := free_cells (table_cells (l_ntypes st) (s_memos sl)) st in
      put_slot st1 j (set_fields (set_memos sl no_memos) None)
  end.

Definition retire_cell (st : lstate) (c : N) : lstate :=
  match l_cells st c with
  | Some cl =>
      set_deleted
        (set_cells st (l_ncells st)
           (updN (l_cells st) c
              (Some (mk_cell (match c_state cl with Live => Retired | s => s end)
                             (c_slot cl) (c_fn cl) (c_val cl) (c_frees cl)))))
        (c :: l_deleted st)
  | None => set_err st
  end.

(* ---------------------------------------------------------------- the step function *)

Definition with_slot (st : lstate) (i : N) (k : N -> slot -> lstate * lout) : lstate * lout :=
  match loc st i with
  | None => (st, LPanic P_BOUNDS)
  | Some j =>
      match l_slots st j with
      | None => (set_err st, LPanic P_BOUNDS)    (* in bounds but never initialised *)
      | Some sl => k j sl
      end
  end.

Definition is_kind (a b : skind) : bool :=
  match a, b with
  | KInput, KInput | KTracked, KTracked | KInterned, KInterned => true
  | _, _ => false
  end.

Definition step_shared (st : lstate) (o : lop) : lstate * lout :=
  match o with
  | OPushPage ing =>
      if l_npages st <? MAX_PAGES then
        (set_pages st (l_npages st + 1) (updN (l_ping st) (l_npages st) ing)
                   (updN (l_palloc st) (l_npages st) 0),
         LOk (Some (l_npages st)) None)
      else (st, LPanic P_DEBUG_ASSERT)
  | ONewSlot k p v reusable =>
      if p <? l_npages st then
        let idx := l_palloc st p in
        if idx <? PAGE_LEN then
          let st0 := match k with KInterned => qrecord st (l_ping st p) | _ => st end in
          let j := make_id p idx in
          let sl := mk_slot k (l_ping st p) 0
                      (match k with KInput => Some 0 | _ => Some (l_cur st) end)
                      (match k with KInterned => reusable | _ => false end)
                      (Some v) no_memos in
          (set_slotids
             (set_pages (put_slot st0 j sl) (l_npages st) (l_ping st)
                        (updN (l_palloc st) p (idx + 1)))
             (j :: l_slotids st),
           LOk (Some j) None)
        else (st, LRefused R_NOTHING)            (* Err(value): the caller takes another page *)
      else (st, LPanic P_BOUNDS)
  | OReuseStruct g v =>
      match l_free st g with
      | [] => (st, LRefused R_NOTHING)
      | i :: rest =>
          let st0 := set_free st (updN (l_free st) g rest) in
          with_slot st0 i (fun j sl =>
            match next_generation (s_gen sl) with
            | None => (st0, LOk None None)       (* slot leaked, `continue` *)
            | Some g' =>
                match s_stamp sl with
                | Some _ => (st0, LPanic P_DEBUG_ASSERT)
                | None =>
                    (* `*data_raw = value(id)`: the old Value is dropped — its fields and the
                       entry array of its MemoTable, NOT the memos an entry might still hold *)
                    (put_slot st0 j (mk_slot KTracked (s_ing sl) g' (Some (l_cur st)) false
                                             (Some v) no_memos),
                     LOk (Some j) None)
                end
            end)
      end
  | OUpdateStruct i v idchg =>
      with_slot st i (fun j sl =>
        if negb (is_kind (s_kind sl) KTracked) then (st, LRefused R_KIND) else
        match s_stamp sl with
        | None => (st, LPanic P_WRITE_LOCKED)
        | Some r =>
            if r =? l_cur st then (st, LOk (Some j) None)      (* already read-locked: untouched *)
            else match next_generation (s_gen sl) with
                 | None => (st, LOk None None)                 (* Err(fields): allocate afresh *)
                 | Some g' =>
                     let sl1 := set_fields (set_stamp sl None) (Some v) in
                     if idchg then
                       (put_slot (clear_memos st sl) j
                                 (set_stamp (set_gen (set_memos sl1 no_memos) g') (Some (l_cur st))),
                        LOk (Some j) None)
                     else
                       (put_slot st j (set_stamp sl1 (Some (l_cur st))), LOk (Some j) None)
                 end
        end)
  | ODeleteEntity i cb_panics =>
      with_slot st i (fun j sl =>
        if negb (is_kind (s_kind sl) KTracked) then (st, LRefused R_KIND) else
        match s_stamp sl with
        | None => (st, LPanic P_DELETE_LOCKED)
        | Some r =>
            let sl1 := set_stamp sl None in                    (* the swap happens first *)
            if r =? l_cur st then (put_slot st j sl1, LPanic P_DELETE_LOCKED)
            else
              let st1 := put_slot (clear_memos st sl) j (set_memos sl1 no_memos) in
              if cb_panics then (st1, LPanic P_CALLBACK)
              else (set_free st1 (updN (l_free st1) (s_ing sl) (l_free st1 (s_ing sl) ++ [j])),
                    LOk None None)
        end)
  | OReadField i =>
      with_slot st i (fun j sl =>
        match memos_access (l_cur st) sl with          (* lock_fields takes the same read lock *)
        | None => (st, LPanic P_WRITE_LOCKED)
        | Some sl1 =>
            if negb (contract_ok (l_cur st) sl1) then (st, LPanic P_DEBUG_ASSERT) else
            let st1 := put_slot st j sl1 in
            match s_fields sl1 with
            | None => (set_err st1, LOk None None)
            | Some v => (push_ref st1 (TField j) v, LOk (Some j) (Some v))
            end
        end)
  | OFetchMemo i f =>
      if negb (f <? l_ntypes st) then (st, LRefused R_FN) else
      with_slot st i (fun j sl =>
        match memos_access (l_cur st) sl with
        | None => (st, LPanic P_WRITE_LOCKED)
        | Some sl1 =>
            if negb (contract_ok (l_cur st) sl1) then (st, LRefused R_CONTRACT) else
            let st1 := put_slot st j sl1 in
            match s_memos sl1 f with
            | None => (st1, LOk None None)
            | Some c =>
                match l_cells st1 c with
                | None => (set_err st1, LOk (Some c) None)
                | Some cl =>
                    match c_state cl with
                    | Freed => (set_err st1, LOk (Some c) None)
                    | _ => match c_val cl with
                           | None => (st1, LOk (Some c) None)
                           | Some v => (push_ref st1 (TCell c) v, LOk (Some c) (Some v))
                           end
                    end
                end
            end
        end)
  | OInsertMemo i f ov =>
      if negb (f <? l_ntypes st) then (st, LRefused R_FN) else
      with_slot st i (fun j sl =>
        match memos_access (l_cur st) sl with
        | None => (st, LPanic P_WRITE_LOCKED)
        | Some sl1 =>
            if negb (contract_ok (l_cur st) sl1) then (st, LRefused R_CONTRACT) else
            let c := l_ncells st in
            let st1 := set_cells st (c + 1)
                         (updN (l_cells st) c (Some (mk_cell Live j f ov 0))) in
            let st2 := put_slot st1 j (set_memos sl1 (updN (s_memos sl1) f (Some c))) in
            let st3 := match s_memos sl1 f with
                       | Some old => retire_cell st2 old
                       | None => st2
                       end in
            (match ov with Some v => push_ref st3 (TCell c) v | None => st3 end,
             LOk (Some c) ov)
        end)
  | OInternHit i raise =>
      with_slot st i (fun j sl =>
        if negb (is_kind (s_kind sl) KInterned) then (st, LRefused R_KIND) else
        let st0 := qrecord st (s_ing sl) in
        let stamp := match s_stamp sl with
                     | Some l => Some (N.max l (l_cur st))
                     | None => Some (l_cur st)
                     end in
        (put_slot st0 j (set_reusable (set_stamp sl stamp) (s_reusable sl && negb raise)),
         LOk (Some j) None))
  | OInternMca i g =>
      with_slot st i (fun j sl =>
        if negb (is_kind (s_kind sl) KInterned) then (st, LRefused R_KIND) else
        let st0 := qrecord st (s_ing sl) in
        if g <? s_gen sl then (st0, LOk None None)             (* the slot was reused: changed *)
        else (put_slot st0 j (set_stamp sl (Some (l_cur st))), LOk (Some j) None))
  | OInternReuse i v reusable =>
      with_slot st i (fun j sl =>
        if negb (is_kind (s_kind sl) KInterned) then (st, LRefused R_KIND) else
        let st0 := qrecord st (s_ing sl) in
        let stale := match s_stamp sl with
                     | Some l => k_rq_is_stale (l_queue st0 (s_ing sl)) l
                     | None => false
                     end in
        if negb (s_reusable sl && stale) then (st0, LRefused R_NOTHING) else
        match next_generation (s_gen sl) with
        | None => (st0, LOk None None)                         (* unlinked from the LRU, leaked *)
        | Some g' =>
            let sl1 := set_reusable (set_stamp (set_gen (set_fields sl (Some v)) g')
                                               (Some (l_cur st))) reusable in
            (put_slot (clear_memos st0 sl) j (set_memos sl1 no_memos), LOk (Some j) None)
        end)
  | OReadRef n =>
      match nth_error (l_refs st) n with
      | None => (st, LRefused R_NOTHING)
      | Some r =>
          match r_tgt r with
          | TCell c =>
              match l_cells st c with
              | None => (set_err st, LOk (Some c) None)
              | Some cl =>
                  match c_state cl with
                  | Freed => (set_err st, LOk (Some c) None)
                  | _ => (st, LOk (Some c) (c_val cl))
                  end
              end
          | TField j =>
              match l_slots st j with
              | None => (set_err st, LOk (Some j) None)
              | Some sl =>
                  match s_fields sl with
                  | None => (set_err st, LOk (Some j) None)
                  | Some v => (st, LOk (Some j) (Some v))
                  end
              end
          end
      end
  | _ => (st, LRefused R_NOTHING)
  end.

Definition step_excl (st0 : lstate) (o : lop) : lstate * lout :=
  let st := set_refs st0 [] in                   (* the borrow checker: no `&'db` survives *)
  match o with
  | ONewRevision evs => (set_cur (reset_all st evs) (l_cur st + 1), LOk (Some (l_cur st + 1)) None)
  | OEvictLru evs => (reset_all st evs, LOk None None)
  | OSetInput i v =>
      with_slot st i (fun j sl =>
        if negb (is_kind (s_kind sl) KInput) then (st, LRefused R_KIND) else
        (put_slot st j (set_fields sl (Some v)), LOk (Some j) None))
  | ODropDb =>
      (* ingredients_vec (every deleted_entries) first, then runtime.table: every page, every
         initialised slot *)
      let st1 := set_deleted (free_cells (l_deleted st) st) [] in
      (set_dropped (fold_left drop_slot (l_slotids st1) st1) true, LOk None None)
  | _ => (st0, LRefused R_NOTHING)
  end.

Definition is_excl (o : lop) : bool :=
  match o with
  | ONewRevision _ | OEvictLru _ | OSetInput _ _ | ODropDb => true
  | _ => false
  end.

Definition lstep (st : lstate) (o : lop) : lstate * lout :=
  if l_dropped st then (st, LRefused R_DROPPED)
  else if is_excl o then step_excl st o else step_shared st o.

Definition lrun (st : lstate) (ops : list lop) : lstate :=
  fold_left (fun s o => fst (lstep s o)) ops st.

Fixpoint lrun_outs (st : lstate) (ops : list lop) : list lout :=
  match ops with
  | [] => []
  | o :: t => let '(st', r) := lstep st o in r :: lrun_outs st' t
  end.

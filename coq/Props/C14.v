(* Props/C14.v — Cycles through a function without recovery panic instead of hanging
   (single-thread part; the cross-thread part is served by the Proto layer).
   Statements only; proofs in Cycle/ModelProofs.v. *)
From Salsa Require Import Base.
From Salsa.Cycle Require Import StampK Model ModelProofs.
From Salsa.Cycle Require Examples.

(* While a key of a function WITHOUT cycle recovery is held by the thread (it was claimed for
   verification or execution and not released), requesting it again — when the memo table cannot
   answer at once — unwinds with the cycle error: never a value, never out-of-fuel, and nothing
   in the state changes except the `anyone_waiting` flag of that lock. *)
Theorem C14_panics : forall (prog : qkey -> body) (strat : N -> strategy) (cinit : qkey -> val)
    (n : nat) (L : clower) (q : qkey) (s : cdb),
  strat (fst q) = SPanic -> held s q ->
  cfetch_hot q s = (s, COk None) ->
  cfetch prog strat cinit n L q s = (mark_waiting s q, CPanic (PB PCycle)).
Proof. exact C14_panics_fetch. Qed.
Check C14_panics : forall (prog : qkey -> body) (strat : N -> strategy) (cinit : qkey -> val)
    (n : nat) (L : clower) (q : qkey) (s : cdb),
  strat (fst q) = SPanic -> held s q ->
  cfetch_hot q s = (s, COk None) ->
  cfetch prog strat cinit n L q s = (mark_waiting s q, CPanic (PB PCycle)).
Print Assumptions C14_panics.

(* the same when the key is reached through validation (maybe_changed_after) of a dependent *)
Theorem C14_panics_validation : forall (prog : qkey -> body) (strat : N -> strategy) (cinit : qkey -> val)
    (n : nat) (L : clower) (q : qkey) (since : rev) (s : cdb),
  strat (fst q) = SPanic -> held s q ->
  cmca_cold prog strat cinit n L q since s = (mark_waiting s q, CPanic (PB PCycle)).
Proof. exact reenter_mca_cold_panics. Qed.
Check C14_panics_validation : forall (prog : qkey -> body) (strat : N -> strategy) (cinit : qkey -> val)
    (n : nat) (L : clower) (q : qkey) (since : rev) (s : cdb),
  strat (fst q) = SPanic -> held s q ->
  cmca_cold prog strat cinit n L q since s = (mark_waiting s q, CPanic (PB PCycle)).
Print Assumptions C14_panics_validation.

(* a first request takes the lock (the entry half of "re-entered while still executing") *)
Theorem C14_claim_holds : forall (q : qkey) (s : cdb),
  c_sync s q = None ->
  exists s', try_claim q true s = (s', COk (Claimed RDefault)) /\ held s' q.
Proof. exact first_claim_holds. Qed.
Check C14_claim_holds : forall (q : qkey) (s : cdb),
  c_sync s q = None ->
  exists s', try_claim q true s = (s', COk (Claimed RDefault)) /\ held s' q.
Print Assumptions C14_claim_holds.

(* NOT PROVED over the model for all programs (kept visible; carried by the correspondence
   engine's profile panic-cycles against the from-scratch specification evalo): every Get of a
   program whose from-scratch evaluation re-enters a no-recovery node panics with the cycle
   error, every other Get returns the from-scratch value, whatever happened before. *)
Definition C14_usable_afterwards_full_statement : Prop :=
  forall (prog : qkey -> body) strat cinit nodes fuel iv idur ops q,
    (forall fam, strat fam = SPanic) ->
    let r := cstep prog strat cinit nodes fuel
               (fst (crun_ops prog strat cinit nodes fuel (cinit_db iv idur) ops)) (COGet q) in
    match Salsa.Core.Spec.evalo prog fuel (Salsa.Cycle.Cert.csnap_of (fst r)) q with
    | Some v => snd r = COk v
    | None => snd r = CPanic (PB PCycle)
    end.

(* Non-vacuity: n0 = if in then n1 else 7, n1 = in' | n0: cycle panic from either entry, an
   unrelated function in between is fine, and after the input breaks the cycle both return 7. *)
Example C14_model_run :
  Examples.outs_of Examples.ex14_prog Examples.ex14_iv
    [COGet (4, 0); COGet (0, 0); COGet (4, 1); COSet (0, 0) 0 None; COGet (4, 1); COGet (4, 0)]
  = [CPanic (PB PCycle); COk 2; CPanic (PB PCycle); COk 0; COk 7; COk 7].
Proof. exact Examples.ex14_run. Qed.

(* ------------------------------------------------------------------------------------------
   The single-thread statement over the CORE model (Core/Model.v: no cycle recovery, re-entry
   of a claimed key is `fail PCycle`), for ALL programs of deterministic bodies — no rank, no
   acyclicity hypothesis; cyclicity may depend on the inputs.  What is needed instead: a finite
   list [ns] of keys closed under "may call" that contains the requested keys, and fuel at
   least its length.

   Scope (stage E1): Gets on a FRESH-REVISION state — a state whose memo table holds only
   values of the current revision (in particular the initial database, and every state reached
   from it by Gets, panicking or not).  Writes followed by Gets (validation of memos of older
   revisions on possibly-cyclic programs) are covered by C14_usable_afterwards at the end of this
   file (stage 8, Core/DPart*.v); see also Core/DCycleExamples.v (cy_run) for a run.
   Proofs in Core/DCycleSem.v, DCycleInv.v, DCycleBound.v, DCycleTop.v. *)
From Salsa.Core Require DCycleSem DCycleInv DCycleBound DCycleTop DCycleTerm DCycleTermTop DCycleExamples.

(* [evalo prog (length ns) sn q] decides cyclicity: a value found with any fuel is found with
   fuel [length ns] ... *)
Theorem C14_acyclic_depth : forall (prog : qkey -> Salsa.Core.Model.body) (sn : Salsa.Core.Spec.snapshot)
    (ns : list qkey),
  (forall q d, In q ns -> Salsa.Core.Spec.calls (prog q) d -> In d ns) ->
  forall q v, In q ns ->
  (exists n, Salsa.Core.Spec.evalo prog n sn q = Some v) ->
  Salsa.Core.Spec.evalo prog (length ns) sn q = Some v.
Proof. exact Salsa.Core.DCycleBound.evalo_bound. Qed.
Check C14_acyclic_depth : forall (prog : qkey -> Salsa.Core.Model.body) (sn : Salsa.Core.Spec.snapshot)
    (ns : list qkey),
  (forall q d, In q ns -> Salsa.Core.Spec.calls (prog q) d -> In d ns) ->
  forall q v, In q ns ->
  (exists n, Salsa.Core.Spec.evalo prog n sn q = Some v) ->
  Salsa.Core.Spec.evalo prog (length ns) sn q = Some v.
Print Assumptions C14_acyclic_depth.

(* ... and [None] with that fuel is [None] with every fuel: the from-scratch evaluation of q
   re-enters a node however long it is allowed to run. *)
Theorem C14_cyclic_iff : forall (prog : qkey -> Salsa.Core.Model.body) (sn : Salsa.Core.Spec.snapshot)
    (ns : list qkey),
  (forall q d, In q ns -> Salsa.Core.Spec.calls (prog q) d -> In d ns) ->
  forall q, In q ns ->
  (Salsa.Core.Spec.evalo prog (length ns) sn q = None <->
   forall n, Salsa.Core.Spec.evalo prog n sn q = None).
Proof. exact Salsa.Core.DCycleBound.evalo_cyclic_iff. Qed.
Check C14_cyclic_iff : forall (prog : qkey -> Salsa.Core.Model.body) (sn : Salsa.Core.Spec.snapshot)
    (ns : list qkey),
  (forall q d, In q ns -> Salsa.Core.Spec.calls (prog q) d -> In d ns) ->
  forall q, In q ns ->
  (Salsa.Core.Spec.evalo prog (length ns) sn q = None <->
   forall n, Salsa.Core.Spec.evalo prog n sn q = None).
Print Assumptions C14_cyclic_iff.

(* Any sequence of Gets from a fresh-revision state [s] of snapshot [sn]
   ([fresh_state prog sn s]: the environment of s is sn, no fault is armed, no claim is held, and
   every memo is verified in the current revision and holds a from-scratch value of sn):
   each Get of q answers `Ok v` with v the from-scratch value when the from-scratch evaluation
   of q is acyclic, and `Panic PCycle` — never a value, never out of fuel, never another panic —
   when it re-enters a node; and the state after the whole sequence (so after every prefix, and
   after every cycle panic) is again a fresh-revision state of the same snapshot: the database
   remains usable. *)
Theorem C14_fresh_state_gets : forall (prog : qkey -> Salsa.Core.Model.body) (noeq : qkey -> bool)
    (fams : list N) (sn : Salsa.Core.Spec.snapshot) (ns : list qkey),
  (forall q d, In q ns -> Salsa.Core.Spec.calls (prog q) d -> In d ns) ->
  forall fuel : nat, (length ns <= fuel)%nat ->
  forall (qs : list qkey) (s : Salsa.Core.Model.db), incl qs ns ->
  Salsa.Core.DCycleTop.fresh_state prog sn s ->
  let r := Salsa.Core.Model.run_ops prog noeq fams fuel s (map Salsa.Core.Model.OGet qs) in
  Salsa.Core.DCycleTop.fresh_state prog sn (fst r) /\
  Forall2 (fun q o => match Salsa.Core.Spec.evalo prog (length ns) sn q with
                      | Some v => o = Ok v
                      | None => o = Panic PCycle
                      end) qs (snd r).
Proof. exact Salsa.Core.DCycleTop.gets_fresh. Qed.
Check C14_fresh_state_gets : forall (prog : qkey -> Salsa.Core.Model.body) (noeq : qkey -> bool)
    (fams : list N) (sn : Salsa.Core.Spec.snapshot) (ns : list qkey),
  (forall q d, In q ns -> Salsa.Core.Spec.calls (prog q) d -> In d ns) ->
  forall fuel : nat, (length ns <= fuel)%nat ->
  forall (qs : list qkey) (s : Salsa.Core.Model.db), incl qs ns ->
  Salsa.Core.DCycleTop.fresh_state prog sn s ->
  let r := Salsa.Core.Model.run_ops prog noeq fams fuel s (map Salsa.Core.Model.OGet qs) in
  Salsa.Core.DCycleTop.fresh_state prog sn (fst r) /\
  Forall2 (fun q o => match Salsa.Core.Spec.evalo prog (length ns) sn q with
                      | Some v => o = Ok v
                      | None => o = Panic PCycle
                      end) qs (snd r).
Print Assumptions C14_fresh_state_gets.

(* the initial database (any input values, any durabilities, any LRU configuration) is one *)
Theorem C14_init_fresh : forall (prog : qkey -> Salsa.Core.Model.body) iv idur lru0,
  Salsa.Core.DCycleTop.fresh_state prog (Salsa.Core.Spec.snap_of (Salsa.Core.Model.init iv idur lru0))
    (Salsa.Core.Model.init iv idur lru0).
Proof. exact Salsa.Core.DCycleTop.init_fresh. Qed.
Check C14_init_fresh : forall (prog : qkey -> Salsa.Core.Model.body) iv idur lru0,
  Salsa.Core.DCycleTop.fresh_state prog (Salsa.Core.Spec.snap_of (Salsa.Core.Model.init iv idur lru0))
    (Salsa.Core.Model.init iv idur lru0).
Print Assumptions C14_init_fresh.

(* the two together, with nothing but model and specification in the statement *)
Theorem C14_first_revision : forall (prog : qkey -> Salsa.Core.Model.body) (noeq : qkey -> bool)
    (fams : list N) (ns : list qkey) iv idur lru0,
  (forall q d, In q ns -> Salsa.Core.Spec.calls (prog q) d -> In d ns) ->
  forall fuel : nat, (length ns <= fuel)%nat ->
  forall qs : list qkey, incl qs ns ->
  Forall2 (fun q o => match Salsa.Core.Spec.evalo prog (length ns)
                              (Salsa.Core.Spec.snap_of (Salsa.Core.Model.init iv idur lru0)) q with
                      | Some v => o = Ok v
                      | None => o = Panic PCycle
                      end) qs
    (snd (Salsa.Core.Model.run_ops prog noeq fams fuel (Salsa.Core.Model.init iv idur lru0)
            (map Salsa.Core.Model.OGet qs))).
Proof.
  intros prog noeq fams ns iv idur lru0 Hc fuel Hf qs Hq.
  exact (proj2 (Salsa.Core.DCycleTop.gets_fresh prog noeq fams _ ns Hc fuel Hf qs _ Hq
                  (Salsa.Core.DCycleTop.init_fresh prog iv idur lru0))).
Qed.
Check C14_first_revision : forall (prog : qkey -> Salsa.Core.Model.body) (noeq : qkey -> bool)
    (fams : list N) (ns : list qkey) iv idur lru0,
  (forall q d, In q ns -> Salsa.Core.Spec.calls (prog q) d -> In d ns) ->
  forall fuel : nat, (length ns <= fuel)%nat ->
  forall qs : list qkey, incl qs ns ->
  Forall2 (fun q o => match Salsa.Core.Spec.evalo prog (length ns)
                              (Salsa.Core.Spec.snap_of (Salsa.Core.Model.init iv idur lru0)) q with
                      | Some v => o = Ok v
                      | None => o = Panic PCycle
                      end) qs
    (snd (Salsa.Core.Model.run_ops prog noeq fams fuel (Salsa.Core.Model.init iv idur lru0)
            (map Salsa.Core.Model.OGet qs))).
Print Assumptions C14_first_revision.

(* "Panic instead of hanging", over EVERY history: all programs (cyclic or not), all operations
   (writes of any durability, synthetic writes, cell changes, fault injection, LRU capacity,
   eviction, Gets of listed keys), from any idle state — the initial database is one — with fuel
   at least the number of listed keys: no operation ever runs out of fuel (every Get ends with a
   value or a panic), and the state in between holds no claim.  (Nothing about values here.) *)
Theorem C14_never_hangs : forall (prog : qkey -> Salsa.Core.Model.body) (noeq : qkey -> bool)
    (fams : list N) (ns : list qkey),
  (forall q d, In q ns -> Salsa.Core.Spec.calls (prog q) d -> In d ns) ->
  forall fuel : nat, (length ns <= fuel)%nat ->
  forall (ops : list Salsa.Core.Model.op) (s : Salsa.Core.Model.db),
  Forall (fun o => match o with Salsa.Core.Model.OGet q => In q ns | _ => True end) ops ->
  Salsa.Core.DCycleTermTop.idle ns s ->
  let r := Salsa.Core.Model.run_ops prog noeq fams fuel s ops in
  Salsa.Core.DCycleTermTop.idle ns (fst r) /\ Forall (fun o => o <> Fuel) (snd r).
Proof. exact Salsa.Core.DCycleTermTop.never_fuel. Qed.
Check C14_never_hangs : forall (prog : qkey -> Salsa.Core.Model.body) (noeq : qkey -> bool)
    (fams : list N) (ns : list qkey),
  (forall q d, In q ns -> Salsa.Core.Spec.calls (prog q) d -> In d ns) ->
  forall fuel : nat, (length ns <= fuel)%nat ->
  forall (ops : list Salsa.Core.Model.op) (s : Salsa.Core.Model.db),
  Forall (fun o => match o with Salsa.Core.Model.OGet q => In q ns | _ => True end) ops ->
  Salsa.Core.DCycleTermTop.idle ns s ->
  let r := Salsa.Core.Model.run_ops prog noeq fams fuel s ops in
  Salsa.Core.DCycleTermTop.idle ns (fst r) /\ Forall (fun o => o <> Fuel) (snd r).
Print Assumptions C14_never_hangs.

Theorem C14_init_idle : forall (ns : list qkey) iv idur lru0,
  Salsa.Core.DCycleTermTop.idle ns (Salsa.Core.Model.init iv idur lru0).
Proof. exact Salsa.Core.DCycleTermTop.init_idle. Qed.
Check C14_init_idle : forall (ns : list qkey) iv idur lru0,
  Salsa.Core.DCycleTermTop.idle ns (Salsa.Core.Model.init iv idur lru0).
Print Assumptions C14_init_idle.

(* Non-vacuity over the Core model: a = if bit then b else 7, b = a + 1, c = x + 1.  Cycle panic
   from either entry while the bit is set, the unrelated c is served in between; a write clears
   the bit and both return their from-scratch values; setting it again makes them cyclic again. *)
Example C14_core_run :
  snd (Salsa.Core.Model.run_ops Salsa.Core.DCycleExamples.cy_prog Salsa.Core.DCycleExamples.cy_noeq [] 3
         Salsa.Core.DCycleExamples.cy_init Salsa.Core.DCycleExamples.cy_ops)
  = [Panic PCycle; Ok 5; Panic PCycle; Ok 0; Ok 8; Ok 7; Ok 0; Panic PCycle].
Proof. exact Salsa.Core.DCycleExamples.cy_run. Qed.


(* ------------------------------------------------------------------------------------------
   THE FULL STATEMENT over the Core model (stage 8; proofs in Core/DPartSem.v, DPartInvSem.v,
   DPartOps.v, DPartTop.v): ALL programs of deterministic bodies (cyclic or not, cyclicity may
   depend on the inputs; no rank hypothesis), EVERY well-formed history from the initial
   database — writes of any durability, synthetic writes, cell changes, fault switches, LRU
   capacity changes, eviction, Gets — and every Get q in it.  Needed instead of a rank: a finite
   list [ns] closed under "may call" that contains the requested keys, and fuel >= length ns.
   Well-formed (as in C01/C02, Core/DInvTop.v): installed durabilities are <= 3 ([dur_op]), and a
   change of an untracked cell is followed by a new revision before the next Get ([wf_ops]).

   With s the state reached before the Get and r its outcome:
     - r is an injected fault, and then some fault switch is on in s; or
     - r = Ok v where v is the from-scratch value, when the from-scratch evaluation of q at the
       current snapshot is acyclic ([evalo .. (length ns) ..] = Some v, see C14_cyclic_iff); or
     - r = Panic PCycle when it re-enters a node ([evalo] = None);
   never out of fuel, never the backdate-violation panic, never a value for a cyclic query, never
   a cycle panic for an acyclic one.  In particular: once inputs break the cycle, the formerly
   cyclic functions return correct results, whatever panicked before. *)
From Salsa.Core Require DPartSem DPartInvSem DPartOps DPartTop DPartExamples.

Theorem C14_usable_afterwards : forall (prog : qkey -> Salsa.Core.Model.body) (noeq : qkey -> bool)
    (fams : list N) (ns : list qkey),
  (forall q d, In q ns -> Salsa.Core.Spec.calls (prog q) d -> In d ns) ->
  forall fuel : nat, (length ns <= fuel)%nat ->
  forall iv idur lru0 (pre : list Salsa.Core.Model.op) (q : qkey),
  (forall i, idur i <= 3) ->
  Forall Salsa.Core.DInvTop.dur_op (pre ++ [Salsa.Core.Model.OGet q]) ->
  Forall (fun o => match o with Salsa.Core.Model.OGet q' => In q' ns | _ => True end)
         (pre ++ [Salsa.Core.Model.OGet q]) ->
  Salsa.Core.InvTop.wf_ops false (pre ++ [Salsa.Core.Model.OGet q]) ->
  let s := fst (Salsa.Core.Model.run_ops prog noeq fams fuel (Salsa.Core.Model.init iv idur lru0) pre) in
  let r := snd (Salsa.Core.Model.step prog noeq fams fuel s (Salsa.Core.Model.OGet q)) in
  (r = Panic PInjected /\
   ((exists c, Salsa.Core.Model.d_pcell s c <> 0) \/ Salsa.Core.Model.d_evfault s <> None)) \/
  match Salsa.Core.Spec.evalo prog (length ns) (Salsa.Core.Spec.snap_of s) q with
  | Some v => r = Ok v
  | None => r = Panic PCycle
  end.
Proof.
  intros prog noeq fams ns Hc fuel Hf iv idur lru0 pre q Hid Hdur Hlist Hwf.
  exact (Salsa.Core.DPartTop.usable_afterwards prog noeq fams ns Hc (length ns) (le_n _) fuel Hf
           iv idur lru0 pre q Hid Hdur Hlist Hwf).
Qed.
Check C14_usable_afterwards : forall (prog : qkey -> Salsa.Core.Model.body) (noeq : qkey -> bool)
    (fams : list N) (ns : list qkey),
  (forall q d, In q ns -> Salsa.Core.Spec.calls (prog q) d -> In d ns) ->
  forall fuel : nat, (length ns <= fuel)%nat ->
  forall iv idur lru0 (pre : list Salsa.Core.Model.op) (q : qkey),
  (forall i, idur i <= 3) ->
  Forall Salsa.Core.DInvTop.dur_op (pre ++ [Salsa.Core.Model.OGet q]) ->
  Forall (fun o => match o with Salsa.Core.Model.OGet q' => In q' ns | _ => True end)
         (pre ++ [Salsa.Core.Model.OGet q]) ->
  Salsa.Core.InvTop.wf_ops false (pre ++ [Salsa.Core.Model.OGet q]) ->
  let s := fst (Salsa.Core.Model.run_ops prog noeq fams fuel (Salsa.Core.Model.init iv idur lru0) pre) in
  let r := snd (Salsa.Core.Model.step prog noeq fams fuel s (Salsa.Core.Model.OGet q)) in
  (r = Panic PInjected /\
   ((exists c, Salsa.Core.Model.d_pcell s c <> 0) \/ Salsa.Core.Model.d_evfault s <> None)) \/
  match Salsa.Core.Spec.evalo prog (length ns) (Salsa.Core.Spec.snap_of s) q with
  | Some v => r = Ok v
  | None => r = Panic PCycle
  end.
Print Assumptions C14_usable_afterwards.

(* the same for a whole history at once, from any state satisfying the invariant
   ([state_ok]: some ghost history makes DInv and PM hold, no claim is held) *)
Theorem C14_usable_afterwards_from : forall (prog : qkey -> Salsa.Core.Model.body) (noeq : qkey -> bool)
    (fams : list N) (ns : list qkey),
  (forall q d, In q ns -> Salsa.Core.Spec.calls (prog q) d -> In d ns) ->
  forall fuel : nat, (length ns <= fuel)%nat ->
  forall (ops : list Salsa.Core.Model.op) (dirty : bool) (s : Salsa.Core.Model.db),
  Forall Salsa.Core.DInvTop.dur_op ops -> Forall (Salsa.Core.DPartTop.op_listed ns) ops ->
  Salsa.Core.InvTop.wf_ops dirty ops ->
  Salsa.Core.DPartTop.state_ok prog ns (length ns) dirty s ->
  Salsa.Core.DPartTop.outs_part prog noeq fams (length ns) fuel s ops.
Proof.
  intros prog noeq fams ns Hc fuel Hf.
  exact (Salsa.Core.DPartTop.from_scratch_part prog noeq fams ns Hc (length ns) (le_n _) fuel Hf).
Qed.
Check C14_usable_afterwards_from : forall (prog : qkey -> Salsa.Core.Model.body) (noeq : qkey -> bool)
    (fams : list N) (ns : list qkey),
  (forall q d, In q ns -> Salsa.Core.Spec.calls (prog q) d -> In d ns) ->
  forall fuel : nat, (length ns <= fuel)%nat ->
  forall (ops : list Salsa.Core.Model.op) (dirty : bool) (s : Salsa.Core.Model.db),
  Forall Salsa.Core.DInvTop.dur_op ops -> Forall (Salsa.Core.DPartTop.op_listed ns) ops ->
  Salsa.Core.InvTop.wf_ops dirty ops ->
  Salsa.Core.DPartTop.state_ok prog ns (length ns) dirty s ->
  Salsa.Core.DPartTop.outs_part prog noeq fams (length ns) fuel s ops.
Print Assumptions C14_usable_afterwards_from.

(* Sanity: for acyclic programs (a rank exists) the theorem of Core/DInvTop.v
   ([from_scratch_dur_strong_init], C01/C02) comes out as a corollary, for the listed keys. *)
Theorem C14_acyclic_corollary : forall (prog : qkey -> Salsa.Core.Model.body) (noeq : qkey -> bool)
    (fams : list N) (ns : list qkey),
  (forall q d, In q ns -> Salsa.Core.Spec.calls (prog q) d -> In d ns) ->
  forall NF : nat, (length ns <= NF)%nat ->
  forall rank : qkey -> nat, Salsa.Core.Spec.calls_below prog rank -> (forall q, (rank q < NF)%nat) ->
  forall fuel : nat, (length ns <= fuel)%nat ->
  forall iv idur lru0 ops, (forall i, idur i <= 3) ->
  Forall Salsa.Core.DInvTop.dur_op ops -> Forall (Salsa.Core.DPartTop.op_listed ns) ops ->
  Salsa.Core.InvTop.wf_ops false ops ->
  Salsa.Core.DInvTop.outs_ok_strict prog noeq fams NF fuel (Salsa.Core.Model.init iv idur lru0) ops.
Proof. exact Salsa.Core.DPartTop.from_scratch_dur_strong_init_again. Qed.
Check C14_acyclic_corollary : forall (prog : qkey -> Salsa.Core.Model.body) (noeq : qkey -> bool)
    (fams : list N) (ns : list qkey),
  (forall q d, In q ns -> Salsa.Core.Spec.calls (prog q) d -> In d ns) ->
  forall NF : nat, (length ns <= NF)%nat ->
  forall rank : qkey -> nat, Salsa.Core.Spec.calls_below prog rank -> (forall q, (rank q < NF)%nat) ->
  forall fuel : nat, (length ns <= fuel)%nat ->
  forall iv idur lru0 ops, (forall i, idur i <= 3) ->
  Forall Salsa.Core.DInvTop.dur_op ops -> Forall (Salsa.Core.DPartTop.op_listed ns) ops ->
  Salsa.Core.InvTop.wf_ops false ops ->
  Salsa.Core.DInvTop.outs_ok_strict prog noeq fams NF fuel (Salsa.Core.Model.init iv idur lru0) ops.
Print Assumptions C14_acyclic_corollary.

(* Non-vacuity: the history of C14_core_run (cycle panics, a write that clears the bit, Gets of
   the formerly cyclic nodes, a write that sets it again) satisfies the hypotheses, for every
   fuel >= 3 *)
Example C14_core_history_by_theorem : forall fuel, (3 <= fuel)%nat ->
  Salsa.Core.DPartTop.outs_part Salsa.Core.DCycleExamples.cy_prog Salsa.Core.DCycleExamples.cy_noeq [] 3 fuel
    Salsa.Core.DCycleExamples.cy_init Salsa.Core.DCycleExamples.cy_ops.
Proof. exact Salsa.Core.DPartExamples.cy_part. Qed.

(* Props/C14.v — Cycles through a function without recovery panic instead of hanging
   (single-thread part; the cross-thread part is served by the Proto layer).
   Statements only; proofs in Cycle/ModelProofs.v. *)
From Salsa Require Import Base.
From Salsa.Cycle Require Import StampK Model ModelProofs.
From Salsa.Cycle Require Examples.

(* While a key of a function WITHOUT cycle recovery is held by the thread (it was claimed for
   verification or execution and not released), requesting it again — when the memo table cannot
   answer at once — unwinds with the cycle error: never a value, never out-of-fuel, and nothing
   in the state changes except the `anyone_waiting` flag of that lock. *)
Theorem C14_panics : forall (prog : qkey -> body) (strat : N -> strategy) (cinit : qkey -> val)
    (n : nat) (L : clower) (q : qkey) (s : cdb),
  strat (fst q) = SPanic -> held s q ->
  cfetch_hot q s = (s, COk None) ->
  cfetch prog strat cinit n L q s = (mark_waiting s q, CPanic (PB PCycle)).
Proof. exact C14_panics_fetch. Qed.
Check C14_panics : forall (prog : qkey -> body) (strat : N -> strategy) (cinit : qkey -> val)
    (n : nat) (L : clower) (q : qkey) (s : cdb),
  strat (fst q) = SPanic -> held s q ->
  cfetch_hot q s = (s, COk None) ->
  cfetch prog strat cinit n L q s = (mark_waiting s q, CPanic (PB PCycle)).
Print Assumptions C14_panics.

(* the same when the key is reached through validation (maybe_changed_after) of a dependent *)
Theorem C14_panics_validation : forall (prog : qkey -> body) (strat : N -> strategy) (cinit : qkey -> val)
    (n : nat) (L : clower) (q : qkey) (since : rev) (s : cdb),
  strat (fst q) = SPanic -> held s q ->
  cmca_cold prog strat cinit n L q since s = (mark_waiting s q, CPanic (PB PCycle)).
Proof. exact reenter_mca_cold_panics. Qed.
Check C14_panics_validation : forall (prog : qkey -> body) (strat : N -> strategy) (cinit : qkey -> val)
    (n : nat) (L : clower) (q : qkey) (since : rev) (s : cdb),
  strat (fst q) = SPanic -> held s q ->
  cmca_cold prog strat cinit n L q since s = (mark_waiting s q, CPanic (PB PCycle)).
Print Assumptions C14_panics_validation.

(* a first request takes the lock (the entry half of "re-entered while still executing") *)
Theorem C14_claim_holds : forall (q : qkey) (s : cdb),
  c_sync s q = None ->
  exists s', try_claim q true s = (s', COk (Claimed RDefault)) /\ held s' q.
Proof. exact first_claim_holds. Qed.
Check C14_claim_holds : forall (q : qkey) (s : cdb),
  c_sync s q = None ->
  exists s', try_claim q true s = (s', COk (Claimed RDefault)) /\ held s' q.
Print Assumptions C14_claim_holds.

(* NOT PROVED over the model for all programs (kept visible; carried by the correspondence
   engine's profile panic-cycles against the from-scratch specification evalo): every Get of a
   program whose from-scratch evaluation re-enters a no-recovery node panics with the cycle
   error, every other Get returns the from-scratch value, whatever happened before. *)
Definition C14_usable_afterwards_full_statement : Prop :=
  forall (prog : qkey -> body) strat cinit nodes fuel iv idur ops q,
    (forall fam, strat fam = SPanic) ->
    let r := cstep prog strat cinit nodes fuel
               (fst (crun_ops prog strat cinit nodes fuel (cinit_db iv idur) ops)) (COGet q) in
    match Salsa.Core.Spec.evalo prog fuel (Salsa.Cycle.Cert.csnap_of (fst r)) q with
    | Some v => snd r = COk v
    | None => snd r = CPanic (PB PCycle)
    end.

(* Non-vacuity: n0 = if in then n1 else 7, n1 = in' | n0: cycle panic from either entry, an
   unrelated function in between is fine, and after the input breaks the cycle both return 7. *)
Example C14_model_run :
  Examples.outs_of Examples.ex14_prog Examples.ex14_iv
    [COGet (4, 0); COGet (0, 0); COGet (4, 1); COSet (0, 0) 0 None; COGet (4, 1); COGet (4, 0)]
  = [CPanic (PB PCycle); COk 2; CPanic (PB PCycle); COk 0; COk 7; COk 7].
Proof. exact Examples.ex14_run. Qed.

(* Props/C12.v — Fixpoint cycles converge to the least fixpoint regardless of entry order.
   Statements only; proofs in Cycle/SpecProofs.v.  Programs are families of arbitrary
   deterministic bodies over the bit-set lattice (N with lor/land, bytes in the harness);
   "monotone bodies" is the semantic predicate [monotone_prog]. *)
From Salsa Require Import Base.
From Salsa.Core Require Import Model Spec.
From Salsa.Core Require Import Dsl.
From Salsa.Cycle Require Import Spec SpecProofs DslSpec DslProofs.
From Salsa.Cycle Require Cert Examples.
From Salsa.Cycle Require FreshInv FreshThm FreshExamples.

(* The specification is well defined and is what the property names: [kleene] satisfies every
   equation, lies below every assignment that satisfies (even: is closed under) the equations,
   and is reached after at most height(8) x nodes synchronous rounds from bottom. *)
Theorem C12_kleene_lfp : forall (prog : qkey -> body) (sn : snapshot) (ns : list qkey),
  monotone_prog prog sn -> fits8 prog sn ->
  is_fixpoint prog sn ns (kleene prog sn ns) /\
  (forall sigma, is_prefixpoint prog sn ns sigma -> env_le (kleene prog sn ns) sigma) /\
  (exists k, (k <= 8 * length ns)%nat /\
     forall m, (k <= m)%nat -> forall q, tlookup (kiter prog sn ns m (tbl0 ns)) q = kleene prog sn ns q).
Proof. exact kleene_lfp. Qed.
Check C12_kleene_lfp : forall (prog : qkey -> body) (sn : snapshot) (ns : list qkey),
  monotone_prog prog sn -> fits8 prog sn ->
  is_fixpoint prog sn ns (kleene prog sn ns) /\
  (forall sigma, is_prefixpoint prog sn ns sigma -> env_le (kleene prog sn ns) sigma) /\
  (exists k, (k <= 8 * length ns)%nat /\
     forall m, (k <= m)%nat -> forall q, tlookup (kiter prog sn ns m (tbl0 ns)) q = kleene prog sn ns q).
Print Assumptions C12_kleene_lfp.

(* Entry order is irrelevant by construction: ANY procedure (any entry node, any incremental
   history, any evaluation order) that only ever holds values below the least fixpoint and stops
   at a state satisfying every equation has computed the least fixpoint. *)
Theorem C12_chaotic : forall (prog : qkey -> body) (sn : snapshot) (ns : list qkey),
  monotone_prog prog sn ->
  forall sigma, env_le sigma (kleene prog sn ns) -> is_fixpoint prog sn ns sigma ->
  forall q, sigma q = kleene prog sn ns q.
Proof. exact chaotic. Qed.
Check C12_chaotic : forall (prog : qkey -> body) (sn : snapshot) (ns : list qkey),
  monotone_prog prog sn ->
  forall sigma, env_le sigma (kleene prog sn ns) -> is_fixpoint prog sn ns sigma ->
  forall q, sigma q = kleene prog sn ns q.
Print Assumptions C12_chaotic.

(* The per-run certificate on a state of the executable Cycle model: if the settled memos
   (final, or finalisable by validate_provisional, verified in the current revision) re-evaluate
   to themselves ([is_fixpoint_state], decidable, evaluated on every generated run) and hold
   values below the least fixpoint, then every one of them IS the least fixpoint's value. *)
Theorem C12_certified : forall (prog : qkey -> body) (ns : list qkey) (s : Salsa.Cycle.Model.cdb),
  monotone_prog prog (Cert.csnap_of s) -> fits8 prog (Cert.csnap_of s) ->
  Cert.is_fixpoint_state prog ns s = true ->
  (forall q v, Cert.final_val s q = Some v -> le_bits v (kleene prog (Cert.csnap_of s) ns q)) ->
  forall q v, In q ns -> Cert.final_val s q = Some v -> v = kleene prog (Cert.csnap_of s) ns q.
Proof.
  intros prog ns s Hm Hf Hc Hb. exact (certified_fix prog (Cert.csnap_of s) ns Hm Hf (Cert.final_val s) Hc Hb).
Qed.
Check C12_certified : forall (prog : qkey -> body) (ns : list qkey) (s : Salsa.Cycle.Model.cdb),
  monotone_prog prog (Cert.csnap_of s) -> fits8 prog (Cert.csnap_of s) ->
  Cert.is_fixpoint_state prog ns s = true ->
  (forall q v, Cert.final_val s q = Some v -> le_bits v (kleene prog (Cert.csnap_of s) ns q)) ->
  forall q v, In q ns -> Cert.final_val s q = Some v -> v = kleene prog (Cert.csnap_of s) ns q.
Print Assumptions C12_certified.

(* The hypotheses are not vacuous and not special: EVERY program of the `cycles` profile — DSL
   expressions (Core/Dsl.v) built from byte literals, input reads, union, intersection, calls with
   input-computed keys and input-controlled branches; the decidable class [mono_table], evaluated
   by the driver on every generated case — compiles to monotone, byte-valued bodies. *)
Theorem C12_profile_programs_monotone : forall (nk : N) (tbl : list (qkey * expr)) (sn : snapshot),
  mono_table tbl = true -> (forall i, sn_in sn i < 256) ->
  monotone_prog (prog_of nk tbl) sn /\ fits8 (prog_of nk tbl) sn.
Proof. intros nk tbl sn Ht Hin. split; [now apply dsl_monotone | now apply dsl_fits8]. Qed.
Check C12_profile_programs_monotone : forall (nk : N) (tbl : list (qkey * expr)) (sn : snapshot),
  mono_table tbl = true -> (forall i, sn_in sn i < 256) ->
  monotone_prog (prog_of nk tbl) sn /\ fits8 (prog_of nk tbl) sn.
Print Assumptions C12_profile_programs_monotone.

(* NOT PROVED (kept visible): the two statements that would close C12 over the model for all
   programs and histories.  They are checked per generated run by the correspondence engine
   (implementation = model on values, events, state; values = kleene), not proved. *)
Definition C12_below_full_statement : Prop :=
  forall (prog : qkey -> body) strat cinit nodes fuel iv idur ops ns q v,
    (forall sn, monotone_prog prog sn) -> (forall sn, closed_on prog sn ns) ->
    (forall q, cinit q = 0) ->
    (forall fam, strat fam = Salsa.Cycle.Model.SFix \/ strat fam = Salsa.Cycle.Model.SFixJoin) ->
    let s := fst (Salsa.Cycle.Model.crun_ops prog strat cinit nodes fuel (Salsa.Cycle.Model.cinit_db iv idur) ops) in
    Cert.final_val s q = Some v -> le_bits v (kleene prog (Cert.csnap_of s) ns q).
Definition C12_finalises_certified_full_statement : Prop :=
  forall (prog : qkey -> body) strat cinit nodes fuel iv idur ops ns,
    (forall sn, monotone_prog prog sn) -> (forall sn, closed_on prog sn ns) ->
    (forall q, cinit q = 0) ->
    (forall fam, strat fam = Salsa.Cycle.Model.SFix \/ strat fam = Salsa.Cycle.Model.SFixJoin) ->
    let s := fst (Salsa.Cycle.Model.crun_ops prog strat cinit nodes fuel (Salsa.Cycle.Model.cinit_db iv idur) ops) in
    forall q v, In q ns -> Cert.final_val s q = Some v -> v = kleene prog (Cert.csnap_of s) ns q.

(* Non-vacuity: a two-node cycle  x0 = in | x1, x1 = 2 | (x0 & 6)  satisfies the hypotheses for
   every snapshot; the executable model, entered at either node, before and after a write,
   returns the least fixpoint and its final state passes the certificate. *)
Example C12_hypotheses_inhabited : forall sn, (forall i, sn_in sn i < 256) ->
  monotone_prog Examples.ex12_prog sn /\ fits8 Examples.ex12_prog sn.
Proof. intros sn H. split; [apply Examples.ex12_monotone | now apply Examples.ex12_fits]. Qed.
Example C12_model_run :
  Examples.outs_of Examples.ex12_prog Examples.ex12_iv
    [Salsa.Cycle.Model.COGet (1, 0); Salsa.Cycle.Model.COGet (1, 1);
     Salsa.Cycle.Model.COSet (0, 0) 8 None; Salsa.Cycle.Model.COGet (1, 1); Salsa.Cycle.Model.COGet (1, 0)]
  = [Salsa.Cycle.Model.COk 7; Salsa.Cycle.Model.COk 6; Salsa.Cycle.Model.COk 0;
     Salsa.Cycle.Model.COk 2; Salsa.Cycle.Model.COk 10].
Proof. exact Examples.ex12_run. Qed.


(* ---------------------------------------------------------------- the fresh revision (stage F1)
   PROVED over the executable Cycle model, for all programs of the following class and all
   snapshots: starting from the initial database (no memos), ANY sequence of Gets (any entry order,
   any subset, repeats) returns the least fixpoint for every Get — hence never a panic and never
   out-of-fuel — and the final state's settled memos pass the certificate [is_fixpoint_state].
   Fuel: any [fuel >= length ns] (the recursion depth of fetch is bounded by the number of nodes)
   and [nodes >= 1]; the fixpoint loop never needs more than 13 iterations, independently of the
   number of nodes (stamps stay below 16, far from MAX_ITERATIONS = 200).
   Class (restriction of this stage, [FreshInv.ring_ok_of] + [input_determined]): the call graph of
   the snapshot is input-determined and layered by [lvl]; the only same-level call of a node goes
   to [nxt] of it, [nxt] is injective and its edges are real calls; nodes with a same-level call
   use Fixpoint (default or joining cycle_fn) with cycle_initial = 0.  So every strongly connected
   component is a simple ring, entered at any member, no nested heads; rings at different levels
   may call each other downwards; nodes off the rings may use any strategy (plain / no-cycle
   families only occur acyclically).  Nested cycle heads are NOT covered by this stage. *)
Theorem C12_fresh :
  forall (prog : qkey -> body) (strat : N -> Salsa.Cycle.Model.strategy) (cinit : qkey -> val)
         (iv : ikey -> val) (idur : ikey -> dur) (ns : list qkey)
         (lvl : qkey -> nat) (nxt : qkey -> option qkey) (nodes fuel : nat) (qs : list qkey),
  let sn := Cert.csnap_of (Salsa.Cycle.Model.cinit_db iv idur) in
  monotone_prog prog sn -> fits8 prog sn -> input_determined prog sn ->
  FreshInv.ring_ok_of prog strat sn ns lvl nxt -> (forall q, cinit q = 0) ->
  (1 <= nodes)%nat -> (length ns <= fuel)%nat -> (forall q, In q qs -> In q ns) ->
  exists s',
    Salsa.Cycle.Model.crun_ops prog strat cinit nodes fuel (Salsa.Cycle.Model.cinit_db iv idur)
      (map Salsa.Cycle.Model.COGet qs)
      = (s', map (fun q => Salsa.Cycle.Model.COk (kleene prog sn ns q)) qs) /\
    Cert.is_fixpoint_state prog ns s' = true.
Proof. exact FreshThm.fresh_ring. Qed.
Check C12_fresh :
  forall (prog : qkey -> body) (strat : N -> Salsa.Cycle.Model.strategy) (cinit : qkey -> val)
         (iv : ikey -> val) (idur : ikey -> dur) (ns : list qkey)
         (lvl : qkey -> nat) (nxt : qkey -> option qkey) (nodes fuel : nat) (qs : list qkey),
  let sn := Cert.csnap_of (Salsa.Cycle.Model.cinit_db iv idur) in
  monotone_prog prog sn -> fits8 prog sn -> input_determined prog sn ->
  FreshInv.ring_ok_of prog strat sn ns lvl nxt -> (forall q, cinit q = 0) ->
  (1 <= nodes)%nat -> (length ns <= fuel)%nat -> (forall q, In q qs -> In q ns) ->
  exists s',
    Salsa.Cycle.Model.crun_ops prog strat cinit nodes fuel (Salsa.Cycle.Model.cinit_db iv idur)
      (map Salsa.Cycle.Model.COGet qs)
      = (s', map (fun q => Salsa.Cycle.Model.COk (kleene prog sn ns q)) qs) /\
    Cert.is_fixpoint_state prog ns s' = true.
Print Assumptions C12_fresh.

(* NOT PROVED (kept visible): the same statement without the ring restriction — arbitrary
   (nested) cycles among Fixpoint families.  Checked by the fuzzer (about 1.8M reads of random
   monotone programs with nested cycles, 0 mismatches) and by [FreshExamples.exn_nested]. *)
Definition C12_fresh_full_statement : Prop :=
  forall (prog : qkey -> body) (strat : N -> Salsa.Cycle.Model.strategy) (cinit : qkey -> val)
         (iv : ikey -> val) (idur : ikey -> dur) (ns : list qkey) (nodes fuel : nat) (qs : list qkey),
  let sn := Cert.csnap_of (Salsa.Cycle.Model.cinit_db iv idur) in
  monotone_prog prog sn -> fits8 prog sn -> closed_on prog sn ns ->
  (forall q, cinit q = 0) ->
  (forall fam, strat fam = Salsa.Cycle.Model.SFix \/ strat fam = Salsa.Cycle.Model.SFixJoin) ->
  (length ns <= nodes)%nat -> (length ns <= fuel)%nat -> (8 * length ns < 200)%nat ->
  (forall q, In q qs -> In q ns) ->
  exists s',
    Salsa.Cycle.Model.crun_ops prog strat cinit nodes fuel (Salsa.Cycle.Model.cinit_db iv idur)
      (map Salsa.Cycle.Model.COGet qs)
      = (s', map (fun q => Salsa.Cycle.Model.COk (kleene prog sn ns q)) qs) /\
    Cert.is_fixpoint_state prog ns s' = true.

(* Non-vacuity of C12_fresh: a 3-node Fixpoint ring over a 2-node joining ring over a plain leaf
   satisfies every hypothesis, for every list of Gets; the 3-node ring entered at each member. *)
Example C12_fresh_inhabited : forall (qs : list qkey), (forall q, In q qs -> In q FreshExamples.exf_ns) ->
  let sn := Cert.csnap_of (Salsa.Cycle.Model.cinit_db FreshExamples.exf_iv (fun _ => 0)) in
  exists s',
    Salsa.Cycle.Model.crun_ops FreshExamples.exf_prog Examples.ex_strat FreshExamples.cinit0 6 6
      (Salsa.Cycle.Model.cinit_db FreshExamples.exf_iv (fun _ => 0)) (map Salsa.Cycle.Model.COGet qs)
      = (s', map (fun q => Salsa.Cycle.Model.COk (kleene FreshExamples.exf_prog sn FreshExamples.exf_ns q)) qs) /\
    Cert.is_fixpoint_state FreshExamples.exf_prog FreshExamples.exf_ns s' = true.
Proof. exact FreshExamples.exf_fresh. Qed.
Example C12_fresh_enter_each :
  FreshExamples.exf_outs [Salsa.Cycle.Model.COGet (1, 0); Salsa.Cycle.Model.COGet (1, 1); Salsa.Cycle.Model.COGet (1, 2)]
    = [Salsa.Cycle.Model.COk 93; Salsa.Cycle.Model.COk 13; Salsa.Cycle.Model.COk 12] /\
  FreshExamples.exf_outs [Salsa.Cycle.Model.COGet (1, 1); Salsa.Cycle.Model.COGet (1, 2); Salsa.Cycle.Model.COGet (1, 0)]
    = [Salsa.Cycle.Model.COk 13; Salsa.Cycle.Model.COk 12; Salsa.Cycle.Model.COk 93] /\
  FreshExamples.exf_outs [Salsa.Cycle.Model.COGet (1, 2); Salsa.Cycle.Model.COGet (1, 0); Salsa.Cycle.Model.COGet (1, 1)]
    = [Salsa.Cycle.Model.COk 12; Salsa.Cycle.Model.COk 93; Salsa.Cycle.Model.COk 13].
Proof. destruct FreshExamples.exf_enter_each as (H1 & H2 & H3 & _). now repeat split. Qed.

(* ------------------------------------------------------------------------------------------
   The claim (lock) discipline of the Cycle model — an invariant of EVERY run: all programs, all
   strategies (Panic / Fixpoint / joining / FallbackImmediate, mixed), nested and overlapping
   cycles, all histories, values and panics alike (stage 9; proofs in Cycle/LockInv.v, LockOps.v,
   LockFetch.v, LockTop.v).  This is the part of the nested-heads analysis that is closed; the
   value theorems for nested heads (C12_fresh_full_statement, C13_fresh_full_statement) are NOT
   proved: they additionally need the owner-chain invariant of the transferred-lock table and the
   completeness of cycle-head collection (a Tarjan-style argument), see the gap comment below.

   [LK hl s]: the keys with a sync-table entry that is not flagged transferred are exactly the
   keys of the (duplicate-free) list [hl] of open claim guards; the query stack only holds such
   keys; an entry claimed a second time (claimed_twice) is not flagged transferred. *)
From Salsa.Cycle Require LockInv LockOps LockFetch LockTop LockExamples.

(* A fetch leaves exactly the claims and the query stack it found — whether it returns a value or
   unwinds with any panic (every guard is released, every frame popped). *)
Theorem C12_claims_balanced : forall (prog : qkey -> body) (strat : N -> Salsa.Cycle.Model.strategy)
    (cinit : qkey -> val) (nodes n : nat) (q : qkey) (hl : list qkey) (s : Salsa.Cycle.Model.cdb),
  LockInv.LK hl s ->
  match Salsa.Cycle.Model.cfetch prog strat cinit nodes (Salsa.Cycle.Model.clevel prog strat cinit nodes n) q s with
  | (s', Salsa.Cycle.Model.CFuel) => True
  | (s', _) => LockInv.LK hl s' /\ Salsa.Cycle.Model.c_qstack s' = Salsa.Cycle.Model.c_qstack s
  end.
Proof.
  intros prog strat cinit nodes n q hl s HL.
  destruct (LockFetch.clevel_lk prog strat cinit nodes n) as [HF HM].
  pose proof (LockFetch.cfetch_lk prog strat cinit _ HF HM nodes q hl _ s (conj HL eq_refl)) as H.
  unfold LockInv.awp in H.
  destruct (Salsa.Cycle.Model.cfetch prog strat cinit nodes (Salsa.Cycle.Model.clevel prog strat cinit nodes n) q s)
    as [s' [r | p |]]; [exact H | exact H | exact I].
Qed.
Check C12_claims_balanced : forall (prog : qkey -> body) (strat : N -> Salsa.Cycle.Model.strategy)
    (cinit : qkey -> val) (nodes n : nat) (q : qkey) (hl : list qkey) (s : Salsa.Cycle.Model.cdb),
  LockInv.LK hl s ->
  match Salsa.Cycle.Model.cfetch prog strat cinit nodes (Salsa.Cycle.Model.clevel prog strat cinit nodes n) q s with
  | (s', Salsa.Cycle.Model.CFuel) => True
  | (s', _) => LockInv.LK hl s' /\ Salsa.Cycle.Model.c_qstack s' = Salsa.Cycle.Model.c_qstack s
  end.
Print Assumptions C12_claims_balanced.

(* Between two operations of any history nothing is claimed and the query stack is empty: every
   remaining sync-table entry is flagged transferred and not claimed twice.  (Operations that run
   out of the model's fuel are excluded: no guard runs then.) *)
Theorem C12_lock_invariants_reachable : forall (prog : qkey -> body) (strat : N -> Salsa.Cycle.Model.strategy)
    (cinit : qkey -> val) (nodes fuel : nat) (iv : ikey -> val) (idur : ikey -> dur)
    (ops : list Salsa.Cycle.Model.cop),
  let r := Salsa.Cycle.Model.crun_ops prog strat cinit nodes fuel (Salsa.Cycle.Model.cinit_db iv idur) ops in
  Forall (fun o => o <> Salsa.Cycle.Model.CFuel) (snd r) ->
  Salsa.Cycle.Model.c_qstack (fst r) = [] /\
  forall q y, Salsa.Cycle.Model.c_sync (fst r) q = Some y ->
    Salsa.Cycle.Model.sy_trans y = true /\ Salsa.Cycle.Model.sy_twice y = false.
Proof.
  intros prog strat cinit nodes fuel iv idur ops r Hall.
  apply (proj1 (LockTop.idle_plain (fst r))).
  apply (LockTop.idle_reachable prog strat cinit nodes fuel ops _ (LockTop.idle_init iv idur) Hall).
Qed.
Check C12_lock_invariants_reachable : forall (prog : qkey -> body) (strat : N -> Salsa.Cycle.Model.strategy)
    (cinit : qkey -> val) (nodes fuel : nat) (iv : ikey -> val) (idur : ikey -> dur)
    (ops : list Salsa.Cycle.Model.cop),
  let r := Salsa.Cycle.Model.crun_ops prog strat cinit nodes fuel (Salsa.Cycle.Model.cinit_db iv idur) ops in
  Forall (fun o => o <> Salsa.Cycle.Model.CFuel) (snd r) ->
  Salsa.Cycle.Model.c_qstack (fst r) = [] /\
  forall q y, Salsa.Cycle.Model.c_sync (fst r) q = Some y ->
    Salsa.Cycle.Model.sy_trans y = true /\ Salsa.Cycle.Model.sy_twice y = false.
Print Assumptions C12_lock_invariants_reachable.

(* Under the invariant the sync table's own assertions cannot fire: claiming never panics (in
   particular debug_assert!(!claimed_twice)), ... *)
Theorem C12_try_claim_never_asserts : forall (q : qkey) (allow : bool) (hl : list qkey) (s : Salsa.Cycle.Model.cdb),
  LockInv.LK hl s -> forall p, snd (Salsa.Cycle.Model.try_claim q allow s) <> Salsa.Cycle.Model.CPanic p.
Proof. exact LockTop.try_claim_never_panics. Qed.
Check C12_try_claim_never_asserts : forall (q : qkey) (allow : bool) (hl : list qkey) (s : Salsa.Cycle.Model.cdb),
  LockInv.LK hl s -> forall p, snd (Salsa.Cycle.Model.try_claim q allow s) <> Salsa.Cycle.Model.CPanic p.
Print Assumptions C12_try_claim_never_asserts.

(* ... a re-entrant request is reported as a same-thread cycle exactly for the keys with an open
   claim guard, ... *)
Theorem C12_reentry_detected_exactly : forall (q : qkey) (allow : bool) (hl : list qkey) (s : Salsa.Cycle.Model.cdb),
  LockInv.LK hl s ->
  (snd (Salsa.Cycle.Model.try_claim q allow s) = Salsa.Cycle.Model.COk (Salsa.Cycle.Model.ClCycle false) <-> In q hl).
Proof. exact LockTop.try_claim_cycle_exact. Qed.
Check C12_reentry_detected_exactly : forall (q : qkey) (allow : bool) (hl : list qkey) (s : Salsa.Cycle.Model.cdb),
  LockInv.LK hl s ->
  (snd (Salsa.Cycle.Model.try_claim q allow s) = Salsa.Cycle.Model.COk (Salsa.Cycle.Model.ClCycle false) <-> In q hl).
Print Assumptions C12_reentry_detected_exactly.

(* ... and dropping the innermost guard in any release mode — default, self-only, or transfer to
   a key with an open guard (the outer cycle head always is one: LockFetch.outer_cycle_ok) — never
   panics ("new owner to be a locked query", "new owner should be blocked on `query`", missing
   entry). *)
Theorem C12_drop_guard_never_asserts : forall (q : qkey) (mode : Salsa.Cycle.Model.rmode) (hl : list qkey)
    (s : Salsa.Cycle.Model.cdb),
  LockInv.LK (q :: hl) s -> ~ In q (Salsa.Cycle.Model.c_qstack s) -> LockOps.mode_ok hl mode ->
  forall p, snd (Salsa.Cycle.Model.drop_guard q mode s) <> Salsa.Cycle.Model.CPanic p.
Proof. exact LockTop.drop_guard_never_panics. Qed.
Check C12_drop_guard_never_asserts : forall (q : qkey) (mode : Salsa.Cycle.Model.rmode) (hl : list qkey)
    (s : Salsa.Cycle.Model.cdb),
  LockInv.LK (q :: hl) s -> ~ In q (Salsa.Cycle.Model.c_qstack s) -> LockOps.mode_ok hl mode ->
  forall p, snd (Salsa.Cycle.Model.drop_guard q mode s) <> Salsa.Cycle.Model.CPanic p.
Print Assumptions C12_drop_guard_never_asserts.

(* GAP towards C12_fresh_full_statement / C13_fresh_full_statement (nested heads), precisely:
   (1) the owner-chain invariant of [c_trans] (every entry (h, o): h reaches o in the call graph,
       following owners ends at a key with an open guard; needs the exact semantics of
       trans_unblock / trans_rewrite) — gives soundness of reused provisional memos: every head
       they report still leads to the query stack, hence "a node that ends with cycle heads lies
       on a cycle";
   (2) completeness of collect_all_cycle_heads + outer_cycle (Tarjan's low-link argument): a node
       that reaches the query stack reports a head on it, so a head without outer cycle closes its
       whole strongly connected component — gives "a node on a cycle ends with cycle heads", the
       certificate, and with it the values (fallback: immediate; fix: below kleene + equations);
   (3) a termination measure over the metadata of all heads of the component.
   The clause list validated by instrumented fuzzing (about 30k fresh runs, 0 violations) is in the
   stage-6 report; Cycle/LockFetch.v is its first, closed layer.
   Non-vacuity: the nested examples are instances (Cycle/LockExamples.v). *)
Example C12_nested_runs_end_idle : forall ops,
  Forall (fun r => r <> Salsa.Cycle.Model.CFuel)
    (snd (Salsa.Cycle.Model.crun_ops FreshExamples.exn_prog Examples.ex_strat FreshExamples.cinit0 3 6
            (Salsa.Cycle.Model.cinit_db FreshExamples.exf_iv (fun _ => 0)) ops)) ->
  LockTop.idle (fst (Salsa.Cycle.Model.crun_ops FreshExamples.exn_prog Examples.ex_strat FreshExamples.cinit0 3 6
            (Salsa.Cycle.Model.cinit_db FreshExamples.exf_iv (fun _ => 0)) ops)).
Proof. exact LockExamples.exn_idle. Qed.


(* ------------------------------------------------------------------------------------------
   Cycle heads are SOUND — second closed layer of the nested-heads analysis (stage 9b; proofs in
   Cycle/HeadInv.v, HeadOps.v, HeadFetch.v, HeadTop.v), again for ALL programs, strategies, nested
   and overlapping cycles, all histories, values and panics alike; no c_trans reasoning needed.
   [reach prog p d]: p can (transitively, in at least one step) call d in the static call graph
   ([Core.Spec.calls], any answers).  Invariant carried through every level function: the open
   claims form a chain of calls (so a re-entered key lies on a cycle), every recorded query edge
   of a memo is a transitive callee (also after flattening), and every cycle head of a valued
   memo / of a frame / of the closure computed by collect_all_cycle_heads is reachable from the
   memo's key and lies on a cycle. *)
From Salsa.Cycle Require HeadInv HeadOps HeadFetch HeadTop HeadExamples.

Theorem C12_heads_sound : forall (prog : qkey -> body) (strat : N -> Salsa.Cycle.Model.strategy)
    (cinit : qkey -> val) (nodes fuel : nat) (iv : ikey -> val) (idur : ikey -> dur)
    (ops : list Salsa.Cycle.Model.cop),
  let r := Salsa.Cycle.Model.crun_ops prog strat cinit nodes fuel (Salsa.Cycle.Model.cinit_db iv idur) ops in
  Forall (fun o => o <> Salsa.Cycle.Model.CFuel) (snd r) ->
  forall p m, Salsa.Cycle.Model.c_memo (fst r) p = Some m ->
    (forall d, In (Salsa.Core.Model.EQ d) (Salsa.Cycle.Model.cm_edges m) -> HeadInv.reach prog p d) /\
    (Salsa.Cycle.Model.cm_val m <> None -> forall h, In h (Salsa.Cycle.Model.raw_heads m) ->
       (p = fst h \/ HeadInv.reach prog p (fst h)) /\ HeadInv.reach prog (fst h) (fst h)).
Proof. exact HeadTop.heads_sound. Qed.
Check C12_heads_sound : forall (prog : qkey -> body) (strat : N -> Salsa.Cycle.Model.strategy)
    (cinit : qkey -> val) (nodes fuel : nat) (iv : ikey -> val) (idur : ikey -> dur)
    (ops : list Salsa.Cycle.Model.cop),
  let r := Salsa.Cycle.Model.crun_ops prog strat cinit nodes fuel (Salsa.Cycle.Model.cinit_db iv idur) ops in
  Forall (fun o => o <> Salsa.Cycle.Model.CFuel) (snd r) ->
  forall p m, Salsa.Cycle.Model.c_memo (fst r) p = Some m ->
    (forall d, In (Salsa.Core.Model.EQ d) (Salsa.Cycle.Model.cm_edges m) -> HeadInv.reach prog p d) /\
    (Salsa.Cycle.Model.cm_val m <> None -> forall h, In h (Salsa.Cycle.Model.raw_heads m) ->
       (p = fst h \/ HeadInv.reach prog p (fst h)) /\ HeadInv.reach prog (fst h) (fst h)).
Print Assumptions C12_heads_sound.

(* Consequence (the soundness half of "exactly the cycle participants", C12/C13/C14, every
   history): a function from which no cycle of the call graph can be reached never records a
   cycle head — it is never a participant, never a head, never provisional, whatever happened. *)
Theorem C12_acyclic_never_participates : forall (prog : qkey -> body) (strat : N -> Salsa.Cycle.Model.strategy)
    (cinit : qkey -> val) (nodes fuel : nat) (iv : ikey -> val) (idur : ikey -> dur)
    (ops : list Salsa.Cycle.Model.cop) (p : qkey),
  (forall h, p = h \/ HeadInv.reach prog p h -> ~ HeadInv.reach prog h h) ->
  let r := Salsa.Cycle.Model.crun_ops prog strat cinit nodes fuel (Salsa.Cycle.Model.cinit_db iv idur) ops in
  Forall (fun o => o <> Salsa.Cycle.Model.CFuel) (snd r) ->
  forall m, Salsa.Cycle.Model.c_memo (fst r) p = Some m -> Salsa.Cycle.Model.cm_val m <> None ->
    Salsa.Cycle.Model.raw_heads m = [] /\ Salsa.Cycle.Model.heads_of m = [].
Proof. exact HeadTop.no_cycle_no_heads. Qed.
Check C12_acyclic_never_participates : forall (prog : qkey -> body) (strat : N -> Salsa.Cycle.Model.strategy)
    (cinit : qkey -> val) (nodes fuel : nat) (iv : ikey -> val) (idur : ikey -> dur)
    (ops : list Salsa.Cycle.Model.cop) (p : qkey),
  (forall h, p = h \/ HeadInv.reach prog p h -> ~ HeadInv.reach prog h h) ->
  let r := Salsa.Cycle.Model.crun_ops prog strat cinit nodes fuel (Salsa.Cycle.Model.cinit_db iv idur) ops in
  Forall (fun o => o <> Salsa.Cycle.Model.CFuel) (snd r) ->
  forall m, Salsa.Cycle.Model.c_memo (fst r) p = Some m -> Salsa.Cycle.Model.cm_val m <> None ->
    Salsa.Cycle.Model.raw_heads m = [] /\ Salsa.Cycle.Model.heads_of m = [].
Print Assumptions C12_acyclic_never_participates.

(* A re-entered key lies on a cycle: inside any fetch, under the invariant, a same-thread cycle
   report of try_claim implies that the requested key can reach itself. *)
Theorem C12_reentered_key_is_cyclic : forall (prog : qkey -> body) (hl : list qkey) (q : qkey),
  HeadInv.chn prog hl -> HeadInv.req prog hl q -> In q hl -> HeadInv.reach prog q q.
Proof. exact HeadInv.reentry_cyc. Qed.
Check C12_reentered_key_is_cyclic : forall (prog : qkey -> body) (hl : list qkey) (q : qkey),
  HeadInv.chn prog hl -> HeadInv.req prog hl q -> In q hl -> HeadInv.reach prog q q.
Print Assumptions C12_reentered_key_is_cyclic.

(* Non-vacuity: exc_two_cycles and exn_nested record heads on the way (HeadExamples.exc_heads_recorded,
   exn_heads_recorded, by vm_compute), all on cycles by the theorem. *)
Example C12_two_cycles_heads_sound : forall ops,
  Forall (fun r => r <> Salsa.Cycle.Model.CFuel) (snd (FbExamples.exc_run ops)) ->
  forall p m, Salsa.Cycle.Model.c_memo (fst (FbExamples.exc_run ops)) p = Some m ->
  Salsa.Cycle.Model.cm_val m <> None ->
  forall h, In h (Salsa.Cycle.Model.raw_heads m) ->
    (p = fst h \/ HeadInv.reach FbExamples.exc_prog p (fst h)) /\ HeadInv.reach FbExamples.exc_prog (fst h) (fst h).
Proof. exact HeadExamples.exc_heads_sound. Qed.

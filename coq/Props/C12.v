(* Props/C12.v — Fixpoint cycles converge to the least fixpoint regardless of entry order.
   Statements only; proofs in Cycle/SpecProofs.v.  Programs are families of arbitrary
   deterministic bodies over the bit-set lattice (N with lor/land, bytes in the harness);
   "monotone bodies" is the semantic predicate [monotone_prog]. *)
From Salsa Require Import Base.
From Salsa.Core Require Import Model Spec.
From Salsa.Core Require Import Dsl.
From Salsa.Cycle Require Import Spec SpecProofs DslSpec DslProofs.
From Salsa.Cycle Require Cert Examples.

(* The specification is well defined and is what the property names: [kleene] satisfies every
   equation, lies below every assignment that satisfies (even: is closed under) the equations,
   and is reached after at most height(8) x nodes synchronous rounds from bottom. *)
Theorem C12_kleene_lfp : forall (prog : qkey -> body) (sn : snapshot) (ns : list qkey),
  monotone_prog prog sn -> fits8 prog sn ->
  is_fixpoint prog sn ns (kleene prog sn ns) /\
  (forall sigma, is_prefixpoint prog sn ns sigma -> env_le (kleene prog sn ns) sigma) /\
  (exists k, (k <= 8 * length ns)%nat /\
     forall m, (k <= m)%nat -> forall q, tlookup (kiter prog sn ns m (tbl0 ns)) q = kleene prog sn ns q).
Proof. exact kleene_lfp. Qed.
Check C12_kleene_lfp : forall (prog : qkey -> body) (sn : snapshot) (ns : list qkey),
  monotone_prog prog sn -> fits8 prog sn ->
  is_fixpoint prog sn ns (kleene prog sn ns) /\
  (forall sigma, is_prefixpoint prog sn ns sigma -> env_le (kleene prog sn ns) sigma) /\
  (exists k, (k <= 8 * length ns)%nat /\
     forall m, (k <= m)%nat -> forall q, tlookup (kiter prog sn ns m (tbl0 ns)) q = kleene prog sn ns q).
Print Assumptions C12_kleene_lfp.

(* Entry order is irrelevant by construction: ANY procedure (any entry node, any incremental
   history, any evaluation order) that only ever holds values below the least fixpoint and stops
   at a state satisfying every equation has computed the least fixpoint. *)
Theorem C12_chaotic : forall (prog : qkey -> body) (sn : snapshot) (ns : list qkey),
  monotone_prog prog sn ->
  forall sigma, env_le sigma (kleene prog sn ns) -> is_fixpoint prog sn ns sigma ->
  forall q, sigma q = kleene prog sn ns q.
Proof. exact chaotic. Qed.
Check C12_chaotic : forall (prog : qkey -> body) (sn : snapshot) (ns : list qkey),
  monotone_prog prog sn ->
  forall sigma, env_le sigma (kleene prog sn ns) -> is_fixpoint prog sn ns sigma ->
  forall q, sigma q = kleene prog sn ns q.
Print Assumptions C12_chaotic.

(* The per-run certificate on a state of the executable Cycle model: if the settled memos
   (final, or finalisable by validate_provisional, verified in the current revision) re-evaluate
   to themselves ([is_fixpoint_state], decidable, evaluated on every generated run) and hold
   values below the least fixpoint, then every one of them IS the least fixpoint's value. *)
Theorem C12_certified : forall (prog : qkey -> body) (ns : list qkey) (s : Salsa.Cycle.Model.cdb),
  monotone_prog prog (Cert.csnap_of s) -> fits8 prog (Cert.csnap_of s) ->
  Cert.is_fixpoint_state prog ns s = true ->
  (forall q v, Cert.final_val s q = Some v -> le_bits v (kleene prog (Cert.csnap_of s) ns q)) ->
  forall q v, In q ns -> Cert.final_val s q = Some v -> v = kleene prog (Cert.csnap_of s) ns q.
Proof.
  intros prog ns s Hm Hf Hc Hb. exact (certified_fix prog (Cert.csnap_of s) ns Hm Hf (Cert.final_val s) Hc Hb).
Qed.
Check C12_certified : forall (prog : qkey -> body) (ns : list qkey) (s : Salsa.Cycle.Model.cdb),
  monotone_prog prog (Cert.csnap_of s) -> fits8 prog (Cert.csnap_of s) ->
  Cert.is_fixpoint_state prog ns s = true ->
  (forall q v, Cert.final_val s q = Some v -> le_bits v (kleene prog (Cert.csnap_of s) ns q)) ->
  forall q v, In q ns -> Cert.final_val s q = Some v -> v = kleene prog (Cert.csnap_of s) ns q.
Print Assumptions C12_certified.

(* The hypotheses are not vacuous and not special: EVERY program of the `cycles` profile — DSL
   expressions (Core/Dsl.v) built from byte literals, input reads, union, intersection, calls with
   input-computed keys and input-controlled branches; the decidable class [mono_table], evaluated
   by the driver on every generated case — compiles to monotone, byte-valued bodies. *)
Theorem C12_profile_programs_monotone : forall (nk : N) (tbl : list (qkey * expr)) (sn : snapshot),
  mono_table tbl = true -> (forall i, sn_in sn i < 256) ->
  monotone_prog (prog_of nk tbl) sn /\ fits8 (prog_of nk tbl) sn.
Proof. intros nk tbl sn Ht Hin. split; [now apply dsl_monotone | now apply dsl_fits8]. Qed.
Check C12_profile_programs_monotone : forall (nk : N) (tbl : list (qkey * expr)) (sn : snapshot),
  mono_table tbl = true -> (forall i, sn_in sn i < 256) ->
  monotone_prog (prog_of nk tbl) sn /\ fits8 (prog_of nk tbl) sn.
Print Assumptions C12_profile_programs_monotone.

(* NOT PROVED (kept visible): the two statements that would close C12 over the model for all
   programs and histories.  They are checked per generated run by the correspondence engine
   (implementation = model on values, events, state; values = kleene), not proved. *)
Definition C12_below_full_statement : Prop :=
  forall (prog : qkey -> body) strat cinit nodes fuel iv idur ops ns q v,
    (forall sn, monotone_prog prog sn) -> (forall sn, closed_on prog sn ns) ->
    (forall q, cinit q = 0) ->
    (forall fam, strat fam = Salsa.Cycle.Model.SFix \/ strat fam = Salsa.Cycle.Model.SFixJoin) ->
    let s := fst (Salsa.Cycle.Model.crun_ops prog strat cinit nodes fuel (Salsa.Cycle.Model.cinit_db iv idur) ops) in
    Cert.final_val s q = Some v -> le_bits v (kleene prog (Cert.csnap_of s) ns q).
Definition C12_finalises_certified_full_statement : Prop :=
  forall (prog : qkey -> body) strat cinit nodes fuel iv idur ops ns,
    (forall sn, monotone_prog prog sn) -> (forall sn, closed_on prog sn ns) ->
    (forall q, cinit q = 0) ->
    (forall fam, strat fam = Salsa.Cycle.Model.SFix \/ strat fam = Salsa.Cycle.Model.SFixJoin) ->
    let s := fst (Salsa.Cycle.Model.crun_ops prog strat cinit nodes fuel (Salsa.Cycle.Model.cinit_db iv idur) ops) in
    forall q v, In q ns -> Cert.final_val s q = Some v -> v = kleene prog (Cert.csnap_of s) ns q.

(* Non-vacuity: a two-node cycle  x0 = in | x1, x1 = 2 | (x0 & 6)  satisfies the hypotheses for
   every snapshot; the executable model, entered at either node, before and after a write,
   returns the least fixpoint and its final state passes the certificate. *)
Example C12_hypotheses_inhabited : forall sn, (forall i, sn_in sn i < 256) ->
  monotone_prog Examples.ex12_prog sn /\ fits8 Examples.ex12_prog sn.
Proof. intros sn H. split; [apply Examples.ex12_monotone | now apply Examples.ex12_fits]. Qed.
Example C12_model_run :
  Examples.outs_of Examples.ex12_prog Examples.ex12_iv
    [Salsa.Cycle.Model.COGet (1, 0); Salsa.Cycle.Model.COGet (1, 1);
     Salsa.Cycle.Model.COSet (0, 0) 8 None; Salsa.Cycle.Model.COGet (1, 1); Salsa.Cycle.Model.COGet (1, 0)]
  = [Salsa.Cycle.Model.COk 7; Salsa.Cycle.Model.COk 6; Salsa.Cycle.Model.COk 0;
     Salsa.Cycle.Model.COk 2; Salsa.Cycle.Model.COk 10].
Proof. exact Examples.ex12_run. Qed.

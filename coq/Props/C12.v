(* Props/C12.v — Fixpoint cycles converge to the least fixpoint regardless of entry order.
   Statements only; proofs in Cycle/SpecProofs.v.  Programs are families of arbitrary
   deterministic bodies over the bit-set lattice (N with lor/land, bytes in the harness);
   "monotone bodies" is the semantic predicate [monotone_prog]. *)
From Salsa Require Import Base.
From Salsa.Core Require Import Model Spec.
From Salsa.Core Require Import Dsl.
From Salsa.Cycle Require Import Spec SpecProofs DslSpec DslProofs.
From Salsa.Cycle Require Cert Examples.
From Salsa.Cycle Require FreshInv FreshThm FreshExamples.

(* The specification is well defined and is what the property names: [kleene] satisfies every
   equation, lies below every assignment that satisfies (even: is closed under) the equations,
   and is reached after at most height(8) x nodes synchronous rounds from bottom. *)
Theorem C12_kleene_lfp : forall (prog : qkey -> body) (sn : snapshot) (ns : list qkey),
  monotone_prog prog sn -> fits8 prog sn ->
  is_fixpoint prog sn ns (kleene prog sn ns) /\
  (forall sigma, is_prefixpoint prog sn ns sigma -> env_le (kleene prog sn ns) sigma) /\
  (exists k, (k <= 8 * length ns)%nat /\
     forall m, (k <= m)%nat -> forall q, tlookup (kiter prog sn ns m (tbl0 ns)) q = kleene prog sn ns q).
Proof. exact kleene_lfp. Qed.
Check C12_kleene_lfp : forall (prog : qkey -> body) (sn : snapshot) (ns : list qkey),
  monotone_prog prog sn -> fits8 prog sn ->
  is_fixpoint prog sn ns (kleene prog sn ns) /\
  (forall sigma, is_prefixpoint prog sn ns sigma -> env_le (kleene prog sn ns) sigma) /\
  (exists k, (k <= 8 * length ns)%nat /\
     forall m, (k <= m)%nat -> forall q, tlookup (kiter prog sn ns m (tbl0 ns)) q = kleene prog sn ns q).
Print Assumptions C12_kleene_lfp.

(* Entry order is irrelevant by construction: ANY procedure (any entry node, any incremental
   history, any evaluation order) that only ever holds values below the least fixpoint and stops
   at a state satisfying every equation has computed the least fixpoint. *)
Theorem C12_chaotic : forall (prog : qkey -> body) (sn : snapshot) (ns : list qkey),
  monotone_prog prog sn ->
  forall sigma, env_le sigma (kleene prog sn ns) -> is_fixpoint prog sn ns sigma ->
  forall q, sigma q = kleene prog sn ns q.
Proof. exact chaotic. Qed.
Check C12_chaotic : forall (prog : qkey -> body) (sn : snapshot) (ns : list qkey),
  monotone_prog prog sn ->
  forall sigma, env_le sigma (kleene prog sn ns) -> is_fixpoint prog sn ns sigma ->
  forall q, sigma q = kleene prog sn ns q.
Print Assumptions C12_chaotic.

(* The per-run certificate on a state of the executable Cycle model: if the settled memos
   (final, or finalisable by validate_provisional, verified in the current revision) re-evaluate
   to themselves ([is_fixpoint_state], decidable, evaluated on every generated run) and hold
   values below the least fixpoint, then every one of them IS the least fixpoint's value. *)
Theorem C12_certified : forall (prog : qkey -> body) (ns : list qkey) (s : Salsa.Cycle.Model.cdb),
  monotone_prog prog (Cert.csnap_of s) -> fits8 prog (Cert.csnap_of s) ->
  Cert.is_fixpoint_state prog ns s = true ->
  (forall q v, Cert.final_val s q = Some v -> le_bits v (kleene prog (Cert.csnap_of s) ns q)) ->
  forall q v, In q ns -> Cert.final_val s q = Some v -> v = kleene prog (Cert.csnap_of s) ns q.
Proof.
  intros prog ns s Hm Hf Hc Hb. exact (certified_fix prog (Cert.csnap_of s) ns Hm Hf (Cert.final_val s) Hc Hb).
Qed.
Check C12_certified : forall (prog : qkey -> body) (ns : list qkey) (s : Salsa.Cycle.Model.cdb),
  monotone_prog prog (Cert.csnap_of s) -> fits8 prog (Cert.csnap_of s) ->
  Cert.is_fixpoint_state prog ns s = true ->
  (forall q v, Cert.final_val s q = Some v -> le_bits v (kleene prog (Cert.csnap_of s) ns q)) ->
  forall q v, In q ns -> Cert.final_val s q = Some v -> v = kleene prog (Cert.csnap_of s) ns q.
Print Assumptions C12_certified.

(* The hypotheses are not vacuous and not special: EVERY program of the `cycles` profile — DSL
   expressions (Core/Dsl.v) built from byte literals, input reads, union, intersection, calls with
   input-computed keys and input-controlled branches; the decidable class [mono_table], evaluated
   by the driver on every generated case — compiles to monotone, byte-valued bodies. *)
Theorem C12_profile_programs_monotone : forall (nk : N) (tbl : list (qkey * expr)) (sn : snapshot),
  mono_table tbl = true -> (forall i, sn_in sn i < 256) ->
  monotone_prog (prog_of nk tbl) sn /\ fits8 (prog_of nk tbl) sn.
Proof. intros nk tbl sn Ht Hin. split; [now apply dsl_monotone | now apply dsl_fits8]. Qed.
Check C12_profile_programs_monotone : forall (nk : N) (tbl : list (qkey * expr)) (sn : snapshot),
  mono_table tbl = true -> (forall i, sn_in sn i < 256) ->
  monotone_prog (prog_of nk tbl) sn /\ fits8 (prog_of nk tbl) sn.
Print Assumptions C12_profile_programs_monotone.

(* NOT PROVED (kept visible): the two statements that would close C12 over the model for all
   programs and histories.  They are checked per generated run by the correspondence engine
   (implementation = model on values, events, state; values = kleene), not proved. *)
Definition C12_below_full_statement : Prop :=
  forall (prog : qkey -> body) strat cinit nodes fuel iv idur ops ns q v,
    (forall sn, monotone_prog prog sn) -> (forall sn, closed_on prog sn ns) ->
    (forall q, cinit q = 0) ->
    (forall fam, strat fam = Salsa.Cycle.Model.SFix \/ strat fam = Salsa.Cycle.Model.SFixJoin) ->
    let s := fst (Salsa.Cycle.Model.crun_ops prog strat cinit nodes fuel (Salsa.Cycle.Model.cinit_db iv idur) ops) in
    Cert.final_val s q = Some v -> le_bits v (kleene prog (Cert.csnap_of s) ns q).
Definition C12_finalises_certified_full_statement : Prop :=
  forall (prog : qkey -> body) strat cinit nodes fuel iv idur ops ns,
    (forall sn, monotone_prog prog sn) -> (forall sn, closed_on prog sn ns) ->
    (forall q, cinit q = 0) ->
    (forall fam, strat fam = Salsa.Cycle.Model.SFix \/ strat fam = Salsa.Cycle.Model.SFixJoin) ->
    let s := fst (Salsa.Cycle.Model.crun_ops prog strat cinit nodes fuel (Salsa.Cycle.Model.cinit_db iv idur) ops) in
    forall q v, In q ns -> Cert.final_val s q = Some v -> v = kleene prog (Cert.csnap_of s) ns q.

(* Non-vacuity: a two-node cycle  x0 = in | x1, x1 = 2 | (x0 & 6)  satisfies the hypotheses for
   every snapshot; the executable model, entered at either node, before and after a write,
   returns the least fixpoint and its final state passes the certificate. *)
Example C12_hypotheses_inhabited : forall sn, (forall i, sn_in sn i < 256) ->
  monotone_prog Examples.ex12_prog sn /\ fits8 Examples.ex12_prog sn.
Proof. intros sn H. split; [apply Examples.ex12_monotone | now apply Examples.ex12_fits]. Qed.
Example C12_model_run :
  Examples.outs_of Examples.ex12_prog Examples.ex12_iv
    [Salsa.Cycle.Model.COGet (1, 0); Salsa.Cycle.Model.COGet (1, 1);
     Salsa.Cycle.Model.COSet (0, 0) 8 None; Salsa.Cycle.Model.COGet (1, 1); Salsa.Cycle.Model.COGet (1, 0)]
  = [Salsa.Cycle.Model.COk 7; Salsa.Cycle.Model.COk 6; Salsa.Cycle.Model.COk 0;
     Salsa.Cycle.Model.COk 2; Salsa.Cycle.Model.COk 10].
Proof. exact Examples.ex12_run. Qed.


(* ---------------------------------------------------------------- the fresh revision (stage F1)
   PROVED over the executable Cycle model, for all programs of the following class and all
   snapshots: starting from the initial database (no memos), ANY sequence of Gets (any entry order,
   any subset, repeats) returns the least fixpoint for every Get — hence never a panic and never
   out-of-fuel — and the final state's settled memos pass the certificate [is_fixpoint_state].
   Fuel: any [fuel >= length ns] (the recursion depth of fetch is bounded by the number of nodes)
   and [nodes >= 1]; the fixpoint loop never needs more than 13 iterations, independently of the
   number of nodes (stamps stay below 16, far from MAX_ITERATIONS = 200).
   Class (restriction of this stage, [FreshInv.ring_ok_of] + [input_determined]): the call graph of
   the snapshot is input-determined and layered by [lvl]; the only same-level call of a node goes
   to [nxt] of it, [nxt] is injective and its edges are real calls; nodes with a same-level call
   use Fixpoint (default or joining cycle_fn) with cycle_initial = 0.  So every strongly connected
   component is a simple ring, entered at any member, no nested heads; rings at different levels
   may call each other downwards; nodes off the rings may use any strategy (plain / no-cycle
   families only occur acyclically).  Nested cycle heads are NOT covered by this stage. *)
Theorem C12_fresh :
  forall (prog : qkey -> body) (strat : N -> Salsa.Cycle.Model.strategy) (cinit : qkey -> val)
         (iv : ikey -> val) (idur : ikey -> dur) (ns : list qkey)
         (lvl : qkey -> nat) (nxt : qkey -> option qkey) (nodes fuel : nat) (qs : list qkey),
  let sn := Cert.csnap_of (Salsa.Cycle.Model.cinit_db iv idur) in
  monotone_prog prog sn -> fits8 prog sn -> input_determined prog sn ->
  FreshInv.ring_ok_of prog strat sn ns lvl nxt -> (forall q, cinit q = 0) ->
  (1 <= nodes)%nat -> (length ns <= fuel)%nat -> (forall q, In q qs -> In q ns) ->
  exists s',
    Salsa.Cycle.Model.crun_ops prog strat cinit nodes fuel (Salsa.Cycle.Model.cinit_db iv idur)
      (map Salsa.Cycle.Model.COGet qs)
      = (s', map (fun q => Salsa.Cycle.Model.COk (kleene prog sn ns q)) qs) /\
    Cert.is_fixpoint_state prog ns s' = true.
Proof. exact FreshThm.fresh_ring. Qed.
Check C12_fresh :
  forall (prog : qkey -> body) (strat : N -> Salsa.Cycle.Model.strategy) (cinit : qkey -> val)
         (iv : ikey -> val) (idur : ikey -> dur) (ns : list qkey)
         (lvl : qkey -> nat) (nxt : qkey -> option qkey) (nodes fuel : nat) (qs : list qkey),
  let sn := Cert.csnap_of (Salsa.Cycle.Model.cinit_db iv idur) in
  monotone_prog prog sn -> fits8 prog sn -> input_determined prog sn ->
  FreshInv.ring_ok_of prog strat sn ns lvl nxt -> (forall q, cinit q = 0) ->
  (1 <= nodes)%nat -> (length ns <= fuel)%nat -> (forall q, In q qs -> In q ns) ->
  exists s',
    Salsa.Cycle.Model.crun_ops prog strat cinit nodes fuel (Salsa.Cycle.Model.cinit_db iv idur)
      (map Salsa.Cycle.Model.COGet qs)
      = (s', map (fun q => Salsa.Cycle.Model.COk (kleene prog sn ns q)) qs) /\
    Cert.is_fixpoint_state prog ns s' = true.
Print Assumptions C12_fresh.

(* NOT PROVED (kept visible): the same statement without the ring restriction — arbitrary
   (nested) cycles among Fixpoint families.  Checked by the fuzzer (about 1.8M reads of random
   monotone programs with nested cycles, 0 mismatches) and by [FreshExamples.exn_nested]. *)
Definition C12_fresh_full_statement : Prop :=
  forall (prog : qkey -> body) (strat : N -> Salsa.Cycle.Model.strategy) (cinit : qkey -> val)
         (iv : ikey -> val) (idur : ikey -> dur) (ns : list qkey) (nodes fuel : nat) (qs : list qkey),
  let sn := Cert.csnap_of (Salsa.Cycle.Model.cinit_db iv idur) in
  monotone_prog prog sn -> fits8 prog sn -> closed_on prog sn ns ->
  (forall q, cinit q = 0) ->
  (forall fam, strat fam = Salsa.Cycle.Model.SFix \/ strat fam = Salsa.Cycle.Model.SFixJoin) ->
  (length ns <= nodes)%nat -> (length ns <= fuel)%nat -> (8 * length ns < 200)%nat ->
  (forall q, In q qs -> In q ns) ->
  exists s',
    Salsa.Cycle.Model.crun_ops prog strat cinit nodes fuel (Salsa.Cycle.Model.cinit_db iv idur)
      (map Salsa.Cycle.Model.COGet qs)
      = (s', map (fun q => Salsa.Cycle.Model.COk (kleene prog sn ns q)) qs) /\
    Cert.is_fixpoint_state prog ns s' = true.

(* Non-vacuity of C12_fresh: a 3-node Fixpoint ring over a 2-node joining ring over a plain leaf
   satisfies every hypothesis, for every list of Gets; the 3-node ring entered at each member. *)
Example C12_fresh_inhabited : forall (qs : list qkey), (forall q, In q qs -> In q FreshExamples.exf_ns) ->
  let sn := Cert.csnap_of (Salsa.Cycle.Model.cinit_db FreshExamples.exf_iv (fun _ => 0)) in
  exists s',
    Salsa.Cycle.Model.crun_ops FreshExamples.exf_prog Examples.ex_strat FreshExamples.cinit0 6 6
      (Salsa.Cycle.Model.cinit_db FreshExamples.exf_iv (fun _ => 0)) (map Salsa.Cycle.Model.COGet qs)
      = (s', map (fun q => Salsa.Cycle.Model.COk (kleene FreshExamples.exf_prog sn FreshExamples.exf_ns q)) qs) /\
    Cert.is_fixpoint_state FreshExamples.exf_prog FreshExamples.exf_ns s' = true.
Proof. exact FreshExamples.exf_fresh. Qed.
Example C12_fresh_enter_each :
  FreshExamples.exf_outs [Salsa.Cycle.Model.COGet (1, 0); Salsa.Cycle.Model.COGet (1, 1); Salsa.Cycle.Model.COGet (1, 2)]
    = [Salsa.Cycle.Model.COk 93; Salsa.Cycle.Model.COk 13; Salsa.Cycle.Model.COk 12] /\
  FreshExamples.exf_outs [Salsa.Cycle.Model.COGet (1, 1); Salsa.Cycle.Model.COGet (1, 2); Salsa.Cycle.Model.COGet (1, 0)]
    = [Salsa.Cycle.Model.COk 13; Salsa.Cycle.Model.COk 12; Salsa.Cycle.Model.COk 93] /\
  FreshExamples.exf_outs [Salsa.Cycle.Model.COGet (1, 2); Salsa.Cycle.Model.COGet (1, 0); Salsa.Cycle.Model.COGet (1, 1)]
    = [Salsa.Cycle.Model.COk 12; Salsa.Cycle.Model.COk 93; Salsa.Cycle.Model.COk 13].
Proof. destruct FreshExamples.exf_enter_each as (H1 & H2 & H3 & _). now repeat split. Qed.

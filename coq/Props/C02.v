(* Props/C02.v — Durabilities never cause stale results; never-change fields stay frozen.
   Statements only. *)
From Salsa Require Import Base.
From Salsa.gen Require Import Kernels.
From Salsa.Kern Require Import CoreK K1_Durability K2_WriteReport K3_Shortcut.
From Salsa.Core Require Import Model Spec ReuseProofs Inv InvTop DInvTop DurExamples.

(* --- kernel theorems, over the definitions translated from the Rust source on this run --- *)

(* report_tracked_write(d) stamps exactly the levels 1..=d with the current revision *)
Theorem C02_write_report_levels : forall j cur old d,
  cur <> old -> (k_report_write_slot j cur old d = cur <-> 1 <= j <= d).
Proof. exact k_report_write_slot_iff. Qed.
Check C02_write_report_levels : forall j cur old d,
  cur <> old -> (k_report_write_slot j cur old d = cur <-> 1 <= j <= d).
Print Assumptions C02_write_report_levels.

(* a LOW write touches no last-changed level; NEVER_CHANGE is the only rejected durability *)
Theorem C02_write_report_low_never : forall j cur old d,
  k_report_write_slot j cur old k_DUR_LOW = old /\
  (k_report_write_rejects d = true <-> d = k_DUR_NEVER).
Proof. intros; split; [apply k_report_write_slot_low | apply k_report_write_rejects_iff]. Qed.
Check C02_write_report_low_never : forall j cur old d,
  k_report_write_slot j cur old k_DUR_LOW = old /\
  (k_report_write_rejects d = true <-> d = k_DUR_NEVER).
Print Assumptions C02_write_report_low_never.

(* last_changed: LOW is the current revision, NEVER_CHANGE is the start revision; the
   vector stays declining under a write report *)
Theorem C02_last_changed : forall r0 r1 r2 d,
  k_last_changed_revision r0 r1 r2 k_DUR_LOW = r0 /\
  k_last_changed_revision r0 r1 r2 3 = 1 /\
  (r2 <= r1 -> r1 <= r0 ->
   k_report_write_slot 2 r0 r2 d <= k_report_write_slot 1 r0 r1 d /\
   k_report_write_slot 1 r0 r1 d <= r0).
Proof.
  intros. split; [apply k_last_changed_revision_low|]. split; [apply k_last_changed_revision_3|].
  apply k_report_write_declining.
Qed.
Check C02_last_changed : forall r0 r1 r2 d,
  k_last_changed_revision r0 r1 r2 k_DUR_LOW = r0 /\
  k_last_changed_revision r0 r1 r2 3 = 1 /\
  (r2 <= r1 -> r1 <= r0 ->
   k_report_write_slot 2 r0 r2 d <= k_report_write_slot 1 r0 r1 d /\
   k_report_write_slot 1 r0 r1 d <= r0).
Print Assumptions C02_last_changed.

(* the short-cut comparison and the backdate durability guard *)
Theorem C02_shortcut_comparisons : forall lc va n o,
  (k_shallow_ok lc va = true <-> lc <= va) /\ (k_can_backdate_dur n o = true <-> o <= n).
Proof. intros; split; [apply k_shallow_ok_iff | apply k_can_backdate_dur_iff]. Qed.
Check C02_shortcut_comparisons : forall lc va n o,
  (k_shallow_ok lc va = true <-> lc <= va) /\ (k_can_backdate_dur n o = true <-> o <= n).
Print Assumptions C02_shortcut_comparisons.

(* --- frozen fields, over the Core model: in EVERY state, with every program --- *)
Theorem C02_frozen : forall prog noeq fams fuel s i v d,
  f_dur (d_in s i) = D_NEVER ->
  (* a write to the field panics and changes no input value or durability *)
  snd (step prog noeq fams fuel s (OSet i v d)) = Panic PNeverChange /\
  d_in (fst (step prog noeq fams fuel s (OSet i v d))) = d_in s /\
  (* a never-change synthetic write panics and changes no input *)
  snd (step prog noeq fams fuel s (OSynth D_NEVER)) = Panic PNeverChange /\
  d_in (fst (step prog noeq fams fuel s (OSynth D_NEVER))) = d_in s /\
  (* and every other write/eviction/capacity operation leaves the field alone *)
  (forall o, (forall j v' d', o = OSet j v' d' -> j <> i) -> (forall q, o <> OGet q) ->
             d_in (fst (step prog noeq fams fuel s o)) i = d_in s i).
Proof.
  intros prog noeq fams fuel s i v d Hn.
  destruct (frozen_set prog noeq fams fuel s i v d Hn) as [A B].
  destruct (frozen_synth prog noeq fams fuel s) as [C D].
  split; [exact A|]. split; [exact B|]. split; [exact C|]. split; [exact D|].
  intros o Ho Hq. apply other_ops_keep_field; assumption.
Qed.
Check C02_frozen : forall prog noeq fams fuel s i v d,
  f_dur (d_in s i) = D_NEVER ->
  snd (step prog noeq fams fuel s (OSet i v d)) = Panic PNeverChange /\
  d_in (fst (step prog noeq fams fuel s (OSet i v d))) = d_in s /\
  snd (step prog noeq fams fuel s (OSynth D_NEVER)) = Panic PNeverChange /\
  d_in (fst (step prog noeq fams fuel s (OSynth D_NEVER))) = d_in s /\
  (forall o, (forall j v' d', o = OSet j v' d' -> j <> i) -> (forall q, o <> OGet q) ->
             d_in (fst (step prog noeq fams fuel s o)) i = d_in s i).
Print Assumptions C02_frozen.

(* --- no stale results --- *)
(* The from-scratch theorem for histories whose inputs and writes carry arbitrary durabilities:
   initial durabilities LOW/MEDIUM/HIGH/NEVER_CHANGE per field, writes that keep, raise or lower
   the field's durability in the same write, synthetic writes of any level.  Every Get returns
   the from-scratch value of the current inputs: in particular a memo that is re-verified by the
   durability short-cut alone (last_changed(durability) <= verified_at) is never stale.
   The ingredients, all machine-checked (Core/DurSem.v, DInv*.v): the write rule (set_field
   reports the OLD durability to report_tracked_write, then installs the new one) gives
   "an input whose level was not written after r is unchanged at r+1" ([inv_wr]); semantic
   durability levels [durge] with support constancy over write-free windows ([durge_stable]);
   memo durabilities are lower bounds of the semantic level ([mo_durge]) and decrease along
   recorded dependencies for every observer ([mo_obs], preserved by the can_backdate guard
   "new durability >= old"). *)
Theorem C02_durability :
  forall (prog : qkey -> body) (noeq : qkey -> bool) (fams : list N) (rank : qkey -> nat) (NF : nat),
  calls_below prog rank -> (forall q, (rank q < NF)%nat) ->
  forall fuel, (forall p, (rank p < fuel)%nat) ->
  forall iv idur lru0 ops,
    (forall i, idur i <= 3) -> Forall dur_op ops -> wf_ops false ops ->
    outs_ok prog noeq fams NF fuel (init iv idur lru0) ops.
Proof.
  intros prog noeq fams rank NF Hrank Hbound.
  exact (from_scratch_dur_init prog noeq fams rank Hrank NF Hbound).
Qed.
Check C02_durability :
  forall (prog : qkey -> body) (noeq : qkey -> bool) (fams : list N) (rank : qkey -> nat) (NF : nat),
  calls_below prog rank -> (forall q, (rank q < NF)%nat) ->
  forall fuel, (forall p, (rank p < fuel)%nat) ->
  forall iv idur lru0 ops,
    (forall i, idur i <= 3) -> Forall dur_op ops -> wf_ops false ops ->
    outs_ok prog noeq fams NF fuel (init iv idur lru0) ops.
Print Assumptions C02_durability.

(* The statement that was kept visible before the proof existed did not bound the durability
   values (the model's [dur] is a number; the Rust Durability has exactly the four levels 0..3).
   As literally written it is FALSE of the model -- an out-of-range level 4 is treated as
   never-changing by memos but still accepts writes -- so the bounds in C02_durability are
   necessary, and they are all that was missing. *)
Definition C02_durability_full_statement : Prop :=
  forall (prog : qkey -> body) (noeq : qkey -> bool) (fams : list N) (rank : qkey -> nat) (NF : nat),
  calls_below prog rank -> (forall q, (rank q < NF)%nat) ->
  forall fuel, (forall p, (rank p < fuel)%nat) ->
  forall iv idur lru0 ops, wf_ops false ops ->
    outs_ok prog noeq fams NF fuel (init iv idur lru0) ops.

Theorem C02_durability_needs_levels : ~ C02_durability_full_statement.
Proof.
  intros Hall.
  apply (proj2 out_of_range_durability_is_stale).
  apply (Hall ex_prog ex_noeq [] ex_rank 2%nat ex_calls_below ex_bound 2%nat ex_bound).
  cbn. repeat split.
Qed.
Check C02_durability_needs_levels : ~ C02_durability_full_statement.
Print Assumptions C02_durability_needs_levels.

(* with the levels bounded, the old full statement is exactly C02_durability *)
Theorem C02_durability_full_statement_bounded :
  forall (prog : qkey -> body) (noeq : qkey -> bool) (fams : list N) (rank : qkey -> nat) (NF : nat),
  calls_below prog rank -> (forall q, (rank q < NF)%nat) ->
  forall fuel, (forall p, (rank p < fuel)%nat) ->
  forall iv idur lru0 ops, (forall i, idur i <= 3) -> Forall dur_op ops -> wf_ops false ops ->
    outs_ok prog noeq fams NF fuel (init iv idur lru0) ops.
Proof. exact C02_durability. Qed.
Check C02_durability_full_statement_bounded :
  forall (prog : qkey -> body) (noeq : qkey -> bool) (fams : list N) (rank : qkey -> nat) (NF : nat),
  calls_below prog rank -> (forall q, (rank q < NF)%nat) ->
  forall fuel, (forall p, (rank p < fuel)%nat) ->
  forall iv idur lru0 ops, (forall i, idur i <= 3) -> Forall dur_op ops -> wf_ops false ops ->
    outs_ok prog noeq fams NF fuel (init iv idur lru0) ops.
Print Assumptions C02_durability_full_statement_bounded.

(* the earlier partial statement (synthetic writes of any durability over LOW inputs), now a
   corollary *)
Theorem C02_durability_partial :
  forall (prog : qkey -> body) (noeq : qkey -> bool) (fams : list N) (rank : qkey -> nat) (NF : nat),
  calls_below prog rank -> (forall q, (rank q < NF)%nat) ->
  forall fuel, (forall p, (rank p < fuel)%nat) ->
  forall iv lru0 ops,
    Forall low_op ops -> wf_ops false ops ->
    outs_ok prog noeq fams NF fuel (init iv (fun _ => 0) lru0) ops.
Proof.
  intros prog noeq fams rank NF Hrank Hbound.
  exact (from_scratch_low_again prog noeq fams rank Hrank NF Hbound).
Qed.
Check C02_durability_partial :
  forall (prog : qkey -> body) (noeq : qkey -> bool) (fams : list N) (rank : qkey -> nat) (NF : nat),
  calls_below prog rank -> (forall q, (rank q < NF)%nat) ->
  forall fuel, (forall p, (rank p < fuel)%nat) ->
  forall iv lru0 ops,
    Forall low_op ops -> wf_ops false ops ->
    outs_ok prog noeq fams NF fuel (init iv (fun _ => 0) lru0) ops.
Print Assumptions C02_durability_partial.

(* the short-cut at work on a concrete history (see Core/DurExamples.v) *)
Theorem C02_shortcut_example :
  d_log (fst (ex_run 3)) = [EvExec (1, 0); EvExec (0, 0)] /\
  option_map m_verified (d_memo (fst (ex_run 3)) (1, 0)) = Some 1 /\
  d_log (fst (ex_run 4)) = [EvValidate (1, 0); EvExec (1, 0); EvExec (0, 0)] /\
  option_map (fun m => (m_verified m, m_changed m, m_dur m)) (d_memo (fst (ex_run 4)) (1, 0)) = Some (2, 1, 2) /\
  d_revs (fst (ex_run 4)) = {| r_cur := 2; r_med := 1; r_high := 1 |} /\
  d_revs (fst (ex_run 6)) = {| r_cur := 3; r_med := 3; r_high := 3 |} /\
  firstn 1 (d_log (fst (ex_run 7))) = [EvExec (1, 0)].
Proof. exact ex_shortcut_fires. Qed.
Check C02_shortcut_example :
  d_log (fst (ex_run 3)) = [EvExec (1, 0); EvExec (0, 0)] /\
  option_map m_verified (d_memo (fst (ex_run 3)) (1, 0)) = Some 1 /\
  d_log (fst (ex_run 4)) = [EvValidate (1, 0); EvExec (1, 0); EvExec (0, 0)] /\
  option_map (fun m => (m_verified m, m_changed m, m_dur m)) (d_memo (fst (ex_run 4)) (1, 0)) = Some (2, 1, 2) /\
  d_revs (fst (ex_run 4)) = {| r_cur := 2; r_med := 1; r_high := 1 |} /\
  d_revs (fst (ex_run 6)) = {| r_cur := 3; r_med := 3; r_high := 3 |} /\
  firstn 1 (d_log (fst (ex_run 7))) = [EvExec (1, 0)].
Print Assumptions C02_shortcut_example.

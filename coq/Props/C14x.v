(* Props/C14x.v — C14, cross-thread part: "a function without cycle handling re-entered through
   WAITING THREADS: the requests involved panic with a cycle error or, on threads that were
   waiting, with a propagated-panic cancellation, rather than hanging or returning a value".

   Level: protocol (Proto/Model.v); proofs in CFetch/ProofsCross.v on top of Proto/ProofsStep.v
   (C19).  The single-thread part is Props/C14.v (Cycle layer).

   What the theorem says, for every reachable protocol state (any number of threads/keys):
   1. a try_claim / peek_claim of key [k] by thread [t] while [k]'s owner (transitively) waits
      on [t] is answered [Cycle] and adds no edge — the caller does not wait (for a function with
      CycleRecoveryStrategy::Panic the caller then panics: fetch_cold_cycle, fetch.rs:176-185;
      that panic is observed on the implementation by checks/C14x.py);
      the same for Running::block_on's own re-check ([OBlockOn]);
   2. when the holder of a claim unwinds (ClaimGuard::release_panicking ->
      unblock_queries_blocked_on(key, Panicked)), every thread blocked on that key is removed
      from the wait graph with the result Panicked, its next probe of the wait loop returns
      Panicked, and Running::block_on turns that into Cancelled::PropagatedPanic
      ([on_wait_result], runtime.rs:183-193).
   Not proved here (by correspondence: checks/C14x.py): that the panicking thread of the real
   evaluator performs exactly these protocol steps for every frame it unwinds, and that the
   database is usable afterwards (single-thread: Props/C14.v / C22). *)
From Salsa Require Import Base.
From Salsa.Proto Require Import Model ProofsGraph ProofsInv ProofsStep.
From Salsa.CFetch Require Import Model ProofsCross.

Theorem C14_cross_thread_reported :
  forall fuel s, reachable fuel s ->
  (forall o t k allow st owner s' r,
     o = OClaim t k allow \/ o = OPeek t k allow ->
     sync s k = Some st -> ss_id st = OThread owner ->
     reaches (eproj (dg s)) owner t ->
     Model.step fuel s o = ROk (s', XClaim r) ->
     r = CCycle false /\ dg s' = dg s) /\
  (forall t k other s' out,
     reaches (eproj (dg s)) other t ->
     Model.step fuel s (OBlockOn t k other) = ROk (s', out) ->
     out = XBlock BCycle /\ s' = s) /\
  (forall t k s1 out,
     Model.step fuel s (OUnblock t k Panicked) = ROk (s1, out) ->
     forall d u, edges (dg s) d = Some (u, k) ->
       edges (dg s1) d = None /\ wres (dg s1) d = Some Panicked /\
       (exists s2, Model.step fuel s1 (OReceive d) = ROk (s2, XReceive (Some Panicked))) /\
       on_wait_result Panicked = Panic PPropagated).
Proof. exact cross_thread_reported. Qed.

Check C14_cross_thread_reported :
  forall fuel s, reachable fuel s ->
  (forall o t k allow st owner s' r,
     o = OClaim t k allow \/ o = OPeek t k allow ->
     sync s k = Some st -> ss_id st = OThread owner ->
     reaches (eproj (dg s)) owner t ->
     Model.step fuel s o = ROk (s', XClaim r) ->
     r = CCycle false /\ dg s' = dg s) /\
  (forall t k other s' out,
     reaches (eproj (dg s)) other t ->
     Model.step fuel s (OBlockOn t k other) = ROk (s', out) ->
     out = XBlock BCycle /\ s' = s) /\
  (forall t k s1 out,
     Model.step fuel s (OUnblock t k Panicked) = ROk (s1, out) ->
     forall d u, edges (dg s) d = Some (u, k) ->
       edges (dg s1) d = None /\ wres (dg s1) d = Some Panicked /\
       (exists s2, Model.step fuel s1 (OReceive d) = ROk (s2, XReceive (Some Panicked))) /\
       on_wait_result Panicked = Panic PPropagated).
Print Assumptions C14_cross_thread_reported.

(* a -> b on thread 1, b -> a on thread 2: thread 2 already waits for a; thread 1's request for
   b is answered Cycle; thread 1 unwinds and thread 2 receives Panicked *)
Example C14_cross_thread_witness :
  reachable 20 ex_cross_state /\
  (exists st, sync ex_cross_state 20 = Some st /\ ss_id st = OThread 2 /\
              reaches (eproj (dg ex_cross_state)) 2 1) /\
  match run_out 20 [OClaim 1 20 true; ORemove 1 10; OUnblock 1 10 Panicked; OReceive 2]
                ex_cross_state with
  | ROk (_, outs) => Some (nth 0 outs XUnit, nth 3 outs XUnit)
  | RErr _ => None
  end = Some (XClaim (CCycle false), XReceive (Some Panicked)).
Proof. exact (conj ex_cross_reachable (conj ex_cross_premises ex_cross_run)). Qed.

(* C23 — No memory errors in any history; returned references stay valid; everything is freed.
   PARTIAL, permanently: the theorems below are about the LIFETIME PROTOCOL (Life/Model.v): which
   operation may free or overwrite which memo cell / slot, under which access mode and which
   stamp, for arbitrary operation sequences.  They are tied to the code by hook H4 and the
   replayer (checks/C23.py).

   NOT covered by any statement in this file (outside the model; named as unverified in
   evidence): raw-pointer provenance and aliasing (Stacked/Tree Borrows), the layout arithmetic
   of `SliceWithHeader` / `OriginAndExtra` and of `PageData`, the `transmute` lifetime extensions
   themselves (`extend_memo_lifetime`, `lock_fields`, `to_internal_data`: assumed to yield exactly
   `'db`), `unsafe impl Send/Sync`, atomics and memory ordering, several handles / threads
   (C20, C24), the intrusive LRU list of the interned ingredient, type identity of pages
   (`assert_type`), allocation failure.  The client obligation for interned values (`contract_ok`:
   a reusable interned value is only used in a revision in which it was interned or validated) is
   an explicit refusal of the machine, checked on every replayed trace, not a theorem about salsa. *)
From Salsa Require Import Base.
From Salsa.gen Require Import Kernels.
From Salsa.Life Require Import Model Proofs Examples.

(* The protocol-level reading of the property text, for one history `ops` from an empty database
   with `nt` memo ingredient indices and revision queues of length `ql g`:
     "no use-after-free"                         l_err = false (no read/write of a Freed cell, of
                                                 dropped fields, of an uninitialised slot)
     "every reference ... keeps its value until  every outstanding reference denotes an allocated
      the database is next borrowed mutably"     cell / initialised fields with the recorded value
     "no double free"                            c_frees <= 1
     "no out-of-bounds access"                   initialised locations = slots below `allocated`
     "dropping the database frees everything"    after ODropDb every cell Freed exactly once
   The parts of the property text that are NOT in this statement are listed in the header. *)
Definition C23_protocol_statement (nt : N) (ql : N -> nat) (ops : list lop) : Prop :=
  let st := lrun (linit nt ql) ops in
  l_err st = false /\
  (forall r, In r (l_refs st) -> r_rev r = l_cur st /\ denotes st r) /\
  (forall c cl, l_cells st c = Some cl -> c_frees cl <= 1 /\ (c_frees cl = 1 <-> c_state cl = Freed)) /\
  (forall j, l_slots st j <> None <->
             exists p k, j = make_id p k /\ p < l_npages st /\ k < l_palloc st p) /\
  (l_dropped st = true ->
     forall c, c < l_ncells st ->
       exists cl, l_cells st c = Some cl /\ c_state cl = Freed /\ c_frees cl = 1).

Theorem C23_no_uaf_partial : forall nt ql, qlen_ok ql -> forall ops,
  let st := lrun (linit nt ql) ops in
  l_err st = false /\
  (forall r, In r (l_refs st) -> r_rev r = l_cur st /\ denotes st r) /\
  (forall ops', Forall (fun o => is_excl o = false) ops' ->
     forall r, In r (l_refs st) ->
       In r (l_refs (lrun st ops')) /\ denotes (lrun st ops') r /\ l_err (lrun st ops') = false) /\
  (forall n r, nth_error (l_refs st) n = Some r ->
     exists x, lstep st (OReadRef n) = (st, LOk (Some x) (Some (r_val r)))).
Proof. exact C23_no_uaf_lemma. Qed.

Check C23_no_uaf_partial : forall nt ql, qlen_ok ql -> forall ops,
  let st := lrun (linit nt ql) ops in
  l_err st = false /\
  (forall r, In r (l_refs st) -> r_rev r = l_cur st /\ denotes st r) /\
  (forall ops', Forall (fun o => is_excl o = false) ops' ->
     forall r, In r (l_refs st) ->
       In r (l_refs (lrun st ops')) /\ denotes (lrun st ops') r /\ l_err (lrun st ops') = false) /\
  (forall n r, nth_error (l_refs st) n = Some r ->
     exists x, lstep st (OReadRef n) = (st, LOk (Some x) (Some (r_val r)))).
Print Assumptions C23_no_uaf_partial.

Theorem C23_no_double_free_partial : forall nt ql, qlen_ok ql -> forall ops c cl,
  l_cells (lrun (linit nt ql) ops) c = Some cl ->
  c_frees cl <= 1 /\ (c_frees cl = 1 <-> c_state cl = Freed).
Proof. exact C23_no_double_free_lemma. Qed.

Check C23_no_double_free_partial : forall nt ql, qlen_ok ql -> forall ops c cl,
  l_cells (lrun (linit nt ql) ops) c = Some cl ->
  c_frees cl <= 1 /\ (c_frees cl = 1 <-> c_state cl = Freed).
Print Assumptions C23_no_double_free_partial.

Theorem C23_drop_frees_partial : forall nt ql, qlen_ok ql -> forall ops,
  let st := lrun (linit nt ql) ops in
  (l_dropped st = false -> l_dropped (fst (lstep st ODropDb)) = true) /\
  (l_dropped st = true ->
     (forall c, c < l_ncells st ->
        exists cl, l_cells st c = Some cl /\ c_state cl = Freed /\ c_frees cl = 1) /\
     (forall j sl, l_slots st j = Some sl -> s_fields sl = None /\ forall f, s_memos sl f = None) /\
     l_deleted st = [] /\ l_refs st = [] /\ l_err st = false).
Proof. exact C23_drop_frees_lemma. Qed.

Check C23_drop_frees_partial : forall nt ql, qlen_ok ql -> forall ops,
  let st := lrun (linit nt ql) ops in
  (l_dropped st = false -> l_dropped (fst (lstep st ODropDb)) = true) /\
  (l_dropped st = true ->
     (forall c, c < l_ncells st ->
        exists cl, l_cells st c = Some cl /\ c_state cl = Freed /\ c_frees cl = 1) /\
     (forall j sl, l_slots st j = Some sl -> s_fields sl = None /\ forall f, s_memos sl f = None) /\
     l_deleted st = [] /\ l_refs st = [] /\ l_err st = false).
Print Assumptions C23_drop_frees_partial.

Theorem C23_in_bounds_partial : forall nt ql, qlen_ok ql -> forall ops,
  let st := lrun (linit nt ql) ops in
  (forall j, l_slots st j <> None <->
             exists p k, j = make_id p k /\ p < l_npages st /\ k < l_palloc st p) /\
  (l_npages st <= MAX_PAGES /\ forall p, l_palloc st p <= PAGE_LEN) /\
  (forall j, l_slots st j <> None -> loc st j = Some j) /\
  (forall i j, loc st i = Some j -> l_slots st j <> None) /\
  (l_dropped st = false ->
     (forall c cl, l_cells st c = Some cl -> c_state cl = Live ->
                   l_slots st (c_slot cl) <> None /\ c_fn cl < l_ntypes st) /\
     (forall g j, In j (l_free st g) -> l_slots st j <> None) /\
     (forall r j, In r (l_refs st) -> r_tgt r = TField j -> l_slots st j <> None)).
Proof. exact C23_in_bounds_lemma. Qed.

Check C23_in_bounds_partial : forall nt ql, qlen_ok ql -> forall ops,
  let st := lrun (linit nt ql) ops in
  (forall j, l_slots st j <> None <->
             exists p k, j = make_id p k /\ p < l_npages st /\ k < l_palloc st p) /\
  (l_npages st <= MAX_PAGES /\ forall p, l_palloc st p <= PAGE_LEN) /\
  (forall j, l_slots st j <> None -> loc st j = Some j) /\
  (forall i j, loc st i = Some j -> l_slots st j <> None) /\
  (l_dropped st = false ->
     (forall c cl, l_cells st c = Some cl -> c_state cl = Live ->
                   l_slots st (c_slot cl) <> None /\ c_fn cl < l_ntypes st) /\
     (forall g j, In j (l_free st g) -> l_slots st j <> None) /\
     (forall r j, In r (l_refs st) -> r_tgt r = TField j -> l_slots st j <> None)).
Print Assumptions C23_in_bounds_partial.

Theorem C23_protocol_partial : forall nt ql, qlen_ok ql -> forall ops,
  C23_protocol_statement nt ql ops.
Proof. exact C23_protocol_lemma. Qed.

Check C23_protocol_partial : forall nt ql, qlen_ok ql -> forall ops,
  C23_protocol_statement nt ql ops.
Print Assumptions C23_protocol_partial.

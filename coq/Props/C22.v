(* Props/C22.v — Panics in user code leave the database consistent and unblocked.
   Statements only.  Single-handle part, Core constructors (bodies with fault-injection
   points [PanicIf]); inputs and writes of every durability (see C01). *)
From Salsa Require Import Base.
From Salsa.Core Require Import Model Spec Inv InvTop DInvTop.

(* For every acyclic program, every history and every setting of the fault switches over
   time (the oracle): each Get either returns the from-scratch value of the current inputs,
   or unwinds with an injected panic -- raised by a fault point in a body, by the user's
   PartialEq during backdating (switch EQ_FAULT) or by the event callback (armed countdown), and
   only while some switch is on / the countdown is armed -- or with the backdate-violation
   assertion.  In particular a Get that panics returns no value, the
   state it leaves is again a good state (the induction goes through it: claims are dropped,
   nothing of the interrupted computation is stored for the interrupted node), and every
   later Get -- in the same revision or a later one -- made while no switch is on returns
   exactly what a fresh database would return. *)
Theorem C22_panic_safe :
  forall (prog : qkey -> body) (noeq : qkey -> bool) (fams : list N)
         (rank : qkey -> nat) (NF : nat),
  calls_below prog rank -> (forall q, (rank q < NF)%nat) ->
  forall fuel, (forall p, (rank p < fuel)%nat) ->
  forall iv idur lru0 ops,
    (forall i, idur i <= 3) -> Forall dur_op ops -> wf_ops false ops ->
    outs_ok prog noeq fams NF fuel (init iv idur lru0) ops.
Proof.
  intros prog noeq fams rank NF Hrank Hbound.
  exact (from_scratch_dur_init prog noeq fams rank Hrank NF Hbound).
Qed.
Check C22_panic_safe :
  forall (prog : qkey -> body) (noeq : qkey -> bool) (fams : list N)
         (rank : qkey -> nat) (NF : nat),
  calls_below prog rank -> (forall q, (rank q < NF)%nat) ->
  forall fuel, (forall p, (rank p < fuel)%nat) ->
  forall iv idur lru0 ops,
    (forall i, idur i <= 3) -> Forall dur_op ops -> wf_ops false ops ->
    outs_ok prog noeq fams NF fuel (init iv idur lru0) ops.
Print Assumptions C22_panic_safe.

(* The sharp form: the only panics that escape a Get are the injected ones (the
   backdate-violation assertion is unreachable, see C01_from_scratch_strict). *)
Theorem C22_panic_safe_strict :
  forall (prog : qkey -> body) (noeq : qkey -> bool) (fams : list N)
         (rank : qkey -> nat) (NF : nat),
  calls_below prog rank -> (forall q, (rank q < NF)%nat) ->
  forall fuel, (forall p, (rank p < fuel)%nat) ->
  forall iv idur lru0 ops,
    (forall i, idur i <= 3) -> Forall dur_op ops -> wf_ops false ops ->
    outs_ok_strict prog noeq fams NF fuel (init iv idur lru0) ops.
Proof.
  intros prog noeq fams rank NF Hrank Hbound.
  exact (from_scratch_dur_strong_init prog noeq fams rank Hrank NF Hbound).
Qed.
Check C22_panic_safe_strict :
  forall (prog : qkey -> body) (noeq : qkey -> bool) (fams : list N)
         (rank : qkey -> nat) (NF : nat),
  calls_below prog rank -> (forall q, (rank q < NF)%nat) ->
  forall fuel, (forall p, (rank p < fuel)%nat) ->
  forall iv idur lru0 ops,
    (forall i, idur i <= 3) -> Forall dur_op ops -> wf_ops false ops ->
    outs_ok_strict prog noeq fams NF fuel (init iv idur lru0) ops.
Print Assumptions C22_panic_safe_strict.

(* the earlier LOW-durability statement, now a corollary *)
Theorem C22_panic_safe_partial :
  forall (prog : qkey -> body) (noeq : qkey -> bool) (fams : list N)
         (rank : qkey -> nat) (NF : nat),
  calls_below prog rank -> (forall q, (rank q < NF)%nat) ->
  forall fuel, (forall p, (rank p < fuel)%nat) ->
  forall iv lru0 ops,
    Forall low_op ops -> wf_ops false ops ->
    outs_ok prog noeq fams NF fuel (init iv (fun _ => 0) lru0) ops.
Proof.
  intros prog noeq fams rank NF Hrank Hbound.
  exact (from_scratch_low_again prog noeq fams rank Hrank NF Hbound).
Qed.
Check C22_panic_safe_partial :
  forall (prog : qkey -> body) (noeq : qkey -> bool) (fams : list N)
         (rank : qkey -> nat) (NF : nat),
  calls_below prog rank -> (forall q, (rank q < NF)%nat) ->
  forall fuel, (forall p, (rank p < fuel)%nat) ->
  forall iv lru0 ops,
    Forall low_op ops -> wf_ops false ops ->
    outs_ok prog noeq fams NF fuel (init iv (fun _ => 0) lru0) ops.
Print Assumptions C22_panic_safe_partial.

(* what [outs_ok] says about one Get, spelled out *)
Theorem C22_get_outcomes : forall prog NF s q r,
  get_ok prog NF s q r ->
  r = Ok (eval prog NF (snap_of s) q) \/
  r = Panic PBackdate \/
  (r = Panic PInjected /\ ((exists c, d_pcell s c <> 0) \/ d_evfault s <> None)).
Proof.
  intros prog NF s q r [H | (p & -> & [-> | [-> Hc]])]; auto.
Qed.
Check C22_get_outcomes : forall prog NF s q r,
  get_ok prog NF s q r ->
  r = Ok (eval prog NF (snap_of s) q) \/
  r = Panic PBackdate \/
  (r = Panic PInjected /\ ((exists c, d_pcell s c <> 0) \/ d_evfault s <> None)).
Print Assumptions C22_get_outcomes.

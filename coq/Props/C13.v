(* Props/C13.v — Fallback cycles return the fallback for exactly the cycle participants.
   Statements only; proofs in Cycle/FallbackProofs.v, witnesses in Cycle/Examples.v.
   NOTE: the history-independence clause of the property is REFUTED for the unchanged crate
   (C13_history_dependent_refuted below, replayed on the implementation by checks/C13.py). *)
From Salsa Require Import Base.
From Salsa.Core Require Import Model Spec.
From Salsa.Cycle Require Import Spec FallbackProofs.
From Salsa.Cycle Require Cert Examples.
From Salsa.Cycle Require FbInv FbThm FbExamples.

(* The graph analysis of the specification computes what it should: [on_cycle g n q] holds
   exactly when a closed walk of at most n + 1 edges of the call graph passes through q. *)
Theorem C13_on_cycle_spec : forall (g : qkey -> list qkey) (n : nat) (q : qkey),
  on_cycle g n q = true <-> exists k, (k <= n)%nat /\ walk g (S k) q q.
Proof. exact on_cycle_spec. Qed.
Check C13_on_cycle_spec : forall (g : qkey -> list qkey) (n : nat) (q : qkey),
  on_cycle g n q = true <-> exists k, (k <= n)%nat /\ walk g (S k) q q.
Print Assumptions C13_on_cycle_spec.

(* [spec_fallback] is well defined: for programs whose call edges depend on inputs only, it does
   not depend on the evaluation fuel.  `_partial`: under a rank witnessing that the call graph
   minus its cyclic nodes is acyclic (it is, by definition of "cyclic node"; that a rank always
   exists is the pigeonhole argument not formalised here). *)
Theorem C13_spec_fallback_wd_partial : forall (prog : qkey -> body) (sn : snapshot) (fb : qkey -> val)
    (ns : list qkey) (rank : qkey -> nat),
  input_determined prog sn ->
  let cyc := fun q => mem q (cyclic_nodes (succs prog sn) ns) in
  (forall q q', cyc q = false -> In q' (succs prog sn q) -> cyc q' = false -> (rank q' < rank q)%nat) ->
  (forall q, (rank q < length ns)%nat) ->
  forall n q, (length ns < n)%nat -> spec_fb prog sn fb cyc n q = spec_fallback prog sn fb ns q.
Proof. exact spec_fallback_wd. Qed.
Check C13_spec_fallback_wd_partial : forall (prog : qkey -> body) (sn : snapshot) (fb : qkey -> val)
    (ns : list qkey) (rank : qkey -> nat),
  input_determined prog sn ->
  let cyc := fun q => mem q (cyclic_nodes (succs prog sn) ns) in
  (forall q q', cyc q = false -> In q' (succs prog sn q) -> cyc q' = false -> (rank q' < rank q)%nat) ->
  (forall q, (rank q < length ns)%nat) ->
  forall n q, (length ns < n)%nat -> spec_fb prog sn fb cyc n q = spec_fallback prog sn fb ns q.
Print Assumptions C13_spec_fallback_wd_partial.

(* The per-run certificate on a state of the executable Cycle model: if every settled memo of a
   cyclic node holds the fallback and every other settled memo re-evaluates to itself over the
   settled memos ([is_fallback_state], decidable, evaluated on every generated run), then every
   settled memo holds spec_fallback — whatever the entry order and history were. *)
Theorem C13_certified_partial : forall (prog : qkey -> body) (fb : qkey -> val) (ns : list qkey)
    (rank : qkey -> nat) (s : Salsa.Cycle.Model.cdb),
  input_determined prog (Cert.csnap_of s) ->
  let cyc := fun q => mem q (cyclic_nodes (succs prog (Cert.csnap_of s)) ns) in
  (forall q q', cyc q = false -> In q' (succs prog (Cert.csnap_of s) q) -> cyc q' = false -> (rank q' < rank q)%nat) ->
  (forall q, (rank q < length ns)%nat) ->
  Cert.is_fallback_state prog fb ns s = true ->
  (forall q v, Cert.final_val s q = Some v -> In q ns) ->
  forall q v, Cert.final_val s q = Some v -> v = spec_fallback prog (Cert.csnap_of s) fb ns q.
Proof.
  intros prog fb ns rank s Hdet cyc Hrank Hb Hcert Hdom.
  exact (certified_fallback prog (Cert.csnap_of s) fb ns rank (Cert.final_val s) Hdet Hrank Hb Hcert Hdom).
Qed.
Check C13_certified_partial : forall (prog : qkey -> body) (fb : qkey -> val) (ns : list qkey)
    (rank : qkey -> nat) (s : Salsa.Cycle.Model.cdb),
  input_determined prog (Cert.csnap_of s) ->
  let cyc := fun q => mem q (cyclic_nodes (succs prog (Cert.csnap_of s)) ns) in
  (forall q q', cyc q = false -> In q' (succs prog (Cert.csnap_of s) q) -> cyc q' = false -> (rank q' < rank q)%nat) ->
  (forall q, (rank q < length ns)%nat) ->
  Cert.is_fallback_state prog fb ns s = true ->
  (forall q v, Cert.final_val s q = Some v -> In q ns) ->
  forall q v, Cert.final_val s q = Some v -> v = spec_fallback prog (Cert.csnap_of s) fb ns q.
Print Assumptions C13_certified_partial.

(* The full statement of the property over the model: every Get returns spec_fallback.  It is
   FALSE of the faithful model (and of the unchanged crate): *)
Definition C13_full_statement : Prop :=
  forall (prog : qkey -> body) (iv : ikey -> val) (ops : list Salsa.Cycle.Model.cop) (ns : list qkey) (q : qkey),
    (forall sn, input_determined prog sn) ->
    let s := Examples.final_of prog iv ops in
    snd (Salsa.Cycle.Model.cstep prog Examples.ex_strat Examples.ex_cinit 12 12 s (Salsa.Cycle.Model.COGet q))
    = Salsa.Cycle.Model.COk (spec_fallback prog (Cert.csnap_of s) Examples.ex_cinit ns q).

(* Refutation witness (replayed on the implementation: identical).  f0 = 4 & (in | f1), f1 = f0,
   both cycle_result = 0xA5.  Enter at f1 (f1 head, f0 participant, both 0xA5; f0's memo stays
   provisional), write an UNRELATED input field, ask for f0: the model — and the crate — return
   4 = 4 & 0xA5, the body's value, although f0 still lies on the cycle; a fresh database returns
   0xA5 from either entry (C13_fresh_either_entry). *)
Theorem C13_history_dependent_refuted :
  exists (prog : qkey -> body) (iv : ikey -> val) (ops : list Salsa.Cycle.Model.cop) (ns : list qkey) (q : qkey),
    Examples.outs_of prog iv ops
      = [Salsa.Cycle.Model.COk 165; Salsa.Cycle.Model.COk 0; Salsa.Cycle.Model.COk 4] /\
    last ops (Salsa.Cycle.Model.COGet q) = Salsa.Cycle.Model.COGet q /\
    spec_fallback prog (Cert.csnap_of (Examples.final_of prog iv ops)) Examples.ex_cinit ns q = 165.
Proof.
  exists Examples.ex13_prog, Examples.ex13_iv, Examples.ex13_hist, Examples.ex13_ns, (3, 0).
  destruct Examples.ex13_refuted_run as [H1 H2]. split; [exact H1 | split; [reflexivity | exact H2]].
Qed.
Check C13_history_dependent_refuted :
  exists (prog : qkey -> body) (iv : ikey -> val) (ops : list Salsa.Cycle.Model.cop) (ns : list qkey) (q : qkey),
    Examples.outs_of prog iv ops
      = [Salsa.Cycle.Model.COk 165; Salsa.Cycle.Model.COk 0; Salsa.Cycle.Model.COk 4] /\
    last ops (Salsa.Cycle.Model.COGet q) = Salsa.Cycle.Model.COGet q /\
    spec_fallback prog (Cert.csnap_of (Examples.final_of prog iv ops)) Examples.ex_cinit ns q = 165.
Print Assumptions C13_history_dependent_refuted.

(* Non-vacuity of the positive part: on a fresh database the same program returns the fallback
   for both members from either entry, the specification agrees, the certificate holds. *)
Example C13_fresh_either_entry :
  Examples.outs_of Examples.ex13_prog Examples.ex13_iv
    [Salsa.Cycle.Model.COGet (3, 0); Salsa.Cycle.Model.COGet (3, 1)]
    = [Salsa.Cycle.Model.COk 165; Salsa.Cycle.Model.COk 165] /\
  Examples.outs_of Examples.ex13_prog Examples.ex13_iv
    [Salsa.Cycle.Model.COGet (3, 1); Salsa.Cycle.Model.COGet (3, 0)]
    = [Salsa.Cycle.Model.COk 165; Salsa.Cycle.Model.COk 165].
Proof. exact Examples.ex13_fresh. Qed.


(* ---------------------------------------------------------------- the fresh revision (stage G1)
   PROVED over the executable Cycle model, for all programs of the following class and all
   snapshots: starting from the initial database (no memos), ANY sequence of Gets (any entry order,
   any subset, repeats) returns [spec_fallback] for every Get — the fallback value for exactly the
   functions on a cycle of the current call graph, the body's value over those for every other
   function; hence never a panic and never out-of-fuel — and the final state passes the decidable
   certificate [is_fallback_state].  Fuel: any [fuel >= length ns], [nodes >= 1]; a cycle head
   iterates at most 5 times (only the metadata durability/untracked can move), independently of the
   number of nodes.  No monotonicity, no bound on the values.
   Class (restriction of this stage, [FbInv.fbring_ok_of] + [input_determined] + [rank]): the call
   graph of the snapshot is input-determined and layered by [lvl]; the only same-level call of a
   node goes to [nxt] of it, [nxt] is injective and its edges are real calls; nodes with a
   same-level call are functions with cycle_result (SFallback).  So every strongly connected
   component is a simple ring of fallback functions, entered at any member; rings at different
   levels may call each other downwards; everything off the rings is acyclic with any strategy
   (fallback functions that are on no cycle return their body's value).  [rank] is the witness of
   C13_spec_fallback_wd_partial that the graph minus its cyclic nodes is acyclic.
   Several cycles through one node / nested heads are NOT covered by this stage. *)
Theorem C13_fresh :
  forall (prog : qkey -> body) (strat : N -> Salsa.Cycle.Model.strategy) (cinit : qkey -> val)
         (iv : ikey -> val) (idur : ikey -> dur) (ns : list qkey)
         (lvl : qkey -> nat) (nxt : qkey -> option qkey) (rank : qkey -> nat)
         (nodes fuel : nat) (qs : list qkey),
  let sn := Cert.csnap_of (Salsa.Cycle.Model.cinit_db iv idur) in
  let cyc := fun q => mem q (cyclic_nodes (succs prog sn) ns) in
  input_determined prog sn ->
  FbInv.fbring_ok_of prog strat sn ns lvl nxt ->
  (forall q q', cyc q = false -> In q' (succs prog sn q) -> cyc q' = false -> (rank q' < rank q)%nat) ->
  (forall q, (rank q < length ns)%nat) ->
  (1 <= nodes)%nat -> (length ns <= fuel)%nat -> (forall q, In q qs -> In q ns) ->
  exists s',
    Salsa.Cycle.Model.crun_ops prog strat cinit nodes fuel (Salsa.Cycle.Model.cinit_db iv idur)
      (map Salsa.Cycle.Model.COGet qs)
      = (s', map (fun q => Salsa.Cycle.Model.COk (spec_fallback prog sn cinit ns q)) qs) /\
    Cert.is_fallback_state prog cinit ns s' = true.
Proof. exact FbThm.fallback_ring. Qed.
Check C13_fresh :
  forall (prog : qkey -> body) (strat : N -> Salsa.Cycle.Model.strategy) (cinit : qkey -> val)
         (iv : ikey -> val) (idur : ikey -> dur) (ns : list qkey)
         (lvl : qkey -> nat) (nxt : qkey -> option qkey) (rank : qkey -> nat)
         (nodes fuel : nat) (qs : list qkey),
  let sn := Cert.csnap_of (Salsa.Cycle.Model.cinit_db iv idur) in
  let cyc := fun q => mem q (cyclic_nodes (succs prog sn) ns) in
  input_determined prog sn ->
  FbInv.fbring_ok_of prog strat sn ns lvl nxt ->
  (forall q q', cyc q = false -> In q' (succs prog sn q) -> cyc q' = false -> (rank q' < rank q)%nat) ->
  (forall q, (rank q < length ns)%nat) ->
  (1 <= nodes)%nat -> (length ns <= fuel)%nat -> (forall q, In q qs -> In q ns) ->
  exists s',
    Salsa.Cycle.Model.crun_ops prog strat cinit nodes fuel (Salsa.Cycle.Model.cinit_db iv idur)
      (map Salsa.Cycle.Model.COGet qs)
      = (s', map (fun q => Salsa.Cycle.Model.COk (spec_fallback prog sn cinit ns q)) qs) /\
    Cert.is_fallback_state prog cinit ns s' = true.
Print Assumptions C13_fresh.

(* NOT PROVED (kept visible): the same statement for arbitrary strongly connected components of
   fallback functions (several cycles through one node, nested heads).  Checked by the fuzzer
   (fresh databases, random programs whose cycles go through fallback functions only, up to 5
   keys per family: 72k reads, 0 mismatches, certificate always true) and by
   [FbExamples.exc_two_cycles]. *)
Definition C13_fresh_full_statement : Prop :=
  forall (prog : qkey -> body) (strat : N -> Salsa.Cycle.Model.strategy) (cinit : qkey -> val)
         (iv : ikey -> val) (idur : ikey -> dur) (ns : list qkey) (rank : qkey -> nat)
         (nodes fuel : nat) (qs : list qkey),
  let sn := Cert.csnap_of (Salsa.Cycle.Model.cinit_db iv idur) in
  let cyc := fun q => mem q (cyclic_nodes (succs prog sn) ns) in
  input_determined prog sn ->
  (forall q d, In q ns -> In d (succs prog sn q) -> In d ns) ->
  (forall q, cyc q = true -> strat (fst q) = Salsa.Cycle.Model.SFallback) ->
  (forall q q', cyc q = false -> In q' (succs prog sn q) -> cyc q' = false -> (rank q' < rank q)%nat) ->
  (forall q, (rank q < length ns)%nat) ->
  (length ns <= nodes)%nat -> (length ns <= fuel)%nat -> (forall q, In q qs -> In q ns) ->
  exists s',
    Salsa.Cycle.Model.crun_ops prog strat cinit nodes fuel (Salsa.Cycle.Model.cinit_db iv idur)
      (map Salsa.Cycle.Model.COGet qs)
      = (s', map (fun q => Salsa.Cycle.Model.COk (spec_fallback prog sn cinit ns q)) qs) /\
    Cert.is_fallback_state prog cinit ns s' = true.

(* Non-vacuity of C13_fresh: a 3-node ring of fallback functions with non-monotone bodies over a
   plain leaf, under a fallback function on no cycle and a plain caller, satisfies every
   hypothesis, for every list of Gets; the ring entered at each member. *)
Example C13_fresh_inhabited : forall (qs : list qkey), (forall q, In q qs -> In q FbExamples.exb_ns) ->
  exists s',
    Salsa.Cycle.Model.crun_ops FbExamples.exb_prog Examples.ex_strat Examples.ex_cinit 6 6
      (Salsa.Cycle.Model.cinit_db FbExamples.exb_iv (fun _ => 0)) (map Salsa.Cycle.Model.COGet qs)
      = (s', map (fun q => Salsa.Cycle.Model.COk
                   (spec_fallback FbExamples.exb_prog FbExamples.exb_sn Examples.ex_cinit FbExamples.exb_ns q)) qs) /\
    Cert.is_fallback_state FbExamples.exb_prog Examples.ex_cinit FbExamples.exb_ns s' = true.
Proof. exact FbExamples.exb_fresh. Qed.
Example C13_fresh_enter_each :
  FbExamples.exb_outs [Salsa.Cycle.Model.COGet (3, 0); Salsa.Cycle.Model.COGet (3, 1); Salsa.Cycle.Model.COGet (3, 2)]
    = [Salsa.Cycle.Model.COk 165; Salsa.Cycle.Model.COk 165; Salsa.Cycle.Model.COk 165] /\
  FbExamples.exb_outs [Salsa.Cycle.Model.COGet (3, 1); Salsa.Cycle.Model.COGet (3, 2); Salsa.Cycle.Model.COGet (3, 0)]
    = [Salsa.Cycle.Model.COk 165; Salsa.Cycle.Model.COk 165; Salsa.Cycle.Model.COk 165] /\
  FbExamples.exb_outs [Salsa.Cycle.Model.COGet (3, 2); Salsa.Cycle.Model.COGet (3, 0); Salsa.Cycle.Model.COGet (3, 1)]
    = [Salsa.Cycle.Model.COk 165; Salsa.Cycle.Model.COk 165; Salsa.Cycle.Model.COk 165] /\
  FbExamples.exb_outs [Salsa.Cycle.Model.COGet (0, 1); Salsa.Cycle.Model.COGet (3, 2); Salsa.Cycle.Model.COGet (3, 3);
                       Salsa.Cycle.Model.COGet (0, 0); Salsa.Cycle.Model.COGet (3, 1)]
    = [Salsa.Cycle.Model.COk 334; Salsa.Cycle.Model.COk 165; Salsa.Cycle.Model.COk 167;
       Salsa.Cycle.Model.COk 7; Salsa.Cycle.Model.COk 165].
Proof. exact FbExamples.exb_enter_each. Qed.

(* Props/C15.v — Non-converging fixpoint iteration ends in a bounded panic.
   Statements only; proofs in Kern/K4_Stamp.v (translated kernel) and Cycle/ModelProofs.v. *)
From Salsa Require Import Base.
From Salsa.gen Require Import Kernels.
From Salsa.Kern Require Import K4_Stamp.
From Salsa.Cycle Require Import StampK Model ModelProofs.
From Salsa.Cycle Require Examples.
From Salsa.Cycle Require EpochInv EpochTop EpochExamples.

(* The translated counter (src/cycle.rs IterationStamp::increment_iteration, MAX_ITERATIONS):
   the increment fails exactly at iteration MAX_ITERATIONS = 200. *)
Theorem C15_increment_kernel : forall s, s < 65536 -> k_stamp_iteration s <= k_MAX_ITERATIONS ->
  (k_stamp_increment_iteration s = None <-> k_stamp_iteration s = k_MAX_ITERATIONS).
Proof. exact k_stamp_increment_none_iff. Qed.
Check C15_increment_kernel : forall s, s < 65536 -> k_stamp_iteration s <= k_MAX_ITERATIONS ->
  (k_stamp_increment_iteration s = None <-> k_stamp_iteration s = k_MAX_ITERATIONS).
Print Assumptions C15_increment_kernel.

(* The fixpoint loop of one `execute` of the Cycle model (execute_maybe_iterate): started at a
   well-formed stamp of epoch c, with the loop's own fuel above MAX_ITERATIONS + 1 - iteration,
   it never reports out-of-fuel unless a trip itself does — i.e. it ends with a value or a panic
   after at most MAX_ITERATIONS + 1 - iteration executions of the body.
   `_partial`: under [same_epoch_rounds], the hypothesis that the heads a trip meets carry
   well-formed stamps of the loop's own cancellation epoch (true on every generated run; not
   proved for all states). *)
Theorem C15_bounded_partial : forall prog strat cinit (n : nat) (L : clower) (q : qkey) (c : N),
  same_epoch_rounds prog strat cinit n L q c ->
  (forall st s, snd (round prog strat cinit n L q st s) <> CFuel) ->
  forall k st s, loop_inv c st -> (trips_left st < k)%nat ->
  snd (iter_loop prog strat cinit k n L q st s) <> CFuel.
Proof. exact loop_bounded. Qed.
Check C15_bounded_partial : forall prog strat cinit (n : nat) (L : clower) (q : qkey) (c : N),
  same_epoch_rounds prog strat cinit n L q c ->
  (forall st s, snd (round prog strat cinit n L q st s) <> CFuel) ->
  forall k st s, loop_inv c st -> (trips_left st < k)%nat ->
  snd (iter_loop prog strat cinit k n L q st s) <> CFuel.
Print Assumptions C15_bounded_partial.

(* Values that never stabilise (every trip says "iterate again") end in the too-many panic. *)
Theorem C15_diverging_panics_partial : forall prog strat cinit (n : nat) (L : clower) (q : qkey) (c : N),
  same_epoch_rounds prog strat cinit n L q c ->
  (forall st s, exists s' hm v rev hs, round prog strat cinit n L q st s = (s', COk (RIterate hm v rev hs))) ->
  forall k st s, loop_inv c st -> (trips_left st < k)%nat ->
  exists s', iter_loop prog strat cinit k n L q st s = (s', CPanic (PB PTooMany)).
Proof. exact loop_diverging_panics. Qed.
Check C15_diverging_panics_partial : forall prog strat cinit (n : nat) (L : clower) (q : qkey) (c : N),
  same_epoch_rounds prog strat cinit n L q c ->
  (forall st s, exists s' hm v rev hs, round prog strat cinit n L q st s = (s', COk (RIterate hm v rev hs))) ->
  forall k st s, loop_inv c st -> (trips_left st < k)%nat ->
  exists s', iter_loop prog strat cinit k n L q st s = (s', CPanic (PB PTooMany)).
Print Assumptions C15_diverging_panics_partial.

(* the fuel the model gives the loop (203) is above the number of trips left from any stamp *)
Theorem C15_loop_fuel : forall st, (trips_left st < LOOP_FUEL)%nat.
Proof. exact loop_fuel_enough. Qed.
Check C15_loop_fuel : forall st, (trips_left st < LOOP_FUEL)%nat.
Print Assumptions C15_loop_fuel.

(* NOT PROVED (kept visible): the statement per Get, without the epoch hypothesis *)
Definition C15_bounded_full_statement : Prop :=
  forall (prog : qkey -> body) strat cinit nodes fuel (s : cdb) q h,
    let s' := fst (cstep prog strat cinit nodes fuel s (COGet q)) in
    (length (filter (key_eqb h) (c_runs s')) - length (filter (key_eqb h) (c_runs s))
     <= S (N.to_nat MAX_ITERATIONS))%nat.

(* Non-vacuity: d0 = if in then 1 + d1 else 7, d1 = in' | d0 never stabilises: too-many panic
   after exactly MAX_ITERATIONS + 1 = 201 executions of the head's body; an unrelated function is
   correct at once; after the input breaks the cycle the same functions return 7. *)
Example C15_model_run :
  Examples.outs_of Examples.ex15_prog Examples.ex14_iv
    [COGet (1, 0); COGet (0, 0); COSet (0, 0) 0 None; COGet (1, 1); COGet (1, 0)]
  = [CPanic (PB PTooMany); COk 2; COk 0; COk 7; COk 7].
Proof. exact Examples.ex15_run. Qed.
Example C15_model_runs :
  Examples.count_runs (1, 0) (Examples.final_of Examples.ex15_prog Examples.ex14_iv [COGet (1, 0)]) = 201%nat.
Proof. exact Examples.ex15_runs. Qed.


(* ---------------------------------------------------------------- without the epoch hypothesis
   FINDING: [same_epoch_rounds c] is too strong when c <> 0.  A trip whose only cycle head is the
   loop's own node reports hm = stamp_default, whose cancellation count is 0, whatever the epoch:
   after one COBump the hypothesis of C15_bounded_partial is false (so that theorem is vacuous
   there, not wrong).  Witness: the two-node cycle of Examples.ex12_prog, node (1,0), epoch 1. *)
Theorem C15_same_epoch_rounds_too_strong :
  ~ same_epoch_rounds Examples.ex12_prog Examples.ex_strat Examples.ex_cinit 12
      (clevel Examples.ex12_prog Examples.ex_strat Examples.ex_cinit 12 12) (1, 0) 1.
Proof. exact EpochExamples.same_epoch_rounds_too_strong. Qed.
Check C15_same_epoch_rounds_too_strong :
  ~ same_epoch_rounds Examples.ex12_prog Examples.ex_strat Examples.ex_cinit 12
      (clevel Examples.ex12_prog Examples.ex_strat Examples.ex_cinit 12 12) (1, 0) 1.
Print Assumptions C15_same_epoch_rounds_too_strong.

(* What IS an invariant of the model — for all programs, strategies and histories (writes,
   cancellation bumps, panics, nested cycles, every fuel) — is [EpochTop.epoch_inv strat s]
   (Cycle/EpochInv.v, [SI]): every memo carries a well-formed stamp; a provisional memo of the
   current revision and cancellation epoch lists only cycle heads whose stamps are well-formed
   stamps of the current epoch and whose own memos are final, poisoned or current.  It holds of
   the initial database, is preserved by every operation, and (by the same induction over the fuel
   levels, for every outcome: value, panic, out-of-fuel) at every intermediate state of a Get. *)
Theorem C15_epoch_reachable : forall prog strat cinit nodes fuel iv idur ops,
  EpochTop.epoch_inv strat (fst (crun_ops prog strat cinit nodes fuel (cinit_db iv idur) ops)).
Proof. exact EpochTop.epoch_inv_reachable. Qed.
Check C15_epoch_reachable : forall prog strat cinit nodes fuel iv idur ops,
  EpochTop.epoch_inv strat (fst (crun_ops prog strat cinit nodes fuel (cinit_db iv idur) ops)).
Print Assumptions C15_epoch_reachable.

Theorem C15_epoch_step : forall prog strat cinit nodes fuel s o,
  EpochTop.epoch_inv strat s -> EpochTop.epoch_inv strat (fst (cstep prog strat cinit nodes fuel s o)).
Proof. exact EpochTop.epoch_inv_step. Qed.
Check C15_epoch_step : forall prog strat cinit nodes fuel s o,
  EpochTop.epoch_inv strat s -> EpochTop.epoch_inv strat (fst (cstep prog strat cinit nodes fuel s o)).
Print Assumptions C15_epoch_step.

(* C15_bounded, no epoch hypothesis: from any state satisfying the invariant, the fixpoint loop
   of a recovering node, run against the model's own lower levels, with its own fuel above
   MAX_ITERATIONS + 1 - iteration, never reports out-of-fuel unless a trip (started in an
   invariant state) does: at most MAX_ITERATIONS + 1 - iteration executions of the body. *)
Theorem C15_bounded : forall prog strat cinit nodes fuel q,
  recovers (strat_of strat q) = true ->
  (forall ls1 s1, EpochTop.epoch_inv strat s1 ->
     snd (round prog strat cinit nodes (clevel prog strat cinit nodes fuel) q ls1 s1) <> CFuel) ->
  forall k ls s, EpochTop.epoch_inv strat s -> loop_inv (c_ccount s) ls -> (trips_left ls < k)%nat ->
  snd (iter_loop prog strat cinit k nodes (clevel prog strat cinit nodes fuel) q ls s) <> CFuel.
Proof. exact EpochTop.epoch_loop_bounded. Qed.
Check C15_bounded : forall prog strat cinit nodes fuel q,
  recovers (strat_of strat q) = true ->
  (forall ls1 s1, EpochTop.epoch_inv strat s1 ->
     snd (round prog strat cinit nodes (clevel prog strat cinit nodes fuel) q ls1 s1) <> CFuel) ->
  forall k ls s, EpochTop.epoch_inv strat s -> loop_inv (c_ccount s) ls -> (trips_left ls < k)%nat ->
  snd (iter_loop prog strat cinit k nodes (clevel prog strat cinit nodes fuel) q ls s) <> CFuel.
Print Assumptions C15_bounded.

Theorem C15_diverging_panics : forall prog strat cinit nodes fuel q,
  recovers (strat_of strat q) = true ->
  (forall ls1 s1, EpochTop.epoch_inv strat s1 -> exists s' hm v rv hs,
     round prog strat cinit nodes (clevel prog strat cinit nodes fuel) q ls1 s1 = (s', COk (RIterate hm v rv hs))) ->
  forall k ls s, EpochTop.epoch_inv strat s -> loop_inv (c_ccount s) ls -> (trips_left ls < k)%nat ->
  exists s', iter_loop prog strat cinit k nodes (clevel prog strat cinit nodes fuel) q ls s = (s', CPanic (PB PTooMany)).
Proof. exact EpochTop.epoch_loop_diverging. Qed.
Check C15_diverging_panics : forall prog strat cinit nodes fuel q,
  recovers (strat_of strat q) = true ->
  (forall ls1 s1, EpochTop.epoch_inv strat s1 -> exists s' hm v rv hs,
     round prog strat cinit nodes (clevel prog strat cinit nodes fuel) q ls1 s1 = (s', COk (RIterate hm v rv hs))) ->
  forall k ls s, EpochTop.epoch_inv strat s -> loop_inv (c_ccount s) ls -> (trips_left ls < k)%nat ->
  exists s', iter_loop prog strat cinit k nodes (clevel prog strat cinit nodes fuel) q ls s = (s', CPanic (PB PTooMany)).
Print Assumptions C15_diverging_panics.

(* execute is the only place a loop is started: from an invariant state, with the memo it is
   handed (none, or the table's), and with the model's LOOP_FUEL, it never reports out-of-fuel
   unless a trip does *)
Theorem C15_execute_bounded : forall prog strat cinit nodes fuel q old s,
  recovers (strat_of strat q) = true ->
  EpochTop.epoch_inv strat s -> (old = None \/ old = c_memo s q) ->
  (forall ls1 s1, EpochTop.epoch_inv strat s1 ->
     snd (round prog strat cinit nodes (clevel prog strat cinit nodes fuel) q ls1 s1) <> CFuel) ->
  snd (execute_iterate prog strat cinit nodes (clevel prog strat cinit nodes fuel) q old s) <> CFuel.
Proof. exact EpochTop.epoch_execute_bounded. Qed.
Check C15_execute_bounded : forall prog strat cinit nodes fuel q old s,
  recovers (strat_of strat q) = true ->
  EpochTop.epoch_inv strat s -> (old = None \/ old = c_memo s q) ->
  (forall ls1 s1, EpochTop.epoch_inv strat s1 ->
     snd (round prog strat cinit nodes (clevel prog strat cinit nodes fuel) q ls1 s1) <> CFuel) ->
  snd (execute_iterate prog strat cinit nodes (clevel prog strat cinit nodes fuel) q old s) <> CFuel.
Print Assumptions C15_execute_bounded.

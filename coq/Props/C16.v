(* Props/C16.v — C16 "Concurrent readers observe sequential results without deadlock".

   Model: CFetch/Model.v (see its header for the Rust lines each step stands for) over
   Proto/Model.v.  Proofs: CFetch/ProofsSafe.v, ProofsLive.v, ProofsTop.v.  Statements only.

   WHAT IS PROVED HERE, for every interleaving of any number of handles:
   * [C16_values]: every value any request returns is [p_val P r k], the from-scratch value of
     the key in the revision of the request — and ([C16_values_from_verified_memo]) at the moment
     of the return it is the value of a memo verified in the current revision.
   * for rank-respecting (acyclic) programs: try_claim never answers Cycle
     ([C16_never_cycle]); a handle only waits for a key of smaller rank than the keys it holds
     ([C16_waits_below]); the protocol component is a reachable Proto state, so all of C19
     applies, in particular the wait graph is acyclic and grounded ([C16_wait_graph_grounded]);
     as long as some handle is unfinished some handle can take a step ([C16_no_deadlock]); every
     blocked handle has a releaser that knows about it and the release wakes all waiters
     ([C16_no_lost_wakeup]).
   WHAT CFetch ASSUMES (the guards of DESIGN §7 C16), made visible as
   [C16_guards_by_construction]: its only writes to the memo table store a memo verified in the
   current revision with the from-scratch value; insert_memo is done by the claim holder.
   STAGE 2 (second half of this file) DISCHARGES that assumption over the refined model CFetch2,
   which COMPUTES what it stores from the values its callees returned and from computed
   dependency / input-stamp checks ([C16_values_computed], [C16_memo_writes_sound],
   [C16_computed_refines_abstract]) — for static call lists and LOW durabilities; and proves
   termination with an explicit bound ([C16_termination], [C16_run_bounded], [C16_completes],
   composed: [C16_sequential_results_no_deadlock_terminates]).
   WHAT IS STILL NOT PROVED: that the real fetch_cold / deep_verify_memo decompose into exactly
   these atomic steps (tie: H2 trace replay + shuttle exploration, checks/C16.py); dynamic call
   lists and the durability short-cut under interference; atomics orderings; condvars. *)
From Salsa Require Import Base.
From Salsa.Proto Require Import Model ProofsGraph ProofsInv ProofsStep.
From Salsa.CFetch Require Import Model ProofsProto ProofsRel ProofsSafe ProofsLive ProofsTop Examples
  ProofsTerm ExamplesTerm.
From Salsa.CFetch2 Require Model ProofsEq ProofsRel ProofsVal ProofsSim ProofsTop Examples.
Import Salsa.CFetch2.Model Salsa.CFetch2.ProofsEq Salsa.CFetch2.ProofsRel Salsa.CFetch2.ProofsVal
  Salsa.CFetch2.ProofsSim Salsa.CFetch2.ProofsTop Salsa.CFetch2.Examples.

(* ---- values ---- *)
Theorem C16_values :
  forall fuel P s, creach fuel P s ->
  forall t k r v, In (ERet t k r v) (c_log s) -> v = p_val P r k.
Proof. exact returned_values. Qed.

Check C16_values :
  forall fuel P s, creach fuel P s ->
  forall t k r v, In (ERet t k r v) (c_log s) -> v = p_val P r k.
Print Assumptions C16_values.

Example C16_values_witness :
  creach 10 ex_prog ex_state1 /\
  c_log ex_state1 = [ERet 2 2 1 21; ERet 1 2 1 21; ERet 1 1 1 11; EExec 1 1 1; EExec 1 2 1].
Proof. exact (conj ex_state1_reachable ex_round1_log_only). Qed.

Theorem C16_values_from_verified_memo :
  forall fuel P s t c s' t1 k1 r1 v1,
  creach fuel P s -> tstep fuel P s t c = Some s' -> c_log s' = ERet t1 k1 r1 v1 :: c_log s ->
  t1 = t /\ r1 = c_cur s' /\
  exists m, c_memo s' k1 = Some m /\ m_ver m = c_cur s' /\ m_val m = v1 /\ v1 = p_val P r1 k1.
Proof. exact returned_from_verified_memo. Qed.

Check C16_values_from_verified_memo :
  forall fuel P s t c s' t1 k1 r1 v1,
  creach fuel P s -> tstep fuel P s t c = Some s' -> c_log s' = ERet t1 k1 r1 v1 :: c_log s ->
  t1 = t /\ r1 = c_cur s' /\
  exists m, c_memo s' k1 = Some m /\ m_ver m = c_cur s' /\ m_val m = v1 /\ v1 = p_val P r1 k1.
Print Assumptions C16_values_from_verified_memo.

(* the assumption, as a fact about the model: what every memo-table write looks like *)
Theorem C16_guards_by_construction :
  forall fuel P s t c s' k1 m1,
  creach fuel P s -> tstep fuel P s t c = Some s' ->
  c_memo s' k1 = Some m1 -> c_memo s k1 <> Some m1 ->
  m_ver m1 = c_cur s /\ m_val m1 = p_val P (c_cur s) k1 /\
  ((exists m, c_memo s k1 = Some m /\ m_val m1 = m_val m /\ m_deps m1 = m_deps m) \/
   (exists st, sync (c_proto s) k1 = Some st /\ ss_id st = OThread t)).
Proof. exact guards_by_construction. Qed.

Check C16_guards_by_construction :
  forall fuel P s t c s' k1 m1,
  creach fuel P s -> tstep fuel P s t c = Some s' ->
  c_memo s' k1 = Some m1 -> c_memo s k1 <> Some m1 ->
  m_ver m1 = c_cur s /\ m_val m1 = p_val P (c_cur s) k1 /\
  ((exists m, c_memo s k1 = Some m /\ m_val m1 = m_val m /\ m_deps m1 = m_deps m) \/
   (exists st, sync (c_proto s) k1 = Some st /\ ss_id st = OThread t)).
Print Assumptions C16_guards_by_construction.

(* ---- no deadlock, rank-respecting programs ---- *)
Theorem C16_never_cycle :
  forall fuel P rank s t, ranked P rank -> creach fuel P s -> th_cycle (c_thr s t) = false.
Proof. exact never_cycle. Qed.

Check C16_never_cycle :
  forall fuel P rank s t, ranked P rank -> creach fuel P s -> th_cycle (c_thr s t) = false.
Print Assumptions C16_never_cycle.

Example C16_ranked_witness : ranked ex_prog ex_rank /\ creach 10 ex_prog ex_blocked.
Proof. exact (conj ex_ranked ex_blocked_reachable). Qed.

Theorem C16_waits_below :
  forall fuel P rank s t u k f, ranked P rank -> creach fuel P s ->
  edges (dg (c_proto s)) t = Some (u, k) ->
  In f (stack_of s t) -> holding (f_phase f) = true -> (rank k < rank (f_key f))%nat.
Proof. exact waits_below. Qed.

Check C16_waits_below :
  forall fuel P rank s t u k f, ranked P rank -> creach fuel P s ->
  edges (dg (c_proto s)) t = Some (u, k) ->
  In f (stack_of s t) -> holding (f_phase f) = true -> (rank k < rank (f_key f))%nat.
Print Assumptions C16_waits_below.

(* the connection to C19: the protocol component is a reachable state of the Proto model *)
Theorem C16_protocol_state_reachable :
  forall fuel P rank s, ranked P rank -> creach fuel P s -> reachable fuel (c_proto s).
Proof. exact proto_reachable. Qed.

Check C16_protocol_state_reachable :
  forall fuel P rank s, ranked P rank -> creach fuel P s -> reachable fuel (c_proto s).
Print Assumptions C16_protocol_state_reachable.

Theorem C16_wait_graph_grounded :
  forall fuel P rank s, ranked P rank -> creach fuel P s ->
  (forall t u k, edges (dg (c_proto s)) t = Some (u, k) ->
     ~ reaches (eproj (dg (c_proto s))) u t) /\
  (forall t, exists r, reaches (eproj (dg (c_proto s))) t r /\ edges (dg (c_proto s)) r = None).
Proof. exact wait_graph_grounded. Qed.

Check C16_wait_graph_grounded :
  forall fuel P rank s, ranked P rank -> creach fuel P s ->
  (forall t u k, edges (dg (c_proto s)) t = Some (u, k) ->
     ~ reaches (eproj (dg (c_proto s))) u t) /\
  (forall t, exists r, reaches (eproj (dg (c_proto s))) t r /\ edges (dg (c_proto s)) r = None).
Print Assumptions C16_wait_graph_grounded.

(* [fuel] bounds the walk of Edges::depends_on; more handles than fuel would make the MODEL's
   depends_on give up, which is not a behaviour of the Rust loop *)
Theorem C16_no_deadlock :
  forall fuel P rank s, ranked P rank -> creach fuel P s -> (length (c_tids s) < fuel)%nat ->
  (exists t, In t (c_tids s) /\ doneb (c_thr s t) = false) ->
  exists t c s', In t (c_tids s) /\ tstep fuel P s t c = Some s'.
Proof. exact some_thread_can_step. Qed.

Check C16_no_deadlock :
  forall fuel P rank s, ranked P rank -> creach fuel P s -> (length (c_tids s) < fuel)%nat ->
  (exists t, In t (c_tids s) /\ doneb (c_thr s t) = false) ->
  exists t c s', In t (c_tids s) /\ tstep fuel P s t c = Some s'.
Print Assumptions C16_no_deadlock.

(* in the blocked state of the witness run handle 2 cannot step, handle 1 can *)
Example C16_no_deadlock_witness :
  creach 10 ex_prog ex_blocked /\ (length (c_tids ex_blocked) < 10)%nat /\
  (match tstep 10 ex_prog ex_blocked 1 true with Some _ => true | None => false end,
   match tstep 10 ex_prog ex_blocked 2 true with Some _ => true | None => false end) = (true, false).
Proof. exact (conj ex_blocked_reachable (conj ex_blocked_tids ex_blocked_progress)). Qed.

(* no lost wake-up: whoever is blocked sits in a PWait frame for the key; the key's holder has
   anyone_waiting set (so its release will unblock) or has already removed its claim and is
   about to unblock; and that unblock step wakes every waiter of the key with Completed *)
Theorem C16_no_lost_wakeup :
  forall fuel P rank s, ranked P rank -> creach fuel P s ->
  (forall x u k, edges (dg (c_proto s)) x = Some (u, k) ->
     (exists below, stack_of s x = (k @: PWait) :: below) /\
     ((exists st f, sync (c_proto s) k = Some st /\ ss_id st = OThread u /\
                    ss_waiting st = true /\
                    In f (stack_of s u) /\ f_key f = k /\ holding (f_phase f) = true) \/
      (exists v below, stack_of s u = (k @: PUnblock v) :: below))) /\
  (forall t c s' k1 v1 below1,
     stack_of s t = (k1 @: PUnblock v1) :: below1 -> tstep fuel P s t c = Some s' ->
     forall x u, edges (dg (c_proto s)) x = Some (u, k1) ->
       edges (dg (c_proto s')) x = None /\ wres (dg (c_proto s')) x = Some Completed).
Proof.
  exact (fun fuel P rank s RK HR =>
    conj (fun x u k => blocked_has_releaser fuel P rank s x u k RK HR)
         (fun t c s' k1 v1 below1 => unblock_wakes_all_waiters fuel P rank s t c s' k1 v1 below1 RK HR)).
Qed.

Check C16_no_lost_wakeup :
  forall fuel P rank s, ranked P rank -> creach fuel P s ->
  (forall x u k, edges (dg (c_proto s)) x = Some (u, k) ->
     (exists below, stack_of s x = (k @: PWait) :: below) /\
     ((exists st f, sync (c_proto s) k = Some st /\ ss_id st = OThread u /\
                    ss_waiting st = true /\
                    In f (stack_of s u) /\ f_key f = k /\ holding (f_phase f) = true) \/
      (exists v below, stack_of s u = (k @: PUnblock v) :: below))) /\
  (forall t c s' k1 v1 below1,
     stack_of s t = (k1 @: PUnblock v1) :: below1 -> tstep fuel P s t c = Some s' ->
     forall x u, edges (dg (c_proto s)) x = Some (u, k1) ->
       edges (dg (c_proto s')) x = None /\ wres (dg (c_proto s')) x = Some Completed).
Print Assumptions C16_no_lost_wakeup.

(* the termination statement stage 1 kept visible as not proved; PROVED below as
   [C16_termination] (with the explicit bound [Phi], see [C16_run_bounded]) *)
Definition C16_termination_full_statement : Prop :=
  forall fuel P rank s, ranked P rank -> creach fuel P s -> (length (c_tids s) < fuel)%nat ->
  exists n, forall l s', grun fuel P l s = Some s' ->
    (forall o, In o l -> exists t c, o = GStep t c) -> (length l <= n)%nat.

(* ====================================================================================== *)
(* STAGE 2 — the two gaps named above, closed                                               *)
(* ====================================================================================== *)

(* ---- (1) termination: a measure that every thread step lowers (CFetch/ProofsTerm.v) ----

   [Phi P rank s] is computed from the program, the memo table, the stacks and the outstanding
   requests: a request for a key costs 1 if its memo is verified in the current revision, else
   8 + the walks over the edges of its stale memo and over the calls of an execution (1 + the
   cost of the callee per edge, recursion on the rank); a frame weighs what is left of that in
   its phase; a handle weighs its frames + (1 + cost) per outstanding request.  No fairness is
   needed: a blocked handle has no step, every step that exists lowers [Phi].  A waiter does not
   loop because whoever is woken finds the memo verified.  [GBump] (a new revision) is not a
   thread step: the bound is per revision / per segment between two bumps or spawns. *)
Theorem C16_step_decreases_measure :
  forall fuel P rank s t c s',
  ranked P rank -> creach fuel P s -> tstep fuel P s t c = Some s' ->
  (Phi P rank s' < Phi P rank s)%nat.
Proof. exact step_decreases. Qed.

Check C16_step_decreases_measure :
  forall fuel P rank s t c s',
  ranked P rank -> creach fuel P s -> tstep fuel P s t c = Some s' ->
  (Phi P rank s' < Phi P rank s)%nat.
Print Assumptions C16_step_decreases_measure.

(* the explicit bound: any schedule of thread steps from [s] has at most [Phi P rank s] steps *)
Theorem C16_run_bounded :
  forall fuel P rank l s s',
  ranked P rank -> creach fuel P s -> Forall is_gstep l -> grun fuel P l s = Some s' ->
  (length l + Phi P rank s' <= Phi P rank s)%nat.
Proof. exact run_bounded. Qed.

Check C16_run_bounded :
  forall fuel P rank l s s',
  ranked P rank -> creach fuel P s -> Forall is_gstep l -> grun fuel P l s = Some s' ->
  (length l + Phi P rank s' <= Phi P rank s)%nat.
Print Assumptions C16_run_bounded.

(* the statement that stage 1 kept visible as "not proved" *)
Theorem C16_termination : C16_termination_full_statement.
Proof. exact terminates_stmt. Qed.

Check C16_termination : C16_termination_full_statement.
Print Assumptions C16_termination.

(* with deadlock freedom: the handles can always be run to completion within the bound, and a
   schedule that cannot be extended has answered every request *)
Theorem C16_completes :
  forall fuel P rank s,
  ranked P rank -> creach fuel P s -> (length (c_tids s) < fuel)%nat ->
  exists l s', Forall is_gstep l /\ grun fuel P l s = Some s' /\ (length l <= Phi P rank s)%nat /\
               forall t, In t (c_tids s') -> doneb (c_thr s' t) = true.
Proof. exact completes. Qed.

Check C16_completes :
  forall fuel P rank s,
  ranked P rank -> creach fuel P s -> (length (c_tids s) < fuel)%nat ->
  exists l s', Forall is_gstep l /\ grun fuel P l s = Some s' /\ (length l <= Phi P rank s)%nat /\
               forall t, In t (c_tids s') -> doneb (c_thr s' t) = true.
Print Assumptions C16_completes.

Theorem C16_maximal_runs_end_done :
  forall fuel P rank s,
  ranked P rank -> creach fuel P s -> (length (c_tids s) < fuel)%nat ->
  (forall t c, In t (c_tids s) -> tstep fuel P s t c = None) ->
  forall t, In t (c_tids s) -> doneb (c_thr s t) = true.
Proof. exact stuck_is_done. Qed.

Check C16_maximal_runs_end_done :
  forall fuel P rank s,
  ranked P rank -> creach fuel P s -> (length (c_tids s) < fuel)%nat ->
  (forall t c, In t (c_tids s) -> tstep fuel P s t c = None) ->
  forall t, In t (c_tids s) -> doneb (c_thr s t) = true.
Print Assumptions C16_maximal_runs_end_done.

(* the witness run: budget 36, the schedule with a waiter takes 18 steps, 13 left in the blocked
   state, 0 at the end *)
Example C16_termination_witness :
  creach 10 ex_prog ex_spawned /\ ranked ex_prog ex_rank /\
  (Forall is_gstep ex_round1_steps /\ grun 10 ex_prog ex_round1_steps ex_spawned = Some ex_state1) /\
  (Phi ex_prog ex_rank ex_spawned, length ex_round1_steps, Phi ex_prog ex_rank ex_blocked,
   Phi ex_prog ex_rank ex_state1) = (36, 18, 13, 0)%nat.
Proof. exact (conj ex_spawned_reachable (conj ex_ranked (conj ex_round1_run ex_measure))). Qed.

(* ---- (2) the guards under interference: CFetch2 computes what it stores ----

   CFetch2/Model.v has the same protocol skeleton, but insert_memo stores
   [q_body k (input values) (the values the callee frames RETURNED)] with a backdated
   changed_at, and mark_as_verified fires only after the walk saw every recorded dependency
   verified now with changed_at <= the memo's verified_at and every input stamp <= it — computed,
   not assumed.  CFetch2/ProofsVal.v proves (rely/guarantee: a memo verified in the current
   revision is never rewritten in it; returned pairs are those of memos verified now; induction
   on the rank through [E_unfold]) that both writes store the from-scratch value
   [E Q rank cur k]; CFetch2/ProofsSim.v turns that into a step-by-step refinement of CFetch with
   [p_val := E], so every theorem above transfers.  Hypotheses: calls descend along a rank
   ([ranked2]); input stamps are honest ([stamps_ok]: the value did not change since the stamp, and a stamp
   is not above the revision it is read in).
   Fragment: static call lists, no durability short-cut (LOW durabilities, as C01). *)
Theorem C16_values_computed :
  forall fuel Q rank s2,
  ranked2 Q rank -> stamps_ok Q -> creach2 fuel Q s2 ->
  forall t k r v, In (ERet t k r v) (c2_log s2) -> v = E Q rank r k.
Proof. exact values_computed. Qed.

Check C16_values_computed :
  forall fuel Q rank s2,
  ranked2 Q rank -> stamps_ok Q -> creach2 fuel Q s2 ->
  forall t k r v, In (ERet t k r v) (c2_log s2) -> v = E Q rank r k.
Print Assumptions C16_values_computed.

(* every memo of every reachable state carries the from-scratch value of the revision it was
   last verified in: what publish computed and what mark_verified kept *)
Theorem C16_memo_writes_sound :
  forall fuel Q rank s2 k m,
  ranked2 Q rank -> stamps_ok Q -> creach2 fuel Q s2 -> c2_memo s2 k = Some m ->
  E Q rank (n_ver m) k = n_val m /\ n_ver m <= c2_cur s2 /\ n_chg m <= n_ver m.
Proof. exact memo_sound. Qed.

Check C16_memo_writes_sound :
  forall fuel Q rank s2 k m,
  ranked2 Q rank -> stamps_ok Q -> creach2 fuel Q s2 -> c2_memo s2 k = Some m ->
  E Q rank (n_ver m) k = n_val m /\ n_ver m <= c2_cur s2 /\ n_chg m <= n_ver m.
Print Assumptions C16_memo_writes_sound.

(* the refinement: a reachable CFetch2 state abstracts to a reachable CFetch state of the
   program [absP Q rank] (same call lists, p_val := from-scratch value), up to pointwise
   equality of the function components *)
Theorem C16_computed_refines_abstract :
  forall fuel Q rank s2,
  ranked2 Q rank -> stamps_ok Q -> creach2 fuel Q s2 ->
  exists s, creach fuel (absP Q rank) s /\ ceq s (abs s2).
Proof. exact refines_abstract. Qed.

Check C16_computed_refines_abstract :
  forall fuel Q rank s2,
  ranked2 Q rank -> stamps_ok Q -> creach2 fuel Q s2 ->
  exists s, creach fuel (absP Q rank) s /\ ceq s (abs s2).
Print Assumptions C16_computed_refines_abstract.

Theorem C16_once_computed :
  forall fuel Q rank s2,
  ranked2 Q rank -> stamps_ok Q -> creach2 fuel Q s2 ->
  forall k r, (count_exec k r (c2_log s2) <= 1)%nat.
Proof. exact once_computed. Qed.

Check C16_once_computed :
  forall fuel Q rank s2,
  ranked2 Q rank -> stamps_ok Q -> creach2 fuel Q s2 ->
  forall k r, (count_exec k r (c2_log s2) <= 1)%nat.
Print Assumptions C16_once_computed.

(* ---- composed ---- *)
Theorem C16_sequential_results_no_deadlock_terminates :
  forall fuel Q rank s2,
  ranked2 Q rank -> stamps_ok Q -> creach2 fuel Q s2 -> (length (c2_tids s2) < fuel)%nat ->
  (forall t k r v, In (ERet t k r v) (c2_log s2) -> v = E Q rank r k) /\
  (forall l s2', Forall is_gstep l -> grun2 fuel Q l s2 = Some s2' ->
     (length l + Phi2 Q rank s2' <= Phi2 Q rank s2)%nat) /\
  (forall l s2', Forall is_gstep l -> grun2 fuel Q l s2 = Some s2' ->
     (forall t c, In t (c2_tids s2') -> tstep2 fuel Q s2' t c = None) ->
     (forall t, In t (c2_tids s2') -> doneb2 (c2_thr s2' t) = true) /\
     (forall t k r v, In (ERet t k r v) (c2_log s2') -> v = E Q rank r k)) /\
  (exists l s2', Forall is_gstep l /\ grun2 fuel Q l s2 = Some s2' /\
     (length l <= Phi2 Q rank s2)%nat /\
     forall t, In t (c2_tids s2') -> doneb2 (c2_thr s2' t) = true).
Proof. exact sequential_results_no_deadlock_terminates. Qed.

Check C16_sequential_results_no_deadlock_terminates :
  forall fuel Q rank s2,
  ranked2 Q rank -> stamps_ok Q -> creach2 fuel Q s2 -> (length (c2_tids s2) < fuel)%nat ->
  (forall t k r v, In (ERet t k r v) (c2_log s2) -> v = E Q rank r k) /\
  (forall l s2', Forall is_gstep l -> grun2 fuel Q l s2 = Some s2' ->
     (length l + Phi2 Q rank s2' <= Phi2 Q rank s2)%nat) /\
  (forall l s2', Forall is_gstep l -> grun2 fuel Q l s2 = Some s2' ->
     (forall t c, In t (c2_tids s2') -> tstep2 fuel Q s2' t c = None) ->
     (forall t, In t (c2_tids s2') -> doneb2 (c2_thr s2' t) = true) /\
     (forall t k r v, In (ERet t k r v) (c2_log s2') -> v = E Q rank r k)) /\
  (exists l s2', Forall is_gstep l /\ grun2 fuel Q l s2 = Some s2' /\
     (length l <= Phi2 Q rank s2)%nat /\
     forall t, In t (c2_tids s2') -> doneb2 (c2_thr s2' t) = true).
Print Assumptions C16_sequential_results_no_deadlock_terminates.

(* three handles, shared sub-query, everybody waits once; two revisions: a successful
   verification (mark), a re-execution forced by an input stamp, a re-execution forced by a
   changed callee; budgets 90 / 90, schedules of 36 / 30 steps, all handles done *)
Example C16_computed_witness :
  ranked2 ex2_prog ex2_rank /\ stamps_ok ex2_prog /\
  creach2 10 ex2_prog ex2_start1 /\ creach2 10 ex2_prog ex2_final /\
  (Forall is_gstep ex2_sched1 /\ grun2 10 ex2_prog ex2_sched1 ex2_start1 = Some ex2_end1 /\
   (length (c2_tids ex2_start1) < 10)%nat) /\
  (c2_log ex2_end1, notified (dg (c2_proto ex2_end1)),
   forallb (fun t => doneb2 (c2_thr ex2_end1 t)) (c2_tids ex2_end1)) =
  ([ERet 2 3 1 17; ERet 1 3 1 17; ERet 1 2 1 12; ERet 3 2 1 12; ERet 3 1 1 5; ERet 1 1 1 5;
    EExec 1 1 1; EExec 3 2 1; EExec 1 3 1],
   [(2, Completed); (1, Completed); (3, Completed)], true) /\
  (firstn 10 (c2_log ex2_final),
   (c2_memo ex2_final 1, c2_memo ex2_final 2, c2_memo ex2_final 3),
   forallb (fun t => doneb2 (c2_thr ex2_final t)) (c2_tids ex2_final)) =
  ([ERet 1 3 2 19; ERet 1 2 2 14; ERet 1 1 2 5; EExec 1 3 2; ERet 1 2 2 14; ERet 1 1 2 5;
    EExec 1 2 2; ERet 1 1 2 5; ERet 2 1 2 5; ERet 1 1 2 5],
   (Some (mkM2 2 5 1 []), Some (mkM2 2 14 2 [1]), Some (mkM2 2 19 2 [1; 2])), true) /\
  (map (E ex2_prog ex2_rank 1) [1; 2; 3], map (E ex2_prog ex2_rank 2) [1; 2; 3]) =
  ([5; 12; 17], [5; 14; 19]) /\
  (Phi2 ex2_prog ex2_rank ex2_start1, length ex2_sched1, Phi2 ex2_prog ex2_rank ex2_end1,
   Phi2 ex2_prog ex2_rank ex2_mid, length ex2_sched2, Phi2 ex2_prog ex2_rank ex2_final) =
  (90, 36, 0, 90, 30, 0)%nat.
Proof.
  exact (conj ex2_ranked (conj ex2_stamps (conj ex2_start1_reachable (conj ex2_final_reachable
        (conj ex2_sched1_run (conj ex2_round1 (conj ex2_round2 (conj ex2_spec ex2_bound)))))))).
Qed.

(* ============================================================================================ *)
(* STAGE 4: DYNAMIC CALL LISTS — the model CFetchD (CFetchD/Model.v): a body is a resumable
   computation ([BRet] / [BIn] / [BCall]: keys computed from values, branches, a callee called
   twice, bodies that read nothing); the recorded dependency list is the dynamic trace (inputs
   and calls interleaved, no repetition, reads of never-changing durability not recorded — as
   ActiveQuery::add_read); deep verification walks it; durabilities and the durability short-cut
   are in the model behind the switch [sc].
   PROVED here (model without the short-cut, [sc = false]; no input of never-changing
   durability): every returned value and every memo is the from-scratch value
   ([C16_values_computed_dyn], [C16_memo_writes_sound_dyn]); the recorded edges of a memo
   determine its value, which is what makes mark_verified after a walk sound
   ([C16_recorded_edges_determine_dyn]); claims are exclusive, for both settings of the switch
   ([C16_claims_exclusive_dyn], directly from Proto).
   NOT PROVED for CFetchD (stated below as [..._full_statement], no proof): the refinement to
   CFetch (CFetch's insert_memo stores the call list it executed; CFetchD's recorded list is
   shorter — repeated and never-changing callees — so CFetch needs a separate recorded list
   first), hence no-deadlock and termination; the value theorem WITH the short-cut.  The trace
   replay (checks/C16.py) runs the model with the short-cut on and reports the runs in which it
   fires separately. *)
From Salsa.CFetchD Require Model ProofsRel ProofsSync ProofsVal ProofsTop Examples.
Import Salsa.CFetchD.Model Salsa.CFetchD.ProofsSync Salsa.CFetchD.ProofsVal Salsa.CFetchD.ProofsTop
  Salsa.CFetchD.Examples.

Theorem C16_values_computed_dyn :
  forall fuel Q rank s t k r v,
  Salsa.CFetchD.ProofsRel.rankedD Q rank -> Salsa.CFetchD.ProofsRel.stampsD_ok Q -> no_never Q ->
  creachD fuel Q false s ->
  In (ERet t k r v) (cD_log s) -> v = ED Q rank r k.
Proof. exact values_computedD. Qed.

Check C16_values_computed_dyn :
  forall fuel Q rank s t k r v,
  Salsa.CFetchD.ProofsRel.rankedD Q rank -> Salsa.CFetchD.ProofsRel.stampsD_ok Q -> no_never Q ->
  creachD fuel Q false s ->
  In (ERet t k r v) (cD_log s) -> v = ED Q rank r k.
Print Assumptions C16_values_computed_dyn.

Theorem C16_memo_writes_sound_dyn :
  forall fuel Q rank s k m,
  Salsa.CFetchD.ProofsRel.rankedD Q rank -> Salsa.CFetchD.ProofsRel.stampsD_ok Q -> no_never Q ->
  creachD fuel Q false s ->
  cD_memo s k = Some m -> o_val m = ED Q rank (o_ver m) k.
Proof. exact memo_soundD. Qed.

Check C16_memo_writes_sound_dyn :
  forall fuel Q rank s k m,
  Salsa.CFetchD.ProofsRel.rankedD Q rank -> Salsa.CFetchD.ProofsRel.stampsD_ok Q -> no_never Q ->
  creachD fuel Q false s ->
  cD_memo s k = Some m -> o_val m = ED Q rank (o_ver m) k.
Print Assumptions C16_memo_writes_sound_dyn.

(* a revision that agrees with the memo's verified_at on every RECORDED edge (input values,
   from-scratch values of the recorded callees) has the memo's value as its from-scratch value *)
Theorem C16_recorded_edges_determine_dyn :
  forall fuel Q rank s k m r',
  Salsa.CFetchD.ProofsRel.rankedD Q rank -> Salsa.CFetchD.ProofsRel.stampsD_ok Q -> no_never Q ->
  creachD fuel Q false s ->
  cD_memo s k = Some m ->
  (forall e, In e (o_deps m) -> esameR Q rank (o_ver m) r' e) ->
  ED Q rank r' k = o_val m.
Proof. exact recorded_edges_determineD. Qed.

Check C16_recorded_edges_determine_dyn :
  forall fuel Q rank s k m r',
  Salsa.CFetchD.ProofsRel.rankedD Q rank -> Salsa.CFetchD.ProofsRel.stampsD_ok Q -> no_never Q ->
  creachD fuel Q false s ->
  cD_memo s k = Some m ->
  (forall e, In e (o_deps m) -> esameR Q rank (o_ver m) r' e) ->
  ED Q rank r' k = o_val m.
Print Assumptions C16_recorded_edges_determine_dyn.

(* two frames past the claim for one key belong to one handle and are one frame — with or
   without the short-cut, any program *)
Theorem C16_claims_exclusive_dyn :
  forall fuel Q sc s, creachD fuel Q sc s -> exclD s.
Proof. exact claims_exclusiveD. Qed.

Check C16_claims_exclusive_dyn :
  forall fuel Q sc s, creachD fuel Q sc s -> exclD s.
Print Assumptions C16_claims_exclusive_dyn.

(* ---- NOT PROVED for CFetchD: statements only ---- *)
Definition C16_no_deadlock_dyn_full_statement : Prop :=
  forall fuel Q rank s,
  Salsa.CFetchD.ProofsRel.rankedD Q rank -> Salsa.CFetchD.ProofsRel.stampsD_ok Q -> no_never Q ->
  creachD fuel Q false s -> (length (cD_tids s) < fuel)%nat ->
  (exists t, In t (cD_tids s) /\ donebD (cD_thr s t) = false) ->
  exists t c s', tstepD fuel Q false s t c = Some s'.

Definition C16_termination_dyn_full_statement : Prop :=
  forall fuel Q rank s,
  Salsa.CFetchD.ProofsRel.rankedD Q rank -> Salsa.CFetchD.ProofsRel.stampsD_ok Q -> no_never Q ->
  creachD fuel Q false s ->
  exists bound, forall l s',
    Forall (fun o => match o with GStep _ _ => True | _ => False end) l ->
    grunD fuel Q false l s = Some s' -> (length l <= bound)%nat.

(* with the short-cut: writes at durability d move last_changed of the levels <= d; an input is
   unchanged over a window in which its durability level saw no write *)
Definition durab_ok (Q : progD) : Prop :=
  (forall r d d', d <= d' -> d_lc Q r d' <= d_lc Q r d) /\
  (forall r d, d_lc Q r d <= r) /\
  (forall r r0 i, r0 <= r -> d_lc Q r (d_idur Q r0 i) <= r0 ->
     d_in Q r i = d_in Q r0 i /\ d_stamp Q r i = d_stamp Q r0 i /\ d_idur Q r i = d_idur Q r0 i).

Definition C16_values_computed_shortcut_full_statement : Prop :=
  forall fuel Q rank s t k r v,
  Salsa.CFetchD.ProofsRel.rankedD Q rank -> Salsa.CFetchD.ProofsRel.stampsD_ok Q -> no_never Q ->
  durab_ok Q -> creachD fuel Q true s ->
  In (ERet t k r v) (cD_log s) -> v = ED Q rank r k.

(* non-vacuity: a program with a body that reads nothing, a branch on an input, a repeated
   callee and a computed key satisfies the hypotheses; two handles, three revisions; the
   returned values, with and without the short-cut, are the from-scratch values 9, 13, 18 *)
Example C16_dyn_witness :
  Salsa.CFetchD.ProofsRel.rankedD Qx rankx /\ Salsa.CFetchD.ProofsRel.stampsD_ok Qx /\ no_never Qx /\
  creachD 8 Qx false s2 /\
  (ED Qx rankx 1 4, ED Qx rankx 2 4, ED Qx rankx 3 4) = (9, 13, 18) /\
  top_rets s2 = [(1, 9); (1, 9); (2, 13); (3, 18); (3, 18)] /\
  top_rets s2c = top_rets s2 /\
  forallb (fun t => donebD (cD_thr s2 t)) (cD_tids s2) = true /\
  deps_of s1 3 = Some (3, 3, 0, [EIn 2; ECall 2]) /\
  deps_of s1 1 = Some (1, 1, 3, []).
Proof.
  exact (conj rankedx (conj stampsx (conj no_neverx (conj s2_reachable (conj spec4
        (conj run2_values (conj run2_values_shortcut (conj run2_all_done (conj run1_deps_3 run1_deps_1))))))))).
Qed.

(* ------------------------------------------------------------------------------------------
   WITH THE SHORT-CUT ([sc = true]) — `_partial` (stage 11; proofs in CFetchD/ProofsShort.v):
   the value theorem for programs in which every durability level an input ever has is written in
   every revision ([live_levels]: forall r i r', d_lc Q r' (d_idur Q r i) = r' — e.g. all inputs
   LOW, whose last-changed revision is the current one; the witness program is of this kind).
   There the short-cut fires exactly for memos of NEVER-CHANGING durability (memos whose whole call
   closure reads no input): on the hot path WITHOUT a claim — probe and store are two shared steps,
   other handles interleave between them — and at the re-check after the claim.  Any number of
   handles, dynamic call lists, repeated callees, input-free bodies, per-revision durabilities.
   GAP (C16_values_computed_shortcut_full_statement stays a Definition): levels that are stable
   over a window without being never-changing (MEDIUM / HIGH inputs not written for some
   revisions).  There a memo becomes verified in a revision in which its callees were not visited;
   the ghost set `seen` of ProofsVal must then be closed over the memo's call closure, and the
   invariant needs the semantic durability of Core/DInv.v (`durge`, the stable-window disjunct of
   `obs_pre`, `m_dur mg <= m_dur md` for observers).  Moreover the statement with [durab_ok] alone is
   FALSE of the model (C16_values_computed_shortcut_full_statement_refuted below): [d_idur] may
   change without a new stamp, a callee re-verified by its unchanged input stamps then keeps a
   stale (too high) durability and the caller's short-cut returns a stale value one write later;
   a hypothesis tying durability changes to stamps
   (forall r i r', d_stamp Q r i <= r' <= r -> d_idur Q r' i = d_idur Q r i) is needed. *)
From Salsa.CFetchD Require ProofsShort ExamplesShort.

Theorem C16_values_computed_shortcut_partial :
  forall fuel Q rank s t k r v,
  Salsa.CFetchD.ProofsRel.rankedD Q rank -> Salsa.CFetchD.ProofsRel.stampsD_ok Q -> no_never Q ->
  (forall r0 i r', d_lc Q r' (d_idur Q r0 i) = r') ->
  creachD fuel Q true s ->
  In (ERet t k r v) (cD_log s) -> v = ED Q rank r k.
Proof. exact Salsa.CFetchD.ProofsShort.values_computed_shortcut. Qed.

Check C16_values_computed_shortcut_partial :
  forall fuel Q rank s t k r v,
  Salsa.CFetchD.ProofsRel.rankedD Q rank -> Salsa.CFetchD.ProofsRel.stampsD_ok Q -> no_never Q ->
  (forall r0 i r', d_lc Q r' (d_idur Q r0 i) = r') ->
  creachD fuel Q true s ->
  In (ERet t k r v) (cD_log s) -> v = ED Q rank r k.
Print Assumptions C16_values_computed_shortcut_partial.

Theorem C16_memo_writes_sound_shortcut_partial :
  forall fuel Q rank s k m,
  Salsa.CFetchD.ProofsRel.rankedD Q rank -> Salsa.CFetchD.ProofsRel.stampsD_ok Q -> no_never Q ->
  (forall r0 i r', d_lc Q r' (d_idur Q r0 i) = r') ->
  creachD fuel Q true s ->
  cD_memo s k = Some m -> o_val m = ED Q rank (o_ver m) k.
Proof. exact Salsa.CFetchD.ProofsShort.memo_sound_shortcut. Qed.

Check C16_memo_writes_sound_shortcut_partial :
  forall fuel Q rank s k m,
  Salsa.CFetchD.ProofsRel.rankedD Q rank -> Salsa.CFetchD.ProofsRel.stampsD_ok Q -> no_never Q ->
  (forall r0 i r', d_lc Q r' (d_idur Q r0 i) = r') ->
  creachD fuel Q true s ->
  cD_memo s k = Some m -> o_val m = ED Q rank (o_ver m) k.
Print Assumptions C16_memo_writes_sound_shortcut_partial.

(* in these programs a memo that passes the probe without being verified now is never-changing *)
Theorem C16_shortcut_fires_only_on_never_partial :
  forall fuel Q rank s k m,
  Salsa.CFetchD.ProofsRel.rankedD Q rank -> Salsa.CFetchD.ProofsRel.stampsD_ok Q -> no_never Q ->
  (forall r0 i r', d_lc Q r' (d_idur Q r0 i) = r') ->
  creachD fuel Q true s ->
  cD_memo s k = Some m -> o_ver m <> cD_cur s -> shortcut Q true (cD_cur s) m = true -> o_dur m = DUR_MAX.
Proof. exact Salsa.CFetchD.ProofsShort.shortcut_only_never. Qed.

Check C16_shortcut_fires_only_on_never_partial :
  forall fuel Q rank s k m,
  Salsa.CFetchD.ProofsRel.rankedD Q rank -> Salsa.CFetchD.ProofsRel.stampsD_ok Q -> no_never Q ->
  (forall r0 i r', d_lc Q r' (d_idur Q r0 i) = r') ->
  creachD fuel Q true s ->
  cD_memo s k = Some m -> o_ver m <> cD_cur s -> shortcut Q true (cD_cur s) m = true -> o_dur m = DUR_MAX.
Print Assumptions C16_shortcut_fires_only_on_never_partial.

(* non-vacuity: the C16_dyn_witness program satisfies the extra hypothesis; its two-handle,
   three-revision run with the short-cut ON is reachable, returns the from-scratch values by the
   theorem (and by computation: the same as without the short-cut), and key 1 — never-changing —
   is executed once in three revisions although it is returned in each *)
Example C16_dyn_witness_shortcut :
  (forall r0 i r', d_lc Qx r' (d_idur Qx r0 i) = r') /\
  creachD 8 Qx true s2c /\
  (forall t k r v, In (ERet t k r v) (cD_log s2c) -> v = ED Qx rankx r k) /\
  top_rets s2c = [(1, 9); (1, 9); (2, 13); (3, 18); (3, 18)] /\
  count_exec 1 1 (cD_log s2c) = 1%nat /\ count_exec 1 2 (cD_log s2c) = 0%nat /\ count_exec 1 3 (cD_log s2c) = 0%nat.
Proof.
  destruct Salsa.CFetchD.ExamplesShort.s2c_run as (A & B & C & D).
  exact (conj Salsa.CFetchD.ExamplesShort.live_levelsx (conj s2c_reachable
        (conj Salsa.CFetchD.ExamplesShort.s2c_values_from_theorem (conj A (conj B (conj C D)))))).
Qed.


(* FINDING: the full statement as written (hypotheses [durab_ok] etc.) is false of the model.
   Witness (CFetchD/ExamplesShort.v, Qc): k = d, d = input 1; revision 2 lowers the input's
   durability from 2 to 0 without a new stamp, revision 3 writes it; the run with the short-cut
   returns 5 for k in revision 3, the from-scratch value is 9. *)
Theorem C16_values_computed_shortcut_full_statement_refuted :
  ~ C16_values_computed_shortcut_full_statement.
Proof.
  intros H.
  destruct Salsa.CFetchD.ExamplesShort.sc3_stale as (Hin & HE & _).
  pose proof (H 8%nat Salsa.CFetchD.ExamplesShort.Qc Salsa.CFetchD.ExamplesShort.rankc
                Salsa.CFetchD.ExamplesShort.sc3 1 2 3 5
                Salsa.CFetchD.ExamplesShort.rankedc Salsa.CFetchD.ExamplesShort.stampsc
                Salsa.CFetchD.ExamplesShort.no_neverc Salsa.CFetchD.ExamplesShort.durabc
                Salsa.CFetchD.ExamplesShort.sc3_reachable Hin) as E.
  rewrite HE in E. discriminate.
Qed.

Check C16_values_computed_shortcut_full_statement_refuted :
  ~ C16_values_computed_shortcut_full_statement.
Print Assumptions C16_values_computed_shortcut_full_statement_refuted.

(* ------------------------------------------------------------------------------------------
   THE SHORT-CUT FOR ALL LEVELS — semantic core, `_partial` (stage 12; CFetchD/ProofsWindow.v):
   [durge] / [durge_stable] of Core/DurSem.v ported to the resumable bodies of CFetchD.
   [durgeD Q rank r d k]: in revision r every input the from-scratch evaluation of k reads,
   transitively, has durability >= d.  Under the write rule of the last-changed vector (the first
   and third clause of [durab_ok]) such a key has the same value, the same read path and the same
   level in every later revision in which level d saw no write — for EVERY level (MEDIUM / HIGH
   windows included).  Hence the short-cut returns the from-scratch value for every memo that
   carries the from-scratch value of its verified_at and whose recorded durability is a semantic
   level of its key.
   GAP (the model-level theorem for all levels is NOT proved): that every memo of every reachable
   state has [durgeD (o_ver m) (o_dur m) k].  A fresh execution establishes it
   ([ProofsWindow.durgeD_of_reads]: the accumulated minimum); keeping it when a memo is marked
   verified after a walk needs, for each recorded callee d with memo md, [o_dur m <= o_dur md] —
   the observer clause of Core/DInv.v ([mo_obs]: ... /\ m_dur mg <= m_dur md, with
   [frame_dur_lb]) — together with the stamped-durability hypothesis
   (forall r i r', d_stamp Q r i <= r' <= r -> d_idur Q r' i = d_idur Q r i) without which the
   statement is false (C16_values_computed_shortcut_full_statement_refuted), and the ghost set
   `seen` closed over the call closure of a memo marked by the short-cut. *)
From Salsa.CFetchD Require ProofsWindow ExamplesWindow.

Theorem C16_stable_window_partial :
  forall (Q : progD) (rank : key -> nat), Salsa.CFetchD.ProofsRel.rankedD Q rank ->
  forall v cur d k,
  (forall r d0 d', d0 <= d' -> d_lc Q r d' <= d_lc Q r d0) ->
  (forall r r0 i, r0 <= r -> d_lc Q r (d_idur Q r0 i) <= r0 ->
     d_in Q r i = d_in Q r0 i /\ d_stamp Q r i = d_stamp Q r0 i /\ d_idur Q r i = d_idur Q r0 i) ->
  v <= cur -> d_lc Q cur d <= v -> Salsa.CFetchD.ProofsWindow.durgeD Q rank v d k ->
  ED Q rank cur k = ED Q rank v k /\
  Salsa.CFetchD.ProofsRel.readsb (ED Q rank cur) (d_in Q cur) (d_body Q k)
    = Salsa.CFetchD.ProofsRel.readsb (ED Q rank v) (d_in Q v) (d_body Q k) /\
  Salsa.CFetchD.ProofsWindow.durgeD Q rank cur d k.
Proof. exact Salsa.CFetchD.ProofsWindow.durgeD_stable. Qed.

Check C16_stable_window_partial :
  forall (Q : progD) (rank : key -> nat), Salsa.CFetchD.ProofsRel.rankedD Q rank ->
  forall v cur d k,
  (forall r d0 d', d0 <= d' -> d_lc Q r d' <= d_lc Q r d0) ->
  (forall r r0 i, r0 <= r -> d_lc Q r (d_idur Q r0 i) <= r0 ->
     d_in Q r i = d_in Q r0 i /\ d_stamp Q r i = d_stamp Q r0 i /\ d_idur Q r i = d_idur Q r0 i) ->
  v <= cur -> d_lc Q cur d <= v -> Salsa.CFetchD.ProofsWindow.durgeD Q rank v d k ->
  ED Q rank cur k = ED Q rank v k /\
  Salsa.CFetchD.ProofsRel.readsb (ED Q rank cur) (d_in Q cur) (d_body Q k)
    = Salsa.CFetchD.ProofsRel.readsb (ED Q rank v) (d_in Q v) (d_body Q k) /\
  Salsa.CFetchD.ProofsWindow.durgeD Q rank cur d k.
Print Assumptions C16_stable_window_partial.

(* the short-cut is sound for every memo whose recorded durability is a semantic level: the probe
   [shortcut Q true cur m = true] then implies that the memo's value is the from-scratch value of
   the current revision *)
Theorem C16_shortcut_sound_of_semantic_level_partial :
  forall (Q : progD) (rank : key -> nat), Salsa.CFetchD.ProofsRel.rankedD Q rank ->
  forall cur k (m : memoD),
  (forall r d0 d', d0 <= d' -> d_lc Q r d' <= d_lc Q r d0) ->
  (forall r r0 i, r0 <= r -> d_lc Q r (d_idur Q r0 i) <= r0 ->
     d_in Q r i = d_in Q r0 i /\ d_stamp Q r i = d_stamp Q r0 i /\ d_idur Q r i = d_idur Q r0 i) ->
  o_val m = ED Q rank (o_ver m) k ->
  Salsa.CFetchD.ProofsWindow.durgeD Q rank (o_ver m) (o_dur m) k -> o_ver m <= cur ->
  shortcut Q true cur m = true ->
  o_val m = ED Q rank cur k /\
  Salsa.CFetchD.ProofsRel.readsb (ED Q rank cur) (d_in Q cur) (d_body Q k)
    = Salsa.CFetchD.ProofsRel.readsb (ED Q rank (o_ver m)) (d_in Q (o_ver m)) (d_body Q k) /\
  Salsa.CFetchD.ProofsWindow.durgeD Q rank cur (o_dur m) k.
Proof. exact Salsa.CFetchD.ProofsWindow.shortcut_sound_of_durgeD. Qed.

Check C16_shortcut_sound_of_semantic_level_partial :
  forall (Q : progD) (rank : key -> nat), Salsa.CFetchD.ProofsRel.rankedD Q rank ->
  forall cur k (m : memoD),
  (forall r d0 d', d0 <= d' -> d_lc Q r d' <= d_lc Q r d0) ->
  (forall r r0 i, r0 <= r -> d_lc Q r (d_idur Q r0 i) <= r0 ->
     d_in Q r i = d_in Q r0 i /\ d_stamp Q r i = d_stamp Q r0 i /\ d_idur Q r i = d_idur Q r0 i) ->
  o_val m = ED Q rank (o_ver m) k ->
  Salsa.CFetchD.ProofsWindow.durgeD Q rank (o_ver m) (o_dur m) k -> o_ver m <= cur ->
  shortcut Q true cur m = true ->
  o_val m = ED Q rank cur k /\
  Salsa.CFetchD.ProofsRel.readsb (ED Q rank cur) (d_in Q cur) (d_body Q k)
    = Salsa.CFetchD.ProofsRel.readsb (ED Q rank (o_ver m)) (d_in Q (o_ver m)) (d_body Q k) /\
  Salsa.CFetchD.ProofsWindow.durgeD Q rank cur (o_dur m) k.
Print Assumptions C16_shortcut_sound_of_semantic_level_partial.

(* Non-vacuity, with a HIGH input (CFetchD/ExamplesWindow.v): key 3 depends on the HIGH input only
   (semantic level 2 in revision 1, by [durge3]); revision 2 writes the LOW input — the window
   theorem applies to key 3, and in the run handle 1 holds the pending claim-free store of the
   short-cut for key 3 WHILE handle 2 walks key 4; revision 3 writes the HIGH input — key 3 is
   executed again.  Every returned value is the from-scratch value (by computation). *)
Example C16_high_window_witness :
  Salsa.CFetchD.ProofsRel.rankedD Salsa.CFetchD.ExamplesWindow.Qw Salsa.CFetchD.ExamplesWindow.rankw /\
  Salsa.CFetchD.ProofsWindow.lc_antitone Salsa.CFetchD.ExamplesWindow.Qw /\
  Salsa.CFetchD.ProofsWindow.write_rule Salsa.CFetchD.ExamplesWindow.Qw /\
  Salsa.CFetchD.ProofsWindow.durgeD Salsa.CFetchD.ExamplesWindow.Qw Salsa.CFetchD.ExamplesWindow.rankw 1 2 3 /\
  ED Salsa.CFetchD.ExamplesWindow.Qw Salsa.CFetchD.ExamplesWindow.rankw 2 3
    = ED Salsa.CFetchD.ExamplesWindow.Qw Salsa.CFetchD.ExamplesWindow.rankw 1 3 /\
  creachD 8 Salsa.CFetchD.ExamplesWindow.Qw true Salsa.CFetchD.ExamplesWindow.sw /\
  Salsa.CFetchD.ExamplesWindow.phasesw Salsa.CFetchD.ExamplesWindow.swm 1 = [(3, DMark false (mkR 16 1 2))] /\
  Salsa.CFetchD.ExamplesWindow.phasesw Salsa.CFetchD.ExamplesWindow.swm 2 = [(4, DVerify [ECall 2; ECall 3] true)] /\
  (count_exec 3 1 (cD_log Salsa.CFetchD.ExamplesWindow.sw), count_exec 3 2 (cD_log Salsa.CFetchD.ExamplesWindow.sw),
   count_exec 3 3 (cD_log Salsa.CFetchD.ExamplesWindow.sw)) = (1, 0, 1)%nat /\
  map (fun r => (ED Salsa.CFetchD.ExamplesWindow.Qw Salsa.CFetchD.ExamplesWindow.rankw r 3,
                 ED Salsa.CFetchD.ExamplesWindow.Qw Salsa.CFetchD.ExamplesWindow.rankw r 4)) [1; 2; 3]
    = [(16, 18); (16, 22); (18, 24)].
Proof.
  destruct Salsa.CFetchD.ExamplesWindow.sw_shortcut_while_walking as [P1 P2].
  destruct Salsa.CFetchD.ExamplesWindow.sw_values as (_ & V2 & V3 & _).
  exact (conj Salsa.CFetchD.ExamplesWindow.rankedw (conj Salsa.CFetchD.ExamplesWindow.lc_antitonew
        (conj Salsa.CFetchD.ExamplesWindow.write_rulew (conj Salsa.CFetchD.ExamplesWindow.durge3
        (conj (proj1 Salsa.CFetchD.ExamplesWindow.window3) (conj Salsa.CFetchD.ExamplesWindow.sw_reachable
        (conj P1 (conj P2 (conj V3 V2))))))))).
Qed.

(* ------------------------------------------------------------------------------------------
   THE MODEL-LEVEL THEOREM FOR ALL LEVELS — `_partial` (stage 13; CFetchD/ProofsStatic.v): with the
   short-cut on, any number of handles, EVERY durability level (MEDIUM / HIGH stable windows: a memo
   becomes verified in a revision in which its callees were not visited), for programs whose read
   paths do not depend on the revision ([static_paths]) and whose input durabilities do not change
   ([const_dur]), under the write rule of the last-changed vector (antitone in the level, monotone
   in the revision, unchanged inputs over a window without a write at their level).
   Invariant = ProofsVal's InvD + the frame additions of ProofsShort (pending claim-free store,
   probe failure for walkers) + every memo's recorded durability is a semantic level of its key
   ([durgeD], C16_stable_window_partial) + recorded edges lie on the read path; when the short-cut
   marks a memo, the ghost set `seen` is closed over its call closure and the window theorem gives
   the values of the whole closure at once.
   GAP: dynamic read paths (values steering calls) and durability-changing writes — there a
   callee may be re-executed along another path with a lower durability and an equal value, and
   keeping [durgeD] through a mark-after-walk needs the observer clause of Core/DInv.v
   ([mo_obs]: m_dur mg <= m_dur md; [frame_dur_lb]) plus the stamped-durability hypothesis. *)
From Salsa.CFetchD Require ProofsStatic ExamplesStatic.

Theorem C16_values_computed_shortcut_all_levels_partial :
  forall fuel Q rank s t k r v,
  Salsa.CFetchD.ProofsRel.rankedD Q rank -> Salsa.CFetchD.ProofsRel.stampsD_ok Q -> no_never Q ->
  (forall r0 r' k0, Salsa.CFetchD.ProofsRel.readsb (ED Q rank r0) (d_in Q r0) (d_body Q k0)
                    = Salsa.CFetchD.ProofsRel.readsb (ED Q rank r') (d_in Q r') (d_body Q k0)) ->
  (forall r0 r' i, d_idur Q r0 i = d_idur Q r' i) ->
  (forall r0 d d', d <= d' -> d_lc Q r0 d' <= d_lc Q r0 d) ->
  (forall r0 r' d, r0 <= r' -> d_lc Q r0 d <= d_lc Q r' d) ->
  (forall r1 r0 i, r0 <= r1 -> d_lc Q r1 (d_idur Q r0 i) <= r0 ->
     d_in Q r1 i = d_in Q r0 i /\ d_stamp Q r1 i = d_stamp Q r0 i /\ d_idur Q r1 i = d_idur Q r0 i) ->
  creachD fuel Q true s ->
  In (ERet t k r v) (cD_log s) -> v = ED Q rank r k.
Proof. exact Salsa.CFetchD.ProofsStatic.values_computed_shortcut. Qed.

Check C16_values_computed_shortcut_all_levels_partial :
  forall fuel Q rank s t k r v,
  Salsa.CFetchD.ProofsRel.rankedD Q rank -> Salsa.CFetchD.ProofsRel.stampsD_ok Q -> no_never Q ->
  (forall r0 r' k0, Salsa.CFetchD.ProofsRel.readsb (ED Q rank r0) (d_in Q r0) (d_body Q k0)
                    = Salsa.CFetchD.ProofsRel.readsb (ED Q rank r') (d_in Q r') (d_body Q k0)) ->
  (forall r0 r' i, d_idur Q r0 i = d_idur Q r' i) ->
  (forall r0 d d', d <= d' -> d_lc Q r0 d' <= d_lc Q r0 d) ->
  (forall r0 r' d, r0 <= r' -> d_lc Q r0 d <= d_lc Q r' d) ->
  (forall r1 r0 i, r0 <= r1 -> d_lc Q r1 (d_idur Q r0 i) <= r0 ->
     d_in Q r1 i = d_in Q r0 i /\ d_stamp Q r1 i = d_stamp Q r0 i /\ d_idur Q r1 i = d_idur Q r0 i) ->
  creachD fuel Q true s ->
  In (ERet t k r v) (cD_log s) -> v = ED Q rank r k.
Print Assumptions C16_values_computed_shortcut_all_levels_partial.

Theorem C16_memo_writes_sound_shortcut_all_levels_partial :
  forall fuel Q rank s k m,
  Salsa.CFetchD.ProofsRel.rankedD Q rank -> Salsa.CFetchD.ProofsRel.stampsD_ok Q -> no_never Q ->
  Salsa.CFetchD.ProofsStatic.static_paths Q rank -> Salsa.CFetchD.ProofsStatic.const_dur Q ->
  Salsa.CFetchD.ProofsWindow.lc_antitone Q -> Salsa.CFetchD.ProofsStatic.lc_mono Q ->
  Salsa.CFetchD.ProofsWindow.write_rule Q ->
  creachD fuel Q true s ->
  cD_memo s k = Some m -> o_val m = ED Q rank (o_ver m) k.
Proof. exact Salsa.CFetchD.ProofsStatic.memo_sound_shortcut. Qed.

Check C16_memo_writes_sound_shortcut_all_levels_partial :
  forall fuel Q rank s k m,
  Salsa.CFetchD.ProofsRel.rankedD Q rank -> Salsa.CFetchD.ProofsRel.stampsD_ok Q -> no_never Q ->
  Salsa.CFetchD.ProofsStatic.static_paths Q rank -> Salsa.CFetchD.ProofsStatic.const_dur Q ->
  Salsa.CFetchD.ProofsWindow.lc_antitone Q -> Salsa.CFetchD.ProofsStatic.lc_mono Q ->
  Salsa.CFetchD.ProofsWindow.write_rule Q ->
  creachD fuel Q true s ->
  cD_memo s k = Some m -> o_val m = ED Q rank (o_ver m) k.
Print Assumptions C16_memo_writes_sound_shortcut_all_levels_partial.

(* non-vacuity: the HIGH-window witness (C16_high_window_witness: key 3 served through the
   short-cut by handle 1 while handle 2 walks key 4; the HIGH write invalidates it) satisfies every
   hypothesis, so its returned values are the from-scratch values BY THE THEOREM *)
Example C16_high_window_by_theorem :
  forall t k r v, In (ERet t k r v) (cD_log Salsa.CFetchD.ExamplesWindow.sw) ->
  v = ED Salsa.CFetchD.ExamplesWindow.Qw Salsa.CFetchD.ExamplesWindow.rankw r k.
Proof. exact Salsa.CFetchD.ExamplesStatic.sw_values_from_theorem. Qed.

(* ------------------------------------------------------------------------------------------
   DYNAMIC READ PATHS AND DURABILITY-CHANGING REVISIONS, ALL LEVELS — `_partial` (stage 14;
   CFetchD/ProofsLevels.v): [static_paths] and [const_dur] of stage 13 are dropped.  What is
   required instead: STATIC SEMANTIC LEVELS — a map L such that, in every revision, L k is the
   minimum over the edges of k's read path of the durability of the input read, resp. of L of the
   key called (DUR_MAX for an empty path).  Which inputs and keys are read may depend on values
   and on the revision, durabilities may change; only that minimum may not.  Then the recorded
   durability of every memo is EXACTLY L of its key (the accumulated minimum is exact: [framT]),
   so the observer inequality [o_dur m <= o_dur md] of Core/DInv.v holds statically, and the
   stage-13 argument (seen closed over the call closure, window theorem for the whole closure)
   goes through with the window theorem providing the path equalities.
   GAP (C16_values_computed_shortcut_full_statement): programs whose semantic level depends on
   the path or the revision — the observer clause proper ([mo_obs] with the stable-window
   disjunct, [mo_stamp], [ext_mono], [frame_dur_lb], [frame_changed_lb]) and the stamped-durability
   hypothesis; not ported. *)
From Salsa.CFetchD Require ProofsLevels ExamplesLevels.

Theorem C16_values_computed_shortcut_static_levels_partial :
  forall fuel Q rank (L : key -> dur) s t k r v,
  Salsa.CFetchD.ProofsRel.rankedD Q rank -> Salsa.CFetchD.ProofsRel.stampsD_ok Q -> no_never Q ->
  (forall r0 k0, L k0 = fold_right (fun e acc => N.min (match e with EIn i => d_idur Q r0 i | ECall c => L c end) acc)
                          DUR_MAX (Salsa.CFetchD.ProofsRel.readsb (ED Q rank r0) (d_in Q r0) (d_body Q k0))) ->
  (forall r0 d d', d <= d' -> d_lc Q r0 d' <= d_lc Q r0 d) ->
  (forall r0 r' d, r0 <= r' -> d_lc Q r0 d <= d_lc Q r' d) ->
  (forall r1 r0 i, r0 <= r1 -> d_lc Q r1 (d_idur Q r0 i) <= r0 ->
     d_in Q r1 i = d_in Q r0 i /\ d_stamp Q r1 i = d_stamp Q r0 i /\ d_idur Q r1 i = d_idur Q r0 i) ->
  creachD fuel Q true s ->
  In (ERet t k r v) (cD_log s) -> v = ED Q rank r k.
Proof. exact Salsa.CFetchD.ProofsLevels.values_computed_shortcut. Qed.

Check C16_values_computed_shortcut_static_levels_partial :
  forall fuel Q rank (L : key -> dur) s t k r v,
  Salsa.CFetchD.ProofsRel.rankedD Q rank -> Salsa.CFetchD.ProofsRel.stampsD_ok Q -> no_never Q ->
  (forall r0 k0, L k0 = fold_right (fun e acc => N.min (match e with EIn i => d_idur Q r0 i | ECall c => L c end) acc)
                          DUR_MAX (Salsa.CFetchD.ProofsRel.readsb (ED Q rank r0) (d_in Q r0) (d_body Q k0))) ->
  (forall r0 d d', d <= d' -> d_lc Q r0 d' <= d_lc Q r0 d) ->
  (forall r0 r' d, r0 <= r' -> d_lc Q r0 d <= d_lc Q r' d) ->
  (forall r1 r0 i, r0 <= r1 -> d_lc Q r1 (d_idur Q r0 i) <= r0 ->
     d_in Q r1 i = d_in Q r0 i /\ d_stamp Q r1 i = d_stamp Q r0 i /\ d_idur Q r1 i = d_idur Q r0 i) ->
  creachD fuel Q true s ->
  In (ERet t k r v) (cD_log s) -> v = ED Q rank r k.
Print Assumptions C16_values_computed_shortcut_static_levels_partial.

Theorem C16_memo_writes_sound_shortcut_static_levels_partial :
  forall fuel Q rank (L : key -> dur) s k m,
  Salsa.CFetchD.ProofsRel.rankedD Q rank -> Salsa.CFetchD.ProofsRel.stampsD_ok Q -> no_never Q ->
  Salsa.CFetchD.ProofsLevels.static_levels Q rank L ->
  Salsa.CFetchD.ProofsWindow.lc_antitone Q -> Salsa.CFetchD.ProofsLevels.lc_mono Q ->
  Salsa.CFetchD.ProofsWindow.write_rule Q ->
  creachD fuel Q true s ->
  cD_memo s k = Some m -> o_val m = ED Q rank (o_ver m) k.
Proof. exact Salsa.CFetchD.ProofsLevels.memo_sound_shortcut. Qed.

Check C16_memo_writes_sound_shortcut_static_levels_partial :
  forall fuel Q rank (L : key -> dur) s k m,
  Salsa.CFetchD.ProofsRel.rankedD Q rank -> Salsa.CFetchD.ProofsRel.stampsD_ok Q -> no_never Q ->
  Salsa.CFetchD.ProofsLevels.static_levels Q rank L ->
  Salsa.CFetchD.ProofsWindow.lc_antitone Q -> Salsa.CFetchD.ProofsLevels.lc_mono Q ->
  Salsa.CFetchD.ProofsWindow.write_rule Q ->
  creachD fuel Q true s ->
  cD_memo s k = Some m -> o_val m = ED Q rank (o_ver m) k.
Print Assumptions C16_memo_writes_sound_shortcut_static_levels_partial.

(* non-vacuity with a DYNAMIC path (CFetchD/ExamplesLevels.v, Qv): key 4 reads the LOW input and,
   depending on its value, calls key 3 only or keys 2 and 3 — its recorded path changes from
   [EIn 2; ECall 3] to [EIn 2; ECall 2; ECall 3] — while key 3 (HIGH, level 2) is served through
   the short-cut in revision 2 and executed again after the HIGH write; hypotheses proved, values
   by the theorem and by computation *)
Example C16_dynamic_levels_witness :
  Salsa.CFetchD.ProofsLevels.static_levels Salsa.CFetchD.ExamplesLevels.Qv Salsa.CFetchD.ExamplesWindow.rankw
    Salsa.CFetchD.ExamplesLevels.Lv /\
  creachD 8 Salsa.CFetchD.ExamplesLevels.Qv true Salsa.CFetchD.ExamplesLevels.sv /\
  (forall t k r v, In (ERet t k r v) (cD_log Salsa.CFetchD.ExamplesLevels.sv) ->
     v = ED Salsa.CFetchD.ExamplesLevels.Qv Salsa.CFetchD.ExamplesWindow.rankw r k) /\
  deps_of (Salsa.CFetchD.ExamplesLevels.lenv true Salsa.CFetchD.ExamplesWindow.prew cinitD) 4
    = Some (1, 1, 0, [EIn 2; ECall 3]) /\
  deps_of Salsa.CFetchD.ExamplesLevels.sv 4 = Some (3, 3, 0, [EIn 2; ECall 2; ECall 3]) /\
  (count_exec 3 1 (cD_log Salsa.CFetchD.ExamplesLevels.sv), count_exec 3 2 (cD_log Salsa.CFetchD.ExamplesLevels.sv),
   count_exec 3 3 (cD_log Salsa.CFetchD.ExamplesLevels.sv)) = (1, 0, 1)%nat.
Proof.
  destruct Salsa.CFetchD.ExamplesLevels.sv_run as (_ & D1 & D2 & C).
  exact (conj Salsa.CFetchD.ExamplesLevels.static_levelsv (conj Salsa.CFetchD.ExamplesLevels.sv_reachable
        (conj Salsa.CFetchD.ExamplesLevels.sv_values_from_theorem (conj D1 (conj D2 C))))).
Qed.

(* ------------------------------------------------------------------------------------------
   Stage 15: the model-level theorem for path/revision-dependent semantic levels (the observer
   clause proper) is NOT proved.  Closed groundwork, specification side only
   (CFetchD/ProofsObserver.v): [first_changed_is_read_again] of Core/SpecProofs.v over the
   resumable bodies of CFetchD — the lemma behind [frame_changed_lb] / [frame_dur_lb]. *)
From Salsa.CFetchD Require ProofsObserver.

Theorem C16_first_changed_is_read_again_dyn :
  forall (rec : key -> val) (inp : ikey -> val) (rec' : key -> val) (inp' : ikey -> val) (b : body),
  (forall e, In e (Salsa.CFetchD.ProofsRel.readsb rec inp b) -> Salsa.CFetchD.ProofsRel.esame rec rec' inp inp' e) \/
  (exists pre e post, Salsa.CFetchD.ProofsRel.readsb rec inp b = pre ++ e :: post /\
     (forall x, In x pre -> Salsa.CFetchD.ProofsRel.esame rec rec' inp inp' x) /\
     ~ Salsa.CFetchD.ProofsRel.esame rec rec' inp inp' e /\
     exists post', Salsa.CFetchD.ProofsRel.readsb rec' inp' b = pre ++ e :: post').
Proof. exact Salsa.CFetchD.ProofsObserver.first_changed_is_read_againD. Qed.

Check C16_first_changed_is_read_again_dyn :
  forall (rec : key -> val) (inp : ikey -> val) (rec' : key -> val) (inp' : ikey -> val) (b : body),
  (forall e, In e (Salsa.CFetchD.ProofsRel.readsb rec inp b) -> Salsa.CFetchD.ProofsRel.esame rec rec' inp inp' e) \/
  (exists pre e post, Salsa.CFetchD.ProofsRel.readsb rec inp b = pre ++ e :: post /\
     (forall x, In x pre -> Salsa.CFetchD.ProofsRel.esame rec rec' inp inp' x) /\
     ~ Salsa.CFetchD.ProofsRel.esame rec rec' inp inp' e /\
     exists post', Salsa.CFetchD.ProofsRel.readsb rec' inp' b = pre ++ e :: post').
Print Assumptions C16_first_changed_is_read_again_dyn.

(* Props/C16.v — C16 "Concurrent readers observe sequential results without deadlock".

   Model: CFetch/Model.v (see its header for the Rust lines each step stands for) over
   Proto/Model.v.  Proofs: CFetch/ProofsSafe.v, ProofsLive.v, ProofsTop.v.  Statements only.

   WHAT IS PROVED HERE, for every interleaving of any number of handles:
   * [C16_values]: every value any request returns is [p_val P r k], the from-scratch value of
     the key in the revision of the request — and ([C16_values_from_verified_memo]) at the moment
     of the return it is the value of a memo verified in the current revision.
   * for rank-respecting (acyclic) programs: try_claim never answers Cycle
     ([C16_never_cycle]); a handle only waits for a key of smaller rank than the keys it holds
     ([C16_waits_below]); the protocol component is a reachable Proto state, so all of C19
     applies, in particular the wait graph is acyclic and grounded ([C16_wait_graph_grounded]);
     as long as some handle is unfinished some handle can take a step ([C16_no_deadlock]); every
     blocked handle has a releaser that knows about it and the release wakes all waiters
     ([C16_no_lost_wakeup]).
   WHAT IS ASSUMED (the guards of DESIGN §7 C16), made visible as [C16_guards_by_construction]:
   the model's only writes to the memo table store a memo verified in the current revision with
   the from-scratch value; insert_memo is done by the claim holder.  That ONE thread running
   the real algorithm satisfies this is C01 (Props/C01.v); that it still does when other
   threads act between its steps is NOT proved (stage-2 goal of DESIGN §7 C16).
   WHAT IS NOT PROVED: termination of every handle (no livelock) — the visible full statement is
   [C16_termination_full_statement]; that the real fetch_cold / deep_verify_memo decompose into
   exactly these atomic steps (tie: H2 trace replay + shuttle exploration, checks/C16.py);
   atomics orderings; condvar semantics. *)
From Salsa Require Import Base.
From Salsa.Proto Require Import Model ProofsGraph ProofsInv ProofsStep.
From Salsa.CFetch Require Import Model ProofsProto ProofsRel ProofsSafe ProofsLive ProofsTop Examples.

(* ---- values ---- *)
Theorem C16_values :
  forall fuel P s, creach fuel P s ->
  forall t k r v, In (ERet t k r v) (c_log s) -> v = p_val P r k.
Proof. exact returned_values. Qed.

Check C16_values :
  forall fuel P s, creach fuel P s ->
  forall t k r v, In (ERet t k r v) (c_log s) -> v = p_val P r k.
Print Assumptions C16_values.

Example C16_values_witness :
  creach 10 ex_prog ex_state1 /\
  c_log ex_state1 = [ERet 2 2 1 21; ERet 1 2 1 21; ERet 1 1 1 11; EExec 1 1 1; EExec 1 2 1].
Proof. exact (conj ex_state1_reachable ex_round1_log_only). Qed.

Theorem C16_values_from_verified_memo :
  forall fuel P s t c s' t1 k1 r1 v1,
  creach fuel P s -> tstep fuel P s t c = Some s' -> c_log s' = ERet t1 k1 r1 v1 :: c_log s ->
  t1 = t /\ r1 = c_cur s' /\
  exists m, c_memo s' k1 = Some m /\ m_ver m = c_cur s' /\ m_val m = v1 /\ v1 = p_val P r1 k1.
Proof. exact returned_from_verified_memo. Qed.

Check C16_values_from_verified_memo :
  forall fuel P s t c s' t1 k1 r1 v1,
  creach fuel P s -> tstep fuel P s t c = Some s' -> c_log s' = ERet t1 k1 r1 v1 :: c_log s ->
  t1 = t /\ r1 = c_cur s' /\
  exists m, c_memo s' k1 = Some m /\ m_ver m = c_cur s' /\ m_val m = v1 /\ v1 = p_val P r1 k1.
Print Assumptions C16_values_from_verified_memo.

(* the assumption, as a fact about the model: what every memo-table write looks like *)
Theorem C16_guards_by_construction :
  forall fuel P s t c s' k1 m1,
  creach fuel P s -> tstep fuel P s t c = Some s' ->
  c_memo s' k1 = Some m1 -> c_memo s k1 <> Some m1 ->
  m_ver m1 = c_cur s /\ m_val m1 = p_val P (c_cur s) k1 /\
  ((exists m, c_memo s k1 = Some m /\ m_val m1 = m_val m /\ m_deps m1 = m_deps m) \/
   (exists st, sync (c_proto s) k1 = Some st /\ ss_id st = OThread t)).
Proof. exact guards_by_construction. Qed.

Check C16_guards_by_construction :
  forall fuel P s t c s' k1 m1,
  creach fuel P s -> tstep fuel P s t c = Some s' ->
  c_memo s' k1 = Some m1 -> c_memo s k1 <> Some m1 ->
  m_ver m1 = c_cur s /\ m_val m1 = p_val P (c_cur s) k1 /\
  ((exists m, c_memo s k1 = Some m /\ m_val m1 = m_val m /\ m_deps m1 = m_deps m) \/
   (exists st, sync (c_proto s) k1 = Some st /\ ss_id st = OThread t)).
Print Assumptions C16_guards_by_construction.

(* ---- no deadlock, rank-respecting programs ---- *)
Theorem C16_never_cycle :
  forall fuel P rank s t, ranked P rank -> creach fuel P s -> th_cycle (c_thr s t) = false.
Proof. exact never_cycle. Qed.

Check C16_never_cycle :
  forall fuel P rank s t, ranked P rank -> creach fuel P s -> th_cycle (c_thr s t) = false.
Print Assumptions C16_never_cycle.

Example C16_ranked_witness : ranked ex_prog ex_rank /\ creach 10 ex_prog ex_blocked.
Proof. exact (conj ex_ranked ex_blocked_reachable). Qed.

Theorem C16_waits_below :
  forall fuel P rank s t u k f, ranked P rank -> creach fuel P s ->
  edges (dg (c_proto s)) t = Some (u, k) ->
  In f (stack_of s t) -> holding (f_phase f) = true -> (rank k < rank (f_key f))%nat.
Proof. exact waits_below. Qed.

Check C16_waits_below :
  forall fuel P rank s t u k f, ranked P rank -> creach fuel P s ->
  edges (dg (c_proto s)) t = Some (u, k) ->
  In f (stack_of s t) -> holding (f_phase f) = true -> (rank k < rank (f_key f))%nat.
Print Assumptions C16_waits_below.

(* the connection to C19: the protocol component is a reachable state of the Proto model *)
Theorem C16_protocol_state_reachable :
  forall fuel P rank s, ranked P rank -> creach fuel P s -> reachable fuel (c_proto s).
Proof. exact proto_reachable. Qed.

Check C16_protocol_state_reachable :
  forall fuel P rank s, ranked P rank -> creach fuel P s -> reachable fuel (c_proto s).
Print Assumptions C16_protocol_state_reachable.

Theorem C16_wait_graph_grounded :
  forall fuel P rank s, ranked P rank -> creach fuel P s ->
  (forall t u k, edges (dg (c_proto s)) t = Some (u, k) ->
     ~ reaches (eproj (dg (c_proto s))) u t) /\
  (forall t, exists r, reaches (eproj (dg (c_proto s))) t r /\ edges (dg (c_proto s)) r = None).
Proof. exact wait_graph_grounded. Qed.

Check C16_wait_graph_grounded :
  forall fuel P rank s, ranked P rank -> creach fuel P s ->
  (forall t u k, edges (dg (c_proto s)) t = Some (u, k) ->
     ~ reaches (eproj (dg (c_proto s))) u t) /\
  (forall t, exists r, reaches (eproj (dg (c_proto s))) t r /\ edges (dg (c_proto s)) r = None).
Print Assumptions C16_wait_graph_grounded.

(* [fuel] bounds the walk of Edges::depends_on; more handles than fuel would make the MODEL's
   depends_on give up, which is not a behaviour of the Rust loop *)
Theorem C16_no_deadlock :
  forall fuel P rank s, ranked P rank -> creach fuel P s -> (length (c_tids s) < fuel)%nat ->
  (exists t, In t (c_tids s) /\ doneb (c_thr s t) = false) ->
  exists t c s', In t (c_tids s) /\ tstep fuel P s t c = Some s'.
Proof. exact some_thread_can_step. Qed.

Check C16_no_deadlock :
  forall fuel P rank s, ranked P rank -> creach fuel P s -> (length (c_tids s) < fuel)%nat ->
  (exists t, In t (c_tids s) /\ doneb (c_thr s t) = false) ->
  exists t c s', In t (c_tids s) /\ tstep fuel P s t c = Some s'.
Print Assumptions C16_no_deadlock.

(* in the blocked state of the witness run handle 2 cannot step, handle 1 can *)
Example C16_no_deadlock_witness :
  creach 10 ex_prog ex_blocked /\ (length (c_tids ex_blocked) < 10)%nat /\
  (match tstep 10 ex_prog ex_blocked 1 true with Some _ => true | None => false end,
   match tstep 10 ex_prog ex_blocked 2 true with Some _ => true | None => false end) = (true, false).
Proof. exact (conj ex_blocked_reachable (conj ex_blocked_tids ex_blocked_progress)). Qed.

(* no lost wake-up: whoever is blocked sits in a PWait frame for the key; the key's holder has
   anyone_waiting set (so its release will unblock) or has already removed its claim and is
   about to unblock; and that unblock step wakes every waiter of the key with Completed *)
Theorem C16_no_lost_wakeup :
  forall fuel P rank s, ranked P rank -> creach fuel P s ->
  (forall x u k, edges (dg (c_proto s)) x = Some (u, k) ->
     (exists below, stack_of s x = (k @: PWait) :: below) /\
     ((exists st f, sync (c_proto s) k = Some st /\ ss_id st = OThread u /\
                    ss_waiting st = true /\
                    In f (stack_of s u) /\ f_key f = k /\ holding (f_phase f) = true) \/
      (exists v below, stack_of s u = (k @: PUnblock v) :: below))) /\
  (forall t c s' k1 v1 below1,
     stack_of s t = (k1 @: PUnblock v1) :: below1 -> tstep fuel P s t c = Some s' ->
     forall x u, edges (dg (c_proto s)) x = Some (u, k1) ->
       edges (dg (c_proto s')) x = None /\ wres (dg (c_proto s')) x = Some Completed).
Proof.
  exact (fun fuel P rank s RK HR =>
    conj (fun x u k => blocked_has_releaser fuel P rank s x u k RK HR)
         (fun t c s' k1 v1 below1 => unblock_wakes_all_waiters fuel P rank s t c s' k1 v1 below1 RK HR)).
Qed.

Check C16_no_lost_wakeup :
  forall fuel P rank s, ranked P rank -> creach fuel P s ->
  (forall x u k, edges (dg (c_proto s)) x = Some (u, k) ->
     (exists below, stack_of s x = (k @: PWait) :: below) /\
     ((exists st f, sync (c_proto s) k = Some st /\ ss_id st = OThread u /\
                    ss_waiting st = true /\
                    In f (stack_of s u) /\ f_key f = k /\ holding (f_phase f) = true) \/
      (exists v below, stack_of s u = (k @: PUnblock v) :: below))) /\
  (forall t c s' k1 v1 below1,
     stack_of s t = (k1 @: PUnblock v1) :: below1 -> tstep fuel P s t c = Some s' ->
     forall x u, edges (dg (c_proto s)) x = Some (u, k1) ->
       edges (dg (c_proto s')) x = None /\ wres (dg (c_proto s')) x = Some Completed).
Print Assumptions C16_no_lost_wakeup.

(* NOT PROVED (kept visible): from every reachable state of a rank-respecting program all
   handles can be run to completion, and no infinite run exists.  What is proved is the
   absence of deadlock ([C16_no_deadlock]); a decreasing measure for the retry loop
   (each retry of a waiter is paid for by a release of another handle) is not mechanised; at run
   time shuttle's step bound stands in for it (checks/C16.py). *)
Definition C16_termination_full_statement : Prop :=
  forall fuel P rank s, ranked P rank -> creach fuel P s -> (length (c_tids s) < fuel)%nat ->
  exists n, forall l s', grun fuel P l s = Some s' ->
    (forall o, In o l -> exists t c, o = GStep t c) -> (length l <= n)%nat.

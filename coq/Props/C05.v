(* Props/C05.v — LRU eviction is transparent and bounded.  Statements only. *)
From Salsa Require Import Base.
From Salsa.Core Require Import Model Spec LruProofs Inv InvTop DInvTop.

(* Bounded, least-recently-used first: the eviction pass splits the recency order into the
   evicted prefix and the kept suffix, keeps at most [c] keys, and leaves the capacity alone. *)
Theorem C05_bound : forall l c ev l',
  lru_cap l = Some c -> lru_evict l = (ev, l') ->
  lru_set l = ev ++ lru_set l' /\ N.of_nat (length (lru_set l')) <= c /\ lru_cap l' = Some c.
Proof. exact lru_evict_spec. Qed.
Check C05_bound : forall l c ev l',
  lru_cap l = Some c -> lru_evict l = (ev, l') ->
  lru_set l = ev ++ lru_set l' /\ N.of_nat (length (lru_set l')) <= c /\ lru_cap l' = Some c.
Print Assumptions C05_bound.

(* The evicted keys, and only they, lose their value. *)
Theorem C05_evicts_exactly : forall fam ks mm q,
  evict_keys fam ks mm q =
  if existsb (fun k => key_eqb (fam, k) q) ks then option_map evict_memo (mm q) else mm q.
Proof. exact evict_keys_spec. Qed.
Check C05_evicts_exactly : forall fam ks mm q,
  evict_keys fam ks mm q =
  if existsb (fun k => key_eqb (fam, k) q) ks then option_map evict_memo (mm q) else mm q.
Print Assumptions C05_evicts_exactly.

(* Dependency information is kept: eviction changes nothing but the value, and never
   touches a memo with untracked reads. *)
Theorem C05_keeps_deps : forall m,
  m_verified (evict_memo m) = m_verified m /\ m_changed (evict_memo m) = m_changed m /\
  m_dur (evict_memo m) = m_dur m /\ m_untracked (evict_memo m) = m_untracked m /\
  m_edges (evict_memo m) = m_edges m /\
  (m_untracked m = true -> evict_memo m = m) /\
  (m_untracked m = false -> m_val (evict_memo m) = None).
Proof. exact evict_memo_keeps. Qed.
Check C05_keeps_deps : forall m,
  m_verified (evict_memo m) = m_verified m /\ m_changed (evict_memo m) = m_changed m /\
  m_dur (evict_memo m) = m_dur m /\ m_untracked (evict_memo m) = m_untracked m /\
  m_edges (evict_memo m) = m_edges m /\
  (m_untracked m = true -> evict_memo m = m) /\
  (m_untracked m = false -> m_val (evict_memo m) = None).
Print Assumptions C05_keeps_deps.

(* A request moves the key to the most-recent end and keeps the set duplicate-free. *)
Theorem C05_recency : forall l k c, lru_cap l = Some c -> NoDup (lru_set l) ->
  NoDup (lru_set (lru_record_use l k)) /\
  exists pre, lru_set (lru_record_use l k) = pre ++ [k] /\ pre = remove_key k (lru_set l).
Proof.
  intros l k c Hc Hnd. split; [apply record_use_nodup; exact Hnd | apply (record_use_last l k c Hc)].
Qed.
Check C05_recency : forall l k c, lru_cap l = Some c -> NoDup (lru_set l) ->
  NoDup (lru_set (lru_record_use l k)) /\
  exists pre, lru_set (lru_record_use l k) = pre ++ [k] /\ pre = remove_key k (lru_set l).
Print Assumptions C05_recency.

(* Capacity zero disables eviction: the set is cleared, nothing is recorded, nothing is evicted. *)
Theorem C05_zero_disables : forall l k,
  lru_set_capacity l 0 = {| lru_cap := None; lru_set := [] |} /\
  (lru_cap l = None -> lru_record_use l k = l) /\
  (lru_cap l = None -> lru_evict l = ([], l)).
Proof.
  intros l k. split; [apply set_capacity_zero|]. split; [apply record_use_disabled | apply evict_disabled].
Qed.
Check C05_zero_disables : forall l k,
  lru_set_capacity l 0 = {| lru_cap := None; lru_set := [] |} /\
  (lru_cap l = None -> lru_record_use l k = l) /\
  (lru_cap l = None -> lru_evict l = ([], l)).
Print Assumptions C05_zero_disables.

(* Transparency: with set_lru_capacity / trigger_lru_eviction interleaved anywhere in the
   history (they are ordinary operations of the alphabet), every Get still returns the
   from-scratch value -- for inputs and writes of every durability (an evicted memo that is
   re-verified through the durability short-cut keeps no value and is recomputed on demand;
   an evicted memo that is verified in the current revision and recomputed does not lower its
   durability: [ext_vcur] in Core/DInv.v). *)
Theorem C05_transparent :
  forall (prog : qkey -> body) (noeq : qkey -> bool) (fams : list N)
         (rank : qkey -> nat) (NF : nat),
  calls_below prog rank -> (forall q, (rank q < NF)%nat) ->
  forall fuel, (forall p, (rank p < fuel)%nat) ->
  forall iv idur lru0 ops,
    (forall i, idur i <= 3) -> Forall dur_op ops -> wf_ops false ops ->
    outs_ok prog noeq fams NF fuel (init iv idur lru0) ops.
Proof.
  intros prog noeq fams rank NF Hrank Hbound.
  exact (from_scratch_dur_init prog noeq fams rank Hrank NF Hbound).
Qed.
Check C05_transparent :
  forall (prog : qkey -> body) (noeq : qkey -> bool) (fams : list N)
         (rank : qkey -> nat) (NF : nat),
  calls_below prog rank -> (forall q, (rank q < NF)%nat) ->
  forall fuel, (forall p, (rank p < fuel)%nat) ->
  forall iv idur lru0 ops,
    (forall i, idur i <= 3) -> Forall dur_op ops -> wf_ops false ops ->
    outs_ok prog noeq fams NF fuel (init iv idur lru0) ops.
Print Assumptions C05_transparent.

(* the earlier LOW-durability statement, now a corollary *)
Theorem C05_transparent_partial :
  forall (prog : qkey -> body) (noeq : qkey -> bool) (fams : list N)
         (rank : qkey -> nat) (NF : nat),
  calls_below prog rank -> (forall q, (rank q < NF)%nat) ->
  forall fuel, (forall p, (rank p < fuel)%nat) ->
  forall iv lru0 ops,
    Forall low_op ops -> wf_ops false ops ->
    outs_ok prog noeq fams NF fuel (init iv (fun _ => 0) lru0) ops.
Proof.
  intros prog noeq fams rank NF Hrank Hbound.
  exact (from_scratch_low_again prog noeq fams rank Hrank NF Hbound).
Qed.
Check C05_transparent_partial :
  forall (prog : qkey -> body) (noeq : qkey -> bool) (fams : list N)
         (rank : qkey -> nat) (NF : nat),
  calls_below prog rank -> (forall q, (rank q < NF)%nat) ->
  forall fuel, (forall p, (rank p < fuel)%nat) ->
  forall iv lru0 ops,
    Forall low_op ops -> wf_ops false ops ->
    outs_ok prog noeq fams NF fuel (init iv (fun _ => 0) lru0) ops.
Print Assumptions C05_transparent_partial.

(* Props/C26.v — A persisted database restores identical results and valid memos.
   Statements only; proofs in Persist/ProofsRoundtrip.v, Persist/ProofsFlatten.v (structure of
   the serialised image), Persist/PInv*.v, Persist/PTop.v (the invariant of the persist-mode
   model and the results theorems); concrete runs (positive ones, and two refutations replayed
   on the real crate) in Persist/Examples.v. *)
From Salsa Require Import Base.
From Salsa.Kern Require Import CoreK.
From Salsa.Persist Require Import Model Spec ProofsRoundtrip ProofsFlatten Statement Examples.
From Salsa.Persist Require PInvTop PTop LTop.

(* Round trip, for ALL states: deserialising the serialised database into a fresh one keeps the
   runtime revisions, every input slot, and for every persisted function every memo that has a
   value — value, verified_at, changed_at, durability — with the origin edges replaced by their
   flattening and the origin untracked if it was, or if flattening expanded an untracked
   dependency (flat_memo; fix e43c20c); nothing else survives (memos of non-persisted functions,
   value-less memos), and the rest is the state of a fresh database. *)
Theorem C26_roundtrip : forall (pfam : N -> bool) (fuel : nat) (s ext : db) (lru0 : N -> lru_state),
  let s' := restore (Model.snapshot pfam fuel s) ext lru0 in
  d_revs s' = d_revs s /\ (forall i, d_in s' i = d_in s i) /\
  (forall q m v, pfam (fst q) = true -> d_memo s q = Some m -> m_val m = Some v ->
     d_memo s' q = Some (flat_memo pfam (d_memo s) fuel m)) /\
  (forall q, ~ serialised pfam s q -> d_memo s' q = None) /\
  d_stack s' = [] /\ d_lru s' = lru0 /\ d_ccount s' = 1 /\ (forall fam, d_init s' fam = false) /\
  d_cell s' = d_cell ext /\ d_pcell s' = d_pcell ext /\ d_log s' = d_log ext.
Proof. exact roundtrip. Qed.
Check C26_roundtrip : forall (pfam : N -> bool) (fuel : nat) (s ext : db) (lru0 : N -> lru_state),
  let s' := restore (Model.snapshot pfam fuel s) ext lru0 in
  d_revs s' = d_revs s /\ (forall i, d_in s' i = d_in s i) /\
  (forall q m v, pfam (fst q) = true -> d_memo s q = Some m -> m_val m = Some v ->
     d_memo s' q = Some (flat_memo pfam (d_memo s) fuel m)) /\
  (forall q, ~ serialised pfam s q -> d_memo s' q = None) /\
  d_stack s' = [] /\ d_lru s' = lru0 /\ d_ccount s' = 1 /\ (forall fam, d_init s' fam = false) /\
  d_cell s' = d_cell ext /\ d_pcell s' = d_pcell ext /\ d_log s' = d_log ext.
Print Assumptions C26_roundtrip.

(* Flattening covers: for every memo table whose recorded graph is acyclic, after flattening the
   edges of an origin every original edge is serialised or was expanded, every expanded
   dependency has a memo, and every expanded dependency has all ITS edges serialised or expanded
   (a cut of the graph).  A dependency WITHOUT memo is serialised as an edge (fix of the
   memo-less-dependency stale value), so nothing is assumed about which functions have memos. *)
Theorem C26_flatten_covers : forall (pfam : N -> bool) (mm : qkey -> option memo) (rank : qkey -> nat),
  (forall g m c, mm g = Some m -> In (EQ c) (m_edges m) -> (rank c < rank g)%nat) ->
  forall (fuel : nat) (edges : list edge),
  (forall e, In e edges -> (erank rank e < fuel)%nat) ->
  let r := flatten_full pfam mm fuel edges in
  vis_ok mm (snd r) /\ closedX mm [] (fst r) (snd r) /\ (forall e, In e edges -> covered (fst r) (snd r) e).
Proof. exact flatten_closed. Qed.
Check C26_flatten_covers : forall (pfam : N -> bool) (mm : qkey -> option memo) (rank : qkey -> nat),
  (forall g m c, mm g = Some m -> In (EQ c) (m_edges m) -> (rank c < rank g)%nat) ->
  forall (fuel : nat) (edges : list edge),
  (forall e, In e edges -> (erank rank e < fuel)%nat) ->
  let r := flatten_full pfam mm fuel edges in
  vis_ok mm (snd r) /\ closedX mm [] (fst r) (snd r) /\ (forall e, In e edges -> covered (fst r) (snd r) e).
Print Assumptions C26_flatten_covers.

(* The flattening lemma (structural half): if none of the covering edges changed since r —
   input leaves by their stamp, directly serialised function edges by their whole recorded
   support — and flattening dropped no dependency with untracked reads, then no replaced
   dependency has a changed recorded support: every ORIGINAL edge is [ok_edge] since r. *)
Theorem C26_flatten_sound : forall (pfam : N -> bool) (mm : qkey -> option memo) (rank : qkey -> nat),
  (forall g m c, mm g = Some m -> In (EQ c) (m_edges m) -> (rank c < rank g)%nat) ->
  forall (din : ikey -> infield) (r : rev) (fuel : nat) (edges : list edge),
  (forall e, In e edges -> (erank rank e < fuel)%nat) ->
  lost_untracked pfam mm fuel edges = false ->
  (forall x, In x (flatten pfam mm fuel edges) -> ok_edge mm din r x) ->
  forall e, In e edges -> ok_edge mm din r e.
Proof. exact flatten_sound. Qed.
Check C26_flatten_sound : forall (pfam : N -> bool) (mm : qkey -> option memo) (rank : qkey -> nat),
  (forall g m c, mm g = Some m -> In (EQ c) (m_edges m) -> (rank c < rank g)%nat) ->
  forall (din : ikey -> infield) (r : rev) (fuel : nat) (edges : list edge),
  (forall e, In e edges -> (erank rank e < fuel)%nat) ->
  lost_untracked pfam mm fuel edges = false ->
  (forall x, In x (flatten pfam mm fuel edges) -> ok_edge mm din r x) ->
  forall e, In e edges -> ok_edge mm din r e.
Print Assumptions C26_flatten_sound.

(* The fix e43c20c, for ALL memo tables: a memo that the snapshot serialises with a TRACKED
   origin lost no untracked dependency (and was tracked itself) ... *)
Theorem C26_snapshot_tracked_loses_nothing :
  forall (pfam : N -> bool) (mm : qkey -> option memo) (fuel : nat) q m',
  snap_memo pfam mm fuel q = Some m' -> m_untracked m' = false ->
  exists m, mm q = Some m /\ m_untracked m = false /\
            lost_untracked pfam mm fuel (m_edges m) = false /\
            m_edges m' = flatten pfam mm fuel (m_edges m) /\
            m_val m' = m_val m /\ m_verified m' = m_verified m /\ m_changed m' = m_changed m /\
            m_dur m' = m_dur m.
Proof. exact snap_memo_tracked. Qed.
Check C26_snapshot_tracked_loses_nothing :
  forall (pfam : N -> bool) (mm : qkey -> option memo) (fuel : nat) q m',
  snap_memo pfam mm fuel q = Some m' -> m_untracked m' = false ->
  exists m, mm q = Some m /\ m_untracked m = false /\
            lost_untracked pfam mm fuel (m_edges m) = false /\
            m_edges m' = flatten pfam mm fuel (m_edges m) /\
            m_val m' = m_val m /\ m_verified m' = m_verified m /\ m_changed m' = m_changed m /\
            m_dur m' = m_dur m.
Print Assumptions C26_snapshot_tracked_loses_nothing.

(* ... hence the flattening lemma WITHOUT side condition for the memos of a real snapshot: if a
   memo is serialised as tracked and none of its serialised edges changed since r, then the
   original memo was tracked and none of its original edges has a changed recorded support. *)
Theorem C26_flatten_sound_snapshot :
  forall (pfam : N -> bool) (mm : qkey -> option memo) (rank : qkey -> nat),
  (forall g m c, mm g = Some m -> In (EQ c) (m_edges m) -> (rank c < rank g)%nat) ->
  forall (din : ikey -> infield) (r : rev) (fuel : nat) q m',
  (forall p, (S (rank p) < fuel)%nat) ->
  snap_memo pfam mm fuel q = Some m' -> m_untracked m' = false ->
  (forall x, In x (m_edges m') -> ok_edge mm din r x) ->
  exists m, mm q = Some m /\ m_untracked m = false /\ forall e, In e (m_edges m) -> ok_edge mm din r e.
Proof. exact flatten_sound_snapshot. Qed.
Check C26_flatten_sound_snapshot :
  forall (pfam : N -> bool) (mm : qkey -> option memo) (rank : qkey -> nat),
  (forall g m c, mm g = Some m -> In (EQ c) (m_edges m) -> (rank c < rank g)%nat) ->
  forall (din : ikey -> infield) (r : rev) (fuel : nat) q m',
  (forall p, (S (rank p) < fuel)%nat) ->
  snap_memo pfam mm fuel q = Some m' -> m_untracked m' = false ->
  (forall x, In x (m_edges m') -> ok_edge mm din r x) ->
  exists m, mm q = Some m /\ m_untracked m = false /\ forall e, In e (m_edges m) -> ok_edge mm din r e.
Print Assumptions C26_flatten_sound_snapshot.

(* Serialised origins consist of directly serialised edges (input fields, persisted functions)
   and of function dependencies that had NO memo when the origin was flattened (nothing covers
   them; the edge is kept) — for all memo tables and fuels; and serialising again an origin all of
   whose edges are serialised directly expands nothing and cannot lose an untracked dependency. *)
Theorem C26_reserialise_loses_nothing :
  forall (pfam : N -> bool) (mm mm' : qkey -> option memo) (fuel fuel' : nat) (edges : list edge),
  (forall e, In e (flatten pfam mm fuel edges) ->
     persistable pfam e = true \/ exists g, e = EQ g /\ mm g = None) /\
  (all_persistable pfam edges -> lost_untracked pfam mm' fuel' edges = false).
Proof.
  intros pfam mm mm' fuel fuel' edges.
  split; [exact (flatten_kept pfam mm fuel edges) | exact (reserialise_loses_nothing pfam mm' fuel' edges)].
Qed.
Check C26_reserialise_loses_nothing :
  forall (pfam : N -> bool) (mm mm' : qkey -> option memo) (fuel fuel' : nat) (edges : list edge),
  (forall e, In e (flatten pfam mm fuel edges) ->
     persistable pfam e = true \/ exists g, e = EQ g /\ mm g = None) /\
  (all_persistable pfam edges -> lost_untracked pfam mm' fuel' edges = false).
Print Assumptions C26_reserialise_loses_nothing.

(* Reuse, same revision — for all programs and states: a restored memo that was verified in the
   revision of the snapshot is returned by the first request with no event at all. *)
Theorem C26_reuse_same_revision :
  forall (prog : qkey -> body) (noeq : qkey -> bool) (pfam : N -> bool) (L : lower)
         (fuel : nat) (s ext : db) (lru0 : N -> lru_state) q m v,
  pfam (fst q) = true -> d_memo s q = Some m -> m_val m = Some v -> m_verified m = cur s ->
  let s' := restore (Model.snapshot pfam fuel s) ext lru0 in
  exists s'', fetch prog noeq L q s' = (s'', POk (v, m_dur m, m_changed m)) /\ d_log s'' = d_log ext /\
              d_memo s'' = d_memo s'.
Proof. exact reuse_hot. Qed.
Check C26_reuse_same_revision :
  forall (prog : qkey -> body) (noeq : qkey -> bool) (pfam : N -> bool) (L : lower)
         (fuel : nat) (s ext : db) (lru0 : N -> lru_state) q m v,
  pfam (fst q) = true -> d_memo s q = Some m -> m_val m = Some v -> m_verified m = cur s ->
  let s' := restore (Model.snapshot pfam fuel s) ext lru0 in
  exists s'', fetch prog noeq L q s' = (s'', POk (v, m_dur m, m_changed m)) /\ d_log s'' = d_log ext /\
              d_memo s'' = d_memo s'.
Print Assumptions C26_reuse_same_revision.

(* Reuse, any later revision — PARTIAL: for a memo whose origin consists of input leaves (what a
   restored memo looks like when all its dependencies were flattened), has no untracked read and
   none of whose leaves changed since it was verified: the request returns its value and the event
   log grows by at most one DidValidateMemoizedValue — the function is not executed.  For every
   program, state and lower level.  Missing: origins that keep edges to persisted functions
   (needs the recursion through maybe_changed_after, i.e. the Core invariant; and is FALSE as
   stated when such a dependency was not serialised or its ingredient is uninitialised, see the
   refutations below). *)
Theorem C26_reuse_partial :
  forall (prog : qkey -> body) (noeq : qkey -> bool) (L : lower) (s : db) q m v,
  d_memo s q = Some m -> m_val m = Some v -> m_untracked m = false ->
  (forall e, In e (m_edges m) -> leaf_unchanged s (m_verified m) e) ->
  d_stack s = [] ->
  exists s', fetch prog noeq L q s = (s', POk (v, m_dur m, m_changed m)) /\
             (d_log s' = d_log s \/ d_log s' = EvValidate q :: d_log s).
Proof. exact reuse_leaves. Qed.
Check C26_reuse_partial :
  forall (prog : qkey -> body) (noeq : qkey -> bool) (L : lower) (s : db) q m v,
  d_memo s q = Some m -> m_val m = Some v -> m_untracked m = false ->
  (forall e, In e (m_edges m) -> leaf_unchanged s (m_verified m) e) ->
  d_stack s = [] ->
  exists s', fetch prog noeq L q s = (s', POk (v, m_dur m, m_changed m)) /\
             (d_log s' = d_log s \/ d_log s' = EvValidate q :: d_log s).
Print Assumptions C26_reuse_partial.

(* non-vacuity: the shape of tests/persistence.rs::partial_query — the hypotheses of the
   flattening theorems hold, the restored memo is validated without execution in a later
   revision, and after a write the restored database returns the from-scratch result *)
Theorem C26_example_partial_query :
  flatten Examples.pfam mm_pq FUEL [EQ (3, 0)] = [EIn (0, 0)] /\
  lost_untracked Examples.pfam mm_pq FUEL [EQ (3, 0)] = false /\
  (let r := run prog_pq [] nolru [OGet (0, 0); OSnapshot; ORestore; OSynth 0; OGet (0, 0)] in
   snd r = [POk 2; POk 0; POk 0; POk 0; POk 2] /\
   d_log (ps_db (fst r)) = [EvValidate (0, 0); EvExec (3, 0); EvExec (0, 0)]) /\
  (let r := run prog_pq [] nolru [OGet (0, 0); OSnapshot; ORestore; OSet (0, 0) 7 None; OGet (0, 0)] in
   snd r = [POk 2; POk 0; POk 0; POk 0; POk 8] /\
   evalo prog_pq FUEL (snap_of (ps_db (fst r))) (0, 0) = Some 8).
Proof.
  split; [exact (proj2 (proj2 (proj2 ex_pq_hyps)))|].
  split; [exact (proj1 (proj2 (proj2 ex_pq_hyps)))|].
  split; [exact ex_pq_reuse | exact ex_pq_write].
Qed.
Check C26_example_partial_query :
  flatten Examples.pfam mm_pq FUEL [EQ (3, 0)] = [EIn (0, 0)] /\
  lost_untracked Examples.pfam mm_pq FUEL [EQ (3, 0)] = false /\
  (let r := run prog_pq [] nolru [OGet (0, 0); OSnapshot; ORestore; OSynth 0; OGet (0, 0)] in
   snd r = [POk 2; POk 0; POk 0; POk 0; POk 2] /\
   d_log (ps_db (fst r)) = [EvValidate (0, 0); EvExec (3, 0); EvExec (0, 0)]) /\
  (let r := run prog_pq [] nolru [OGet (0, 0); OSnapshot; ORestore; OSet (0, 0) 7 None; OGet (0, 0)] in
   snd r = [POk 2; POk 0; POk 0; POk 0; POk 8] /\
   evalo prog_pq FUEL (snap_of (ps_db (fst r))) (0, 0) = Some 8).
Print Assumptions C26_example_partial_query.

(* the former stale-value witness (a persisted function over a NON-persisted function with an
   untracked read; restore, external change, new revision): with fix e43c20c the restored memo is
   untracked, is re-executed, and the result is the from-scratch one; in the revision of the
   snapshot it is still returned without executing *)
Theorem C26_example_flattened_untracked_fixed :
  (let r := run prog_f2 [] nolru ops_f2 in
   snd r = [POk 0; POk 0; POk 0; POk 0; POk 0; POk 1] /\
   evalo prog_f2 FUEL (snap_of (ps_db (fst r))) (0, 0) = Some 1) /\
  (let r := run prog_f2 [] nolru [OGet (0, 0); OSnapshot; ORestore; OGet (0, 0)] in
   snd r = [POk 0; POk 0; POk 0; POk 0] /\ d_log (ps_db (fst r)) = [EvExec (3, 0); EvExec (0, 0)]).
Proof.
  split; [split; [exact (proj1 ex_f2_fixed) | exact (proj1 (proj2 ex_f2_fixed))] | exact ex_f2_same_revision].
Qed.
Check C26_example_flattened_untracked_fixed :
  (let r := run prog_f2 [] nolru ops_f2 in
   snd r = [POk 0; POk 0; POk 0; POk 0; POk 0; POk 1] /\
   evalo prog_f2 FUEL (snap_of (ps_db (fst r))) (0, 0) = Some 1) /\
  (let r := run prog_f2 [] nolru [OGet (0, 0); OSnapshot; ORestore; OGet (0, 0)] in
   snd r = [POk 0; POk 0; POk 0; POk 0] /\ d_log (ps_db (fst r)) = [EvExec (3, 0); EvExec (0, 0)]).
Print Assumptions C26_example_flattened_untracked_fixed.

(* the former stale-value witness of the memo-less dependency (an evicted, value-less memo is
   not serialised; its restored caller is returned without a walk; a second snapshot reaches that
   caller through a non-persisted function and finds a dependency WITHOUT memo): the edge is now
   kept, and the request after the second restore and a write returns the from-scratch value;
   without a call that initialises the dependency's ingredient it ends in the known class
   (uninitialised ingredient), not in a stale value *)
Theorem C26_example_memoless_dependency_fixed :
  (let r := run prog_f4 [1] lru2 ops_f4 in
   last (snd r) PFuel = POk 7 /\
   evalo prog_f4 FUEL (snap_of (ps_db (fst r))) (0, 0) = Some 7 /\
   option_map (fun m => (m_untracked m, m_edges m, m_verified m))
     (d_memo (ps_db (fst (run prog_f4 [1] lru2 (firstn 10 ops_f4)))) (0, 0)) = Some (false, [EQ (1, 0)], 2) /\
   d_memo (ps_db (fst (run prog_f4 [1] lru2 (firstn 8 ops_f4)))) (1, 0) = None) /\
  last (snd (run prog_f4 [1] lru2
    [OGet (0, 1); OGet (1, 1); OGet (1, 2); OSynth 0; OGet (0, 1); OSnapshot; ORestore;
     OGet (0, 0); OSnapshot; ORestore; OSet (0, 0) 7 None; OGet (0, 0)])) PFuel = PPanic PUninit.
Proof.
  split; [|exact ex_f4_cold]. destruct ex_f4_fixed as (A & B & _ & C & D0 & _).
  split; [exact A|]. split; [exact B|]. split; [exact C | exact D0].
Qed.
Check C26_example_memoless_dependency_fixed :
  (let r := run prog_f4 [1] lru2 ops_f4 in
   last (snd r) PFuel = POk 7 /\
   evalo prog_f4 FUEL (snap_of (ps_db (fst r))) (0, 0) = Some 7 /\
   option_map (fun m => (m_untracked m, m_edges m, m_verified m))
     (d_memo (ps_db (fst (run prog_f4 [1] lru2 (firstn 10 ops_f4)))) (0, 0)) = Some (false, [EQ (1, 0)], 2) /\
   d_memo (ps_db (fst (run prog_f4 [1] lru2 (firstn 8 ops_f4)))) (1, 0) = None) /\
  last (snd (run prog_f4 [1] lru2
    [OGet (0, 1); OGet (1, 1); OGet (1, 2); OSynth 0; OGet (0, 1); OSnapshot; ORestore;
     OGet (0, 0); OSnapshot; ORestore; OSet (0, 0) 7 None; OGet (0, 0)])) PFuel = PPanic PUninit.
Print Assumptions C26_example_memoless_dependency_fixed.

(* ------------------------------------------------------------------------------------
   REFUTATIONS of the unrestricted property on the faithful model (each witness was replayed
   on the real crate with the same outcome, see checks/notes/C26.txt):

   1. results: a restored memo whose origin keeps an edge to a persisted function that has not
      been called in the new database: verifying it reaches the function ingredient through its
      dynamic entry before its view caster was initialised, and panics. *)
Theorem C26_results_refuted_uninitialised_ingredient :
  exists (prog : qkey -> body) (ops : list op),
    let r := run prog [1] lru2 ops in
    last (snd r) PFuel = PPanic PUninit /\
    evalo prog FUEL (snap_of (ps_db (fst r))) (0, 0) = Some 1 /\ last ops OEvict = OGet (0, 0).
Proof.
  exists prog_f1, ops_f1. cbv zeta. destruct ex_f1 as (A & B). rewrite A.
  split; [reflexivity|]. split; [exact B | reflexivity].
Qed.
Check C26_results_refuted_uninitialised_ingredient :
  exists (prog : qkey -> body) (ops : list op),
    let r := run prog [1] lru2 ops in
    last (snd r) PFuel = PPanic PUninit /\
    evalo prog FUEL (snap_of (ps_db (fst r))) (0, 0) = Some 1 /\ last ops OEvict = OGet (0, 0).
Print Assumptions C26_results_refuted_uninitialised_ingredient.

(* 2. reuse: a persisted dependency whose value was evicted (LRU) when the snapshot was taken is
      not serialised at all; the restored caller, none of whose inputs ever changed, is executed
      again — the same history without snapshot/restore validates it. *)
Theorem C26_reuse_refuted_evicted_dependency :
  exists (prog : qkey -> body) (ops twin : list op),
    let r := run prog [1] lru2 ops in
    let t := run prog [1] lru2 twin in
    firstn 2 (d_log (ps_db (fst r))) = [EvExec (1, 0); EvExec (0, 0)] /\
    firstn 2 (d_log (ps_db (fst t))) = [EvValidate (0, 0); EvValidate (1, 0)] /\
    (forall i, f_changed (d_in (ps_db (fst r)) i) = 1) /\
    last ops OEvict = OGet (0, 0) /\ last twin OEvict = OGet (0, 0).
Proof.
  exists prog_f3, ops_f3, ops_f3_twin. cbv zeta. destruct ex_f3 as (_ & _ & A & B & C).
  repeat split; assumption || reflexivity.
Qed.
Check C26_reuse_refuted_evicted_dependency :
  exists (prog : qkey -> body) (ops twin : list op),
    let r := run prog [1] lru2 ops in
    let t := run prog [1] lru2 twin in
    firstn 2 (d_log (ps_db (fst r))) = [EvExec (1, 0); EvExec (0, 0)] /\
    firstn 2 (d_log (ps_db (fst t))) = [EvValidate (0, 0); EvValidate (1, 0)] /\
    (forall i, f_changed (d_in (ps_db (fst r)) i) = 1) /\
    last ops OEvict = OGet (0, 0) /\ last twin OEvict = OGet (0, 0).
Print Assumptions C26_reuse_refuted_evicted_dependency.

(* ------------------------------------------------------------------------------------
   RESULTS.  The invariant of the Core model (Core/DInv*.v) ported to the persist-mode model,
   for inputs of all durabilities, LRU eviction, untracked reads, injected panics.

   (P1) Histories with snapshots but WITHOUT restore, every program, every choice of persisted
   functions: each request returns the from-scratch value of the current inputs or unwinds with
   a panic of the base model — outside the known class (a request that hits an uninitialised
   function ingredient; the hypothesis is kept to have one shape of statement).  This is C01
   for the persist-mode model (every read recorded, edges never discarded). *)
Theorem C26_results_no_restore :
  forall (prog : qkey -> body) (noeq : qkey -> bool) (pfam : N -> bool) (fams : list N)
         (lru0 : N -> lru_state) (rank : qkey -> nat),
    calls_below prog rank -> forall NF : nat, (forall q, (rank q < NF)%nat) ->
    forall fuel sfuel : nat, (forall p, (rank p < fuel)%nat) ->
    forall (iv : ikey -> val) (idur : ikey -> dur) (ops : list op),
      (forall i, idur i <= 3) -> Forall dur_op ops -> wf_ops false false ops ->
      ~ In ORestore ops ->
      known_class_free prog noeq pfam fams lru0 sfuel fuel (pinit iv idur lru0) ops ->
      results_ok prog noeq pfam fams lru0 NF sfuel fuel (pinit iv idur lru0) ops.
Proof. exact PTop.results_no_restore. Qed.
Check C26_results_no_restore :
  forall (prog : qkey -> body) (noeq : qkey -> bool) (pfam : N -> bool) (fams : list N)
         (lru0 : N -> lru_state) (rank : qkey -> nat),
    calls_below prog rank -> forall NF : nat, (forall q, (rank q < NF)%nat) ->
    forall fuel sfuel : nat, (forall p, (rank p < fuel)%nat) ->
    forall (iv : ikey -> val) (idur : ikey -> dur) (ops : list op),
      (forall i, idur i <= 3) -> Forall dur_op ops -> wf_ops false false ops ->
      ~ In ORestore ops ->
      known_class_free prog noeq pfam fams lru0 sfuel fuel (pinit iv idur lru0) ops ->
      results_ok prog noeq pfam fams lru0 NF sfuel fuel (pinit iv idur lru0) ops.
Print Assumptions C26_results_no_restore.

(* (P2) restore after snapshot re-establishes the invariant in the fresh database, from ANY state
   that satisfies the invariant (PInvTop.OK: there are ghost histories of inputs and durabilities
   and ghost stamps of dropped memos for which PInv.DInv holds) with no query in flight, for ALL
   durabilities, in two settings:
   - the persisted functions only call persisted functions (nothing is flattened away);
   - the functions that are not persisted only call functions that are not persisted: the
     dependencies that the snapshot flattened away — to any depth — become observers at the
     revisions their memos were verified at, or, when such a memo is older than its caller's (the
     caller was validated by the durability short-cut; PInv.mo_sync, PInv.cconst), at the
     caller's revision (PInv.good, PTop.exp_good), and the restored memo is covered by its
     serialised edges.
   (For EVERY program with all durabilities LOW: the same in the development of
   Persist/LInv*.v, LTop.restore_flat_ok.)
   The revision rewind is sound: the inputs come back with their stamps.  If the external state
   is the one the snapshot saw the restored database is ready for requests (PTop.state_ok false),
   otherwise it is after a new revision (PTop.state_ok true). *)
Theorem C26_restore_reestablishes_invariant :
  forall (prog : qkey -> body) (pfam : N -> bool) (lru0 : N -> lru_state) (rank : qkey -> nat)
         (NF sfuel : nat),
    calls_below prog rank ->
    persisted_closed prog pfam \/ (np_closed prog pfam /\ forall p, (S (rank p) < sfuel)%nat) ->
    forall s ext : db,
      d_stack s = [] ->
      (PInvTop.OK_d prog NF (fun q => pfam (fst q)) s ->
       PTop.state_ok prog pfam NF true (restore (Model.snapshot pfam sfuel s) ext lru0)) /\
      (PInvTop.OK prog NF (fun q => pfam (fst q)) s -> d_cell ext = d_cell s ->
       PTop.state_ok prog pfam NF false (restore (Model.snapshot pfam sfuel s) ext lru0)).
Proof.
  intros prog pfam lru0 rank NF sfuel Hrank Hc s ext Hst.
  assert (G : PTop.restore_good prog pfam lru0 NF sfuel).
  { destruct Hc as [Hc | [Hn Hs]].
    - exact (PTop.restore_good_closed prog pfam lru0 rank (PSem.calls_below_tb prog rank Hrank) NF sfuel Hc).
    - exact (PTop.restore_good_np prog pfam lru0 rank (PSem.calls_below_tb prog rank Hrank) NF sfuel Hn Hs). }
  split.
  - intros Hok. exact (proj1 G s ext Hok Hst).
  - intros Hok He. exact (proj2 G s ext Hok Hst He).
Qed.
Check C26_restore_reestablishes_invariant :
  forall (prog : qkey -> body) (pfam : N -> bool) (lru0 : N -> lru_state) (rank : qkey -> nat)
         (NF sfuel : nat),
    calls_below prog rank ->
    persisted_closed prog pfam \/ (np_closed prog pfam /\ forall p, (S (rank p) < sfuel)%nat) ->
    forall s ext : db,
      d_stack s = [] ->
      (PInvTop.OK_d prog NF (fun q => pfam (fst q)) s ->
       PTop.state_ok prog pfam NF true (restore (Model.snapshot pfam sfuel s) ext lru0)) /\
      (PInvTop.OK prog NF (fun q => pfam (fst q)) s -> d_cell ext = d_cell s ->
       PTop.state_ok prog pfam NF false (restore (Model.snapshot pfam sfuel s) ext lru0)).
Print Assumptions C26_restore_reestablishes_invariant.

(* (P3) C26_results_full_statement with ONE more hypothesis, persisted_closed: histories with
   snapshots, restores, writes of all durabilities, external changes, evictions, injected
   panics; outside the known class every request returns the from-scratch value or unwinds with
   a panic of the base model.  (The hypothesis on the serialisation fuel of the full statement
   is not needed.)  Non-vacuity: Examples.ex_cl_hyps, ex_cl_results. *)
Theorem C26_results_partial :
  forall (prog : qkey -> body) (noeq : qkey -> bool) (pfam : N -> bool) (fams : list N)
         (lru0 : N -> lru_state) (rank : qkey -> nat),
    calls_below prog rank -> forall NF : nat, (forall q, (rank q < NF)%nat) ->
    forall fuel sfuel : nat, (forall p, (rank p < fuel)%nat) ->
    persisted_closed prog pfam ->
    forall (iv : ikey -> val) (idur : ikey -> dur) (ops : list op),
      (forall i, idur i <= 3) -> Forall dur_op ops -> wf_ops false false ops ->
      known_class_free prog noeq pfam fams lru0 sfuel fuel (pinit iv idur lru0) ops ->
      results_ok prog noeq pfam fams lru0 NF sfuel fuel (pinit iv idur lru0) ops.
Proof. exact PTop.results_closed. Qed.
Check C26_results_partial :
  forall (prog : qkey -> body) (noeq : qkey -> bool) (pfam : N -> bool) (fams : list N)
         (lru0 : N -> lru_state) (rank : qkey -> nat),
    calls_below prog rank -> forall NF : nat, (forall q, (rank q < NF)%nat) ->
    forall fuel sfuel : nat, (forall p, (rank p < fuel)%nat) ->
    persisted_closed prog pfam ->
    forall (iv : ikey -> val) (idur : ikey -> dur) (ops : list op),
      (forall i, idur i <= 3) -> Forall dur_op ops -> wf_ops false false ops ->
      known_class_free prog noeq pfam fams lru0 sfuel fuel (pinit iv idur lru0) ops ->
      results_ok prog noeq pfam fams lru0 NF sfuel fuel (pinit iv idur lru0) ops.
Print Assumptions C26_results_partial.

(* (P3') C26_results_full_statement for EVERY program and EVERY choice of persisted functions —
   dependencies flattened away to any depth, repeated snapshot/restore rounds, LRU eviction,
   untracked reads, injected panics — when all durabilities are LOW (the default: inputs are
   created LOW, writes keep or install LOW, synthetic writes are LOW).  Against the FIXED
   flattening (a dependency without memo is kept as an edge).  Non-vacuity:
   Examples.ex_flat_results, ex_f4_results. *)
Theorem C26_results_low :
  forall (prog : qkey -> body) (noeq : qkey -> bool) (pfam : N -> bool) (fams : list N)
         (lru0 : N -> lru_state) (rank : qkey -> nat),
    calls_below prog rank -> forall NF : nat, (forall q, (rank q < NF)%nat) ->
    forall fuel sfuel : nat, (forall p, (rank p < fuel)%nat) -> (forall p, (S (rank p) < sfuel)%nat) ->
    forall (iv : ikey -> val) (ops : list op),
      Forall low_op ops -> wf_ops false false ops ->
      known_class_free prog noeq pfam fams lru0 sfuel fuel (pinit iv (fun _ => 0) lru0) ops ->
      results_ok prog noeq pfam fams lru0 NF sfuel fuel (pinit iv (fun _ => 0) lru0) ops.
Proof. exact LTop.results_low. Qed.
Check C26_results_low :
  forall (prog : qkey -> body) (noeq : qkey -> bool) (pfam : N -> bool) (fams : list N)
         (lru0 : N -> lru_state) (rank : qkey -> nat),
    calls_below prog rank -> forall NF : nat, (forall q, (rank q < NF)%nat) ->
    forall fuel sfuel : nat, (forall p, (rank p < fuel)%nat) -> (forall p, (S (rank p) < sfuel)%nat) ->
    forall (iv : ikey -> val) (ops : list op),
      Forall low_op ops -> wf_ops false false ops ->
      known_class_free prog noeq pfam fams lru0 sfuel fuel (pinit iv (fun _ => 0) lru0) ops ->
      results_ok prog noeq pfam fams lru0 NF sfuel fuel (pinit iv (fun _ => 0) lru0) ops.
Print Assumptions C26_results_low.

(* (P3'') C26_results_full_statement with ONE more hypothesis, for ALL durabilities: the
   functions that are not persisted only call functions that are not persisted (np_closed) —
   the usual shape: persisted entry points over non-persisted helpers over inputs.  Dependencies
   flattened away to any depth, memos validated by the durability short-cut while their
   dependencies' memos stayed older, durability-changing writes, repeated snapshot/restore
   rounds.  Non-vacuity: Examples.ex_high_results (a HIGH memo validated by the short-cut before
   the snapshot, flattened, restored, then invalidated by a HIGH write). *)
Theorem C26_results_np :
  forall (prog : qkey -> body) (noeq : qkey -> bool) (pfam : N -> bool) (fams : list N)
         (lru0 : N -> lru_state) (rank : qkey -> nat),
    calls_below prog rank -> forall NF : nat, (forall q, (rank q < NF)%nat) ->
    forall fuel sfuel : nat, (forall p, (rank p < fuel)%nat) -> (forall p, (S (rank p) < sfuel)%nat) ->
    np_closed prog pfam ->
    forall (iv : ikey -> val) (idur : ikey -> dur) (ops : list op),
      (forall i, idur i <= 3) -> Forall dur_op ops -> wf_ops false false ops ->
      known_class_free prog noeq pfam fams lru0 sfuel fuel (pinit iv idur lru0) ops ->
      results_ok prog noeq pfam fams lru0 NF sfuel fuel (pinit iv idur lru0) ops.
Proof. exact PTop.results_np. Qed.
Check C26_results_np :
  forall (prog : qkey -> body) (noeq : qkey -> bool) (pfam : N -> bool) (fams : list N)
         (lru0 : N -> lru_state) (rank : qkey -> nat),
    calls_below prog rank -> forall NF : nat, (forall q, (rank q < NF)%nat) ->
    forall fuel sfuel : nat, (forall p, (rank p < fuel)%nat) -> (forall p, (S (rank p) < sfuel)%nat) ->
    np_closed prog pfam ->
    forall (iv : ikey -> val) (idur : ikey -> dur) (ops : list op),
      (forall i, idur i <= 3) -> Forall dur_op ops -> wf_ops false false ops ->
      known_class_free prog noeq pfam fams lru0 sfuel fuel (pinit iv idur lru0) ops ->
      results_ok prog noeq pfam fams lru0 NF sfuel fuel (pinit iv idur lru0) ops.
Print Assumptions C26_results_np.

(* (P4) strictly: in the three settings above the ONLY panic of the base model that can unwind a
   request is an injected fault while some fault switch is on — in particular the
   backdate-violation assertion of debug builds is unreachable: changed_at stamps never
   decrease (PInv.ext_mono), across re-execution, eviction, snapshot and restore (the stamp of a
   memo that a restore dropped is kept in a ghost table, PInv.phi). *)
Theorem C26_results_strict :
  forall (prog : qkey -> body) (noeq : qkey -> bool) (pfam : N -> bool) (fams : list N)
         (lru0 : N -> lru_state) (rank : qkey -> nat),
    calls_below prog rank -> forall NF : nat, (forall q, (rank q < NF)%nat) ->
    forall fuel sfuel : nat, (forall p, (rank p < fuel)%nat) ->
    (forall (iv : ikey -> val) (idur : ikey -> dur) (ops : list op),
       (forall i, idur i <= 3) -> Forall dur_op ops -> wf_ops false false ops ->
       (~ In ORestore ops \/ persisted_closed prog pfam \/
        (np_closed prog pfam /\ forall p, (S (rank p) < sfuel)%nat)) ->
       known_class_free prog noeq pfam fams lru0 sfuel fuel (pinit iv idur lru0) ops ->
       results_ok_strict prog noeq pfam fams lru0 NF sfuel fuel (pinit iv idur lru0) ops) /\
    ((forall p, (S (rank p) < sfuel)%nat) ->
     forall (iv : ikey -> val) (ops : list op),
       Forall low_op ops -> wf_ops false false ops ->
       known_class_free prog noeq pfam fams lru0 sfuel fuel (pinit iv (fun _ => 0) lru0) ops ->
       results_ok_strict prog noeq pfam fams lru0 NF sfuel fuel (pinit iv (fun _ => 0) lru0) ops).
Proof.
  intros prog noeq pfam fams lru0 rank Hrank NF Hb fuel sfuel Hf. split.
  - intros iv idur ops Hid Hd Hw Hcase Hk.
    exact (PTop.results_strict prog noeq pfam fams lru0 rank Hrank NF Hb fuel sfuel Hf iv idur ops Hid Hd Hw Hcase Hk).
  - intros Hs iv ops Hl Hw Hk.
    exact (LTop.results_low_strict prog noeq pfam fams lru0 rank Hrank NF Hb fuel sfuel Hf Hs iv ops Hl Hw Hk).
Qed.
Check C26_results_strict :
  forall (prog : qkey -> body) (noeq : qkey -> bool) (pfam : N -> bool) (fams : list N)
         (lru0 : N -> lru_state) (rank : qkey -> nat),
    calls_below prog rank -> forall NF : nat, (forall q, (rank q < NF)%nat) ->
    forall fuel sfuel : nat, (forall p, (rank p < fuel)%nat) ->
    (forall (iv : ikey -> val) (idur : ikey -> dur) (ops : list op),
       (forall i, idur i <= 3) -> Forall dur_op ops -> wf_ops false false ops ->
       (~ In ORestore ops \/ persisted_closed prog pfam \/
        (np_closed prog pfam /\ forall p, (S (rank p) < sfuel)%nat)) ->
       known_class_free prog noeq pfam fams lru0 sfuel fuel (pinit iv idur lru0) ops ->
       results_ok_strict prog noeq pfam fams lru0 NF sfuel fuel (pinit iv idur lru0) ops) /\
    ((forall p, (S (rank p) < sfuel)%nat) ->
     forall (iv : ikey -> val) (ops : list op),
       Forall low_op ops -> wf_ops false false ops ->
       known_class_free prog noeq pfam fams lru0 sfuel fuel (pinit iv (fun _ => 0) lru0) ops ->
       results_ok_strict prog noeq pfam fams lru0 NF sfuel fuel (pinit iv (fun _ => 0) lru0) ops).
Print Assumptions C26_results_strict.

(* non-vacuity of the three theorems: a persisted-closed program with a write of durability
   HIGH, a snapshot, a write that the restore undoes, a restore, a write to a leaf of a restored
   memo — the hypotheses hold and the requests return what the theorem says; a history without
   restore over the partial_query program (the snapshot flattens); restore + a later write to a
   FLATTENED leaf of the restored memo over partial_query, and the history of the former
   memo-less-dependency stale value: both instances of C26_results_low *)
Theorem C26_example_results :
  (calls_below prog_cl rank_cl /\ (forall q, (rank_cl q < FUEL)%nat) /\
   persisted_closed prog_cl Examples.pfam /\
   Forall dur_op ops_cl /\ wf_ops false false ops_cl /\
   known_class_free prog_cl Examples.noeq Examples.pfam [1] lru2 FUEL FUEL (pinit Examples.iv (fun _ => 0) lru2) ops_cl) /\
  (results_ok prog_cl Examples.noeq Examples.pfam [1] lru2 FUEL FUEL FUEL (pinit Examples.iv (fun _ => 0) lru2) ops_cl /\
   snd (run prog_cl [1] lru2 ops_cl)
   = [POk 2; POk 0; POk 6; POk 0; POk 0; POk 14; POk 0; POk 1; POk 6; POk 0; POk 12; POk 0; POk 12]) /\
  (results_ok prog_pq Examples.noeq Examples.pfam [] nolru FUEL FUEL FUEL (pinit Examples.iv (fun _ => 0) nolru) ops_nr /\
   snd (run prog_pq [] nolru ops_nr) = [POk 2; POk 0; POk 0; POk 8; POk 0; POk 0; POk 0; POk 7]) /\
  (let r := run prog_pq [] nolru ops_flat in
   results_ok prog_pq Examples.noeq Examples.pfam [] nolru FUEL FUEL FUEL (pinit Examples.iv (fun _ => 0) nolru) ops_flat /\
   snd r = [POk 2; POk 0; POk 0; POk 2; POk 0; POk 8; POk 7; POk 0; POk 0; POk 0; POk 8; POk 0; POk 8] /\
   Forall low_op ops_flat /\ wf_ops false false ops_flat /\ ~ persisted_closed prog_pq Examples.pfam) /\
  results_ok prog_f4 Examples.noeq Examples.pfam [1] lru2 FUEL FUEL FUEL (pinit Examples.iv (fun _ => 0) lru2) ops_f4.
Proof. exact (conj ex_cl_hyps (conj ex_cl_results (conj ex_nr_results (conj ex_flat_results ex_f4_results)))). Qed.
Check C26_example_results :
  (calls_below prog_cl rank_cl /\ (forall q, (rank_cl q < FUEL)%nat) /\
   persisted_closed prog_cl Examples.pfam /\
   Forall dur_op ops_cl /\ wf_ops false false ops_cl /\
   known_class_free prog_cl Examples.noeq Examples.pfam [1] lru2 FUEL FUEL (pinit Examples.iv (fun _ => 0) lru2) ops_cl) /\
  (results_ok prog_cl Examples.noeq Examples.pfam [1] lru2 FUEL FUEL FUEL (pinit Examples.iv (fun _ => 0) lru2) ops_cl /\
   snd (run prog_cl [1] lru2 ops_cl)
   = [POk 2; POk 0; POk 6; POk 0; POk 0; POk 14; POk 0; POk 1; POk 6; POk 0; POk 12; POk 0; POk 12]) /\
  (results_ok prog_pq Examples.noeq Examples.pfam [] nolru FUEL FUEL FUEL (pinit Examples.iv (fun _ => 0) nolru) ops_nr /\
   snd (run prog_pq [] nolru ops_nr) = [POk 2; POk 0; POk 0; POk 8; POk 0; POk 0; POk 0; POk 7]) /\
  (let r := run prog_pq [] nolru ops_flat in
   results_ok prog_pq Examples.noeq Examples.pfam [] nolru FUEL FUEL FUEL (pinit Examples.iv (fun _ => 0) nolru) ops_flat /\
   snd r = [POk 2; POk 0; POk 0; POk 2; POk 0; POk 8; POk 7; POk 0; POk 0; POk 0; POk 8; POk 0; POk 8] /\
   Forall low_op ops_flat /\ wf_ops false false ops_flat /\ ~ persisted_closed prog_pq Examples.pfam) /\
  results_ok prog_f4 Examples.noeq Examples.pfam [1] lru2 FUEL FUEL FUEL (pinit Examples.iv (fun _ => 0) lru2) ops_f4.
Print Assumptions C26_example_results.

(* non-vacuity of C26_results_np (replayed on the real crate with the same values, events and
   states): a HIGH-durability persisted memo validated by the durability short-cut before the
   snapshot, flattened through a non-persisted function, restored; a synthetic HIGH write leaves
   it valid (validated through its flattened leaf), a HIGH write to the leaf invalidates it, and
   so does a write that makes the leaf LOW again: the theorem applies, and this is what the
   requests return *)
Theorem C26_example_high_durability_flattened :
  let r := run prog_pq [] nolru ops_high in
  results_ok prog_pq Examples.noeq Examples.pfam [] nolru FUEL FUEL FUEL (pinit Examples.iv (fun _ => 0) nolru) ops_high /\
  snd r = [POk 0; POk 5; POk 0; POk 5; POk 0; POk 0; POk 5; POk 0; POk 5; POk 0; POk 8; POk 0; POk 0;
           POk 0; POk 9; POk 8] /\
  wf_ops false false ops_high /\ Forall dur_op ops_high /\
  List.rev (d_log (ps_db (fst r)))
  = [EvExec (0, 0); EvExec (3, 0); EvValidate (0, 0); EvValidate (0, 0); EvExec (0, 0); EvExec (3, 0);
     EvExec (0, 0); EvExec (3, 0)] /\
  option_map (fun m => (m_dur m, m_verified m, m_edges m))
    (d_memo (ps_db (fst (run prog_pq [] nolru (firstn 6 ops_high)))) (0, 0)) = Some (2, 3, [EIn (0, 0)]).
Proof. exact ex_high_results. Qed.
Check C26_example_high_durability_flattened :
  let r := run prog_pq [] nolru ops_high in
  results_ok prog_pq Examples.noeq Examples.pfam [] nolru FUEL FUEL FUEL (pinit Examples.iv (fun _ => 0) nolru) ops_high /\
  snd r = [POk 0; POk 5; POk 0; POk 5; POk 0; POk 0; POk 5; POk 0; POk 5; POk 0; POk 8; POk 0; POk 0;
           POk 0; POk 9; POk 8] /\
  wf_ops false false ops_high /\ Forall dur_op ops_high /\
  List.rev (d_log (ps_db (fst r)))
  = [EvExec (0, 0); EvExec (3, 0); EvValidate (0, 0); EvValidate (0, 0); EvExec (0, 0); EvExec (3, 0);
     EvExec (0, 0); EvExec (3, 0)] /\
  option_map (fun m => (m_dur m, m_verified m, m_edges m))
    (d_memo (ps_db (fst (run prog_pq [] nolru (firstn 6 ops_high)))) (0, 0)) = Some (2, 3, [EIn (0, 0)]).
Print Assumptions C26_example_high_durability_flattened.

(* the positive statement outside the known class without an extra hypothesis, kept visible.
   PROVED: without restore (C26_results_no_restore); with persisted_closed (C26_results_partial)
   or np_closed (C26_results_np), all durabilities; for EVERY program with LOW durabilities
   (C26_results_low).  NOT proved: a program in which a non-persisted function calls a persisted
   one, with some durability above LOW (see Persist/Statement.v): *)
Check C26_results_full_statement : Prop.
Print C26_results_full_statement.

(* C20 — Writes exclude and cancel concurrent readers; results never mix revisions.
   State-machine level (Cancel/Model.v: writer/reader machine, stamp rule). *)
From Salsa Require Import Base.
From Salsa.Cancel Require Import Model Proofs.

Theorem C20_exclusive :
  forall s a w s' o,
    wreach s -> needs_exclusive a = Some w -> wstep s a = Some (s', o) ->
    w_clones s = 1 /\ w_arc s = 1 /\
    exists g, w_hs s = [g] /\ h_id g = w /\ h_cloning g = false.
Proof. exact C20_exclusive_lemma. Qed.

Check C20_exclusive :
  forall s a w s' o,
    wreach s -> needs_exclusive a = Some w -> wstep s a = Some (s', o) ->
    w_clones s = 1 /\ w_arc s = 1 /\
    exists g, w_hs s = [g] /\ h_id g = w /\ h_cloning g = false.
Print Assumptions C20_exclusive.

Theorem C20_cancelled :
  (forall s h tok s' o,
     w_flag s = true -> wstep s (ACheck h tok) = Some (s', o) ->
     (tok = CANCELLED_MASK -> o = WOutcome OLocal) /\
     (tok <> CANCELLED_MASK -> o = WOutcome OPendingWrite) /\
     o <> WOutcome OContinue /\
     exists e, st_of s h = Some (HRunning e) /\
               s' = with_hs s (upd_h (w_hs s) h (set_st (HUnwinding e)))) /\
  (forall s, wreach s ->
     (w_flag s = true <-> exists g, In g (w_hs s) /\ flag_phase (h_st g) = true)).
Proof. exact C20_cancelled_lemma. Qed.

Check C20_cancelled :
  (forall s h tok s' o,
     w_flag s = true -> wstep s (ACheck h tok) = Some (s', o) ->
     (tok = CANCELLED_MASK -> o = WOutcome OLocal) /\
     (tok <> CANCELLED_MASK -> o = WOutcome OPendingWrite) /\
     o <> WOutcome OContinue /\
     exists e, st_of s h = Some (HRunning e) /\
               s' = with_hs s (upd_h (w_hs s) h (set_st (HUnwinding e)))) /\
  (forall s, wreach s ->
     (w_flag s = true <-> exists g, In g (w_hs s) /\ flag_phase (h_st g) = true)).
Print Assumptions C20_cancelled.

Theorem C20_progress :
  (forall s a h w s' o,
     wreach s -> draining s a = Some h -> h <> w -> wstep s a = Some (s', o) ->
     (w_measure w s' < w_measure w s)%nat) /\
  (forall s w,
     wreach s -> st_of s w = Some HWEvent -> w_measure w s = 0%nat ->
     w_clones s = 1 /\ exists s', wstep s (AWWait w) = Some (s', WNone)).
Proof. exact C20_progress_lemma. Qed.

Check C20_progress :
  (forall s a h w s' o,
     wreach s -> draining s a = Some h -> h <> w -> wstep s a = Some (s', o) ->
     (w_measure w s' < w_measure w s)%nat) /\
  (forall s w,
     wreach s -> st_of s w = Some HWEvent -> w_measure w s = 0%nat ->
     w_clones s = 1 /\ exists s', wstep s (AWWait w) = Some (s', WNone)).
Print Assumptions C20_progress.

Theorem C20_no_mix_stamp :
  (forall s w s1 o acts s2,
     wreach s -> wstep s (AWBump w) = Some (s1, o) -> wrun s1 acts = Some s2 ->
     forall st, In st (w_stamps s) ->
       stamp_accepts (w_epoch s2) st = false /\
       ((fst st = fst (w_epoch s2) /\ snd st < snd (w_epoch s2)) \/ fst st < fst (w_epoch s2))) /\
  (forall cur_rev cur_count verified_at stamp hv mp ih rest,
     stamp_accepts (cur_rev, cur_count) (verified_at, stamp_count stamp) = false ->
     (previous_iteration cur_rev cur_count verified_at stamp hv ih = PIOtherRevision \/
      previous_iteration cur_rev cur_count verified_at stamp hv ih = PIDiscard) /\
     fetch_cold_cycle cur_rev cur_count verified_at stamp hv mp ih
       = CCInitial (stamp_new 0 cur_count) /\
     validate_may_be_provisional cur_rev cur_count verified_at stamp false rest = false) /\
  (forall s h e, wreach s -> In h (w_hs s) ->
     (h_st h = HRunning e \/ h_st h = HUnwinding e) -> e = w_epoch s).
Proof. exact C20_no_mix_stamp_lemma. Qed.

Check C20_no_mix_stamp :
  (forall s w s1 o acts s2,
     wreach s -> wstep s (AWBump w) = Some (s1, o) -> wrun s1 acts = Some s2 ->
     forall st, In st (w_stamps s) ->
       stamp_accepts (w_epoch s2) st = false /\
       ((fst st = fst (w_epoch s2) /\ snd st < snd (w_epoch s2)) \/ fst st < fst (w_epoch s2))) /\
  (forall cur_rev cur_count verified_at stamp hv mp ih rest,
     stamp_accepts (cur_rev, cur_count) (verified_at, stamp_count stamp) = false ->
     (previous_iteration cur_rev cur_count verified_at stamp hv ih = PIOtherRevision \/
      previous_iteration cur_rev cur_count verified_at stamp hv ih = PIDiscard) /\
     fetch_cold_cycle cur_rev cur_count verified_at stamp hv mp ih
       = CCInitial (stamp_new 0 cur_count) /\
     validate_may_be_provisional cur_rev cur_count verified_at stamp false rest = false) /\
  (forall s h e, wreach s -> In h (w_hs s) ->
     (h_st h = HRunning e \/ h_st h = HUnwinding e) -> e = w_epoch s).
Print Assumptions C20_no_mix_stamp.

(* Props/C06.v — tracked struct identities survive re-execution; dropped structs are discarded.
   Statements only.  All theorems are about the Structs LAYER (coq/Structs/Machine.v): every
   history of executions that begin, create structs, specify, complete, in any interleaving,
   for every identity-hash function [idhash] (collisions included) and every family layout;
   executions that unwind (panic) are outside (checks/notes/C06.txt). *)
From Salsa Require Import Base.
From Salsa.Structs Require Import Model Machine ProofsStep Theorems Examples.

(* C06_distinct: at any time the ids held by running executions and stored memos are the
   current ids of live slots; ids held by different holders have different slot indices, hence
   differ as (index, generation); one holder never lists a slot twice. *)
Theorem C06_distinct :
  forall (skind : N -> bool) (sfams : list N) (idhash : val -> N) (n : nat),
  (forall fam, In fam sfams -> skind fam = true) ->
  forall iv idur es s F,
  mrun skind sfams idhash n (init iv idur, []) es = Some (s, F) ->
  (forall o h, owns skind s F o h -> live s h) /\
  (forall o1 o2 h1 h2, owns skind s F o1 h1 -> owns skind s F o2 h2 -> o1 <> o2 ->
     fst h1 <> fst h2 /\ h1 <> h2) /\
  (forall o ids, owner_ids skind s F o ids -> NoDup (map fst ids) /\ NoDup ids).
Proof. intros skind sfams idhash n H. exact (distinct_ids skind sfams idhash n H). Qed.
Check C06_distinct :
  forall (skind : N -> bool) (sfams : list N) (idhash : val -> N) (n : nat),
  (forall fam, In fam sfams -> skind fam = true) ->
  forall iv idur es s F,
  mrun skind sfams idhash n (init iv idur, []) es = Some (s, F) ->
  (forall o h, owns skind s F o h -> live s h) /\
  (forall o1 o2 h1 h2, owns skind s F o1 h1 -> owns skind s F o2 h2 -> o1 <> o2 ->
     fst h1 <> fst h2 /\ h1 <> h2) /\
  (forall o ids, owner_ids skind s F o ids -> NoDup (map fst ids) /\ NoDup ids).
Print Assumptions C06_distinct.

(* C06_stable: in any state satisfying the invariant (every reachable state does: C07_invariant),
   a creation whose identity (identity hash, disambiguator = number of earlier creations with
   that hash in this execution) is in the identity map seeded from the previous execution, and
   whose slot holds the same identity VALUE, returns the very same id, emits no event, keeps the
   slot's generation and its memo table (so memos keyed by the struct survive), and marks the
   entry active (so it is not discarded at completion).  The generation bound excludes the
   2^32-th reuse of one slot.  Scope: "same per-identity order" is per identity-HASH class; for
   a hash that is injective on the values used this is the property text, under forced hash
   collisions of different values it is not (C06_stable_collision_witness). *)
Theorem C06_stable :
  forall (skind : N -> bool) (sfams : list N) (idhash : val -> N) (n : nat),
  forall s F q fr idv f0 f1 l1 e l2 sl s' h fr',
  OInv skind s F -> In (q, fr) F ->
  fr_ids fr = l1 ++ e :: l2 ->
  key_eqb (te_ident e) (idhash idv, cnt_get (fr_disamb fr) (idhash idv)) = true ->
  (forall x, In x l1 -> key_eqb (te_ident x) (idhash idv, cnt_get (fr_disamb fr) (idhash idv)) = false) ->
  d_slots s (fst (te_id e)) = Some sl -> sl_idv sl = idv -> snd (te_id e) + 1 < 4294967296 ->
  new_struct skind sfams idhash n q idv f0 f1 fr s = (s', SOk (h, fr')) ->
  h = te_id e /\ d_log s' = d_log s /\
  exists sl', d_slots s' (fst h) = Some sl' /\ sl_gen sl' = sl_gen sl /\ sl_gen sl' = snd h /\
              sl_updated sl' = Some (cur s) /\ (forall fam, sl_memos sl' fam = sl_memos sl fam) /\
              is_active (fr_ids fr') h = true.
Proof. exact stable_recreation. Qed.
Check C06_stable :
  forall (skind : N -> bool) (sfams : list N) (idhash : val -> N) (n : nat),
  forall s F q fr idv f0 f1 l1 e l2 sl s' h fr',
  OInv skind s F -> In (q, fr) F ->
  fr_ids fr = l1 ++ e :: l2 ->
  key_eqb (te_ident e) (idhash idv, cnt_get (fr_disamb fr) (idhash idv)) = true ->
  (forall x, In x l1 -> key_eqb (te_ident x) (idhash idv, cnt_get (fr_disamb fr) (idhash idv)) = false) ->
  d_slots s (fst (te_id e)) = Some sl -> sl_idv sl = idv -> snd (te_id e) + 1 < 4294967296 ->
  new_struct skind sfams idhash n q idv f0 f1 fr s = (s', SOk (h, fr')) ->
  h = te_id e /\ d_log s' = d_log s /\
  exists sl', d_slots s' (fst h) = Some sl' /\ sl_gen sl' = sl_gen sl /\ sl_gen sl' = snd h /\
              sl_updated sl' = Some (cur s) /\ (forall fam, sl_memos sl' fam = sl_memos sl fam) /\
              is_active (fr_ids fr') h = true.
Print Assumptions C06_stable.

(* C06_discard: when an execution completes, (a) its stored memo lists exactly the entries it
   created or recreated (the active ones), the memo is stored, every listed id is live;
   (b) every seeded entry it did not recreate is deleted (when the previous memo was computed,
   not assigned): write lock None, memo table empty, id on the free list, not enumerated. *)
Theorem C06_discard :
  forall (skind : N -> bool) (sfams : list N) (n : nat),
  (forall fam, In fam sfams -> skind fam = true) ->
  forall s F q fr v s' m,
  OInv skind s F -> In (q, fr) F ->
  finish_exec skind sfams n q (peek_memo skind s (loc_of q)) v fr s = (s', SOk m) ->
  (mids m = map te_id (filter te_active (fr_ids fr)) /\
   peek_memo skind s' (loc_of q) = Some m /\
   (forall h, In h (mids m) -> live s' h)) /\
  (forall o e, peek_memo skind s (loc_of q) = Some o -> (forall by_, m_origin o <> OAssigned by_) ->
     In e (fr_ids fr) -> te_active e = false ->
     exists sl, d_slots s' (fst (te_id e)) = Some sl /\ sl_updated sl = None /\
                (forall fam, sl_memos sl fam = None) /\ In (te_id e) (d_free s') /\
                ~ In (fst (te_id e)) (live_slots s' (N.to_nat (d_nslots s')))).
Proof.
  intros skind sfams n Hsk s F q fr v s' m I Hq H. split.
  - exact (kept_exactly skind sfams n Hsk s F q fr v s' m I Hq H).
  - intros o e Ho Hor He Ha. exact (discard_stale skind sfams n s F q fr v s' m o e I Hq Ho Hor H He Ha).
Qed.
Check C06_discard :
  forall (skind : N -> bool) (sfams : list N) (n : nat),
  (forall fam, In fam sfams -> skind fam = true) ->
  forall s F q fr v s' m,
  OInv skind s F -> In (q, fr) F ->
  finish_exec skind sfams n q (peek_memo skind s (loc_of q)) v fr s = (s', SOk m) ->
  (mids m = map te_id (filter te_active (fr_ids fr)) /\
   peek_memo skind s' (loc_of q) = Some m /\
   (forall h, In h (mids m) -> live s' h)) /\
  (forall o e, peek_memo skind s (loc_of q) = Some o -> (forall by_, m_origin o <> OAssigned by_) ->
     In e (fr_ids fr) -> te_active e = false ->
     exists sl, d_slots s' (fst (te_id e)) = Some sl /\ sl_updated sl = None /\
                (forall fam, sl_memos sl fam = None) /\ In (te_id e) (d_free s') /\
                ~ In (fst (te_id e)) (live_slots s' (N.to_nat (d_nslots s')))).
Print Assumptions C06_discard.

(* Witness for the scope of C06_stable (replayed on the implementation by checks/C06.py):
   creations [0; 2] then [2; 0] keep the per-identity-value order; with an injective hash the
   ids are kept, with hash = value mod 2 both structs receive a new generation. *)
Theorem C06_stable_collision_witness :
  nth_error (snd (run_case coll2_nodes coll2_ival coll2_idur coll2_ops coll2_nk coll2_idhash)) 0
    = Some (SOk (0, [(0, 0); (1, 0)])) /\
  nth_error (snd (run_case coll2_nodes coll2_ival coll2_idur coll2_ops coll2_nk coll2_idhash)) 2
    = Some (SOk (0, [(0, 1); (1, 1)])) /\
  nth_error (snd (run_case coll0_nodes coll0_ival coll0_idur coll0_ops coll0_nk coll0_idhash)) 2
    = Some (SOk (0, [(1, 0); (0, 0)])).
Proof. exact collision_changes_ids. Qed.
Print Assumptions C06_stable_collision_witness.

(* Non-vacuity: a history with two creators, a recreation in place, an identity change under a
   hash collision (generation bump), a discarded struct and the reuse of its slot with the next
   generation reaches a state satisfying the invariant; a cascade through a memo keyed by a
   discarded struct. *)
Example C06_nonvacuous_history :
  exists s F, mrun skind5 sfams5 hmod2 10%nat (init (fun _ => 0) (fun _ => 0), []) hist1 = Some (s, F) /\
              OInv skind5 s F.
Proof. exact hist1_invariant. Qed.
Example C06_nonvacuous_cascade :
  match mrun skind5 sfams5 hmod2 10%nat (init (fun _ => 0) (fun _ => 0), []) hist2 with
  | Some (s, F) =>
      d_free s = [(1, 0); (0, 0)] /\ live_slots s 2 = [] /\
      List.rev (d_log s) = [EvWillDiscard qa (0, 0); EvDiscardS (0, 0); EvDiscardM (2, (0, 0)); EvDiscardS (1, 0)]
  | None => False
  end.
Proof. exact hist2_cascade. Qed.

(* Props/C06.v — tracked struct identities survive re-execution; dropped structs are discarded.
   Statements only.  All theorems are about the Structs LAYER (coq/Structs/Machine.v): every
   history of executions that begin, create structs, specify, complete, in any interleaving,
   for every identity-hash function [idhash] (collisions included) and every family layout;
   executions that unwind (panic) are outside (checks/notes/C06.txt). *)
From Salsa Require Import Base.
From Salsa.Structs Require Import Model Dsl Spec Machine ProofsStep Theorems Examples Guard Sim SimExamples
     SSem SInv SRun STop STop2 SAdeq SDsl SParam SParamK SSpec S1Examples S1b SCanon.

(* C06_distinct: at any time the ids held by running executions and stored memos are the
   current ids of live slots; ids held by different holders have different slot indices, hence
   differ as (index, generation); one holder never lists a slot twice. *)
Theorem C06_distinct :
  forall (skind : N -> bool) (sfams : list N) (idhash : val -> N) (n : nat),
  (forall fam, In fam sfams -> skind fam = true) ->
  forall iv idur es s F,
  mrun skind sfams idhash n (init iv idur, []) es = Some (s, F) ->
  (forall o h, owns skind s F o h -> live s h) /\
  (forall o1 o2 h1 h2, owns skind s F o1 h1 -> owns skind s F o2 h2 -> o1 <> o2 ->
     fst h1 <> fst h2 /\ h1 <> h2) /\
  (forall o ids, owner_ids skind s F o ids -> NoDup (map fst ids) /\ NoDup ids).
Proof. intros skind sfams idhash n H. exact (distinct_ids skind sfams idhash n H). Qed.
Check C06_distinct :
  forall (skind : N -> bool) (sfams : list N) (idhash : val -> N) (n : nat),
  (forall fam, In fam sfams -> skind fam = true) ->
  forall iv idur es s F,
  mrun skind sfams idhash n (init iv idur, []) es = Some (s, F) ->
  (forall o h, owns skind s F o h -> live s h) /\
  (forall o1 o2 h1 h2, owns skind s F o1 h1 -> owns skind s F o2 h2 -> o1 <> o2 ->
     fst h1 <> fst h2 /\ h1 <> h2) /\
  (forall o ids, owner_ids skind s F o ids -> NoDup (map fst ids) /\ NoDup ids).
Print Assumptions C06_distinct.

(* C06_stable: in any state satisfying the invariant (every reachable state does: C07_invariant),
   a creation whose identity (identity hash, disambiguator = number of earlier creations with
   that hash in this execution) is in the identity map seeded from the previous execution, and
   whose slot holds the same identity VALUE, returns the very same id, emits no event, keeps the
   slot's generation and its memo table (so memos keyed by the struct survive), and marks the
   entry active (so it is not discarded at completion).  The generation bound excludes the
   2^32-th reuse of one slot.  Scope: "same per-identity order" is per identity-HASH class; for
   a hash that is injective on the values used this is the property text, under forced hash
   collisions of different values it is not (C06_stable_collision_witness). *)
Theorem C06_stable :
  forall (skind : N -> bool) (sfams : list N) (idhash : val -> N) (n : nat),
  forall s F q fr idv f0 f1 l1 e l2 sl s' h fr',
  OInv skind s F -> In (q, fr) F ->
  fr_ids fr = l1 ++ e :: l2 ->
  key_eqb (te_ident e) (idhash idv, cnt_get (fr_disamb fr) (idhash idv)) = true ->
  (forall x, In x l1 -> key_eqb (te_ident x) (idhash idv, cnt_get (fr_disamb fr) (idhash idv)) = false) ->
  d_slots s (fst (te_id e)) = Some sl -> sl_idv sl = idv -> snd (te_id e) + 1 < 4294967296 ->
  new_struct skind sfams idhash n q idv f0 f1 fr s = (s', SOk (h, fr')) ->
  h = te_id e /\ d_log s' = d_log s /\
  exists sl', d_slots s' (fst h) = Some sl' /\ sl_gen sl' = sl_gen sl /\ sl_gen sl' = snd h /\
              sl_updated sl' = Some (cur s) /\ (forall fam, sl_memos sl' fam = sl_memos sl fam) /\
              is_active (fr_ids fr') h = true.
Proof. exact stable_recreation. Qed.
Check C06_stable :
  forall (skind : N -> bool) (sfams : list N) (idhash : val -> N) (n : nat),
  forall s F q fr idv f0 f1 l1 e l2 sl s' h fr',
  OInv skind s F -> In (q, fr) F ->
  fr_ids fr = l1 ++ e :: l2 ->
  key_eqb (te_ident e) (idhash idv, cnt_get (fr_disamb fr) (idhash idv)) = true ->
  (forall x, In x l1 -> key_eqb (te_ident x) (idhash idv, cnt_get (fr_disamb fr) (idhash idv)) = false) ->
  d_slots s (fst (te_id e)) = Some sl -> sl_idv sl = idv -> snd (te_id e) + 1 < 4294967296 ->
  new_struct skind sfams idhash n q idv f0 f1 fr s = (s', SOk (h, fr')) ->
  h = te_id e /\ d_log s' = d_log s /\
  exists sl', d_slots s' (fst h) = Some sl' /\ sl_gen sl' = sl_gen sl /\ sl_gen sl' = snd h /\
              sl_updated sl' = Some (cur s) /\ (forall fam, sl_memos sl' fam = sl_memos sl fam) /\
              is_active (fr_ids fr') h = true.
Print Assumptions C06_stable.

(* C06_discard: when an execution completes, (a) its stored memo lists exactly the entries it
   created or recreated (the active ones), the memo is stored, every listed id is live;
   (b) every seeded entry it did not recreate is deleted (when the previous memo was computed,
   not assigned): write lock None, memo table empty, id on the free list, not enumerated. *)
Theorem C06_discard :
  forall (skind : N -> bool) (sfams : list N) (n : nat),
  (forall fam, In fam sfams -> skind fam = true) ->
  forall s F q fr v s' m,
  OInv skind s F -> In (q, fr) F ->
  finish_exec skind sfams n q (peek_memo skind s (loc_of q)) v fr s = (s', SOk m) ->
  (mids m = map te_id (filter te_active (fr_ids fr)) /\
   peek_memo skind s' (loc_of q) = Some m /\
   (forall h, In h (mids m) -> live s' h)) /\
  (forall o e, peek_memo skind s (loc_of q) = Some o -> (forall by_, m_origin o <> OAssigned by_) ->
     In e (fr_ids fr) -> te_active e = false ->
     exists sl, d_slots s' (fst (te_id e)) = Some sl /\ sl_updated sl = None /\
                (forall fam, sl_memos sl fam = None) /\ In (te_id e) (d_free s') /\
                ~ In (fst (te_id e)) (live_slots s' (N.to_nat (d_nslots s')))).
Proof.
  intros skind sfams n Hsk s F q fr v s' m I Hq H. split.
  - exact (kept_exactly skind sfams n Hsk s F q fr v s' m I Hq H).
  - intros o e Ho Hor He Ha. exact (discard_stale skind sfams n s F q fr v s' m o e I Hq Ho Hor H He Ha).
Qed.
Check C06_discard :
  forall (skind : N -> bool) (sfams : list N) (n : nat),
  (forall fam, In fam sfams -> skind fam = true) ->
  forall s F q fr v s' m,
  OInv skind s F -> In (q, fr) F ->
  finish_exec skind sfams n q (peek_memo skind s (loc_of q)) v fr s = (s', SOk m) ->
  (mids m = map te_id (filter te_active (fr_ids fr)) /\
   peek_memo skind s' (loc_of q) = Some m /\
   (forall h, In h (mids m) -> live s' h)) /\
  (forall o e, peek_memo skind s (loc_of q) = Some o -> (forall by_, m_origin o <> OAssigned by_) ->
     In e (fr_ids fr) -> te_active e = false ->
     exists sl, d_slots s' (fst (te_id e)) = Some sl /\ sl_updated sl = None /\
                (forall fam, sl_memos sl fam = None) /\ In (te_id e) (d_free s') /\
                ~ In (fst (te_id e)) (live_slots s' (N.to_nat (d_nslots s')))).
Print Assumptions C06_discard.

(* Witness for the scope of C06_stable (replayed on the implementation by checks/C06.py):
   creations [0; 2] then [2; 0] keep the per-identity-value order; with an injective hash the
   ids are kept, with hash = value mod 2 both structs receive a new generation. *)
Theorem C06_stable_collision_witness :
  nth_error (snd (run_case coll2_nodes coll2_ival coll2_idur coll2_ops coll2_nk coll2_idhash)) 0
    = Some (SOk (0, [(0, 0); (1, 0)])) /\
  nth_error (snd (run_case coll2_nodes coll2_ival coll2_idur coll2_ops coll2_nk coll2_idhash)) 2
    = Some (SOk (0, [(0, 1); (1, 1)])) /\
  nth_error (snd (run_case coll0_nodes coll0_ival coll0_idur coll0_ops coll0_nk coll0_idhash)) 2
    = Some (SOk (0, [(1, 0); (0, 0)])).
Proof. exact collision_changes_ids. Qed.
Print Assumptions C06_stable_collision_witness.

(* Non-vacuity: a history with two creators, a recreation in place, an identity change under a
   hash collision (generation bump), a discarded struct and the reuse of its slot with the next
   generation reaches a state satisfying the invariant; a cascade through a memo keyed by a
   discarded struct. *)
Example C06_nonvacuous_history :
  exists s F, mrun skind5 sfams5 hmod2 10%nat (init (fun _ => 0) (fun _ => 0), []) hist1 = Some (s, F) /\
              OInv skind5 s F.
Proof. exact hist1_invariant. Qed.
Example C06_nonvacuous_cascade :
  match mrun skind5 sfams5 hmod2 10%nat (init (fun _ => 0) (fun _ => 0), []) hist2 with
  | Some (s, F) =>
      d_free s = [(1, 0); (0, 0)] /\ live_slots s 2 = [] /\
      List.rev (d_log s) = [EvWillDiscard qa (0, 0); EvDiscardS (0, 0); EvDiscardM (2, (0, 0)); EvDiscardS (1, 0)]
  | None => False
  end.
Proof. exact hist2_cascade. Qed.

(* C06_model_invariant: the EXECUTABLE model (Structs/Model.v: run_ops = the API over fetch /
   execute / run_body), not only the event machine.  For every program whose `specify` nodes name
   struct-keyed families (bwf; the Rust type system), every identity hash, every history that is
   handle-safe and does not unwind — the monitored run (Structs/Guard.v: every fetch /
   maybe_changed_after on a struct key checks that the key is the current id of a live slot;
   input keys have generation 0) answers every Get — after EVERY operation (every prefix os1):
   the run of the real model equals the monitored run, and the ids held by stored memos are
   current ids of live slots, different holders hold different slots, no holder lists a slot
   twice.  (Between operations no execution is running: F = [].) *)
Theorem C06_model_invariant :
  forall (prog : qk -> body) (skind : N -> bool) (sfams : list N) (idhash : val -> N),
  (forall fam, In fam sfams -> skind fam = true) ->
  (forall q, bwf skind (prog q)) ->
  forall fuel iv idur os,
  handle_safe prog skind sfams idhash fuel (init iv idur) os = true ->
  forall os1 os2, os = os1 ++ os2 ->
  let s := fst (run_ops prog skind sfams idhash fuel (init iv idur) os1) in
  (forall o h, owns skind s [] o h -> live s h) /\
  (forall o1 o2 h1 h2, owns skind s [] o1 h1 -> owns skind s [] o2 h2 -> o1 <> o2 ->
     fst h1 <> fst h2 /\ h1 <> h2) /\
  (forall o ids, owner_ids skind s [] o ids -> NoDup (map fst ids) /\ NoDup ids).
Proof. exact model_distinct_every_op. Qed.
Check C06_model_invariant :
  forall (prog : qk -> body) (skind : N -> bool) (sfams : list N) (idhash : val -> N),
  (forall fam, In fam sfams -> skind fam = true) ->
  (forall q, bwf skind (prog q)) ->
  forall fuel iv idur os,
  handle_safe prog skind sfams idhash fuel (init iv idur) os = true ->
  forall os1 os2, os = os1 ++ os2 ->
  let s := fst (run_ops prog skind sfams idhash fuel (init iv idur) os1) in
  (forall o h, owns skind s [] o h -> live s h) /\
  (forall o1 o2 h1 h2, owns skind s [] o1 h1 -> owns skind s [] o2 h2 -> o1 <> o2 ->
     fst h1 <> fst h2 /\ h1 <> h2) /\
  (forall o ids, owner_ids skind s [] o ids -> NoDup (map fst ids) /\ NoDup ids).
Print Assumptions C06_model_invariant.

(* Non-vacuity: a DSL program (well-formed) and a handle-safe history with conditional creation,
   deletion cascading into a memo keyed by the struct, re-creation in the reused slot (0,1) and a
   dependent that re-executes. *)
Example C06_model_nonvacuous :
  (forall q, bwf skind5 (prog_of rc_nk skind5 rc_nodes q)) /\
  handle_safe (prog_of rc_nk skind5 rc_nodes) skind5 sfams5 rc_idhash 40%nat
              (init (lookup3 rc_ival) (lookup3 rc_idur)) rc_ops = true /\
  snd (run_case rc_nodes rc_ival rc_idur rc_ops rc_nk rc_idhash) =
  [SOk (7, []); SOk (1, []); SOk (0, []); SOk (99, []); SOk (0, []);
   SOk (0, []); SOk (0, []); SOk (11, []); SOk (0, [(0, 1)]); SOk (1, [])].
Proof. exact (conj rc_bwf (conj rc_handle_safe rc_outputs)). Qed.


(* C06_from_scratch_partial (stage S1 of "C01 stage 2" for tracked structs): the EXECUTABLE model
   answers every Get of every history with the from-scratch value.
   From-scratch value (Structs/SSem.v): a `world` gives the inputs, the cells, a struct store by
   handle and an allocator (creating query, identity) -> handle; `Ew w q` evaluates the body of q
   in w with no memo at all, callees evaluated recursively, a creation answering the allocator's
   handle, a tracked-field read answering the store.  A world is consistent for q (`wcons`) when
   every struct created in the call closure of q holds, in the store, the fields its creator
   gives it.  `gets_scratch` (Structs/SAdeq.v) says, for every `OGet q` of the history, with s'
   the state after it: the answer is `SOk v`; v = Ew w q for EVERY world w consistent for q that
   has the inputs and cells of s' and the allocator of s' (the handles listed by the memos of
   s'); the world read off s' is such a world (so the statement is not vacuous and v is unique:
   SAdeq.scratch_unique); every handle in v is the current id of a live slot.
   Covered: conditional creation, in-place update of both tracked fields with per-field revisions
   and backdating, deletion of structs not re-created, slot reuse with generation bump, dependents
   reading fields / identity fields through handles returned by other queries, early cutoff
   through backdated memos, untracked reads, `entries`.
   Hypotheses = the stage: no struct-keyed query family (skind = false: no memo lives in a slot,
   call keys have generation 0), no `specify`, acyclic calls (rank), bodies use only handles they
   created or were returned (no_forge), a called body starts with a read, all input durabilities
   LOW (ops: OSet with durability None or LOW, OGet, OEntries), no Get of the history unwinds
   (okout), fewer than 2^31 operations (generations stay below 2^32 - 1).
   Not covered (full statement below): struct-keyed functions and their cascades, durabilities
   above LOW.  OSetCell / OSynth: C06_from_scratch_writes_partial; independence of the value from
   the allocator's naming of handles: C06_from_scratch_canonical_partial; equality with the
   operational specification Structs/Spec.v: C06_model_is_spec_partial (all below). *)
Theorem C06_from_scratch_partial :
  forall (prog : qk -> body) (skind : N -> bool) (idhash : val -> N) (rank : qk -> nat) (NF : nat),
  calls_below prog rank -> (forall q, (rank q < NF)%nat) ->
  no_forge idhash prog -> (forall q, nospec (prog q)) -> (forall f, skind f = false) ->
  (forall q d, calls (prog q) d -> gk d) -> (forall q d, calls (prog q) d -> first_read (prog d)) ->
  forall fuel iv os,
  Forall (s1_op prog) os -> 1 + 2 * N.of_nat (length os) < GMAX ->
  Forall2 okout os (snd (run_ops prog skind [] idhash fuel (init iv (fun _ => 0)) os)) ->
  gets_scratch prog skind idhash NF fuel (init iv (fun _ => 0)) os.
Proof. exact from_scratch_S1_init. Qed.
Check C06_from_scratch_partial :
  forall (prog : qk -> body) (skind : N -> bool) (idhash : val -> N) (rank : qk -> nat) (NF : nat),
  calls_below prog rank -> (forall q, (rank q < NF)%nat) ->
  no_forge idhash prog -> (forall q, nospec (prog q)) -> (forall f, skind f = false) ->
  (forall q d, calls (prog q) d -> gk d) -> (forall q d, calls (prog q) d -> first_read (prog d)) ->
  forall fuel iv os,
  Forall (s1_op prog) os -> 1 + 2 * N.of_nat (length os) < GMAX ->
  Forall2 okout os (snd (run_ops prog skind [] idhash fuel (init iv (fun _ => 0)) os)) ->
  gets_scratch prog skind idhash NF fuel (init iv (fun _ => 0)) os.
Print Assumptions C06_from_scratch_partial.

(* The full statement, kept visible; NOT proved: any struct kinds (struct-keyed families, whose
   bodies may use their own key), any durabilities, every operation of a handle-safe history. *)
Definition C06_from_scratch_full_statement : Prop :=
  forall (prog : qk -> body) (skind : N -> bool) (idhash : val -> N) (rank : qk -> nat) (NF : nat),
  calls_below prog rank -> (forall q, (rank q < NF)%nat) ->
  (forall e q, prov idhash e (prog q) [] (if skind (fst q) then [snd q] else [])) ->
  (forall q, nospec (prog q)) ->
  forall fuel iv idur os,
  handle_safe prog skind [] idhash fuel (init iv idur) os = true ->
  1 + 2 * N.of_nat (length os) < GMAX ->
  gets_scratch prog skind idhash NF fuel (init iv idur) os.

(* Non-vacuity: mk = if in0 then new(id in1; f0 := in2, f1 := 0), rd = f0 + f1 of the struct mk
   returns (99 if none).  History: rd = 3 with the struct (0,0); in0 := 0: struct deleted, rd
   re-executes to 99; in2 := 5, in0 := 1: struct re-created in the reused slot as (0,1), rd
   re-executes to 5; mk returns [(0,1)]; one struct. All hypotheses hold. *)
Example C06_from_scratch_nonvacuous :
  (calls_below (prog_of r1_nk skind0 r1_nodes) (fun q => r1_frank (fst q)) /\
   (forall q : qk, (r1_frank (fst q) < r1_NF)%nat) /\
   no_forge r1_idhash (prog_of r1_nk skind0 r1_nodes) /\
   (forall q, nospec (prog_of r1_nk skind0 r1_nodes q)) /\ (forall f, skind0 f = false) /\
   (forall q d, calls (prog_of r1_nk skind0 r1_nodes q) d -> gk d) /\
   (forall q d, calls (prog_of r1_nk skind0 r1_nodes q) d -> first_read (prog_of r1_nk skind0 r1_nodes d)) /\
   Forall (s1_op (prog_of r1_nk skind0 r1_nodes)) r1_ops /\ 1 + 2 * N.of_nat (length r1_ops) < GMAX /\
   Forall2 okout r1_ops (snd (run_ops (prog_of r1_nk skind0 r1_nodes) skind0 [] r1_idhash 40%nat
                                      (init (lookup3 r1_ival) (fun _ => 0)) r1_ops))) /\
  snd (run_ops (prog_of r1_nk skind0 r1_nodes) skind0 [] r1_idhash 40%nat (init (lookup3 r1_ival) (fun _ => 0)) r1_ops) =
  [SOk (3, []); SOk (1, []); SOk (0, []); SOk (99, []); SOk (0, []);
   SOk (0, []); SOk (0, []); SOk (5, []); SOk (0, [(0, 1)]); SOk (1, [])].
Proof. exact (conj r1_hyps r1_outputs). Qed.

(* C06_from_scratch_writes_partial (stage S1b): C06_from_scratch_partial for the larger history
   class `s1b_ops` (Structs/STop2.v): OSet (durability None / LOW), OSynth with ANY durability
   (a synthetic write; with durability NEVER it panics after starting a revision, which is
   covered), OSetCell, OGet, OEntries.  A cell is read untracked and a cell write starts no
   revision, so OSetCell is allowed only while nothing has been verified in the current revision
   (the flag of s1b_ops: at the start, and after OSet / OSynth / OSetCell until the next OGet);
   outside this class the from-scratch statement is false (C06_cell_write_after_get_is_stale).
   Same conclusion `gets_scratch` and same hypotheses on the program as the S1 statement.

   STILL MISSING (each needs the invariant of Structs/SInv.v restated, not a local change):
   (K) struct-keyed families (skind fam = true): memos in slot memo tables, OGetS, cascades.
       Clauses that change: every `d_memo s (loc_of q)` + `gk q` of SInv.dval / smemo_ok / owned /
       si_lock / si_active / wcur.w_alloc becomes a generation-aware lookup through the slot of
       the key; `sext.x_memo` (memos never disappear within a revision) and `sext.x_locked` (a
       read-locked slot is unchanged) are false (cascades delete memos, storing a keyed memo
       changes its slot); get_memo on a keyed key takes the read lock (a slot change, as in
       SBody.lock_for_read); a new clause "a keyed memo verified now has its key slot read-locked
       now" gives that nothing settled references a cascade; an induction through delete_entity's
       nested cascade (ProofsCascade.casc) replaces SExec.finish_delete; `no_forge` seeded with
       the key of a keyed body; call edges on keyed keys get the treatment field edges have in
       SVerify.walk_ok (the key is live when the edge is reached).
   (D) durabilities above LOW: mo_low / si_low dropped; per memo "every input, field and callee of
       the closure has durability >= m_dur"; inputs `f_changed <= last_changed (f_dur)`; dval
       gets the stable-window disjunct of Core/DInv (`last_changed (m_dur md) <= m_verified md`
       instead of `v <= m_verified md`), which breaks "the closure of a memo verified now is
       verified now" (SStable.settled_clos) used by si_lock, listed_live, finish_delete; slots:
       sl_dur and the lower_dur reset of `update`; the D_NEVER edge drop of finish_exec. *)
Theorem C06_from_scratch_writes_partial :
  forall (prog : qk -> body) (skind : N -> bool) (idhash : val -> N) (rank : qk -> nat) (NF : nat),
  calls_below prog rank -> (forall q, (rank q < NF)%nat) ->
  no_forge idhash prog -> (forall q, nospec (prog q)) -> (forall f, skind f = false) ->
  (forall q d, calls (prog q) d -> gk d) -> (forall q d, calls (prog q) d -> first_read (prog d)) ->
  forall fuel iv os,
  s1b_ops prog true os -> 1 + 2 * N.of_nat (length os) < GMAX ->
  Forall2 okout os (snd (run_ops prog skind [] idhash fuel (init iv (fun _ => 0)) os)) ->
  gets_scratch prog skind idhash NF fuel (init iv (fun _ => 0)) os.
Proof. exact from_scratch_S1b_init. Qed.
Check C06_from_scratch_writes_partial :
  forall (prog : qk -> body) (skind : N -> bool) (idhash : val -> N) (rank : qk -> nat) (NF : nat),
  calls_below prog rank -> (forall q, (rank q < NF)%nat) ->
  no_forge idhash prog -> (forall q, nospec (prog q)) -> (forall f, skind f = false) ->
  (forall q d, calls (prog q) d -> gk d) -> (forall q d, calls (prog q) d -> first_read (prog d)) ->
  forall fuel iv os,
  s1b_ops prog true os -> 1 + 2 * N.of_nat (length os) < GMAX ->
  Forall2 okout os (snd (run_ops prog skind [] idhash fuel (init iv (fun _ => 0)) os)) ->
  gets_scratch prog skind idhash NF fuel (init iv (fun _ => 0)) os.
Print Assumptions C06_from_scratch_writes_partial.

(* Non-vacuity: cr = cell 0 + rd.  cell := 10, cr = 13; synthetic write (durability HIGH),
   cell := 20, cr = 23; in0 := 0, cr = 20 + 99.  All hypotheses hold. *)
Example C06_from_scratch_writes_nonvacuous :
  (calls_below (prog_of r1_nk skind0 r2_nodes) (fun q => r2_frank (fst q)) /\
   (forall q : qk, (r2_frank (fst q) < r2_NF)%nat) /\
   no_forge r1_idhash (prog_of r1_nk skind0 r2_nodes) /\
   (forall q, nospec (prog_of r1_nk skind0 r2_nodes q)) /\ (forall f, skind0 f = false) /\
   (forall q d, calls (prog_of r1_nk skind0 r2_nodes q) d -> gk d) /\
   (forall q d, calls (prog_of r1_nk skind0 r2_nodes q) d -> first_read (prog_of r1_nk skind0 r2_nodes d)) /\
   s1b_ops (prog_of r1_nk skind0 r2_nodes) true r2_ops /\ 1 + 2 * N.of_nat (length r2_ops) < GMAX /\
   Forall2 okout r2_ops (snd (run_ops (prog_of r1_nk skind0 r2_nodes) skind0 [] r1_idhash 40%nat
                                      (init (lookup3 r1_ival) (fun _ => 0)) r2_ops))) /\
  snd (run_ops (prog_of r1_nk skind0 r2_nodes) skind0 [] r1_idhash 40%nat (init (lookup3 r1_ival) (fun _ => 0)) r2_ops) =
  [SOk (0, []); SOk (13, []); SOk (0, []); SOk (0, []); SOk (23, []); SOk (0, []); SOk (119, []); SOk (0, [])].
Proof. exact (conj r2_hyps r2_outputs). Qed.

(* The restriction on cell writes is necessary: after a Get, a cell write in the same revision is
   not seen by the next Get (13 again, not 23). *)
Example C06_cell_write_after_get_is_stale :
  snd (run_ops (prog_of r1_nk skind0 r2_nodes) skind0 [] r1_idhash 40%nat (init (lookup3 r1_ival) (fun _ => 0))
         [OSetCell 0 10; OGet (5, (0, 0)); OSetCell 0 20; OGet (5, (0, 0))]) =
  [SOk (0, []); SOk (13, []); SOk (0, []); SOk (13, [])].
Proof. exact r2_cell_after_get_is_stale. Qed.

(* C06_from_scratch_canonical_partial: from-scratch UP TO THE NAMING OF HANDLES.  For programs
   that are parametric in handles (Structs/SParam.v `parametric`: bodies only pass handles
   around — `brel`; every DSL program is: SParam.table_param), the answer of every Get after
   every prefix of an S1b history is related to the from-scratch value Ew w' q of EVERY world w'
   consistent for q with the current inputs and cells and an ARBITRARY allocator: the data values
   are equal and the struct lists correspond position by position (`rrel (crel ..)`: the two
   handles were created by the same query of the closure under the same identity with the same
   fields).  So the value does not depend on which slots and generations the engine happened to
   use; this closes the "canonical naming" clause of the stage. *)
Theorem C06_from_scratch_canonical_partial :
  forall (prog : qk -> body) (skind : N -> bool) (idhash : val -> N) (rank : qk -> nat) (NF : nat),
  calls_below prog rank -> (forall q, (rank q < NF)%nat) ->
  no_forge idhash prog -> parametric prog -> (forall q, nospec (prog q)) -> (forall f, skind f = false) ->
  (forall q d, calls (prog q) d -> gk d) -> (forall q d, calls (prog q) d -> first_read (prog d)) ->
  forall fuel iv os,
  s1b_ops prog true os -> 1 + 2 * N.of_nat (length os) < GMAX ->
  Forall2 okout os (snd (run_ops prog skind [] idhash fuel (init iv (fun _ => 0)) os)) ->
  forall os1 q os2, os = os1 ++ OGet q :: os2 ->
  let s1 := fst (run_ops prog skind [] idhash fuel (init iv (fun _ => 0)) os1) in
  let s' := fst (step prog skind [] idhash fuel s1 (OGet q)) in
  exists v, snd (step prog skind [] idhash fuel s1 (OGet q)) = SOk v /\
            (forall w', (forall i, w_in (wcur s') i = w_in w' i) -> (forall c, w_cell (wcur s') c = w_cell w' c) ->
                        wcons prog idhash NF w' q ->
                        rrel (crel prog idhash NF (wcur s') w' q) v (Ew idhash prog NF w' q)) /\
            wcons prog idhash NF (wcur s') q /\
            (forall h, In h (snd v) -> live s' h).
Proof. exact from_scratch_S1b_canon. Qed.
Check C06_from_scratch_canonical_partial :
  forall (prog : qk -> body) (skind : N -> bool) (idhash : val -> N) (rank : qk -> nat) (NF : nat),
  calls_below prog rank -> (forall q, (rank q < NF)%nat) ->
  no_forge idhash prog -> parametric prog -> (forall q, nospec (prog q)) -> (forall f, skind f = false) ->
  (forall q d, calls (prog q) d -> gk d) -> (forall q d, calls (prog q) d -> first_read (prog d)) ->
  forall fuel iv os,
  s1b_ops prog true os -> 1 + 2 * N.of_nat (length os) < GMAX ->
  Forall2 okout os (snd (run_ops prog skind [] idhash fuel (init iv (fun _ => 0)) os)) ->
  forall os1 q os2, os = os1 ++ OGet q :: os2 ->
  let s1 := fst (run_ops prog skind [] idhash fuel (init iv (fun _ => 0)) os1) in
  let s' := fst (step prog skind [] idhash fuel s1 (OGet q)) in
  exists v, snd (step prog skind [] idhash fuel s1 (OGet q)) = SOk v /\
            (forall w', (forall i, w_in (wcur s') i = w_in w' i) -> (forall c, w_cell (wcur s') c = w_cell w' c) ->
                        wcons prog idhash NF w' q ->
                        rrel (crel prog idhash NF (wcur s') w' q) v (Ew idhash prog NF w' q)) /\
            wcons prog idhash NF (wcur s') q /\
            (forall h, In h (snd v) -> live s' h).
Print Assumptions C06_from_scratch_canonical_partial.

(* Non-vacuity: the program of C06_from_scratch_writes_nonvacuous is parametric (its other
   hypotheses are in that Example). *)
Example C06_from_scratch_canonical_nonvacuous :
  parametric (prog_of r1_nk skind0 r2_nodes) /\ parametric (prog_of r1_nk skind0 r1_nodes).
Proof. exact (conj r2_param r1_param). Qed.

(* C06_model_is_spec_partial: the executable model computes the SPECIFICATION Structs/Spec.v —
   the operational from-scratch evaluator `spec_get` that the differential checks run against
   the implementation (one evaluation on a fresh database, no revisions, no slots: handles are
   interned canonical names (creator query, identity value, occurrence)).  After every prefix of
   an S1b history the next Get q answers SOk v such that spec_get on the snapshot (inputs, cells)
   of the state after the Get, with fuel NF, answers SOk (fst v, names); the i-th name is Some nm
   where nm names the creation of the i-th struct of v (`cre`: created by the query d of the
   closure, as the occ-th creation of d with identity value idv; nm = CN (fam d) (KIn (key d))
   idv occ); and with ANY fuel, whenever spec_get answers, its data value is fst v.
   Program hypothesis: Kripke parametricity in handles (Structs/SParamK.v; every DSL program:
   SParamK.table_paramK).  With the correspondence implementation == executable model this makes
   "implementation == specification" on this class a consequence, not a separate observation. *)
Theorem C06_model_is_spec_partial :
  forall (prog : qk -> body) (skind : N -> bool) (idhash : val -> N) (rank : qk -> nat) (NF : nat),
  calls_below prog rank -> (forall q, (rank q < NF)%nat) ->
  no_forge idhash prog -> parametricK prog -> (forall q, nospec (prog q)) -> (forall f, skind f = false) ->
  (forall q d, calls (prog q) d -> gk d) -> (forall q d, calls (prog q) d -> first_read (prog d)) ->
  forall fuel iv os,
  s1b_ops prog true os -> 1 + 2 * N.of_nat (length os) < GMAX ->
  Forall2 okout os (snd (run_ops prog skind [] idhash fuel (init iv (fun _ => 0)) os)) ->
  forall os1 q os2, os = os1 ++ OGet q :: os2 ->
  let s1 := fst (run_ops prog skind [] idhash fuel (init iv (fun _ => 0)) os1) in
  let s' := fst (step prog skind [] idhash fuel s1 (OGet q)) in
  exists v names,
    snd (step prog skind [] idhash fuel s1 (OGet q)) = SOk v /\
    spec_get prog skind (snap_of s') NF q = SOk (fst v, names) /\
    Forall2 (fun onm h => exists nm d, onm = Some nm /\ clos idhash prog NF (wcur s') q d /\
                                       cre prog idhash NF (wcur s') d nm h) names (snd v) /\
    (forall n x nms, spec_get prog skind (snap_of s') n q = SOk (x, nms) -> x = fst v).
Proof. exact model_is_spec_S1b. Qed.
Check C06_model_is_spec_partial :
  forall (prog : qk -> body) (skind : N -> bool) (idhash : val -> N) (rank : qk -> nat) (NF : nat),
  calls_below prog rank -> (forall q, (rank q < NF)%nat) ->
  no_forge idhash prog -> parametricK prog -> (forall q, nospec (prog q)) -> (forall f, skind f = false) ->
  (forall q d, calls (prog q) d -> gk d) -> (forall q d, calls (prog q) d -> first_read (prog d)) ->
  forall fuel iv os,
  s1b_ops prog true os -> 1 + 2 * N.of_nat (length os) < GMAX ->
  Forall2 okout os (snd (run_ops prog skind [] idhash fuel (init iv (fun _ => 0)) os)) ->
  forall os1 q os2, os = os1 ++ OGet q :: os2 ->
  let s1 := fst (run_ops prog skind [] idhash fuel (init iv (fun _ => 0)) os1) in
  let s' := fst (step prog skind [] idhash fuel s1 (OGet q)) in
  exists v names,
    snd (step prog skind [] idhash fuel s1 (OGet q)) = SOk v /\
    spec_get prog skind (snap_of s') NF q = SOk (fst v, names) /\
    Forall2 (fun onm h => exists nm d, onm = Some nm /\ clos idhash prog NF (wcur s') q d /\
                                       cre prog idhash NF (wcur s') d nm h) names (snd v) /\
    (forall n x nms, spec_get prog skind (snap_of s') n q = SOk (x, nms) -> x = fst v).
Print Assumptions C06_model_is_spec_partial.

(* Non-vacuity: the example programs are Kripke-parametric; the specification evaluated on the
   final snapshot of the S1Examples history answers mk = (0, [name (mk(0), identity 0, occ 0)]) and
   rd = 5, as the model does (C06_from_scratch_nonvacuous: (0, [(0,1)]) and 5). *)
Example C06_model_is_spec_nonvacuous :
  parametricK (prog_of r1_nk skind0 r1_nodes) /\ parametricK (prog_of r1_nk skind0 r2_nodes) /\
  spec_get (prog_of r1_nk skind0 r1_nodes) skind0
           (snap_of (fst (run_ops (prog_of r1_nk skind0 r1_nodes) skind0 [] r1_idhash 40%nat (init (lookup3 r1_ival) (fun _ => 0)) r1_ops)))
           r1_NF (1, (0, 0)) = SOk (0, [Some (CN 1 (KIn 0) 0 0)]) /\
  spec_get (prog_of r1_nk skind0 r1_nodes) skind0
           (snap_of (fst (run_ops (prog_of r1_nk skind0 r1_nodes) skind0 [] r1_idhash 40%nat (init (lookup3 r1_ival) (fun _ => 0)) r1_ops)))
           r1_NF (4, (0, 0)) = SOk (5, []).
Proof. exact (conj r1_paramK (conj r2_paramK r1_spec_get)). Qed.

(* Props/C08.v — Interning is canonical within a revision, across queries and threads.
   Every operation of the interned ingredient runs under one shard lock, so an execution
   with any number of threads/handles/queries is a sequence `ops` of atomic operations
   (each tagged with its thread); the theorems quantify over all such sequences, all
   shard (hash) functions and all REVISIONS settings.  Proofs: Intern/Proofs*.v,
   Intern/Theorems.v; non-vacuity and refutation witnesses: Intern/Examples.v. *)
From Salsa Require Import Base.
From Salsa.Intern Require Import RetK Model ProofsInv ProofsTrace Theorems Examples.

Theorem C08_invariant :
  forall (shard_of : val -> N) (c : cfg) (ops : list op) (s : st) (tr : list entry),
    cfg_ok c -> run shard_of c ops = (s, tr) -> Inv shard_of c s.
Proof. exact invariant. Qed.
Check C08_invariant :
  forall (shard_of : val -> N) (c : cfg) (ops : list op) (s : st) (tr : list entry),
    cfg_ok c -> run shard_of c ops = (s, tr) -> Inv shard_of c s.
Print Assumptions C08_invariant.

Theorem C08_canonical :
  forall (shard_of : val -> N) (c : cfg) (ops : list op) (s : st) (tr : list entry),
    cfg_ok c -> run shard_of c ops = (s, tr) ->
    forall e1 e2 v1 i1 g1 v2 i2 g2,
      In e1 tr -> In e2 tr -> interns e1 v1 i1 g1 -> interns e2 v2 i2 g2 ->
      e_rev e1 = e_rev e2 ->
      ((i1, g1) = (i2, g2) <-> v1 = v2).
Proof. exact canonical. Qed.
Check C08_canonical :
  forall (shard_of : val -> N) (c : cfg) (ops : list op) (s : st) (tr : list entry),
    cfg_ok c -> run shard_of c ops = (s, tr) ->
    forall e1 e2 v1 i1 g1 v2 i2 g2,
      In e1 tr -> In e2 tr -> interns e1 v1 i1 g1 -> interns e2 v2 i2 g2 ->
      e_rev e1 = e_rev e2 ->
      ((i1, g1) = (i2, g2) <-> v1 = v2).
Print Assumptions C08_canonical.

Theorem C08_handle_value :
  forall (shard_of : val -> N) (c : cfg) (ops : list op) (s : st) (tr : list entry),
    cfg_ok c -> run shard_of c ops = (s, tr) ->
    forall e1 e2 v1 v2 i g,
      In e1 tr -> In e2 tr -> interns e1 v1 i g -> interns e2 v2 i g -> v1 = v2.
Proof. exact handle_value. Qed.
Check C08_handle_value :
  forall (shard_of : val -> N) (c : cfg) (ops : list op) (s : st) (tr : list entry),
    cfg_ok c -> run shard_of c ops = (s, tr) ->
    forall e1 e2 v1 v2 i g,
      In e1 tr -> In e2 tr -> interns e1 v1 i g -> interns e2 v2 i g -> v1 = v2.
Print Assumptions C08_handle_value.

Theorem C08_readback :
  forall (shard_of : val -> N) (c : cfg) (ops : list op) (s : st) (tr : list entry),
    cfg_ok c -> run shard_of c ops = (s, tr) ->
    forall v idx gen t,
      current_handle tr (st_cur s) v idx gen ->
      step shard_of c s (ORead t idx) = (s, RRead v true, []).
Proof. exact readback. Qed.
Check C08_readback :
  forall (shard_of : val -> N) (c : cfg) (ops : list op) (s : st) (tr : list entry),
    cfg_ok c -> run shard_of c ops = (s, tr) ->
    forall v idx gen t,
      current_handle tr (st_cur s) v idx gen ->
      step shard_of c s (ORead t idx) = (s, RRead v true, []).
Print Assumptions C08_readback.

Theorem C08_kept :
  forall (shard_of : val -> N) (c : cfg) (ops : list op) (s : st) (tr : list entry),
    cfg_ok c -> c_revisions c <> Some 1 -> run shard_of c ops = (s, tr) ->
    forall post e2 seg e1 old v i1 g1 i2 g2,
      tr = post ++ e2 :: seg ++ e1 :: old ->
      interns e1 v i1 g1 -> interns e2 v i2 g2 ->
      (forall e, In e (e2 :: seg) -> is_activity e = true ->
         exists e' i g, In e' (e2 :: seg ++ [e1]) /\ interns e' v i g /\ e_rev e' = e_rev e) ->
      (i2, g2) = (i1, g1).
Proof. exact kept. Qed.
Check C08_kept :
  forall (shard_of : val -> N) (c : cfg) (ops : list op) (s : st) (tr : list entry),
    cfg_ok c -> c_revisions c <> Some 1 -> run shard_of c ops = (s, tr) ->
    forall post e2 seg e1 old v i1 g1 i2 g2,
      tr = post ++ e2 :: seg ++ e1 :: old ->
      interns e1 v i1 g1 -> interns e2 v i2 g2 ->
      (forall e, In e (e2 :: seg) -> is_activity e = true ->
         exists e' i g, In e' (e2 :: seg ++ [e1]) /\ interns e' v i g /\ e_rev e' = e_rev e) ->
      (i2, g2) = (i1, g1).
Print Assumptions C08_kept.

(* With REVISIONS = 1 the statement of C08_kept is false of the faithful model. *)
Theorem C08_kept_revisions1_refuted : kept_statement c1 ops_kept1 true.
Proof. exact kept_revisions1_refuted. Qed.
Check C08_kept_revisions1_refuted :
  exists s tr post e2 seg e1 old v i1 g1 i2 g2,
    cfg_ok c1 /\ run sh0 c1 ops_kept1 = (s, tr) /\
    tr = post ++ e2 :: seg ++ e1 :: old /\
    interns e1 v i1 g1 /\ interns e2 v i2 g2 /\
    (forall e, In e (e2 :: seg) -> is_activity e = true ->
       exists e' i g, In e' (e2 :: seg ++ [e1]) /\ interns e' v i g /\ e_rev e' = e_rev e) /\
    (i2, g2) <> (i1, g1).
Print Assumptions C08_kept_revisions1_refuted.

(* C24 — Concurrently created Salsa structs receive distinct identities.
   Page-allocation model (Alloc/Model.v). *)
From Salsa Require Import Base.
From Salsa.Alloc Require Import Model Examples.

Theorem C24_distinct :
  (forall s, areach s -> NoDup (map fst (a_ret s))) /\
  (forall s n m e1 e2, areach s ->
     nth_error (a_ret s) n = Some e1 -> nth_error (a_ret s) m = Some e2 ->
     fst e1 = fst e2 -> n = m) /\
  (forall s i g v, areach s -> In ((i, g), v) (a_ret s) -> i < ID_MAX_U32 /\ g <= U32_MAX).
Proof. exact C24_distinct_lemma. Qed.

Check C24_distinct :
  (forall s, areach s -> NoDup (map fst (a_ret s))) /\
  (forall s n m e1 e2, areach s ->
     nth_error (a_ret s) n = Some e1 -> nth_error (a_ret s) m = Some e2 ->
     fst e1 = fst e2 -> n = m) /\
  (forall s i g v, areach s -> In ((i, g), v) (a_ret s) -> i < ID_MAX_U32 /\ g <= U32_MAX).
Print Assumptions C24_distinct.

Theorem C24_readback :
  (forall s i g v, areach s -> In ((i, g), v) (a_ret s) -> a_cur s i = Some (g, false) ->
     astep s (ARead i) = Some (s, OVal (Some v))) /\
  (forall s p sl, areach s -> p < a_npages s -> sl < a_alloc s p ->
     exists g fr, a_cur s (make_id p sl) = Some (g, fr) /\
       (fr = false -> exists v, In ((make_id p sl, g), v) (a_ret s) /\ a_data s p sl = Some v)).
Proof. exact C24_readback_lemma. Qed.

Check C24_readback :
  (forall s i g v, areach s -> In ((i, g), v) (a_ret s) -> a_cur s i = Some (g, false) ->
     astep s (ARead i) = Some (s, OVal (Some v))) /\
  (forall s p sl, areach s -> p < a_npages s -> sl < a_alloc s p ->
     exists g fr, a_cur s (make_id p sl) = Some (g, fr) /\
       (fr = false -> exists v, In ((make_id p sl, g), v) (a_ret s) /\ a_data s p sl = Some v)).
Print Assumptions C24_readback.

Theorem C24_ownership :
  forall s, areach s ->
  (forall x y p, In x (a_hs s) -> In y (a_hs s) -> In p (pages_of x) -> In p (pages_of y) ->
                 ah_id x = ah_id y) /\
  (forall x, In x (a_hs s) -> NoDup (pages_of x)) /\
  NoDup (map snd (a_shared s)) /\
  (forall x p, In x (a_hs s) -> In p (pages_of x) -> ~ In p (map snd (a_shared s))) /\
  (forall p, a_alloc s p <= PAGE_LEN).
Proof. exact C24_ownership_lemma. Qed.

Check C24_ownership :
  forall s, areach s ->
  (forall x y p, In x (a_hs s) -> In y (a_hs s) -> In p (pages_of x) -> In p (pages_of y) ->
                 ah_id x = ah_id y) /\
  (forall x, In x (a_hs s) -> NoDup (pages_of x)) /\
  NoDup (map snd (a_shared s)) /\
  (forall x p, In x (a_hs s) -> In p (pages_of x) -> ~ In p (map snd (a_shared s))) /\
  (forall p, a_alloc s p <= PAGE_LEN).
Print Assumptions C24_ownership.

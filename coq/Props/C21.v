(* C21 — Local cancellation unwinds only its own handle and leaves results correct.
   Token-machine level (Cancel/Model.v: token machine). *)
From Salsa Require Import Base.
From Salsa.Cancel Require Import Model Proofs.

Theorem C21_own_only :
  (forall tok flag, check_outcome tok flag = OLocal <-> tok = CANCELLED_MASK) /\
  (forall tok flag, tok_wf tok ->
     (check_outcome tok flag = OLocal <->
      tok_is_cancelled tok = true /\ tok_prev_disabled tok = false)) /\
  (forall s h flag s' o, tstep s (TCheck h flag) = Some (s', o) ->
     s' = s /\ o = TOutcome (check_outcome (t_tok s h) flag)) /\
  (forall s op s' o, tstep s op = Some (s', o) ->
     forall h', op_handle s op <> Some h' -> t_tok s' h' = t_tok s h').
Proof. exact C21_own_only_lemma. Qed.

Check C21_own_only :
  (forall tok flag, check_outcome tok flag = OLocal <-> tok = CANCELLED_MASK) /\
  (forall tok flag, tok_wf tok ->
     (check_outcome tok flag = OLocal <->
      tok_is_cancelled tok = true /\ tok_prev_disabled tok = false)) /\
  (forall s h flag s' o, tstep s (TCheck h flag) = Some (s', o) ->
     s' = s /\ o = TOutcome (check_outcome (t_tok s h) flag)) /\
  (forall s op s' o, tstep s op = Some (s', o) ->
     forall h', op_handle s op <> Some h' -> t_tok s' h' = t_tok s h').
Print Assumptions C21_own_only.

Theorem C21_not_in_fixpoint :
  (forall s h flag, treach s ->
     (exists t w, In (FDis h w) (t_frames s t)) ->
     check_outcome (t_tok s h) flag <> OLocal) /\
  (forall s op s' o h, treach s -> tstep s op = Some (s', o) ->
     tok_is_cancelled (t_tok s h) = true -> o <> TReset (Some h) ->
     tok_is_cancelled (t_tok s' h) = true) /\
  (forall s h flag, treach s ->
     tok_is_cancelled (t_tok s h) = true ->
     (forall t w, ~ In (FDis h w) (t_frames s t)) ->
     check_outcome (t_tok s h) flag = OLocal).
Proof. exact C21_not_in_fixpoint_lemma. Qed.

Check C21_not_in_fixpoint :
  (forall s h flag, treach s ->
     (exists t w, In (FDis h w) (t_frames s t)) ->
     check_outcome (t_tok s h) flag <> OLocal) /\
  (forall s op s' o h, treach s -> tstep s op = Some (s', o) ->
     tok_is_cancelled (t_tok s h) = true -> o <> TReset (Some h) ->
     tok_is_cancelled (t_tok s' h) = true) /\
  (forall s h flag, treach s ->
     tok_is_cancelled (t_tok s h) = true ->
     (forall t w, ~ In (FDis h w) (t_frames s t)) ->
     check_outcome (t_tok s h) flag = OLocal).
Print Assumptions C21_not_in_fixpoint.

Theorem C21_reset :
  (forall s t h s' o, treach s -> t_att s t = Some h -> t_frames s t = [FDb true None] ->
     tstep s (TPop t) = Some (s', o) ->
     t_tok s' h = 0 /\ t_att s' t = None /\ t_frames s' t = [] /\ o = TReset (Some h)) /\
  (forall s t s' o h, treach s -> tstep s (TPop t) = Some (s', o) ->
     (o = TReset (Some h) <-> (t_att s t = Some h /\ t_frames s t = [FDb true None]))) /\
  (forall s t h, treach s -> t_att s t = Some h ->
     t_tok (tunwind s t) h = 0 /\ t_att (tunwind s t) t = None /\
     t_frames (tunwind s t) t = [] /\ treach (tunwind s t)).
Proof. exact C21_reset_lemma. Qed.

Check C21_reset :
  (forall s t h s' o, treach s -> t_att s t = Some h -> t_frames s t = [FDb true None] ->
     tstep s (TPop t) = Some (s', o) ->
     t_tok s' h = 0 /\ t_att s' t = None /\ t_frames s' t = [] /\ o = TReset (Some h)) /\
  (forall s t s' o h, treach s -> tstep s (TPop t) = Some (s', o) ->
     (o = TReset (Some h) <-> (t_att s t = Some h /\ t_frames s t = [FDb true None]))) /\
  (forall s t h, treach s -> t_att s t = Some h ->
     t_tok (tunwind s t) h = 0 /\ t_att (tunwind s t) t = None /\
     t_frames (tunwind s t) t = [] /\ treach (tunwind s t)).
Print Assumptions C21_reset.

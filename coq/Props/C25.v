(* Props/C25.v — C25 "Stored dependency edges round-trip exactly".
   Statements only; proofs are in Codec/Proofs.v and Kern/K7_Edge.v, all about the
   definitions generated from the Rust source (coq/gen/Kernels.v) and Codec/Model.v.
   Non-vacuity witnesses: Codec/Examples.v (pinned at the end of this file). *)
From Coq Require Import NArith Bool List.
From Salsa.gen Require Import Kernels.
From Salsa.Codec Require Import Model Proofs Examples.
Import ListNotations.
Open Scope N_scope.

(* PackedQueryEdge::new e = Some p -> edge p = e; new e = None iff the (tagged) ingredient
   exceeds 12 bits or the generation 20 bits; hence every output edge is wide. *)
Theorem C25_packed_roundtrip : forall e : k_QueryEdge,
  (forall p, k_pe_new e = Some p -> k_pe_edge p = e) /\
  (k_pe_new e = None <->
     4095 < k_QueryEdge_ingredient e \/ 1048575 < k_QueryEdge_generation e) /\
  (k_QueryEdge_ingredient e < 4294967296 -> k_qe_kind e = k_QueryEdgeKind_Output ->
     k_pe_new e = None).
Proof. exact C25_packed_roundtrip_proof. Qed.

Check C25_packed_roundtrip : forall e : k_QueryEdge,
  (forall p, k_pe_new e = Some p -> k_pe_edge p = e) /\
  (k_pe_new e = None <->
     4095 < k_QueryEdge_ingredient e \/ 1048575 < k_QueryEdge_generation e) /\
  (k_QueryEdge_ingredient e < 4294967296 -> k_qe_kind e = k_QueryEdgeKind_Output ->
     k_pe_new e = None).
Print Assumptions C25_packed_roundtrip.

(* kind (input k) = Input, kind (output k) = Output, key (input k) = key (output k) = k for
   every ingredient <= MAX_INDEX, index < MAX_U32, any (u32) generation. *)
Theorem C25_tag : forall ingredient index generation : N,
  ingredient <= k_ING_MAX_INDEX -> index < k_ID_MAX_U32 -> generation < 4294967296 ->
  let k := mk_key ingredient index generation in
  k_qe_kind (k_qe_input k) = k_QueryEdgeKind_Input /\
  k_qe_kind (k_qe_output k) = k_QueryEdgeKind_Output /\
  k_qe_key (k_qe_input k) = k /\
  k_qe_key (k_qe_output k) = k /\
  k_QueryEdgeKind_Input <> k_QueryEdgeKind_Output.
Proof. exact C25_tag_proof. Qed.

Check C25_tag : forall ingredient index generation : N,
  ingredient <= k_ING_MAX_INDEX -> index < k_ID_MAX_U32 -> generation < 4294967296 ->
  let k := mk_key ingredient index generation in
  k_qe_kind (k_qe_input k) = k_QueryEdgeKind_Input /\
  k_qe_kind (k_qe_output k) = k_QueryEdgeKind_Output /\
  k_qe_key (k_qe_input k) = k /\
  k_qe_key (k_qe_output k) = k /\
  k_QueryEdgeKind_Input <> k_QueryEdgeKind_Output.
Print Assumptions C25_tag.

(* For every edge list (any length the code accepts: the count must fit u32, otherwise
   allocate_derived_with_header panics), either derived kind and any extra:
   decoding the stored origin returns the same kind, the same edges in order, the same extra,
   whichever layout was chosen (packed iff every edge packs -- so wherever the first wide edge
   sits); inputs()/outputs() are the order-preserving split by kind, together covering every
   edge exactly once; clear_edges empties the list and keeps kind and extra. *)
Theorem C25_origin_roundtrip :
  forall (X : Type) (kind : N) (es : list k_QueryEdge) (extra : option X),
  kind = k_DerivedOriginKind_Derived \/ kind = k_DerivedOriginKind_DerivedUntracked ->
  N.of_nat (length es) <= 4294967295 ->
  exists st o,
    encode kind es extra = Some st /\ origin st = Some o /\
    origin_kind o = kind /\
    origin_edges o = es /\
    stored_extra st = extra /\
    origin_inputs o = map k_qe_key (filter is_input es) /\
    origin_outputs o = map k_qe_key (filter is_output es) /\
    (is_packed_layout st = true <-> forall e, In e es -> exists p, k_pe_new e = Some p) /\
    (length (filter is_output es) + length (filter is_input es))%nat = length es /\
    (forall e, is_input e = negb (is_output e)) /\
    exists st' o',
      clear_edges st = Some st' /\ origin st' = Some o' /\
      origin_edges o' = [] /\ origin_kind o' = kind /\ stored_extra st' = extra.
Proof. exact C25_origin_roundtrip_proof. Qed.

Check C25_origin_roundtrip :
  forall (X : Type) (kind : N) (es : list k_QueryEdge) (extra : option X),
  kind = k_DerivedOriginKind_Derived \/ kind = k_DerivedOriginKind_DerivedUntracked ->
  N.of_nat (length es) <= 4294967295 ->
  exists st o,
    encode kind es extra = Some st /\ origin st = Some o /\
    origin_kind o = kind /\
    origin_edges o = es /\
    stored_extra st = extra /\
    origin_inputs o = map k_qe_key (filter is_input es) /\
    origin_outputs o = map k_qe_key (filter is_output es) /\
    (is_packed_layout st = true <-> forall e, In e es -> exists p, k_pe_new e = Some p) /\
    (length (filter is_output es) + length (filter is_input es))%nat = length es /\
    (forall e, is_input e = negb (is_output e)) /\
    exists st' o',
      clear_edges st = Some st' /\ origin st' = Some o' /\
      origin_edges o' = [] /\ origin_kind o' = kind /\ stored_extra st' = extra.
Print Assumptions C25_origin_roundtrip.

(* In terms of the keys the active query recorded: inputs()/outputs() return exactly the
   input keys / output keys, in order. *)
Theorem C25_origin_keys :
  forall (X : Type) (kind : N) (deps : list (bool * k_DatabaseKeyIndex)) (extra : option X),
  kind = k_DerivedOriginKind_Derived \/ kind = k_DerivedOriginKind_DerivedUntracked ->
  N.of_nat (length deps) <= 4294967295 ->
  (forall d, In d deps ->
     1 <= k_Id_index (k_DatabaseKeyIndex_key_index (snd d)) < 4294967296 /\
     k_Id_generation (k_DatabaseKeyIndex_key_index (snd d)) < 4294967296 /\
     k_DatabaseKeyIndex_ingredient_index (snd d) <= k_ING_MAX_INDEX) ->
  exists st o,
    encode kind (map edge_of_dep deps) extra = Some st /\ origin st = Some o /\
    origin_inputs o = map snd (filter (fun d => negb (fst d)) deps) /\
    origin_outputs o = map snd (filter fst deps).
Proof. exact C25_origin_keys_proof. Qed.

Check C25_origin_keys :
  forall (X : Type) (kind : N) (deps : list (bool * k_DatabaseKeyIndex)) (extra : option X),
  kind = k_DerivedOriginKind_Derived \/ kind = k_DerivedOriginKind_DerivedUntracked ->
  N.of_nat (length deps) <= 4294967295 ->
  (forall d, In d deps ->
     1 <= k_Id_index (k_DatabaseKeyIndex_key_index (snd d)) < 4294967296 /\
     k_Id_generation (k_DatabaseKeyIndex_key_index (snd d)) < 4294967296 /\
     k_DatabaseKeyIndex_ingredient_index (snd d) <= k_ING_MAX_INDEX) ->
  exists st o,
    encode kind (map edge_of_dep deps) extra = Some st /\ origin st = Some o /\
    origin_inputs o = map snd (filter (fun d => negb (fst d)) deps) /\
    origin_outputs o = map snd (filter fst deps).
Print Assumptions C25_origin_keys.

(* The persisted form (raw ingredient word incl. tag, Id as its u64 bits) deserialises to the
   same edge, the same edge list, and re-encodes to the very same stored origin. *)
Theorem C25_serde :
  forall (X : Type) (kind : N) (es : list k_QueryEdge) (extra : option X) (st : stored X),
  kind = k_DerivedOriginKind_Derived \/ kind = k_DerivedOriginKind_DerivedUntracked ->
  (forall e, In e es ->
     k_QueryEdge_index e < 4294967295 /\ k_QueryEdge_generation e < 4294967296) ->
  encode kind es extra = Some st ->
  (forall e, In e es -> restore_edge (persist_edge e) = Some e) /\
  exists raws,
    persist_origin_edges st = Some raws /\ raws = map persist_edge es /\
    restore_edges raws = Some es /\
    restore_origin kind raws extra = Some st.
Proof. exact C25_serde_proof. Qed.

Check C25_serde :
  forall (X : Type) (kind : N) (es : list k_QueryEdge) (extra : option X) (st : stored X),
  kind = k_DerivedOriginKind_Derived \/ kind = k_DerivedOriginKind_DerivedUntracked ->
  (forall e, In e es ->
     k_QueryEdge_index e < 4294967295 /\ k_QueryEdge_generation e < 4294967296) ->
  encode kind es extra = Some st ->
  (forall e, In e es -> restore_edge (persist_edge e) = Some e) /\
  exists raws,
    persist_origin_edges st = Some raws /\ raws = map persist_edge es /\
    restore_edges raws = Some es /\
    restore_origin kind raws extra = Some st.
Print Assumptions C25_serde.

(* non-vacuity witnesses (Codec/Examples.v) *)
Check ex_tag_hyps.
Check ex_packed_runs.
Check ex_spill_mid_runs.
Check ex_mixed_runs.
Check ex_spill_words.
Check ex_clear_edges.
Check ex_serde_hyps.
Check ex_serde_runs.
Check ex_assigned.

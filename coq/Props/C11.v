(* Props/C11.v — Accumulated values equal those of a from-scratch execution.  Statements only;
   proofs in Acc/ProofsDfs.v, Acc/ProofsSpec.v, Acc/ProofsLoop.v; example in Acc/Examples.v. *)
From Salsa Require Import Base.
From Salsa.Acc Require Import Model Spec ProofsDfs ProofsSpec ProofsLoop Statement Examples.
From Salsa.Acc Require Import AInv AInvTop AInvFull AInvExamples.

(* The stack loop of accumulated_by (pop; skip if visited; collect; push the inputs in
   reverse) computes the recursive pre-order depth-first traversal: for every graph. *)
Theorem C11_loop_is_dfs : forall (succ : qkey -> list edge) (own : qkey -> list val) n stack vis out r,
  ploop succ own n stack vis out = Some r ->
  exists o, dfs succ vis stack o /\ r = out ++ outs own o.
Proof. exact ploop_dfs. Qed.
Check C11_loop_is_dfs : forall (succ : qkey -> list edge) (own : qkey -> list val) n stack vis out r,
  ploop succ own n stack vis out = Some r ->
  exists o, dfs succ vis stack o /\ r = out ++ outs own o.
Print Assumptions C11_loop_is_dfs.

(* ... and reaches it: whenever the recursive traversal exists, the loop terminates with it. *)
Theorem C11_loop_terminates : forall (succ : qkey -> list edge) (own : qkey -> list val) v ks o,
  dfs succ v ks o ->
  forall st out, exists n0, forall n r, ploop succ own n st (o ++ v) (out ++ outs own o) = Some r ->
    ploop succ own (n0 + n) (ks ++ st) v out = Some r.
Proof. exact dfs_ploop. Qed.
Check C11_loop_terminates : forall (succ : qkey -> list edge) (own : qkey -> list val) v ks o,
  dfs succ v ks o ->
  forall st out, exists n0, forall n r, ploop succ own n st (o ++ v) (out ++ outs own o) = Some r ->
    ploop succ own (n0 + n) (ks ++ st) v out = Some r.
Print Assumptions C11_loop_terminates.

(* Each function contributes once, in first-visit order: the traversal visits no node twice,
   only nodes not visited before, every root and every successor of a visited node, and
   nothing that is not reachable from a root; the order is unique. *)
Theorem C11_each_function_once : forall (succ : qkey -> list edge) v ks o, dfs succ v ks o ->
  NoDup o /\ (forall k, In k o -> ~ In k v) /\
  (forall k, In k ks -> In k (o ++ v)) /\
  (forall q c, In (EQ q) o -> In c (succ q) -> In c (o ++ v)) /\
  (forall k, In k o -> exists r, In r ks /\ reach succ r k).
Proof. exact dfs_each_once. Qed.
Check C11_each_function_once : forall (succ : qkey -> list edge) v ks o, dfs succ v ks o ->
  NoDup o /\ (forall k, In k o -> ~ In k v) /\
  (forall k, In k ks -> In k (o ++ v)) /\
  (forall q c, In (EQ q) o -> In c (succ q) -> In c (o ++ v)) /\
  (forall k, In k o -> exists r, In r ks /\ reach succ r k).
Print Assumptions C11_each_function_once.

Theorem C11_order_unique : forall (succ : qkey -> list edge) v ks o, dfs succ v ks o ->
  forall o', dfs succ v ks o' -> o = o'.
Proof. exact dfs_fun. Qed.
Check C11_order_unique : forall (succ : qkey -> list edge) v ks o, dfs succ v ks o ->
  forall o', dfs succ v ks o' -> o = o'.
Print Assumptions C11_order_unique.

(* Repeated calls of one function are irrelevant (the recorded edges keep first occurrences). *)
Theorem C11_repeated_calls_irrelevant : forall (succ : qkey -> list edge) l seen v o,
  (forall k, In k seen -> In k v) -> (dfs succ v l o <-> dfs succ v (dd seen l) o).
Proof. exact dfs_dd. Qed.
Check C11_repeated_calls_irrelevant : forall (succ : qkey -> list edge) l seen v o,
  (forall k, In k seen -> In k v) -> (dfs succ v l o <-> dfs succ v (dd seen l) o).
Print Assumptions C11_repeated_calls_irrelevant.

(* Soundness of skipping: let [dead] be any set of nodes below which nothing is pushed.  Two
   graphs whose successor lists agree up to dead entries (a sub-tree skipped because its flag
   is Empty; a never-changing dependency without accumulated values whose edge was not
   recorded; input-field edges) collect the same values in the same order. *)
Theorem C11_skip_sound : forall (own : qkey -> list val) (dead : edge -> bool),
  (forall q, dead (EQ q) = true -> own q = []) ->
  forall succ1 succ2 : qkey -> list edge,
  (forall q, dead (EQ q) = true -> alldead dead (succ1 q)) ->
  (forall q, dead (EQ q) = true -> alldead dead (succ2 q)) ->
  (forall q, dead (EQ q) = false -> filter (live dead) (succ1 q) = filter (live dead) (succ2 q)) ->
  forall v ks o, dfs succ1 v ks o ->
  forall w ks2 p, eqv dead v w -> filter (live dead) ks = filter (live dead) ks2 -> dfs succ2 w ks2 p ->
    outs own o = outs own p /\ eqv dead (o ++ v) (p ++ w).
Proof. exact dfs_dead. Qed.
Check C11_skip_sound : forall (own : qkey -> list val) (dead : edge -> bool),
  (forall q, dead (EQ q) = true -> own q = []) ->
  forall succ1 succ2 : qkey -> list edge,
  (forall q, dead (EQ q) = true -> alldead dead (succ1 q)) ->
  (forall q, dead (EQ q) = true -> alldead dead (succ2 q)) ->
  (forall q, dead (EQ q) = false -> filter (live dead) (succ1 q) = filter (live dead) (succ2 q)) ->
  forall v ks o, dfs succ1 v ks o ->
  forall w ks2 p, eqv dead v w -> filter (live dead) ks = filter (live dead) ks2 -> dfs succ2 w ks2 p ->
    outs own o = outs own p /\ eqv dead (o ++ v) (p ++ w).
Print Assumptions C11_skip_sound.

(* The specification is well defined for acyclic programs: spec_acc is the value list of the
   (existing, unique) pre-order traversal of the from-scratch call graph. *)
Theorem C11_spec_well_defined : forall prog rank, calls_below prog rank ->
  forall n, (forall q, (rank q < n)%nat) -> forall sn q,
  (exists ord, dfs (sem_succ prog n sn) [] [EQ q] ord /\ spec_acc prog n sn q = outs (sem_own prog n sn) ord) /\
  (forall ord, dfs (sem_succ prog n sn) [] [EQ q] ord -> spec_acc prog n sn q = outs (sem_own prog n sn) ord).
Proof.
  intros prog rank A n B sn q. split; [exact (spec_acc_dfs prog rank A n B sn q) |].
  intros ord. exact (spec_acc_unique prog rank A n B sn q ord).
Qed.
Check C11_spec_well_defined : forall prog rank, calls_below prog rank ->
  forall n, (forall q, (rank q < n)%nat) -> forall sn q,
  (exists ord, dfs (sem_succ prog n sn) [] [EQ q] ord /\ spec_acc prog n sn q = outs (sem_own prog n sn) ord) /\
  (forall ord, dfs (sem_succ prog n sn) [] [EQ q] ord -> spec_acc prog n sn q = outs (sem_own prog n sn) ord).
Print Assumptions C11_spec_well_defined.

(* ------------------------------------------------------------------------------------
   The executable model: `accumulated_by` (fetch, then the loop that calls refresh_memo on
   every node it pops, re-executing evicted memos on the way) returns spec_acc — for every
   acyclic program, build (persist or not), lower level L, state and fuel — PROVIDED the memo
   tables present an [acc_view] during the loop: refresh_memo shows, for every function it may
   touch, the from-scratch pushes, a flag that is Empty only if all recorded edges are dead,
   and recorded edges equal to the from-scratch calls up to dead entries.
   MISSING (named): `acc_view_established` — that `fetch` of the root leaves the tables in a
   family of states P with such a view, i.e. the Core invariant (Core/Inv*.v, proved for the
   model without accumulators) re-proved for Acc/Model.v with the three extra clauses
   (acc = from-scratch pushes; flag soundness through add_read / deep_verify_edges /
   unchanged_for_memo / backdating; recorded edges vs the record_input and discard exceptions).
   Acc/Examples.v exhibits a concrete non-trivial view (ex_view) and both theorems applied. *)
Theorem C11_loop_partial :
  forall persist prog noeq (L : lower) n sn rank, calls_below prog rank -> (forall q, (rank q < n)%nat) ->
  forall dead gsucc gflag U P, acc_view persist prog noeq L n sn dead gsucc gflag U P ->
  forall afuel q s s' l, P s -> In q U ->
    acc_loop persist prog noeq L afuel [EQ q] [] [] s = (s', Ok l) ->
    l = spec_acc prog n sn q.
Proof.
  intros persist prog noeq L n sn rank A B dead gsucc gflag U P V.
  exact (acc_loop_spec persist prog noeq L n sn rank A B dead gsucc gflag U P V).
Qed.
Check C11_loop_partial :
  forall persist prog noeq (L : lower) n sn rank, calls_below prog rank -> (forall q, (rank q < n)%nat) ->
  forall dead gsucc gflag U P, acc_view persist prog noeq L n sn dead gsucc gflag U P ->
  forall afuel q s s' l, P s -> In q U ->
    acc_loop persist prog noeq L afuel [EQ q] [] [] s = (s', Ok l) ->
    l = spec_acc prog n sn q.
Print Assumptions C11_loop_partial.

Theorem C11_accumulated_partial :
  forall persist prog noeq (L : lower) n sn rank, calls_below prog rank -> (forall q, (rank q < n)%nat) ->
  forall dead gsucc gflag U P, acc_view persist prog noeq L n sn dead gsucc gflag U P ->
  forall afuel q s s' l, In q U ->
    (forall s1 r, fetch persist prog noeq L q s = (s1, Ok r) -> P s1) ->
    accumulated_by persist prog noeq L afuel q s = (s', Ok l) ->
    l = spec_acc prog n sn q.
Proof.
  intros persist prog noeq L n sn rank A B dead gsucc gflag U P V.
  exact (accumulated_by_spec persist prog noeq L n sn rank A B dead gsucc gflag U P V).
Qed.
Check C11_accumulated_partial :
  forall persist prog noeq (L : lower) n sn rank, calls_below prog rank -> (forall q, (rank q < n)%nat) ->
  forall dead gsucc gflag U P, acc_view persist prog noeq L n sn dead gsucc gflag U P ->
  forall afuel q s s' l, In q U ->
    (forall s1 r, fetch persist prog noeq L q s = (s1, Ok r) -> P s1) ->
    accumulated_by persist prog noeq L afuel q s = (s', Ok l) ->
    l = spec_acc prog n sn q.
Print Assumptions C11_accumulated_partial.

(* non-vacuity: a concrete view on a DAG with a shared callee, a repeated call, an unrecorded
   never-changing dependency and a skipped sub-tree; the model run returns the specification *)
Theorem C11_example_view :
  acc_view false Examples.prog Examples.noeq Examples.L Examples.NR Examples.sn
           Examples.dead Examples.gsucc Examples.gflag Examples.U (fun s => s = Examples.s1) /\
  snd (accumulated_by false Examples.prog Examples.noeq Examples.L 100 Examples.q4 Examples.s0)
    = Ok (spec_acc Examples.prog Examples.NR Examples.sn Examples.q4).
Proof. split; [exact ex_view | rewrite ex_spec; exact ex_accumulated_by_runs]. Qed.
Check C11_example_view :
  acc_view false Examples.prog Examples.noeq Examples.L Examples.NR Examples.sn
           Examples.dead Examples.gsucc Examples.gflag Examples.U (fun s => s = Examples.s1) /\
  snd (accumulated_by false Examples.prog Examples.noeq Examples.L 100 Examples.q4 Examples.s0)
    = Ok (spec_acc Examples.prog Examples.NR Examples.sn Examples.q4).
Print Assumptions C11_example_view.

(* the full statement, kept visible (NOT proved): *)
Check C11_accumulated_full_statement : Prop.
Print C11_accumulated_full_statement.

(* ------------------------------------------------------------------------------------
   THE FULL THEOREM.  The named gap is closed: the reachable states of the Acc model provide the
   view the loop needs.  Acc/AInv*.v port the durability invariant of the Core model
   (Core/DInv*.v) to Acc/Model.v and add the accumulator clauses -- a memo's accumulated values
   are the from-scratch pushes of its query at verified_at; an Empty accumulated_inputs flag
   means nothing is pushed below any function it calls (recomputed by deep_verify_edges, kept by
   the durability short-cut, or-ed in add_read); the recorded edges are the first occurrences of
   the from-scratch reads minus never-changing entries below which nothing is pushed (the
   record_input and discard_edges_if_never_change exceptions).  Acc/AInvLoop.v runs the
   accumulated_by loop over such states: it terminates within a bound computed from the
   from-scratch call tree and returns spec_acc.
   For every acyclic program, BOTH builds (persist or not), every no_eq / LRU configuration,
   initial durabilities and write durabilities among the four levels, and every history of
   writes, synthetic writes, cell changes followed by a new revision, Gets, `accumulated` calls,
   LRU capacity changes and evictions: every `accumulated` call returns spec_acc of the current
   snapshot (or unwinds; never out of fuel for a large enough loop bound). *)
Theorem C11_accumulated :
  forall (persist : bool) (prog : qkey -> body) (noeq : qkey -> bool) (fams : list N)
         (rank : qkey -> nat) (NF : nat),
  calls_below prog rank -> (forall q, (rank q < NF)%nat) ->
  forall fuel, (forall p, (rank p < fuel)%nat) ->
  forall iv idur lru0 ops,
    (forall i, idur i <= 3) -> Forall dur_op ops -> wf_ops false ops ->
    exists afuel0, forall afuel, (afuel0 <= afuel)%nat ->
      acc_outs_ok persist prog noeq fams NF fuel afuel (init iv idur lru0) ops.
Proof.
  intros persist prog noeq fams rank NF Hrank Hbound.
  exact (accumulated_full persist prog noeq fams rank Hrank NF Hbound).
Qed.
Check C11_accumulated :
  forall (persist : bool) (prog : qkey -> body) (noeq : qkey -> bool) (fams : list N)
         (rank : qkey -> nat) (NF : nat),
  calls_below prog rank -> (forall q, (rank q < NF)%nat) ->
  forall fuel, (forall p, (rank p < fuel)%nat) ->
  forall iv idur lru0 ops,
    (forall i, idur i <= 3) -> Forall dur_op ops -> wf_ops false ops ->
    exists afuel0, forall afuel, (afuel0 <= afuel)%nat ->
      acc_outs_ok persist prog noeq fams NF fuel afuel (init iv idur lru0) ops.
Print Assumptions C11_accumulated.

(* the same with the Gets of the history (each returns eval of the current snapshot) and with the
   sharp set of panics: only injected ones, and only while a fault switch is on *)
Theorem C11_read_ok_spec : forall prog NF s o r,
  read_ok prog NF s o r <->
  match o with
  | OGet q => r = Ok (OV (eval prog NF (snap_of s) q)) \/
              exists p, r = Panic p /\ p = PInjected /\ exists c, d_pcell s c <> 0
  | OAccumulated q => r = Ok (OL (spec_acc prog NF (snap_of s) q)) \/
              exists p, r = Panic p /\ p = PInjected /\ exists c, d_pcell s c <> 0
  | _ => True
  end.
Proof. intros prog NF s o r. destruct o; reflexivity. Qed.
Check C11_read_ok_spec : forall prog NF s o r,
  read_ok prog NF s o r <->
  match o with
  | OGet q => r = Ok (OV (eval prog NF (snap_of s) q)) \/
              exists p, r = Panic p /\ p = PInjected /\ exists c, d_pcell s c <> 0
  | OAccumulated q => r = Ok (OL (spec_acc prog NF (snap_of s) q)) \/
              exists p, r = Panic p /\ p = PInjected /\ exists c, d_pcell s c <> 0
  | _ => True
  end.
Print Assumptions C11_read_ok_spec.

Theorem C11_accumulated_and_gets :
  forall (persist : bool) (prog : qkey -> body) (noeq : qkey -> bool) (fams : list N)
         (rank : qkey -> nat) (NF : nat),
  calls_below prog rank -> (forall q, (rank q < NF)%nat) ->
  forall fuel, (forall p, (rank p < fuel)%nat) ->
  forall iv idur lru0 ops,
    (forall i, idur i <= 3) -> Forall dur_op ops -> wf_ops false ops ->
    exists afuel0, forall afuel, (afuel0 <= afuel)%nat ->
      all_ok persist prog noeq fams NF fuel afuel (init iv idur lru0) ops.
Proof.
  intros persist prog noeq fams rank NF Hrank Hbound.
  exact (all_ok_init persist prog noeq fams rank Hrank NF Hbound).
Qed.
Check C11_accumulated_and_gets :
  forall (persist : bool) (prog : qkey -> body) (noeq : qkey -> bool) (fams : list N)
         (rank : qkey -> nat) (NF : nat),
  calls_below prog rank -> (forall q, (rank q < NF)%nat) ->
  forall fuel, (forall p, (rank p < fuel)%nat) ->
  forall iv idur lru0 ops,
    (forall i, idur i <= 3) -> Forall dur_op ops -> wf_ops false ops ->
    exists afuel0, forall afuel, (afuel0 <= afuel)%nat ->
      all_ok persist prog noeq fams NF fuel afuel (init iv idur lru0) ops.
Print Assumptions C11_accumulated_and_gets.

(* [C11_accumulated_full_statement] (above, kept visible) is this statement WITHOUT the two
   hypotheses that bound the durability numbers to the four levels of the API
   ([forall i, idur i <= 3] and [Forall dur_op ops]).  The model's [dur] is a number; with an
   out-of-range level a field is treated as never-changing by memos but still accepts writes
   (Props/C02.v, C02_durability_needs_levels, shows the stale result on the Core model), so the
   bounds are necessary; C11_accumulated is the full statement with them. *)
Theorem C11_dur_op_spec : forall o,
  dur_op o <-> (forall i v d, o = OSet i v (Some d) -> d <= 3).
Proof.
  intros o. split.
  - intros Hd i v d ->. exact Hd.
  - intros Hx. destruct o as [i v [d|] | d | c v | c v | q | q | fam n |]; cbn; try exact I.
    apply (Hx i v d eq_refl).
Qed.
Check C11_dur_op_spec : forall o,
  dur_op o <-> (forall i v d, o = OSet i v (Some d) -> d <= 3).
Print Assumptions C11_dur_op_spec.

(* non-vacuity (Acc/AInvExamples.v): d = 1 pushes 7 once the input a is >= 5; f = d + 1 pushes 3.
   After a: 4 -> 9 the second `accumulated` executes d again (equal value, backdated) and only
   VALIDATES f, whose accumulated_inputs flag is recomputed (Empty -> Any); the result is the
   from-scratch list [3; 7].  The history satisfies the hypotheses of the theorem (both builds). *)
Theorem C11_example_full :
  (forall persist, exists afuel0, forall afuel, (afuel0 <= afuel)%nat ->
     all_ok persist ax_prog ax_noeq [] 2 2 afuel ax_init ax_ops) /\
  snd (ax_run 6) = [Ok (OL [3]); Ok (OV 0); Ok (OL [3; 7]); Ok (OV 2); Ok (OV 0); Ok (OL [3])] /\
  spec_acc ax_prog 2 (snap_of (fst (ax_run 2))) (0, 0) = [3; 7] /\
  d_log (fst (ax_run 3)) = [EvValidate (0, 0); EvExec (1, 0); EvExec (1, 0); EvExec (0, 0)] /\
  option_map (fun m => (m_verified m, m_acc m, m_accin m)) (d_memo (fst (ax_run 1)) (0, 0)) = Some (1, [3], false) /\
  option_map (fun m => (m_verified m, m_acc m, m_accin m)) (d_memo (fst (ax_run 3)) (0, 0)) = Some (2, [3], true).
Proof.
  split; [exact ax_accumulated|].
  destruct ax_values as (A & _ & B & _). split; [exact A|]. split; [exact B|].
  destruct ax_deep_verified as (_ & C & D0 & E0 & _). split; [exact C|]. split; assumption.
Qed.
Check C11_example_full :
  (forall persist, exists afuel0, forall afuel, (afuel0 <= afuel)%nat ->
     all_ok persist ax_prog ax_noeq [] 2 2 afuel ax_init ax_ops) /\
  snd (ax_run 6) = [Ok (OL [3]); Ok (OV 0); Ok (OL [3; 7]); Ok (OV 2); Ok (OV 0); Ok (OL [3])] /\
  spec_acc ax_prog 2 (snap_of (fst (ax_run 2))) (0, 0) = [3; 7] /\
  d_log (fst (ax_run 3)) = [EvValidate (0, 0); EvExec (1, 0); EvExec (1, 0); EvExec (0, 0)] /\
  option_map (fun m => (m_verified m, m_acc m, m_accin m)) (d_memo (fst (ax_run 1)) (0, 0)) = Some (1, [3], false) /\
  option_map (fun m => (m_verified m, m_acc m, m_accin m)) (d_memo (fst (ax_run 3)) (0, 0)) = Some (2, [3], true).
Print Assumptions C11_example_full.

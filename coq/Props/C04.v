(* Props/C04.v — Queries that read untracked state re-execute in every later revision.
   Statements only. *)
From Salsa Require Import Base.
From Salsa.Kern Require Import CoreK CoreKFacts.
From Salsa.Core Require Import Model Spec ReuseProofs.

(* An untracked read makes the running query LOW-durability, stamped with the current
   revision, flagged untracked — and later tracked reads keep it LOW and flagged. *)
Theorem C04_untracked_frame : forall fr now e d c,
  fr_dur (add_untracked fr now) = D_LOW /\ fr_changed (add_untracked fr now) = now /\
  fr_untracked (add_untracked fr now) = true /\
  (fr_dur fr = 0 -> fr_dur (add_read fr e d c) = 0) /\
  fr_untracked (add_read fr e d c) = fr_untracked fr.
Proof.
  intros. destruct (untracked_frame fr now) as (A & B & C).
  split; [exact A|]. split; [exact B|]. split; [exact C|].
  split; [apply add_read_keeps_low | apply add_read_keeps_untracked].
Qed.
Check C04_untracked_frame : forall fr now e d c,
  fr_dur (add_untracked fr now) = D_LOW /\ fr_changed (add_untracked fr now) = now /\
  fr_untracked (add_untracked fr now) = true /\
  (fr_dur fr = 0 -> fr_dur (add_read fr e d c) = 0) /\
  fr_untracked (add_read fr e d c) = fr_untracked fr.
Print Assumptions C04_untracked_frame.

(* In a later revision such a memo can be neither short-cut (it is LOW) nor deep-verified
   (the untracked arm always answers "changed" and touches nothing), and it is never evicted:
   the only way to serve a request for it is to execute it again. *)
Theorem C04_never_verified_later : forall L q m s,
  m_untracked m = true -> m_dur m = 0 -> m_verified m < cur s ->
  shallow_verify s m = ShNo /\
  deep_verify L q m s = (s, Ok (false, m)) /\
  evict_memo m = m.
Proof.
  intros L q m s Hu Hd Hv.
  split; [apply low_never_shallow; assumption|].
  split; [apply deep_verify_untracked; exact Hu | apply evict_untracked; exact Hu].
Qed.
Check C04_never_verified_later : forall L q m s,
  m_untracked m = true -> m_dur m = 0 -> m_verified m < cur s ->
  shallow_verify s m = ShNo /\
  deep_verify L q m s = (s, Ok (false, m)) /\
  evict_memo m = m.
Print Assumptions C04_never_verified_later.

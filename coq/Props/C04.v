(* Props/C04.v — Queries that read untracked state re-execute in every later revision.
   Statements only. *)
From Salsa Require Import Base.
From Salsa.Kern Require Import CoreK CoreKFacts.
From Salsa.Core Require Import Model Spec ReuseProofs.
From Salsa.Core Require Import Inv InvTop DInvTop DReuse DReuseTop DReuseExamples.

(* An untracked read makes the running query LOW-durability, stamped with the current
   revision, flagged untracked — and later tracked reads keep it LOW and flagged. *)
Theorem C04_untracked_frame : forall fr now e d c,
  fr_dur (add_untracked fr now) = D_LOW /\ fr_changed (add_untracked fr now) = now /\
  fr_untracked (add_untracked fr now) = true /\
  (fr_dur fr = 0 -> fr_dur (add_read fr e d c) = 0) /\
  fr_untracked (add_read fr e d c) = fr_untracked fr.
Proof.
  intros. destruct (untracked_frame fr now) as (A & B & C).
  split; [exact A|]. split; [exact B|]. split; [exact C|].
  split; [apply add_read_keeps_low | apply add_read_keeps_untracked].
Qed.
Check C04_untracked_frame : forall fr now e d c,
  fr_dur (add_untracked fr now) = D_LOW /\ fr_changed (add_untracked fr now) = now /\
  fr_untracked (add_untracked fr now) = true /\
  (fr_dur fr = 0 -> fr_dur (add_read fr e d c) = 0) /\
  fr_untracked (add_read fr e d c) = fr_untracked fr.
Print Assumptions C04_untracked_frame.

(* In a later revision such a memo can be neither short-cut (it is LOW) nor deep-verified
   (the untracked arm always answers "changed" and touches nothing), and it is never evicted:
   the only way to serve a request for it is to execute it again. *)
Theorem C04_never_verified_later : forall L q m s,
  m_untracked m = true -> m_dur m = 0 -> m_verified m < cur s ->
  shallow_verify s m = ShNo /\
  deep_verify L q m s = (s, Ok (false, m)) /\
  evict_memo m = m.
Proof.
  intros L q m s Hu Hd Hv.
  split; [apply low_never_shallow; assumption|].
  split; [apply deep_verify_untracked; exact Hu | apply evict_untracked; exact Hu].
Qed.
Check C04_never_verified_later : forall L q m s,
  m_untracked m = true -> m_dur m = 0 -> m_verified m < cur s ->
  shallow_verify s m = ShNo /\
  deep_verify L q m s = (s, Ok (false, m)) /\
  evict_memo m = m.
Print Assumptions C04_never_verified_later.

(* ------------------------------------------------------------------------------------
   EVENT-LEVEL THEOREM over whole histories (every acyclic program, every configuration, inputs
   and writes of every durability, every history; [gets_sat] as in Props/C03.v): whenever a
   query whose memo is untracked-origin is requested in a revision later than the one the memo
   was verified in, and the Get returns a value, the Get EXECUTED the query's body again
   (EvExec q is among the events it logged) and the value is the from-scratch value of the
   current inputs and cells.  Dependents see the new value by C01_from_scratch; if the value is
   equal the query is backdated (C03_equal_value_backdated) and its dependents are only
   validated (C03_unchanged_reused). *)
Theorem C04_untracked_reexecutes_spec :
  forall prog NF s q s' r,
  untracked_reexecutes prog NF s q s' r <->
  (forall m v, d_memo s q = Some m -> m_untracked m = true -> m_verified m < cur s -> r = Ok v ->
   v = eval prog NF (snap_of s) q /\
   exists new, d_log s' = new ++ d_log s /\ In (EvExec q) new).
Proof. intros; reflexivity. Qed.
Check C04_untracked_reexecutes_spec :
  forall prog NF s q s' r,
  untracked_reexecutes prog NF s q s' r <->
  (forall m v, d_memo s q = Some m -> m_untracked m = true -> m_verified m < cur s -> r = Ok v ->
   v = eval prog NF (snap_of s) q /\
   exists new, d_log s' = new ++ d_log s /\ In (EvExec q) new).
Print Assumptions C04_untracked_reexecutes_spec.

Theorem C04_untracked_reexecutes :
  forall (prog : qkey -> body) (noeq : qkey -> bool) (fams : list N)
         (rank : qkey -> nat) (NF : nat),
  calls_below prog rank -> (forall q, (rank q < NF)%nat) ->
  forall fuel, (forall p, (rank p < fuel)%nat) ->
  forall iv idur lru0 ops,
    (forall i, idur i <= 3) -> Forall dur_op ops -> wf_ops false ops ->
    gets_sat prog noeq fams (untracked_reexecutes prog NF) fuel (init iv idur lru0) ops.
Proof.
  intros prog noeq fams rank NF Hrank Hbound.
  exact (untracked_reexecutes_init prog noeq fams rank Hrank NF Hbound).
Qed.
Check C04_untracked_reexecutes :
  forall (prog : qkey -> body) (noeq : qkey -> bool) (fams : list N)
         (rank : qkey -> nat) (NF : nat),
  calls_below prog rank -> (forall q, (rank q < NF)%nat) ->
  forall fuel, (forall p, (rank p < fuel)%nat) ->
  forall iv idur lru0 ops,
    (forall i, idur i <= 3) -> Forall dur_op ops -> wf_ops false ops ->
    gets_sat prog noeq fams (untracked_reexecutes prog NF) fuel (init iv idur lru0) ops.
Print Assumptions C04_untracked_reexecutes.

(* non-vacuity (Core/DReuseExamples.v): u reads the untracked cell 0, w = u / 2.  After the cell
   changed (and a new revision) the Get of w executes u and w; in a later revision with the cell
   unchanged it executes u again (equal value) and only validates w; after another cell change
   it executes both again. *)
Theorem C04_examples :
  gets_sat rx_prog rx_noeq [] (untracked_reexecutes rx_prog 2) 2 rx_init rx_ops /\
  option_map (fun m => (m_untracked m, m_verified m)) (d_memo (fst (rx_run 6)) (2, 0)) = Some (true, 1) /\
  rx_new 7 = [EvExec (3, 0); EvExec (2, 0)] /\
  rx_new 9 = [EvValidate (3, 0); EvExec (2, 0)] /\
  rx_new 12 = [EvExec (3, 0); EvExec (2, 0)].
Proof.
  split; [exact rx_untracked_reexecutes|].
  destruct rx_untracked as (A & B & C & D & _). split; [exact A|]. split; [exact B|]. split; assumption.
Qed.
Check C04_examples :
  gets_sat rx_prog rx_noeq [] (untracked_reexecutes rx_prog 2) 2 rx_init rx_ops /\
  option_map (fun m => (m_untracked m, m_verified m)) (d_memo (fst (rx_run 6)) (2, 0)) = Some (true, 1) /\
  rx_new 7 = [EvExec (3, 0); EvExec (2, 0)] /\
  rx_new 9 = [EvValidate (3, 0); EvExec (2, 0)] /\
  rx_new 12 = [EvExec (3, 0); EvExec (2, 0)].
Print Assumptions C04_examples.

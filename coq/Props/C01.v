(* Props/C01.v — Incremental results always equal a from-scratch evaluation.
   Only statements; proofs live in Core/SpecProofs.v (and Core/Inv*.v). *)
From Salsa Require Import Base.
From Salsa.Core Require Import Model Spec SpecProofs.

(* A body's run (value and read trace) is a function of the answers to the reads it
   performs: the fact that makes "all recorded dependencies unchanged => same value" sound. *)
Theorem C01_trace_determined : forall (b : body) (e e' : env),
  agree_on e e' (trace e b) -> trace e' b = trace e b /\ run e' b = run e b.
Proof. exact trace_determined. Qed.
Check C01_trace_determined : forall (b : body) (e e' : env),
  agree_on e e' (trace e b) -> trace e' b = trace e b /\ run e' b = run e b.
Print Assumptions C01_trace_determined.

(* Walking an old trace in order, the first read whose answer differs is performed by the
   new run too (so a re-execution caused by a changed dependency reads that dependency). *)
Theorem C01_first_changed_is_read_again : forall (b : body) (e e' : env),
  (agree_on e e' (trace e b)) \/
  (exists pre r post, trace e b = pre ++ r :: post /\ agree_on e e' pre /\
                      answer e r <> answer e' r /\
                      exists post', trace e' b = pre ++ r :: post').
Proof. exact first_changed_is_read_again. Qed.
Check C01_first_changed_is_read_again : forall (b : body) (e e' : env),
  (agree_on e e' (trace e b)) \/
  (exists pre r post, trace e b = pre ++ r :: post /\ agree_on e e' pre /\
                      answer e r <> answer e' r /\
                      exists post', trace e' b = pre ++ r :: post').
Print Assumptions C01_first_changed_is_read_again.

(* The from-scratch specification is well defined for acyclic programs: the value does not
   depend on the fuel once it exceeds the rank. *)
Theorem C01_eval_fuel_irrelevant : forall prog rank, calls_below prog rank ->
  forall sn n m q, (rank q < n)%nat -> (rank q < m)%nat -> eval prog n sn q = eval prog m sn q.
Proof. exact eval_fuel_irrelevant. Qed.
Check C01_eval_fuel_irrelevant : forall prog rank, calls_below prog rank ->
  forall sn n m q, (rank q < n)%nat -> (rank q < m)%nat -> eval prog n sn q = eval prog m sn q.
Print Assumptions C01_eval_fuel_irrelevant.

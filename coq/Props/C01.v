(* Props/C01.v — Incremental results always equal a from-scratch evaluation.
   Only statements; proofs live in Core/SpecProofs.v (and Core/Inv*.v). *)
From Salsa Require Import Base.
From Salsa.Core Require Import Model Spec SpecProofs.

(* A body's run (value and read trace) is a function of the answers to the reads it
   performs: the fact that makes "all recorded dependencies unchanged => same value" sound. *)
Theorem C01_trace_determined : forall (b : body) (e e' : env),
  agree_on e e' (trace e b) -> trace e' b = trace e b /\ run e' b = run e b.
Proof. exact trace_determined. Qed.
Check C01_trace_determined : forall (b : body) (e e' : env),
  agree_on e e' (trace e b) -> trace e' b = trace e b /\ run e' b = run e b.
Print Assumptions C01_trace_determined.

(* Walking an old trace in order, the first read whose answer differs is performed by the
   new run too (so a re-execution caused by a changed dependency reads that dependency). *)
Theorem C01_first_changed_is_read_again : forall (b : body) (e e' : env),
  (agree_on e e' (trace e b)) \/
  (exists pre r post, trace e b = pre ++ r :: post /\ agree_on e e' pre /\
                      answer e r <> answer e' r /\
                      exists post', trace e' b = pre ++ r :: post').
Proof. exact first_changed_is_read_again. Qed.
Check C01_first_changed_is_read_again : forall (b : body) (e e' : env),
  (agree_on e e' (trace e b)) \/
  (exists pre r post, trace e b = pre ++ r :: post /\ agree_on e e' pre /\
                      answer e r <> answer e' r /\
                      exists post', trace e' b = pre ++ r :: post').
Print Assumptions C01_first_changed_is_read_again.

(* The from-scratch specification is well defined for acyclic programs: the value does not
   depend on the fuel once it exceeds the rank. *)
Theorem C01_eval_fuel_irrelevant : forall prog rank, calls_below prog rank ->
  forall sn n m q, (rank q < n)%nat -> (rank q < m)%nat -> eval prog n sn q = eval prog m sn q.
Proof. exact eval_fuel_irrelevant. Qed.
Check C01_eval_fuel_irrelevant : forall prog rank, calls_below prog rank ->
  forall sn n m q, (rank q < n)%nat -> (rank q < m)%nat -> eval prog n sn q = eval prog m sn q.
Print Assumptions C01_eval_fuel_irrelevant.

(* ------------------------------------------------------------------------------------
   The from-scratch theorem over the executable Core model (Core/Model.v), for every acyclic
   program of deterministic bodies (input reads, calls with dynamic keys, branches, untracked
   reads, fault-injection points), every no_eq / LRU configuration, and every history of
   operations (writes, synthetic writes of any durability, cell changes followed by a new
   revision, reads in any order, LRU capacity changes, explicit eviction, fault switches)
   in which input fields keep LOW durability:
   every Get returns eval of the current snapshot — or unwinds with the backdate-violation
   panic / an injected panic — and is never out of fuel, never a cycle panic. *)
From Salsa.Core Require Import Inv InvTop.

Theorem C01_from_scratch_partial :
  forall (prog : qkey -> body) (noeq : qkey -> bool) (fams : list N)
         (rank : qkey -> nat) (NF : nat),
  calls_below prog rank -> (forall q, (rank q < NF)%nat) ->
  forall fuel, (forall p, (rank p < fuel)%nat) ->
  forall iv lru0 ops,
    Forall low_op ops -> wf_ops false ops ->
    outs_ok prog noeq fams NF fuel (init iv (fun _ => 0) lru0) ops.
Proof.
  intros prog noeq fams rank NF Hrank Hbound fuel Hfuel iv lru0 ops Hlow Hwf.
  exact (from_scratch_low prog noeq fams rank Hrank NF Hbound fuel Hfuel ops false _ Hlow Hwf
           (init_ok prog NF iv lru0)).
Qed.
Check C01_from_scratch_partial :
  forall (prog : qkey -> body) (noeq : qkey -> bool) (fams : list N)
         (rank : qkey -> nat) (NF : nat),
  calls_below prog rank -> (forall q, (rank q < NF)%nat) ->
  forall fuel, (forall p, (rank p < fuel)%nat) ->
  forall iv lru0 ops,
    Forall low_op ops -> wf_ops false ops ->
    outs_ok prog noeq fams NF fuel (init iv (fun _ => 0) lru0) ops.
Print Assumptions C01_from_scratch_partial.

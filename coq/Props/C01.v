(* Props/C01.v — Incremental results always equal a from-scratch evaluation.
   Only statements; proofs live in Core/SpecProofs.v (and Core/Inv*.v). *)
From Salsa Require Import Base.
From Salsa.Core Require Import Model Spec SpecProofs.

(* A body's run (value and read trace) is a function of the answers to the reads it
   performs: the fact that makes "all recorded dependencies unchanged => same value" sound. *)
Theorem C01_trace_determined : forall (b : body) (e e' : env),
  agree_on e e' (trace e b) -> trace e' b = trace e b /\ run e' b = run e b.
Proof. exact trace_determined. Qed.
Check C01_trace_determined : forall (b : body) (e e' : env),
  agree_on e e' (trace e b) -> trace e' b = trace e b /\ run e' b = run e b.
Print Assumptions C01_trace_determined.

(* Walking an old trace in order, the first read whose answer differs is performed by the
   new run too (so a re-execution caused by a changed dependency reads that dependency). *)
Theorem C01_first_changed_is_read_again : forall (b : body) (e e' : env),
  (agree_on e e' (trace e b)) \/
  (exists pre r post, trace e b = pre ++ r :: post /\ agree_on e e' pre /\
                      answer e r <> answer e' r /\
                      exists post', trace e' b = pre ++ r :: post').
Proof. exact first_changed_is_read_again. Qed.
Check C01_first_changed_is_read_again : forall (b : body) (e e' : env),
  (agree_on e e' (trace e b)) \/
  (exists pre r post, trace e b = pre ++ r :: post /\ agree_on e e' pre /\
                      answer e r <> answer e' r /\
                      exists post', trace e' b = pre ++ r :: post').
Print Assumptions C01_first_changed_is_read_again.

(* The from-scratch specification is well defined for acyclic programs: the value does not
   depend on the fuel once it exceeds the rank. *)
Theorem C01_eval_fuel_irrelevant : forall prog rank, calls_below prog rank ->
  forall sn n m q, (rank q < n)%nat -> (rank q < m)%nat -> eval prog n sn q = eval prog m sn q.
Proof. exact eval_fuel_irrelevant. Qed.
Check C01_eval_fuel_irrelevant : forall prog rank, calls_below prog rank ->
  forall sn n m q, (rank q < n)%nat -> (rank q < m)%nat -> eval prog n sn q = eval prog m sn q.
Print Assumptions C01_eval_fuel_irrelevant.

(* ------------------------------------------------------------------------------------
   The from-scratch theorem over the executable Core model (Core/Model.v), for every acyclic
   program of deterministic bodies (input reads, calls with dynamic keys, branches, untracked
   reads, fault-injection points), every no_eq / LRU configuration, every assignment of initial
   durabilities to the input fields (LOW, MEDIUM, HIGH, NEVER_CHANGE) and every history of
   operations: writes that keep, raise or lower the field's durability (a write to a
   NEVER_CHANGE field is rejected with a panic and changes nothing), synthetic writes of any
   durability, cell changes followed by a new revision, reads in any order, LRU capacity
   changes, explicit eviction, fault switches:
   every Get returns eval of the current snapshot — or unwinds with the backdate-violation
   panic / an injected panic — and is never out of fuel, never a cycle panic.
   In particular the durability short-cut (shallow verification of a memo whose durability
   level saw no write since it was verified) never yields a stale value.
   Proof: Core/DurSem.v, DInv.v, DInvSem.v, DInvOps.v, DInvTop.v. *)
From Salsa.Core Require Import Inv InvTop DInvTop.

Theorem C01_from_scratch :
  forall (prog : qkey -> body) (noeq : qkey -> bool) (fams : list N)
         (rank : qkey -> nat) (NF : nat),
  calls_below prog rank -> (forall q, (rank q < NF)%nat) ->
  forall fuel, (forall p, (rank p < fuel)%nat) ->
  forall iv idur lru0 ops,
    (forall i, idur i <= 3) -> Forall dur_op ops -> wf_ops false ops ->
    outs_ok prog noeq fams NF fuel (init iv idur lru0) ops.
Proof.
  intros prog noeq fams rank NF Hrank Hbound.
  exact (from_scratch_dur_init prog noeq fams rank Hrank NF Hbound).
Qed.
Check C01_from_scratch :
  forall (prog : qkey -> body) (noeq : qkey -> bool) (fams : list N)
         (rank : qkey -> nat) (NF : nat),
  calls_below prog rank -> (forall q, (rank q < NF)%nat) ->
  forall fuel, (forall p, (rank p < fuel)%nat) ->
  forall iv idur lru0 ops,
    (forall i, idur i <= 3) -> Forall dur_op ops -> wf_ops false ops ->
    outs_ok prog noeq fams NF fuel (init iv idur lru0) ops.
Print Assumptions C01_from_scratch.

(* The sharp form: the debug-build backdate-violation assertion is unreachable (changed_at
   stamps never decrease over time: a re-execution either reads what the old run read, whose
   stamps bound the old changed_at, or re-reads the first changed dependency, whose stamp is
   later than the old verified_at; an untracked read stamps the frame with the current
   revision).  So every Get returns the from-scratch value, or unwinds with an INJECTED panic
   while a fault switch is on -- nothing else. *)
Theorem C01_from_scratch_strict :
  forall (prog : qkey -> body) (noeq : qkey -> bool) (fams : list N)
         (rank : qkey -> nat) (NF : nat),
  calls_below prog rank -> (forall q, (rank q < NF)%nat) ->
  forall fuel, (forall p, (rank p < fuel)%nat) ->
  forall iv idur lru0 ops,
    (forall i, idur i <= 3) -> Forall dur_op ops -> wf_ops false ops ->
    outs_ok_strict prog noeq fams NF fuel (init iv idur lru0) ops.
Proof.
  intros prog noeq fams rank NF Hrank Hbound.
  exact (from_scratch_dur_strong_init prog noeq fams rank Hrank NF Hbound).
Qed.
Check C01_from_scratch_strict :
  forall (prog : qkey -> body) (noeq : qkey -> bool) (fams : list N)
         (rank : qkey -> nat) (NF : nat),
  calls_below prog rank -> (forall q, (rank q < NF)%nat) ->
  forall fuel, (forall p, (rank p < fuel)%nat) ->
  forall iv idur lru0 ops,
    (forall i, idur i <= 3) -> Forall dur_op ops -> wf_ops false ops ->
    outs_ok_strict prog noeq fams NF fuel (init iv idur lru0) ops.
Print Assumptions C01_from_scratch_strict.

(* what [outs_ok_strict] says about one Get, and that it refines [outs_ok] *)
Theorem C01_strict_outcomes : forall prog noeq fams NF fuel s q r,
  (get_ok_strict prog NF s q r <->
   (r = Ok (eval prog NF (snap_of s) q) \/
    (r = Panic PInjected /\ ((exists c, d_pcell s c <> 0) \/ d_evfault s <> None)))) /\
  (forall ops, outs_ok_strict prog noeq fams NF fuel s ops -> outs_ok prog noeq fams NF fuel s ops).
Proof.
  intros prog noeq fams NF fuel s q r. split; [reflexivity|].
  intros ops. apply outs_ok_strict_outs_ok.
Qed.
Check C01_strict_outcomes : forall prog noeq fams NF fuel s q r,
  (get_ok_strict prog NF s q r <->
   (r = Ok (eval prog NF (snap_of s) q) \/
    (r = Panic PInjected /\ ((exists c, d_pcell s c <> 0) \/ d_evfault s <> None)))) /\
  (forall ops, outs_ok_strict prog noeq fams NF fuel s ops -> outs_ok prog noeq fams NF fuel s ops).
Print Assumptions C01_strict_outcomes.

(* what the hypotheses on durabilities say: the four levels of the API *)
Theorem C01_dur_op_spec : forall o,
  dur_op o <-> (forall i v d, o = OSet i v (Some d) -> d <= 3).
Proof.
  intros o. split.
  - intros Hd i v d ->. exact Hd.
  - intros Hx. destruct o as [i v [d|] | d | c v | c v | ef | q | fam n |]; cbn; try exact I.
    apply (Hx i v d eq_refl).
Qed.
Check C01_dur_op_spec : forall o,
  dur_op o <-> (forall i v d, o = OSet i v (Some d) -> d <= 3).
Print Assumptions C01_dur_op_spec.

(* the earlier LOW-durability statement, now a corollary *)
Theorem C01_from_scratch_partial :
  forall (prog : qkey -> body) (noeq : qkey -> bool) (fams : list N)
         (rank : qkey -> nat) (NF : nat),
  calls_below prog rank -> (forall q, (rank q < NF)%nat) ->
  forall fuel, (forall p, (rank p < fuel)%nat) ->
  forall iv lru0 ops,
    Forall low_op ops -> wf_ops false ops ->
    outs_ok prog noeq fams NF fuel (init iv (fun _ => 0) lru0) ops.
Proof.
  intros prog noeq fams rank NF Hrank Hbound.
  exact (from_scratch_low_again prog noeq fams rank Hrank NF Hbound).
Qed.
Check C01_from_scratch_partial :
  forall (prog : qkey -> body) (noeq : qkey -> bool) (fams : list N)
         (rank : qkey -> nat) (NF : nat),
  calls_below prog rank -> (forall q, (rank q < NF)%nat) ->
  forall fuel, (forall p, (rank p < fuel)%nat) ->
  forall iv lru0 ops,
    Forall low_op ops -> wf_ops false ops ->
    outs_ok prog noeq fams NF fuel (init iv (fun _ => 0) lru0) ops.
Print Assumptions C01_from_scratch_partial.

(* non-vacuity: a concrete history with a HIGH input, a memo served through the short-cut
   after a LOW write, a HIGH write that invalidates it, durability changes and a frozen field
   satisfies the hypotheses and returns the from-scratch values *)
From Salsa.Core Require Import DurExamples.
Theorem C01_durability_example :
  outs_ok ex_prog ex_noeq [] 2 2 ex_init ex_ops /\
  snd (ex_run 17) =
    [Ok 3; Ok 2; Ok 0; Ok 2; Ok 7; Ok 0; Ok 5; Ok 10; Ok 0; Ok 0; Ok 11; Ok 0; Ok 11; Ok 0; Ok 16;
     Panic PNeverChange; Ok 16] /\
  d_log (fst (ex_run 4)) = [EvValidate (1, 0); EvExec (1, 0); EvExec (0, 0)] /\
  firstn 1 (d_log (fst (ex_run 7))) = [EvExec (1, 0)].
Proof.
  split; [exact ex_outs_ok|]. split; [exact (proj1 ex_values)|].
  destruct ex_shortcut_fires as (_ & _ & A & _ & _ & _ & B). split; assumption.
Qed.
Check C01_durability_example :
  outs_ok ex_prog ex_noeq [] 2 2 ex_init ex_ops /\
  snd (ex_run 17) =
    [Ok 3; Ok 2; Ok 0; Ok 2; Ok 7; Ok 0; Ok 5; Ok 10; Ok 0; Ok 0; Ok 11; Ok 0; Ok 11; Ok 0; Ok 16;
     Panic PNeverChange; Ok 16] /\
  d_log (fst (ex_run 4)) = [EvValidate (1, 0); EvExec (1, 0); EvExec (0, 0)] /\
  firstn 1 (d_log (fst (ex_run 7))) = [EvExec (1, 0)].
Print Assumptions C01_durability_example.

(* Props/C03.v — Memoized results are reused unless something they read has changed.
   Statements only. *)
From Salsa Require Import Base.
From Salsa.Kern Require Import CoreK CoreKFacts.
From Salsa.Core Require Import Model Spec Dsl ReuseProofs.
From Salsa.Core Require Import Inv InvTop DInvTop DReuse DReuseTop DReuseValid DReuseExamples.

(* A result that is verified in the current revision is returned without executing or
   validating anything (no event, memo table untouched). *)
Theorem C03_valid_no_exec : forall prog noeq L q s m v,
  d_memo s q = Some m -> m_val m = Some v -> m_verified m = cur s ->
  exists s', fetch prog noeq L q s = (s', Ok (v, m_dur m, m_changed m)) /\
             d_log s' = d_log s /\ d_memo s' = d_memo s.
Proof. exact fetch_valid_no_event. Qed.
Check C03_valid_no_exec : forall prog noeq L q s m v,
  d_memo s q = Some m -> m_val m = Some v -> m_verified m = cur s ->
  exists s', fetch prog noeq L q s = (s', Ok (v, m_dur m, m_changed m)) /\
             d_log s' = d_log s /\ d_memo s' = d_memo s.
Print Assumptions C03_valid_no_exec.

(* The comparisons that decide "changed": a dependency counts as changed exactly when its
   stamp is later than the revision the memo was verified at; backdating is allowed exactly
   when durability did not decrease. (Over the translated kernels.) *)
Theorem C03_changed_means_later : forall stamp since n o,
  (changed_after stamp since = true <-> since < stamp) /\
  (can_backdate_dur n o = true <-> o <= n).
Proof. intros; split; [apply changed_after_spec | apply can_backdate_dur_spec]. Qed.
Check C03_changed_means_later : forall stamp since n o,
  (changed_after stamp since = true <-> since < stamp) /\
  (can_backdate_dur n o = true <-> o <= n).
Print Assumptions C03_changed_means_later.

(* KNOWN FINDING (refutation of the full reuse statement on the faithful model; reproduced
   on the real crate): a caller is re-executed because a callee whose value had been evicted
   was invalidated, although the callee's recomputed value is equal.  Same history without
   the eviction: the callee executes, the caller is only validated.  Results are equal. *)
Theorem C03_refuted_evicted_callee :
  firstn 2 (kf_log kf_ops_evicted) = [EvExec (1, 0); EvExec (0, 0)] /\
  firstn 2 (kf_log kf_ops_kept) = [EvValidate (0, 0); EvExec (1, 0)] /\
  snd (run_ops kf_prog (fun _ => false) [1] 5 kf_init kf_ops_evicted) = [Ok 3; Ok 0; Ok 0; Ok 3] /\
  snd (run_ops kf_prog (fun _ => false) [1] 5 kf_init kf_ops_kept) = [Ok 3; Ok 0; Ok 3].
Proof. exact kf_evicted_callee. Qed.
Check C03_refuted_evicted_callee :
  firstn 2 (kf_log kf_ops_evicted) = [EvExec (1, 0); EvExec (0, 0)] /\
  firstn 2 (kf_log kf_ops_kept) = [EvValidate (0, 0); EvExec (1, 0)] /\
  snd (run_ops kf_prog (fun _ => false) [1] 5 kf_init kf_ops_evicted) = [Ok 3; Ok 0; Ok 0; Ok 3] /\
  snd (run_ops kf_prog (fun _ => false) [1] 5 kf_init kf_ops_kept) = [Ok 3; Ok 0; Ok 3].
Print Assumptions C03_refuted_evicted_callee.

(* ------------------------------------------------------------------------------------
   EVENT-LEVEL THEOREMS over whole histories of the executable Core model: every acyclic
   program, every no_eq / LRU configuration, inputs and writes of every durability, every
   history of operations (as in C01_from_scratch).  [gets_sat P fuel s ops] says that P holds of
   every Get of the history: P s q s' r, where s is the state before the Get of q, s' the
   state after it, r its outcome. *)
Theorem C03_gets_sat_spec :
  forall prog noeq fams (P : db -> qkey -> db -> out -> Prop) fuel s o ops,
  gets_sat prog noeq fams P fuel s [] = True /\
  gets_sat prog noeq fams P fuel s (o :: ops) =
    ((match o with
      | OGet q => P s q (fst (step prog noeq fams fuel s o)) (snd (step prog noeq fams fuel s o))
      | _ => True
      end) /\
     gets_sat prog noeq fams P fuel (fst (step prog noeq fams fuel s o)) ops).
Proof. intros; split; reflexivity. Qed.
Check C03_gets_sat_spec :
  forall prog noeq fams (P : db -> qkey -> db -> out -> Prop) fuel s o ops,
  gets_sat prog noeq fams P fuel s [] = True /\
  gets_sat prog noeq fams P fuel s (o :: ops) =
    ((match o with
      | OGet q => P s q (fst (step prog noeq fams fuel s o)) (snd (step prog noeq fams fuel s o))
      | _ => True
      end) /\
     gets_sat prog noeq fams P fuel (fst (step prog noeq fams fuel s o)) ops).
Print Assumptions C03_gets_sat_spec.

(* Every execution is justified.  For every Get that returns a value, the events it logged are
   [new] (d_log s' = new ++ d_log s, newest first), and every [EvExec q] in [new] is justified by
   the state BEFORE the Get: q had no memo; or its value was evicted; or its previous execution
   read untracked state; or an input field it recorded was written since it was validated; or a
   tracked function d it recorded
     - has no value (evicted callee: the known finding below, kept as an explicit disjunct), or
     - has a changed_at stamp later than q's verified_at (it re-executed without backdating in
       an earlier request since q was validated), or
     - was executed in this very Get and could not be backdated: it is no_eq, or became less
       durable, or produced a value differing from its previous one. *)
Theorem C03_justified_spec :
  forall prog noeq NF s q0 s' r,
  exec_justified prog noeq NF s q0 s' r <->
  (forall v, r = Ok v ->
   exists new, d_log s' = new ++ d_log s /\
     forall q, In (EvExec q) new ->
       d_memo s q = None \/
       exists m, d_memo s q = Some m /\
         (m_val m = None \/
          m_untracked m = true \/
          (exists i, In (EIn i) (m_edges m) /\ m_verified m < f_changed (d_in s i)) \/
          (exists d, In (EQ d) (m_edges m) /\
             ((forall md, d_memo s d = Some md -> m_val md = None) \/
              (exists md, d_memo s d = Some md /\ m_verified m < m_changed md) \/
              (In (EvExec d) new /\
               exists md md', d_memo s d = Some md /\ d_memo s' d = Some md' /\
                 (noeq d = true \/ m_dur md' < m_dur md \/
                  exists ov, m_val md = Some ov /\ ov <> eval prog NF (snap_of s) d)))))).
Proof. intros; reflexivity. Qed.
Check C03_justified_spec :
  forall prog noeq NF s q0 s' r,
  exec_justified prog noeq NF s q0 s' r <->
  (forall v, r = Ok v ->
   exists new, d_log s' = new ++ d_log s /\
     forall q, In (EvExec q) new ->
       d_memo s q = None \/
       exists m, d_memo s q = Some m /\
         (m_val m = None \/
          m_untracked m = true \/
          (exists i, In (EIn i) (m_edges m) /\ m_verified m < f_changed (d_in s i)) \/
          (exists d, In (EQ d) (m_edges m) /\
             ((forall md, d_memo s d = Some md -> m_val md = None) \/
              (exists md, d_memo s d = Some md /\ m_verified m < m_changed md) \/
              (In (EvExec d) new /\
               exists md md', d_memo s d = Some md /\ d_memo s' d = Some md' /\
                 (noeq d = true \/ m_dur md' < m_dur md \/
                  exists ov, m_val md = Some ov /\ ov <> eval prog NF (snap_of s) d)))))).
Print Assumptions C03_justified_spec.

Theorem C03_exec_justified :
  forall (prog : qkey -> body) (noeq : qkey -> bool) (fams : list N)
         (rank : qkey -> nat) (NF : nat),
  calls_below prog rank -> (forall q, (rank q < NF)%nat) ->
  forall fuel, (forall p, (rank p < fuel)%nat) ->
  forall iv idur lru0 ops,
    (forall i, idur i <= 3) -> Forall dur_op ops -> wf_ops false ops ->
    gets_sat prog noeq fams (exec_justified prog noeq NF) fuel (init iv idur lru0) ops.
Proof.
  intros prog noeq fams rank NF Hrank Hbound.
  exact (exec_justified_init prog noeq fams rank Hrank NF Hbound).
Qed.
Check C03_exec_justified :
  forall (prog : qkey -> body) (noeq : qkey -> bool) (fams : list N)
         (rank : qkey -> nat) (NF : nat),
  calls_below prog rank -> (forall q, (rank q < NF)%nat) ->
  forall fuel, (forall p, (rank p < fuel)%nat) ->
  forall iv idur lru0 ops,
    (forall i, idur i <= 3) -> Forall dur_op ops -> wf_ops false ops ->
    gets_sat prog noeq fams (exec_justified prog noeq NF) fuel (init iv idur lru0) ops.
Print Assumptions C03_exec_justified.

(* Backdating.  In a Get that returns a value, the changed_at stamp of a function d differs
   before and after only if d was executed in this Get and backdating was impossible (no_eq,
   no previous value, lower durability, or a different value) ... *)
Theorem C03_stamp_moves_spec :
  forall noeq s q0 s' r,
  stamp_moves_justified noeq s q0 s' r <->
  (forall v, r = Ok v ->
   exists new, d_log s' = new ++ d_log s /\
     forall d md md', d_memo s d = Some md -> d_memo s' d = Some md' ->
       m_changed md <> m_changed md' ->
       In (EvExec d) new /\
       (noeq d = true \/ m_val md = None \/ m_dur md' < m_dur md \/
        exists ov v', m_val md = Some ov /\ m_val md' = Some v' /\ ov <> v')).
Proof. intros; reflexivity. Qed.
Check C03_stamp_moves_spec :
  forall noeq s q0 s' r,
  stamp_moves_justified noeq s q0 s' r <->
  (forall v, r = Ok v ->
   exists new, d_log s' = new ++ d_log s /\
     forall d md md', d_memo s d = Some md -> d_memo s' d = Some md' ->
       m_changed md <> m_changed md' ->
       In (EvExec d) new /\
       (noeq d = true \/ m_val md = None \/ m_dur md' < m_dur md \/
        exists ov v', m_val md = Some ov /\ m_val md' = Some v' /\ ov <> v')).
Print Assumptions C03_stamp_moves_spec.

Theorem C03_stamp_moves :
  forall (prog : qkey -> body) (noeq : qkey -> bool) (fams : list N)
         (rank : qkey -> nat) (NF : nat),
  calls_below prog rank -> (forall q, (rank q < NF)%nat) ->
  forall fuel, (forall p, (rank p < fuel)%nat) ->
  forall iv idur lru0 ops,
    (forall i, idur i <= 3) -> Forall dur_op ops -> wf_ops false ops ->
    gets_sat prog noeq fams (stamp_moves_justified noeq) fuel (init iv idur lru0) ops.
Proof.
  intros prog noeq fams rank NF Hrank Hbound.
  exact (stamp_moves_init prog noeq fams rank Hrank NF Hbound).
Qed.
Check C03_stamp_moves :
  forall (prog : qkey -> body) (noeq : qkey -> bool) (fams : list N)
         (rank : qkey -> nat) (NF : nat),
  calls_below prog rank -> (forall q, (rank q < NF)%nat) ->
  forall fuel, (forall p, (rank p < fuel)%nat) ->
  forall iv idur lru0 ops,
    (forall i, idur i <= 3) -> Forall dur_op ops -> wf_ops false ops ->
    gets_sat prog noeq fams (stamp_moves_justified noeq) fuel (init iv idur lru0) ops.
Print Assumptions C03_stamp_moves.

(* ... in particular a function that executes again and returns a value equal to its previous one
   keeps its changed_at stamp, so (C03_exec_justified) no function is executed because of it. *)
Theorem C03_equal_value_backdated : forall noeq s q0 s' r,
  stamp_moves_justified noeq s q0 s' r -> forall v, r = Ok v ->
  forall d md md' ov, d_memo s d = Some md -> d_memo s' d = Some md' ->
    noeq d = false -> m_dur md <= m_dur md' -> m_val md = Some ov -> m_val md' = Some ov ->
    m_changed md' = m_changed md.
Proof. exact equal_value_backdated. Qed.
Check C03_equal_value_backdated : forall noeq s q0 s' r,
  stamp_moves_justified noeq s q0 s' r -> forall v, r = Ok v ->
  forall d md md' ov, d_memo s d = Some md -> d_memo s' d = Some md' ->
    noeq d = false -> m_dur md <= m_dur md' -> m_val md = Some ov -> m_val md' = Some ov ->
    m_changed md' = m_changed md.
Print Assumptions C03_equal_value_backdated.

(* Frugality (the converse).  A query is [settled] when it has a memo with a value that is
   verified in the current revision, or whose durability level saw no write since it was
   verified, or that is tracked with every recorded input edge unwritten since its verified_at
   and every recorded callee settled with a changed_at stamp not later than that verified_at.
   A Get of a settled query returns the from-scratch value and executes NOTHING: the events it
   logs are validations only. *)
Theorem C03_unchanged_reused_spec :
  forall prog NF s q s' r,
  unchanged_reused prog NF s q s' r <->
  (settled s q -> forall v, r = Ok v ->
   v = eval prog NF (snap_of s) q /\
   exists new, d_log s' = new ++ d_log s /\ forall x, ~ In (EvExec x) new).
Proof. intros; reflexivity. Qed.
Check C03_unchanged_reused_spec :
  forall prog NF s q s' r,
  unchanged_reused prog NF s q s' r <->
  (settled s q -> forall v, r = Ok v ->
   v = eval prog NF (snap_of s) q /\
   exists new, d_log s' = new ++ d_log s /\ forall x, ~ In (EvExec x) new).
Print Assumptions C03_unchanged_reused_spec.

Theorem C03_unchanged_reused :
  forall (prog : qkey -> body) (noeq : qkey -> bool) (fams : list N)
         (rank : qkey -> nat) (NF : nat),
  calls_below prog rank -> (forall q, (rank q < NF)%nat) ->
  forall fuel, (forall p, (rank p < fuel)%nat) ->
  forall iv idur lru0 ops,
    (forall i, idur i <= 3) -> Forall dur_op ops -> wf_ops false ops ->
    gets_sat prog noeq fams (unchanged_reused prog NF) fuel (init iv idur lru0) ops.
Proof.
  intros prog noeq fams rank NF Hrank Hbound.
  exact (unchanged_reused_init prog noeq fams rank Hrank NF Hbound).
Qed.
Check C03_unchanged_reused :
  forall (prog : qkey -> body) (noeq : qkey -> bool) (fams : list N)
         (rank : qkey -> nat) (NF : nat),
  calls_below prog rank -> (forall q, (rank q < NF)%nat) ->
  forall fuel, (forall p, (rank p < fuel)%nat) ->
  forall iv idur lru0 ops,
    (forall i, idur i <= 3) -> Forall dur_op ops -> wf_ops false ops ->
    gets_sat prog noeq fams (unchanged_reused prog NF) fuel (init iv idur lru0) ops.
Print Assumptions C03_unchanged_reused.

(* non-vacuity (Core/DReuseExamples.v): the history rx_ops satisfies the hypotheses; in it g
   executes again after a write, returns the equal value 2, keeps changed_at 1, and its caller f
   is only validated; later f is settled and a Get of f logs two validations and no execution *)
Theorem C03_examples :
  gets_sat rx_prog rx_noeq [] (exec_justified rx_prog rx_noeq 2) 2 rx_init rx_ops /\
  gets_sat rx_prog rx_noeq [] (stamp_moves_justified rx_noeq) 2 rx_init rx_ops /\
  gets_sat rx_prog rx_noeq [] (unchanged_reused rx_prog 2) 2 rx_init rx_ops /\
  rx_new 4 = [EvValidate (0, 0); EvExec (1, 0)] /\
  option_map (fun m => (m_val m, m_verified m, m_changed m)) (d_memo (fst (rx_run 3)) (1, 0)) = Some (Some 2, 1, 1) /\
  option_map (fun m => (m_val m, m_verified m, m_changed m)) (d_memo (fst (rx_run 4)) (1, 0)) = Some (Some 2, 2, 1) /\
  settled (fst (rx_run 12)) (0, 0) /\
  rx_new 13 = [EvValidate (0, 0); EvValidate (1, 0)].
Proof.
  split; [exact rx_exec_justified|]. split; [exact rx_stamp_moves|]. split; [exact rx_unchanged_reused|].
  destruct rx_backdating as (A & B & C & _). split; [exact A|]. split; [exact B|]. split; [exact C|].
  split; [exact rx_settled | exact (proj1 rx_reused)].
Qed.
Check C03_examples :
  gets_sat rx_prog rx_noeq [] (exec_justified rx_prog rx_noeq 2) 2 rx_init rx_ops /\
  gets_sat rx_prog rx_noeq [] (stamp_moves_justified rx_noeq) 2 rx_init rx_ops /\
  gets_sat rx_prog rx_noeq [] (unchanged_reused rx_prog 2) 2 rx_init rx_ops /\
  rx_new 4 = [EvValidate (0, 0); EvExec (1, 0)] /\
  option_map (fun m => (m_val m, m_verified m, m_changed m)) (d_memo (fst (rx_run 3)) (1, 0)) = Some (Some 2, 1, 1) /\
  option_map (fun m => (m_val m, m_verified m, m_changed m)) (d_memo (fst (rx_run 4)) (1, 0)) = Some (Some 2, 2, 1) /\
  settled (fst (rx_run 12)) (0, 0) /\
  rx_new 13 = [EvValidate (0, 0); EvValidate (1, 0)].
Print Assumptions C03_examples.

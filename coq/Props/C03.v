(* Props/C03.v — Memoized results are reused unless something they read has changed.
   Statements only. *)
From Salsa Require Import Base.
From Salsa.Kern Require Import CoreK CoreKFacts.
From Salsa.Core Require Import Model Spec Dsl ReuseProofs.

(* A result that is verified in the current revision is returned without executing or
   validating anything (no event, memo table untouched). *)
Theorem C03_valid_no_exec : forall prog noeq L q s m v,
  d_memo s q = Some m -> m_val m = Some v -> m_verified m = cur s ->
  exists s', fetch prog noeq L q s = (s', Ok (v, m_dur m, m_changed m)) /\
             d_log s' = d_log s /\ d_memo s' = d_memo s.
Proof. exact fetch_valid_no_event. Qed.
Check C03_valid_no_exec : forall prog noeq L q s m v,
  d_memo s q = Some m -> m_val m = Some v -> m_verified m = cur s ->
  exists s', fetch prog noeq L q s = (s', Ok (v, m_dur m, m_changed m)) /\
             d_log s' = d_log s /\ d_memo s' = d_memo s.
Print Assumptions C03_valid_no_exec.

(* The comparisons that decide "changed": a dependency counts as changed exactly when its
   stamp is later than the revision the memo was verified at; backdating is allowed exactly
   when durability did not decrease. (Over the translated kernels.) *)
Theorem C03_changed_means_later : forall stamp since n o,
  (changed_after stamp since = true <-> since < stamp) /\
  (can_backdate_dur n o = true <-> o <= n).
Proof. intros; split; [apply changed_after_spec | apply can_backdate_dur_spec]. Qed.
Check C03_changed_means_later : forall stamp since n o,
  (changed_after stamp since = true <-> since < stamp) /\
  (can_backdate_dur n o = true <-> o <= n).
Print Assumptions C03_changed_means_later.

(* KNOWN FINDING (refutation of the full reuse statement on the faithful model; reproduced
   on the real crate): a caller is re-executed because a callee whose value had been evicted
   was invalidated, although the callee's recomputed value is equal.  Same history without
   the eviction: the callee executes, the caller is only validated.  Results are equal. *)
Theorem C03_refuted_evicted_callee :
  firstn 2 (kf_log kf_ops_evicted) = [EvExec (1, 0); EvExec (0, 0)] /\
  firstn 2 (kf_log kf_ops_kept) = [EvValidate (0, 0); EvExec (1, 0)] /\
  snd (run_ops kf_prog (fun _ => false) [1] 5 kf_init kf_ops_evicted) = [Ok 3; Ok 0; Ok 0; Ok 3] /\
  snd (run_ops kf_prog (fun _ => false) [1] 5 kf_init kf_ops_kept) = [Ok 3; Ok 0; Ok 3].
Proof. exact kf_evicted_callee. Qed.
Check C03_refuted_evicted_callee :
  firstn 2 (kf_log kf_ops_evicted) = [EvExec (1, 0); EvExec (0, 0)] /\
  firstn 2 (kf_log kf_ops_kept) = [EvValidate (0, 0); EvExec (1, 0)] /\
  snd (run_ops kf_prog (fun _ => false) [1] 5 kf_init kf_ops_evicted) = [Ok 3; Ok 0; Ok 0; Ok 3] /\
  snd (run_ops kf_prog (fun _ => false) [1] 5 kf_init kf_ops_kept) = [Ok 3; Ok 0; Ok 3].
Print Assumptions C03_refuted_evicted_callee.

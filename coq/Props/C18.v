(* Props/C18.v — C18 "Cross-thread cycles terminate with single-threaded results".
   Statements only.  Proofs: CCycle/ProtoProofs.v (protocol level, over Proto/Model.v),
   CCycle/Proofs.v (values), witnesses in CCycle/Examples.v.

   What is proved, and for what.
   (i)  Protocol level, for EVERY reachable state of the claim / wait / transfer protocol, any
        number of threads and queries: the hand-over of an inner cycle head's lock to the outer
        head's query ([C18_transfer_progress]), the release of the outer head
        ([C18_outer_release_wakes_nested]), and who a claimant is told to wait for
        ([C18_claim_never_waits_into_cycle], [C18_transferred_claim_resolves]).
   (ii) Values, for EVERY monotone program, every snapshot and ANY multi-handle final state
        (however it was reached: any schedule, any number of handles): if the decidable
        certificate holds, every returned value is the single-threaded result
        ([C18_values_certified], [C18_values_certified_seen], [C18_schedule_independent],
        [C18_fallback_certified_partial]); every value ANY interleaving can produce lies below
        the least fixpoint ([C18_seen_below]).
   (iii) The abstract chaotic multi-handle iteration (NOT a transcription of salsa's
        algorithm): every schedule makes at most height x nodes changing steps, every schedule
        that keeps sweeping ends at the least fixpoint, and the machine form of the full
        statement holds for it ([C18_chaotic_changes_bounded], [C18_chaotic_terminates_lfp],
        [C18_full_statement_abstract_machine]).
   NOT proved: the full statement for a faithful composition of Cycle/Model.v with
   Proto/Model.v ([C18_full_statement], kept visible below; that machine is not written).  The
   gap is closed PER RUN by checks/C18.py: termination by shuttle's deadlock detection and step
   bound on every explored schedule, the certificate of (ii) evaluated on every multi-threaded
   final state, every recorded protocol step replayed through Proto/Model.v. *)
From Salsa Require Import Base.
From Salsa.Core Require Import Model Spec.
From Salsa.Cycle Require Import Spec.
From Salsa.Proto Require Import Model ProofsGraph ProofsInv ProofsWake ProofsSubtree ProofsStep.
From Salsa.CCycle Require Import Model Proofs ProtoProofs.
From Salsa.CCycle Require Examples.

(* ================================================================ (i) protocol level *)

(* An inner cycle head (thread t, query k) hands its lock to the query n of the outer head
   (owner [id]).  From ANY reachable state: the successor is reachable (so I1–I3 of C19 hold:
   the wait graph is acyclic, the transfer relation a forest); from every thread the wait graph
   leads to a RUNNING thread; exactly the threads in W (all blocked before) are woken, each with
   Completed; nobody else's wait changes; t itself either now waits for the new owner's query
   or keeps running, and holds no stale wait result. *)
Theorem C18_transfer_progress :
  forall fuel s t k n id s' b,
  reachable fuel s -> pre s (OTransfer t k n id) ->
  step fuel s (OTransfer t k n id) = ROk (s', XTransfer b) ->
  reachable fuel s' /\
  (forall x, exists r, reaches (eproj (dg s')) x r /\ edges (dg s') r = None) /\
  exists W, NoDup W /\ ~ In t W /\
    (forall d, In d W -> edges (dg s) d <> None /\ edges (dg s') d = None /\
                         wres (dg s') d = Some Completed) /\
    (forall d, ~ In d W -> d <> t ->
               wait_key (dg s') d = wait_key (dg s) d /\ wres (dg s') d = wres (dg s) d) /\
    (if b then wait_key (dg s') t = Some n else edges (dg s') t = None) /\
    wres (dg s') t = None.
Proof. exact transfer_progress. Qed.

Check C18_transfer_progress :
  forall fuel s t k n id s' b,
  reachable fuel s -> pre s (OTransfer t k n id) ->
  step fuel s (OTransfer t k n id) = ROk (s', XTransfer b) ->
  reachable fuel s' /\
  (forall x, exists r, reaches (eproj (dg s')) x r /\ edges (dg s') r = None) /\
  exists W, NoDup W /\ ~ In t W /\
    (forall d, In d W -> edges (dg s) d <> None /\ edges (dg s') d = None /\
                         wres (dg s') d = Some Completed) /\
    (forall d, ~ In d W -> d <> t ->
               wait_key (dg s') d = wait_key (dg s) d /\ wres (dg s') d = wres (dg s) d) /\
    (if b then wait_key (dg s') t = Some n else edges (dg s') t = None) /\
    wres (dg s') t = None.
Print Assumptions C18_transfer_progress.

(* The owner of the outer head releases it (the two dependency-graph critical sections of
   ClaimGuard::release for a transfer target, in program order).  From ANY reachable state:
   every thread that waited for the head, and every thread that waited for ANY query whose
   ownership had been transferred to it — directly or through a chain of transfers (nested
   heads) — is woken with the release result, and those queries are cleared. *)
Theorem C18_outer_release_wakes_nested :
  forall fuel s a kout r s1 o1 s2 o2,
  reachable fuel s ->
  step fuel s (OUnblock a kout r) = ROk (s1, o1) ->
  step fuel s1 (OUnblockTransferred a kout r) = ROk (s2, o2) ->
  reachable fuel s2 /\
  (forall d u, edges (dg s) d = Some (u, kout) ->
               edges (dg s2) d = None /\ wres (dg s2) d = Some r) /\
  (forall x, x <> kout -> reaches (tproj (dg s)) x kout ->
     cleared (dg s2) x /\
     forall d u, edges (dg s) d = Some (u, x) ->
                 edges (dg s2) d = None /\ wres (dg s2) d = Some r) /\
  transferred (dg s2) kout = None.
Proof. exact outer_release_wakes_nested. Qed.

Check C18_outer_release_wakes_nested :
  forall fuel s a kout r s1 o1 s2 o2,
  reachable fuel s ->
  step fuel s (OUnblock a kout r) = ROk (s1, o1) ->
  step fuel s1 (OUnblockTransferred a kout r) = ROk (s2, o2) ->
  reachable fuel s2 /\
  (forall d u, edges (dg s) d = Some (u, kout) ->
               edges (dg s2) d = None /\ wres (dg s2) d = Some r) /\
  (forall x, x <> kout -> reaches (tproj (dg s)) x kout ->
     cleared (dg s2) x /\
     forall d u, edges (dg s) d = Some (u, x) ->
                 edges (dg s2) d = None /\ wres (dg s2) d = Some r) /\
  transferred (dg s2) kout = None.
Print Assumptions C18_outer_release_wakes_nested.

(* A claimant is told to wait for thread [other] only if [other] does not (transitively) wait
   for the claimant: a cross-thread cycle is never entered as a wait, it is answered Cycle (so
   that cycle-capable queries iterate and the others panic, C14) *)
Theorem C18_claim_never_waits_into_cycle :
  forall fuel s t k allow s' other,
  reachable fuel s ->
  step fuel s (OClaim t k allow) = ROk (s', XClaim (CRunning other)) ->
  other <> t /\ ~ reaches (eproj (dg s)) other t /\ dg s' = dg s.
Proof. exact claim_never_waits_into_cycle. Qed.

Check C18_claim_never_waits_into_cycle :
  forall fuel s t k allow s' other,
  reachable fuel s ->
  step fuel s (OClaim t k allow) = ROk (s', XClaim (CRunning other)) ->
  other <> t /\ ~ reaches (eproj (dg s)) other t /\ dg s' = dg s.
Print Assumptions C18_claim_never_waits_into_cycle.

(* ... and for a query whose lock was transferred, [other] is the thread the transfer chain
   resolves to (thread_id_of_transferred_query), not the thread that once claimed it *)
Theorem C18_transferred_claim_resolves :
  forall fuel s t k allow s' other st,
  sync s k = Some st -> ss_id st = OTransferred ->
  step fuel s (OClaim t k allow) = ROk (s', XClaim (CRunning other)) ->
  thread_id_of_transferred_query fuel (dg s) k None = ROk (Some other).
Proof. exact transferred_claim_resolves. Qed.

Check C18_transferred_claim_resolves :
  forall fuel s t k allow s' other st,
  sync s k = Some st -> ss_id st = OTransferred ->
  step fuel s (OClaim t k allow) = ROk (s', XClaim (CRunning other)) ->
  thread_id_of_transferred_query fuel (dg s) k None = ROk (Some other).
Print Assumptions C18_transferred_claim_resolves.

(* the nested scenario on three handles, as recorded from the real crate: ownership of b moves
   to the thread of c, then (with c) to the thread of a; a's release wakes everybody *)
Example C18_nested_scenario :
  valid_client 20 Examples.ex_nested /\
  reachable 20 Examples.ex_nested_mid /\
  (edges (dg Examples.ex_nested_mid) 1, edges (dg Examples.ex_nested_mid) 2,
   edges (dg Examples.ex_nested_mid) 3,
   transferred (dg Examples.ex_nested_mid) 11, transferred (dg Examples.ex_nested_mid) 12) =
  (None, Some (1, 10), Some (1, 12), Some (2, 12), Some (1, 10)) /\
  match run 20 Examples.ex_nested init with
  | ROk s => (edges (dg s) 1, edges (dg s) 2, edges (dg s) 3, wres (dg s) 2, wres (dg s) 3,
              transferred (dg s) 11, transferred (dg s) 12)
  | RErr _ => (None, None, None, Some Panicked, Some Panicked, Some (0, 0), Some (0, 0))
  end = (None, None, None, None, None, None, None).
Proof.
  split; [exact Examples.ex_nested_valid |]. split; [exact Examples.ex_nested_mid_reachable |].
  split; vm_compute; reflexivity.
Qed.

(* ================================================================ (ii) values *)

(* Every value a handle can compute, store or return for node q during fixpoint iteration —
   under ANY interleaving with any number of other handles, reading fresh or stale provisional
   memos, with identity or join recovery — lies below the least fixpoint. *)
Theorem C18_seen_below :
  forall (prog : qkey -> body) (sn : snapshot) (ns : list qkey),
  monotone_prog prog sn -> fits8 prog sn ->
  forall q v, seen prog sn ns q v -> le_bits v (kleene prog sn ns q).
Proof. exact seen_below. Qed.

Check C18_seen_below :
  forall (prog : qkey -> body) (sn : snapshot) (ns : list qkey),
  monotone_prog prog sn -> fits8 prog sn ->
  forall q v, seen prog sn ns q v -> le_bits v (kleene prog sn ns q).
Print Assumptions C18_seen_below.

(* ANY multi-handle final state (the snapshot, the settled memos, the values the handles
   returned — read off the real crate after every explored schedule): if it passes the decidable
   certificate, every returned value is the single-threaded result of C12. *)
Theorem C18_values_certified :
  forall (prog : qkey -> body) (ns : list qkey) (st : mh_final),
  monotone_prog prog (mh_snap st) -> fits8 prog (mh_snap st) ->
  mh_cert_fix prog ns st && mh_below prog ns st = true ->
  forall h q v, In (h, q, v) (mh_results st) -> v = kleene prog (mh_snap st) ns q.
Proof. exact mh_certified_values_dec. Qed.

Check C18_values_certified :
  forall (prog : qkey -> body) (ns : list qkey) (st : mh_final),
  monotone_prog prog (mh_snap st) -> fits8 prog (mh_snap st) ->
  mh_cert_fix prog ns st && mh_below prog ns st = true ->
  forall h q v, In (h, q, v) (mh_results st) -> v = kleene prog (mh_snap st) ns q.
Print Assumptions C18_values_certified.

(* the same with "below" discharged by [C18_seen_below] instead of by computation *)
Theorem C18_values_certified_seen :
  forall (prog : qkey -> body) (ns : list qkey) (st : mh_final),
  monotone_prog prog (mh_snap st) -> fits8 prog (mh_snap st) ->
  mh_cert_fix prog ns st = true ->
  (forall q v, mh_sig ns st q = Some v -> seen prog (mh_snap st) ns q v) ->
  forall h q v, In (h, q, v) (mh_results st) -> v = kleene prog (mh_snap st) ns q.
Proof. exact mh_certified_values_seen. Qed.

Check C18_values_certified_seen :
  forall (prog : qkey -> body) (ns : list qkey) (st : mh_final),
  monotone_prog prog (mh_snap st) -> fits8 prog (mh_snap st) ->
  mh_cert_fix prog ns st = true ->
  (forall q v, mh_sig ns st q = Some v -> seen prog (mh_snap st) ns q v) ->
  forall h q v, In (h, q, v) (mh_results st) -> v = kleene prog (mh_snap st) ns q.
Print Assumptions C18_values_certified_seen.

(* schedule independence: two rounds over the same inputs — any two schedules, any two sets of
   handles, any two entry members — whose final states pass the certificate returned the same
   value for the same key *)
Theorem C18_schedule_independent :
  forall (prog : qkey -> body) (ns : list qkey) (st1 st2 : mh_final),
  mh_snap st1 = mh_snap st2 ->
  monotone_prog prog (mh_snap st1) -> fits8 prog (mh_snap st1) ->
  mh_cert_fix prog ns st1 && mh_below prog ns st1 = true ->
  mh_cert_fix prog ns st2 && mh_below prog ns st2 = true ->
  forall h1 h2 q v1 v2, In (h1, q, v1) (mh_results st1) -> In (h2, q, v2) (mh_results st2) -> v1 = v2.
Proof. exact mh_schedule_independent. Qed.

Check C18_schedule_independent :
  forall (prog : qkey -> body) (ns : list qkey) (st1 st2 : mh_final),
  mh_snap st1 = mh_snap st2 ->
  monotone_prog prog (mh_snap st1) -> fits8 prog (mh_snap st1) ->
  mh_cert_fix prog ns st1 && mh_below prog ns st1 = true ->
  mh_cert_fix prog ns st2 && mh_below prog ns st2 = true ->
  forall h1 h2 q v1 v2, In (h1, q, v1) (mh_results st1) -> In (h2, q, v2) (mh_results st2) -> v1 = v2.
Print Assumptions C18_schedule_independent.

(* fallback cycles (C13): `_partial` for the same reason as C13_certified_partial (the rank
   witnessing that the call graph minus its cyclic nodes is acyclic is a hypothesis) *)
Theorem C18_fallback_certified_partial :
  forall (prog : qkey -> body) (fb : qkey -> val) (ns : list qkey) (rank : qkey -> nat) (st : mh_final),
  input_determined prog (mh_snap st) ->
  let cyc := fun q => Salsa.Cycle.Spec.mem q (cyclic_nodes (succs prog (mh_snap st)) ns) in
  (forall q q', cyc q = false -> In q' (succs prog (mh_snap st) q) -> cyc q' = false -> (rank q' < rank q)%nat) ->
  (forall q, (rank q < length ns)%nat) ->
  mh_cert_fb prog fb ns st = true ->
  forall h q v, In (h, q, v) (mh_results st) -> v = spec_fallback prog (mh_snap st) fb ns q.
Proof. exact mh_certified_fb_values. Qed.

Check C18_fallback_certified_partial :
  forall (prog : qkey -> body) (fb : qkey -> val) (ns : list qkey) (rank : qkey -> nat) (st : mh_final),
  input_determined prog (mh_snap st) ->
  let cyc := fun q => Salsa.Cycle.Spec.mem q (cyclic_nodes (succs prog (mh_snap st)) ns) in
  (forall q q', cyc q = false -> In q' (succs prog (mh_snap st) q) -> cyc q' = false -> (rank q' < rank q)%nat) ->
  (forall q, (rank q < length ns)%nat) ->
  mh_cert_fb prog fb ns st = true ->
  forall h q v, In (h, q, v) (mh_results st) -> v = spec_fallback prog (mh_snap st) fb ns q.
Print Assumptions C18_fallback_certified_partial.

(* the hypotheses are inhabited: two handles on the two-node fixpoint of Cycle/Examples.v; and
   the certificate's `below` conjunct is what rejects a leaked provisional value (a non-least
   fixpoint of the new revision's equations: the C20 clause) *)
Example C18_certificate_inhabited :
  mh_cert_fix Cycle.Examples.ex12_prog Cycle.Examples.ex12_ns Examples.ex_mh &&
  mh_below Cycle.Examples.ex12_prog Cycle.Examples.ex12_ns Examples.ex_mh = true.
Proof. exact Examples.ex_mh_certified. Qed.
Example C18_certificate_rejects_stale_fixpoint :
  let st := mkMh Examples.ex_snap_low (mh_sigma Examples.ex_mh) (mh_results Examples.ex_mh) in
  mh_cert_fix Cycle.Examples.ex12_prog Cycle.Examples.ex12_ns st = true /\
  mh_below Cycle.Examples.ex12_prog Cycle.Examples.ex12_ns st = false /\
  kleene Cycle.Examples.ex12_prog Examples.ex_snap_low Cycle.Examples.ex12_ns (1, 0) = 3.
Proof. exact Examples.ex_mh_stale_rejected. Qed.

(* ================================================================ (iii) the abstract iteration *)

(* any schedule — any list of (handle, node) picks, each re-evaluating the node atomically over
   the shared provisional assignment — contains at most height(8) x nodes picks that change
   anything *)
Theorem C18_chaotic_changes_bounded :
  forall (prog : qkey -> body) (sn : snapshot) (ns : list qkey),
  monotone_prog prog sn -> fits8 prog sn ->
  forall l : list pick, picks_in ns l -> (changes prog sn l bottom <= 8 * length ns)%nat.
Proof. exact cmi_changes_bounded. Qed.

Check C18_chaotic_changes_bounded :
  forall (prog : qkey -> body) (sn : snapshot) (ns : list qkey),
  monotone_prog prog sn -> fits8 prog sn ->
  forall l : list pick, picks_in ns l -> (changes prog sn l bottom <= 8 * length ns)%nat.
Print Assumptions C18_chaotic_changes_bounded.

(* any schedule that consists of more than height x nodes sweeps (each sweep gives every node to
   some handle at least once, in any order, with any repetitions) passes through a quiescent
   assignment and ends with the least fixpoint on every node *)
Theorem C18_chaotic_terminates_lfp :
  forall (prog : qkey -> body) (sn : snapshot) (ns : list qkey),
  monotone_prog prog sn -> fits8 prog sn ->
  forall sweeps : list (list pick),
  (forall s, In s sweeps -> is_sweep ns s) -> (8 * length ns < length sweeps)%nat ->
  (exists pre s post, sweeps = pre ++ s :: post /\
     quiescent prog sn ns (cmi_run prog sn (concat pre) bottom) = true) /\
  forall q, cmi_run prog sn (concat sweeps) bottom q = kleene prog sn ns q.
Proof. exact cmi_terminates_lfp. Qed.

Check C18_chaotic_terminates_lfp :
  forall (prog : qkey -> body) (sn : snapshot) (ns : list qkey),
  monotone_prog prog sn -> fits8 prog sn ->
  forall sweeps : list (list pick),
  (forall s, In s sweeps -> is_sweep ns s) -> (8 * length ns < length sweeps)%nat ->
  (exists pre s post, sweeps = pre ++ s :: post /\
     quiescent prog sn ns (cmi_run prog sn (concat pre) bottom) = true) /\
  forall q, cmi_run prog sn (concat sweeps) bottom q = kleene prog sn ns q.
Print Assumptions C18_chaotic_terminates_lfp.

Example C18_chaotic_run :
  let l := [(0, (1, 0)); (1, (1, 1)); (1, (1, 0)); (0, (1, 1)); (0, (1, 0)); (1, (1, 1))] in
  (cmi_run Cycle.Examples.ex12_prog Examples.ex_snap l bottom (1, 0),
   cmi_run Cycle.Examples.ex12_prog Examples.ex_snap l bottom (1, 1),
   quiescent Cycle.Examples.ex12_prog Examples.ex_snap Cycle.Examples.ex12_ns
             (cmi_run Cycle.Examples.ex12_prog Examples.ex_snap l bottom),
   changes Cycle.Examples.ex12_prog Examples.ex_snap l bottom) = (7, 6, true, 3%nat).
Proof. exact Examples.ex_cmi. Qed.

(* ================================================================ the full statement *)
(* [mh_full_statement M ns] (CCycle/Model.v): for every monotone program, every snapshot and
   every assignment of requests to handles, (a) EVERY schedule of the multi-handle machine M
   terminates (the step relation is well founded on the reachable states) and (b) in every
   terminal state every settled memo and every returned value is the least fixpoint's.
   It holds for the abstract chaotic iteration: *)
Theorem C18_full_statement_abstract_machine :
  forall ns : list qkey, mh_full_statement (cmi_machine ns) ns.
Proof. exact cmi_full. Qed.

Check C18_full_statement_abstract_machine :
  forall ns : list qkey, mh_full_statement (cmi_machine ns) ns.
Print Assumptions C18_full_statement_abstract_machine.

(* NOT PROVED (kept visible): the same for a machine [salsa_mh] that transcribes the composition
   of the cycle algorithm (Cycle/Model.v: heads, provisional memos, nested iteration,
   validate_same_iteration, TryClaimCycleHeadsIter) with the protocol (Proto/Model.v) — one
   atomic step per shared access, as CFetch/Model.v does for acyclic programs.  That machine is
   not written; the statement is therefore about an arbitrary machine, with the refinement
   obligation spelled out: every value the machine stores is [seen] (so [C18_seen_below]
   applies), and every terminal state passes the certificate. *)
Definition C18_full_statement : Prop :=
  forall (salsa_mh : mh_machine) (ns : list qkey),
    (* refinement obligations on the (unwritten) faithful machine *)
    (forall prog sn reqs s, mm_reach salsa_mh prog (mm_init salsa_mh prog sn reqs) s ->
       mh_snap (mm_obs salsa_mh s) = sn /\
       forall q v, mh_sig ns (mm_obs salsa_mh s) q = Some v -> seen prog sn ns q v) ->
    (* the two unproved claims *)
    (forall prog sn reqs s, monotone_prog prog sn -> fits8 prog sn ->
       mm_reach salsa_mh prog (mm_init salsa_mh prog sn reqs) s ->
       Acc (fun s2 s1 => exists h, mm_step salsa_mh prog s1 h s2) s) /\
    (forall prog sn reqs s, monotone_prog prog sn -> fits8 prog sn ->
       mm_reach salsa_mh prog (mm_init salsa_mh prog sn reqs) s ->
       (forall h s', ~ mm_step salsa_mh prog s h s') ->
       mh_cert_fix prog ns (mm_obs salsa_mh s) = true).

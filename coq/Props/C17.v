(* Props/C17.v — C17 "A function executes at most once per key per revision across all handles".

   Model: CFetch/Model.v — the concurrent fetch / maybe_changed_after loop over shared memos and
   the Proto sync table + dependency graph, one atomic step per shared access, any number of
   handles, any interleaving, any number of revisions (a new revision only when every handle is
   idle).  Proofs: CFetch/ProofsSafe.v, CFetch/ProofsTop.v.  This file only pins the statements.

   Reading guide.
   * [creach fuel P s]: [s] is reachable from the initial state by ANY sequence of global steps
     ([GStep t c]: one atomic step of handle [t], [c] resolving its choice between verifying and
     executing; [GSpawn t ks]: handle [t] receives requests; [GBump]: a write, enabled only when
     all handles are idle).  No hypothesis on the program: also for cyclic call graphs (there a
     handle answered Cycle parks — the model has no panics, cancellation or eviction, which
     are exactly the exclusions of C17).
   * [EExec t k r] in the log = the WillExecute event of key [k] in revision [r].
   * the argument: an execution is only logged by the holder of the claim
     ([C17_exec_by_claim_holder]); claims are exclusive ([C17_claims_exclusive], from Proto's
     try_claim); the holder re-read the memo after claiming and found it not verified in this
     revision; whoever logged an execution publishes a memo verified in this revision before
     releasing; a memo verified in revision r stays so during r. *)
From Salsa Require Import Base.
From Salsa.Proto Require Import Model.
From Salsa.CFetch Require Import Model ProofsProto ProofsRel ProofsSafe ProofsLive ProofsTop Examples.

Theorem C17_once :
  forall fuel P s, creach fuel P s ->
  forall k r, (count_exec k r (c_log s) <= 1)%nat.
Proof. exact once_per_revision. Qed.

Check C17_once :
  forall fuel P s, creach fuel P s ->
  forall k r, (count_exec k r (c_log s) <= 1)%nat.
Print Assumptions C17_once.

(* two rounds in two revisions, two handles requesting the same key: key 2 is executed once in
   revision 1 (handle 2 waits and reuses) and once in revision 2, key 1 once in revision 1 and
   not at all in revision 2 (marked verified) *)
Example C17_once_witness :
  creach 10 ex_prog ex_state2 /\
  (count_exec 2 1 (c_log ex_state2), count_exec 2 2 (c_log ex_state2),
   count_exec 1 1 (c_log ex_state2), count_exec 1 2 (c_log ex_state2)) = (1, 1, 1, 0)%nat.
Proof. exact (conj ex_state2_reachable ex_counts). Qed.

Theorem C17_claims_exclusive :
  forall fuel P s t1 f1 t2 f2, creach fuel P s ->
  In f1 (stack_of s t1) -> In f2 (stack_of s t2) ->
  holding (f_phase f1) = true -> holding (f_phase f2) = true -> f_key f1 = f_key f2 -> t1 = t2.
Proof. exact claims_exclusive. Qed.

Check C17_claims_exclusive :
  forall fuel P s t1 f1 t2 f2, creach fuel P s ->
  In f1 (stack_of s t1) -> In f2 (stack_of s t2) ->
  holding (f_phase f1) = true -> holding (f_phase f2) = true -> f_key f1 = f_key f2 -> t1 = t2.
Print Assumptions C17_claims_exclusive.

(* the step that logs WillExecute is taken by the handle that holds the claim on the key, and
   if the key's memo is verified in this revision at that moment then the handle had found it
   unverified when it re-checked after claiming (it is in the middle of a verification walk
   that started before another handle's durability short-cut marked the memo) *)
Theorem C17_exec_by_claim_holder :
  forall fuel P s t c s' t1 k1 r1,
  creach fuel P s -> tstep fuel P s t c = Some s' -> c_log s' = EExec t1 k1 r1 :: c_log s ->
  t1 = t /\ r1 = c_cur s /\
  (exists st, sync (c_proto s) k1 = Some st /\ ss_id st = OThread t) /\
  (forall m, c_memo s k1 = Some m -> m_ver m = c_cur s ->
     exists l below, stack_of s t = (k1 @: PVerify l) :: below).
Proof. exact exec_by_holder. Qed.

Check C17_exec_by_claim_holder :
  forall fuel P s t c s' t1 k1 r1,
  creach fuel P s -> tstep fuel P s t c = Some s' -> c_log s' = EExec t1 k1 r1 :: c_log s ->
  t1 = t /\ r1 = c_cur s /\
  (exists st, sync (c_proto s) k1 = Some st /\ ss_id st = OThread t) /\
  (forall m, c_memo s k1 = Some m -> m_ver m = c_cur s ->
     exists l below, stack_of s t = (k1 @: PVerify l) :: below).
Print Assumptions C17_exec_by_claim_holder.

(* the blocked state of the witness run: handle 1 executes key 2 (holding its claim), handle 2
   waits for it *)
Example C17_exec_by_claim_holder_witness :
  creach 10 ex_prog ex_blocked /\
  (th_stack (c_thr ex_blocked 1), th_stack (c_thr ex_blocked 2),
   edges (dg (c_proto ex_blocked)) 2) =
  ([mkFrame 1 PStart; mkFrame 2 (PExec [])], [mkFrame 2 PWait], Some (1, 2)).
Proof. exact (conj ex_blocked_reachable ex_blocked_shape). Qed.

(* ============================================================================================ *)
(* STAGE 4: the same over CFetchD (CFetchD/Model.v): dynamic call lists (bodies as resumable
   computations), durabilities, and the durability short-cut, in which a handle that does NOT
   hold the claim stores verified_at (the switch [sc]; proved for both settings).  Proved
   directly (CFetchD/ProofsSync.v from Proto's try_claim, CFetchD/ProofsOnce.v), any program. *)
From Salsa.CFetchD Require Model ProofsRel ProofsSync ProofsVal ProofsOnce Examples.
Import Salsa.CFetchD.Model Salsa.CFetchD.ProofsSync Salsa.CFetchD.ProofsOnce Salsa.CFetchD.Examples.

Theorem C17_once_dyn :
  forall fuel Q sc s, creachD fuel Q sc s ->
  forall k r, (count_exec k r (cD_log s) <= 1)%nat.
Proof. exact once_per_revisionD. Qed.

Check C17_once_dyn :
  forall fuel Q sc s, creachD fuel Q sc s ->
  forall k r, (count_exec k r (cD_log s) <= 1)%nat.
Print Assumptions C17_once_dyn.

Theorem C17_claims_exclusive_dyn :
  forall fuel Q sc s, creachD fuel Q sc s -> exclD s.
Proof. exact claims_exclusiveD. Qed.

Check C17_claims_exclusive_dyn :
  forall fuel Q sc s, creachD fuel Q sc s -> exclD s.
Print Assumptions C17_claims_exclusive_dyn.

Theorem C17_exec_by_claim_holder_dyn :
  forall fuel Q sc s t c s' t1 k1 r1,
  creachD fuel Q sc s -> tstepD fuel Q sc s t c = Some s' ->
  cD_log s' = EExec t1 k1 r1 :: cD_log s ->
  t1 = t /\ r1 = cD_cur s /\
  (exists st, sync (cD_proto s) k1 = Some st /\ ss_id st = OThread t) /\
  (forall m, cD_memo s k1 = Some m -> o_ver m = cD_cur s ->
     exists l ok below, Salsa.CFetchD.ProofsRel.stackD s t = mkFD k1 (DVerify l ok) :: below).
Proof. exact exec_by_holderD. Qed.

Check C17_exec_by_claim_holder_dyn :
  forall fuel Q sc s t c s' t1 k1 r1,
  creachD fuel Q sc s -> tstepD fuel Q sc s t c = Some s' ->
  cD_log s' = EExec t1 k1 r1 :: cD_log s ->
  t1 = t /\ r1 = cD_cur s /\
  (exists st, sync (cD_proto s) k1 = Some st /\ ss_id st = OThread t) /\
  (forall m, cD_memo s k1 = Some m -> o_ver m = cD_cur s ->
     exists l ok below, Salsa.CFetchD.ProofsRel.stackD s t = mkFD k1 (DVerify l ok) :: below).
Print Assumptions C17_exec_by_claim_holder_dyn.

(* two handles, three revisions, short-cut on: a body that reads nothing is executed once in
   three revisions, a body whose input did not change is not re-executed, everything else once
   per revision *)
Example C17_once_dyn_witness :
  creachD 8 Qx true s2c /\
  (count_exec 4 1 (cD_log s2c), count_exec 4 2 (cD_log s2c), count_exec 4 3 (cD_log s2c),
   count_exec 1 1 (cD_log s2c), count_exec 1 2 (cD_log s2c), count_exec 3 2 (cD_log s2c),
   count_exec 3 3 (cD_log s2c)) = (1, 1, 1, 1, 0, 0, 1)%nat.
Proof. exact (conj s2c_reachable run2c_counts). Qed.

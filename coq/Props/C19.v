(* Props/C19.v — C19 "Waiting threads are always woken and waits never form a cycle".

   Model: Proto/Model.v (line-by-line transcription of DependencyGraph and SyncTable).
   Proofs: Proto/Proofs*.v.  This file only pins the statements.

   Reading guide.
   * [valid_client fuel trace]: every operation of [trace] satisfies the client precondition
     [pre] in the state it is issued in and the (debug-build) Rust code would not have hit an
     assertion / unwrap / the model's fuel bound there ([step] returns [ROk]).
     [pre] is: a thread that blocks holds no unreceived wait result, and [transfer_pre] for a
     transfer (caller running, query <> new owner, and — only in the Vacant branch of
     transfer_lock, which has no re-rooting — the new owner's transfer chain does not lead back
     to the query).
   * [Inv s] = [einv (dg s) /\ tinv (dg s)]:
       I1  E_grounded : the blocked-on graph is grounded (= acyclic)
       I2  E_deps, E_nodup, E_wres : blocked threads <-> query_dependents entries (bijection),
           wait_results disjoint from edges
       I3  T_grounded, T_inverse, T_nodup : transferred is a forest and transferred_dependents
           its inverse — through every branch of transfer_lock, re-rooting included.
   * I4 = [C19_woken_exactly_once], I5 = [C19_release_wakes_all] (direct dependents) and
     [C19_release_target_wakes_all] (recursively, transfer targets), I6 = [C19_no_wait_cycle]. *)
From Salsa Require Import Base.
From Salsa.Proto Require Import Model ProofsGraph ProofsList ProofsInv ProofsTransfer ProofsWake
  ProofsSubtree ProofsStep ProofsExamples.

(* ---- I1, I2, I3 in every reachable state, any number of threads and keys ---- *)
Theorem C19_protocol :
  forall fuel trace, valid_client fuel trace ->
  exists s, run fuel trace init = ROk s /\ Inv s.
Proof. exact protocol_Inv. Qed.

Check C19_protocol :
  forall fuel trace, valid_client fuel trace ->
  exists s, run fuel trace init = ROk s /\ Inv s.
Print Assumptions C19_protocol.

(* the hypotheses are satisfiable on non-trivial traces: a reported cross-thread cycle, a
   transfer with hand-over wake-up and self-block, a reclaim, a panicking release; and a
   transfer through the re-rooting loop *)
Example C19_protocol_witness_cycle : valid_client 20 ex_cycle.
Proof. exact ex_cycle_valid. Qed.
Example C19_protocol_witness_reroot : valid_client 20 ex_reroot.
Proof. exact ex_reroot_valid. Qed.

(* the invariant step: every operation of the alphabet preserves Inv *)
Theorem C19_step_preserves_Inv :
  forall fuel s o s' out, Inv s -> pre s o -> step fuel s o = ROk (s', out) -> Inv s'.
Proof. exact step_Inv. Qed.

Check C19_step_preserves_Inv :
  forall fuel s o s' out, Inv s -> pre s o -> step fuel s o = ROk (s', out) -> Inv s'.
Print Assumptions C19_step_preserves_Inv.

(* ---- I1 (acyclic) and I6 (never all blocked) ---- *)
Theorem C19_no_wait_cycle :
  forall fuel s, reachable fuel s ->
  (forall t u k, edges (dg s) t = Some (u, k) -> ~ reaches (eproj (dg s)) u t) /\
  (forall t, exists r, reaches (eproj (dg s)) t r /\ edges (dg s) r = None) /\
  (forall live : thread -> Prop,
     (forall t u k, live t -> edges (dg s) t = Some (u, k) -> live u) ->
     forall t, live t -> exists r, live r /\ edges (dg s) r = None).
Proof. exact no_wait_cycle. Qed.

Check C19_no_wait_cycle :
  forall fuel s, reachable fuel s ->
  (forall t u k, edges (dg s) t = Some (u, k) -> ~ reaches (eproj (dg s)) u t) /\
  (forall t, exists r, reaches (eproj (dg s)) t r /\ edges (dg s) r = None) /\
  (forall live : thread -> Prop,
     (forall t u k, live t -> edges (dg s) t = Some (u, k) -> live u) ->
     forall t, live t -> exists r, live r /\ edges (dg s) r = None).
Print Assumptions C19_no_wait_cycle.

Example C19_no_wait_cycle_witness : reachable 20 ex_blocked_state.
Proof. exact ex_blocked_reachable. Qed.

(* ---- I1, second half: a wait that would close a cycle is not entered but reported ---- *)
Theorem C19_cycle_reported :
  forall fuel s, reachable fuel s ->
  (forall t k other s' out,
     step fuel s (OBlockOn t k other) = ROk (s', out) ->
     (out = XBlock BCycle <-> reaches (eproj (dg s)) other t) /\
     (out = XBlock BCycle -> s' = s) /\
     (out = XBlock BBlocked ->
        edges (dg s) t = None /\ edges (dg s') t = Some (other, k) /\
        In t (qdeps (dg s') k))) /\
  (forall o t k allow s' r,
     o = OClaim t k allow \/ o = OPeek t k allow ->
     step fuel s o = ROk (s', XClaim r) ->
     dg s' = dg s /\
     match r with
     | CRunning other => other <> t /\ ~ reaches (eproj (dg s)) other t
     | CCycle _ => exists owner, reaches (eproj (dg s)) owner t
     | CClaimed _ => True
     end).
Proof. exact cycle_reported. Qed.

Check C19_cycle_reported :
  forall fuel s, reachable fuel s ->
  (forall t k other s' out,
     step fuel s (OBlockOn t k other) = ROk (s', out) ->
     (out = XBlock BCycle <-> reaches (eproj (dg s)) other t) /\
     (out = XBlock BCycle -> s' = s) /\
     (out = XBlock BBlocked ->
        edges (dg s) t = None /\ edges (dg s') t = Some (other, k) /\
        In t (qdeps (dg s') k))) /\
  (forall o t k allow s' r,
     o = OClaim t k allow \/ o = OPeek t k allow ->
     step fuel s o = ROk (s', XClaim r) ->
     dg s' = dg s /\
     match r with
     | CRunning other => other <> t /\ ~ reaches (eproj (dg s)) other t
     | CCycle _ => exists owner, reaches (eproj (dg s)) owner t
     | CClaimed _ => True
     end).
Print Assumptions C19_cycle_reported.

(* in [ex_blocked_state] thread 1 waits for thread 2; thread 2 asking to wait for thread 1
   gets Cycle *)
Example C19_cycle_reported_witness :
  reachable 20 ex_blocked_state /\
  option_map snd (match step 20 ex_blocked_state (OBlockOn 2 10 1) with
                  | ROk r => Some r | RErr _ => None end) = Some (XBlock BCycle).
Proof. split; [exact ex_blocked_reachable | exact ex_blocked_cycle_outcome]. Qed.

(* ---- I4: every thread removed from [edges] gets exactly one wait result, stored before the
   notify, equal to the release outcome or Completed on hand-over; nothing else happens to
   threads ---- *)
Theorem C19_woken_exactly_once :
  forall fuel s o s' out,
  reachable fuel s -> pre s o -> step fuel s o = ROk (s', out) ->
  exists W, NoDup W /\
    notified (dg s') = List.rev (map (fun t => (t, woken_by o)) W) ++ notified (dg s) /\
    forall t, tstep o out (dg s) (dg s') W t.
Proof. exact woken_exactly_once. Qed.

Check C19_woken_exactly_once :
  forall fuel s o s' out,
  reachable fuel s -> pre s o -> step fuel s o = ROk (s', out) ->
  exists W, NoDup W /\
    notified (dg s') = List.rev (map (fun t => (t, woken_by o)) W) ++ notified (dg s) /\
    forall t, tstep o out (dg s) (dg s') W t.
Print Assumptions C19_woken_exactly_once.

Example C19_woken_exactly_once_witness :
  reachable 20 ex_before_transfer /\
  pre ex_before_transfer (OTransfer 2 20 10 (OThread 1)) /\
  match step 20 ex_before_transfer (OTransfer 2 20 10 (OThread 1)) with
  | ROk (s', out) => (out, edges (dg s') 1, wres (dg s') 1, edges (dg s') 2, notified (dg s'))
  | RErr _ => (XUnit, None, None, None, [])
  end = (XTransfer true, None, Some Completed, Some (1, 10), [(1, Completed)]).
Proof.
  split; [exact ex_before_transfer_reachable|].
  split; [exact ex_before_transfer_pre | exact ex_transfer_step].
Qed.

(* ---- I5 (direct dependents): releasing a key wakes all its dependents and nobody else ---- *)
Theorem C19_release_wakes_all :
  forall fuel s t k r s' out,
  reachable fuel s -> step fuel s (OUnblock t k r) = ROk (s', out) ->
  qdeps (dg s') k = [] /\
  (forall d, (exists u, edges (dg s) d = Some (u, k)) ->
             edges (dg s') d = None /\ wres (dg s') d = Some r) /\
  (forall d, (forall u, edges (dg s) d <> Some (u, k)) ->
             wait_key (dg s') d = wait_key (dg s) d /\ wres (dg s') d = wres (dg s) d).
Proof. exact release_wakes_all. Qed.

Check C19_release_wakes_all :
  forall fuel s t k r s' out,
  reachable fuel s -> step fuel s (OUnblock t k r) = ROk (s', out) ->
  qdeps (dg s') k = [] /\
  (forall d, (exists u, edges (dg s) d = Some (u, k)) ->
             edges (dg s') d = None /\ wres (dg s') d = Some r) /\
  (forall d, (forall u, edges (dg s) d <> Some (u, k)) ->
             wait_key (dg s') d = wait_key (dg s) d /\ wres (dg s') d = wres (dg s) d).
Print Assumptions C19_release_wakes_all.

Example C19_release_wakes_all_witness :
  reachable 20 ex_before_unblock /\
  match step 20 ex_before_unblock (OUnblock 1 10 Panicked) with
  | ROk (s', _) => (edges (dg s') 2, wres (dg s') 2, qdeps (dg s') 10)
  | RErr _ => (None, None, [])
  end = (None, Some Panicked, []).
Proof. split; [exact ex_before_unblock_reachable | exact ex_unblock_step]. Qed.

(* ---- I5 (transfer target): releasing a key that owns transferred keys releases all of them,
   recursively, and wakes everybody who waited for one of them with the release result ---- *)
Theorem C19_release_target_wakes_all :
  forall fuel s t k r s' out,
  reachable fuel s -> step fuel s (OUnblockTransferred t k r) = ROk (s', out) ->
  transferred (dg s') k = None /\ tdeps (dg s') k = None /\
  (forall x, x <> k -> reaches (tproj (dg s)) x k ->
     cleared (dg s') x /\
     forall d u, edges (dg s) d = Some (u, x) ->
                 edges (dg s') d = None /\ wres (dg s') d = Some r).
Proof. exact release_target_wakes_all. Qed.

Check C19_release_target_wakes_all :
  forall fuel s t k r s' out,
  reachable fuel s -> step fuel s (OUnblockTransferred t k r) = ROk (s', out) ->
  transferred (dg s') k = None /\ tdeps (dg s') k = None /\
  (forall x, x <> k -> reaches (tproj (dg s)) x k ->
     cleared (dg s') x /\
     forall d u, edges (dg s) d = Some (u, x) ->
                 edges (dg s') d = None /\ wres (dg s') d = Some r).
Print Assumptions C19_release_target_wakes_all.

(* [ex_cycle]: query 20 was transferred to 10; the state before
   [OUnblockTransferred 1 10 Panicked] is reachable and the step releases 20 as well *)
Example C19_release_target_wakes_all_witness :
  reachable 20 ex_before_unblock_transferred /\
  match step 20 ex_before_unblock_transferred (OUnblockTransferred 1 10 Panicked) with
  | ROk (s', _) => (transferred (dg ex_before_unblock_transferred) 20,
                    transferred (dg s') 20, tdeps (dg s') 10)
  | RErr _ => (None, None, None)
  end = (Some (1, 10), None, None).
Proof.
  split; [exact ex_before_unblock_transferred_reachable | exact ex_unblock_transferred_step].
Qed.

(* ---- the two hypotheses hidden in [valid_client] that are NOT documented preconditions of
   the Rust API, and why they are there ---- *)

(* (a) [transfer_pre], Vacant branch: transfer_lock re-roots only in its Occupied branch.  A
   client that follows the documented discipline but transfers a query without an entry to a
   key whose transfer chain leads back to it breaks I3 (a cycle d -> c -> a -> d). *)
Theorem C19_vacant_branch_needs_transfer_pre :
  validb 20 init (firstn 8 ex_vacant_cycle) = true /\
  exists s, run 20 ex_vacant_cycle init = ROk s /\ ~ tinv (dg s).
Proof. exact (conj ex_vacant_cycle_prefix_valid ex_vacant_cycle_breaks_I3). Qed.

Check C19_vacant_branch_needs_transfer_pre :
  validb 20 init (firstn 8 ex_vacant_cycle) = true /\
  exists s, run 20 ex_vacant_cycle init = ROk s /\ ~ tinv (dg s).
Print Assumptions C19_vacant_branch_needs_transfer_pre.

(* (b) "[step] returns [ROk]" includes the debug_assert of update_transferred_edges
   (dependency_graph.rs:422-425, error [EEdgeCycle]).  In a client model that may choose whom a
   thread blocks on, that assertion is a real obligation: *)
Theorem C19_edge_assert_is_an_obligation :
  match run 20 ex_edge_assert init with ROk _ => None | RErr e => Some e end = Some EEdgeCycle.
Proof. exact ex_edge_assert_fires. Qed.

Check C19_edge_assert_is_an_obligation :
  match run 20 ex_edge_assert init with ROk _ => None | RErr e => Some e end = Some EEdgeCycle.
Print Assumptions C19_edge_assert_is_an_obligation.

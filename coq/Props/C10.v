(* Props/C10.v — specified results.  Statements only.
   Level: model-level lemmas about the transcribed specify_and_record / fetch / deep_verify_memo /
   validate_specified_value (for every program, identity hash, state), and a machine-checked
   REFUTATION of the full statement ("results equal a fresh evaluation, specify included") on
   the transcribed algorithm; the witness and three further deviation classes are replayed on
   the implementation by checks/C10.py (checks/notes/C10.txt, known-findings). *)
From Salsa Require Import Base.
From Salsa.Structs Require Import Model Spec Dsl ProofsSpecify Examples.

(* a specified value verified in this revision is returned without running the body: the fetch
   emits no event at all (no WillExecute) *)
Theorem C10_specified_returned_without_exec :
  forall prog skind sfams idhash L (q : qk) s sl m v,
  skind (fst q) = true -> d_slots s (fst (snd q)) = Some sl -> sl_updated sl <> None ->
  sl_memos sl (fst q) = Some m -> m_verified m = cur s -> m_val m = Some v ->
  fetch prog skind sfams idhash L q s =
    (locked_db s (fst (snd q)) sl, SOk (v, m_dur m, m_changed m)) /\
  d_log (locked_db s (fst (snd q)) sl) = d_log s.
Proof. exact fetch_specified_no_exec. Qed.
Check C10_specified_returned_without_exec :
  forall prog skind sfams idhash L (q : qk) s sl m v,
  skind (fst q) = true -> d_slots s (fst (snd q)) = Some sl -> sl_updated sl <> None ->
  sl_memos sl (fst q) = Some m -> m_verified m = cur s -> m_val m = Some v ->
  fetch prog skind sfams idhash L q s =
    (locked_db s (fst (snd q)) sl, SOk (v, m_dur m, m_changed m)) /\
  d_log (locked_db s (fst (snd q)) sl) = d_log s.
Print Assumptions C10_specified_returned_without_exec.

(* the value specified by the creator's latest execution replaces whatever memo an earlier
   revision left for the key (Assigned or Derived) *)
Theorem C10_latest_specification_wins :
  forall skind sfams n (q : qk) fam h v fr s sl s' fr',
  is_active (fr_ids fr) h = true -> skind fam = true ->
  existsb (qk_eqb (fam, h)) (d_stack s) = false ->
  d_slots s (fst h) = Some sl -> sl_updated sl <> None ->
  (forall old, sl_memos sl fam = Some old -> m_verified old <> cur s) ->
  specify skind sfams n q fam h v fr s = (s', SOk fr') ->
  In (EOut (fam, h)) (fr_edges fr') /\
  exists sl' m', d_slots s' (fst h) = Some sl' /\ sl_memos sl' fam = Some m' /\
                 m_val m' = Some v /\ m_origin m' = OAssigned q /\ m_verified m' = cur s /\
                 m_structs m' = [].
Proof. exact specify_overwrites. Qed.
Check C10_latest_specification_wins :
  forall skind sfams n (q : qk) fam h v fr s sl s' fr',
  is_active (fr_ids fr) h = true -> skind fam = true ->
  existsb (qk_eqb (fam, h)) (d_stack s) = false ->
  d_slots s (fst h) = Some sl -> sl_updated sl <> None ->
  (forall old, sl_memos sl fam = Some old -> m_verified old <> cur s) ->
  specify skind sfams n q fam h v fr s = (s', SOk fr') ->
  In (EOut (fam, h)) (fr_edges fr') /\
  exists sl' m', d_slots s' (fst h) = Some sl' /\ sl_memos sl' fam = Some m' /\
                 m_val m' = Some v /\ m_origin m' = OAssigned q /\ m_verified m' = cur s /\
                 m_structs m' = [].
Print Assumptions C10_latest_specification_wins.

(* a value computed for the key earlier in this revision is kept: specify changes neither the
   memo nor the frame (and does not panic) *)
Theorem C10_computed_value_kept :
  forall skind sfams n q fam h v fr s sl old,
  is_active (fr_ids fr) h = true -> skind fam = true ->
  existsb (qk_eqb (fam, h)) (d_stack s) = false ->
  d_slots s (fst h) = Some sl -> sl_updated sl <> None ->
  sl_memos sl fam = Some old ->
  m_verified old = cur s -> m_val old <> None -> (forall by_, m_origin old <> OAssigned by_) ->
  specify skind sfams n q fam h v fr s = (locked_db s (fst h) sl, SOk fr).
Proof. exact specify_computed_kept. Qed.
Check C10_computed_value_kept :
  forall skind sfams n q fam h v fr s sl old,
  is_active (fr_ids fr) h = true -> skind fam = true ->
  existsb (qk_eqb (fam, h)) (d_stack s) = false ->
  d_slots s (fst h) = Some sl -> sl_updated sl <> None ->
  sl_memos sl fam = Some old ->
  m_verified old = cur s -> m_val old <> None -> (forall by_, m_origin old <> OAssigned by_) ->
  specify skind sfams n q fam h v fr s = (locked_db s (fst h) sl, SOk fr).
Print Assumptions C10_computed_value_kept.

(* specifying a struct that the current execution did not create panics, nothing changes *)
Theorem C10_foreign_panics :
  forall skind sfams n q fam h v fr s,
  is_active (fr_ids fr) h = false ->
  specify skind sfams n q fam h v fr s = (s, SPanic PSpecForeign).
Proof. exact specify_foreign_panics. Qed.
Check C10_foreign_panics :
  forall skind sfams n q fam h v fr s,
  is_active (fr_ids fr) h = false ->
  specify skind sfams n q fam h v fr s = (s, SPanic PSpecForeign).
Print Assumptions C10_foreign_panics.

(* specifying the same key twice in one execution panics *)
Theorem C10_twice_panics :
  forall skind sfams n q fam h v fr s sl old,
  is_active (fr_ids fr) h = true -> skind fam = true ->
  existsb (qk_eqb (fam, h)) (d_stack s) = false ->
  d_slots s (fst h) = Some sl -> sl_updated sl <> None ->
  sl_memos sl fam = Some old ->
  m_verified old = cur s -> m_val old <> None -> m_origin old = OAssigned q ->
  existsb (edge_eqb (EOut (fam, h))) (fr_edges fr) = true ->
  exists s', specify skind sfams n q fam h v fr s = (s', SPanic PSpecTwice).
Proof. exact specify_twice_panics. Qed.
Check C10_twice_panics :
  forall skind sfams n q fam h v fr s sl old,
  is_active (fr_ids fr) h = true -> skind fam = true ->
  existsb (qk_eqb (fam, h)) (d_stack s) = false ->
  d_slots s (fst h) = Some sl -> sl_updated sl <> None ->
  sl_memos sl fam = Some old ->
  m_verified old = cur s -> m_val old <> None -> m_origin old = OAssigned q ->
  existsb (edge_eqb (EOut (fam, h))) (fr_edges fr) = true ->
  exists s', specify skind sfams n q fam h v fr s = (s', SPanic PSpecTwice).
Print Assumptions C10_twice_panics.

(* an Assigned memo that was not re-specified (nor validated through its creator) in this
   revision never verifies: the function body is run (execute starts with WillExecute) *)
Theorem C10_unspecified_recomputes :
  forall skind L q m by_ s,
  m_origin m = OAssigned by_ -> deep_verify skind L q m s = (s, SOk (false, m)).
Proof. exact deep_verify_assigned. Qed.
Check C10_unspecified_recomputes :
  forall skind L q m by_ s,
  m_origin m = OAssigned by_ -> deep_verify skind L q m s = (s, SOk (false, m)).
Print Assumptions C10_unspecified_recomputes.

(* a validated creator marks its specified outputs verified in the current revision *)
Theorem C10_validated_creator_marks :
  forall skind (q o : qk) s sl m,
  skind (fst o) = true -> d_slots s (fst (snd o)) = Some sl -> sl_updated sl <> None ->
  sl_memos sl (fst o) = Some m -> m_origin m = OAssigned q ->
  exists s', validate_specified skind q o s = (s', SOk tt) /\
    exists sl', d_slots s' (fst (snd o)) = Some sl' /\
      exists m', sl_memos sl' (fst o) = Some m' /\ m_verified m' = cur s /\ m_val m' = m_val m /\
                 m_origin m' = m_origin m /\ In (EvValidate o) (d_log s').
Proof. exact validate_specified_marks. Qed.
Check C10_validated_creator_marks :
  forall skind (q o : qk) s sl m,
  skind (fst o) = true -> d_slots s (fst (snd o)) = Some sl -> sl_updated sl <> None ->
  sl_memos sl (fst o) = Some m -> m_origin m = OAssigned q ->
  exists s', validate_specified skind q o s = (s', SOk tt) /\
    exists sl', d_slots s' (fst (snd o)) = Some sl' /\
      exists m', sl_memos sl' (fst o) = Some m' /\ m_verified m' = cur s /\ m_val m' = m_val m /\
                 m_origin m' = m_origin m /\ In (EvValidate o) (d_log s').
Print Assumptions C10_validated_creator_marks.

(* The full statement — every Get of every program/history returns what a fresh database
   computes, specify included (path independence) — kept visible; it is FALSE of the transcribed
   algorithm (and of the implementation: checks/C10.py replays the witness). *)
Definition C10_specify_full_statement : Prop := from_scratch_with_specify.

Theorem C10_specify_refuted : ~ C10_specify_full_statement.
Proof. exact from_scratch_with_specify_refuted. Qed.
Check C10_specify_refuted : ~ C10_specify_full_statement.
Print Assumptions C10_specify_refuted.

(* the three value-level deviation classes, on the executable model *)
Theorem C10_K1_specify_overwrites_value_computed_earlier :
  let '(s, outs) := run_case k1_nodes k1_ival k1_idur k1_ops k1_nk k1_idhash in
  nth_error outs 2 = Some (SOk (8, [])) /\
  spec_after k1_nodes k1_nk s (4, (1, 0)) = SOk (7, []).
Proof. exact k1_model_vs_from_scratch. Qed.
Print Assumptions C10_K1_specify_overwrites_value_computed_earlier.

Theorem C10_K2_backdate_assertion_when_unspecified :
  let '(s, outs) := run_case k2_nodes k2_ival k2_idur k2_ops k2_nk k2_idhash in
  nth_error outs 3 = Some (SPanic PBackdate) /\
  spec_after k2_nodes k2_nk s (4, (0, 0)) = SOk (7, []).
Proof. exact k2_model_vs_from_scratch. Qed.
Print Assumptions C10_K2_backdate_assertion_when_unspecified.

Theorem C10_K3_reader_validated_after_unspecify :
  let '(s, outs) := run_case k3_nodes k3_ival k3_idur k3_ops k3_nk k3_idhash in
  nth_error outs 3 = Some (SOk (7, [(0, 0)])) /\
  (exists nm, spec_after k3_nodes k3_nk s (1, (2, 0)) = SOk (4, nm)).
Proof. exact k3_model_vs_from_scratch. Qed.
Print Assumptions C10_K3_reader_validated_after_unspecify.

(* Props/C09.v — Interned values are reclaimed only when stale and reclaimable.
   Same quantification as Props/C08.v: all operation sequences, all shard functions, all
   REVISIONS settings.  Proofs: Intern/ProofsRet.v, Intern/Theorems.v; witnesses:
   Intern/Examples.v. *)
From Salsa Require Import Base.
From Salsa.Intern Require Import RetK Model ProofsInv ProofsTrace ProofsRet Theorems Examples.

Theorem C09_only_if :
  forall (shard_of : val -> N) (c : cfg) (ops : list op) (s : st) (tr : list entry)
         t v sp fr s' idx g evs,
    cfg_ok c -> run shard_of c ops = (s, tr) ->
    step shard_of c s (OIntern t v sp fr) = (s', RIntern idx g PReuse, evs) ->
    exists sl n o,
      st_slots s idx = Some sl /\ g = s_gen sl + 1 /\ s_val sl <> v /\
      s_dur sl = D_LOW /\ c_revisions c = Some n /\
      rq_is_primed (st_queue s') = true /\
      rq_last (st_queue s') = Some o /\ s_lia sl < o /\
      Forall (fun d => d = D_LOW) (dur_hist tr idx (s_gen sl)) /\
      nth_error (acts (mkEntry (st_cur s) (OIntern t v sp fr) (RIntern idx g PReuse) evs :: tr))
                (N.to_nat n - 1) = Some o /\
      Forall (fun r => r < o) (touches tr idx (s_gen sl)).
Proof. exact only_if. Qed.
Check C09_only_if :
  forall (shard_of : val -> N) (c : cfg) (ops : list op) (s : st) (tr : list entry)
         t v sp fr s' idx g evs,
    cfg_ok c -> run shard_of c ops = (s, tr) ->
    step shard_of c s (OIntern t v sp fr) = (s', RIntern idx g PReuse, evs) ->
    exists sl n o,
      st_slots s idx = Some sl /\ g = s_gen sl + 1 /\ s_val sl <> v /\
      s_dur sl = D_LOW /\ c_revisions c = Some n /\
      rq_is_primed (st_queue s') = true /\
      rq_last (st_queue s') = Some o /\ s_lia sl < o /\
      Forall (fun d => d = D_LOW) (dur_hist tr idx (s_gen sl)) /\
      nth_error (acts (mkEntry (st_cur s) (OIntern t v sp fr) (RIntern idx g PReuse) evs :: tr))
                (N.to_nat n - 1) = Some o /\
      Forall (fun r => r < o) (touches tr idx (s_gen sl)).
Print Assumptions C09_only_if.

Theorem C09_primed :
  forall (shard_of : val -> N) (c : cfg) (ops : list op) (s : st) (tr : list entry)
         t v sp fr s' idx g evs,
    cfg_ok c -> run shard_of c ops = (s, tr) ->
    step shard_of c s (OIntern t v sp fr) = (s', RIntern idx g PReuse, evs) ->
    exists n, c_revisions c = Some n /\
      (N.to_nat n <=
       length (acts (mkEntry (st_cur s) (OIntern t v sp fr) (RIntern idx g PReuse) evs :: tr)))%nat.
Proof. exact primed. Qed.
Check C09_primed :
  forall (shard_of : val -> N) (c : cfg) (ops : list op) (s : st) (tr : list entry)
         t v sp fr s' idx g evs,
    cfg_ok c -> run shard_of c ops = (s, tr) ->
    step shard_of c s (OIntern t v sp fr) = (s', RIntern idx g PReuse, evs) ->
    exists n, c_revisions c = Some n /\
      (N.to_nat n <=
       length (acts (mkEntry (st_cur s) (OIntern t v sp fr) (RIntern idx g PReuse) evs :: tr)))%nat.
Print Assumptions C09_primed.

Theorem C09_forever :
  forall (shard_of : val -> N) (c : cfg) (ops : list op) (s : st) (tr : list entry),
    cfg_ok c -> run shard_of c ops = (s, tr) ->
    forall v idx sl,
      key_find v (st_keys s (shard_of v)) = Some idx -> st_slots s idx = Some sl ->
      (c_revisions c = None \/ s_dur sl <> D_LOW) ->
      forall ops' s' tr', run shard_of c (ops ++ ops') = (s', tr') ->
        (exists sl', st_slots s' idx = Some sl' /\ s_gen sl' = s_gen sl /\ s_val sl' = v /\
                     key_find v (st_keys s' (shard_of v)) = Some idx) /\
        exists seg, tr' = seg ++ tr /\
          forall e t sp fr, In e seg -> e_op e = OIntern t v sp fr ->
                            e_out e = RIntern idx (s_gen sl) PFast.
Proof. exact forever. Qed.
Check C09_forever :
  forall (shard_of : val -> N) (c : cfg) (ops : list op) (s : st) (tr : list entry),
    cfg_ok c -> run shard_of c ops = (s, tr) ->
    forall v idx sl,
      key_find v (st_keys s (shard_of v)) = Some idx -> st_slots s idx = Some sl ->
      (c_revisions c = None \/ s_dur sl <> D_LOW) ->
      forall ops' s' tr', run shard_of c (ops ++ ops') = (s', tr') ->
        (exists sl', st_slots s' idx = Some sl' /\ s_gen sl' = s_gen sl /\ s_val sl' = v /\
                     key_find v (st_keys s' (shard_of v)) = Some idx) /\
        exists seg, tr' = seg ++ tr /\
          forall e t sp fr, In e seg -> e_op e = OIntern t v sp fr ->
                            e_out e = RIntern idx (s_gen sl) PFast.
Print Assumptions C09_forever.

(* The declarative retention rule (`collectable`, a function of the history only) is
   exactly the mechanism (`is_reusable` and `RevisionQueue::is_stale` on the slot). *)
Theorem C09_retention_rule :
  forall (shard_of : val -> N) (c : cfg) (ops : list op) (s : st) (tr : list entry),
    cfg_ok c -> run shard_of c ops = (s, tr) -> wf_ids tr ->
    forall idx sl, st_slots s idx = Some sl ->
      (reusable (immortal c) (s_dur sl) && rq_is_stale (st_queue s) (s_lia sl) = true
       <-> collectable c tr idx (s_gen sl)).
Proof. exact retention_rule. Qed.
Check C09_retention_rule :
  forall (shard_of : val -> N) (c : cfg) (ops : list op) (s : st) (tr : list entry),
    cfg_ok c -> run shard_of c ops = (s, tr) -> wf_ids tr ->
    forall idx sl, st_slots s idx = Some sl ->
      (reusable (immortal c) (s_dur sl) && rq_is_stale (st_queue s) (s_lia sl) = true
       <-> exists n o,
             c_revisions c = Some n /\
             Forall (fun d => d = D_LOW) (dur_hist tr idx (s_gen sl)) /\
             nth_error (acts tr) (N.to_nat n - 1) = Some o /\
             Forall (fun r => r < o) (touches tr idx (s_gen sl))).
Print Assumptions C09_retention_rule.

(* The revision queue is the list of the REVISIONS most recent revisions in which the
   type was used (interned or revalidated), padded with Revision::start(). *)
Theorem C09_queue_decl :
  forall (shard_of : val -> N) (c : cfg) (ops : list op) (s : st) (tr : list entry),
    cfg_ok c -> run shard_of c ops = (s, tr) ->
    (forall n, c_revisions c = Some n ->
       st_queue s = firstn (N.to_nat n) (acts tr ++ repeat REV_START (N.to_nat n))) /\
    (forall r, In r (acts tr) <->
       exists e, In e tr /\ is_activity e = true /\ e_rev e = r) /\
    (forall r l, acts tr = r :: l -> forall x, In x l -> x < r).
Proof. exact queue_decl. Qed.
Check C09_queue_decl :
  forall (shard_of : val -> N) (c : cfg) (ops : list op) (s : st) (tr : list entry),
    cfg_ok c -> run shard_of c ops = (s, tr) ->
    (forall n, c_revisions c = Some n ->
       st_queue s = firstn (N.to_nat n) (acts tr ++ repeat REV_START (N.to_nat n))) /\
    (forall r, In r (acts tr) <->
       exists e, In e tr /\ is_activity e = true /\ e_rev e = r) /\
    (forall r l, acts tr = r :: l -> forall x, In x l -> x < r).
Print Assumptions C09_queue_decl.

Theorem C09_durability_decl :
  forall (shard_of : val -> N) (c : cfg) (ops : list op) (s : st) (tr : list entry),
    cfg_ok c -> run shard_of c ops = (s, tr) ->
    forall idx sl, st_slots s idx = Some sl ->
      s_dur sl = list_max (dur_hist tr idx (s_gen sl)).
Proof. exact durability_decl. Qed.
Check C09_durability_decl :
  forall (shard_of : val -> N) (c : cfg) (ops : list op) (s : st) (tr : list entry),
    cfg_ok c -> run shard_of c ops = (s, tr) ->
    forall idx sl, st_slots s idx = Some sl ->
      s_dur sl = list_max (dur_hist tr idx (s_gen sl)).
Print Assumptions C09_durability_decl.

(* The bracketed reading "interning outside any query pins the value" is false on the
   fast path of the faithful model (it holds when the interning creates the slot). *)
Theorem C09_outside_fast_path_does_not_pin_refuted :
  outs sh0 c1 ops_outside_fast =
  [RIntern 100 0 PCold; RIntern 100 0 PFast; RNewRev; RIntern 100 1 PReuse].
Proof. exact outside_fast_path_does_not_pin. Qed.
Check C09_outside_fast_path_does_not_pin_refuted :
  outs sh0 c1 ops_outside_fast =
  [RIntern 100 0 PCold; RIntern 100 0 PFast; RNewRev; RIntern 100 1 PReuse].
Print Assumptions C09_outside_fast_path_does_not_pin_refuted.

(* The retention predicates the theorems above are stated over are equal to the kernels
   translated from /repo/src/interned.rs on this run. *)
From Salsa.gen Require Import Kernels.
From Salsa.Intern Require Import RetKGen.
Theorem C09_kernels_match_source : forall revisions d q r,
  reusable (revisions =? k_IMMORTAL) d = k_reusable revisions d /\
  rq_is_primed q = k_rq_is_primed q /\
  rq_is_stale q r = k_rq_is_stale q r /\
  (q <> [] -> k_len q < 18446744073709551616 -> rq_record q r = k_rq_record q r).
Proof.
  intros. split; [apply reusable_is_translated|]. split; [apply rq_is_primed_is_translated|].
  split; [apply rq_is_stale_is_translated | apply rq_record_is_translated].
Qed.
Check C09_kernels_match_source : forall revisions d q r,
  reusable (revisions =? k_IMMORTAL) d = k_reusable revisions d /\
  rq_is_primed q = k_rq_is_primed q /\
  rq_is_stale q r = k_rq_is_stale q r /\
  (q <> [] -> k_len q < 18446744073709551616 -> rq_record q r = k_rq_record q r).
Print Assumptions C09_kernels_match_source.

(* Props/C07.v — reclaimed identities never alias memoized state or field data: the
   tracked-struct part (the interned part is Props/C09.v + Intern/).  Statements only.
   Slot-store accessors ignore the id generation (as Table::get / memo_table_for do); the IDEAL
   store [d_ideal] is keyed by the full id (index, generation).  All theorems are about the
   Structs layer (coq/Structs/Machine.v), every history, every identity hash. *)
From Salsa Require Import Base.
From Salsa.Structs Require Import Model Machine ProofsStep Theorems Examples.

(* C07_invariant: in every reachable state of the machine the ownership invariant holds: free-list
   entries are dead slots with their generation, dead slots have empty memo tables, every id
   somebody holds is the current id of a live slot, no slot is held by two holders, every id ever
   issued for a slot has generation <= the slot's current one, and every live slot's contents are
   the ideal store's entry for (index, current generation). *)
Theorem C07_invariant :
  forall (skind : N -> bool) (sfams : list N) (idhash : val -> N) (n : nat),
  (forall fam, In fam sfams -> skind fam = true) ->
  forall iv idur es s F,
  mrun skind sfams idhash n (init iv idur, []) es = Some (s, F) -> OInv skind s F.
Proof. intros skind sfams idhash n H. exact (reachable_oinv skind sfams idhash n H). Qed.
Check C07_invariant :
  forall (skind : N -> bool) (sfams : list N) (idhash : val -> N) (n : nat),
  (forall fam, In fam sfams -> skind fam = true) ->
  forall iv idur es s F,
  mrun skind sfams idhash n (init iv idur, []) es = Some (s, F) -> OInv skind s F.
Print Assumptions C07_invariant.

(* C07_no_alias: every read performed through an id that somebody currently holds (a running
   execution's identity map or a stored memo's tracked_struct_ids) agrees with the ideal store,
   although the slot store ignores the generation: tracked field, identity field, memo table. *)
Theorem C07_no_alias :
  forall (skind : N -> bool) s F o h,
  OInv skind s F -> owns skind s F o h ->
  (forall f fr s' v fr', read_field h f fr s = (s', SOk (v, fr')) ->
     exists idv f0 f1, ideal_get (d_ideal s) h = Some (idv, f0, f1) /\ v = (if f =? 0 then f0 else f1)) /\
  (forall s' v, read_idfield h s = (s', SOk v) ->
     exists f0 f1, ideal_get (d_ideal s) h = Some (v, f0, f1)) /\
  (forall fam, skind fam = true ->
     exists sl, d_slots s (fst h) = Some sl /\ sl_gen sl = snd h /\
                peek_memo skind s (fam, fst h) = sl_memos sl fam).
Proof.
  intros skind s F o h I Ho. split; [|split].
  - intros f fr s' v fr' H. exact (read_agrees_ideal skind s F o h f fr s' v fr' I Ho H).
  - intros s' v H. exact (idfield_agrees_ideal skind s F o h s' v I Ho H).
  - intros fam Hk. exact (memo_lookup_current skind s F o h fam I Ho Hk).
Qed.
Check C07_no_alias :
  forall (skind : N -> bool) s F o h,
  OInv skind s F -> owns skind s F o h ->
  (forall f fr s' v fr', read_field h f fr s = (s', SOk (v, fr')) ->
     exists idv f0 f1, ideal_get (d_ideal s) h = Some (idv, f0, f1) /\ v = (if f =? 0 then f0 else f1)) /\
  (forall s' v, read_idfield h s = (s', SOk v) ->
     exists f0 f1, ideal_get (d_ideal s) h = Some (v, f0, f1)) /\
  (forall fam, skind fam = true ->
     exists sl, d_slots s (fst h) = Some sl /\ sl_gen sl = snd h /\
                peek_memo skind s (fam, fst h) = sl_memos sl fam).
Print Assumptions C07_no_alias.

(* C07_fresh_ids: an id returned by TS::new is either one the execution's identity map already
   held (recreation in place: same slot generation; the slot was read-locked in this revision or
   holds the same identity value), or an id that was NEVER issued before — slot reuse and the
   identity-changed path always produce a new (index, generation) — and then the slot's memo
   table is empty (no memo of the previous occupant), its fields are the new ones and its field
   revisions are the creator's current changed_at stamp. *)
Theorem C07_fresh_ids :
  forall (skind : N -> bool) (sfams : list N) (idhash : val -> N) (n : nat),
  forall s F q fr idv f0 f1 s' h fr',
  OInv skind s F -> In (q, fr) F ->
  new_struct skind sfams idhash n q idv f0 f1 fr s = (s', SOk (h, fr')) ->
  (In h (frame_ids fr) /\ live s h /\
   exists sl sl', d_slots s (fst h) = Some sl /\ d_slots s' (fst h) = Some sl' /\ sl_gen sl' = sl_gen sl /\
                  (sl_updated sl = Some (cur s) \/ sl_idv sl = idv)) \/
  (~ In h (issued s) /\
   exists sl', d_slots s' (fst h) = Some sl' /\ sl_gen sl' = snd h /\ (forall fam, sl_memos sl' fam = None) /\
               slot_fields sl' = (idv, f0, f1) /\ sl_updated sl' = Some (cur s) /\
               sl_rev1 sl' = fr_changed fr).
Proof. exact fresh_or_held. Qed.
Check C07_fresh_ids :
  forall (skind : N -> bool) (sfams : list N) (idhash : val -> N) (n : nat),
  forall s F q fr idv f0 f1 s' h fr',
  OInv skind s F -> In (q, fr) F ->
  new_struct skind sfams idhash n q idv f0 f1 fr s = (s', SOk (h, fr')) ->
  (In h (frame_ids fr) /\ live s h /\
   exists sl sl', d_slots s (fst h) = Some sl /\ d_slots s' (fst h) = Some sl' /\ sl_gen sl' = sl_gen sl /\
                  (sl_updated sl = Some (cur s) \/ sl_idv sl = idv)) \/
  (~ In h (issued s) /\
   exists sl', d_slots s' (fst h) = Some sl' /\ sl_gen sl' = snd h /\ (forall fam, sl_memos sl' fam = None) /\
               slot_fields sl' = (idv, f0, f1) /\ sl_updated sl' = Some (cur s) /\
               sl_rev1 sl' = fr_changed fr).
Print Assumptions C07_fresh_ids.

(* C07_field_check: what a dependency check on a tracked field answers: it ignores the id's
   generation and compares the slot's CURRENT field revision with the dependent's verified_at. *)
Theorem C07_field_check :
  forall h f since s s' b,
  field_mca h f since s = (s', SOk b) ->
  s' = s /\ exists sl, d_slots s (fst h) = Some sl /\
    (b = true <-> since < (if f =? 0 then sl_rev0 sl else sl_rev1 sl)).
Proof. exact field_mca_spec. Qed.
Check C07_field_check :
  forall h f since s s' b,
  field_mca h f since s = (s', SOk b) ->
  s' = s /\ exists sl, d_slots s (fst h) = Some sl /\
    (b = true <-> since < (if f =? 0 then sl_rev0 sl else sl_rev1 sl)).
Print Assumptions C07_field_check.

(* The full statement about dependents, kept visible; NOT proved (checks/notes/C07.txt):
   "every dependency check on an id whose slot has been reused answers changed".  By
   C07_field_check + C07_fresh_ids the field check on a reused slot answers changed exactly when
   the new creator's changed_at stamp is later than the dependent's verified_at; that a
   dependent holding a stale id always meets an earlier changed edge (its creator's) first is
   the stage-2 `no_leak` lemma over whole programs (DESIGN section 7, C01 stage 2). *)
Definition C07_dependents_full_statement : Prop :=
  forall (skind : N -> bool) (sfams : list N) (idhash : val -> N) (n : nat) iv idur es s F,
  mrun skind sfams idhash n (init iv idur, []) es = Some (s, F) ->
  forall h f since sl,
    d_slots s (fst h) = Some sl -> snd h < sl_gen sl ->        (* the slot was reused since h was issued *)
    In h (issued s) ->
    fst (field_mca h f since s) = s /\ snd (field_mca h f since s) = SOk true.

(* Non-vacuity: the history of Examples.hist1 issues eight ids, among them (1,1) after (1,0)
   (identity change under a hash collision) and (2,1) after (2,0) (slot reuse). *)
Example C07_nonvacuous :
  match mrun skind5 sfams5 hmod2 10%nat (init (fun _ => 0) (fun _ => 0), []) hist1 with
  | Some (s, F) =>
      F = [] /\ d_free s = [] /\ d_nslots s = 4 /\
      option_map mids (peek_memo skind5 s (1, 0)) = Some [(0, 0); (1, 1)] /\
      option_map mids (peek_memo skind5 s (1, 1)) = Some [(3, 0); (2, 1)] /\
      map fst (d_ideal s) = [(2, 1); (3, 0); (1, 1); (0, 0); (3, 0); (2, 0); (1, 0); (0, 0)]
  | None => False
  end.
Proof. exact hist1_runs. Qed.

(* Props/C07.v — reclaimed identities never alias memoized state or field data: the
   tracked-struct part (the interned part is Props/C09.v + Intern/).  Statements only.
   Slot-store accessors ignore the id generation (as Table::get / memo_table_for do); the IDEAL
   store [d_ideal] is keyed by the full id (index, generation).  All theorems are about the
   Structs layer (coq/Structs/Machine.v), every history, every identity hash. *)
From Salsa Require Import Base.
From Salsa.Structs Require Import Model Dsl Machine ProofsStep Theorems Examples Guard SimBase Sim SimExamples
     ProofsBase SSem SInv SRun SStale STop STop2 SAdeq SDsl S1Examples S1b SKeyedEx.

(* C07_invariant: in every reachable state of the machine the ownership invariant holds: free-list
   entries are dead slots with their generation, dead slots have empty memo tables, every id
   somebody holds is the current id of a live slot, no slot is held by two holders, every id ever
   issued for a slot has generation <= the slot's current one, and every live slot's contents are
   the ideal store's entry for (index, current generation). *)
Theorem C07_invariant :
  forall (skind : N -> bool) (sfams : list N) (idhash : val -> N) (n : nat),
  (forall fam, In fam sfams -> skind fam = true) ->
  forall iv idur es s F,
  mrun skind sfams idhash n (init iv idur, []) es = Some (s, F) -> OInv skind s F.
Proof. intros skind sfams idhash n H. exact (reachable_oinv skind sfams idhash n H). Qed.
Check C07_invariant :
  forall (skind : N -> bool) (sfams : list N) (idhash : val -> N) (n : nat),
  (forall fam, In fam sfams -> skind fam = true) ->
  forall iv idur es s F,
  mrun skind sfams idhash n (init iv idur, []) es = Some (s, F) -> OInv skind s F.
Print Assumptions C07_invariant.

(* C07_no_alias: every read performed through an id that somebody currently holds (a running
   execution's identity map or a stored memo's tracked_struct_ids) agrees with the ideal store,
   although the slot store ignores the generation: tracked field, identity field, memo table. *)
Theorem C07_no_alias :
  forall (skind : N -> bool) s F o h,
  OInv skind s F -> owns skind s F o h ->
  (forall f fr s' v fr', read_field h f fr s = (s', SOk (v, fr')) ->
     exists idv f0 f1, ideal_get (d_ideal s) h = Some (idv, f0, f1) /\ v = (if f =? 0 then f0 else f1)) /\
  (forall s' v, read_idfield h s = (s', SOk v) ->
     exists f0 f1, ideal_get (d_ideal s) h = Some (v, f0, f1)) /\
  (forall fam, skind fam = true ->
     exists sl, d_slots s (fst h) = Some sl /\ sl_gen sl = snd h /\
                peek_memo skind s (fam, fst h) = sl_memos sl fam).
Proof.
  intros skind s F o h I Ho. split; [|split].
  - intros f fr s' v fr' H. exact (read_agrees_ideal skind s F o h f fr s' v fr' I Ho H).
  - intros s' v H. exact (idfield_agrees_ideal skind s F o h s' v I Ho H).
  - intros fam Hk. exact (memo_lookup_current skind s F o h fam I Ho Hk).
Qed.
Check C07_no_alias :
  forall (skind : N -> bool) s F o h,
  OInv skind s F -> owns skind s F o h ->
  (forall f fr s' v fr', read_field h f fr s = (s', SOk (v, fr')) ->
     exists idv f0 f1, ideal_get (d_ideal s) h = Some (idv, f0, f1) /\ v = (if f =? 0 then f0 else f1)) /\
  (forall s' v, read_idfield h s = (s', SOk v) ->
     exists f0 f1, ideal_get (d_ideal s) h = Some (v, f0, f1)) /\
  (forall fam, skind fam = true ->
     exists sl, d_slots s (fst h) = Some sl /\ sl_gen sl = snd h /\
                peek_memo skind s (fam, fst h) = sl_memos sl fam).
Print Assumptions C07_no_alias.

(* C07_fresh_ids: an id returned by TS::new is either one the execution's identity map already
   held (recreation in place: same slot generation; the slot was read-locked in this revision or
   holds the same identity value), or an id that was NEVER issued before — slot reuse and the
   identity-changed path always produce a new (index, generation) — and then the slot's memo
   table is empty (no memo of the previous occupant), its fields are the new ones and its field
   revisions are the creator's current changed_at stamp. *)
Theorem C07_fresh_ids :
  forall (skind : N -> bool) (sfams : list N) (idhash : val -> N) (n : nat),
  forall s F q fr idv f0 f1 s' h fr',
  OInv skind s F -> In (q, fr) F ->
  new_struct skind sfams idhash n q idv f0 f1 fr s = (s', SOk (h, fr')) ->
  (In h (frame_ids fr) /\ live s h /\
   exists sl sl', d_slots s (fst h) = Some sl /\ d_slots s' (fst h) = Some sl' /\ sl_gen sl' = sl_gen sl /\
                  (sl_updated sl = Some (cur s) \/ sl_idv sl = idv)) \/
  (~ In h (issued s) /\
   exists sl', d_slots s' (fst h) = Some sl' /\ sl_gen sl' = snd h /\ (forall fam, sl_memos sl' fam = None) /\
               slot_fields sl' = (idv, f0, f1) /\ sl_updated sl' = Some (cur s) /\
               sl_rev1 sl' = fr_changed fr).
Proof. exact fresh_or_held. Qed.
Check C07_fresh_ids :
  forall (skind : N -> bool) (sfams : list N) (idhash : val -> N) (n : nat),
  forall s F q fr idv f0 f1 s' h fr',
  OInv skind s F -> In (q, fr) F ->
  new_struct skind sfams idhash n q idv f0 f1 fr s = (s', SOk (h, fr')) ->
  (In h (frame_ids fr) /\ live s h /\
   exists sl sl', d_slots s (fst h) = Some sl /\ d_slots s' (fst h) = Some sl' /\ sl_gen sl' = sl_gen sl /\
                  (sl_updated sl = Some (cur s) \/ sl_idv sl = idv)) \/
  (~ In h (issued s) /\
   exists sl', d_slots s' (fst h) = Some sl' /\ sl_gen sl' = snd h /\ (forall fam, sl_memos sl' fam = None) /\
               slot_fields sl' = (idv, f0, f1) /\ sl_updated sl' = Some (cur s) /\
               sl_rev1 sl' = fr_changed fr).
Print Assumptions C07_fresh_ids.

(* C07_field_check: what a dependency check on a tracked field answers: it ignores the id's
   generation and compares the slot's CURRENT field revision with the dependent's verified_at. *)
Theorem C07_field_check :
  forall h f since s s' b,
  field_mca h f since s = (s', SOk b) ->
  s' = s /\ exists sl, d_slots s (fst h) = Some sl /\
    (b = true <-> since < (if f =? 0 then sl_rev0 sl else sl_rev1 sl)).
Proof. exact field_mca_spec. Qed.
Check C07_field_check :
  forall h f since s s' b,
  field_mca h f since s = (s', SOk b) ->
  s' = s /\ exists sl, d_slots s (fst h) = Some sl /\
    (b = true <-> since < (if f =? 0 then sl_rev0 sl else sl_rev1 sl)).
Print Assumptions C07_field_check.

(* The statement about dependents AS FIRST STATED ("every dependency check on an id whose slot has
   been reused answers changed"), kept visible.  It is FALSE (C07_dependents_first_statement_refuted
   below): the field check ignores the generation and compares the field's revision stamp with
   the caller's `since`; a slot re-used by a creator whose reads are old carries an old stamp.
   What protects a dependent is that an EARLIER edge of its memo answers changed:
   C07_dependents_full_statement (corrected, below) and C07_stale_edge_partial. *)
Definition C07_dependents_full_statement_as_first_stated : Prop :=
  forall (skind : N -> bool) (sfams : list N) (idhash : val -> N) (n : nat) iv idur es s F,
  mrun skind sfams idhash n (init iv idur, []) es = Some (s, F) ->
  forall h f since sl,
    d_slots s (fst h) = Some sl -> snd h < sl_gen sl ->        (* the slot was reused since h was issued *)
    In h (issued s) ->
    fst (field_mca h f since s) = s /\ snd (field_mca h f since s) = SOk true.

(* Non-vacuity: the history of Examples.hist1 issues eight ids, among them (1,1) after (1,0)
   (identity change under a hash collision) and (2,1) after (2,0) (slot reuse). *)
Example C07_nonvacuous :
  match mrun skind5 sfams5 hmod2 10%nat (init (fun _ => 0) (fun _ => 0), []) hist1 with
  | Some (s, F) =>
      F = [] /\ d_free s = [] /\ d_nslots s = 4 /\
      option_map mids (peek_memo skind5 s (1, 0)) = Some [(0, 0); (1, 1)] /\
      option_map mids (peek_memo skind5 s (1, 1)) = Some [(3, 0); (2, 1)] /\
      map fst (d_ideal s) = [(2, 1); (3, 0); (1, 1); (0, 0); (3, 0); (2, 0); (1, 0); (0, 0)]
  | None => False
  end.
Proof. exact hist1_runs. Qed.

(* C07_model_invariant: the ownership invariant holds after EVERY operation of the EXECUTABLE
   model (run_ops), for every well-formed program, identity hash and handle-safe non-unwinding
   history (see Props/C06.v C06_model_invariant for the hypotheses); the real run equals the
   monitored run and no query is left claimed. *)
Theorem C07_model_invariant :
  forall (prog : qk -> body) (skind : N -> bool) (sfams : list N) (idhash : val -> N),
  (forall fam, In fam sfams -> skind fam = true) ->
  (forall q, bwf skind (prog q)) ->
  forall fuel iv idur os,
  handle_safe prog skind sfams idhash fuel (init iv idur) os = true ->
  forall os1 os2, os = os1 ++ os2 ->
  run_ops prog skind sfams idhash fuel (init iv idur) os1 = grun_ops prog skind sfams idhash fuel (init iv idur) os1 /\
  OInv skind (fst (run_ops prog skind sfams idhash fuel (init iv idur) os1)) [] /\
  d_stack (fst (run_ops prog skind sfams idhash fuel (init iv idur) os1)) = [].
Proof. exact model_invariant_every_op. Qed.
Check C07_model_invariant :
  forall (prog : qk -> body) (skind : N -> bool) (sfams : list N) (idhash : val -> N),
  (forall fam, In fam sfams -> skind fam = true) ->
  (forall q, bwf skind (prog q)) ->
  forall fuel iv idur os,
  handle_safe prog skind sfams idhash fuel (init iv idur) os = true ->
  forall os1 os2, os = os1 ++ os2 ->
  run_ops prog skind sfams idhash fuel (init iv idur) os1 = grun_ops prog skind sfams idhash fuel (init iv idur) os1 /\
  OInv skind (fst (run_ops prog skind sfams idhash fuel (init iv idur) os1)) [] /\
  d_stack (fst (run_ops prog skind sfams idhash fuel (init iv idur) os1)) = [].
Print Assumptions C07_model_invariant.

(* C07_model_interior: inside an operation.  In a state satisfying the invariant with frames F
   for the executions in progress (Cons: every frame's query is claimed, claimed keys are current
   ids and read-locked), running the body of q at any monitored level — new structs, specify,
   nested fetches, deletions by nested completions — leads to a state satisfying the invariant
   with q's frame replaced by the frame the body returns.  With C07_no_alias / C06_discard
   (stated over OInv) this gives the no-alias and discard statements for the interior states of
   the executable model. *)
Theorem C07_model_interior :
  forall (prog : qk -> body) (skind : N -> bool) (sfams : list N) (idhash : val -> N),
  (forall fam, In fam sfams -> skind fam = true) ->
  (forall q, bwf skind (prog q)) ->
  forall n q fr s F s' r,
  OInv skind s F -> Cons skind s F -> In (q, fr) F ->
  run_body skind sfams idhash (glevel prog skind sfams idhash n) q (prog q) fr s = (s', SOk r) ->
  OInv skind s' (set_frame F q (snd r)).
Proof. exact glevel_run_body. Qed.
Check C07_model_interior :
  forall (prog : qk -> body) (skind : N -> bool) (sfams : list N) (idhash : val -> N),
  (forall fam, In fam sfams -> skind fam = true) ->
  (forall q, bwf skind (prog q)) ->
  forall n q fr s F s' r,
  OInv skind s F -> Cons skind s F -> In (q, fr) F ->
  run_body skind sfams idhash (glevel prog skind sfams idhash n) q (prog q) fr s = (s', SOk r) ->
  OInv skind s' (set_frame F q (snd r)).
Print Assumptions C07_model_interior.

(* C07_model_no_alias: after every operation of the executable model, a read through any id
   listed by a stored memo agrees with the ideal store (keyed by the full id). *)
Theorem C07_model_no_alias :
  forall (prog : qk -> body) (skind : N -> bool) (sfams : list N) (idhash : val -> N),
  (forall fam, In fam sfams -> skind fam = true) ->
  (forall q, bwf skind (prog q)) ->
  forall fuel iv idur os,
  handle_safe prog skind sfams idhash fuel (init iv idur) os = true ->
  forall os1 os2, os = os1 ++ os2 ->
  forall o h, owns skind (fst (run_ops prog skind sfams idhash fuel (init iv idur) os1)) [] o h ->
  (forall f fr s' v fr', read_field h f fr (fst (run_ops prog skind sfams idhash fuel (init iv idur) os1)) = (s', SOk (v, fr')) ->
     exists idv f0 f1, ideal_get (d_ideal (fst (run_ops prog skind sfams idhash fuel (init iv idur) os1))) h = Some (idv, f0, f1) /\
                       v = (if f =? 0 then f0 else f1)) /\
  (forall s' v, read_idfield h (fst (run_ops prog skind sfams idhash fuel (init iv idur) os1)) = (s', SOk v) ->
     exists f0 f1, ideal_get (d_ideal (fst (run_ops prog skind sfams idhash fuel (init iv idur) os1))) h = Some (v, f0, f1)).
Proof. exact model_no_alias_every_op. Qed.
Print Assumptions C07_model_no_alias.

Example C07_model_nonvacuous :
  OInv skind5 (fst (run_case rc_nodes rc_ival rc_idur rc_ops rc_nk rc_idhash)) [] /\
  d_stack (fst (run_case rc_nodes rc_ival rc_idur rc_ops rc_nk rc_idhash)) = [].
Proof. exact rc_invariant. Qed.


(* C07_dependents_partial (stage S1): what the dependents of a reused slot compute.  The full
   statement above speaks about ONE dependency check on a stale id; its purpose is that no
   dependent ever answers from a struct that is not the one its id was issued for.  That purpose
   is proved for the EXECUTABLE model on the stage-S1 histories (Props/C06.v
   C06_from_scratch_partial for the hypotheses and the vocabulary): after every prefix os1 of the
   history, the next Get q answers SOk v where v is the from-scratch value of q in EVERY world
   consistent for q with the inputs, cells and allocator of the state after the Get — in such a
   world a handle denotes the struct its creator made, whatever the slot held before — and every
   handle in v is the current id of a live slot (no stale id leaves the engine).  Inside the
   proof (Structs/SVerify.v walk_ok, Structs/SBody.v lock_for_read): deep verification meets an
   edge whose answer changed before any field edge on a handle that is no longer live, and a
   re-execution reads fields only through live handles.
   Slot reuse with generation bump, deletion and re-creation are inside the stage; struct-keyed
   functions, durabilities above LOW, `specify` are not. *)
Theorem C07_dependents_partial :
  forall (prog : qk -> body) (skind : N -> bool) (idhash : val -> N) (rank : qk -> nat) (NF : nat),
  calls_below prog rank -> (forall q, (rank q < NF)%nat) ->
  no_forge idhash prog -> (forall q, nospec (prog q)) -> (forall f, skind f = false) ->
  (forall q d, calls (prog q) d -> gk d) -> (forall q d, calls (prog q) d -> first_read (prog d)) ->
  forall fuel iv os,
  Forall (s1_op prog) os -> 1 + 2 * N.of_nat (length os) < GMAX ->
  Forall2 okout os (snd (run_ops prog skind [] idhash fuel (init iv (fun _ => 0)) os)) ->
  forall os1 q os2, os = os1 ++ OGet q :: os2 ->
  let s1 := fst (run_ops prog skind [] idhash fuel (init iv (fun _ => 0)) os1) in
  let s' := fst (step prog skind [] idhash fuel s1 (OGet q)) in
  exists v, snd (step prog skind [] idhash fuel s1 (OGet q)) = SOk v /\
            (forall w, same_inputs (wcur s') w -> wcons prog idhash NF w q -> v = Ew idhash prog NF w q) /\
            wcons prog idhash NF (wcur s') q /\
            (forall h, In h (snd v) -> live s' h).
Proof. exact dependents_S1. Qed.
Check C07_dependents_partial :
  forall (prog : qk -> body) (skind : N -> bool) (idhash : val -> N) (rank : qk -> nat) (NF : nat),
  calls_below prog rank -> (forall q, (rank q < NF)%nat) ->
  no_forge idhash prog -> (forall q, nospec (prog q)) -> (forall f, skind f = false) ->
  (forall q d, calls (prog q) d -> gk d) -> (forall q d, calls (prog q) d -> first_read (prog d)) ->
  forall fuel iv os,
  Forall (s1_op prog) os -> 1 + 2 * N.of_nat (length os) < GMAX ->
  Forall2 okout os (snd (run_ops prog skind [] idhash fuel (init iv (fun _ => 0)) os)) ->
  forall os1 q os2, os = os1 ++ OGet q :: os2 ->
  let s1 := fst (run_ops prog skind [] idhash fuel (init iv (fun _ => 0)) os1) in
  let s' := fst (step prog skind [] idhash fuel s1 (OGet q)) in
  exists v, snd (step prog skind [] idhash fuel s1 (OGet q)) = SOk v /\
            (forall w, same_inputs (wcur s') w -> wcons prog idhash NF w q -> v = Ew idhash prog NF w q) /\
            wcons prog idhash NF (wcur s') q /\
            (forall h, In h (snd v) -> live s' h).
Print Assumptions C07_dependents_partial.

(* Non-vacuity: in the history of S1Examples the dependent rd holds a field edge on (0,0); the
   struct is deleted (rd = 99), slot 0 is reused for (0,1) and rd re-executes to 5 = the fields of
   the new struct; the last Get of rd is the 8th operation. *)
Example C07_dependents_nonvacuous :
  r1_ops = firstn 7 r1_ops ++ OGet (4, (0, 0)) :: skipn 8 r1_ops /\
  nth_error (snd (run_ops (prog_of r1_nk skind0 r1_nodes) skind0 [] r1_idhash 40%nat
                          (init (lookup3 r1_ival) (fun _ => 0)) r1_ops)) 7 = Some (SOk (5, [])) /\
  nth_error (snd (run_ops (prog_of r1_nk skind0 r1_nodes) skind0 [] r1_idhash 40%nat
                          (init (lookup3 r1_ival) (fun _ => 0)) r1_ops)) 8 = Some (SOk (0, [(0, 1)])) /\
  nth_error (snd (run_ops (prog_of r1_nk skind0 r1_nodes) skind0 [] r1_idhash 40%nat
                          (init (lookup3 r1_ival) (fun _ => 0)) r1_ops)) 0 = Some (SOk (3, [])).
Proof. vm_compute. repeat split. Qed.

(* The statement as first stated is false: in the reachable state of Examples.hist1 slot 2 has
   been reused ((2,1) after (2,0)), (2,0) was issued, and the field check on (2,0) since
   revision 1 answers unchanged. *)
Theorem C07_dependents_first_statement_refuted : ~ C07_dependents_full_statement_as_first_stated.
Proof. exact dependents_first_statement_refuted. Qed.
Check C07_dependents_first_statement_refuted : ~ C07_dependents_full_statement_as_first_stated.
Print Assumptions C07_dependents_first_statement_refuted.

(* The full statement about dependents, corrected; NOT proved in this generality (struct-keyed
   families, any durabilities; see Props/C06.v for the clause list (K), (D)).  After any prefix
   of a handle-safe history of the executable model: take a stored memo m of a query q whose key
   is current, claim q and walk m's recorded edges as deep verification does.  If the walk
   answers at all and m has a tracked-field edge, or a call edge on a struct key, whose id is
   not the current id of a live slot (deleted, or reused with a later generation), the answer is
   "changed": m is not validated, no result belonging to the old struct is served. *)
Definition C07_dependents_full_statement : Prop :=
  forall (prog : qk -> body) (skind : N -> bool) (sfams : list N) (idhash : val -> N) (rank : qk -> nat) (NF : nat),
  calls_below prog rank -> (forall q, (rank q < NF)%nat) ->
  (forall fam, In fam sfams -> skind fam = true) ->
  (forall e q, prov idhash e (prog q) [] (if skind (fst q) then [snd q] else [])) ->
  (forall q, nospec (prog q)) ->
  forall fuel iv idur os,
  handle_safe prog skind sfams idhash fuel (init iv idur) os = true ->
  1 + 2 * N.of_nat (length os) < GMAX ->
  forall os1 os2, os = os1 ++ os2 ->
  let s := fst (run_ops prog skind sfams idhash fuel (init iv idur) os1) in
  forall q m n s' b,
  peek_memo skind s (loc_of q) = Some m -> (if skind (fst q) then live s (snd q) else gk q) ->
  m_verified m < cur s ->
  walk_edges skind (level prog skind sfams idhash n) q (m_edges m) (m_verified m) (set_stack s [q]) = (s', SOk b) ->
  (forall h f, In (EFld h f) (m_edges m) -> ~ live s' h -> b = true) /\
  (forall fam h, In (EQ (fam, h)) (m_edges m) -> skind fam = true -> ~ live s' h -> b = true).

(* C07_stale_edge_partial: the corrected statement, PROVED for the stage-S1b programs and
   histories (no struct-keyed family, no specify, LOW durabilities; Props/C06.v
   C06_from_scratch_writes_partial for the hypotheses).  Inside the proof (Structs/SVerify.v
   walk_ok, Structs/SStale.v): when the walk reaches a field edge after a prefix of unchanged
   edges, the handle was created by the memo's own query (then the memo lists it and it is live)
   or was returned by a callee whose edge is in the prefix (then the callee's memo is verified in
   this revision with an unchanged value, which lists the handle through a memo verified now). *)
Theorem C07_stale_edge_partial :
  forall (prog : qk -> body) (skind : N -> bool) (idhash : val -> N) (rank : qk -> nat) (NF : nat),
  calls_below prog rank -> (forall q, (rank q < NF)%nat) ->
  no_forge idhash prog -> (forall q, nospec (prog q)) -> (forall f, skind f = false) ->
  (forall q d, calls (prog q) d -> gk d) -> (forall q d, calls (prog q) d -> first_read (prog d)) ->
  forall fuel iv os,
  s1b_ops prog true os -> 1 + 2 * N.of_nat (length os) < GMAX ->
  Forall2 okout os (snd (run_ops prog skind [] idhash fuel (init iv (fun _ => 0)) os)) ->
  forall os1 os2, os = os1 ++ os2 ->
  let s := fst (run_ops prog skind [] idhash fuel (init iv (fun _ => 0)) os1) in
  forall q m n s' b,
  gk q -> d_memo s (loc_of q) = Some m -> m_verified m < cur s ->
  walk_edges skind (level prog skind [] idhash n) q (m_edges m) (m_verified m) (set_stack s [q]) = (s', SOk b) ->
  forall h f, In (EFld h f) (m_edges m) -> ~ live s' h -> b = true.
Proof. exact stale_edges_S1b. Qed.
Check C07_stale_edge_partial :
  forall (prog : qk -> body) (skind : N -> bool) (idhash : val -> N) (rank : qk -> nat) (NF : nat),
  calls_below prog rank -> (forall q, (rank q < NF)%nat) ->
  no_forge idhash prog -> (forall q, nospec (prog q)) -> (forall f, skind f = false) ->
  (forall q d, calls (prog q) d -> gk d) -> (forall q d, calls (prog q) d -> first_read (prog d)) ->
  forall fuel iv os,
  s1b_ops prog true os -> 1 + 2 * N.of_nat (length os) < GMAX ->
  Forall2 okout os (snd (run_ops prog skind [] idhash fuel (init iv (fun _ => 0)) os)) ->
  forall os1 os2, os = os1 ++ os2 ->
  let s := fst (run_ops prog skind [] idhash fuel (init iv (fun _ => 0)) os1) in
  forall q m n s' b,
  gk q -> d_memo s (loc_of q) = Some m -> m_verified m < cur s ->
  walk_edges skind (level prog skind [] idhash n) q (m_edges m) (m_verified m) (set_stack s [q]) = (s', SOk b) ->
  forall h f, In (EFld h f) (m_edges m) -> ~ live s' h -> b = true.
Print Assumptions C07_stale_edge_partial.

(* Non-vacuity, and what the refutation looks like with a genuine `since`: rd is verified in
   revision 2 with field edges on (0,0); in revision 3 mk deletes (0,0) and a second creator,
   executing for the first time with an input changed in revision 2, reuses slot 0 as (0,1) with
   field stamps 2.  The check of rd's field edge on (0,0) since 2 answers UNCHANGED; the walk over
   rd's edges answers changed (at the edge on mk); the next Get re-executes rd and returns 99.
   The hypotheses of C07_stale_edge_partial hold for this history. *)
Example C07_stale_edge_nonvacuous :
  (calls_below (prog_of r1_nk skind0 r3_nodes) (fun q => r3_frank (fst q)) /\ (forall q : qk, (r3_frank (fst q) < 2)%nat) /\
   no_forge r1_idhash (prog_of r1_nk skind0 r3_nodes) /\ (forall q, nospec (prog_of r1_nk skind0 r3_nodes q)) /\
   (forall f, skind0 f = false) /\
   (forall q d, calls (prog_of r1_nk skind0 r3_nodes q) d -> gk d) /\
   (forall q d, calls (prog_of r1_nk skind0 r3_nodes q) d -> first_read (prog_of r1_nk skind0 r3_nodes d)) /\
   s1b_ops (prog_of r1_nk skind0 r3_nodes) true r3_ops /\ 1 + 2 * N.of_nat (length r3_ops) < GMAX /\
   Forall2 okout r3_ops (snd (run_ops (prog_of r1_nk skind0 r3_nodes) skind0 [] r1_idhash 40%nat
                                      (init (lookup3 r1_ival) (fun _ => 0)) r3_ops))) /\
  (option_map m_verified (d_memo (fst (run_ops (prog_of r1_nk skind0 r3_nodes) skind0 [] r1_idhash 40%nat (init (lookup3 r1_ival) (fun _ => 0)) r3_ops)) (4, 0)) = Some 2 /\
   option_map m_edges (d_memo (fst (run_ops (prog_of r1_nk skind0 r3_nodes) skind0 [] r1_idhash 40%nat (init (lookup3 r1_ival) (fun _ => 0)) r3_ops)) (4, 0))
     = Some [EQ (1, (0, 0)); EFld (0, 0) 0; EFld (0, 0) 1] /\
   option_map sl_gen (d_slots (fst (run_ops (prog_of r1_nk skind0 r3_nodes) skind0 [] r1_idhash 40%nat (init (lookup3 r1_ival) (fun _ => 0)) r3_ops)) 0) = Some 1 /\
   snd (field_mca (0, 0) 0 2 (fst (run_ops (prog_of r1_nk skind0 r3_nodes) skind0 [] r1_idhash 40%nat (init (lookup3 r1_ival) (fun _ => 0)) r3_ops))) = SOk false /\
   snd (step (prog_of r1_nk skind0 r3_nodes) skind0 [] r1_idhash 40%nat
          (fst (run_ops (prog_of r1_nk skind0 r3_nodes) skind0 [] r1_idhash 40%nat (init (lookup3 r1_ival) (fun _ => 0)) r3_ops))
          (OGet (4, (0, 0)))) = SOk (99, []) /\
   hd_error (d_log (fst (step (prog_of r1_nk skind0 r3_nodes) skind0 [] r1_idhash 40%nat
          (fst (run_ops (prog_of r1_nk skind0 r3_nodes) skind0 [] r1_idhash 40%nat (init (lookup3 r1_ival) (fun _ => 0)) r3_ops))
          (OGet (4, (0, 0)))))) = Some (EvExec (4, (0, 0)))).
Proof. exact (conj r3_hyps r3_stale_check_answers_unchanged). Qed.

(* C07_dependents_writes_partial: C07_dependents_partial for the history class s1b_ops (synthetic
   writes of any durability, cell writes while nothing is verified in the revision). *)
Theorem C07_dependents_writes_partial :
  forall (prog : qk -> body) (skind : N -> bool) (idhash : val -> N) (rank : qk -> nat) (NF : nat),
  calls_below prog rank -> (forall q, (rank q < NF)%nat) ->
  no_forge idhash prog -> (forall q, nospec (prog q)) -> (forall f, skind f = false) ->
  (forall q d, calls (prog q) d -> gk d) -> (forall q d, calls (prog q) d -> first_read (prog d)) ->
  forall fuel iv os,
  s1b_ops prog true os -> 1 + 2 * N.of_nat (length os) < GMAX ->
  Forall2 okout os (snd (run_ops prog skind [] idhash fuel (init iv (fun _ => 0)) os)) ->
  forall os1 q os2, os = os1 ++ OGet q :: os2 ->
  let s1 := fst (run_ops prog skind [] idhash fuel (init iv (fun _ => 0)) os1) in
  let s' := fst (step prog skind [] idhash fuel s1 (OGet q)) in
  exists v, snd (step prog skind [] idhash fuel s1 (OGet q)) = SOk v /\
            (forall w, same_inputs (wcur s') w -> wcons prog idhash NF w q -> v = Ew idhash prog NF w q) /\
            wcons prog idhash NF (wcur s') q /\
            (forall h, In h (snd v) -> live s' h).
Proof. exact dependents_S1b. Qed.
Check C07_dependents_writes_partial :
  forall (prog : qk -> body) (skind : N -> bool) (idhash : val -> N) (rank : qk -> nat) (NF : nat),
  calls_below prog rank -> (forall q, (rank q < NF)%nat) ->
  no_forge idhash prog -> (forall q, nospec (prog q)) -> (forall f, skind f = false) ->
  (forall q d, calls (prog q) d -> gk d) -> (forall q d, calls (prog q) d -> first_read (prog d)) ->
  forall fuel iv os,
  s1b_ops prog true os -> 1 + 2 * N.of_nat (length os) < GMAX ->
  Forall2 okout os (snd (run_ops prog skind [] idhash fuel (init iv (fun _ => 0)) os)) ->
  forall os1 q os2, os = os1 ++ OGet q :: os2 ->
  let s1 := fst (run_ops prog skind [] idhash fuel (init iv (fun _ => 0)) os1) in
  let s' := fst (step prog skind [] idhash fuel s1 (OGet q)) in
  exists v, snd (step prog skind [] idhash fuel s1 (OGet q)) = SOk v /\
            (forall w, same_inputs (wcur s') w -> wcons prog idhash NF w q -> v = Ew idhash prog NF w q) /\
            wcons prog idhash NF (wcur s') q /\
            (forall h, In h (snd v) -> live s' h).
Print Assumptions C07_dependents_writes_partial.

(* Struct-keyed families: INSTANCES only (the general statement C07_dependents_full_statement /
   the keyed from-scratch theorem is not proved).  One handle-safe history of the executable
   model with two struct-keyed families (onS reads its key; own creates a struct of its own):
   the key struct is re-created in place with the same identity (only the no_eq field changes):
   both keyed memos survive and are VALIDATED, not re-executed; the key is deleted: the cascade
   discards the struct, the two memos keyed by it and the struct `own` created; the key is
   re-created in a reused slot with the next generation: onS is EXECUTED afresh on the new id
   (1,1) and answers from the new fields (6, not the old 4).  Every Get / GetS answer equals
   the data value of the specification Structs/Spec.v on the snapshot after it (k_agrees_spec),
   and the proved ownership invariant holds at the end. *)
Example C07_keyed_instances :
  handle_safe (prog_of 1 skind5 k_nodes) skind5 sfams5 k_idhash 40%nat (init (lookup3 k_ival) (fun _ => 0)) k_ops = true /\
  snd (run_ops (prog_of 1 skind5 k_nodes) skind5 sfams5 k_idhash 40%nat (init (lookup3 k_ival) (fun _ => 0)) k_ops) =
    [SOk (4, []); SOk (103, []); SOk (2, []); SOk (0, []); SOk (4, []); SOk (103, []);
     SOk (0, []); SOk (0, []); SOk (0, []); SOk (0, []); SOk (0, []); SOk (6, []); SOk (1, [])] /\
  List.rev (d_log (fst (run_ops (prog_of 1 skind5 k_nodes) skind5 sfams5 k_idhash 40%nat (init (lookup3 k_ival) (fun _ => 0)) k_ops))) =
    [EvExec (1, (0, 0)); EvExec (2, (0, 0)); EvExec (3, (0, 0));
     EvExec (1, (0, 0)); EvValidate (2, (0, 0)); EvValidate (3, (0, 0));
     EvExec (1, (0, 0)); EvWillDiscard (1, (0, 0)) (0, 0); EvDiscardS (0, 0);
     EvDiscardM (2, (0, 0)); EvDiscardM (3, (0, 0)); EvDiscardS (1, 0);
     EvExec (1, (0, 0)); EvExec (2, (1, 1))] /\
  agree_ops (prog_of 1 skind5 k_nodes) (init (lookup3 k_ival) (fun _ => 0)) k_ops = true /\
  OInv skind5 (fst (run_ops (prog_of 1 skind5 k_nodes) skind5 sfams5 k_idhash 40%nat (init (lookup3 k_ival) (fun _ => 0)) k_ops)) [].
Proof. exact (conj k_handle_safe (conj k_outputs (conj k_log (conj k_agrees_spec (proj1 k_invariant))))). Qed.

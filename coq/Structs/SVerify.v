(* Structs/SVerify.v — deep verification: walking the recorded edges in order; when every edge
   is unchanged the memo may be marked verified now. *)
From Salsa Require Import Base.
From Salsa.Kern Require Import CoreK CoreKFacts.
From Salsa.Structs Require Import Model ProofsBase ProofsCascade Machine ProofsInv ProofsStep Theorems Guard SimBase SimOps Sim
     SSem SInv SStable SSlots SStore SLock SNew SFrame SNewInv SRun SBody SExec.

(* ---------------------------------------------------------------- the edge list of a trace *)
Lemma add_edge_nodup es e : NoDup es -> NoDup (add_edge es e).
Proof.
  intros H. unfold add_edge. destruct (existsb (edge_eqb e) es) eqn:E; [exact H|].
  apply nodup_app; [exact H | constructor; [intros [] | constructor] |].
  intros x Hx [E0 | []]. subst x. assert (existsb (edge_eqb e) es = true); [|congruence].
  apply existsb_exists. exists e. split; [exact Hx | apply edge_eqb_eq; reflexivity].
Qed.

Lemma edges_of_nodup t : NoDup (edges_of t).
Proof.
  induction t as [|x t IH] using rev_ind; [constructor|].
  rewrite edges_of_snoc. unfold edge_step. destruct (rd_edge x); [apply add_edge_nodup; exact IH | exact IH].
Qed.

Lemma in_edges_of t e : In e (edges_of t) <-> exists x, In x t /\ rd_edge x = Some e.
Proof.
  induction t as [|y t IH] using rev_ind.
  - cbn. split; [intros [] | intros (x & [] & _)].
  - rewrite edges_of_snoc. unfold edge_step. destruct (rd_edge y) as [ey|] eqn:Ey.
    + rewrite In_add_edge, IH. split.
      * intros [(x & Hx & Ex) | ->]; [exists x; split; [apply in_or_app; left; exact Hx | exact Ex]|].
        exists y. split; [apply in_or_app; right; left; reflexivity | exact Ey].
      * intros (x & Hx & Ex). apply in_app_or in Hx. destruct Hx as [Hx | [<- | []]]; [left; eauto | right; congruence].
    + rewrite IH. split.
      * intros (x & Hx & Ex). exists x. split; [apply in_or_app; left; exact Hx | exact Ex].
      * intros (x & Hx & Ex). apply in_app_or in Hx. destruct Hx as [Hx | [<- | []]]; [eauto | congruence].
Qed.

(* the first read that produces an edge, and the edges recorded before it *)
Lemma edges_first t e : In e (edges_of t) ->
  exists pre x post tail, t = pre ++ x :: post /\ rd_edge x = Some e /\ edges_of t = edges_of pre ++ e :: tail.
Proof.
  induction t as [|y t IH] using rev_ind; [intros []|].
  rewrite edges_of_snoc. unfold edge_step. intros Hin.
  destruct (in_dec (fun a b : edge => match edge_eqb a b as c return (edge_eqb a b = c -> {a = b} + {a <> b}) with
                                      | true => fun H => left (proj1 (edge_eqb_eq a b) H)
                                      | false => fun H => right (fun E => ltac:(apply (proj2 (edge_eqb_eq a b)) in E; congruence))
                                      end eq_refl) e (edges_of t)) as [Hold | Hnew].
  - destruct (IH Hold) as (pre & x & post & tail & Et & Ex & Ee).
    exists pre, x, (post ++ [y]). destruct (rd_edge y) as [ey|] eqn:Ey.
    + unfold add_edge. destruct (existsb (edge_eqb ey) (edges_of t)).
      * exists tail. split; [rewrite Et, <- app_assoc; reflexivity | auto].
      * exists (tail ++ [ey]). split; [rewrite Et, <- app_assoc; reflexivity|]. split; [exact Ex|].
        rewrite Ee, <- app_assoc. reflexivity.
    + exists tail. split; [rewrite Et, <- app_assoc; reflexivity | auto].
  - destruct (rd_edge y) as [ey|] eqn:Ey; [|contradiction].
    apply In_add_edge in Hin. destruct Hin as [Hin | ->]; [contradiction|].
    exists t, y, [], []. split; [reflexivity|]. split; [exact Ey|].
    unfold add_edge. destruct (existsb (edge_eqb ey) (edges_of t)) eqn:Ex; [|reflexivity].
    exfalso. apply Hnew. apply existsb_exists in Ex. destruct Ex as (z & Hz & Ez). apply edge_eqb_eq in Ez. subst z. exact Hz.
Qed.

Lemma nodup_split_unique {A} (l : list A) a b a' b' e :
  NoDup l -> l = a ++ e :: b -> l = a' ++ e :: b' -> a = a'.
Proof.
  revert l a'. induction a as [|x a IH]; intros l a' Hnd E1 E2.
  - destruct a' as [|y a']; [reflexivity|]. exfalso. subst l. cbn [app] in E2. injection E2 as <- E2.
    apply NoDup_cons_iff in Hnd. destruct Hnd as [Hni _]. apply Hni. rewrite E2. apply in_or_app. right. left. reflexivity.
  - destruct a' as [|y a'].
    + exfalso. rewrite E1 in E2. cbn [app] in E2. injection E2 as -> E2. rewrite E1 in Hnd. cbn [app] in Hnd.
      apply NoDup_cons_iff in Hnd. destruct Hnd as [Hni _]. apply Hni. apply in_or_app. right. left. reflexivity.
    + rewrite E1 in E2. cbn [app] in E2. injection E2 as <- E2. f_equal.
      apply (IH (a ++ e :: b) a'); [|reflexivity | exact E2].
      rewrite E1 in Hnd. cbn [app] in Hnd. apply NoDup_cons_iff in Hnd. exact (proj2 Hnd).
Qed.

Section Verify.
Variable prog : qk -> body.
Variable skind : N -> bool.
Variable idhash : val -> N.
Variable rank : qk -> nat.
Hypothesis Hrank : calls_below prog rank.
Variable NF : nat.
Hypothesis Hbound : forall q, (rank q < NF)%nat.
Hypothesis Hprov : no_forge idhash prog.
Hypothesis Hgk : forall q d, calls (prog q) d -> gk d.
Hypothesis Hnk : forall f, skind f = false.
Hypothesis Hfirst : forall q d, calls (prog q) d -> first_read (prog d).
Hypothesis Hns : forall q, nospec (prog q).

Notation Ew := (Ew idhash prog NF).
Notation trw := (trw idhash prog NF).
Notation envw := (envw idhash prog NF).
Notation clos := (clos idhash prog NF).
Notation SInv := (SInv prog skind idhash NF).
Notation smemo_ok := (smemo_ok prog idhash NF).
Notation dval := (dval prog idhash NF).
Notation Er := (Er prog idhash NF).
Notation trr := (trr prog idhash NF).
Notation OInv := (OInv skind).
Notation keeps := (keeps).

(* an edge of the memo m (verified at v) that has been found unchanged, in a form that stays
   true while the state is extended *)
Definition efact (s : db) (m : memo) (e : edge) : Prop :=
  match e with
  | EIn i => f_changed (d_in s i) <= m_verified m
  | EQ d => exists md, d_memo s (loc_of d) = Some md /\ m_verified md = cur s /\ m_changed md <= m_verified m
  | EFld h f => (exists id, In (id, h) (m_structs m)) \/
                (exists l mA id sl, d_memo s l = Some mA /\ m_verified mA = cur s /\ In (id, h) (m_structs mA) /\
                                    live_h s h sl /\ revf sl f <= m_verified m)
  | EOut _ => False
  end.

Lemma efact_sext s s' m e : sext s s' -> efact s m e -> efact s' m e.
Proof.
  intros X. pose proof (sext_cur _ _ X) as Hc. destruct e as [i | d | h f | o]; cbn [efact]; auto.
  - rewrite (x_in _ _ X). auto.
  - intros (md & Hmd & Hv & Hle). exists md. split; [exact (x_valid _ _ X _ md Hmd Hv)|]. rewrite Hc. auto.
  - intros [A | (l & mA & id & sl & HmA & Hv & Hin & Hl & Hr)]; [left; exact A | right].
    destruct (x_settled _ _ X l mA id h HmA Hv Hin sl (proj1 Hl) (proj1 (proj2 Hl))) as (sl' & Hs' & Hu' & Hg' & Hf' & A0 & A1 & _).
    exists l, mA, id, sl'. split; [exact (x_valid _ _ X l mA HmA Hv)|]. split; [rewrite Hc; exact Hv|]. split; [exact Hin|].
    split; [split; [exact Hs'|]; split; [exact Hu'|]; destruct Hl as (_ & _ & Hg); congruence|].
    unfold revf in *. destruct (f =? 0); congruence.
Qed.

Lemma keeps_refl s F : keeps s s F.
Proof. split; [reflexivity|]. split; auto. Qed.

Lemma keeps_trans s1 s2 s3 F : keeps s1 s2 F -> keeps s2 s3 F -> keeps s1 s3 F.
Proof.
  intros (A1 & B1 & C1) (A2 & B2 & C2). split; [congruence|]. split.
  - intros p Hp. rewrite (B2 p) by (rewrite A1; exact Hp). exact (B1 p Hp).
  - intros p frp h0 Hp Hh0. rewrite (C2 p frp h0 Hp Hh0). exact (C1 p frp h0 Hp Hh0).
Qed.

(* ---------------------------------------------------------------- walking the edges *)
Lemma listed_live Hs s F l mA id h : SInv Hs s F -> d_memo s l = Some mA -> m_verified mA = cur s -> In (id, h) (m_structs mA) ->
  exists sl, live_h s h sl.
Proof.
  intros I HmA Hv Hin.
  assert (Hst : settled s (kq l)) by (exists mA; rewrite loc_kq; auto).
  pose proof (settled_not_active prog skind idhash NF Hs s F (kq l) I Hst) as Hna.
  destruct (mo_own _ _ _ _ _ _ _ _ (si_memo _ _ _ _ _ _ _ I l mA HmA) Hna id h Hin) as (sl & Hl & _). eauto.
Qed.

(* a handle in the value of a callee whose edge is unchanged is listed by a memo verified now *)
Lemma callee_handle_listed Hs s F q m d h :
  SInv Hs s F -> gk q -> d_memo s (loc_of q) = Some m ->
  In (RQ d) (trr Hs s (m_verified m) q) -> efact s m (EQ d) ->
  In h (snd (Er Hs s (m_verified m) d)) ->
  exists l mA id, d_memo s l = Some mA /\ m_verified mA = cur s /\ In (id, h) (m_structs mA).
Proof.
  intros I Hg Hm Hin (md & Hmd & Hvd & Hle) Hh.
  pose proof (memo_ok_of prog skind idhash NF Hs s F q m I Hg Hm) as Hok.
  pose proof (trw_gk prog idhash NF Hgk _ _ _ Hin) as Hgd.
  destruct (dv_memo _ _ _ _ _ _ _ _ (mo_obs _ _ _ _ _ _ _ _ Hok d (clos_one _ _ _ _ _ _ Hin))) as (md' & Hmd' & _ & Hobs).
  rewrite Hmd in Hmd'. injection Hmd' as <-. rewrite (Hobs Hle), Hvd in Hh.
  pose proof (mo_val _ _ _ _ _ _ _ _ (memo_ok_of prog skind idhash NF Hs s F d md I Hgd Hmd)) as Ev. rewrite Hvd in Ev.
  destruct (result_hokq prog skind idhash rank Hrank NF Hbound Hprov Hgk Hs s F d md _ frame0 I Hgd Hmd Hvd Ev h Hh)
    as [A | (id & [])]. exact A.
Qed.

Theorem walk_ok L Hs q m : mca_spec prog skind idhash NF L -> forall es done s F s' b,
  SInv Hs s F -> gk q -> d_memo s (loc_of q) = Some m -> m_verified m < cur s -> In q (d_stack s) ->
  ~ active_loc F (loc_of q) -> cur s < GMAX ->
  m_edges m = done ++ es -> (forall e, In e done -> efact s m e) ->
  walk_edges skind L q es (m_verified m) s = (s', SOk b) ->
  SInv Hs s' F /\ sext s s' /\ keeps s s' F /\ (b = false -> forall e, In e (m_edges m) -> efact s' m e).
Proof.
  intros HM. induction es as [|e0 es IH]; intros done s F s' b I Hg Hm Hv Hst Hna Hcur Eed Hdone H; cbn [walk_edges] in H.
  - apply ret_ok in H. destruct H as [-> ->]. split; [exact I|]. split; [apply sext_refl|]. split; [apply keeps_refl|].
    intros _ e He. rewrite Eed, app_nil_r in He. exact (Hdone e He).
  - pose proof (memo_ok_of prog skind idhash NF Hs s F q m I Hg Hm) as Hok.
    assert (Hin0 : In e0 (m_edges m)) by (rewrite Eed; apply in_or_app; right; left; reflexivity).
    assert (Eed' : m_edges m = (done ++ [e0]) ++ es) by (rewrite <- app_assoc; exact Eed).
    destruct e0 as [i | c | h f | o].
    + (* an input *)
      apply bind_ok in H. destruct H as (x & t & H1 & H). apply get_ok in H1. destruct H1 as [-> ->].
      destruct (changed_after (f_changed (d_in s i)) (m_verified m)) eqn:Ec.
      * apply ret_ok in H. destruct H as [-> ->]. split; [exact I|]. split; [apply sext_refl|]. split; [apply keeps_refl | discriminate].
      * apply (IH (done ++ [EIn i]) s F s' b I Hg Hm Hv Hst Hna Hcur Eed'); [|exact H].
        intros e He. apply in_app_or in He. destruct He as [He | [<- | []]]; [exact (Hdone e He)|].
        cbn. apply changed_after_false. exact Ec.
    + (* a callee *)
      apply bind_ok in H. destruct H as (ch & s1 & H1 & H).
      assert (Hinr : In (RQ c) (trr Hs s (m_verified m) q)) by (apply (mo_q _ _ _ _ _ _ _ _ Hok); exact Hin0).
      pose proof (trw_gk prog idhash NF Hgk _ _ _ Hinr) as Hgc.
      assert (Hfc : first_read (prog c)).
      { apply (Hfirst q). unfold SInv.trr, SSem.trw in Hinr. exact (calls_of_trace idhash _ _ _ _ Hinr). }
      destruct (HM Hs s F c (m_verified m) s1 ch I Hgc Hfc Hcur H1) as (I1 & X1 & K1 & Hres).
      pose proof (sext_cur _ _ X1) as Hc1.
      destruct ch.
      * apply ret_ok in H. destruct H as [-> ->]. split; [exact I1|]. split; [exact X1|]. split; [exact K1 | discriminate].
      * destruct K1 as (A1 & B1 & C1).
        destruct (IH (done ++ [EQ c]) s1 F s' b I1 Hg) as (I' & X' & K' & Hf'); auto.
        -- rewrite (B1 q Hst). exact Hm.
        -- rewrite Hc1. exact Hv.
        -- rewrite A1. exact Hst.
        -- rewrite Hc1. exact Hcur.
        -- intros e He. apply in_app_or in He. destruct He as [He | [<- | []]]; [exact (efact_sext s s1 m e X1 (Hdone e He))|].
           destruct (Hres eq_refl) as (md & Hmd & Hvd & Hle). cbn. exists md. rewrite Hc1. auto.
        -- split; [exact I'|]. split; [exact (sext_trans _ _ _ X1 X')|]. split; [|exact Hf'].
           exact (keeps_trans s s1 s' F (conj A1 (conj B1 C1)) K').
    + (* a tracked field *)
      apply bind_ok in H. destruct H as (ch & s1 & H1 & H).
      destruct (field_mca_spec h f (m_verified m) s s1 ch H1) as (-> & sl0 & Hsl0 & Hch).
      destruct ch.
      * apply ret_ok in H. destruct H as [-> ->]. split; [exact I|]. split; [apply sext_refl|]. split; [apply keeps_refl | discriminate].
      * assert (Hrev : revf sl0 f <= m_verified m).
        { unfold revf. destruct (N.le_gt_cases (if f =? 0 then sl_rev0 sl0 else sl_rev1 sl0) (m_verified m)) as [A | A]; [exact A|].
          apply Hch in A. discriminate. }
        apply (IH (done ++ [EFld h f]) s F s' b I Hg Hm Hv Hst Hna Hcur Eed'); [|exact H].
        intros e He. apply in_app_or in He. destruct He as [He | [<- | []]]; [exact (Hdone e He)|].
        (* where the handle came from *)
        pose proof (mo_eorder _ _ _ _ _ _ _ _ Hok) as Eo.
        assert (Hine : In (EFld h f) (edges_of (trr Hs s (m_verified m) q))) by (rewrite <- Eo; exact Hin0).
        destruct (edges_first _ _ Hine) as (pre & x & post & tail & Et & Ex & Ee).
        assert (x = RFld h f) by (destruct x; cbn in Ex; try discriminate; injection Ex as <- <-; reflexivity). subst x.
        assert (Edone : done = edges_of pre).
        { apply (nodup_split_unique (m_edges m) done es (edges_of pre) tail (EFld h f)); [rewrite Eo; apply edges_of_nodup | exact Eed | rewrite Eo; exact Ee]. }
        destruct (prov_prefix idhash (prog q) (envw (W Hs s (m_verified m)) q) [] [] pre (RFld h f) post h (Hprov _ q) Et)
          as [[] | [(id & idv & g0 & g1 & Hnew & Eh) | (d & Hd & Hh)]].
        { left. exists f. reflexivity. }
        -- left. exists id. apply (proj2 (mo_structs _ _ _ _ _ _ _ _ Hok)). split; [|exact Eh].
           apply in_news_ids. exists idv, g0, g1. rewrite Et. apply in_or_app. left. exact Hnew.
        -- right. assert (HinQ : In (RQ d) (trr Hs s (m_verified m) q)).
           { rewrite Et. apply in_or_app. left. exact Hd. }
           assert (Hfd : efact s m (EQ d)).
           { apply Hdone. rewrite Edone. apply in_edges_of. exists (RQ d). split; [exact Hd | reflexivity]. }
           destruct (callee_handle_listed Hs s F q m d h I Hg Hm HinQ Hfd Hh) as (l & mA & id & HmA & HvA & HinA).
           destruct (listed_live Hs s F l mA id h I HmA HvA HinA) as (sl & Hl).
           exists l, mA, id, sl. split; [exact HmA|]. split; [exact HvA|]. split; [exact HinA|]. split; [exact Hl|].
           assert (sl = sl0) by (destruct Hl as (E1 & _); rewrite Hsl0 in E1; injection E1; auto). subst sl. exact Hrev.
    + exfalso. exact (mo_out _ _ _ _ _ _ _ _ Hok o Hin0).
Qed.

(* ---------------------------------------------------------------- marking verified *)
Lemma mark_verified_nk q m s :
  mark_verified skind q m s =
  (set_memo (set_log s (EvValidate q :: d_log s))
            (upd (d_memo s) (loc_of q)
               (Some {| m_val := m_val m; m_verified := cur s; m_changed := m_changed m; m_dur := m_dur m;
                        m_origin := m_origin m; m_edges := m_edges m; m_structs := m_structs m |})),
   SOk {| m_val := m_val m; m_verified := cur s; m_changed := m_changed m; m_dur := m_dur m;
          m_origin := m_origin m; m_edges := m_edges m; m_structs := m_structs m |}).
Proof. unfold mark_verified, store_memo. rewrite Hnk. reflexivity. Qed.

(* the handles a verified run reads through are live *)
Lemma used_live Hs s F q m h :
  SInv Hs s F -> gk q -> d_memo s (loc_of q) = Some m -> ~ active_loc F (loc_of q) ->
  (forall e, In e (m_edges m) -> efact s m e) ->
  (exists f, In (RFld h f) (trr Hs s (m_verified m) q)) \/ In (RIdf h) (trr Hs s (m_verified m) q) ->
  exists sl, live_h s h sl /\
    ((exists id, In (id, h) (m_structs m) /\ slot_fields sl = w_slot (W Hs s (m_verified m)) h) \/
     (exists l mA id, d_memo s l = Some mA /\ m_verified mA = cur s /\ In (id, h) (m_structs mA))).
Proof.
  intros I Hg Hm Hna Hfacts Hu.
  pose proof (memo_ok_of prog skind idhash NF Hs s F q m I Hg Hm) as Hok.
  assert (Hu' : uses idhash (envw (W Hs s (m_verified m)) q) (prog q) [] h).
  { destruct Hu as [A | A]; [left; exact A | right; left; exact A]. }
  destruct (prov_uses idhash (prog q) _ [] [] h (Hprov _ q) Hu') as [[] | [(id & idv & g0 & g1 & Hnew & Eh) | (d & Hd & Hh)]].
  - assert (Hin : In (id, h) (m_structs m)).
    { apply (proj2 (mo_structs _ _ _ _ _ _ _ _ Hok)). split; [apply in_news_ids; eauto | exact Eh]. }
    destruct (mo_own _ _ _ _ _ _ _ _ Hok Hna id h Hin) as (sl & Hl & Hf & _).
    exists sl. split; [exact Hl|]. left. exists id. auto.
  - assert (Hfd : efact s m (EQ d)) by (apply Hfacts; apply (mo_q _ _ _ _ _ _ _ _ Hok); exact Hd).
    destruct (callee_handle_listed Hs s F q m d h I Hg Hm Hd Hfd Hh) as (l & mA & id & HmA & HvA & HinA).
    destruct (listed_live Hs s F l mA id h I HmA HvA HinA) as (sl & Hl).
    exists sl. split; [exact Hl|]. right. exists l, mA, id. auto.
Qed.

Theorem mark_ok Hs s F q m s' m' :
  SInv Hs s F -> gk q -> d_memo s (loc_of q) = Some m -> m_verified m < cur s -> ~ active_loc F (loc_of q) ->
  m_origin m = ODerived -> (forall e, In e (m_edges m) -> efact s m e) ->
  mark_verified skind q m s = (s', SOk m') ->
  SInv Hs s' F /\ sext s s' /\ d_stack s' = d_stack s /\
  (forall l, l <> loc_of q -> d_memo s' l = d_memo s l) /\ d_slots s' = d_slots s /\
  d_memo s' (loc_of q) = Some m' /\ m_verified m' = cur s /\ m_val m' = m_val m /\ m_changed m' = m_changed m /\
  m_dur m' = m_dur m.
Proof.
  intros I Hg Hm Hv Hna Hor Hfacts H. rewrite mark_verified_nk in H. injection H as <- <-.
  set (m' := {| m_val := m_val m; m_verified := cur s; m_changed := m_changed m; m_dur := m_dur m;
                m_origin := m_origin m; m_edges := m_edges m; m_structs := m_structs m |}).
  set (s' := set_memo (set_log s (EvValidate q :: d_log s)) (upd (d_memo s) (loc_of q) (Some m'))).
  pose proof (si_oinv _ _ _ _ _ _ _ I) as OI.
  pose proof (memo_ok_of prog skind idhash NF Hs s F q m I Hg Hm) as Hok.
  pose proof (mo_order _ _ _ _ _ _ _ _ Hok) as (Ho1 & Ho2 & Ho3).
  assert (Hold : forall m0, d_memo s (loc_of q) = Some m0 -> m_verified m0 < cur s /\ m_changed m0 <= m_changed m').
  { intros m0 Hm0. rewrite Hm in Hm0. injection Hm0 as <-. split; [exact Hv | cbn; lia]. }
  assert (X : sext s s').
  { apply (store_sext s s' (loc_of q) m'); try reflexivity. exact Hold. }
  pose proof (sext_cur _ _ X) as Hc.
  assert (Hm' : d_memo s' (loc_of q) = Some m') by (cbn; apply upd_same).
  assert (Hslots : d_slots s' = d_slots s) by reflexivity.
  assert (Hlive : forall h sl, live_h s' h sl <-> live_h s h sl) by (intros h sl; unfold live_h; rewrite Hslots; tauto).
  (* the world now gives the verified run the answers of the world then *)
  assert (Hag : agree_on (envw (W Hs s (m_verified m)) q) (envw (wcur s') q) (trr Hs s (m_verified m) q)).
  { intros r Hr. destruct r as [i | d | c | | id idv f0 f1 | h f | h]; cbn [answer SSem.envw mkenv e_in e_cell e_q e_slot e_new].
    - assert (Hle : f_changed (d_in s i) <= (m_verified m)) by (apply (Hfacts (EIn i)); apply (mo_in _ _ _ _ _ _ _ _ Hok); exact Hr).
      rewrite (si_in _ _ _ _ _ _ _ I i (m_verified m) Hle Ho3). reflexivity.
    - assert (Hfd : efact s m (EQ d)) by (apply Hfacts; apply (mo_q _ _ _ _ _ _ _ _ Hok); exact Hr).
      destruct Hfd as (md & Hmd & Hvd & Hle).
      pose proof (trw_gk prog idhash NF Hgk _ _ _ Hr) as Hgd.
      destruct (dv_memo _ _ _ _ _ _ _ _ (mo_obs _ _ _ _ _ _ _ _ Hok d (clos_one _ _ _ _ _ _ Hr))) as (md' & Hmd' & _ & Hobs).
      rewrite Hmd in Hmd'. injection Hmd' as <-.
      change (Ew (W Hs s (m_verified m)) d) with (Er Hs s (m_verified m) d). rewrite (Hobs Hle), Hvd, (Er_cur prog idhash NF).
      assert (Hsd : settled s d) by (exists md; auto).
      symmetry. exact (proj1 (proj2 (settled_stable prog skind idhash rank Hrank NF Hbound Hprov Hgk Hs s F s' d I X Hgd Hsd))).
    - exfalso. assert (Eo : m_origin m = OUntracked) by (apply (mo_untr _ _ _ _ _ _ _ _ Hok _ Hr); right; eauto). congruence.
    - reflexivity.
    - cbn [wcur w_alloc]. rewrite Hm'. cbn [m_structs m']. f_equal. f_equal.
      destruct (mo_structs _ _ _ _ _ _ _ _ Hok) as [Hnd Hiff]. symmetry. apply (assoc_id_nodup _ _ _ Hnd).
      apply Hiff. split; [apply in_news_ids; eauto | reflexivity].
    - destruct (used_live Hs s F q m h I Hg Hm Hna Hfacts) as (sl & Hl & Hcase); [left; eauto|].
      f_equal. cbn [wcur w_slot]. rewrite Hslots. destruct Hl as (Hs0 & Hl'). rewrite Hs0, fld3_slot.
      destruct Hcase as [(id & Hin & Hf) | _].
      + rewrite <- Hf. apply fld3_slot.
      + assert (Hfe : efact s m (EFld h f)) by (apply Hfacts; apply (mo_fld _ _ _ _ _ _ _ _ Hok); exact Hr).
        destruct Hfe as [(id & Hin) | (l & mA & id & sl1 & _ & _ & _ & Hl1 & Hrev)].
        * destruct (mo_own _ _ _ _ _ _ _ _ Hok Hna id h Hin) as (sl1 & Hl1 & Hf & _).
          assert (sl1 = sl) by (destruct Hl1 as (E1 & _); rewrite Hs0 in E1; injection E1; auto). subst sl1.
          rewrite <- Hf. apply fld3_slot.
        * assert (sl1 = sl) by (destruct Hl1 as (E1 & _); rewrite Hs0 in E1; injection E1; auto). subst sl1.
          apply (dv_fld _ _ _ _ _ _ _ _ (mo_obs _ _ _ _ _ _ _ _ Hok q (clos_refl _ _ _ _ _)) h f sl Hr Hl1 Hrev).
    - destruct (used_live Hs s F q m h I Hg Hm Hna Hfacts) as (sl & Hl & _); [right; exact Hr|].
      f_equal. cbn [wcur w_slot]. rewrite Hslots. pose proof Hl as (Hs0 & _). rewrite Hs0.
      exact (dv_idf _ _ _ _ _ _ _ _ (mo_obs _ _ _ _ _ _ _ _ Hok q (clos_refl _ _ _ _ _)) h sl Hr Hl). }
  destruct (trace_determined idhash (prog q) _ _ [] Hag) as [Htr Hrun].
  assert (Etr : trr Hs s' (cur s) q = trr Hs s (m_verified m) q).
  { rewrite <- Hc, (trr_cur prog idhash NF). exact Htr. }
  assert (EE : Er Hs s' (cur s) q = Er Hs s (m_verified m) q).
  { rewrite <- Hc, (Er_cur prog idhash NF). unfold SInv.Er. rewrite !(Ew_unfold idhash prog rank Hrank NF Hbound). exact Hrun. }
  assert (EW : W Hs s' (cur s) = wcur s') by (rewrite <- Hc; apply W_cur).
  assert (Halloc : forall id, In id (news_ids (trr Hs s (m_verified m) q)) -> w_alloc (wcur s') q id = w_alloc (W Hs s (m_verified m)) q id).
  { intros id Hid. cbn [wcur w_alloc]. rewrite Hm'. cbn [m_structs m'].
    destruct (mo_structs _ _ _ _ _ _ _ _ Hok) as [Hnd Hiff]. apply (assoc_id_nodup _ _ _ Hnd). apply Hiff. auto. }
  assert (Hstore : SInv Hs s' F /\ sext s s').
  { apply (SInv_store prog skind idhash rank Hrank NF Hbound Hprov Hgk Hs s F s' F (loc_of q) m' I); try reflexivity.
    - exact Hold.
    - refine (proj1 (mark_verified_sim skind [] (nofams skind) [] q m s F s' m' OI (mark_verified_nk q m s) _)).
      unfold SimBase.mst. rewrite (peek_nk skind Hnk), Hm. reflexivity.
    - apply (cons_nk skind Hnk s s' F F (si_cons _ _ _ _ _ _ _ I)); [reflexivity | eauto].
    - exact Hna.
    - auto.
    - (* the re-verified memo *)
      intros Hothers _. rewrite kq_loc by exact Hg.
      destruct Hok as [k1 k2 k3 k4 k5 k6 k7 k8 k9 k9b k10 k11 k12 k13].
      assert (Hcallee : forall d, In (RQ d) (trr Hs s (m_verified m) q) ->
                gk d /\ loc_of d <> loc_of q /\ exists md, d_memo s' (loc_of d) = Some md /\ m_verified md = cur s).
      { intros d Hd. pose proof (trw_gk prog idhash NF Hgk _ _ _ Hd) as Hgd. split; [exact Hgd|].
        assert (Hfd : efact s m (EQ d)) by (apply Hfacts; apply k7; exact Hd).
        destruct Hfd as (md & Hmd & Hvd & _).
        assert (Hne : loc_of d <> loc_of q).
        { intros E. rewrite E, Hm in Hmd. injection Hmd as <-. lia. }
        split; [exact Hne|]. exists md. split; [|exact Hvd]. cbn. rewrite upd_other by congruence. exact Hmd. }
      assert (Hself : dval Hs s' F (cur s) q).
      { constructor; rewrite ?Etr, ?EW.
        - exists m'. split; [exact Hm'|]. split; [cbn; lia|]. intros _. cbn. reflexivity.
        - intros h f sl Hin (Hs0 & _) _. cbn [wcur w_slot]. rewrite Hs0. apply fld3_slot.
        - intros h sl Hin (Hs0 & _). cbn [wcur w_slot]. rewrite Hs0. reflexivity.
        - intros id idv f0 f1 Hin.
          assert (Hid : In id (news_ids (trr Hs s (m_verified m) q))) by (apply in_news_ids; eauto).
          rewrite (Halloc id Hid).
          destruct (dv_new _ _ _ _ _ _ _ _ (k12 q (clos_refl _ _ _ _ _)) id idv f0 f1 Hin) as [Hargs Hiss].
          split; [|exact Hiss].
          assert (Hinm : In (id, w_alloc (W Hs s (m_verified m)) q id) (m_structs m)) by (apply (proj2 k5); auto).
          destruct (k11 Hna id _ Hinm) as (sl & (Hs0 & _) & Hf & _).
          cbn [wcur w_slot]. rewrite Hslots, Hs0, Hf. exact Hargs.
        - intros id idv f0 f1 sl Hin Hl. left. split; [exact Hna|]. exists m'. split; [exact Hm'|]. cbn [m_structs m'].
          assert (Hid : In id (news_ids (trr Hs s (m_verified m) q))) by (apply in_news_ids; eauto).
          rewrite (Halloc id Hid). apply (proj2 k5). auto. }
      constructor; cbn [m' m_val m_verified m_changed m_dur m_origin m_edges m_structs]; rewrite ?Etr, ?EE, ?EW.
      + rewrite Hc. lia.
      + exact k2.
      + exact k3.
      + exact k4.
      + split; [exact (proj1 k5)|]. intros id h. rewrite (proj2 k5 id h). split.
        * intros [Hid ->]. split; [exact Hid | symmetry; exact (Halloc id Hid)].
        * intros [Hid ->]. split; [exact Hid | exact (Halloc id Hid)].
      + exact k6.
      + exact k7.
      + exact k8.
      + exact k9.
      + exact k9b.
      + exact k10.
      + intros _ id h Hin. destruct (k11 Hna id h Hin) as (sl & Hl & Hf & Hd & A0 & A1 & Hcs).
        exists sl. split; [apply Hlive; exact Hl|].
        split; [cbn [wcur w_slot]; rewrite Hslots; destruct Hl as (Hs0 & _); rewrite Hs0; reflexivity|].
        split; [exact Hd|]. split; [lia|]. split; [lia|].
        exact (cstamp_sext skind s s' F _ id _ OI X Hcs).
      + intros d Hd. destruct (clos_inv prog idhash NF _ _ _ Hd) as [-> | (d1 & Hin1 & Hd1)]; [exact Hself|].
        unfold SSem.trw in Hin1. rewrite Htr in Hin1.
        destruct (Hcallee d1 Hin1) as (Hgd1 & Hne1 & md1 & Hmd1 & Hvd1).
        pose proof (Hothers (loc_of d1) md1 Hne1 Hmd1) as Hok1. rewrite (kq_loc d1 Hgd1) in Hok1.
        rewrite <- Hvd1. apply (mo_obs _ _ _ _ _ _ _ _ Hok1 d). rewrite Hvd1, EW. exact Hd1.
      + intros _ d Hin. rewrite Hc, Etr in Hin.
        destruct (Hcallee d Hin) as (_ & _ & md & Hmd & Hvd). exists md. rewrite Hc. auto.
    - (* observers *)
      intros g mg Hmg Hne Hcl Hle. rewrite (kq_loc q Hg) in *.
      pose proof (si_memo _ _ _ _ _ _ _ I g mg Hmg) as Hokg.
      destruct (dv_memo _ _ _ _ _ _ _ _ (mo_obs _ _ _ _ _ _ _ _ Hokg q Hcl)) as (md & Hmd & _ & Hobs).
      rewrite Hm in Hmd. injection Hmd as <-. cbn [m' m_changed] in Hle.
      rewrite EE. exact (Hobs Hle).
    - intros id h sl _ Ho. rewrite (kq_loc q Hg) in Ho.
      destruct Ho as [(_ & md & Hmd & Hin) | (fr0 & e0 & Hin0 & _)].
      + rewrite Hm in Hmd. injection Hmd as <-. exact Hin.
      + exfalso. apply Hna. exists q, fr0. auto.
    - intros q0 fr0 id h Hin _. left. exact Hin. }
  destruct Hstore as [I' _].
  split; [exact I'|]. split; [exact X|]. split; [reflexivity|].
  split; [intros l Hne; cbn; apply upd_other; congruence|]. split; [reflexivity|].
  split; [exact Hm'|]. repeat split; reflexivity.
Qed.

End Verify.

(* Structs/STop2.v — stage S1b: the S1 theorem for the richer history class with synthetic writes
   (OSynth, any durability) and untracked-cell writes (OSetCell).  A cell write does not start a
   revision, so a memo verified in the current revision that read the cell keeps its value: the
   from-scratch statement is FALSE for a cell write after a Get of the same revision.  The class
   therefore allows OSetCell only while nothing has been verified in the revision yet (directly
   after OSet / OSynth / OSetCell / at the start). *)
From Salsa Require Import Base.
From Salsa.Kern Require Import CoreK CoreKFacts.
From Salsa.Structs Require Import Model ProofsBase ProofsCascade Machine ProofsInv ProofsStep Theorems Guard SimBase SimOps Sim
     SSem SInv SStable SSlots SStore SLock SNew SFrame SNewInv SRun SBody SExec SVerify SFetch STop.

Section Top2.
Variable prog : qk -> body.
Variable skind : N -> bool.
Variable idhash : val -> N.
Variable rank : qk -> nat.
Hypothesis Hrank : calls_below prog rank.
Variable NF : nat.
Hypothesis Hbound : forall q, (rank q < NF)%nat.
Hypothesis Hprov : no_forge idhash prog.
Hypothesis Hgk : forall q d, calls (prog q) d -> gk d.
Hypothesis Hnk : forall f, skind f = false.
Hypothesis Hfirst : forall q d, calls (prog q) d -> first_read (prog d).
Hypothesis Hns : forall q, nospec (prog q).

Notation TopOK := (TopOK prog skind idhash NF).
Notation gets_ok := (gets_ok prog skind idhash NF).
Notation SInv := (SInv prog skind idhash NF).

(* in a fresh state the revision record's durability slots, the inputs' values are free *)
Lemma fresh_same s s' : fresh s -> d_memo s' = d_memo s -> d_slots s' = d_slots s -> cur s' = cur s -> fresh s'.
Proof. intros [A B] Em Es Ec. split; rewrite ?Em, ?Es, Ec; assumption. Qed.

Lemma revs_ok s x : TopOK s -> fresh s -> r_cur x = cur s -> TopOK (set_revs s x).
Proof.
  intros (Hs & I & Hst) [Fm Fs] Ex.
  set (s' := set_revs s x).
  assert (Hc : cur s' = cur s) by exact Ex.
  pose proof (si_cur _ _ _ _ _ _ _ I) as Hc1.
  exists Hs. split; [|exact Hst].
  apply (SInv_advance prog skind idhash NF Hnk Hs Hs s s' (cur s - 1) I); try reflexivity; try lia.
  - intros l m Hm. pose proof (Fm l m Hm). lia.
  - intros r Hr. unfold Wd. rewrite Hc. assert (E : r <? cur s = true) by (apply N.ltb_lt; lia). rewrite E. reflexivity.
  - intros j r Hr Hle. rewrite Hc in Hle. change (d_in s' j) with (d_in s j) in *.
    destruct (N.eq_dec r (cur s)) as [-> | Hnr].
    + unfold Wd. rewrite Hc, N.ltb_irrefl. reflexivity.
    + assert (E : Wd Hs s' r = Wd Hs s r).
      { unfold Wd. rewrite Hc. reflexivity. }
      rewrite E. apply (si_in _ _ _ _ _ _ _ I j r Hr). lia.
  - intros j. rewrite Hc. exact (si_in_le _ _ _ _ _ _ _ I j).
  - exact (si_low _ _ _ _ _ _ _ I).
  - intros j sl r Hs0 Hu. rewrite Hc. exact (Fs j sl r Hs0 Hu).
Qed.

Lemma cell_ok s c v : TopOK s -> fresh s -> TopOK (set_cell s (updN (d_cell s) c v)).
Proof.
  intros (Hs & I & Hst) [Fm Fs].
  set (s' := set_cell s (updN (d_cell s) c v)).
  assert (Hc : cur s' = cur s) by reflexivity.
  pose proof (si_cur _ _ _ _ _ _ _ I) as Hc1.
  exists Hs. split; [|exact Hst].
  apply (SInv_advance prog skind idhash NF Hnk Hs Hs s s' (cur s - 1) I); try reflexivity; try lia.
  - intros l m Hm. pose proof (Fm l m Hm). lia.
  - intros r Hr. unfold Wd. rewrite Hc. assert (E : r <? cur s = true) by (apply N.ltb_lt; lia). rewrite E. reflexivity.
  - intros j r Hr Hle. rewrite Hc in Hle. change (d_in s' j) with (d_in s j) in *.
    destruct (N.eq_dec r (cur s)) as [-> | Hnr].
    + unfold Wd. rewrite Hc, N.ltb_irrefl. reflexivity.
    + assert (E : Wd Hs s' r = Wd Hs s r).
      { unfold Wd. rewrite Hc. assert (E : r <? cur s = true) by (apply N.ltb_lt; lia). rewrite E. reflexivity. }
      rewrite E. apply (si_in _ _ _ _ _ _ _ I j r Hr). lia.
  - intros j. rewrite Hc. exact (si_in_le _ _ _ _ _ _ _ I j).
  - exact (si_low _ _ _ _ _ _ _ I).
  - intros j sl r Hs0 Hu. rewrite Hc. exact (Fs j sl r Hs0 Hu).
Qed.

(* ---------------------------------------------------------------- the history class *)
(* b = nothing has been verified in the current revision yet *)
Fixpoint s1b_ops (b : bool) (os : list op) : Prop :=
  match os with
  | [] => True
  | OSet i v d :: os' => (d = None \/ d = Some 0) /\ s1b_ops true os'
  | OSynth d :: os' => s1b_ops true os'
  | OSetCell c v :: os' => b = true /\ s1b_ops true os'
  | OGet q :: os' => (gk q /\ first_read (prog q)) /\ s1b_ops false os'
  | OGetS _ _ _ :: _ => False
  | OEntries :: os' => s1b_ops b os'
  end.

Definition flag_after (b : bool) (o : op) : bool :=
  match o with
  | OSet _ _ _ | OSynth _ | OSetCell _ _ => true
  | OGet _ | OGetS _ _ _ => false
  | OEntries => b
  end.

Lemma zalsa_ok s : TopOK s -> TopOK (zalsa_mut s) /\ cur (zalsa_mut s) <= cur s + 1.
Proof.
  intros T. unfold zalsa_mut. destruct (d_ccount s =? 255).
  - destruct (newrev_ok prog skind idhash NF Hnk s T) as (A & _ & B). split; [exact A | lia].
  - split; [apply (ccount_ok prog skind idhash rank Hrank NF Hbound Hprov Hgk Hnk); exact T|].
    assert (E : cur (set_ccount s (d_ccount s + 1)) = cur s) by reflexivity. rewrite E. lia.
Qed.

Lemma step_write_ok fuel s o : TopOK s ->
  match o with
  | OSet i v d => d = None \/ d = Some 0
  | OSynth d => True
  | _ => False
  end ->
  TopOK (fst (step prog skind [] idhash fuel s o)) /\ fresh (fst (step prog skind [] idhash fuel s o)) /\
  cur (fst (step prog skind [] idhash fuel s o)) <= cur s + 2.
Proof.
  intros T Hop. destruct o as [i v d | d | c v | q | fam q i | ]; try contradiction.
  - cbn [step].
    destruct (zalsa_ok s T) as [Tz Hcz].
    destruct (newrev_ok prog skind idhash NF Hnk _ Tz) as (T1 & F1 & Hc1).
    set (s1 := new_revision (zalsa_mut s)) in *.
    pose proof T1 as (Hs1 & I1 & Hst1).
    pose proof (si_low _ _ _ _ _ _ _ I1 i) as Hlow. rewrite Hlow. change (0 =? D_NEVER) with false. change (0 =? D_LOW) with true.
    cbn [fst].
    assert (Ed : match d with Some d' => d' | None => 0 end = 0) by (destruct Hop as [-> | ->]; reflexivity).
    rewrite Ed. split; [exact (write_ok prog skind idhash NF Hnk s1 i v T1 F1)|].
    split; [apply (fresh_same s1); [exact F1 | reflexivity | reflexivity | reflexivity]|].
    assert (E : forall x, cur (set_in (set_revs s1 (d_revs s1)) x) = cur s1) by reflexivity. rewrite E. lia.
  - cbn [step].
    destruct (zalsa_ok s T) as [Tz Hcz].
    destruct (newrev_ok prog skind idhash NF Hnk _ Tz) as (T1 & F1 & Hc1).
    set (s1 := new_revision (zalsa_mut s)) in *.
    destruct (d =? D_NEVER); cbn [fst].
    + split; [exact T1|]. split; [exact F1 | lia].
    + split; [apply revs_ok; [exact T1 | exact F1 | reflexivity]|].
      split; [apply (fresh_same s1); [exact F1 | reflexivity | reflexivity | reflexivity]|].
      assert (E : cur (set_revs s1 (report_write (d_revs s1) d)) = cur s1) by reflexivity. rewrite E. lia.
Qed.

Lemma fresh_init iv idur : fresh (init iv idur).
Proof. split; [intros l m H; discriminate | intros i sl r H; discriminate]. Qed.

(* the invariant holds between the operations, and the revision counter stays below GMAX *)
Fixpoint tops_ok (fuel : nat) (s : db) (os : list op) : Prop :=
  match os with
  | [] => True
  | o :: os' =>
      let s' := fst (step prog skind [] idhash fuel s o) in
      (TopOK s' /\ cur s' < GMAX) /\ tops_ok fuel s' os'
  end.

Theorem from_scratch_S1b_tops fuel : forall os s n b,
  TopOK s -> (b = true -> fresh s) -> cur s <= 1 + 2 * n -> 1 + 2 * (n + N.of_nat (length os)) < GMAX ->
  s1b_ops b os -> Forall2 okout os (snd (run_ops prog skind [] idhash fuel s os)) ->
  gets_ok fuel s os /\ tops_ok fuel s os.
Proof.
  induction os as [|o os IH]; intros s n b T Hfr Hc Hb Hops Hok; [split; exact Logic.I|].
  cbn [STop.gets_ok tops_ok]. cbn [run_ops] in Hok.
  destruct (step prog skind [] idhash fuel s o) as [s1 r] eqn:E1.
  destruct (run_ops prog skind [] idhash fuel s1 os) as [s2 rs] eqn:E2. cbn [snd fst] in *.
  inversion Hok as [|? ? ? ? Hr Hrs]; subst.
  cbn [length] in Hb.
  assert (Hstep : TopOK s1 /\ cur s1 <= cur s + 2 /\ (flag_after b o = true -> fresh s1) /\ s1b_ops (flag_after b o) os /\
                  match o with
                  | OGet q => exists v, r = SOk v /\ v = Ew idhash prog NF (wcur s1) q /\ wcons prog idhash NF (wcur s1) q /\
                                        (forall h, In h (snd v) -> live s1 h)
                  | _ => True
                  end).
  { destruct o as [i v d | d | c v | q | fam q i | ]; cbn [s1b_ops flag_after] in *.
    - destruct Hops as [Hd Hos].
      pose proof (step_write_ok fuel s (OSet i v d) T Hd) as A. rewrite E1 in A. cbn [fst] in A.
      destruct A as (A & B & C). auto 6.
    - pose proof (step_write_ok fuel s (OSynth d) T Logic.I) as A. rewrite E1 in A. cbn [fst] in A.
      destruct A as (A & B & C). auto 6.
    - destruct Hops as [-> Hos]. cbn [step] in E1. injection E1 as <- <-.
      pose proof (Hfr eq_refl) as F0.
      split; [exact (cell_ok s c v T F0)|]. split; [change (cur s <= cur s + 2); lia|].
      split; [intros _; apply (fresh_same s); [exact F0 | reflexivity | reflexivity | reflexivity]|]. auto.
    - destruct Hops as [[Hg Hfq] Hos]. destruct Hr as (v & ->).
      destruct (get_ok prog skind idhash rank Hrank NF Hbound Hprov Hgk Hnk Hfirst Hns fuel s q s1 v T Hg Hfq) as (A & B & C & D & E0); [lia | exact E1|].
      split; [exact A|]. split; [lia|]. split; [discriminate|]. split; [exact Hos|]. exists v. auto.
    - contradiction.
    - cbn [step] in E1. injection E1 as <- <-. split; [exact T|]. split; [lia|]. auto. }
  destruct Hstep as (T1 & Hc1 & Hf1 & Hos & Hget).
  destruct (IH s1 (n + 1) (flag_after b o) T1 Hf1) as [G1 G2]; [lia | | exact Hos | |].
  - rewrite Nat2N.inj_succ in Hb. lia.
  - rewrite E2. exact Hrs.
  - split; [split; [exact Hget | exact G1]|]. split; [|exact G2]. split; [exact T1|].
    rewrite Nat2N.inj_succ in Hb. lia.
Qed.

Theorem from_scratch_S1b fuel : forall os s n b,
  TopOK s -> (b = true -> fresh s) -> cur s <= 1 + 2 * n -> 1 + 2 * (n + N.of_nat (length os)) < GMAX ->
  s1b_ops b os -> Forall2 okout os (snd (run_ops prog skind [] idhash fuel s os)) ->
  gets_ok fuel s os.
Proof. intros os s n b T Hfr Hc Hb Hops Hok. exact (proj1 (from_scratch_S1b_tops fuel os s n b T Hfr Hc Hb Hops Hok)). Qed.

Lemma tops_prefix fuel : forall os1 s os2, TopOK s -> cur s < GMAX -> tops_ok fuel s (os1 ++ os2) ->
  TopOK (fst (run_ops prog skind [] idhash fuel s os1)) /\ cur (fst (run_ops prog skind [] idhash fuel s os1)) < GMAX.
Proof.
  induction os1 as [|o os1 IH]; intros s os2 T Hc H; [split; assumption|].
  cbn [app tops_ok] in H. destruct H as [[T1 Hc1] H].
  cbn [run_ops]. destruct (step prog skind [] idhash fuel s o) as [s1 r] eqn:E1. cbn [fst] in *.
  specialize (IH s1 os2 T1 Hc1 H).
  destruct (run_ops prog skind [] idhash fuel s1 os1) as [s2 rs]. exact IH.
Qed.

End Top2.

(* Structs/SSlots.v — the frame rule for slot changes: when the memo tables stay, a set P of
   handles may change arbitrarily provided no memo of a query that is not running lists one of
   them, and what the observers of past revisions are owed about the handles of P is shown
   separately; every other handle keeps its slot data. *)
From Salsa Require Import Base.
From Salsa.Kern Require Import CoreK CoreKFacts.
From Salsa.Structs Require Import Model ProofsBase ProofsCascade Machine ProofsInv ProofsStep Theorems Guard SimBase SSem SInv SStable.

Definition seqv (a b : slot) : Prop :=
  sl_gen b = sl_gen a /\ sl_dur b = sl_dur a /\ slot_fields b = slot_fields a /\
  sl_rev0 b = sl_rev0 a /\ sl_rev1 b = sl_rev1 a.

Lemma seqv_revf a b f : seqv a b -> revf b f = revf a f.
Proof. intros (_ & _ & _ & A & B). unfold revf. destruct (f =? 0); assumption. Qed.
Lemma seqv_fldv a b f : seqv a b -> fldv b f = fldv a f.
Proof. intros (_ & _ & A & _). rewrite <- !fld3_slot. now rewrite A. Qed.
Lemma seqv_idv a b : seqv a b -> sl_idv b = sl_idv a.
Proof. intros (_ & _ & A & _). rewrite <- !idv3_slot. now rewrite A. Qed.

Section Slots.
Variable prog : qk -> body.
Variable skind : N -> bool.
Variable idhash : val -> N.
Variable rank : qk -> nat.
Hypothesis Hrank : calls_below prog rank.
Variable NF : nat.
Hypothesis Hbound : forall q, (rank q < NF)%nat.
Hypothesis Hprov : no_forge idhash prog.
Hypothesis Hgk : forall q d, calls (prog q) d -> gk d.

Notation Ew := (Ew idhash prog NF).
Notation trw := (trw idhash prog NF).
Notation envw := (envw idhash prog NF).
Notation clos := (clos idhash prog NF).
Notation SInv := (SInv prog skind idhash NF).
Notation smemo_ok := (smemo_ok prog idhash NF).
Notation dval := (dval prog idhash NF).
Notation Er := (Er prog idhash NF).
Notation trr := (trr prog idhash NF).
Notation sle := (sle).

Lemma gk_kq l : gk (kq l).
Proof. reflexivity. Qed.

Theorem SInv_slots Hs s F s' F' (P : handle -> Prop) :
  SInv Hs s F -> sext s s' -> d_memo s' = d_memo s ->
  OInv skind s' F' -> Cons skind s' F' ->
  (forall h, P h \/ ~ P h) ->
  (forall l, active_loc F l -> active_loc F' l) ->
  (forall d, settled s d -> ~ active_loc F' (loc_of d)) ->
  (forall q fr', In (q, fr') F' -> gk q /\ forall m, d_memo s (loc_of q) = Some m -> m_verified m < cur s) ->
  (* every handle outside P that is live afterwards was live before, with the same data *)
  (forall h sl', ~ P h -> live_h s' h sl' -> exists sl, live_h s h sl /\ seqv sl sl') ->
  (* the structs of memos whose query is not running are outside P and kept *)
  (forall l m id h, d_memo s l = Some m -> ~ active_loc F l -> In (id, h) (m_structs m) ->
     ~ P h /\ slot_keeps (d_slots s (fst h)) (d_slots s' (fst h))) ->
  (forall d id h sl', gk d -> ~ P h -> live_h s' h sl' -> owned s F d id h -> owned s' F' d id h) ->
  (* what the observers of past revisions are owed about the handles of P *)
  (forall l m d h f sl', d_memo s l = Some m -> m_verified m < cur s ->
     clos (W Hs s (m_verified m)) (kq l) d -> In (RFld h f) (trr Hs s (m_verified m) d) ->
     P h -> live_h s' h sl' -> revf sl' f <= m_verified m ->
     fld3 (w_slot (W Hs s (m_verified m)) h) f = fldv sl' f) ->
  (forall l m d h sl', d_memo s l = Some m -> m_verified m < cur s ->
     clos (W Hs s (m_verified m)) (kq l) d -> In (RIdf h) (trr Hs s (m_verified m) d) ->
     P h -> live_h s' h sl' -> idv3 (w_slot (W Hs s (m_verified m)) h) = sl_idv sl') ->
  (forall l m d id idv f0 f1 sl', d_memo s l = Some m -> m_verified m < cur s ->
     clos (W Hs s (m_verified m)) (kq l) d -> In (RNew id idv f0 f1) (trr Hs s (m_verified m) d) ->
     P (w_alloc (W Hs s (m_verified m)) d id) -> live_h s' (w_alloc (W Hs s (m_verified m)) d id) sl' ->
     owned s' F' d id (w_alloc (W Hs s (m_verified m)) d id)) ->
  (forall c h f, P h -> sle s c (RFld h f) -> sle s' c (RFld h f)) ->
  (forall i sl, d_slots s' i = Some sl -> sl_updated sl <> None ->
     sl_dur sl = 0 /\ (forall r, sl_updated sl = Some r -> r <= cur s')) ->
  (forall i sl, d_slots s' i = Some sl ->
     match sl_updated sl with Some r => sl_gen sl < r | None => sl_gen sl + 1 < cur s' end) ->
  (forall h sl, live_h s' h sl -> sl_updated sl = Some (cur s') ->
     (exists l m id, d_memo s' l = Some m /\ m_verified m = cur s' /\ In (id, h) (m_structs m)) \/
     (exists q fr id, In (q, fr) F' /\ In (mk_entry id h true) (fr_ids fr))) ->
  SInv Hs s' F'.
Proof.
  intros I X Hmemo OI' CO' Pdec Hact Hact2 HF' Hback Hkeep Hown Ofld Oidf Oown Osle Hslots Hgens Hlock.
  pose proof (sext_cur _ _ X) as Hcur.
  assert (Hst_memo : forall q, settled s q -> settled s' q) by (intros q; apply settled_sext; exact X).
  (* stability of what is said about a revision *)
  assert (Hobs : forall r q, gk q -> r < cur s \/ (r = cur s /\ settled s q) ->
            trr Hs s' r q = trr Hs s r q /\ Er Hs s' r q = Er Hs s r q /\
            (forall d, clos (W Hs s r) q d <-> clos (W Hs s' r) q d)).
  { intros r q Hg Hr. exact (obs_stable prog skind idhash rank Hrank NF Hbound Hprov Hgk Hs s F s' r q I X Hg Hr). }
  (* stamps of reads only grow *)
  assert (Hsle : forall c x, sle s c x -> sle s' c x).
  { intros c x. destruct x as [i | d | cc | | id idv f0 f1 | h f | h]; cbn [SInv.sle]; auto.
    - rewrite (x_in _ _ X). auto.
    - rewrite Hmemo. auto.
    - intros Hs0. destruct (Pdec h) as [Hp | Hnp]; [exact (Osle c h f Hp Hs0)|].
      destruct Hs0 as [Hi Hs0]. split; [exact (x_issued _ _ X h Hi)|].
      intros sl' Hl'. destruct (Hback h sl' Hnp Hl') as (sl & Hl & Hq). rewrite (seqv_revf _ _ f Hq). exact (Hs0 sl Hl). }
  constructor.
  - rewrite Hcur. exact (si_cur _ _ _ _ _ _ _ I).
  - intros i r Hr Hle. rewrite (x_in _ _ X) in *. rewrite Hcur in Hle.
    destruct (N.eq_dec r (cur s)) as [-> | Hne].
    + unfold W, Wd. rewrite Hcur, N.ltb_irrefl. cbn. rewrite (x_in _ _ X). reflexivity.
    + rewrite (W_same_cur Hs s s' r Hcur) by lia. exact (si_in _ _ _ _ _ _ _ I i r Hr Hle).
  - intros i. rewrite (x_in _ _ X), Hcur. exact (si_in_le _ _ _ _ _ _ _ I i).
  - intros i. rewrite (x_in _ _ X). exact (si_low _ _ _ _ _ _ _ I i).
  - exact OI'.
  - exact CO'.
  - exact Hslots.
  - exact Hgens.
  - (* memos *)
    intros l m Hm'. pose proof Hm' as Hm. rewrite Hmemo in Hm.
    pose proof (si_memo _ _ _ _ _ _ _ I l m Hm) as Hok.
    pose proof (mo_order _ _ _ _ _ _ _ _ Hok) as (Ho1 & Ho2 & Ho3).
    set (v := m_verified m) in *.
    assert (Hcase : v < cur s \/ (v = cur s /\ settled s (kq l))).
    { destruct (N.eq_dec v (cur s)) as [E | E]; [right | left; lia].
      split; [exact E|]. exists m. rewrite loc_kq. auto. }
    destruct (Hobs v (kq l) (gk_kq l) Hcase) as (Etr & EE & Eclos).
    (* every query of the closure keeps its trace, value and closure *)
    assert (Hcl : forall d, clos (W Hs s v) (kq l) d ->
              gk d /\ trr Hs s' v d = trr Hs s v d /\ Er Hs s' v d = Er Hs s v d).
    { intros d Hd. pose proof (clos_gk prog idhash NF Hgk _ _ _ (gk_kq l) Hd) as Hgd.
      split; [exact Hgd|].
      assert (Hc' : v < cur s \/ (v = cur s /\ settled s d)).
      { destruct Hcase as [A | [A B]]; [left; exact A | right]. split; [exact A|].
        rewrite A in Hd. rewrite W_cur in Hd.
        exact (proj1 (settled_clos prog skind idhash NF Hgk Hs s F (kq l) I (gk_kq l) B d Hd)). }
      destruct (Hobs v d Hgd Hc') as (A & B & _). auto. }
    (* the value of a query at the revision its memo was verified *)
    assert (Hver : forall d md, gk d -> d_memo s (loc_of d) = Some md ->
              Er Hs s' (m_verified md) d = Er Hs s (m_verified md) d).
    { intros d md Hgd Hmd.
      pose proof (mo_order _ _ _ _ _ _ _ _ (memo_ok_of prog skind idhash NF Hs s F d md I Hgd Hmd)) as (_ & _ & Hle).
      assert (Hc' : m_verified md < cur s \/ (m_verified md = cur s /\ settled s d)).
      { destruct (N.eq_dec (m_verified md) (cur s)) as [E | E]; [right | left; lia]. split; [exact E|]. exists md. auto. }
      exact (proj1 (proj2 (Hobs _ d Hgd Hc'))). }
    assert (Hnact : ~ active_loc F' l -> ~ active_loc F l) by (intros A B; apply A; apply Hact; exact B).
    (* allocation and slot reading at v *)
    assert (Halloc : forall d id, w_alloc (W Hs s' v) d id = w_alloc (W Hs s v) d id).
    { intros d id. destruct Hcase as [A | [A _]].
      - rewrite (W_same_cur Hs s s' v Hcur A). reflexivity.
      - rewrite A. rewrite <- Hcur at 1. rewrite !W_cur. cbn [wcur w_alloc]. rewrite Hmemo. reflexivity. }
    destruct Hok as [k1 k2 k3 k4 k5 k6 k7 k8 k9 k9b k10 k11 k12 k13].
    fold v in k2, k5, k6, k7, k8, k9b, k10, k11, k12, k13.
    constructor; fold v.
    + rewrite Hcur. auto.
    + rewrite k2. f_equal. symmetry. exact EE.
    + exact k3.
    + exact k4.
    + destruct k5 as [k5a k5b]. split; [exact k5a|]. intros id h. rewrite Etr, Halloc. apply k5b.
    + intros i. rewrite Etr. apply k6.
    + intros d. rewrite Etr. apply k7.
    + intros h f. rewrite Etr. apply k8.
    + exact k9.
    + rewrite Etr. exact k9b.
    + intros x. rewrite Etr. apply k10.
    + (* own structs *)
      rewrite loc_kq. intros Hna id h Hin. rewrite loc_kq in k11.
      destruct (k11 (Hnact Hna) id h Hin) as (sl & Hl & Hf & Hd & A0 & A1 & Hcs).
      destruct (Hkeep l m id h Hm (Hnact Hna) Hin) as [Hnp Hk].
      destruct (wslot_keeps s s' h sl Hl Hk) as (Ew' & sl' & Hl' & Hf' & B0 & B1 & Bd).
      exists sl'. split; [exact Hl'|]. split.
      { rewrite Hf', Hf. destruct Hcase as [A | [A _]].
        - rewrite (W_same_cur Hs s s' v Hcur A). reflexivity.
        - rewrite A. rewrite <- Hcur at 2. rewrite !W_cur. symmetry. exact Ew'. }
      split; [congruence|]. split; [congruence|]. split; [congruence|].
      rewrite Etr, B1. destruct Hcs as [A | (pre & idv & f0 & f1 & post & x & Et & Hx & Hs0)]; [left; exact A | right].
      exists pre, idv, f0, f1, post, x. split; [exact Et|]. split; [exact Hx | exact (Hsle _ _ Hs0)].
    + (* observers *)
      intros d Hd'. apply Eclos in Hd'. destruct (Hcl d Hd') as (Hgd & Etd & EEd).
      destruct (k12 d Hd') as [a1 a2 a3 a4 a5].
      constructor.
      * destruct a1 as (md & Hmd & Hle & Hobs1). exists md. split; [rewrite Hmemo; exact Hmd|]. split; [exact Hle|].
        intros Hc. rewrite EEd, (Hver d md Hgd Hmd). exact (Hobs1 Hc).
      * intros h f sl' Hin Hl' Hrev. rewrite Etd in Hin.
        destruct Hcase as [A | [A B]].
        -- rewrite (W_same_cur Hs s s' v Hcur A).
           destruct (Pdec h) as [Hp | Hnp]; [exact (Ofld l m d h f sl' Hm A Hd' Hin Hp Hl' Hrev)|].
           destruct (Hback h sl' Hnp Hl') as (sl & Hl & Hq).
           rewrite (seqv_fldv _ _ f Hq). apply (a2 h f sl Hin Hl). rewrite <- (seqv_revf _ _ f Hq). exact Hrev.
        -- rewrite A. rewrite <- Hcur. rewrite W_cur. cbn [wcur w_slot].
           destruct Hl' as (Hs' & _ & _). rewrite Hs'. apply fld3_slot.
      * intros h sl' Hin Hl'. rewrite Etd in Hin.
        destruct Hcase as [A | [A B]].
        -- rewrite (W_same_cur Hs s s' v Hcur A).
           destruct (Pdec h) as [Hp | Hnp]; [exact (Oidf l m d h sl' Hm A Hd' Hin Hp Hl')|].
           destruct (Hback h sl' Hnp Hl') as (sl & Hl & Hq).
           rewrite (seqv_idv _ _ Hq). exact (a3 h sl Hin Hl).
        -- rewrite A. rewrite <- Hcur. rewrite W_cur. cbn [wcur w_slot].
           destruct Hl' as (Hs' & _ & _). rewrite Hs'. reflexivity.
      * intros id idv f0 f1 Hin. rewrite Etd in Hin. rewrite Halloc.
        destruct (a4 id idv f0 f1 Hin) as [A1 A2]. split; [|exact (x_issued _ _ X _ A2)].
        destruct Hcase as [A | [A B]].
        -- rewrite (W_same_cur Hs s s' v Hcur A). exact A1.
        -- (* at the current revision: the struct is listed by a settled memo, hence kept *)
           rewrite A in *. rewrite W_cur in *.
           assert (Hsd : settled s d).
           { exact (proj1 (settled_clos prog skind idhash NF Hgk Hs s F (kq l) I (gk_kq l) B d Hd')). }
           destruct (created_listed prog skind idhash NF Hs s F d (w_alloc (wcur s) d id) I Hgd Hsd) as (md & id' & Hmd & Hvd & Hlist).
           { exists id, idv, f0, f1. split; [rewrite <- (trr_cur prog idhash NF Hs); exact Hin | reflexivity]. }
           pose proof (memo_ok_of prog skind idhash NF Hs s F d md I Hgd Hmd) as Hokd.
           pose proof (settled_not_active prog skind idhash NF Hs s F d I Hsd) as Hnad.
           destruct (mo_own _ _ _ _ _ _ _ _ Hokd Hnad id' _ Hlist) as (sl & Hl & _).
           destruct (Hkeep _ md id' _ Hmd Hnad Hlist) as [_ Hk].
           rewrite <- Hcur. rewrite W_cur.
           rewrite (proj1 (wslot_keeps s s' _ sl Hl Hk)). exact A1.
      * intros id idv f0 f1 sl' Hin Hl'. rewrite Etd in Hin. rewrite Halloc in *.
        destruct Hcase as [A | [A B]].
        -- destruct (Pdec (w_alloc (W Hs s v) d id)) as [Hp | Hnp]; [exact (Oown l m d id idv f0 f1 sl' Hm A Hd' Hin Hp Hl')|].
           destruct (Hback _ sl' Hnp Hl') as (sl & Hl & Hq).
           exact (Hown d id _ sl' Hgd Hnp Hl' (a5 id idv f0 f1 sl Hin Hl)).
        -- rewrite A in *. rewrite W_cur in *.
           assert (Hsd : settled s d).
           { exact (proj1 (settled_clos prog skind idhash NF Hgk Hs s F (kq l) I (gk_kq l) B d Hd')). }
           destruct Hsd as (md & Hmd & Hvd).
           pose proof (memo_ok_of prog skind idhash NF Hs s F d md I Hgd Hmd) as Hokd.
           left. split.
           { exact (Hact2 d (ex_intro _ md (conj Hmd Hvd))). }
           exists md. split; [rewrite Hmemo; exact Hmd|].
           apply (proj2 (mo_structs _ _ _ _ _ _ _ _ Hokd)). rewrite Hvd. rewrite W_cur. unfold SInv.trr. rewrite W_cur.
           split; [|reflexivity]. apply in_news_ids.
           rewrite (trr_cur prog idhash NF Hs) in Hin. eauto.
    + intros Hv d Hin. rewrite Hcur in Hv, Hin.
      assert (Etc : trr Hs s' (cur s) (kq l) = trr Hs s (cur s) (kq l)) by (rewrite <- Hv; exact Etr).
      rewrite Etc in Hin. destruct (k13 Hv d Hin) as (md & Hmd & Hvd).
      exists md. split; [rewrite Hmemo; exact Hmd | rewrite Hcur; exact Hvd].
  - exact Hlock.
  - intros q fr' Hin. destruct (HF' q fr' Hin) as [Hg Hlt]. split; [exact Hg|].
    intros m Hm. rewrite Hmemo in Hm. rewrite Hcur. exact (Hlt m Hm).
Qed.

End Slots.

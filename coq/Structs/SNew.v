(* Structs/SNew.v — what a successful TS::new does to the state and to the identity map, when
   no struct-keyed function exists (the deletion cascade of the identity-changed path is empty),
   no generation is at its maximum, and the slot of the matched entry is not read-locked in the
   current revision. *)
From Salsa Require Import Base.
From Salsa.Kern Require Import CoreK CoreKFacts.
From Salsa.Structs Require Import Model ProofsBase ProofsCascade Machine ProofsInv ProofsStep Theorems SSem.

Section SNew.
Variable skind : N -> bool.
Variable idhash : val -> N.

(* everything a creation leaves alone *)
Record ns_frame (s s' : db) : Prop := {
  nf_revs : d_revs s' = d_revs s;
  nf_cc : d_ccount s' = d_ccount s;
  nf_in : d_in s' = d_in s;
  nf_cell : d_cell s' = d_cell s;
  nf_memo : d_memo s' = d_memo s;
  nf_stack : d_stack s' = d_stack s
}.

Definition stamp_frame (fr fr' : frame) (hash : N) : Prop :=
  fr_dur fr' = fr_dur fr /\ fr_changed fr' = fr_changed fr /\ fr_edges fr' = fr_edges fr /\
  fr_untracked fr' = fr_untracked fr /\ fr_disamb fr' = cnt_bump (fr_disamb fr) hash.

Inductive ns_case (idv f0 f1 : val) (fr : frame) (s s' : db) (h : handle) (fr' : frame) (slnew : slot) : Prop :=
| NS_same l1 e l2 sl :
    fr_ids fr = l1 ++ e :: l2 -> key_eqb (te_ident e) (nident idhash (fr_disamb fr) idv) = true ->
    nomatch (nident idhash (fr_disamb fr) idv) l1 ->
    h = te_id e -> fr_ids fr' = l1 ++ act e :: l2 ->
    d_slots s (fst h) = Some sl -> sl_updated sl <> None -> sl_updated sl <> Some (cur s) -> sl_idv sl = idv ->
    slnew = upd_slot sl (sl_gen sl) (fr_dur fr, fr_changed fr) (cur s) idv f0 f1 true ->
    d_free s' = d_free s -> d_nslots s' = d_nslots s ->
    ns_case idv f0 f1 fr s s' h fr' slnew
| NS_changed l1 e l2 sl :
    fr_ids fr = l1 ++ e :: l2 -> key_eqb (te_ident e) (nident idhash (fr_disamb fr) idv) = true ->
    nomatch (nident idhash (fr_disamb fr) idv) l1 ->
    h = (fst (te_id e), snd (te_id e) + 1) ->
    fr_ids fr' = l1 ++ mk_entry (nident idhash (fr_disamb fr) idv) h true :: l2 ->
    d_slots s (fst h) = Some sl -> sl_updated sl <> None -> sl_updated sl <> Some (cur s) -> sl_idv sl <> idv ->
    slnew = upd_slot sl (snd h) (fr_dur fr, fr_changed fr) (cur s) idv f0 f1 false ->
    d_free s' = d_free s -> d_nslots s' = d_nslots s ->
    ns_case idv f0 f1 fr s s' h fr' slnew
| NS_fresh :
    nomatch (nident idhash (fr_disamb fr) idv) (fr_ids fr) ->
    fr_ids fr' = fr_ids fr ++ [mk_entry (nident idhash (fr_disamb fr) idv) h true] ->
    slnew = fresh_slot (snd h) (fr_dur fr, fr_changed fr) (cur s) idv f0 f1 ->
    ((exists sk g, d_free s = sk ++ (fst h, g) :: d_free s' /\ next_gen g = Some (snd h) /\ d_nslots s' = d_nslots s) \/
     (h = (d_nslots s, 0) /\ d_nslots s' = d_nslots s + 1 /\ d_free s' = [])) ->
    ns_case idv f0 f1 fr s s' h fr' slnew.

Lemma casc_nil_parents s s' e : casc s s' e -> parents [] s [] e -> e = [].
Proof.
  intros _ P. destruct e as [|c e]; [reflexivity|]. exfalso.
  destruct (P c (or_introl eq_refl)) as [[] | (p & _ & slp & fam & m & _ & [] & _)].
Qed.

Theorem new_struct_effect n q idv f0 f1 fr s s' h fr' :
  new_struct skind [] idhash n q idv f0 f1 fr s = (s', SOk (h, fr')) ->
  (forall e sl, In e (fr_ids fr) -> key_eqb (te_ident e) (nident idhash (fr_disamb fr) idv) = true ->
     d_slots s (fst (te_id e)) = Some sl ->
     sl_updated sl <> Some (cur s) /\ next_gen (snd (te_id e)) <> None) ->
  exists slnew,
    (forall j, d_slots s' j = updN (d_slots s) (fst h) (Some slnew) j) /\
    ns_frame s s' /\
    d_ideal s' = (h, (idv, f0, f1)) :: d_ideal s /\
    stamp_frame fr fr' (idhash idv) /\
    ns_case idv f0 f1 fr s s' h fr' slnew.
Proof.
  intros H Hpre. unfold new_struct, disambiguate in H.
  set (identity := (idhash idv, cnt_get (fr_disamb fr) (idhash idv))) in *.
  change (nident idhash (fr_disamb fr) idv) with identity in *.
  set (fr1 := set_fr_disamb fr (cnt_bump (fr_disamb fr) (idhash idv)) (cnt_bump (fr_occ fr) idv)) in *.
  change (fr_ids fr1) with (fr_ids fr) in H.
  destruct (reuse (fr_ids fr) identity) as [found ids1] eqn:Er.
  set (st := (fr_dur fr, fr_changed fr)) in *.
  apply bind_ok in H. destruct H as (r & t0 & H0 & H).
  apply bind_ok in H. destruct H as (slg & t1 & H1 & H). apply get_slot_ok in H1. destruct H1 as [-> Hslg].
  apply bind_ok in H. destruct H as (u2 & t2 & H2 & H). apply modify_ok in H2. subst t2.
  apply ret_ok in H. destruct H as [Es' Eret]. subst s' r. cbn [fst snd] in *.
  (* the allocation path *)
  assert (Halloc : forall ids2, allocate st idv f0 f1 s = (t0, SOk h) ->
            fr' = set_fr_ids (set_fr_ids fr1 ids1) (insert_entry ids2 identity h true) ->
            nomatch identity ids2 -> ids2 = fr_ids fr ->
            exists slnew,
              (forall j, d_slots (set_ideal (set_cname t0 ((h, CN (fst q) (ckey_of skind t0 q) idv (cnt_get (fr_occ fr) idv))
                                 :: filter (fun kv => negb (handle_eqb (fst kv) h)) (d_cname t0)))
                                 ((h, (sl_idv slg, sl_f0 slg, sl_f1 slg)) :: d_ideal t0)) j
                         = updN (d_slots s) (fst h) (Some slnew) j) /\
              slg = slnew /\ d_revs t0 = d_revs s /\ d_memo t0 = d_memo s /\ d_ideal t0 = d_ideal s /\
              slnew = fresh_slot (snd h) st (cur s) idv f0 f1 /\
              fr_ids fr' = fr_ids fr ++ [mk_entry identity h true] /\
              ((exists sk g, d_free s = sk ++ (fst h, g) :: d_free t0 /\ next_gen g = Some (snd h) /\ d_nslots t0 = d_nslots s) \/
               (h = (d_nslots s, 0) /\ d_nslots t0 = d_nslots s + 1 /\ d_free t0 = []))).
  { intros ids2 Ha -> Hnm ->.
    destruct (allocate_spec _ _ _ _ _ _ _ Ha) as (Hsl & Hr & Hm & Hi & Hc & Hfree).
    exists (fresh_slot (snd h) st (cur s) idv f0 f1). split; [intros j; cbn; apply Hsl|].
    split; [rewrite Hsl, updN_same in Hslg; injection Hslg as <-; reflexivity|].
    repeat (split; [assumption|]). split; [reflexivity|]. split; [|exact Hfree].
    cbn [set_fr_ids fr_ids]. destruct (insert_spec identity h true (fr_ids fr)) as [(_ & ->) | (l1 & e & l2 & E & Hm0 & _)];
      [reflexivity|].
    exfalso. specialize (Hnm e). rewrite E in Hnm. rewrite Hnm in Hm0; [discriminate|].
    apply in_or_app. right. left. reflexivity. }
  destruct (reuse_spec _ _ _ _ Er) as [(-> & -> & Hnm) | (l1 & e & l2 & Eids & Hmatch & Hnm1 & -> & ->)].
  - (* no entry with this identity *)
    apply bind_ok in H0. destruct H0 as (id' & t3 & H3 & H0). apply ret_ok in H0. destruct H0 as [-> E].
    injection E as Eh Efr. subst id'.
    destruct (Halloc (fr_ids fr) H3 Efr Hnm eq_refl) as (slnew & Hsl & -> & Hr & Hm & Hi & Esl & Eids & Hfree).
    exists slnew. split; [exact Hsl|].
    assert (Hfr : ns_frame s t3).
    { unfold allocate in H3. apply bind_ok in H3. destruct H3 as (x & tt0 & Hg & H3). apply get_ok in Hg. destruct Hg as [-> ->].
      destruct (pop_free (d_free s)) as [[h0 fl']|].
      - apply bind_ok in H3. destruct H3 as (u1 & tt1 & Hm1 & H3). apply modify_ok in Hm1. subst tt1.
        apply bind_ok in H3. destruct H3 as (u3 & tt2 & Hp & H3). apply put_slot_ok in Hp. subst tt2.
        apply ret_ok in H3. destruct H3 as [-> _]. constructor; reflexivity.
      - apply bind_ok in H3. destruct H3 as (u1 & tt1 & Hm1 & H3). apply modify_ok in Hm1. subst tt1.
        apply bind_ok in H3. destruct H3 as (u3 & tt2 & Hp & H3). apply put_slot_ok in Hp. subst tt2.
        apply ret_ok in H3. destruct H3 as [-> _]. constructor; reflexivity. }
    split; [destruct Hfr; constructor; cbn; assumption|].
    split; [cbn; rewrite Hi, Esl; reflexivity|].
    split; [unfold stamp_frame; rewrite Efr; cbn; auto|].
    apply NS_fresh; [exact Hnm | exact Eids | exact Esl |].
    cbn [set_ideal set_cname d_free d_nslots]. exact Hfree.
  - (* an entry with this identity *)
    assert (Hine : In e (fr_ids fr)) by (rewrite Eids; apply in_or_app; right; left; reflexivity).
    apply bind_ok in H0. destruct H0 as (u & t3 & H3 & H0).
    destruct (update_spec [] n (te_id e) st idv f0 f1 s t3 u H3) as (sl & Hs & Hu & UR).
    destruct (Hpre e sl Hine Hmatch Hs) as [Hnolock Hng].
    destruct UR as [Hl | Hnl Hleak | s1 Hnl Hidv Hng' B Hsl | s1 g' e0 s2 Hnl Hidv Hng' C Hni P B Hsl].
    + contradiction.
    + contradiction.
    + (* in place *)
      rewrite handle_eqb_refl in H0. apply ret_ok in H0. destruct H0 as [-> E]. injection E as Eh Efr. subst h fr'.
      exists (upd_slot sl (sl_gen sl) st (cur s) idv f0 f1 true).
      split; [intros j; cbn; apply Hsl|].
      split; [destruct B; constructor; cbn; assumption|].
      split.
      { cbn. rewrite Hsl, updN_same in Hslg. injection Hslg as <-. rewrite (sb_ideal _ _ B). reflexivity. }
      split; [unfold stamp_frame; cbn; auto|].
      eapply (NS_same idv f0 f1 fr s _ _ _ _ l1 e l2 sl);
        [exact Eids | exact Hmatch | exact Hnm1 | reflexivity | reflexivity | exact Hs | exact Hu | exact Hnl
        | exact Hidv | reflexivity | cbn; exact (sb_free _ _ B) | cbn; exact (sb_nslots _ _ B)].
    + (* identity changed: a new generation in the same slot *)
      pose proof (next_gen_some _ _ Hng') as Eg'.
      assert (Hneq : handle_eqb (fst (te_id e), g') (te_id e) = false).
      { apply handle_eqb_neq. intros E. apply (f_equal snd) in E. cbn in E. lia. }
      rewrite Hneq in H0. apply ret_ok in H0. destruct H0 as [-> E]. injection E as Eh Efr. subst h fr'.
      assert (He0 : e0 = []) by (exact (casc_nil_parents _ _ _ C P)). subst e0.
      pose proof (casc_sbs _ _ C) as B1.
      assert (Hs2 : forall j, d_slots s2 j = updN (d_slots s) (fst (te_id e))
                 (Some {| sl_gen := sl_gen sl; sl_updated := None; sl_dur := sl_dur sl; sl_idv := idv; sl_f0 := f0;
                          sl_f1 := f1; sl_rev0 := if sl_f0 sl =? f0 then sl_rev0 sl else snd st; sl_rev1 := snd st;
                          sl_memos := sl_memos sl |}) j).
      { intros j. rewrite (cs_other _ _ _ C j); [reflexivity | intros []]. }
      exists (upd_slot sl g' st (cur s) idv f0 f1 false).
      assert (Hfin : forall j, d_slots s1 j = updN (d_slots s) (fst (te_id e)) (Some (upd_slot sl g' st (cur s) idv f0 f1 false)) j).
      { intros j. rewrite Hsl. unfold updN. destruct (fst (te_id e) =? j) eqn:Ej; [reflexivity|].
        rewrite Hs2. unfold updN. rewrite Ej. reflexivity. }
      split; [intros j; cbn; apply Hfin|].
      split.
      { pose proof (sbs_trans _ _ _ B1 B) as BB. destruct BB; constructor; cbn; assumption. }
      split.
      { cbn [fst snd] in Hslg. rewrite Hfin, updN_same in Hslg. injection Hslg as <-. cbn.
        rewrite (sb_ideal _ _ B), (sb_ideal _ _ B1). reflexivity. }
      split; [unfold stamp_frame; cbn; auto|].
      eapply (NS_changed idv f0 f1 fr s _ _ _ _ l1 e l2 sl); [exact Eids | exact Hmatch | exact Hnm1 | | | | | | | | |].
      * rewrite Eg'. reflexivity.
      * cbn [set_fr_ids fr_ids].
        destruct (insert_spec identity (fst (te_id e), g') true (l1 ++ act e :: l2)) as [(Hn & _) | (l1' & e' & l2' & E & Hm' & Hn' & ->)].
        -- exfalso. specialize (Hn (act e)). cbn [act te_ident] in Hn. rewrite Hn in Hmatch; [discriminate|].
           apply in_or_app. right. left. reflexivity.
        -- destruct (nomatch_split identity l1 (act e) l2 l1' e' l2' E Hmatch Hnm1 Hm' Hn') as (<- & _ & <-).
           reflexivity.
      * exact Hs.
      * exact Hu.
      * exact Hnl.
      * exact Hidv.
      * reflexivity.
      * cbn. rewrite (sb_free _ _ B), (sb_free _ _ B1). reflexivity.
      * cbn. rewrite (sb_nslots _ _ B), (sb_nslots _ _ B1). reflexivity.
Qed.

End SNew.

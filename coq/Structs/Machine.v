(* Structs/Machine.v — the Structs LAYER as a transition system, for stating C06/C07 over
   all histories.  Definitions only.

   A machine state is a database plus the frames of the executions in progress.  The events
   are exactly the ways the executable model (Structs/Model.v) touches tracked structs; each
   event runs the SAME Gallina function the executable model runs (new_struct, finish_exec,
   specify, acquire_read_lock, store_memo), so the theorems are about the transcribed code.
   Histories are arbitrary event lists: any interleaving of any number of executions, any
   identity values / field values / stamps, any identity-hash function (collisions included),
   any revision changes between executions.  A step that panics or runs out of cascade fuel is
   not a step ([mstep] = None): the theorems speak about panic-free histories (executions that
   unwind are outside: see checks/notes/C07.txt). *)
From Salsa Require Import Base.
From Salsa.Kern Require Import CoreK.
From Salsa.Structs Require Import Model.

Definition loc := (N * N)%type.                 (* where a memo lives: (family, input index | slot index) *)
Definition loc_of (q : qk) : loc := (fst q, fst (snd q)).
Definition frames := list (qk * frame).

Definition frame_ids (fr : frame) : list handle := map te_id (fr_ids fr).
Definition mids (m : memo) : list handle := map snd (m_structs m).

Fixpoint ideal_get (l : list (handle * (val * val * val))) (h : handle) : option (val * val * val) :=
  match l with
  | [] => None
  | (h', x) :: l' => if handle_eqb h' h then Some x else ideal_get l' h
  end.

Definition slot_fields (sl : slot) : val * val * val := (sl_idv sl, sl_f0 sl, sl_f1 sl).

Section Machine.
Variable skind : N -> bool.
Variable sfams : list N.
Variable idhash : val -> N.
Variable n : nat.                               (* fuel of deletion cascades *)

(* the memo stored at a location; memo tables of deleted slots are not memo tables *)
Definition peek_memo (s : db) (l : loc) : option memo :=
  if skind (fst l) then
    match d_slots s (snd l) with
    | Some sl => match sl_updated sl with Some _ => sl_memos sl (fst l) | None => None end
    | None => None
    end
  else d_memo s l.

(* who can hold tracked-struct ids: a running execution (its IdentityMap) or a stored memo
   (tracked_struct_ids) of a query that is not running *)
Inductive owner := OwF (q : qk) | OwM (l : loc).

Definition active_loc (F : frames) (l : loc) : Prop := exists q fr, In (q, fr) F /\ loc_of q = l.

Definition owner_ids (s : db) (F : frames) (o : owner) (ids : list handle) : Prop :=
  match o with
  | OwF q => exists fr, In (q, fr) F /\ ids = frame_ids fr
  | OwM l => ~ active_loc F l /\ exists m, peek_memo s l = Some m /\ ids = mids m
  end.

Definition owns (s : db) (F : frames) (o : owner) (h : handle) : Prop :=
  exists ids, owner_ids s F o ids /\ In h ids.

(* h is the CURRENT id of a live slot *)
Definition live (s : db) (h : handle) : Prop :=
  exists sl, d_slots s (fst h) = Some sl /\ sl_updated sl <> None /\ sl_gen sl = snd h.

Record OInv (s : db) (F : frames) : Prop := {
  oi_alloc : forall i, d_slots s i = None <-> d_nslots s <= i;
  oi_free_nodup : NoDup (map fst (d_free s));
  oi_free : forall i g, In (i, g) (d_free s) ->
      exists sl, d_slots s i = Some sl /\ sl_updated sl = None /\ sl_gen sl = g;
  oi_dead : forall i sl, d_slots s i = Some sl -> sl_updated sl = None -> forall fam, sl_memos sl fam = None;
  oi_live : forall o h, owns s F o h -> live s h;
  oi_uniq : forall o1 o2 h1 h2, owns s F o1 h1 -> owns s F o2 h2 -> fst h1 = fst h2 -> o1 = o2;
  oi_nodup : forall o ids, owner_ids s F o ids -> NoDup (map fst ids);
  oi_issued : forall i g x, In ((i, g), x) (d_ideal s) ->
      exists sl, d_slots s i = Some sl /\ g <= sl_gen sl;
  oi_locked : forall q fr, In (q, fr) F -> skind (fst q) = true ->
      exists sl, d_slots s (fst (snd q)) = Some sl /\ sl_updated sl = Some (cur s);
  oi_frames : NoDup (map (fun qf => loc_of (fst qf)) F);
  oi_ideal : forall i sl, d_slots s i = Some sl -> sl_updated sl <> None ->
      ideal_get (d_ideal s) (i, sl_gen sl) = Some (slot_fields sl)
}.

(* ---- events ---- *)
Inductive mev :=
| MBegin (q : qk)                               (* execute q: the frame is seeded from q's stored memo *)
| MStamp (q : qk) (d : dur) (c : rev)           (* q read something: its (durability, changed_at) stamp moves *)
| MNew (q : qk) (idv f0 f1 : val)               (* q runs TS::new(idv, f0, f1) *)
| MEnd (q : qk) (v : rval)                      (* q completes with value v: drain, discard stale, store memo *)
| MSpecify (q : qk) (fam : N) (h : handle) (v : rval)   (* q runs fam::specify(h, v) *)
| MLock (i : N)                                 (* a field read / memo-table access through slot i *)
| MTouch (q : qk) (m : memo)                    (* header update of the memo of a query that is not running; keeps its struct ids *)
| MRev.                                         (* a new revision starts (no execution in progress) *)

Fixpoint find_frame (F : frames) (q : qk) : option frame :=
  match F with
  | [] => None
  | (q', fr) :: F' => if qk_eqb q' q then Some fr else find_frame F' q
  end.

Fixpoint set_frame (F : frames) (q : qk) (fr : frame) : frames :=
  match F with
  | [] => []
  | (q', fr') :: F' => if qk_eqb q' q then (q', fr) :: F' else (q', fr') :: set_frame F' q fr
  end.

Fixpoint del_frame (F : frames) (q : qk) : frames :=
  match F with
  | [] => []
  | (q', fr') :: F' => if qk_eqb q' q then F' else (q', fr') :: del_frame F' q
  end.

Definition loc_eqb (a b : loc) : bool := key_eqb a b.

Definition active_locb (F : frames) (l : loc) : bool :=
  existsb (fun qf => loc_eqb (loc_of (fst qf)) l) F.

Definition ms := (db * frames)%type.

Definition mstep (st : ms) (e : mev) : option ms :=
  let '(s, F) := st in
  match e with
  | MBegin q =>
      if active_locb F (loc_of q) then None
      else
        match (if skind (fst q) then acquire_read_lock (fst (snd q)) ;;; ret tt else ret tt) s with
        | (s1, SOk _) => Some (s1, (q, seed_frame (peek_memo s1 (loc_of q))) :: F)
        | _ => None
        end
  | MStamp q d c =>
      match find_frame F q with
      | Some fr => Some (s, set_frame F q (set_fr_stamp fr d c (fr_edges fr) (fr_untracked fr)))
      | None => None
      end
  | MNew q idv f0 f1 =>
      match find_frame F q with
      | Some fr =>
          match new_struct skind sfams idhash n q idv f0 f1 fr s with
          | (s1, SOk (_, fr1)) => Some (s1, set_frame F q fr1)
          | _ => None
          end
      | None => None
      end
  | MEnd q v =>
      match find_frame F q with
      | Some fr =>
          match finish_exec skind sfams n q (peek_memo s (loc_of q)) v fr s with
          | (s1, SOk _) => Some (s1, del_frame F q)
          | _ => None
          end
      | None => None
      end
  | MSpecify q fam h v =>
      match find_frame F q with
      | Some fr =>
          if active_locb F (loc_of (fam, h)) || negb (skind fam) then None
          else
            match specify skind sfams n q fam h v fr s with
            | (s1, SOk fr1) => Some (s1, set_frame F q fr1)
            | _ => None
            end
      | None => None
      end
  | MLock i =>
      match acquire_read_lock i s with
      | (s1, SOk _) => Some (s1, F)
      | _ => None
      end
  | MTouch q m =>
      match peek_memo s (loc_of q) with
      | Some old =>
          if active_locb F (loc_of q) then None
          else if hlist_eqb (mids m) (mids old) then
            match store_memo skind q m s with
            | (s1, SOk _) => Some (s1, F)
            | _ => None
            end
          else None
      | None => None
      end
  | MRev =>
      match F with
      | [] => Some (new_revision s, [])
      | _ => None
      end
  end.

Fixpoint mrun (st : ms) (es : list mev) : option ms :=
  match es with
  | [] => Some st
  | e :: es' => match mstep st e with Some st' => mrun st' es' | None => None end
  end.

End Machine.

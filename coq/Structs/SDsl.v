(* Structs/SDsl.v — the programs of the harness DSL (Structs/Dsl.v) that use neither `specify` nor
   struct-keyed functions satisfy the hypotheses of the from-scratch theorem: no `specify` node,
   call keys of generation 0, no forged handle (under every read environment), and — by finite
   checks on the node table — acyclicity and "every called body starts with a read". *)
From Coq Require Import Arith.
From Salsa Require Import Base.
From Salsa.Kern Require Import CoreK.
From Salsa.Structs Require Import Model Dsl ProofsBase SSem SInv SRun SimExamples.

Fixpoint s1wf (e : expr) : bool :=
  match e with
  | ELit _ | EInp _ _ | ECell _ | ETouch | EField _ _ | EIdField _ | ERetH _ => true
  | ECall _ k => s1wf k
  | EOp _ a b => s1wf a && s1wf b
  | EIf c a b => s1wf c && s1wf a && s1wf b
  | ELet _ h bd els => hs1wf h && s1wf bd && s1wf els
  | ECallS _ _ | ESpecify _ _ _ => false
  end
with hs1wf (h : hexpr) : bool :=
  match h with
  | HNew a b c => s1wf a && s1wf b && s1wf c
  | HNth _ k _ => s1wf k
  | HNthS _ _ _ => false
  | HSelf | HVar _ => true
  end.

(* the families an expression may call *)
Fixpoint efams (e : expr) : list N :=
  match e with
  | ELit _ | EInp _ _ | ECell _ | ETouch | EField _ _ | EIdField _ | ERetH _ | ECallS _ _ => []
  | ECall fam k => fam :: efams k
  | EOp _ a b => efams a ++ efams b
  | EIf c a b => efams c ++ efams a ++ efams b
  | ELet _ h bd els => hfams h ++ efams bd ++ efams els
  | ESpecify _ _ v => efams v
  end
with hfams (h : hexpr) : list N :=
  match h with
  | HNew a b c => efams a ++ efams b ++ efams c
  | HNth fam k _ => fam :: efams k
  | HNthS _ _ _ | HSelf | HVar _ => []
  end.

Section Comp.
Variable idhash : val -> N.
Variable nk : N.

Definition envok (env : list (N * handle)) (K : list handle) : Prop :=
  forall x h, env_get env x = Some h -> In h K.

Lemma envok_incl env K K' : envok env K -> incl K K' -> envok env K'.
Proof. intros H Hi x h E. exact (Hi h (H x h E)). Qed.

Lemma envok_cons env K x h : envok env K -> In h K -> envok ((x, h) :: env) K.
Proof. intros H Hh y h0. cbn [env_get]. destruct (x =? y); [intros E; injection E as <-; exact Hh | apply H]. Qed.

(* ---- no specify ---- *)
Lemma comp_nospec_both :
  (forall e, s1wf e = true -> forall env acc k, (forall v a, nospec (k v a)) -> nospec (comp nk None e env acc k)) /\
  (forall h, hs1wf h = true -> forall env acc k, (forall oh a, nospec (k oh a)) -> nospec (comph nk None h env acc k)).
Proof.
  apply expr_hexpr_ind; cbn [s1wf hs1wf comp comph].
  - intros v _ env acc k Hk. apply Hk.
  - intros i f _ env acc k Hk. constructor. intros v. apply Hk.
  - intros fam ke IH H env acc k Hk. apply IH; [exact H|]. intros v a. constructor. intros r. apply Hk.
  - intros c _ env acc k Hk. constructor. intros v. apply Hk.
  - intros _ env acc k Hk. constructor. apply Hk.
  - intros o a IHa b IHb H env acc k Hk. apply andb_true_iff in H. destruct H as [Ha Hb].
    apply IHa; [exact Ha|]. intros va a1. apply IHb; [exact Hb|]. intros vb a2. apply Hk.
  - intros c IHc a IHa b IHb H env acc k Hk. apply andb_true_iff in H. destruct H as [H Hb].
    apply andb_true_iff in H. destruct H as [Hc Ha].
    apply IHc; [exact Hc|]. intros vc a1. destruct (vc =? 0); [apply IHb | apply IHa]; auto.
  - intros x h IHh bd IHbd els IHels H env acc k Hk. apply andb_true_iff in H. destruct H as [H He].
    apply andb_true_iff in H. destruct H as [Hh Hb].
    apply IHh; [exact Hh|]. intros [hd|] a1; [apply IHbd | apply IHels]; auto.
  - intros x f _ env acc k Hk. destruct (env_get env x); [constructor; intros v|]; apply Hk.
  - intros x _ env acc k Hk. destruct (env_get env x); [constructor; intros v|]; apply Hk.
  - intros fam x H. discriminate.
  - intros fam x v IHv H. discriminate.
  - intros x _ env acc k Hk. destruct (env_get env x); apply Hk.
  - intros a IHa b IHb c IHc H env acc k Hk. apply andb_true_iff in H. destruct H as [H Hc].
    apply andb_true_iff in H. destruct H as [Ha Hb].
    apply IHa; [exact Ha|]. intros va a1. apply IHb; [exact Hb|]. intros vb a2. apply IHc; [exact Hc|].
    intros vc a3. constructor. intros hd. apply Hk.
  - intros fam ke IH i H env acc k Hk. apply IH; [exact H|]. intros kv a1. constructor. intros r. apply Hk.
  - intros fam x i H. discriminate.
  - intros _ env acc k Hk. apply Hk.
  - intros x _ env acc k Hk. apply Hk.
Qed.

(* ---- the calls of a compiled expression ---- *)
Definition called (fams : list N) (d : qk) : Prop := exists fam x, In fam fams /\ d = (fam, (x mod nk, 0)).

Lemma called_incl fams fams' d : incl fams fams' -> called fams d -> called fams' d.
Proof. intros Hi (fam & x & Hin & E). exists fam, x. auto. Qed.

Lemma comp_calls_both :
  (forall e, s1wf e = true -> forall env acc k d, calls (comp nk None e env acc k) d ->
             called (efams e) d \/ exists v a, calls (k v a) d) /\
  (forall h, hs1wf h = true -> forall env acc k d, calls (comph nk None h env acc k) d ->
             called (hfams h) d \/ exists oh a, calls (k oh a) d).
Proof.
  apply expr_hexpr_ind; cbn [s1wf hs1wf comp comph efams hfams].
  - intros v _ env acc k d H. right. eauto.
  - intros i f _ env acc k d H. inversion H; subst. right. eauto.
  - intros fam ke IH Hw env acc k d H. destruct (IH Hw _ _ _ _ H) as [A | (v & a & A)].
    + left. apply (called_incl (efams ke)); [intros x Hx; right; exact Hx | exact A].
    + inversion A; subst.
      * left. exists fam, v. split; [left; reflexivity | reflexivity].
      * right. eauto.
  - intros c _ env acc k d H. inversion H; subst. right. eauto.
  - intros _ env acc k d H. inversion H; subst. right. eauto.
  - intros o a IHa b IHb Hw env acc k d H. apply andb_true_iff in Hw. destruct Hw as [Ha Hb].
    destruct (IHa Ha _ _ _ _ H) as [A | (va & a1 & A)].
    + left. apply (called_incl (efams a)); [intros x Hx; apply in_or_app; left; exact Hx | exact A].
    + destruct (IHb Hb _ _ _ _ A) as [B | (vb & a2 & B)].
      * left. apply (called_incl (efams b)); [intros x Hx; apply in_or_app; right; exact Hx | exact B].
      * right. eauto.
  - intros c IHc a IHa b IHb Hw env acc k d H. apply andb_true_iff in Hw. destruct Hw as [Hw Hb].
    apply andb_true_iff in Hw. destruct Hw as [Hc Ha].
    destruct (IHc Hc _ _ _ _ H) as [A | (vc & a1 & A)].
    + left. apply (called_incl (efams c)); [intros x Hx; apply in_or_app; left; exact Hx | exact A].
    + destruct (vc =? 0).
      * destruct (IHb Hb _ _ _ _ A) as [B | B]; [left | right; exact B].
        apply (called_incl (efams b)); [intros x Hx; apply in_or_app; right; apply in_or_app; right; exact Hx | exact B].
      * destruct (IHa Ha _ _ _ _ A) as [B | B]; [left | right; exact B].
        apply (called_incl (efams a)); [intros x Hx; apply in_or_app; right; apply in_or_app; left; exact Hx | exact B].
  - intros x h IHh bd IHbd els IHels Hw env acc k d H. apply andb_true_iff in Hw. destruct Hw as [Hw He].
    apply andb_true_iff in Hw. destruct Hw as [Hh Hb].
    destruct (IHh Hh _ _ _ _ H) as [A | (oh & a1 & A)].
    + left. apply (called_incl (hfams h)); [intros y Hy; apply in_or_app; left; exact Hy | exact A].
    + destruct oh as [hd|].
      * destruct (IHbd Hb _ _ _ _ A) as [B | B]; [left | right; exact B].
        apply (called_incl (efams bd)); [intros y Hy; apply in_or_app; right; apply in_or_app; left; exact Hy | exact B].
      * destruct (IHels He _ _ _ _ A) as [B | B]; [left | right; exact B].
        apply (called_incl (efams els)); [intros y Hy; apply in_or_app; right; apply in_or_app; right; exact Hy | exact B].
  - intros x f _ env acc k d H. destruct (env_get env x); [inversion H; subst|]; right; eauto.
  - intros x _ env acc k d H. destruct (env_get env x); [inversion H; subst|]; right; eauto.
  - intros fam x Hw. discriminate.
  - intros fam x v IHv Hw. discriminate.
  - intros x _ env acc k d H. destruct (env_get env x); right; eauto.
  - intros a IHa b IHb c IHc Hw env acc k d H. apply andb_true_iff in Hw. destruct Hw as [Hw Hc].
    apply andb_true_iff in Hw. destruct Hw as [Ha Hb].
    destruct (IHa Ha _ _ _ _ H) as [A | (va & a1 & A)].
    + left. apply (called_incl (efams a)); [intros x Hx; apply in_or_app; left; exact Hx | exact A].
    + destruct (IHb Hb _ _ _ _ A) as [B | (vb & a2 & B)].
      * left. apply (called_incl (efams b)); [intros x Hx; apply in_or_app; right; apply in_or_app; left; exact Hx | exact B].
      * destruct (IHc Hc _ _ _ _ B) as [C | (vc & a3 & C)].
        -- left. apply (called_incl (efams c)); [intros x Hx; apply in_or_app; right; apply in_or_app; right; exact Hx | exact C].
        -- inversion C; subst. right. eauto.
  - intros fam ke IH i Hw env acc k d H. destruct (IH Hw _ _ _ _ H) as [A | (v & a & A)].
    + left. apply (called_incl (efams ke)); [intros x Hx; right; exact Hx | exact A].
    + inversion A; subst.
      * left. exists fam, v. split; [left; reflexivity | reflexivity].
      * right. eauto.
  - intros fam x i Hw. discriminate.
  - intros _ env acc k d H. right. eauto.
  - intros x _ env acc k d H. right. eauto.
Qed.

(* ---- no forged handle ---- *)
Lemma comp_prov_both (sg : senv) :
  (forall e, s1wf e = true -> forall env acc k dis K, envok env K -> incl acc K ->
     (forall v acc' dis' K', incl K K' -> incl acc' K' -> prov idhash sg (k v acc') dis' K') ->
     prov idhash sg (comp nk None e env acc k) dis K) /\
  (forall h, hs1wf h = true -> forall env acc k dis K, envok env K -> incl acc K ->
     (forall oh acc' dis' K', incl K K' -> incl acc' K' -> (forall hd, oh = Some hd -> In hd K') ->
        prov idhash sg (k oh acc') dis' K') ->
     prov idhash sg (comph nk None h env acc k) dis K).
Proof.
  apply expr_hexpr_ind; cbn [s1wf hs1wf comp comph].
  - intros v _ env acc k dis K He Ha Hk. apply Hk; [apply incl_refl | exact Ha].
  - intros i f _ env acc k dis K He Ha Hk. cbn [prov]. apply Hk; [apply incl_refl | exact Ha].
  - intros fam ke IH Hw env acc k dis K He Ha Hk. apply IH; auto.
    intros v acc' dis' K' Hi Ha'. cbn [prov]. apply Hk; [|].
    + intros x Hx. apply in_or_app. right. exact (Hi x Hx).
    + intros x Hx. apply in_or_app. right. exact (Ha' x Hx).
  - intros c _ env acc k dis K He Ha Hk. cbn [prov]. apply Hk; [apply incl_refl | exact Ha].
  - intros _ env acc k dis K He Ha Hk. cbn [prov]. apply Hk; [apply incl_refl | exact Ha].
  - intros o a IHa b IHb Hw env acc k dis K He Ha Hk. apply andb_true_iff in Hw. destruct Hw as [Hwa Hwb].
    apply IHa; auto. intros va a1 d1 K1 Hi1 Ha1.
    apply IHb; [exact Hwb | exact (envok_incl env K K1 He Hi1) | exact Ha1|].
    intros vb a2 d2 K2 Hi2 Ha2. apply Hk; [exact (incl_tran Hi1 Hi2) | exact Ha2].
  - intros c IHc a IHa b IHb Hw env acc k dis K He Ha Hk. apply andb_true_iff in Hw. destruct Hw as [Hw Hwb].
    apply andb_true_iff in Hw. destruct Hw as [Hwc Hwa].
    apply IHc; auto. intros vc a1 d1 K1 Hi1 Ha1.
    destruct (vc =? 0); [apply IHb | apply IHa]; auto; try exact (envok_incl env K K1 He Hi1);
      intros v a2 d2 K2 Hi2 Ha2; apply Hk; [exact (incl_tran Hi1 Hi2) | exact Ha2 | exact (incl_tran Hi1 Hi2) | exact Ha2].
  - intros x h IHh bd IHbd els IHels Hw env acc k dis K He Ha Hk. apply andb_true_iff in Hw. destruct Hw as [Hw Hwe].
    apply andb_true_iff in Hw. destruct Hw as [Hwh Hwb].
    apply IHh; auto. intros oh a1 d1 K1 Hi1 Ha1 Hoh.
    destruct oh as [hd|].
    + apply IHbd; [exact Hwb | | exact Ha1|].
      * apply envok_cons; [exact (envok_incl env K K1 He Hi1) | exact (Hoh hd eq_refl)].
      * intros v a2 d2 K2 Hi2 Ha2. apply Hk; [exact (incl_tran Hi1 Hi2) | exact Ha2].
    + apply IHels; [exact Hwe | exact (envok_incl env K K1 He Hi1) | exact Ha1|].
      intros v a2 d2 K2 Hi2 Ha2. apply Hk; [exact (incl_tran Hi1 Hi2) | exact Ha2].
  - intros x f _ env acc k dis K He Ha Hk. destruct (env_get env x) as [h|] eqn:Ex.
    + cbn [prov]. split; [exact (He x h Ex)|]. apply Hk; [apply incl_refl | exact Ha].
    + apply Hk; [apply incl_refl | exact Ha].
  - intros x _ env acc k dis K He Ha Hk. destruct (env_get env x) as [h|] eqn:Ex.
    + cbn [prov]. split; [exact (He x h Ex)|]. apply Hk; [apply incl_refl | exact Ha].
    + apply Hk; [apply incl_refl | exact Ha].
  - intros fam x Hw. discriminate.
  - intros fam x v IHv Hw. discriminate.
  - intros x _ env acc k dis K He Ha Hk. destruct (env_get env x) as [h|] eqn:Ex.
    + apply Hk; [apply incl_refl|]. intros y Hy. apply in_app_or in Hy. destruct Hy as [Hy | [<- | []]]; [exact (Ha y Hy) | exact (He x h Ex)].
    + apply Hk; [apply incl_refl | exact Ha].
  - intros a IHa b IHb c IHc Hw env acc k dis K He Ha Hk. apply andb_true_iff in Hw. destruct Hw as [Hw Hwc].
    apply andb_true_iff in Hw. destruct Hw as [Hwa Hwb].
    apply IHa; auto. intros va a1 d1 K1 Hi1 Ha1.
    apply IHb; [exact Hwb | exact (envok_incl env K K1 He Hi1) | exact Ha1|]. intros vb a2 d2 K2 Hi2 Ha2.
    apply IHc; [exact Hwc | exact (envok_incl env K K2 He (incl_tran Hi1 Hi2)) | exact Ha2|]. intros vc a3 d3 K3 Hi3 Ha3.
    cbn [prov]. apply Hk.
    + intros y Hy. right. exact (Hi3 y (Hi2 y (Hi1 y Hy))).
    + intros y Hy. right. exact (Ha3 y Hy).
    + intros hd E. injection E as <-. left. reflexivity.
  - intros fam ke IH i Hw env acc k dis K He Ha Hk. apply IH; auto.
    intros kv a1 d1 K1 Hi1 Ha1. cbn [prov]. apply Hk.
    + intros y Hy. apply in_or_app. right. exact (Hi1 y Hy).
    + intros y Hy. apply in_or_app. right. exact (Ha1 y Hy).
    + intros hd E. apply in_or_app. left. exact (nth_error_In _ _ E).
  - intros fam x i Hw. discriminate.
  - intros _ env acc k dis K He Ha Hk. apply Hk; [apply incl_refl | exact Ha | discriminate].
  - intros x _ env acc k dis K He Ha Hk. apply Hk; [apply incl_refl | exact Ha|]. intros hd E. exact (He x hd E).
Qed.

End Comp.

(* ---------------------------------------------------------------- programs given by a node table *)
Definition skind0 (f : N) : bool := false.

Definition first_readb (b : body) : bool :=
  match b with
  | RdIn _ _ | CallQ _ _ | RdCell _ _ | Touch _ => true
  | _ => false
  end.

Lemma first_readb_ok b : first_readb b = true -> first_read b.
Proof. destruct b; cbn; auto; discriminate. Qed.

Section Table.
Variable idhash : val -> N.
Variable nk : N.
Variable tbl : list ((N * N) * expr).
Hypothesis Hnk0 : nk <> 0.
Hypothesis Hwf : forallb (fun ne => s1wf (snd ne)) tbl = true.

Notation prog := (prog_of nk skind0 tbl).

Lemma prog_eq q : prog q = compile nk None (lookup_node tbl (fst q, fst (snd q))).
Proof. reflexivity. Qed.

Lemma lookup_s1wf q : s1wf (lookup_node tbl q) = true.
Proof.
  revert Hwf. induction tbl as [|[q' e] t IH]; intros H; cbn [lookup_node]; [reflexivity|].
  cbn [forallb snd] in H. apply andb_true_iff in H. destruct H as [He Ht].
  destruct (key_eqb q' q); [exact He | exact (IH Ht)].
Qed.

Theorem table_nospec : forall q, nospec (prog q).
Proof.
  intros q. rewrite prog_eq. unfold compile. apply (proj1 (comp_nospec_both nk)); [apply lookup_s1wf|].
  intros v a. constructor.
Qed.

Lemma table_calls q d : calls (prog q) d -> called nk (efams (lookup_node tbl (fst q, fst (snd q)))) d.
Proof.
  rewrite prog_eq. unfold compile. intros H.
  destruct (proj1 (comp_calls_both nk) _ (lookup_s1wf _) _ _ _ _ H) as [A | (v & a & A)]; [exact A | inversion A].
Qed.

Theorem table_gk : forall q d, calls (prog q) d -> gk d.
Proof. intros q d H. destruct (table_calls q d H) as (fam & x & _ & ->). reflexivity. Qed.

Theorem table_no_forge : no_forge idhash prog.
Proof.
  intros sg q. rewrite prog_eq. unfold compile.
  apply (proj1 (comp_prov_both idhash nk sg)); [apply lookup_s1wf | intros x h E; discriminate | intros x [] |].
  intros v acc' dis' K' _ Ha. cbn [prov]. exact Ha.
Qed.

(* ranks by family *)
Variable frank : N -> nat.
Hypothesis Hrk : forallb (fun ne => forallb (fun fam' => Nat.ltb (frank fam') (frank (fst (fst ne)))) (efams (snd ne))) tbl = true.

Lemma lookup_in q : lookup_node tbl q = ELit 0 \/ In (q, lookup_node tbl q) tbl.
Proof.
  clear Hwf Hrk. induction tbl as [|[q' e] t IH]; cbn [lookup_node]; [left; reflexivity|].
  destruct (key_eqb_spec q' q) as [-> | Hne]; [right; left; reflexivity|].
  destruct IH as [A | A]; [left; exact A | right; right; exact A].
Qed.

Theorem table_calls_below : calls_below prog (fun q => frank (fst q)).
Proof.
  intros q d H. destruct (table_calls q d H) as (fam & x & Hin & ->). cbn [fst].
  destruct (lookup_in (fst q, fst (snd q))) as [E | Hin0].
  - rewrite E in Hin. destruct Hin.
  - rewrite forallb_forall in Hrk. specialize (Hrk _ Hin0). cbn [fst snd] in Hrk.
    rewrite forallb_forall in Hrk. specialize (Hrk fam Hin). apply Nat.ltb_lt in Hrk. exact Hrk.
Qed.

(* every body that can be called starts with a read *)
Variable cfams : list N.
Hypothesis Hcf : forallb (fun ne => forallb (fun fam' => existsb (N.eqb fam') cfams) (efams (snd ne))) tbl = true.
Hypothesis Hfr : forallb (fun fam => forallb (fun k => first_readb (compile nk None (lookup_node tbl (fam, N.of_nat k))))
                                             (seq 0 (N.to_nat nk))) cfams = true.

Theorem table_first : forall q d, calls (prog q) d -> first_read (prog d).
Proof.
  intros q d H. destruct (table_calls q d H) as (fam & x & Hin & ->).
  destruct (lookup_in (fst q, fst (snd q))) as [E | Hin0]; [rewrite E in Hin; destruct Hin|].
  rewrite forallb_forall in Hcf. specialize (Hcf _ Hin0). cbn [snd] in Hcf.
  rewrite forallb_forall in Hcf. specialize (Hcf fam Hin). apply existsb_exists in Hcf. destruct Hcf as (f' & Hf' & Ef).
  apply N.eqb_eq in Ef. subst f'.
  rewrite forallb_forall in Hfr. specialize (Hfr fam Hf'). rewrite forallb_forall in Hfr.
  assert (Hlt : x mod nk < nk) by (apply N.mod_lt; exact Hnk0).
  specialize (Hfr (N.to_nat (x mod nk))). rewrite N2Nat.id in Hfr.
  assert (Hlt' : (N.to_nat (x mod nk) < N.to_nat nk)%nat).
  { clear -Hlt. lia. }
  apply first_readb_ok. rewrite prog_eq. cbn [fst snd]. apply Hfr. apply in_seq. clear -Hlt'. split; [apply Nat.le_0_l | exact Hlt'].
Qed.

End Table.

(* Structs/SimBase.v — model-to-machine simulation, part 1: the consistency relation between
   the model's claim stack and the frames of the running executions, the frame relation [rel]
   that every sub-computation of the executable model satisfies, and the primitive steps. *)
From Salsa Require Import Base.
From Salsa.Kern Require Import CoreK.
From Salsa.Structs Require Import Model ProofsBase ProofsCascade Machine ProofsInv ProofsStep ProofsSpecify Guard.

Section SimBase.
Variable skind : N -> bool.
Variable sfams : list N.
Variable idhash : val -> N.
Hypothesis sfams_skind : forall fam, In fam sfams -> skind fam = true.

Notation OInv := (OInv skind).
Notation owns := (owns skind).
Notation owner_ids := (owner_ids skind).
Notation peek_memo := (peek_memo skind).
Notation cur_okb := (cur_okb skind).

(* the struct ids of the memo stored for key p (None: no memo) *)
Definition mst (s : db) (p : qk) : option (list (ident * handle)) :=
  option_map m_structs (peek_memo s (loc_of p)).

Definition locked (s : db) (i : N) : Prop :=
  exists sl, d_slots s i = Some sl /\ sl_updated sl = Some (cur s).

(* claim stack vs frames *)
Record Cons (s : db) (F : frames) : Prop := {
  cn_stack : forall q fr, In (q, fr) F -> In q (d_stack s);
  cn_nodup : NoDup (d_stack s);
  cn_cur : forall q, In q (d_stack s) -> cur_okb s q = true;
  cn_lock : forall q, In q (d_stack s) -> skind (fst q) = true -> locked s (fst (snd q))
}.

(* what a sub-computation may do: same revision counters; a slot that is read-locked in this
   revision stays so and keeps its generation; the struct ids of the memos of the protected keys P
   are kept *)
Record rel (P : list qk) (s s' : db) : Prop := {
  rl_revs : d_revs s' = d_revs s;
  rl_lock : forall i sl, d_slots s i = Some sl -> sl_updated sl = Some (cur s) ->
            exists sl', d_slots s' i = Some sl' /\ sl_updated sl' = Some (cur s) /\ sl_gen sl' = sl_gen sl;
  rl_mst : forall p, In p P -> mst s' p = mst s p
}.

Lemma rel_cur P s s' : rel P s s' -> cur s' = cur s.
Proof. intros R. unfold cur. now rewrite (rl_revs _ _ _ R). Qed.

Lemma rel_refl P s : rel P s s.
Proof. constructor; auto. intros i sl Hs Hu. exists sl. auto. Qed.

Lemma rel_trans P s1 s2 s3 : rel P s1 s2 -> rel P s2 s3 -> rel P s1 s3.
Proof.
  intros A B. pose proof (rel_cur _ _ _ A) as Hc. constructor.
  - rewrite (rl_revs _ _ _ B). exact (rl_revs _ _ _ A).
  - intros i sl Hs Hu. destruct (rl_lock _ _ _ A i sl Hs Hu) as (sl1 & Hs1 & Hu1 & Hg1).
    rewrite <- Hc in Hu1. destruct (rl_lock _ _ _ B i sl1 Hs1 Hu1) as (sl2 & Hs2 & Hu2 & Hg2).
    exists sl2. rewrite Hc in Hu2. repeat split; auto. congruence.
  - intros p Hp. rewrite (rl_mst _ _ _ B p Hp). exact (rl_mst _ _ _ A p Hp).
Qed.

Lemma rel_sub P P' s s' : (forall p, In p P' -> In p P) -> rel P s s' -> rel P' s s'.
Proof. intros Hsub [a b c]. constructor; auto. Qed.

Lemma locked_rel P s s' i : rel P s s' -> locked s i -> locked s' i.
Proof.
  intros R (sl & Hs & Hu). destruct (rl_lock _ _ _ R i sl Hs Hu) as (sl' & Hs' & Hu' & _).
  exists sl'. rewrite (rel_cur _ _ _ R). auto.
Qed.

Lemma cur_okb_rel P s s' (q : qk) :
  rel P s s' -> (skind (fst q) = true -> locked s (fst (snd q))) -> cur_okb s q = true -> cur_okb s' q = true.
Proof.
  intros R Hl. unfold Guard.cur_okb. destruct (skind (fst q)) eqn:Hk; [|auto].
  destruct (Hl eq_refl) as (sl & Hs & Hu). rewrite Hs, Hu.
  destruct (rl_lock _ _ _ R _ sl Hs Hu) as (sl' & Hs' & Hu' & Hg'). rewrite Hs', Hu', Hg'. auto.
Qed.

Lemma Cons_rel P s s' F :
  Cons s F -> rel P s s' -> d_stack s' = d_stack s -> Cons s' F.
Proof.
  intros C R Est. constructor; rewrite ?Est.
  - exact (cn_stack _ _ C).
  - exact (cn_nodup _ _ C).
  - intros q Hq. apply (cur_okb_rel P s s' q R); [intros Hk; exact (cn_lock _ _ C q Hq Hk) | exact (cn_cur _ _ C q Hq)].
  - intros q Hq Hk. exact (locked_rel P s s' _ R (cn_lock _ _ C q Hq Hk)).
Qed.

(* two current keys with the same memo location are the same key *)
Lemma cur_okb_loc s p q : cur_okb s p = true -> cur_okb s q = true -> loc_of p = loc_of q -> p = q.
Proof.
  destruct p as [fp [ip gp]], q as [fq [iq gq]]. unfold Guard.cur_okb, loc_of. cbn [fst snd].
  intros Hp Hq E. injection E as -> ->.
  destruct (skind fq).
  - destruct (d_slots s iq) as [sl|]; [|discriminate]. destruct (sl_updated sl); [|discriminate].
    apply N.eqb_eq in Hp, Hq. congruence.
  - apply N.eqb_eq in Hp, Hq. congruence.
Qed.

(* no frame is active at the location of a current key that is not claimed *)
Lemma not_active_of_unclaimed s F (q : qk) :
  Cons s F -> cur_okb s q = true -> (forall fr, ~ In (q, fr) F) -> ~ active_loc F (loc_of q).
Proof.
  intros C Hq Hnf (q' & fr' & Hin & El).
  assert (q' = q).
  { apply (cur_okb_loc s); [apply (cn_cur _ _ C); exact (cn_stack _ _ C _ _ Hin) | exact Hq | exact El]. }
  subst q'. exact (Hnf fr' Hin).
Qed.

(* ---------------------------------------------------------------- peek under slot changes *)
Lemma peek_same s s' l :
  d_memo s' = d_memo s ->
  (skind (fst l) = true -> d_slots s' (snd l) = d_slots s (snd l)) ->
  peek_memo s' l = peek_memo s l.
Proof.
  intros Em Es. unfold Machine.peek_memo. rewrite Em. destruct (skind (fst l)); [|reflexivity].
  rewrite (Es eq_refl). reflexivity.
Qed.

(* ---------------------------------------------------------------- acquire_read_lock / get_memo *)
Lemma lock_rel P i s s' sl' :
  acquire_read_lock i s = (s', SOk sl') ->
  rel P s s' /\ d_stack s' = d_stack s /\ locked s' i /\
  (forall l, peek_memo s' l = peek_memo s l) /\
  d_slots s' i = Some sl' /\ sl_updated sl' <> None.
Proof.
  intros H. destruct (lock_spec _ _ _ _ H) as (sl & Hs & Hu & Hu' & Hg & Hm & Hf & _ & _ & _ & B & _ & Es).
  assert (Hp : forall l, peek_memo s' l = peek_memo s l).
  { intros l. apply peek_memo_ext; [exact (sb_memo _ _ B) | |].
    - intros sl0 H0 Hu0. rewrite Es. unfold updN. destruct (N.eqb_spec i (snd l)) as [-> | E].
      + rewrite Hs in H0. injection H0 as <-. exists sl'. repeat split; [rewrite Hu'; discriminate | apply Hm].
      + exists sl0. auto.
    - intros sl0'. rewrite Es. unfold updN. destruct (N.eqb_spec i (snd l)) as [-> | E].
      + intros _ _. exists sl. auto.
      + intros H0 Hu0. exists sl0'. auto. }
  split; [|split; [exact (sb_stack _ _ B)|split; [|split; [exact Hp|]]]].
  - constructor.
    + exact (sb_revs _ _ B).
    + intros j sl0 H0 Hu0. rewrite Es. unfold updN. destruct (N.eqb_spec i j) as [<- | E].
      * rewrite Hs in H0. injection H0 as <-. exists sl'. auto.
      * exists sl0. auto.
    + intros p _. unfold mst. rewrite Hp. reflexivity.
  - exists sl'. rewrite Es, updN_same. split; [reflexivity|]. rewrite Hu'. f_equal. symmetry. exact (sbs_cur _ _ B).
  - rewrite Es, updN_same. split; [reflexivity | rewrite Hu'; discriminate].
Qed.

Lemma get_memo_sim P (q : qk) s F s' om :
  OInv s F -> get_memo skind q s = (s', SOk om) ->
  OInv s' F /\ rel P s s' /\ d_stack s' = d_stack s /\
  om = peek_memo s' (loc_of q) /\
  (skind (fst q) = true -> locked s' (fst (snd q))).
Proof.
  intros I H. unfold get_memo in H. destruct (skind (fst q)) eqn:Hk.
  - msplit H as sl t H1. mstep H.
    destruct (lock_rel P _ _ _ _ H1) as (R & Est & Hl & Hp & Hs' & Hu').
    split; [exact (lock_oinv skind _ _ _ _ _ I H1)|]. split; [exact R|]. split; [exact Est|]. split; [|auto].
    unfold Machine.peek_memo, loc_of. cbn [fst snd]. rewrite Hk, Hs'.
    destruct (sl_updated sl); [reflexivity | contradiction Hu'; reflexivity].
  - msplit H as x t H1. mstep H1. mstep H.
    split; [exact I|]. split; [apply rel_refl|]. split; [reflexivity|]. split; [|discriminate].
    unfold Machine.peek_memo, loc_of. cbn [fst snd]. rewrite Hk. reflexivity.
Qed.

(* ---------------------------------------------------------------- storing a memo *)
Lemma store_memo_rel P (q : qk) m s s' u :
  store_memo skind q m s = (s', SOk u) ->
  (skind (fst q) = true -> exists sl, d_slots s (fst (snd q)) = Some sl /\ sl_updated sl <> None) ->
  (forall p, In p P -> loc_of p = loc_of q -> mst s p = Some (m_structs m)) ->
  rel P s s' /\ d_stack s' = d_stack s /\ peek_memo s' (loc_of q) = Some m /\
  (forall l, l <> loc_of q -> peek_memo s' l = peek_memo s l).
Proof.
  intros H Hlive HP.
  assert (Hst : d_stack s' = d_stack s).
  { unfold store_memo in H. destruct (skind (fst q)).
    - msplit H as sl t H1. apply get_slot_ok in H1. destruct H1 as [-> _]. apply put_slot_ok in H. subst s'. reflexivity.
    - mstep H. reflexivity. }
  destruct (store_memo_spec skind _ _ _ _ _ H) as (Er & En & Ef & Ei & Hcase).
  assert (Hpq : peek_memo s' (loc_of q) = Some m).
  { unfold Machine.peek_memo, loc_of. cbn [fst snd].
    destruct Hcase as [(Hk & Em & _) | (Hk & Em & sl & Hs & Es)]; rewrite Hk.
    - rewrite Em. apply upd_same.
    - destruct (Hlive Hk) as (sl0 & Hs0 & Hu0). rewrite Hs in Hs0. injection Hs0 as <-.
      rewrite Es, updN_same. cbn [set_sl_memos sl_updated sl_memos].
      destruct (sl_updated sl); [apply updN_same | contradiction Hu0; reflexivity]. }
  assert (Hpo : forall l, l <> loc_of q -> peek_memo s' l = peek_memo s l).
  { intros l Hne. unfold Machine.peek_memo.
    destruct Hcase as [(Hk & Em & Es) | (Hk & Em & sl & Hs & Es)].
    - rewrite Es. destruct (skind (fst l)) eqn:Hkl; [reflexivity|]. rewrite Em. apply upd_other. congruence.
    - destruct (skind (fst l)) eqn:Hkl; [|apply Em].
      rewrite Es. unfold updN. destruct (N.eqb_spec (fst (snd q)) (snd l)) as [E | E]; [|reflexivity].
      rewrite <- E, Hs. cbn [set_sl_memos sl_updated sl_memos].
      destruct (sl_updated sl); [|reflexivity]. unfold updN.
      destruct (N.eqb_spec (fst q) (fst l)) as [E2 | E2]; [|reflexivity].
      exfalso. apply Hne. unfold loc_of. destruct l; cbn [fst snd] in *. congruence. }
  split; [|auto]. constructor.
  - exact Er.
  - intros j sl0 H0 Hu0. destruct Hcase as [(_ & _ & Es) | (Hk & _ & sl & Hs & Es)]; rewrite Es.
    + exists sl0. auto.
    + unfold updN. destruct (N.eqb_spec (fst (snd q)) j) as [<- | E].
      * rewrite Hs in H0. injection H0 as <-. eexists. split; [reflexivity|]. auto.
      * exists sl0. auto.
  - intros p Hp. unfold mst. destruct (key_eqb_spec (loc_of p) (loc_of q)) as [E | E].
    + rewrite E, Hpq. cbn [option_map]. specialize (HP p Hp E). unfold mst in HP. rewrite E in HP. symmetry. exact HP.
    + rewrite (Hpo _ E). reflexivity.
Qed.

(* mark_verified: the stored memo gets verified_at := now; everything else, in particular its
   struct ids, is what the caller read *)
Lemma mark_verified_sim P (q : qk) m s F s' m' :
  OInv s F -> mark_verified skind q m s = (s', SOk m') ->
  mst s q = Some (m_structs m) ->
  OInv s' F /\ rel P s s' /\ d_stack s' = d_stack s /\ m_structs m' = m_structs m /\
  peek_memo s' (loc_of q) = Some m'.
Proof.
  intros I H Hm. unfold mark_verified in H.
  msplit H as x t H1. mstep H1. msplit H as u t2 H2. apply emit_ok in H2. subst t2.
  msplit H as u3 t3 H3. mstep H.
  set (s0 := set_log s (EvValidate q :: d_log s)) in *.
  set (mm := {| m_val := m_val m; m_verified := cur s; m_changed := m_changed m; m_dur := m_dur m;
                m_origin := m_origin m; m_edges := m_edges m; m_structs := m_structs m |}) in *.
  assert (Hpk : forall l, peek_memo s0 l = peek_memo s l) by reflexivity.
  assert (I0 : OInv s0 F).
  { apply (oinv_casc skind sfams sfams_skind s F s0 [] [] I (casc_log s _)); [intros c [] | intros r [] | intros r o h []]. }
  assert (Hold : exists old, peek_memo s (loc_of q) = Some old /\ m_structs old = m_structs m).
  { unfold mst in Hm. destruct (peek_memo s (loc_of q)) as [old|]; [|discriminate].
    exists old. split; [reflexivity|]. cbn in Hm. congruence. }
  destruct Hold as (old & Eo & Est).
  assert (Hlive : skind (fst q) = true -> exists sl, d_slots s0 (fst (snd q)) = Some sl /\ sl_updated sl <> None).
  { intros Hk. unfold Machine.peek_memo, loc_of in Eo. cbn [fst snd] in Eo. rewrite Hk in Eo.
    cbn [s0 set_log d_slots]. destruct (d_slots s (fst (snd q))) as [sl|]; [|discriminate].
    exists sl. split; [reflexivity|]. destruct (sl_updated sl); discriminate. }
  destruct (store_memo_rel P q mm s0 t3 u3 H3 Hlive) as (R & Hst & Hpq & Hpo).
  { intros p _ E. unfold mst. rewrite E. change (peek_memo s0 (loc_of q)) with (peek_memo s (loc_of q)).
    rewrite Eo. cbn. f_equal. exact Est. }
  split; [|split; [|split; [exact Hst|split; [reflexivity | exact Hpq]]]].
  - destruct (store_memo_spec skind _ _ _ _ _ H3) as (Er & En & Ef & Ei & Hcase).
    apply (oinv_store skind s0 F t3 F q mm (OwM (loc_of q)) I0 Er En Ef Ei).
    + destruct Hcase as [Hc | (Hk & Em & sl & Hs & Esl)]; [left; exact Hc|]. right.
      split; [exact Hk|]. split; [exact Em|].
      destruct (Hlive Hk) as (sl0 & Hs0 & Hu0). rewrite Hs in Hs0. injection Hs0 as <-.
      exists sl, (set_sl_memos sl (updN (sl_memos sl) (fst q) (Some mm))).
      split; [exact Hs|]. split; [exact Hu0|]. split; [rewrite Esl; apply updN_same|].
      split; [intros j Hj; rewrite Esl; apply updN_other; congruence|].
      split; [reflexivity|]. split; [reflexivity|]. split; [reflexivity|].
      split; [cbn [set_sl_memos sl_memos]; apply updN_same|].
      intros fam Hf. cbn [set_sl_memos sl_memos]. apply updN_other. congruence.
    + auto.
    + exact (oi_frames _ _ _ I0).
    + auto.
    + intros Hna. unfold mids, mm. cbn [m_structs]. rewrite <- Est.
      apply (oi_nodup _ _ _ I0 (OwM (loc_of q)) (mids old)). split; [exact Hna | exists old; auto].
    + intros Hna h Hh. exists (mids old). split; [split; [exact Hna | exists old; auto]|].
      unfold mids, mm in Hh. cbn [m_structs] in Hh. unfold mids. rewrite Est. exact Hh.
    + left. reflexivity.
  - apply (rel_trans P s s0 t3); [|exact R]. constructor; auto.
    intros i sl Hs Hu. exists sl. auto.
Qed.

End SimBase.

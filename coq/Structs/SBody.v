(* Structs/SBody.v — the level interface and the execution of a body: run_body keeps the
   from-scratch invariant and ends with a log that determines the run. *)
From Salsa Require Import Base.
From Salsa.Kern Require Import CoreK CoreKFacts.
From Salsa.Structs Require Import Model ProofsBase ProofsCascade Machine ProofsInv ProofsStep Theorems Guard SimBase SimOps Sim
     SSem SInv SStable SSlots SStore SLock SNew SFrame SNewInv SRun.

Section Body.
Variable prog : qk -> body.
Variable skind : N -> bool.
Variable idhash : val -> N.
Variable rank : qk -> nat.
Hypothesis Hrank : calls_below prog rank.
Variable NF : nat.
Hypothesis Hbound : forall q, (rank q < NF)%nat.
Hypothesis Hprov : no_forge idhash prog.
Hypothesis Hgk : forall q d, calls (prog q) d -> gk d.
Hypothesis Hnk : forall f, skind f = false.
Hypothesis Hfirst : forall q d, calls (prog q) d -> first_read (prog d).
Hypothesis Hns : forall q, nospec (prog q).

Notation Ew := (Ew idhash prog NF).
Notation trw := (trw idhash prog NF).
Notation envw := (envw idhash prog NF).
Notation clos := (clos idhash prog NF).
Notation SInv := (SInv prog skind idhash NF).
Notation smemo_ok := (smemo_ok prog idhash NF).
Notation dval := (dval prog idhash NF).
Notation Er := (Er prog idhash NF).
Notation trr := (trr prog idhash NF).
Notation FrameOK := (FrameOK prog idhash NF).
Notation OInv := (OInv skind).

(* what a sub-computation leaves alone: the claim stack, the memos of the claimed queries, the
   slots held by the running frames *)
Definition keeps (s s' : db) (F : frames) : Prop :=
  d_stack s' = d_stack s /\
  (forall p, In p (d_stack s) -> d_memo s' (loc_of p) = d_memo s (loc_of p)) /\
  (forall p frp h0, In (p, frp) F -> In h0 (frame_ids frp) -> d_slots s' (fst h0) = d_slots s (fst h0)).

Definition fetch_spec (L : lower) : Prop := forall Hs s F q s' r,
  SInv Hs s F -> gk q -> first_read (prog q) -> cur s < GMAX ->
  l_fetch L q s = (s', SOk r) ->
  SInv Hs s' F /\ sext s s' /\ keeps s s' F /\
  exists m, d_memo s' (loc_of q) = Some m /\ m_verified m = cur s /\ m_val m = Some (fst (fst r)) /\
            snd (fst r) = m_dur m /\ snd r = m_changed m.

Definition mca_spec (L : lower) : Prop := forall Hs s F q since s' b,
  SInv Hs s F -> gk q -> first_read (prog q) -> cur s < GMAX ->
  l_mca L q since s = (s', SOk b) ->
  SInv Hs s' F /\ sext s s' /\ keeps s s' F /\
  (b = false -> exists m, d_memo s' (loc_of q) = Some m /\ m_verified m = cur s /\ m_changed m <= since).

(* the same, relative to the frame of the running query q *)
Definition keepsq (s s' : db) (F : frames) (q : qk) : Prop :=
  d_stack s' = d_stack s /\
  (forall p, In p (d_stack s) -> d_memo s' (loc_of p) = d_memo s (loc_of p)) /\
  (forall p frp h0, In (p, frp) F -> p <> q -> In h0 (frame_ids frp) -> d_slots s' (fst h0) = d_slots s (fst h0)).

Lemma keepsq_refl s F q : keepsq s s F q.
Proof. split; [reflexivity|]. split; auto. Qed.

Lemma keepsq_trans s1 s2 s3 F q fr fr1 :
  NoDup (flocs F) -> In (q, fr) F ->
  keepsq s1 s2 F q -> keepsq s2 s3 (set_frame F q fr1) q -> keepsq s1 s3 F q.
Proof.
  intros HF Hq (A1 & B1 & C1) (A2 & B2 & C2). split; [congruence|]. split.
  - intros p Hp. rewrite (B2 p) by (rewrite A1; exact Hp). exact (B1 p Hp).
  - intros p frp h0 Hp Hne Hh0. rewrite (C2 p frp h0); [exact (C1 p frp h0 Hp Hne Hh0) | | exact Hne | exact Hh0].
    apply (in_set_frame F q fr fr1 p frp HF Hq). right. auto.
Qed.

Lemma old_lt Hs s F q old fr log b dis o :
  SInv Hs s F -> In (q, fr) F -> FrameOK Hs s q old fr log b dis -> old = Some o -> m_verified o < cur s.
Proof.
  intros I Hq FO Eold. destruct (si_active _ _ _ _ _ _ _ I q fr Hq) as [_ Hlt].
  apply Hlt. rewrite (fo_old _ _ _ _ _ _ _ _ _ _ _ FO). exact Eold.
Qed.

(* the head of the old trace, while the execution agrees with the old world *)
Lemma old_head Hs s q old fr log b dis o x t :
  FrameOK Hs s q old fr log b dis ->
  agrees (envw (W Hs s (m_verified o)) q) log ->
  trace idhash (envw (W Hs s (m_verified o)) q) b dis = x :: t ->
  In x (trr Hs s (m_verified o) q).
Proof.
  intros FO Hag Et. destruct (fo_tr _ _ _ _ _ _ _ _ _ _ _ FO _ Hag) as [T _].
  unfold SInv.trr, SSem.trw. rewrite T, Et. apply in_or_app. right. left. reflexivity.
Qed.

Lemma stamp_max s log c1 c2 x a :
  cst s log c1 -> sle s c2 x -> cst s (log ++ [(x, a)]) (rev_max c1 c2).
Proof.
  intros H1 H2. unfold rev_max. destruct (N.max_spec c1 c2) as [[_ ->] | [_ ->]].
  - right. exists x, a. split; [apply in_or_app; right; left; reflexivity | exact H2].
  - apply cst_app. exact H1.
Qed.

(* ---------------------------------------------------------------- an input read *)
Lemma step_rdin Hs s F q old fr log i k dis :
  SInv Hs s F -> In (q, fr) F -> FrameOK Hs s q old fr log (RdIn i k) dis ->
  SInv Hs s (set_frame F q (add_read fr (EIn i) (f_dur (d_in s i)) (f_changed (d_in s i)))) /\
  FrameOK Hs s q old (add_read fr (EIn i) (f_dur (d_in s i)) (f_changed (d_in s i)))
          (log ++ [(RIn i, (f_val (d_in s i), []))]) (k (f_val (d_in s i))) dis.
Proof.
  intros I Hq FO. pose proof (si_oinv _ _ _ _ _ _ _ I) as OI.
  set (fr1 := add_read fr (EIn i) (f_dur (d_in s i)) (f_changed (d_in s i))).
  split; [apply (SInv_set_frame prog skind idhash rank Hrank NF Hbound Hprov Hgk Hs s F q fr fr1 I Hq); reflexivity|].
  pose proof (si_low _ _ _ _ _ _ _ I i) as Hlow. pose proof (si_in_le _ _ _ _ _ _ _ I i) as Hile.
  pose proof (fo_le _ _ _ _ _ _ _ _ _ _ _ FO) as Hfle.
  assert (Eedges : fr_edges fr1 = add_edge (fr_edges fr) (EIn i)).
  { unfold fr1, add_read. cbn. rewrite Hlow. reflexivity. }
  apply (frame_read prog skind idhash NF Hs s s F q old fr fr1 log (RIn i) (f_val (d_in s i), []) (RdIn i k) _ dis OI (sext_refl s) FO).
  - discriminate.
  - intros e Ea. cbn in Ea. injection Ea as Ea. cbn [trace run]. rewrite Ea. auto.
  - unfold lok. cbn [fst snd]. split; [reflexivity|]. split; [rewrite Eedges; apply In_add_edge; right; reflexivity|].
    unfold fr1, add_read, rev_max. cbn. lia.
  - constructor.
    + intros e He. rewrite Eedges. apply In_add_edge. left. exact He.
    + unfold fr1, add_read, rev_max. cbn. lia.
    + auto.
    + auto.
  - reflexivity.
  - reflexivity.
  - unfold fr1, add_read, dur_min. cbn. rewrite Hlow. apply N.min_0_r.
  - unfold fr1, add_read. cbn [fr_changed set_fr_stamp].
    apply stamp_max; [exact (fo_stamp _ _ _ _ _ _ _ _ _ _ _ FO) | cbn; lia].
  - unfold fr1, add_read. cbn. split; [auto|]. intros [A | [A | (c & A)]]; [exact A | discriminate | discriminate].
  - intros e He. rewrite Eedges in He. apply In_add_edge in He. destruct He as [He | ->]; [left; exact He | right].
    split; [reflexivity | discriminate].
  - exact Eedges.
  - reflexivity.
  - reflexivity.
  - intros o Eold. split; [exact (old_lt Hs s F q old fr log _ dis o I Hq FO Eold)|]. intros _.
    pose proof (old_lt Hs s F q old fr log _ dis o I Hq FO Eold) as Hlt.
    destruct (N.le_gt_cases (f_changed (d_in s i)) (m_verified o)) as [Hle | Hgt].
    + left. cbn. rewrite (si_in _ _ _ _ _ _ _ I i (m_verified o) Hle); [reflexivity | lia].
    + right. unfold fr1, add_read, rev_max. cbn. lia.
Qed.

(* ---------------------------------------------------------------- untracked reads *)
Lemma step_untracked Hs s F q old fr log x a b b' dis :
  SInv Hs s F -> In (q, fr) F -> FrameOK Hs s q old fr log b dis ->
  untr x ->
  (x = RTouch -> a = (0, [])) -> (forall c, x = RCell c -> a = (d_cell s c, [])) ->
  (forall e, answer e x = a ->
     trace idhash e b dis = x :: trace idhash e b' dis /\ run idhash e b dis = run idhash e b' dis) ->
  SInv Hs s (set_frame F q (add_untracked fr (cur s))) /\
  FrameOK Hs s q old (add_untracked fr (cur s)) (log ++ [(x, a)]) b' dis.
Proof.
  intros I Hq FO Hu Ht Hc Htr. pose proof (si_oinv _ _ _ _ _ _ _ I) as OI.
  set (fr1 := add_untracked fr (cur s)).
  split; [apply (SInv_set_frame prog skind idhash rank Hrank NF Hbound Hprov Hgk Hs s F q fr fr1 I Hq); reflexivity|].
  pose proof (fo_le _ _ _ _ _ _ _ _ _ _ _ FO) as Hfle.
  apply (frame_read prog skind idhash NF Hs s s F q old fr fr1 log x a b b' dis OI (sext_refl s) FO).
  - intros id u v w E. rewrite E in Hu. destruct Hu as [Hu | (c & Hu)]; discriminate.
  - exact Htr.
  - unfold lok. cbn [fst snd]. destruct Hu as [-> | (c & ->)].
    + split; [apply Ht; reflexivity|]. split; reflexivity.
    + split; [apply (Hc c); reflexivity|]. split; reflexivity.
  - constructor; [auto | unfold fr1, add_untracked; cbn; lia | auto | auto].
  - reflexivity.
  - reflexivity.
  - reflexivity.
  - right. exists x, a. split; [apply in_or_app; right; left; reflexivity|].
    destruct Hu as [-> | (c & ->)]; exact Logic.I.
  - unfold fr1, add_untracked. cbn. split; [intros _; right; exact Hu | reflexivity].
  - intros e He. left. exact He.
  - unfold edge_step. destruct Hu as [-> | (c & ->)]; reflexivity.
  - reflexivity.
  - reflexivity.
  - intros o Eold. pose proof (old_lt Hs s F q old fr log _ dis o I Hq FO Eold) as Hlt. split; [exact Hlt|].
    intros _. right. unfold fr1, add_untracked. cbn. exact Hlt.
Qed.

(* ---------------------------------------------------------------- a call *)
Lemma step_call L Hs s F q old fr log c k dis s1 a d ch :
  fetch_spec L ->
  SInv Hs s F -> In (q, fr) F -> FrameOK Hs s q old fr log (CallQ c k) dis ->
  gk c -> first_read (prog c) -> cur s < GMAX ->
  l_fetch L c s = (s1, SOk (a, d, ch)) ->
  SInv Hs s1 (set_frame F q (add_read fr (EQ c) d ch)) /\ sext s s1 /\ keeps s s1 F /\
  FrameOK Hs s1 q old (add_read fr (EQ c) d ch) (log ++ [(RQ c, a)]) (k a) dis /\
  (forall h, In h (snd a) -> hokq s1 (add_read fr (EQ c) d ch) h).
Proof.
  intros HF I Hq FO Hgc Hfc Hcur H. pose proof (si_oinv _ _ _ _ _ _ _ I) as OI.
  destruct (HF Hs s F c s1 (a, d, ch) I Hgc Hfc Hcur H) as (I1 & X & K & m & Hm & Hv & Hval & Ed & Ech).
  cbn [fst snd] in Hval, Ed, Ech. subst d ch.
  pose proof (sext_cur _ _ X) as Hc1.
  set (fr1 := add_read fr (EQ c) (m_dur m) (m_changed m)).
  pose proof (memo_ok_of prog skind idhash NF Hs s1 F c m I1 Hgc Hm) as Hokm.
  pose proof (mo_low _ _ _ _ _ _ _ _ Hokm) as Hlow.
  pose proof (mo_order _ _ _ _ _ _ _ _ Hokm) as (_ & Hcv & _).
  pose proof (fo_le _ _ _ _ _ _ _ _ _ _ _ FO) as Hfle.
  assert (Eedges : fr_edges fr1 = add_edge (fr_edges fr) (EQ c)).
  { unfold fr1, add_read. cbn. rewrite Hlow. reflexivity. }
  assert (Hqs : In q (d_stack s)) by exact (cn_stack _ _ _ (si_cons _ _ _ _ _ _ _ I) q fr Hq).
  destruct K as (Kst & Kmemo & Kslots).
  assert (FO1 : FrameOK Hs s1 q old fr1 (log ++ [(RQ c, a)]) (k a) dis).
  { apply (frame_read prog skind idhash NF Hs s s1 F q old fr fr1 log (RQ c) a (CallQ c k) _ dis OI X FO).
    - discriminate.
    - intros e Ea. cbn in Ea. cbn [trace run]. rewrite Ea. auto.
    - unfold lok. cbn [fst snd]. split; [exact Hgc|]. exists m. rewrite Hc1.
      split; [exact Hm|]. split; [exact Hv|]. split; [exact Hval|].
      split; [unfold fr1, add_read, rev_max; cbn; lia | rewrite Eedges; apply In_add_edge; right; reflexivity].
    - constructor.
      + intros e He. rewrite Eedges. apply In_add_edge. left. exact He.
      + unfold fr1, add_read, rev_max. cbn. rewrite Hc1. lia.
      + auto.
      + auto.
    - reflexivity.
    - reflexivity.
    - unfold fr1, add_read, dur_min. cbn. rewrite Hlow. apply N.min_0_r.
    - unfold fr1, add_read. cbn [fr_changed set_fr_stamp]. apply stamp_max.
      + exact (cst_sext skind s s1 F log _ OI X (fo_stamp _ _ _ _ _ _ _ _ _ _ _ FO)).
      + cbn. exists m. split; [exact Hm | lia].
    - unfold fr1, add_read. cbn. split; [auto|]. intros [A | [A | (cc & A)]]; [exact A | discriminate | discriminate].
    - intros e He. rewrite Eedges in He. apply In_add_edge in He. destruct He as [He | ->]; [left; exact He | right].
      split; [reflexivity | discriminate].
    - exact Eedges.
    - exact (Kmemo q Hqs).
    - intros e He _. apply (Kslots q fr (te_id e) Hq). unfold frame_ids. apply in_map_iff. exists e. auto.
    - intros o Eold. pose proof (old_lt Hs s F q old fr log _ dis o I Hq FO Eold) as Hlt. split; [exact Hlt|].
      intros Hag.
      assert (Hino : In (RQ c) (trr Hs s (m_verified o) q)).
      { eapply (old_head Hs s q old fr log (CallQ c k) dis o (RQ c)); [exact FO | exact Hag | cbn [trace]; reflexivity]. }
      assert (Hmo : d_memo s1 (loc_of q) = Some o).
      { rewrite (Kmemo q Hqs), (fo_old _ _ _ _ _ _ _ _ _ _ _ FO). exact Eold. }
      destruct (si_active _ _ _ _ _ _ _ I q fr Hq) as [Hgq _].
      pose proof (memo_ok_of prog skind idhash NF Hs s1 F q o I1 Hgq Hmo) as Hoko.
      assert (EW : W Hs s1 (m_verified o) = W Hs s (m_verified o)) by (apply W_same_cur; [exact Hc1 | exact Hlt]).
      assert (Hcl : clos (W Hs s1 (m_verified o)) q c).
      { rewrite EW. apply clos_one. exact Hino. }
      destruct (dv_memo _ _ _ _ _ _ _ _ (mo_obs _ _ _ _ _ _ _ _ Hoko c Hcl)) as (md & Hmd & _ & Hobs).
      rewrite Hm in Hmd. injection Hmd as <-.
      destruct (N.le_gt_cases (m_changed m) (m_verified o)) as [Hle | Hgt].
      + left. cbn. specialize (Hobs Hle). unfold SInv.Er in Hobs. rewrite EW in Hobs. rewrite Hobs.
        pose proof (mo_val _ _ _ _ _ _ _ _ Hokm) as Ev. rewrite Hval in Ev. injection Ev as Ev. symmetry. exact Ev.
      + right. unfold fr1, add_read, rev_max. cbn. lia. }
  split; [apply (SInv_set_frame prog skind idhash rank Hrank NF Hbound Hprov Hgk Hs s1 F q fr fr1 I1 Hq); reflexivity|].
  split; [exact X|]. split; [split; [exact Kst|]; split; assumption|]. split; [exact FO1|].
  intros h Hh. rewrite <- Hc1 in Hv. exact (result_hokq prog skind idhash rank Hrank NF Hbound Hprov Hgk Hs s1 F c m a fr1 I1 Hgc Hm Hv Hval h Hh).
Qed.

(* ---------------------------------------------------------------- field reads *)
Lemma hokq_revs Hs s F q old fr log b dis h sl f :
  SInv Hs s F -> In (q, fr) F -> FrameOK Hs s q old fr log b dis -> hokq s fr h -> live_h s h sl ->
  revf sl f <= cur s /\ sl_dur sl = 0.
Proof.
  intros I Hq FO Hh Hl.
  destruct Hh as [(l & m & id & Hm & Hv & Hin) | (id & Hin)].
  - assert (Hst : settled s (kq l)) by (exists m; rewrite loc_kq; auto).
    pose proof (settled_not_active prog skind idhash NF Hs s F (kq l) I Hst) as Hna.
    pose proof (si_memo _ _ _ _ _ _ _ I l m Hm) as Hok.
    destruct (mo_own _ _ _ _ _ _ _ _ Hok Hna id h Hin) as (sl0 & Hl0 & _ & Hd & A0 & A1 & _).
    assert (sl0 = sl) by (destruct Hl as (E1 & _), Hl0 as (E0 & _); rewrite E1 in E0; injection E0; auto). subst sl0.
    split; [|exact Hd]. unfold revf. destruct (f =? 0); lia.
  - apply (fo_active _ _ _ _ _ _ _ _ _ _ _ FO) in Hin. destruct Hin as (u & v & w & Hin).
    apply in_split in Hin. destruct Hin as (l1 & l2 & El).
    pose proof (fo_logged _ _ _ _ _ _ _ _ _ _ _ FO l1 _ l2 El) as Hlok. unfold lok in Hlok. cbn [fst snd] in Hlok.
    destruct Hlok as (h1 & sl1 & E1 & _ & Hl1 & _ & _ & Hd & A0 & A1 & _). injection E1 as <-.
    assert (sl1 = sl) by (destruct Hl as (E1 & _), Hl1 as (E0 & _); rewrite E1 in E0; injection E0; auto). subst sl1.
    split; [|exact Hd]. unfold revf. destruct (f =? 0); lia.
Qed.

Lemma lock_for_read Hs s F q old fr log b dis h s1 sl' :
  SInv Hs s F -> In (q, fr) F -> FrameOK Hs s q old fr log b dis -> hokq s fr h ->
  acquire_read_lock (fst h) s = (s1, SOk sl') ->
  SInv Hs s1 F /\ sext s s1 /\ live_h s1 h sl' /\ sl_updated sl' = Some (cur s) /\ sbs s s1 /\
  (forall f, revf sl' f <= cur s) /\ sl_dur sl' = 0 /\
  (forall e, In e (fr_ids fr) -> te_active e = false -> d_slots s1 (fst (te_id e)) = d_slots s (fst (te_id e))) /\
  (forall p frp h0, In (p, frp) F -> p <> q -> In h0 (frame_ids frp) -> d_slots s1 (fst h0) = d_slots s (fst h0)).
Proof.
  intros I Hq FO Hh H. pose proof (si_oinv _ _ _ _ _ _ _ I) as OI.
  destruct (hokq_live prog skind idhash NF Hnk Hs s F q fr h I Hq Hh) as (sl & Hl & Hother).
  destruct (lock_slots _ _ _ _ H) as (sl0 & Hsl0 & Hu0 & Hu' & Hqv & B & Es & _).
  assert (sl0 = sl) by (destruct Hl as (E1 & _); rewrite E1 in Hsl0; injection Hsl0; auto). subst sl0.
  destruct (lock_sinv prog skind idhash rank Hrank NF Hbound Hprov Hgk Hs s F (fst h) s1 sl' I H) as [I1 X].
  { intros sl2 Hs2. rewrite Hsl0 in Hs2. injection Hs2 as <-.
    assert (Eh : (fst h, sl_gen sl) = h).
    { destruct Hl as (_ & _ & Hg). rewrite Hg. symmetry. apply surjective_pairing. }
    rewrite Eh. exact (hokq_hok s F q fr h Hq Hh). }
  split; [exact I1|]. split; [exact X|].
  assert (Hl' : live_h s1 h sl').
  { split; [rewrite Es; apply updN_same|]. split; [rewrite Hu'; discriminate|].
    destruct Hqv as (Hg & _). destruct Hl as (_ & _ & Hg0). congruence. }
  split; [exact Hl'|]. split; [exact Hu'|]. split; [exact B|].
  split.
  { intros f. rewrite (seqv_revf _ _ f Hqv). exact (proj1 (hokq_revs Hs s F q old fr log b dis h sl f I Hq FO Hh Hl)). }
  split.
  { destruct Hqv as (_ & Hd & _). rewrite Hd. exact (proj2 (hokq_revs Hs s F q old fr log b dis h sl 0 I Hq FO Hh Hl)). }
  split.
  - intros e He Ha. rewrite Es. apply updN_other. intros E. exact (Hother e He Ha (eq_sym E)).
  - intros p frp h0 Hp Hne Hh0. rewrite Es. apply updN_other. intros E.
    assert (Ho0 : owns skind s F (OwF p) h0) by exact (owns_frame skind s F p frp h0 Hp Hh0).
    (* the locked handle is held by a memo or by the frame of q *)
    destruct Hh as [(l & m & id & Hm & Hv & Hin) | (id & Hin)].
    + assert (Hst : settled s (kq l)) by (exists m; rewrite loc_kq; auto).
      pose proof (settled_not_active prog skind idhash NF Hs s F (kq l) I Hst) as Hna. rewrite loc_kq in Hna.
      assert (Hom : owns skind s F (OwM l) h).
      { exists (mids m). split; [split; [exact Hna|]; exists m; rewrite (peek_nk skind Hnk); auto|].
        unfold mids. apply in_map_iff. exists (id, h). auto. }
      pose proof (oi_uniq _ _ _ OI _ _ _ _ Hom Ho0 E) as Eo. discriminate.
    + assert (Hoq : owns skind s F (OwF q) h).
      { apply (owns_frame skind s F q fr h Hq). unfold frame_ids. apply in_map_iff. exists (mk_entry id h true). auto. }
      pose proof (oi_uniq _ _ _ OI _ _ _ _ Hoq Ho0 E) as Eo. injection Eo as Eo. congruence.
Qed.

Lemma step_field Hs s F q old fr log h f k dis s1 v fr1 :
  SInv Hs s F -> In (q, fr) F -> FrameOK Hs s q old fr log (RdField h f k) dis -> hokq s fr h ->
  read_field h f fr s = (s1, SOk (v, fr1)) ->
  SInv Hs s1 (set_frame F q fr1) /\ sext s s1 /\ keepsq s s1 F q /\
  FrameOK Hs s1 q old fr1 (log ++ [(RFld h f, (v, []))]) (k v) dis /\
  (forall id h0, In (mk_entry id h0 true) (fr_ids fr) -> In (mk_entry id h0 true) (fr_ids fr1)).
Proof.
  intros I Hq FO Hh H. pose proof (si_oinv _ _ _ _ _ _ _ I) as OI.
  unfold read_field in H. apply bind_ok in H. destruct H as (sl' & t & H1 & H).
  destruct (lock_for_read Hs s F q old fr log _ dis h t sl' I Hq FO Hh H1) as (I1 & X & Hl' & Hu' & B & Hrevs & Hd' & Hfroz & Hother).
  pose proof (sext_cur _ _ X) as Hc1.
  assert (Ev : v = fldv sl' f /\ fr1 = add_read fr (EFld h f) (sl_dur sl') (revf sl' f) /\ t = s1).
  { unfold fldv, revf. destruct (f =? 0); apply ret_ok in H; destruct H as [-> E]; injection E as -> ->; auto. }
  destruct Ev as (-> & -> & ->). clear H.
  set (fr1 := add_read fr (EFld h f) (sl_dur sl') (revf sl' f)).
  pose proof (fo_le _ _ _ _ _ _ _ _ _ _ _ FO) as Hfle.
  assert (Eedges : fr_edges fr1 = add_edge (fr_edges fr) (EFld h f)).
  { unfold fr1, add_read. cbn. rewrite Hd'. reflexivity. }
  assert (FO1 : FrameOK Hs s1 q old fr1 (log ++ [(RFld h f, (fldv sl' f, []))]) (k (fldv sl' f)) dis).
  { apply (frame_read prog skind idhash NF Hs s s1 F q old fr fr1 log (RFld h f) (fldv sl' f, []) (RdField h f k) _ dis OI X FO).
    - discriminate.
    - intros e Ea. cbn in Ea. injection Ea as Ea. cbn [trace run]. rewrite Ea. auto.
    - unfold lok. cbn [fst snd]. exists sl'. split; [reflexivity|]. split; [exact Hl'|]. split; [rewrite Hc1; exact Hu'|].
      split; [rewrite Eedges; apply In_add_edge; right; reflexivity|]. unfold fr1, add_read, rev_max. cbn. lia.
    - constructor.
      + intros e He. rewrite Eedges. apply In_add_edge. left. exact He.
      + unfold fr1, add_read, rev_max. cbn. rewrite Hc1. pose proof (Hrevs f). lia.
      + auto.
      + auto.
    - reflexivity.
    - reflexivity.
    - unfold fr1, add_read, dur_min. cbn. rewrite Hd'. apply N.min_0_r.
    - unfold fr1, add_read. cbn [fr_changed set_fr_stamp]. apply stamp_max.
      + exact (cst_sext skind s s1 F log _ OI X (fo_stamp _ _ _ _ _ _ _ _ _ _ _ FO)).
      + cbn. split; [exact (live_issued skind s1 F h sl' (si_oinv _ _ _ _ _ _ _ I1) Hl')|].
        intros sl2 Hl2. assert (sl2 = sl') by (destruct Hl' as (E1 & _), Hl2 as (E2 & _); rewrite E1 in E2; injection E2; auto).
        subst sl2. lia.
    - unfold fr1, add_read. cbn. split; [auto|]. intros [A | [A | (cc & A)]]; [exact A | discriminate | discriminate].
    - intros e He. rewrite Eedges in He. apply In_add_edge in He. destruct He as [He | ->]; [left; exact He | right].
      split; [reflexivity | discriminate].
    - exact Eedges.
    - rewrite (sb_memo _ _ B). reflexivity.
    - exact Hfroz.
    - intros o Eold. pose proof (old_lt Hs s F q old fr log _ dis o I Hq FO Eold) as Hlt. split; [exact Hlt|].
      intros Hag.
      assert (Hino : In (RFld h f) (trr Hs s (m_verified o) q)).
      { eapply (old_head Hs s q old fr log (RdField h f k) dis o (RFld h f)); [exact FO | exact Hag | cbn [trace]; reflexivity]. }
      assert (Hmo : d_memo s1 (loc_of q) = Some o).
      { rewrite (sb_memo _ _ B), (fo_old _ _ _ _ _ _ _ _ _ _ _ FO). exact Eold. }
      destruct (si_active _ _ _ _ _ _ _ I q fr Hq) as [Hgq _].
      pose proof (memo_ok_of prog skind idhash NF Hs s1 F q o I1 Hgq Hmo) as Hoko.
      assert (EW : W Hs s1 (m_verified o) = W Hs s (m_verified o)) by (apply W_same_cur; [exact Hc1 | exact Hlt]).
      pose proof (mo_obs _ _ _ _ _ _ _ _ Hoko q (clos_refl _ _ _ _ _)) as Hdv.
      destruct (N.le_gt_cases (revf sl' f) (m_verified o)) as [Hle | Hgt].
      + left. cbn. f_equal. rewrite <- EW.
        apply (dv_fld _ _ _ _ _ _ _ _ Hdv h f sl'); [unfold SInv.trr; rewrite EW; exact Hino | exact Hl' | exact Hle].
      + right. unfold fr1, add_read, rev_max. cbn. lia. }
  split; [apply (SInv_set_frame prog skind idhash rank Hrank NF Hbound Hprov Hgk Hs s1 F q fr fr1 I1 Hq); reflexivity|].
  split; [exact X|]. split.
  { split; [exact (sb_stack _ _ B)|]. split; [intros p _; rewrite (sb_memo _ _ B); reflexivity | exact Hother]. }
  split; [exact FO1 | auto].
Qed.

Lemma step_idfield Hs s F q old fr log h k dis s1 v :
  SInv Hs s F -> In (q, fr) F -> FrameOK Hs s q old fr log (RdIdField h k) dis -> hokq s fr h -> fr_dur fr = 0 ->
  read_idfield h s = (s1, SOk v) ->
  SInv Hs s1 F /\ sext s s1 /\ keepsq s s1 F q /\
  FrameOK Hs s1 q old fr (log ++ [(RIdf h, (v, []))]) (k v) dis.
Proof.
  intros I Hq FO Hh Hdur H. pose proof (si_oinv _ _ _ _ _ _ _ I) as OI.
  unfold read_idfield in H. apply bind_ok in H. destruct H as (sl' & t & H1 & H).
  destruct (lock_for_read Hs s F q old fr log _ dis h t sl' I Hq FO Hh H1) as (I1 & X & Hl' & Hu' & B & Hrevs & Hd' & Hfroz & Hother).
  pose proof (sext_cur _ _ X) as Hc1.
  apply ret_ok in H. destruct H as [E1 ->]. subst t.
  split; [exact I1|]. split; [exact X|]. split.
  { split; [exact (sb_stack _ _ B)|]. split; [intros p _; rewrite (sb_memo _ _ B); reflexivity | exact Hother]. }
  apply (frame_read prog skind idhash NF Hs s s1 F q old fr fr log (RIdf h) (sl_idv sl', []) (RdIdField h k) _ dis OI X FO).
  - discriminate.
  - intros e Ea. cbn in Ea. injection Ea as Ea. cbn [trace run]. rewrite Ea. auto.
  - unfold lok. cbn [fst snd]. exists sl'. split; [reflexivity|]. split; [exact Hl' | rewrite Hc1; exact Hu'].
  - constructor; [auto | rewrite Hc1; pose proof (fo_le _ _ _ _ _ _ _ _ _ _ _ FO); lia | auto | auto].
  - reflexivity.
  - reflexivity.
  - exact Hdur.
  - apply cst_app. exact (cst_sext skind s s1 F log _ OI X (fo_stamp _ _ _ _ _ _ _ _ _ _ _ FO)).
  - split; [auto|]. intros [A | [A | (cc & A)]]; [exact A | discriminate | discriminate].
  - intros e He. left. exact He.
  - reflexivity.
  - rewrite (sb_memo _ _ B). reflexivity.
  - exact Hfroz.
  - intros o Eold. pose proof (old_lt Hs s F q old fr log _ dis o I Hq FO Eold) as Hlt. split; [exact Hlt|].
    intros Hag. left.
    assert (Hino : In (RIdf h) (trr Hs s (m_verified o) q)).
    { eapply (old_head Hs s q old fr log (RdIdField h k) dis o (RIdf h)); [exact FO | exact Hag | cbn [trace]; reflexivity]. }
    assert (Hmo : d_memo s1 (loc_of q) = Some o).
    { rewrite (sb_memo _ _ B), (fo_old _ _ _ _ _ _ _ _ _ _ _ FO). exact Eold. }
    destruct (si_active _ _ _ _ _ _ _ I q fr Hq) as [Hgq _].
    pose proof (memo_ok_of prog skind idhash NF Hs s1 F q o I1 Hgq Hmo) as Hoko.
    assert (EW : W Hs s1 (m_verified o) = W Hs s (m_verified o)) by (apply W_same_cur; [exact Hc1 | exact Hlt]).
    pose proof (mo_obs _ _ _ _ _ _ _ _ Hoko q (clos_refl _ _ _ _ _)) as Hdv.
    cbn. f_equal. rewrite <- EW.
    apply (dv_idf _ _ _ _ _ _ _ _ Hdv h sl'); [unfold SInv.trr; rewrite EW; exact Hino | exact Hl'].
Qed.

(* ---------------------------------------------------------------- a whole body *)
Lemma hokq_same_ids s fr fr1 h : fr_ids fr1 = fr_ids fr -> hokq s fr h -> hokq s fr1 h.
Proof. intros E [A | (id & Hin)]; [left; exact A | right; exists id; rewrite E; exact Hin]. Qed.

Theorem run_body_ok L Hs q old : fetch_spec L -> forall b, nospec b -> forall fr log dis K s F s' r,
  SInv Hs s F -> In (q, fr) F -> FrameOK Hs s q old fr log b dis -> cur s < GMAX ->
  (forall c, calls b c -> gk c /\ first_read (prog c)) ->
  (log = [] -> first_read b) ->
  (forall e, agrees e log -> prov idhash e b dis K) -> (forall h, In h K -> hokq s fr h) ->
  run_body skind [] idhash L q b fr s = (s', SOk r) ->
  exists log' dis', SInv Hs s' (set_frame F q (snd r)) /\ sext s s' /\ keepsq s s' F q /\
     FrameOK Hs s' q old (snd r) (log ++ log') (Ret (fst (fst r)) (snd (fst r))) dis' /\
     (forall h, In h (snd (fst r)) -> hokq s' (snd r) h).
Proof.
  intros HF b Hb.
  induction Hb as [v hs | i k Hk IH | c k Hk IH | c k Hk IH | k Hk IH | idv f0 f1 k Hk IH | h f k Hk IH | h k Hk IH];
    intros fr log dis K s F s' r I Hq FO Hcur Hcalls Hstart HP HK H; cbn [run_body] in H.
  - (* Ret *)
    apply ret_ok in H. destruct H as [-> ->]. cbn [fst snd]. exists [], dis.
    split; [apply (SInv_set_frame prog skind idhash rank Hrank NF Hbound Hprov Hgk Hs s F q fr fr I Hq); reflexivity|].
    split; [apply sext_refl|]. split; [apply keepsq_refl|]. split; [rewrite app_nil_r; exact FO|].
    intros h Hh. apply HK.
    pose proof (HP _ (senv_agrees s fr log (fo_logged _ _ _ _ _ _ _ _ _ _ _ FO) (fo_idents _ _ _ _ _ _ _ _ _ _ _ FO))) as Hp.
    cbn [prov] in Hp. exact (Hp h Hh).
  - (* RdIn *)
    apply bind_ok in H. destruct H as (x & t & H1 & H). apply get_ok in H1. destruct H1 as [-> ->].
    destruct (step_rdin Hs s F q old fr log i k dis I Hq FO) as [I1 FO1].
    set (fr1 := add_read fr (EIn i) (f_dur (d_in s i)) (f_changed (d_in s i))) in *.
    pose proof (si_oinv _ _ _ _ _ _ _ I) as OI.
    destruct (IH (f_val (d_in s i)) fr1 _ dis K s _ s' r I1 (in_set_frame_self F q fr fr1 (oi_frames _ _ _ OI) Hq) FO1 Hcur) as (log' & dis' & I' & X' & K' & FO' & HK').
    + intros c0 Hc0. apply Hcalls. eapply calls_in_rdin. exact Hc0.
    + intros E. apply app_eq_nil in E. destruct E as [_ E]. discriminate.
    + intros e Hag. apply agrees_app in Hag. destruct Hag as [Hag1 Hag2].
      specialize (HP e Hag1). cbn [prov] in HP. specialize (Hag2 _ _ (or_introl eq_refl)). cbn in Hag2. injection Hag2 as Hag2.
      rewrite Hag2 in HP. exact HP.
    + intros h0 Hh0. apply (hokq_same_ids s fr fr1 h0 eq_refl). exact (HK h0 Hh0).
    + exact H.
    + exists ((RIn i, (f_val (d_in s i), [])) :: log'), dis'. rewrite set_frame_twice in I'.
      split; [exact I'|]. split; [exact X'|]. split.
      { apply (keepsq_trans s s s' F q fr fr1 (oi_frames _ _ _ OI) Hq (keepsq_refl s F q) K'). }
      split; [|exact HK']. rewrite <- app_assoc in FO'. exact FO'.
  - (* CallQ *)
    apply bind_ok in H. destruct H as ([[a d] ch] & s1 & H1 & H).
    destruct (Hcalls c (calls_here c k)) as [Hgc Hfc].
    destruct (step_call L Hs s F q old fr log c k dis s1 a d ch HF I Hq FO Hgc Hfc Hcur H1) as (I1 & X1 & K1 & FO1 & HKa).
    set (fr1 := add_read fr (EQ c) d ch) in *.
    pose proof (si_oinv _ _ _ _ _ _ _ I) as OI.
    pose proof (sext_cur _ _ X1) as Hc1.
    destruct (IH a fr1 _ dis (snd a ++ K) s1 _ s' r I1 (in_set_frame_self F q fr fr1 (oi_frames _ _ _ OI) Hq) FO1) as (log' & dis' & I' & X' & K' & FO' & HK').
    + rewrite Hc1. exact Hcur.
    + intros c0 Hc0. apply Hcalls. eapply calls_in_call. exact Hc0.
    + intros E. apply app_eq_nil in E. destruct E as [_ E]. discriminate.
    + intros e Hag. apply agrees_app in Hag. destruct Hag as [Hag1 Hag2].
      specialize (HP e Hag1). cbn [prov] in HP. specialize (Hag2 _ _ (or_introl eq_refl)). cbn in Hag2.
      rewrite Hag2 in HP. exact HP.
    + intros h0 Hh0. apply in_app_or in Hh0. destruct Hh0 as [Hh0 | Hh0]; [exact (HKa h0 Hh0)|].
      apply (hokq_sext s s1 fr fr1 h0 X1); [auto | exact (HK h0 Hh0)].
    + exact H.
    + exists ((RQ c, a) :: log'), dis'. rewrite set_frame_twice in I'.
      split; [exact I'|]. split; [exact (sext_trans _ _ _ X1 X')|]. split.
      { destruct K1 as (A1 & B1 & C1).
        apply (keepsq_trans s s1 s' F q fr fr1 (oi_frames _ _ _ OI) Hq); [|exact K'].
        split; [exact A1|]. split; [exact B1|]. intros p frp h0 Hp _ Hh0. exact (C1 p frp h0 Hp Hh0). }
      split; [|exact HK']. rewrite <- app_assoc in FO'. exact FO'.
  - (* RdCell *)
    apply bind_ok in H. destruct H as (x & t & H1 & H). apply get_ok in H1. destruct H1 as [-> ->].
    destruct (step_untracked Hs s F q old fr log (RCell c) (d_cell s c, []) (RdCell c k) (k (d_cell s c)) dis I Hq FO) as [I1 FO1].
    { right. exists c. reflexivity. }
    { discriminate. }
    { intros c0 E. injection E as <-. reflexivity. }
    { intros e Ea. cbn in Ea. injection Ea as Ea. cbn [trace run]. rewrite Ea. auto. }
    set (fr1 := add_untracked fr (cur s)) in *.
    pose proof (si_oinv _ _ _ _ _ _ _ I) as OI.
    destruct (IH (d_cell s c) fr1 _ dis K s _ s' r I1 (in_set_frame_self F q fr fr1 (oi_frames _ _ _ OI) Hq) FO1 Hcur) as (log' & dis' & I' & X' & K' & FO' & HK').
    + intros c0 Hc0. apply Hcalls. eapply calls_in_cell. exact Hc0.
    + intros E. apply app_eq_nil in E. destruct E as [_ E]. discriminate.
    + intros e Hag. apply agrees_app in Hag. destruct Hag as [Hag1 Hag2].
      specialize (HP e Hag1). cbn [prov] in HP. specialize (Hag2 _ _ (or_introl eq_refl)). cbn in Hag2. injection Hag2 as Hag2.
      rewrite Hag2 in HP. exact HP.
    + intros h0 Hh0. apply (hokq_same_ids s fr fr1 h0 eq_refl). exact (HK h0 Hh0).
    + exact H.
    + exists ((RCell c, (d_cell s c, [])) :: log'), dis'. rewrite set_frame_twice in I'.
      split; [exact I'|]. split; [exact X'|]. split.
      { apply (keepsq_trans s s s' F q fr fr1 (oi_frames _ _ _ OI) Hq (keepsq_refl s F q) K'). }
      split; [|exact HK']. rewrite <- app_assoc in FO'. exact FO'.
  - (* Touch *)
    apply bind_ok in H. destruct H as (x & t & H1 & H). apply get_ok in H1. destruct H1 as [-> ->].
    destruct (step_untracked Hs s F q old fr log RTouch (0, []) (Touch k) k dis I Hq FO) as [I1 FO1].
    { left. reflexivity. }
    { reflexivity. }
    { intros c0 E. discriminate. }
    { intros e _. cbn [trace run]. auto. }
    set (fr1 := add_untracked fr (cur s)) in *.
    pose proof (si_oinv _ _ _ _ _ _ _ I) as OI.
    destruct (IH fr1 _ dis K s _ s' r I1 (in_set_frame_self F q fr fr1 (oi_frames _ _ _ OI) Hq) FO1 Hcur) as (log' & dis' & I' & X' & K' & FO' & HK').
    + intros c0 Hc0. apply Hcalls. eapply calls_in_touch. exact Hc0.
    + intros E. apply app_eq_nil in E. destruct E as [_ E]. discriminate.
    + intros e Hag. apply agrees_app in Hag. destruct Hag as [Hag1 _]. specialize (HP e Hag1). exact HP.
    + intros h0 Hh0. apply (hokq_same_ids s fr fr1 h0 eq_refl). exact (HK h0 Hh0).
    + exact H.
    + exists ((RTouch, (0, [])) :: log'), dis'. rewrite set_frame_twice in I'.
      split; [exact I'|]. split; [exact X'|]. split.
      { apply (keepsq_trans s s s' F q fr fr1 (oi_frames _ _ _ OI) Hq (keepsq_refl s F q) K'). }
      split; [|exact HK']. rewrite <- app_assoc in FO'. exact FO'.
  - (* NewStruct *)
    apply bind_ok in H. destruct H as ([hn fr1] & s1 & H1 & H). cbn [fst snd] in H.
    assert (Hlne : log <> []).
    { intros E. exact (Hstart E). }
    pose proof (si_oinv _ _ _ _ _ _ _ I) as OI.
    destruct (new_struct_sinv prog skind idhash rank Hrank NF Hbound Hprov Hgk Hnk Hs s F q old fr log idv f0 f1 k dis (l_fuel L) s1 hn fr1
                I Hq FO Hlne (gens_of_cur prog skind idhash NF Hs s F I Hcur) H1) as (I1 & X1 & FO1 & Hm1 & Hst1 & Hfz1).
    pose proof (sext_cur _ _ X1) as Hc1.
    destruct (IH hn fr1 _ (cnt_bump dis (idhash idv)) (hn :: K) s1 _ s' r I1 (in_set_frame_self F q fr fr1 (oi_frames _ _ _ OI) Hq) FO1) as (log' & dis' & I' & X' & K' & FO' & HK').
    + rewrite Hc1. exact Hcur.
    + intros c0 Hc0. apply Hcalls. eapply calls_in_new. exact Hc0.
    + intros E. apply app_eq_nil in E. destruct E as [_ E]. discriminate.
    + intros e Hag. apply agrees_app in Hag. destruct Hag as [Hag1 Hag2].
      specialize (HP e Hag1). cbn [prov] in HP. specialize (Hag2 _ _ (or_introl eq_refl)). cbn in Hag2. injection Hag2 as Hag2.
      rewrite Hag2 in HP. exact HP.
    + intros h0 [<- | Hh0].
      * right. exists (nident idhash dis idv).
        apply (fo_active _ _ _ _ _ _ _ _ _ _ _ FO1). exists idv, f0, f1. apply in_or_app. right. left. reflexivity.
      * apply (hokq_sext s s1 fr fr1 h0 X1); [|exact (HK h0 Hh0)].
        intros id0 h1 Hin. apply (fo_active _ _ _ _ _ _ _ _ _ _ _ FO1).
        apply (fo_active _ _ _ _ _ _ _ _ _ _ _ FO) in Hin. destruct Hin as (u & v & w & Hin).
        exists u, v, w. apply in_or_app. left. exact Hin.
    + exact H.
    + exists ((RNew (nident idhash dis idv) idv f0 f1, (0, [hn])) :: log'), dis'. rewrite set_frame_twice in I'.
      split; [exact I'|]. split; [exact (sext_trans _ _ _ X1 X')|]. split.
      { apply (keepsq_trans s s1 s' F q fr fr1 (oi_frames _ _ _ OI) Hq); [|exact K'].
        split; [exact Hst1|]. split; [intros p _; rewrite Hm1; reflexivity | exact Hfz1]. }
      split; [|exact HK']. rewrite <- app_assoc in FO'. exact FO'.
  - (* RdField *)
    apply bind_ok in H. destruct H as ([v fr1] & s1 & H1 & H). cbn [fst snd] in H.
    assert (HhK : hokq s fr h).
    { apply HK.
      pose proof (HP _ (senv_agrees s fr log (fo_logged _ _ _ _ _ _ _ _ _ _ _ FO) (fo_idents _ _ _ _ _ _ _ _ _ _ _ FO))) as Hp.
      cbn [prov] in Hp. exact (proj1 Hp). }
    pose proof (si_oinv _ _ _ _ _ _ _ I) as OI.
    destruct (step_field Hs s F q old fr log h f k dis s1 v fr1 I Hq FO HhK H1) as (I1 & X1 & K1 & FO1 & Hids1).
    pose proof (sext_cur _ _ X1) as Hc1.
    destruct (IH v fr1 _ dis K s1 _ s' r I1 (in_set_frame_self F q fr fr1 (oi_frames _ _ _ OI) Hq) FO1) as (log' & dis' & I' & X' & K' & FO' & HK').
    + rewrite Hc1. exact Hcur.
    + intros c0 Hc0. apply Hcalls. eapply calls_in_field. exact Hc0.
    + intros E. apply app_eq_nil in E. destruct E as [_ E]. discriminate.
    + intros e Hag. apply agrees_app in Hag. destruct Hag as [Hag1 Hag2].
      specialize (HP e Hag1). cbn [prov] in HP. destruct HP as [_ HP].
      specialize (Hag2 _ _ (or_introl eq_refl)). cbn in Hag2. injection Hag2 as Hag2.
      rewrite Hag2 in HP. exact HP.
    + intros h0 Hh0. apply (hokq_sext s s1 fr fr1 h0 X1 Hids1). exact (HK h0 Hh0).
    + exact H.
    + exists ((RFld h f, (v, [])) :: log'), dis'. rewrite set_frame_twice in I'.
      split; [exact I'|]. split; [exact (sext_trans _ _ _ X1 X')|]. split.
      { apply (keepsq_trans s s1 s' F q fr fr1 (oi_frames _ _ _ OI) Hq K1 K'). }
      split; [|exact HK']. rewrite <- app_assoc in FO'. exact FO'.
  - (* RdIdField *)
    apply bind_ok in H. destruct H as (v & s1 & H1 & H).
    assert (HhK : hokq s fr h).
    { apply HK.
      pose proof (HP _ (senv_agrees s fr log (fo_logged _ _ _ _ _ _ _ _ _ _ _ FO) (fo_idents _ _ _ _ _ _ _ _ _ _ _ FO))) as Hp.
      cbn [prov] in Hp. exact (proj1 Hp). }
    assert (Hlne : log <> []).
    { intros E. exact (Hstart E). }
    pose proof (si_oinv _ _ _ _ _ _ _ I) as OI.
    destruct (step_idfield Hs s F q old fr log h k dis s1 v I Hq FO HhK (fo_low _ _ _ _ _ _ _ _ _ _ _ FO Hlne) H1) as (I1 & X1 & K1 & FO1).
    pose proof (sext_cur _ _ X1) as Hc1.
    destruct (IH v fr _ dis K s1 F s' r I1 Hq FO1) as (log' & dis' & I' & X' & K' & FO' & HK').
    + rewrite Hc1. exact Hcur.
    + intros c0 Hc0. apply Hcalls. eapply calls_in_idfield. exact Hc0.
    + intros E. apply app_eq_nil in E. destruct E as [_ E]. discriminate.
    + intros e Hag. apply agrees_app in Hag. destruct Hag as [Hag1 Hag2].
      specialize (HP e Hag1). cbn [prov] in HP. destruct HP as [_ HP].
      specialize (Hag2 _ _ (or_introl eq_refl)). cbn in Hag2. injection Hag2 as Hag2.
      rewrite Hag2 in HP. exact HP.
    + intros h0 Hh0. apply (hokq_sext s s1 fr fr h0 X1); [auto | exact (HK h0 Hh0)].
    + exact H.
    + exists ((RIdf h, (v, [])) :: log'), dis'.
      split; [exact I'|]. split; [exact (sext_trans _ _ _ X1 X')|]. split.
      { destruct K1 as (A1 & B1 & C1), K' as (A2 & B2 & C2). split; [congruence|]. split.
        - intros p Hp. rewrite (B2 p) by (rewrite A1; exact Hp). exact (B1 p Hp).
        - intros p frp h0 Hp Hne Hh0. rewrite (C2 p frp h0 Hp Hne Hh0). exact (C1 p frp h0 Hp Hne Hh0). }
      split; [|exact HK']. rewrite <- app_assoc in FO'. exact FO'.
Qed.

End Body.

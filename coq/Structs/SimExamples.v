(* Structs/SimExamples.v — DSL programs are well-formed bodies; a handle-safe history with
   conditional creation, deletion (cascading into a memo keyed by the struct), re-creation in the
   reused slot (next generation) and a dependent that must re-execute. *)
From Salsa Require Import Base.
From Salsa.Structs Require Import Model Dsl Machine Guard Sim Examples.

(* every `specify` of the expression names a struct-keyed family *)
Fixpoint swf (skind : N -> bool) (e : expr) : bool :=
  match e with
  | ELit _ | EInp _ _ | ECell _ | ETouch | EField _ _ | EIdField _ | ECallS _ _ | ERetH _ => true
  | ECall _ k => swf skind k
  | EOp _ a b => swf skind a && swf skind b
  | EIf c a b => swf skind c && swf skind a && swf skind b
  | ELet _ h bd els => hswf skind h && swf skind bd && swf skind els
  | ESpecify fam _ v => skind fam && swf skind v
  end
with hswf (skind : N -> bool) (h : hexpr) : bool :=
  match h with
  | HNew a b c => swf skind a && swf skind b && swf skind c
  | HNth _ k _ => swf skind k
  | HNthS _ _ _ | HSelf | HVar _ => true
  end.

Scheme expr_mut := Induction for expr Sort Prop
  with hexpr_mut := Induction for hexpr Sort Prop.
Combined Scheme expr_hexpr_ind from expr_mut, hexpr_mut.

Section CompWf.
Variable skind : N -> bool.
Variable nk : N.
Variable self : option handle.

Lemma comp_bwf_both :
  (forall e, swf skind e = true -> forall env acc k, (forall v a, bwf skind (k v a)) ->
             bwf skind (comp nk self e env acc k)) /\
  (forall h, hswf skind h = true -> forall env acc k, (forall oh a, bwf skind (k oh a)) ->
             bwf skind (comph nk self h env acc k)).
Proof.
  apply expr_hexpr_ind; cbn [swf hswf comp comph].
  - intros v _ env acc k Hk. apply Hk.
  - intros i f _ env acc k Hk. constructor. intros v. apply Hk.
  - intros fam ke IH H env acc k Hk. apply IH; [exact H|]. intros v a. constructor. intros r. apply Hk.
  - intros c _ env acc k Hk. constructor. intros v. apply Hk.
  - intros _ env acc k Hk. constructor. apply Hk.
  - intros o a IHa b IHb H env acc k Hk. apply andb_true_iff in H. destruct H as [Ha Hb].
    apply IHa; [exact Ha|]. intros va a1. apply IHb; [exact Hb|]. intros vb a2. apply Hk.
  - intros c IHc a IHa b IHb H env acc k Hk. apply andb_true_iff in H. destruct H as [H Hb].
    apply andb_true_iff in H. destruct H as [Hc Ha].
    apply IHc; [exact Hc|]. intros vc a1. destruct (vc =? 0); [apply IHb | apply IHa]; auto.
  - intros x h IHh bd IHbd els IHels H env acc k Hk. apply andb_true_iff in H. destruct H as [H He].
    apply andb_true_iff in H. destruct H as [Hh Hb].
    apply IHh; [exact Hh|]. intros [hd|] a1; [apply IHbd | apply IHels]; auto.
  - intros x f _ env acc k Hk. destruct (env_get env x); [constructor; intros v|]; apply Hk.
  - intros x _ env acc k Hk. destruct (env_get env x); [constructor; intros v|]; apply Hk.
  - intros fam x _ env acc k Hk. destruct (env_get env x); [constructor; intros v|]; apply Hk.
  - intros fam x v IHv H env acc k Hk. apply andb_true_iff in H. destruct H as [Hf Hv].
    apply IHv; [exact Hv|]. intros vv a1. destruct (env_get env x); [constructor; [exact Hf|]|]; apply Hk.
  - intros x _ env acc k Hk. destruct (env_get env x); apply Hk.
  - intros a IHa b IHb c IHc H env acc k Hk. apply andb_true_iff in H. destruct H as [H Hc].
    apply andb_true_iff in H. destruct H as [Ha Hb].
    apply IHa; [exact Ha|]. intros va a1. apply IHb; [exact Hb|]. intros vb a2. apply IHc; [exact Hc|].
    intros vc a3. constructor. intros hd. apply Hk.
  - intros fam ke IH i H env acc k Hk. apply IH; [exact H|]. intros kv a1. constructor. intros r. apply Hk.
  - intros fam x i _ env acc k Hk. destruct (env_get env x); [constructor; intros r|]; apply Hk.
  - intros _ env acc k Hk. apply Hk.
  - intros x _ env acc k Hk. apply Hk.
Qed.

Lemma compile_bwf e : swf skind e = true -> bwf skind (compile nk self e).
Proof. intros H. unfold compile. apply (proj1 comp_bwf_both e H). intros v a. constructor. Qed.
End CompWf.

Lemma lookup_node_swf skind tbl : forallb (fun ne => swf skind (snd ne)) tbl = true ->
  forall q, swf skind (lookup_node tbl q) = true.
Proof.
  induction tbl as [|[q' e] tbl IH]; intros H q; cbn [lookup_node]; [reflexivity|].
  cbn [forallb snd] in H. apply andb_true_iff in H. destruct H as [He Ht].
  destruct (key_eqb q' q); [exact He | exact (IH Ht q)].
Qed.

Theorem prog_of_bwf nk skind tbl :
  forallb (fun ne => swf skind (snd ne)) tbl = true -> forall q, bwf skind (prog_of nk skind tbl q).
Proof.
  intros H q. unfold prog_of. destruct (skind (fst q)).
  - constructor. intros idv. apply compile_bwf. apply lookup_node_swf. exact H.
  - apply compile_bwf. apply lookup_node_swf. exact H.
Qed.

(* ---- the history ----
   mk  = (1,0): if in(0,0) then S := new(id = in(0,1), f0 = in(0,2), f1 = 0); return [S]
   onS = (2,_): keyed by a struct: field 0 of the key + 1
   rd  = (4,0): S := first struct of mk(0) ; field0(S) + onS(S)   (99 when mk created nothing) *)
Definition rc_nodes : list ((N * N) * expr) :=
  [((1, 0), EIf (EInp 0 0) (ELet 2 (HNew (EInp 0 1) (EInp 0 2) (ELit 0)) (ERetH 2) (ELit 0)) (ELit 0));
   ((2, 0), ELet 0 HSelf (EOp BAdd (EField 0 0) (ELit 1)) (ELit 0));
   ((4, 0), ELet 2 (HNth 1 (ELit 0) 0) (EOp BAdd (EField 2 0) (ECallS 2 2)) (ELit 99))].
Definition rc_ival : list ((N * N) * N) := [((0, 0), 1); ((0, 1), 0); ((0, 2), 3)].
Definition rc_idur : list ((N * N) * N) := [].
Definition rc_ops : list op :=
  [OGet (4, (0, 0)); OEntries; OSet (0, 0) 0 None; OGet (4, (0, 0)); OEntries;
   OSet (0, 2) 5 None; OSet (0, 0) 1 None; OGet (4, (0, 0)); OGet (1, (0, 0)); OEntries].
Definition rc_nk : N := 1.
Definition rc_idhash (v : val) : N := v.

Notation rc_prog := (prog_of rc_nk skind5 rc_nodes).
Notation rc_init := (init (lookup3 rc_ival) (lookup3 rc_idur)).

Example rc_bwf : forall q, bwf skind5 (rc_prog q).
Proof. apply prog_of_bwf. vm_compute. reflexivity. Qed.

Example rc_handle_safe : handle_safe rc_prog skind5 sfams5 rc_idhash 40%nat rc_init rc_ops = true.
Proof. vm_compute. reflexivity. Qed.

(* the struct is created at (0,0), deleted, and re-created in the reused slot as (0,1); the
   dependent rd re-executes each time: 3 + 4, 99, 5 + 6 *)
Example rc_outputs :
  snd (run_case rc_nodes rc_ival rc_idur rc_ops rc_nk rc_idhash) =
  [SOk (7, []); SOk (1, []); SOk (0, []); SOk (99, []); SOk (0, []);
   SOk (0, []); SOk (0, []); SOk (11, []); SOk (0, [(0, 1)]); SOk (1, [])].
Proof. vm_compute. reflexivity. Qed.

Example rc_invariant :
  OInv skind5 (fst (run_case rc_nodes rc_ival rc_idur rc_ops rc_nk rc_idhash)) [] /\
  d_stack (fst (run_case rc_nodes rc_ival rc_idur rc_ops rc_nk rc_idhash)) = [].
Proof.
  destruct (model_invariant_every_op rc_prog skind5 sfams5 rc_idhash sfams5_skind rc_bwf 40%nat
              (lookup3 rc_ival) (lookup3 rc_idur) rc_ops rc_handle_safe rc_ops [] (eq_sym (app_nil_r _)))
    as (_ & I & E).
  exact (conj I E).
Qed.

(* Structs/ProofsCascade.v — what a successful deletion cascade (delete_entity / clear_memos)
   does to the slot store, for every store and every id: exactly the slots of a set [ext] of
   handles die (write-lock None, memo table reset, pushed on the free list in order), each of
   them was live and not read-locked in this revision, nothing else changes, and every dead
   handle is a root or was listed by a memo of another handle that died. *)
From Salsa Require Import Base.
From Salsa.Kern Require Import CoreK.
From Salsa.Structs Require Import Model ProofsBase.

Definition dead (sl : slot) : slot := set_sl_memos (set_sl_updated sl None) (fun _ => None).
Definition memo_ids (m : memo) : list handle := map snd (m_structs m).

(* c is listed by a memo stored in p's slot *)
Definition child_of (sfams : list N) (s : db) (p c : handle) : Prop :=
  exists sl fam m, d_slots s (fst p) = Some sl /\ In fam sfams /\ sl_memos sl fam = Some m /\ In c (memo_ids m).

Record casc (s s' : db) (ext : list handle) : Prop := {
  cs_revs : d_revs s' = d_revs s;
  cs_cc : d_ccount s' = d_ccount s;
  cs_in : d_in s' = d_in s;
  cs_cell : d_cell s' = d_cell s;
  cs_memo : d_memo s' = d_memo s;
  cs_nslots : d_nslots s' = d_nslots s;
  cs_stack : d_stack s' = d_stack s;
  cs_cname : d_cname s' = d_cname s;
  cs_ideal : d_ideal s' = d_ideal s;
  cs_free : d_free s' = d_free s ++ ext;
  cs_nodup : NoDup (map fst ext);
  cs_died : forall c, In c ext ->
      exists sl, d_slots s (fst c) = Some sl /\ sl_updated sl <> None /\
                 sl_updated sl <> Some (cur s) /\ d_slots s' (fst c) = Some (dead sl);
  cs_other : forall j, ~ In j (map fst ext) -> d_slots s' j = d_slots s j
}.

Definition parents (sfams : list N) (s : db) (roots ext : list handle) : Prop :=
  forall c, In c ext -> In c roots \/ exists p, In p ext /\ child_of sfams s p c.

Lemma casc_refl s : casc s s [].
Proof.
  constructor; try reflexivity.
  - now rewrite app_nil_r.
  - constructor.
  - intros c [].
Qed.

Lemma casc_cur s s' e : casc s s' e -> cur s' = cur s.
Proof. intros H. unfold cur. now rewrite (cs_revs _ _ _ H). Qed.

(* only the log changed *)
Lemma casc_log s l : casc s (set_log s l) [].
Proof.
  constructor; try reflexivity.
  - cbn. now rewrite app_nil_r.
  - constructor.
  - intros c [].
Qed.

Lemma casc_trans s s1 s2 e1 e2 :
  casc s s1 e1 -> casc s1 s2 e2 -> casc s s2 (e1 ++ e2).
Proof.
  intros A B.
  assert (Hdisj : forall c1 c2, In c1 e1 -> In c2 e2 -> fst c1 <> fst c2).
  { intros c1 c2 H1 H2 E.
    destruct (cs_died _ _ _ A c1 H1) as (sl & _ & _ & _ & Hd).
    destruct (cs_died _ _ _ B c2 H2) as (sl2 & Hs & Hu & _).
    rewrite <- E, Hd in Hs. injection Hs as <-. apply Hu. reflexivity. }
  constructor.
  - now rewrite (cs_revs _ _ _ B), (cs_revs _ _ _ A).
  - now rewrite (cs_cc _ _ _ B), (cs_cc _ _ _ A).
  - now rewrite (cs_in _ _ _ B), (cs_in _ _ _ A).
  - now rewrite (cs_cell _ _ _ B), (cs_cell _ _ _ A).
  - now rewrite (cs_memo _ _ _ B), (cs_memo _ _ _ A).
  - now rewrite (cs_nslots _ _ _ B), (cs_nslots _ _ _ A).
  - now rewrite (cs_stack _ _ _ B), (cs_stack _ _ _ A).
  - now rewrite (cs_cname _ _ _ B), (cs_cname _ _ _ A).
  - now rewrite (cs_ideal _ _ _ B), (cs_ideal _ _ _ A).
  - rewrite (cs_free _ _ _ B), (cs_free _ _ _ A). now rewrite app_assoc.
  - rewrite map_app. apply nodup_app.
    + exact (cs_nodup _ _ _ A).
    + exact (cs_nodup _ _ _ B).
    + intros j H1 H2. apply in_map_iff in H1. destruct H1 as (c1 & <- & H1).
      apply in_map_iff in H2. destruct H2 as (c2 & E & H2). exact (Hdisj c1 c2 H1 H2 (eq_sym E)).
  - intros c Hc. apply in_app_or in Hc. destruct Hc as [Hc | Hc].
    + destruct (cs_died _ _ _ A c Hc) as (sl & Hs & Hu & Hl & Hd).
      exists sl. repeat split; auto.
      rewrite (cs_other _ _ _ B); [exact Hd|].
      intros Hin. apply in_map_iff in Hin. destruct Hin as (c2 & E & H2).
      exact (Hdisj c c2 Hc H2 (eq_sym E)).
    + destruct (cs_died _ _ _ B c Hc) as (sl & Hs & Hu & Hl & Hd).
      exists sl. rewrite (casc_cur _ _ _ A) in Hl. repeat split; auto.
      rewrite <- (cs_other _ _ _ A); [exact Hs|].
      intros Hin. apply in_map_iff in Hin. destruct Hin as (c1 & E & H1).
      exact (Hdisj c1 c H1 Hc E).
  - intros j Hj. rewrite map_app in Hj.
    rewrite (cs_other _ _ _ B), (cs_other _ _ _ A); [reflexivity | | ];
      intros Hin; apply Hj; apply in_or_app; auto.
Qed.

(* ---- primitive steps ---- *)
Lemma get_slot_ok i s s' sl : get_slot i s = (s', SOk sl) -> s' = s /\ d_slots s i = Some sl.
Proof.
  unfold get_slot. intros H. msplit H as x t H1. mstep H1.
  destruct (d_slots s i) eqn:E; [mstep H; auto | mstep H].
Qed.

Lemma put_slot_ok i sl s s' u : put_slot i sl s = (s', SOk u) -> s' = set_slots s (updN (d_slots s) i (Some sl)).
Proof. unfold put_slot. intros H. mstep H. reflexivity. Qed.

Lemma emit_ok e s s' u : emit e s = (s', SOk u) -> s' = set_log s (e :: d_log s).
Proof. unfold emit. intros H. mstep H. reflexivity. Qed.

Lemma dead_memos sl fam : sl_memos (dead sl) fam = None.
Proof. reflexivity. Qed.

Lemma dead_updated sl : sl_updated (dead sl) = None.
Proof. reflexivity. Qed.

Section Casc.
Variable sfams : list N.

(* slots that died hold no memos, so a parent/child link seen later was there before *)
Lemma child_of_back s s1 e p c : casc s s1 e -> child_of sfams s1 p c -> child_of sfams s p c.
Proof.
  intros A (sl & fam & m & Hs & Hf & Hm & Hc).
  destruct (in_dec N.eq_dec (fst p) (map fst e)) as [Hin | Hnin].
  - apply in_map_iff in Hin. destruct Hin as (c1 & E & H1).
    destruct (cs_died _ _ _ A c1 H1) as (sl0 & _ & _ & _ & Hd).
    rewrite E, Hs in Hd. injection Hd as ->. rewrite dead_memos in Hm. discriminate.
  - exists sl, fam, m. rewrite <- (cs_other _ _ _ A _ Hnin). auto.
Qed.

Lemma iterM_casc {A} (f : A -> M unit) (roots : A -> list handle) :
  forall l s s',
  (forall x s1 s2, In x l -> f x s1 = (s2, SOk tt) ->
     exists e, casc s1 s2 e /\ parents sfams s1 (roots x) e /\ (forall r, In r (roots x) -> In r e)) ->
  iterM f l s = (s', SOk tt) ->
  exists e, casc s s' e /\ parents sfams s (flat_map roots l) e /\
            (forall r, In r (flat_map roots l) -> In r e).
Proof.
  induction l as [|x l IH]; intros s s' Hf H; cbn [iterM flat_map] in *.
  - mstep H. exists []. split; [apply casc_refl|]. split; [intros c []| intros r []].
  - msplit H as u t H1. destruct u.
    destruct (Hf x s t (or_introl eq_refl) H1) as (e1 & A1 & P1 & R1).
    destruct (IH t s' (fun y s1 s2 Hy => Hf y s1 s2 (or_intror Hy)) H) as (e2 & A2 & P2 & R2).
    exists (e1 ++ e2). split; [exact (casc_trans _ _ _ _ _ A1 A2)|]. split.
    + intros c Hc. apply in_app_or in Hc. destruct Hc as [Hc | Hc].
      * destruct (P1 c Hc) as [Hr | (p & Hp & Hch)].
        -- left. apply in_or_app; auto.
        -- right. exists p. split; [apply in_or_app; auto | exact Hch].
      * destruct (P2 c Hc) as [Hr | (p & Hp & Hch)].
        -- left. apply in_or_app; auto.
        -- right. exists p. split; [apply in_or_app; auto | exact (child_of_back _ _ _ _ _ A1 Hch)].
    + intros r Hr. apply in_app_or in Hr. apply in_or_app. destruct Hr; auto.
Qed.

Definition memo_roots (sl : slot) (fam : N) : list handle :=
  match sl_memos sl fam with Some m => memo_ids m | None => [] end.

(* the children loop of one memo table *)
Lemma children_casc n' (sl : slot) :
  (forall h s s', delete_entity sfams n' h s = (s', SOk tt) ->
     exists e, casc s s' e /\ In h e /\ parents sfams s [h] e) ->
  forall (hd : handle) s s',
  iterM (fun fam =>
           match sl_memos sl fam with
           | None => ret tt
           | Some m => emit (EvDiscardM (fam, hd)) ;;; iterM (fun kv => delete_entity sfams n' (snd kv)) (m_structs m)
           end) sfams s = (s', SOk tt) ->
  exists e, casc s s' e /\ parents sfams s (flat_map (memo_roots sl) sfams) e /\
            (forall r, In r (flat_map (memo_roots sl) sfams) -> In r e).
Proof.
  intros IHn hd s s' H.
  refine (iterM_casc _ (memo_roots sl) sfams s s' _ H).
  intros fam s1 s2 _ Hf. unfold memo_roots. destruct (sl_memos sl fam) as [m|].
  - msplit Hf as u t H1. apply emit_ok in H1. subst t.
    assert (Hinner : exists e, casc (set_log s1 (EvDiscardM (fam, hd) :: d_log s1)) s2 e /\
                               parents sfams (set_log s1 (EvDiscardM (fam, hd) :: d_log s1))
                                       (flat_map (fun kv : ident * handle => [snd kv]) (m_structs m)) e /\
                               (forall r, In r (flat_map (fun kv : ident * handle => [snd kv]) (m_structs m)) -> In r e)).
    { refine (iterM_casc _ (fun kv : ident * handle => [snd kv]) (m_structs m) _ s2 _ Hf).
      intros kv t1 t2 _ Hd. destruct (IHn _ _ _ Hd) as (e & A & Hin & P).
      exists e. split; [exact A|]. split; [exact P|]. intros r [<- | []]. exact Hin. }
    destruct Hinner as (e & A & P & R).
    assert (Hflat : forall r, In r (flat_map (fun kv : ident * handle => [snd kv]) (m_structs m)) <-> In r (memo_ids m)).
    { intros r. unfold memo_ids. rewrite in_flat_map, in_map_iff. split.
      - intros (kv & Hkv & [<- | []]). eauto.
      - intros (kv & <- & Hkv). exists kv. split; [exact Hkv | left; reflexivity]. }
    exists e. split.
    + pose proof (casc_trans _ _ _ _ _ (casc_log s1 (EvDiscardM (fam, hd) :: d_log s1)) A) as T. exact T.
    + split.
      * intros c Hc. destruct (P c Hc) as [Hr | (p & Hp & Hch)].
        -- left. apply Hflat. exact Hr.
        -- right. exists p. split; [exact Hp|].
           destruct Hch as (slp & f2 & m2 & Hs & Hf2 & Hm & Hcc). exists slp, f2, m2. auto.
      * intros r Hr. apply R. apply Hflat. exact Hr.
  - mstep Hf. exists []. split; [apply casc_refl|]. split; [intros c [] | intros r []].
Qed.

Lemma in_memo_roots sl c : In c (flat_map (memo_roots sl) sfams) ->
  exists fam m, In fam sfams /\ sl_memos sl fam = Some m /\ In c (memo_ids m).
Proof.
  rewrite in_flat_map. intros (fam & Hf & Hc). unfold memo_roots in Hc.
  destruct (sl_memos sl fam) as [m|] eqn:E; [|destruct Hc]. eauto.
Qed.

(* delete_entity: the cascade from one id *)
Lemma delete_casc : forall n h s s', delete_entity sfams n h s = (s', SOk tt) ->
  exists e, casc s s' e /\ In h e /\ parents sfams s [h] e.
Proof.
  induction n as [|n' IHn]; intros h s s' H; cbn [delete_entity] in H; [mstep H|].
  msplit H as u0 t0 H0. apply emit_ok in H0. subst t0.
  msplit H as sl t1 H1. apply get_slot_ok in H1. destruct H1 as [-> Hsl]. cbn [set_log d_slots] in Hsl.
  msplit H as x t2 H2. mstep H2.
  destruct (sl_updated sl) as [r|] eqn:Hupd; [|mstep H].
  destruct (N.eqb_spec r (cur (set_log s (EvDiscardS h :: d_log s)))) as [Hr | Hr]; [mstep H|].
  change (cur (set_log s (EvDiscardS h :: d_log s))) with (cur s) in Hr.
  msplit H as u3 t3 H3. apply put_slot_ok in H3. subst t3.
  msplit H as u4 t4 H4. destruct u4.
  set (sA := set_slots (set_log s (EvDiscardS h :: d_log s))
                       (updN (d_slots (set_log s (EvDiscardS h :: d_log s))) (fst h) (Some (set_sl_updated sl None)))) in *.
  destruct (children_casc n' sl IHn h sA t4 H4) as (e & A & P & R).
  msplit H as sl2 t5 H5. apply get_slot_ok in H5. destruct H5 as [-> Hsl2].
  msplit H as u6 t6 H6. apply put_slot_ok in H6. subst t6.
  mstep H.
  (* the root slot is not among the children's dead *)
  assert (HsA : d_slots sA (fst h) = Some (set_sl_updated sl None)).
  { unfold sA. cbn [set_slots d_slots]. apply updN_same. }
  assert (Hroot : ~ In (fst h) (map fst e)).
  { intros Hin. apply in_map_iff in Hin. destruct Hin as (c & E & Hc).
    destruct (cs_died _ _ _ A c Hc) as (slc & Hs & Hu & _).
    rewrite E, HsA in Hs. injection Hs as <-. apply Hu. reflexivity. }
  assert (Ha3 : sl2 = set_sl_updated sl None).
  { rewrite (cs_other _ _ _ A _ Hroot), HsA in Hsl2. injection Hsl2; auto. }
  subst sl2.
  assert (HsAo : forall j, j <> fst h -> d_slots sA j = d_slots s j).
  { intros j Hj. unfold sA. cbn [set_slots d_slots set_log]. apply updN_other. congruence. }
  exists (e ++ [h]). split; [|split].
  - constructor; cbn [set_free set_slots set_log d_revs d_ccount d_in d_cell d_memo d_nslots d_stack d_cname d_ideal d_free d_slots].
    + exact (cs_revs _ _ _ A).
    + exact (cs_cc _ _ _ A).
    + exact (cs_in _ _ _ A).
    + exact (cs_cell _ _ _ A).
    + exact (cs_memo _ _ _ A).
    + exact (cs_nslots _ _ _ A).
    + exact (cs_stack _ _ _ A).
    + exact (cs_cname _ _ _ A).
    + exact (cs_ideal _ _ _ A).
    + rewrite (cs_free _ _ _ A). unfold sA. cbn [set_slots set_log d_free]. now rewrite app_assoc.
    + rewrite map_app. apply nodup_app; [exact (cs_nodup _ _ _ A) | cbn; constructor; [intros []|constructor] |].
      intros j Hj [<- | []]. exact (Hroot Hj).
    + intros c Hc. apply in_app_or in Hc. destruct Hc as [Hc | [<- | []]].
      * destruct (cs_died _ _ _ A c Hc) as (slc & Hs & Hu & Hl & Hd).
        assert (Hne : fst c <> fst h).
        { intros E. apply Hroot. rewrite <- E. apply in_map. exact Hc. }
        exists slc. rewrite HsAo in Hs by exact Hne. repeat split; auto.
        rewrite updN_other by congruence. exact Hd.
      * exists sl. repeat split.
        -- exact Hsl.
        -- rewrite Hupd. discriminate.
        -- rewrite Hupd. intros E. injection E as E. exact (Hr E).
        -- rewrite updN_same. reflexivity.
    + intros j Hj. rewrite map_app in Hj.
      assert (Hjh : j <> fst h). { intros ->. apply Hj. apply in_or_app. right. left. reflexivity. }
      rewrite updN_other by congruence.
      rewrite (cs_other _ _ _ A); [apply HsAo; exact Hjh|].
      intros Hin. apply Hj. apply in_or_app. auto.
  - apply in_or_app. right. left. reflexivity.
  - intros c Hc. apply in_app_or in Hc. destruct Hc as [Hc | [<- | []]]; [|left; left; reflexivity].
    right. destruct (P c Hc) as [Hroots | (p & Hp & Hch)].
    + exists h. split; [apply in_or_app; right; left; reflexivity|].
      destruct (in_memo_roots _ _ Hroots) as (fam & m & Hf & Hm & Hcm).
      exists sl, fam, m. auto.
    + exists p. split; [apply in_or_app; auto|].
      destruct Hch as (slp & fam & m & Hs & Hf & Hm & Hcm).
      assert (Hne : fst p <> fst h).
      { intros E. apply Hroot. rewrite <- E. apply in_map. exact Hp. }
      exists slp, fam, m. rewrite <- (HsAo _ Hne). auto.
Qed.

(* clear_memos (the `update` path): the root slot stays, its memo table is reset *)
Lemma clear_memos_casc n h s s' sl :
  d_slots s (fst h) = Some sl -> sl_updated sl = None ->
  clear_memos sfams n h s = (s', SOk tt) ->
  exists e s1, casc s s1 e /\ ~ In (fst h) (map fst e) /\
               s' = set_slots s1 (updN (d_slots s1) (fst h) (Some (set_sl_memos sl (fun _ => None)))) /\
               parents sfams s (flat_map (memo_roots sl) sfams) e /\
               (forall r, In r (flat_map (memo_roots sl) sfams) -> In r e).
Proof.
  intros Hsl Hupd H. unfold clear_memos in H.
  msplit H as sl0 t0 H0. apply get_slot_ok in H0. destruct H0 as [-> Hsl']. rewrite Hsl in Hsl'. injection Hsl' as <-.
  msplit H as u1 t1 H1. destruct u1.
  destruct (children_casc n sl (delete_casc n) h s t1 H1) as (e & A & P & R).
  msplit H as sl2 t2 H2. apply get_slot_ok in H2. destruct H2 as [-> Hsl2].
  apply put_slot_ok in H.
  assert (Hroot : ~ In (fst h) (map fst e)).
  { intros Hin. apply in_map_iff in Hin. destruct Hin as (c & E & Hc).
    destruct (cs_died _ _ _ A c Hc) as (slc & Hs & Hu & _).
    rewrite E, Hsl in Hs. injection Hs as <-. exact (Hu Hupd). }
  rewrite (cs_other _ _ _ A _ Hroot), Hsl in Hsl2. injection Hsl2 as <-.
  exists e, t1. auto.
Qed.

End Casc.

(* Structs/SLock.v — taking a read lock (a field read) preserves the from-scratch invariant. *)
From Salsa Require Import Base.
From Salsa.Kern Require Import CoreK CoreKFacts.
From Salsa.Structs Require Import Model ProofsBase ProofsCascade Machine ProofsInv ProofsStep Theorems Guard SimBase SimOps SSem SInv SStable SSlots.

Section Lock.
Variable prog : qk -> body.
Variable skind : N -> bool.
Variable idhash : val -> N.
Variable rank : qk -> nat.
Hypothesis Hrank : calls_below prog rank.
Variable NF : nat.
Hypothesis Hbound : forall q, (rank q < NF)%nat.
Hypothesis Hprov : no_forge idhash prog.
Hypothesis Hgk : forall q d, calls (prog q) d -> gk d.

Notation SInv := (SInv prog skind idhash NF).

(* the slot-level effect of a lock *)
Lemma lock_slots i s s' sl' :
  acquire_read_lock i s = (s', SOk sl') ->
  exists sl, d_slots s i = Some sl /\ sl_updated sl <> None /\ sl_updated sl' = Some (cur s) /\
             seqv sl sl' /\ sbs s s' /\
             (forall j, d_slots s' j = updN (d_slots s) i (Some sl') j) /\
             (sl_updated sl = Some (cur s) -> sl' = sl).
Proof.
  intros H. destruct (lock_spec _ _ _ _ H) as (sl & Hsl & Hu & Hu' & Hg & Hm & Hf & Hd & Hr0 & Hr1 & B & _ & Es).
  exists sl. split; [exact Hsl|]. split; [exact Hu|]. split; [exact Hu'|].
  split; [repeat split; assumption|]. split; [exact B|]. split; [exact Es|].
  intros Hl. unfold acquire_read_lock in H.
  apply bind_ok in H. destruct H as (sl0 & t0 & H0 & H). apply get_slot_ok in H0. destruct H0 as [-> Hs0].
  rewrite Hsl in Hs0. injection Hs0 as <-.
  apply bind_ok in H. destruct H as (x & t1 & H1 & H). apply get_ok in H1. destruct H1 as [-> ->].
  rewrite Hl in H. rewrite N.eqb_refl in H. apply ret_ok in H. destruct H as [_ ->]. reflexivity.
Qed.

Lemma lock_sext i s s' sl' : acquire_read_lock i s = (s', SOk sl') -> sext s s'.
Proof.
  intros H. destruct (lock_slots _ _ _ _ H) as (sl & Hsl & Hu & Hu' & Hq & B & Es & Hsame).
  destruct Hq as (Hg & Hd & Hf & Hr0 & Hr1).
  constructor.
  - exact (sb_revs _ _ B).
  - exact (sb_in _ _ B).
  - exact (sb_cell _ _ B).
  - intros l m Hm _. rewrite (sb_memo _ _ B). exact Hm.
  - intros l m Hm. exists m. rewrite (sb_memo _ _ B). split; [exact Hm|]. split; lia.
  - intros j slj Hj Hl. rewrite Es. unfold updN. destruct (N.eqb_spec i j) as [<- | Hne]; [|exact Hj].
    rewrite Hsl in Hj. injection Hj as <-. rewrite (Hsame Hl). reflexivity.
  - intros l m id h _ _ _ slh Hh Huh. rewrite Es. unfold updN. destruct (N.eqb_spec i (fst h)) as [E | Hne].
    + rewrite <- E in Hh. rewrite Hsl in Hh. injection Hh as <-.
      exists sl'. split; [reflexivity|]. split; [rewrite Hu'; discriminate|]. repeat split; assumption.
    + exists slh. repeat split; auto.
  - intros j slj Hj. rewrite Es. unfold updN. destruct (N.eqb_spec i j) as [<- | Hne].
    + rewrite Hsl in Hj. injection Hj as <-. exists sl'. split; [reflexivity|]. split; [lia|].
      intros _ _. split; [exact Hu|]. split; [lia|]. split; [lia|].
      rewrite <- !idv3_slot. now rewrite Hf.
    + exists slj. split; [exact Hj|]. split; [lia|]. intros _ Huj. repeat split; auto; lia.
  - unfold issued. rewrite (sb_ideal _ _ B). intros x Hx. exact Hx.
Qed.

(* the struct in the slot is held by a memo verified now or by a running execution *)
Definition hok (s : db) (F : frames) (h : handle) : Prop :=
  (exists l m id, d_memo s l = Some m /\ m_verified m = cur s /\ In (id, h) (m_structs m)) \/
  (exists q fr id, In (q, fr) F /\ In (mk_entry id h true) (fr_ids fr)).

Theorem lock_sinv Hs s F i s' sl' :
  SInv Hs s F -> acquire_read_lock i s = (s', SOk sl') ->
  (forall sl, d_slots s i = Some sl -> hok s F (i, sl_gen sl)) ->
  SInv Hs s' F /\ sext s s'.
Proof.
  intros I H Hhok. pose proof (lock_sext _ _ _ _ H) as X. split; [|exact X].
  destruct (lock_slots _ _ _ _ H) as (sl & Hsl & Hu & Hu' & Hq & B & Es & Hsame).
  pose proof (lock_oinv skind _ _ _ _ _ (si_oinv _ _ _ _ _ _ _ I) H) as OI'.
  destruct (lock_rel skind (d_stack s) _ _ _ _ H) as (R & Est & _).
  pose proof (Cons_rel skind _ s s' F (si_cons _ _ _ _ _ _ _ I) R Est) as CO'.
  assert (Hback : forall h sl1, live_h s' h sl1 -> exists sl0, live_h s h sl0 /\ seqv sl0 sl1).
  { intros h sl1 (Hs1 & Hu1 & Hg1). rewrite Es in Hs1. unfold updN in Hs1.
    destruct (N.eqb_spec i (fst h)) as [E | Hne].
    - injection Hs1 as <-. exists sl. split; [|exact Hq]. unfold live_h. rewrite <- E. split; [exact Hsl|]. split; [exact Hu|].
      destruct Hq as (Hg & _). congruence.
    - exists sl1. split; [split; auto|]. repeat split; reflexivity. }
  apply (SInv_slots prog skind idhash rank Hrank NF Hbound Hprov Hgk Hs s F s' F (fun _ => False) I X (sb_memo _ _ B) OI' CO').
  - intros h. right. intros [].
  - intros l. tauto.
  - intros d Hd. exact (settled_not_active prog skind idhash NF Hs s F d I Hd).
  - intros q fr Hin. exact (si_active _ _ _ _ _ _ _ I q fr Hin).
  - intros h sl1 _ Hl. exact (Hback h sl1 Hl).
  - intros l m id h Hm _ Hin. split; [intros []|]. intros slh Hh Huh. rewrite Es. unfold updN.
    destruct (N.eqb_spec i (fst h)) as [E | Hne].
    + rewrite <- E in Hh. rewrite Hsl in Hh. injection Hh as <-. destruct Hq as (Hg & Hd & Hf & Hr0 & Hr1).
      exists sl'. split; [reflexivity|]. split; [rewrite Hu'; discriminate|]. repeat split; assumption.
    + exists slh. repeat split; auto.
  - intros d id h sl1 _ _ _ Ho. destruct Ho as [(Hna & md & Hmd & Hin) | Hfr]; [left | right; exact Hfr].
    split; [exact Hna|]. exists md. rewrite (sb_memo _ _ B). auto.
  - intros l m d h f sl1 _ _ _ _ [].
  - intros l m d h sl1 _ _ _ _ [].
  - intros l m d id idv f0 f1 sl1 _ _ _ _ [].
  - intros c h f [].
  - intros j slj Hj Huj. rewrite Es in Hj. unfold updN in Hj. rewrite (sbs_cur _ _ B).
    destruct (N.eqb_spec i j) as [<- | Hne].
    + injection Hj as <-. destruct Hq as (_ & Hd & _).
      destruct (si_slots _ _ _ _ _ _ _ I i sl Hsl Hu) as [A _]. split; [congruence|].
      intros r Hr. rewrite Hu' in Hr. injection Hr as <-. lia.
    + exact (si_slots _ _ _ _ _ _ _ I j slj Hj Huj).
  - intros j slj Hj. rewrite Es in Hj. unfold updN in Hj. rewrite (sbs_cur _ _ B).
    destruct (N.eqb_spec i j) as [<- | Hne].
    + injection Hj as <-. destruct Hq as (Hg & _). rewrite Hu', Hg.
      pose proof (si_gens _ _ _ _ _ _ _ I i sl Hsl) as G. pose proof (proj2 (si_slots _ _ _ _ _ _ _ I i sl Hsl Hu)) as G2. destruct (sl_updated sl) as [r|] eqn:Er; [|contradiction Hu; reflexivity].
      specialize (G2 r eq_refl). lia.
    + exact (si_gens _ _ _ _ _ _ _ I j slj Hj).
  - intros h sl1 Hl1 Hu1. rewrite (sbs_cur _ _ B) in *. rewrite (sb_memo _ _ B).
    destruct Hl1 as (Hs1 & Hun1 & Hg1). rewrite Es in Hs1. unfold updN in Hs1.
    destruct (N.eqb_spec i (fst h)) as [E | Hne].
    + injection Hs1 as <-. destruct Hq as (Hg & _).
      assert (Eh : h = (i, sl_gen sl)) by (destruct h as [hi hg]; cbn in *; subst; f_equal; congruence).
      rewrite Eh. exact (Hhok sl Hsl).
    + exact (si_lock _ _ _ _ _ _ _ I h sl1 (conj Hs1 (conj Hun1 Hg1)) Hu1).
Qed.

End Lock.

(* Structs/SFrame.v — what is known about a running execution: the log of its reads with the
   answers it received, the frame (stamp, edges, identity map) in terms of the log, the body still
   to run, and — when the query has an old memo — either every logged answer is the answer of the
   world in which the old memo was verified, or the frame's changed_at stamp is already later than
   the old memo's verified_at. *)
From Salsa Require Import Base.
From Salsa.Kern Require Import CoreK CoreKFacts.
From Salsa.Structs Require Import Model ProofsBase ProofsCascade Machine ProofsInv ProofsStep Theorems Guard SimBase SSem SInv SStable SSlots.

Definition lentry := (rd * rval)%type.
Definition agrees (e : senv) (log : list lentry) : Prop := forall x a, In (x, a) log -> answer e x = a.

Lemma agrees_app e l1 l2 : agrees e (l1 ++ l2) <-> agrees e l1 /\ agrees e l2.
Proof.
  unfold agrees. split.
  - intros H. split; intros x a Hin; apply H; apply in_or_app; auto.
  - intros [H1 H2] x a Hin. apply in_app_or in Hin. destruct Hin; auto.
Qed.

Section Frame.
Variable prog : qk -> body.
Variable skind : N -> bool.
Variable idhash : val -> N.
Variable NF : nat.

Notation envw := (envw idhash prog NF).
Notation trr := (trr prog idhash NF).

(* the stamp c is the stamp of something logged (or the start revision) *)
Definition cst (s : db) (pre : list lentry) (c : rev) : Prop :=
  c <= 1 \/ exists x a, In (x, a) pre /\ sle s c x.

Definition lok (s : db) (fr : frame) (pre : list lentry) (xa : lentry) : Prop :=
  match fst xa with
  | RIn i => snd xa = (f_val (d_in s i), []) /\ In (EIn i) (fr_edges fr) /\ f_changed (d_in s i) <= fr_changed fr
  | RQ d => gk d /\ exists md, d_memo s (loc_of d) = Some md /\ m_verified md = cur s /\ m_val md = Some (snd xa) /\
            m_changed md <= fr_changed fr /\ In (EQ d) (fr_edges fr)
  | RCell c => snd xa = (d_cell s c, []) /\ fr_untracked fr = true /\ fr_changed fr = cur s
  | RTouch => snd xa = (0, []) /\ fr_untracked fr = true /\ fr_changed fr = cur s
  | RNew id idv f0 f1 =>
      exists h sl, snd xa = (0, [h]) /\ In (mk_entry id h true) (fr_ids fr) /\ live_h s h sl /\
        slot_fields sl = (idv, f0, f1) /\ sl_updated sl = Some (cur s) /\ sl_dur sl = 0 /\
        sl_rev0 sl <= cur s /\ sl_rev1 sl <= cur s /\ cst s pre (sl_rev1 sl)
  | RFld h f =>
      exists sl, snd xa = (fldv sl f, []) /\ live_h s h sl /\ sl_updated sl = Some (cur s) /\
        In (EFld h f) (fr_edges fr) /\ revf sl f <= fr_changed fr
  | RIdf h => exists sl, snd xa = (sl_idv sl, []) /\ live_h s h sl /\ sl_updated sl = Some (cur s)
  end.

Definition Logged (s : db) (fr : frame) (log : list lentry) : Prop :=
  forall pre xa post, log = pre ++ xa :: post -> lok s fr pre xa.

Definition edge_rd (e : edge) : rd :=
  match e with
  | EIn i => RIn i
  | EQ d => RQ d
  | EFld h f => RFld h f
  | EOut o => RQ o
  end.

(* what is known about an entry seeded from the old memo and not re-created yet *)
Definition seeded (Hs : hist) (s : db) (q : qk) (o : memo) (e : tentry) : Prop :=
  In (te_ident e, te_id e) (m_structs o) /\
  exists sl, live_h s (te_id e) sl /\ slot_fields sl = w_slot (W Hs s (m_verified o)) (te_id e) /\
             sl_dur sl = 0 /\ sl_rev0 sl <= m_verified o /\ sl_rev1 sl <= m_verified o /\
             cstamp s (trr Hs s (m_verified o) q) (te_ident e) (sl_rev1 sl) /\
             sl_updated sl <> Some (cur s).

Record FrameOK (Hs : hist) (s : db) (q : qk) (old : option memo) (fr : frame) (log : list lentry)
       (b : body) (dis : list (N * N)) : Prop := {
  fo_logged : Logged s fr log;
  fo_dis : fr_disamb fr = dis;
  fo_tr : forall e, agrees e log ->
          trace idhash e (prog q) [] = map fst log ++ trace idhash e b dis /\
          run idhash e (prog q) [] = run idhash e b dis;
  fo_le : fr_changed fr <= cur s;
  fo_ge1 : 1 <= fr_changed fr;
  fo_stamp : cst s log (fr_changed fr);
  fo_low : log <> [] -> fr_dur fr = 0;
  fo_untr : fr_untracked fr = true <-> exists x a, In (x, a) log /\ untr x;
  fo_edges : forall e, In e (fr_edges fr) -> (forall o, e <> EOut o) /\ exists a, In (edge_rd e, a) log;
  fo_eorder : fr_edges fr = edges_of (map fst log);
  fo_active : forall id h, In (mk_entry id h true) (fr_ids fr) <->
              exists idv f0 f1, In (RNew id idv f0 f1, (0, [h])) log;
  fo_idents : NoDup (map te_ident (fr_ids fr));
  fo_cnt_act : forall e, In e (fr_ids fr) -> te_active e = true ->
               snd (te_ident e) < cnt_get dis (fst (te_ident e));
  fo_cnt_inact : forall e, In e (fr_ids fr) -> te_active e = false ->
               cnt_get dis (fst (te_ident e)) <= snd (te_ident e);
  fo_seeded : forall e, In e (fr_ids fr) -> te_active e = false -> exists o, old = Some o /\ seeded Hs s q o e;
  fo_seedall : forall o id h, old = Some o -> In (id, h) (m_structs o) ->
               exists e, In e (fr_ids fr) /\ te_ident e = id;
  fo_start : log = [] -> b = prog q /\ dis = [];
  fo_old : d_memo s (loc_of q) = old;
  fo_div : forall o, old = Some o ->
           agrees (envw (W Hs s (m_verified o)) q) log \/ m_verified o < fr_changed fr
}.

(* ---------------------------------------------------------------- stamps only grow *)
Lemma sle_sext s s' F c x : OInv skind s F -> sext s s' -> sle s c x -> sle s' c x.
Proof.
  intros OI X. destruct x as [i | d | cc | | id idv f0 f1 | h f | h]; cbn [SInv.sle]; auto.
  - rewrite (x_in _ _ X). auto.
  - intros (md & Hmd & Hle). destruct (x_memo _ _ X _ md Hmd) as (m' & Hm' & _ & Hc). exists m'. split; [exact Hm' | lia].
  - intros [Hi Hs0]. split; [exact (x_issued _ _ X h Hi)|].
    intros sl' (Hs' & Hu' & Hg').
    unfold issued in Hi. apply in_map_iff in Hi. destruct Hi as ([[i g] y] & Eh & Hi). cbn in Eh. subst h.
    destruct (oi_issued _ _ _ OI i g y Hi) as (sl0 & Hsl0 & Hle).
    destruct (x_slots _ _ X i sl0 Hsl0) as (sl1 & Hs1 & Hg1 & K). cbn [fst snd] in *.
    rewrite Hs' in Hs1. injection Hs1 as <-.
    assert (Hg : sl_gen sl' = sl_gen sl0) by lia.
    destruct (K Hg Hu') as (Hu0 & A & B & _).
    assert (Hl0 : live_h s (i, g) sl0) by (split; [exact Hsl0|]; split; [exact Hu0 | cbn; lia]).
    specialize (Hs0 sl0 Hl0). unfold revf in *. destruct (f =? 0); lia.
Qed.

Lemma cst_sext s s' F pre c : OInv skind s F -> sext s s' -> cst s pre c -> cst s' pre c.
Proof.
  intros OI X [A | (x & a & Hin & Hs0)]; [left; exact A | right].
  exists x, a. split; [exact Hin | exact (sle_sext s s' F c x OI X Hs0)].
Qed.

Lemma cst_app s pre post c : cst s pre c -> cst s (pre ++ post) c.
Proof.
  intros [A | (x & a & Hin & Hs0)]; [left; exact A | right]. exists x, a. split; [apply in_or_app; left; exact Hin | exact Hs0].
Qed.

(* ---------------------------------------------------------------- the log *)
Lemma Logged_nil s fr : Logged s fr [].
Proof. intros pre xa post E. destruct pre; discriminate. Qed.

Lemma Logged_snoc s fr log xa : Logged s fr log -> lok s fr log xa -> Logged s fr (log ++ [xa]).
Proof.
  intros HL Hx pre ya post E.
  destruct post as [|z post].
  - apply app_inj_tail in E. destruct E as [<- <-]. exact Hx.
  - assert (E' : log = pre ++ ya :: removelast (z :: post)).
    { assert (Hne : z :: post <> []) by discriminate.
      rewrite (app_removelast_last z Hne) in E.
      change (pre ++ ya :: (removelast (z :: post) ++ [last (z :: post) z]))
        with (pre ++ (ya :: removelast (z :: post)) ++ [last (z :: post) z]) in E.
      rewrite app_assoc in E. apply app_inj_tail in E. destruct E as [E _]. exact E. }
    exact (HL pre ya _ E').
Qed.

Lemma cst_weaken s pre pre' c : (forall xa, In xa pre -> In xa pre') -> cst s pre c -> cst s pre' c.
Proof. intros Hsub [A | (x & a & Hin & Hs0)]; [left; exact A | right]. exists x, a. split; [apply Hsub; exact Hin | exact Hs0]. Qed.

(* the frame moved on: more edges, a later stamp, the identity map keeps its active entries *)
Record fr_ext (s : db) (fr fr' : frame) : Prop := {
  fe_edges : forall e, In e (fr_edges fr) -> In e (fr_edges fr');
  fe_changed : fr_changed fr <= fr_changed fr' /\ fr_changed fr' <= cur s;
  fe_untr : fr_untracked fr = true -> fr_untracked fr' = true;
  fe_ids : forall id h, In (mk_entry id h true) (fr_ids fr) -> In (mk_entry id h true) (fr_ids fr')
}.

Lemma lok_ext s fr fr' pre xa : fr_ext s fr fr' -> lok s fr pre xa -> lok s fr' pre xa.
Proof.
  intros [A [B1 B2] C D]. unfold lok. destruct (fst xa) as [i | d | c | | id idv f0 f1 | h f | h].
  - intros (E & Hin & Hle). split; [exact E|]. split; [exact (A _ Hin) | lia].
  - intros (Hg & md & Hmd & Hv & Hval & Hle & Hin). split; [exact Hg|]. exists md. repeat split; auto; lia.
  - intros (E & Hu & Hc). split; [exact E|]. split; [exact (C Hu) | lia].
  - intros (E & Hu & Hc). split; [exact E|]. split; [exact (C Hu) | lia].
  - intros (h & sl & E & Hin & R). exists h, sl. split; [exact E|]. split; [exact (D _ _ Hin) | exact R].
  - intros (sl & E & Hl & Hu & Hin & Hle). exists sl. split; [exact E|]. split; [exact Hl|]. split; [exact Hu|].
    split; [exact (A _ Hin) | lia].
  - auto.
Qed.

Lemma Logged_ext s fr fr' log : fr_ext s fr fr' -> Logged s fr log -> Logged s fr' log.
Proof. intros X HL pre xa post E. exact (lok_ext s fr fr' pre xa X (HL pre xa post E)). Qed.

Lemma lok_sext s s' F fr pre xa : OInv skind s F -> sext s s' -> lok s fr pre xa -> lok s' fr pre xa.
Proof.
  intros OI X. pose proof (sext_cur _ _ X) as Hc. unfold lok.
  destruct (fst xa) as [i | d | c | | id idv f0 f1 | h f | h]; rewrite ?Hc, ?(x_in _ _ X), ?(x_cell _ _ X); auto.
  - intros (Hg & md & Hmd & Hv & R). split; [exact Hg|]. exists md. split; [exact (x_valid _ _ X _ md Hmd Hv)|]. split; [exact Hv | exact R].
  - intros (h & sl & E & Hin & (Hs0 & Hu0 & Hg0) & Hf & Hu & Hd & A0 & A1 & Hcs).
    exists h, sl. split; [exact E|]. split; [exact Hin|].
    split; [split; [exact (x_locked _ _ X _ sl Hs0 Hu) | auto]|].
    repeat (split; [assumption|]). exact (cst_sext s s' F pre _ OI X Hcs).
  - intros (sl & E & (Hs0 & Hu0 & Hg0) & Hu & R). exists sl. split; [exact E|].
    split; [split; [exact (x_locked _ _ X _ sl Hs0 Hu) | auto]|]. split; [exact Hu | exact R].
  - intros (sl & E & (Hs0 & Hu0 & Hg0) & Hu). exists sl. split; [exact E|].
    split; [split; [exact (x_locked _ _ X _ sl Hs0 Hu) | auto] | exact Hu].
Qed.

Lemma Logged_sext s s' F fr log : OInv skind s F -> sext s s' -> Logged s fr log -> Logged s' fr log.
Proof. intros OI X HL pre xa post E. exact (lok_sext s s' F fr pre xa OI X (HL pre xa post E)). Qed.

End Frame.

(* Structs/Guard.v — the handle-safety monitor of the executable Structs model.

   The executable model (like the Rust) looks memos and fields up by slot INDEX: a tracked
   function called through an id whose generation is not the slot's current one would read and
   overwrite the memo table of the slot's present occupant.  Whether a program ever does that is
   a semantic question (a body can only hold ids it created or received in results, and a result
   that was validated must still be current: the from-scratch soundness of stage 2).  This file
   makes the assumption EXPLICIT and EXECUTABLE instead of hiding it: [glevel] is [level] with a
   monitor at every tracked-function call (fetch / maybe_changed_after) that stops the run
   (panic) when the key is not current — a struct key must be the current id of a live slot, an
   input key has generation 0.  Definitions and the refinement lemma only: whenever the monitored
   run returns normally, the unmonitored model returns the same result in the same state (the
   monitor never fired), so every statement about successful monitored runs is a statement about
   the executable model on handle-safe runs. *)
From Salsa Require Import Base.
From Salsa.Kern Require Import CoreK.
From Salsa.Structs Require Import Model ProofsBase ProofsSpecify.

Section Guard.
Variable prog : qk -> body.
Variable skind : N -> bool.
Variable sfams : list N.
Variable idhash : val -> N.

Definition cur_okb (s : db) (q : qk) : bool :=
  if skind (fst q) then
    match d_slots s (fst (snd q)) with
    | Some sl => match sl_updated sl with Some _ => sl_gen sl =? snd (snd q) | None => false end
    | None => false
    end
  else snd (snd q) =? 0.

Definition guard {A} (q : qk) (m : M A) : M A :=
  fun s => if cur_okb s q then m s else (s, SPanic PLock).

Fixpoint glevel (n : nat) : lower :=
  match n with
  | O => bottom
  | S n' => let l := glevel n' in
            {| l_fetch := fun q => guard q (fetch prog skind sfams idhash l q);
               l_mca := fun q since => guard q (mca prog skind sfams idhash l q since);
               l_fuel := n |}
  end.

(* the API with the monitored levels *)
Definition gstep (fuel : nat) (s : db) (o : op) : db * out :=
  match o with
  | OGet q =>
      match guard q (fetch prog skind sfams idhash (glevel fuel) q) s with
      | (s', SOk (v, _, _)) => (s', SOk v)
      | (s', SPanic p) => (set_stack s' [], SPanic p)
      | (s', SFuel) => (s', SFuel)
      end
  | OGetS fam q i =>
      match guard q (fetch prog skind sfams idhash (glevel fuel) q) s with
      | (s', SOk (v, _, _)) =>
          match nth_error (snd v) (N.to_nat i) with
          | None => (s', SOk (255, []))
          | Some h =>
              match guard (fam, h) (fetch prog skind sfams idhash (glevel fuel) (fam, h)) s' with
              | (s'', SOk (v', _, _)) => (s'', SOk v')
              | (s'', SPanic p) => (set_stack s'' [], SPanic p)
              | (s'', SFuel) => (s'', SFuel)
              end
          end
      | (s', SPanic p) => (set_stack s' [], SPanic p)
      | (s', SFuel) => (s', SFuel)
      end
  | _ => step prog skind sfams idhash fuel s o
  end.

Fixpoint grun_ops (fuel : nat) (s : db) (os : list op) : db * list out :=
  match os with
  | [] => (s, [])
  | o :: os' =>
      let '(s1, r) := gstep fuel s o in
      let '(s2, rs) := grun_ops fuel s1 os' in
      (s2, r :: rs)
  end.

(* ---------------------------------------------------------------- refinement *)
Definition refines (L' L : lower) : Prop :=
  l_fuel L' = l_fuel L /\
  (forall q s s' r, l_fetch L' q s = (s', SOk r) -> l_fetch L q s = (s', SOk r)) /\
  (forall q since s s' b, l_mca L' q since s = (s', SOk b) -> l_mca L q since s = (s', SOk b)).

Lemma guard_ok {A} q (m : M A) s s' a : guard q m s = (s', SOk a) -> cur_okb s q = true /\ m s = (s', SOk a).
Proof. unfold guard. destruct (cur_okb s q); [auto | discriminate]. Qed.

Section Ref.
Variables L' L : lower.
Hypothesis HR : refines L' L.

Lemma run_body_ref q : forall b fr s s' r,
  run_body skind sfams idhash L' q b fr s = (s', SOk r) ->
  run_body skind sfams idhash L q b fr s = (s', SOk r).
Proof.
  destruct HR as (Hf & Hfe & Hm).
  induction b as [v hs | i k IH | c k IH | c k IH | k IH | idv f0 f1 k IH | h f k IH | h k IH | fam h v k IH];
    intros fr s s' r H; cbn [run_body] in *.
  - exact H.
  - msplit H as x t H1. rewrite (bind_run _ _ _ _ _ H1). mstep H1. apply IH. exact H.
  - msplit H as x t H1. rewrite (bind_run _ _ _ _ _ (Hfe _ _ _ _ H1)).
    destruct x as [[v d] ch]. apply IH. exact H.
  - msplit H as x t H1. rewrite (bind_run _ _ _ _ _ H1). mstep H1. apply IH. exact H.
  - msplit H as x t H1. rewrite (bind_run _ _ _ _ _ H1). mstep H1. apply IH. exact H.
  - msplit H as x t H1. rewrite <- Hf. rewrite (bind_run _ _ _ _ _ H1). apply IH. exact H.
  - msplit H as x t H1. rewrite (bind_run _ _ _ _ _ H1). apply IH. exact H.
  - msplit H as x t H1. rewrite (bind_run _ _ _ _ _ H1). apply IH. exact H.
  - msplit H as x t H1. rewrite <- Hf. rewrite (bind_run _ _ _ _ _ H1). apply IH. exact H.
Qed.

Lemma walk_edges_ref q : forall es since s s' b,
  walk_edges skind L' q es since s = (s', SOk b) -> walk_edges skind L q es since s = (s', SOk b).
Proof.
  destruct HR as (Hf & Hfe & Hm).
  induction es as [|e es IH]; intros since s s' b H; cbn [walk_edges] in *; [exact H|].
  destruct e as [i | c | h f | o].
  - msplit H as x t H1. rewrite (bind_run _ _ _ _ _ H1). mstep H1.
    destruct (changed_after (f_changed (d_in s i)) since); [exact H | apply IH; exact H].
  - msplit H as x t H1. rewrite (bind_run _ _ _ _ _ (Hm _ _ _ _ _ H1)).
    destruct x; [exact H | apply IH; exact H].
  - msplit H as x t H1. rewrite (bind_run _ _ _ _ _ H1).
    destruct x; [exact H | apply IH; exact H].
  - msplit H as x t H1. rewrite (bind_run _ _ _ _ _ H1). apply IH. exact H.
Qed.

Lemma deep_verify_ref q m s s' r :
  deep_verify skind L' q m s = (s', SOk r) -> deep_verify skind L q m s = (s', SOk r).
Proof.
  unfold deep_verify. destruct (m_origin m); auto.
  intros H. msplit H as c t H1. rewrite (bind_run _ _ _ _ _ (walk_edges_ref _ _ _ _ _ _ H1)). exact H.
Qed.

Lemma verify_memo_ref q m s s' r :
  verify_memo skind L' q m s = (s', SOk r) -> verify_memo skind L q m s = (s', SOk r).
Proof.
  unfold verify_memo. intros H. msplit H as x t H1. rewrite (bind_run _ _ _ _ _ H1). mstep H1.
  destruct (shallow_verify s m); [exact H | exact H | apply deep_verify_ref; exact H].
Qed.

Lemma execute_ref q old s s' r :
  execute prog skind sfams idhash L' q old s = (s', SOk r) ->
  execute prog skind sfams idhash L q old s = (s', SOk r).
Proof.
  unfold execute. intros H. msplit H as u t H1. rewrite (bind_run _ _ _ _ _ H1).
  msplit H as x t2 H2. rewrite (bind_run _ _ _ _ _ (run_body_ref _ _ _ _ _ _ H2)).
  destruct HR as (Hf & _). rewrite <- Hf. exact H.
Qed.

Lemma fetch_cold_ref q s s' r :
  fetch_cold prog skind sfams idhash L' q s = (s', SOk r) ->
  fetch_cold prog skind sfams idhash L q s = (s', SOk r).
Proof.
  unfold fetch_cold. intros H. msplit H as u t H1. rewrite (bind_run _ _ _ _ _ H1).
  msplit H as old t2 H2. rewrite (bind_run _ _ _ _ _ H2).
  msplit H as ok t3 H3.
  assert (H3' : (match old with
                 | Some m => match m_val m with
                             | Some v => rr <- verify_memo skind L q m;; ret (if fst rr then Some (snd rr, v) else None)
                             | None => ret None end
                 | None => ret None end) t2 = (t3, SOk ok)).
  { destruct old as [m|]; [|exact H3]. destruct (m_val m); [|exact H3].
    msplit H3 as r1 t4 H4. rewrite (bind_run _ _ _ _ _ (verify_memo_ref _ _ _ _ _ H4)). exact H3. }
  rewrite (bind_run _ _ _ _ _ H3').
  destruct ok; [exact H|].
  msplit H as m t5 H5. rewrite (bind_run _ _ _ _ _ (execute_ref _ _ _ _ _ H5)). exact H.
Qed.

Lemma fetch_ref q s s' r :
  fetch prog skind sfams idhash L' q s = (s', SOk r) -> fetch prog skind sfams idhash L q s = (s', SOk r).
Proof.
  unfold fetch. intros H. msplit H as hot t H1. rewrite (bind_run _ _ _ _ _ H1).
  msplit H as x t2 H2.
  assert (H2' : (match hot with Some mv => ret mv | None => fetch_cold prog skind sfams idhash L q end) t = (t2, SOk x)).
  { destruct hot; [exact H2 | apply fetch_cold_ref; exact H2]. }
  rewrite (bind_run _ _ _ _ _ H2'). exact H.
Qed.

Lemma mca_cold_ref q since s s' b :
  mca_cold prog skind sfams idhash L' q since s = (s', SOk b) ->
  mca_cold prog skind sfams idhash L q since s = (s', SOk b).
Proof.
  unfold mca_cold. intros H. msplit H as u t H1. rewrite (bind_run _ _ _ _ _ H1).
  msplit H as om t2 H2. rewrite (bind_run _ _ _ _ _ H2).
  destruct om as [old|]; [|exact H].
  msplit H as r0 t3 H3. rewrite (bind_run _ _ _ _ _ (verify_memo_ref _ _ _ _ _ H3)).
  destruct (fst r0); [exact H|]. destruct (m_val old); [|exact H].
  msplit H as m t4 H4. rewrite (bind_run _ _ _ _ _ (execute_ref _ _ _ _ _ H4)). exact H.
Qed.

Lemma mca_ref q since s s' b :
  mca prog skind sfams idhash L' q since s = (s', SOk b) -> mca prog skind sfams idhash L q since s = (s', SOk b).
Proof.
  unfold mca. intros H. msplit H as om t H1. rewrite (bind_run _ _ _ _ _ H1).
  msplit H as x t2 H2. rewrite (bind_run _ _ _ _ _ H2). mstep H2.
  destruct om as [m|]; [|exact H].
  destruct (shallow_verify t m); [exact H | exact H | apply mca_cold_ref; exact H].
Qed.

End Ref.

Lemma glevel_refines n : refines (glevel n) (level prog skind sfams idhash n).
Proof.
  induction n as [|n IH]; cbn [glevel level].
  - split; [reflexivity|]. split; intros; discriminate.
  - split; [reflexivity|]. split.
    + intros q s s' r H. cbn [l_fetch] in *. apply guard_ok in H. destruct H as [_ H].
      exact (fetch_ref _ _ IH _ _ _ _ H).
    + intros q since s s' b H. cbn [l_mca] in *. apply guard_ok in H. destruct H as [_ H].
      exact (mca_ref _ _ IH _ _ _ _ _ H).
Qed.

(* whenever the monitored operation returns normally, so does the executable model, with the
   same result and the same state *)
Lemma gstep_step fuel s o s' v :
  gstep fuel s o = (s', SOk v) -> step prog skind sfams idhash fuel s o = (s', SOk v).
Proof.
  pose proof (glevel_refines fuel) as HR.
  destruct o as [i x d | d | c x | q | fam q i | ]; cbn [gstep]; auto.
  - cbn [step]. unfold guard. destruct (cur_okb s q); [|discriminate].
    destruct (fetch prog skind sfams idhash (glevel fuel) q s) as [s1 [[[v1 d1] c1] | p |]] eqn:E; try discriminate.
    rewrite (fetch_ref _ _ HR _ _ _ _ E). auto.
  - cbn [step]. unfold guard at 1. destruct (cur_okb s q); [|discriminate].
    destruct (fetch prog skind sfams idhash (glevel fuel) q s) as [s1 [[[v1 d1] c1] | p |]] eqn:E; try discriminate.
    rewrite (fetch_ref _ _ HR _ _ _ _ E).
    destruct (nth_error (snd v1) (N.to_nat i)) as [h|]; [|auto].
    unfold guard. destruct (cur_okb s1 (fam, h)); [|discriminate].
    destruct (fetch prog skind sfams idhash (glevel fuel) (fam, h) s1) as [s2 [[[v2 d2] c2] | p |]] eqn:E2; try discriminate.
    rewrite (fetch_ref _ _ HR _ _ _ _ E2). auto.
Qed.

End Guard.

(* Structs/SExec.v — an execution: the frame seeded from the old memo, the body (SBody.v), the
   completion (stale structs deleted, memo stored, backdating). *)
From Salsa Require Import Base.
From Salsa.Kern Require Import CoreK CoreKFacts.
From Salsa.Structs Require Import Model ProofsBase ProofsCascade Machine ProofsInv ProofsStep Theorems Guard SimBase SimOps Sim
     SSem SInv SStable SSlots SStore SLock SNew SFrame SNewInv SRun SBody.

Section Exec.
Variable prog : qk -> body.
Variable skind : N -> bool.
Variable idhash : val -> N.
Variable rank : qk -> nat.
Hypothesis Hrank : calls_below prog rank.
Variable NF : nat.
Hypothesis Hbound : forall q, (rank q < NF)%nat.
Hypothesis Hprov : no_forge idhash prog.
Hypothesis Hgk : forall q d, calls (prog q) d -> gk d.
Hypothesis Hnk : forall f, skind f = false.
Hypothesis Hfirst : forall q d, calls (prog q) d -> first_read (prog d).
Hypothesis Hns : forall q, nospec (prog q).

Notation Ew := (Ew idhash prog NF).
Notation trw := (trw idhash prog NF).
Notation envw := (envw idhash prog NF).
Notation clos := (clos idhash prog NF).
Notation SInv := (SInv prog skind idhash NF).
Notation smemo_ok := (smemo_ok prog idhash NF).
Notation dval := (dval prog idhash NF).
Notation Er := (Er prog idhash NF).
Notation trr := (trr prog idhash NF).
Notation FrameOK := (FrameOK prog idhash NF).
Notation OInv := (OInv skind).

(* ---------------------------------------------------------------- the memo table without struct keys *)
Lemma get_memo_nk q s : get_memo skind q s = (s, SOk (d_memo s (loc_of q))).
Proof. unfold get_memo. rewrite Hnk. reflexivity. Qed.

Lemma put_memo_nk q m s : put_memo skind q m s = (set_memo s (upd (d_memo s) (loc_of q) (Some m)), SOk tt).
Proof. unfold put_memo, store_memo. rewrite Hnk. reflexivity. Qed.

(* ---------------------------------------------------------------- seeding *)
Lemma seed_ids_nomatch : forall src l,
  NoDup (map te_ident l ++ map fst src) ->
  seed_ids l src = l ++ map (fun kv => mk_entry (fst kv) (snd kv) false) src.
Proof.
  unfold seed_ids. induction src as [|[id h] src IH]; intros l Hnd; cbn [fold_left map fst snd]; [rewrite app_nil_r; reflexivity|].
  destruct (insert_spec id h false l) as [(Hnm & E) | (l1 & e & l2 & -> & Hm & _ & _)].
  - rewrite E. rewrite IH.
    + rewrite <- app_assoc. reflexivity.
    + rewrite map_app. cbn [map mk_entry te_ident]. rewrite <- app_assoc. cbn [app fst map] in *.
      exact Hnd.
  - exfalso. apply key_eqb_eq in Hm. rewrite !map_app in Hnd. cbn [map fst] in Hnd.
    rewrite <- app_assoc in Hnd. apply nodup_app_r in Hnd. cbn [app] in Hnd.
    apply NoDup_cons_iff in Hnd. destruct Hnd as [Hni _]. apply Hni. apply in_or_app. right. left. symmetry. exact Hm.
Qed.

Lemma seed_frame_ids_eq o : NoDup (map fst (m_structs o)) ->
  fr_ids (seed_frame (Some o)) = map (fun kv => mk_entry (fst kv) (snd kv) false) (m_structs o).
Proof.
  intros Hnd. unfold seed_frame. cbn [fr_ids set_fr_ids]. rewrite seed_ids_nomatch; [reflexivity | exact Hnd].
Qed.

Lemma seed_frame_stamp old :
  fr_dur (seed_frame old) = D_NEVER /\ fr_changed (seed_frame old) = REV_START /\ fr_edges (seed_frame old) = [] /\
  fr_untracked (seed_frame old) = false /\ fr_disamb (seed_frame old) = [].
Proof. destruct old; cbn; auto. Qed.

Theorem SInv_begin Hs s F q old :
  SInv Hs s F -> gk q -> In q (d_stack s) -> ~ active_loc F (loc_of q) ->
  d_memo s (loc_of q) = old -> (forall o, old = Some o -> m_verified o < cur s) ->
  SInv Hs s ((q, seed_frame old) :: F) /\ FrameOK Hs s q old (seed_frame old) [] (prog q) [].
Proof.
  intros I Hg Hst Hna Hold Hlt. pose proof (si_oinv _ _ _ _ _ _ _ I) as OI.
  set (fr0 := seed_frame old).
  (* the old memo and its structs *)
  assert (Hoko : forall o, old = Some o -> smemo_ok Hs s F q o).
  { intros o Eo. apply (memo_ok_of prog skind idhash NF Hs s F q o I Hg). rewrite Hold. exact Eo. }
  assert (Hids : forall o, old = Some o ->
            fr_ids fr0 = map (fun kv => mk_entry (fst kv) (snd kv) false) (m_structs o)).
  { intros o Eo. unfold fr0. rewrite Eo. apply seed_frame_ids_eq. exact (proj1 (mo_structs _ _ _ _ _ _ _ _ (Hoko o Eo))). }
  assert (Hnone : old = None -> fr_ids fr0 = []).
  { intros Eo. unfold fr0. rewrite Eo. reflexivity. }
  assert (Hentry : forall e, In e (fr_ids fr0) -> exists o, old = Some o /\ te_active e = false /\ In (te_ident e, te_id e) (m_structs o)).
  { intros e He. destruct old as [o|] eqn:Eo.
    - exists o. split; [reflexivity|]. rewrite (Hids o eq_refl) in He. apply in_map_iff in He. destruct He as ([id h] & <- & Hin).
      cbn. auto.
    - rewrite (Hnone eq_refl) in He. destruct He. }
  assert (Hmids : forall o, old = Some o -> NoDup (map fst (mids o))).
  { intros o Eo. apply (oi_nodup _ _ _ OI (OwM (loc_of q))). split; [exact Hna|]. exists o.
    rewrite (peek_nk skind Hnk). rewrite Hold. auto. }
  assert (OI' : OInv s ((q, fr0) :: F)).
  { destruct (seed_frame_ids old) as [Hnd Hsub].
    { destruct old as [o|]; [exact (Hmids o eq_refl) | constructor]. }
    apply (oinv_begin_gen skind s F q fr0 OI Hna); [rewrite Hnk; discriminate | exact Hnd|].
    intros h Hh. destruct (Hsub h Hh) as (o & Eo & Hin). exists o. rewrite (peek_nk skind Hnk), Hold. auto. }
  assert (CO' : Cons skind s ((q, fr0) :: F)).
  { destruct (si_cons _ _ _ _ _ _ _ I) as [a b c d]. constructor; auto.
    intros q' fr' [E | Hin]; [injection E as <- _; exact Hst | exact (a _ _ Hin)]. }
  split.
  - apply (SInv_slots prog skind idhash rank Hrank NF Hbound Hprov Hgk Hs s F s ((q, fr0) :: F) (fun _ => False) I (sext_refl s) eq_refl OI' CO').
    + intros h. right. intros [].
    + intros l (q' & fr' & Hin & El). exists q', fr'. split; [right; exact Hin | exact El].
    + intros d (m & Hm & Hv) (q' & fr' & [E | Hin] & El).
      * injection E as <- _. rewrite El in Hold. rewrite Hm in Hold. specialize (Hlt m (eq_sym Hold)). lia.
      * apply (settled_not_active prog skind idhash NF Hs s F d I (ex_intro _ m (conj Hm Hv))). exists q', fr'. auto.
    + intros q' fr' [E | Hin].
      * injection E as <- _. split; [exact Hg|]. intros m Hm. apply Hlt. rewrite <- Hold. exact Hm.
      * exact (si_active _ _ _ _ _ _ _ I q' fr' Hin).
    + intros h sl' _ Hl. exists sl'. split; [exact Hl|]. repeat split; reflexivity.
    + intros l m id h _ _ _. split; [intros []|]. apply slot_keeps_refl.
    + intros d id h sl' Hgd _ _ Ho. destruct Ho as [(Hnad & md & Hmd & Hin) | (fr' & e & Hinf & Hine & E1 & E2)].
      * destruct (key_eqb_spec (loc_of d) (loc_of q)) as [El | Hne].
        -- (* the structs of q's memo are now held by its frame *)
           right. assert (Ed : d = q).
           { rewrite <- (kq_loc d Hgd), <- (kq_loc q Hg), El. reflexivity. }
           subst d. rewrite Hold in Hmd.
           exists fr0, (mk_entry id h false). split; [left; reflexivity|]. split; [|auto].
           rewrite (Hids md Hmd). apply in_map_iff. exists (id, h). auto.
        -- left. split; [|eauto]. intros (q' & fr' & [E | Hin'] & El'); [injection E as <- _; congruence|].
           apply Hnad. exists q', fr'. auto.
      * right. exists fr', e. split; [right; exact Hinf | auto].
    + intros l m d h f sl' _ _ _ _ [].
    + intros l m d h sl' _ _ _ _ [].
    + intros l m d id idv f0 f1 sl' _ _ _ _ [].
    + intros c h f [].
    + exact (si_slots _ _ _ _ _ _ _ I).
    + exact (si_gens _ _ _ _ _ _ _ I).
    + intros h sl Hl Hu. destruct (si_lock _ _ _ _ _ _ _ I h sl Hl Hu) as [A | (q' & fr' & id & Hin & Hine)]; [left; exact A | right].
      exists q', fr', id. split; [right; exact Hin | exact Hine].
  - destruct (seed_frame_stamp old) as (Sd & Sc & Se & Su & Sdis). fold fr0 in Sd, Sc, Se, Su, Sdis.
    pose proof (si_cur _ _ _ _ _ _ _ I) as Hc1.
    constructor.
    + apply Logged_nil.
    + exact Sdis.
    + intros e _. cbn [map app]. auto.
    + rewrite Sc. unfold REV_START. exact Hc1.
    + rewrite Sc. unfold REV_START. lia.
    + left. rewrite Sc. unfold REV_START. lia.
    + intros E. contradiction E. reflexivity.
    + rewrite Su. split; [discriminate | intros (x & a & [] & _)].
    + rewrite Se. intros e [].
    + rewrite Se. reflexivity.
    + intros id h. split.
      * intros Hin. destruct (Hentry _ Hin) as (_ & _ & Ha & _). discriminate.
      * intros (u & v & w & []).
    + destruct old as [o|] eqn:Eo.
      * rewrite (Hids o eq_refl), map_map. cbn [mk_entry te_ident]. exact (proj1 (mo_structs _ _ _ _ _ _ _ _ (Hoko o eq_refl))).
      * rewrite (Hnone eq_refl). constructor.
    + intros e He Ha. destruct (Hentry e He) as (_ & _ & Hf & _). congruence.
    + intros e _ _. cbn. lia.
    + intros e He _. destruct (Hentry e He) as (o & Eo & _ & Hin). exists o. split; [exact Eo|]. split; [exact Hin|].
      pose proof (Hoko o Eo) as Hok.
      destruct (mo_own _ _ _ _ _ _ _ _ Hok Hna (te_ident e) (te_id e) Hin) as (sl & Hl & Hf & Hd & A0 & A1 & Hcs).
      exists sl. split; [exact Hl|]. split; [exact Hf|]. split; [exact Hd|]. split; [exact A0|]. split; [exact A1|].
      split; [exact Hcs|].
      (* not read-locked now: a locked slot is held by a memo verified now or by an active entry *)
      intros Hu.
      assert (Hom : owns skind s F (OwM (loc_of q)) (te_id e)).
      { exists (mids o). split; [split; [exact Hna|]; exists o; rewrite (peek_nk skind Hnk), Hold; auto|].
        unfold mids. apply in_map_iff. exists (te_ident e, te_id e). auto. }
      destruct (si_lock _ _ _ _ _ _ _ I (te_id e) sl Hl Hu) as [(l & m & id & Hm & Hv & Hinm) | (q' & fr' & id & Hin' & Hine)].
      -- assert (Hstl : settled s (kq l)) by (exists m; rewrite loc_kq; auto).
         pose proof (settled_not_active prog skind idhash NF Hs s F (kq l) I Hstl) as Hnal. rewrite loc_kq in Hnal.
         assert (Hol : owns skind s F (OwM l) (te_id e)).
         { exists (mids m). split; [split; [exact Hnal|]; exists m; rewrite (peek_nk skind Hnk); auto|].
           unfold mids. apply in_map_iff. exists (id, te_id e). auto. }
         pose proof (oi_uniq _ _ _ OI _ _ _ _ Hol Hom eq_refl) as E. injection E as ->.
         rewrite Hold in Hm. specialize (Hlt m Hm). lia.
      -- assert (Hof : owns skind s F (OwF q') (te_id e)).
         { apply (owns_frame skind s F q' fr' _ Hin'). unfold frame_ids. apply in_map_iff. exists (mk_entry id (te_id e) true). auto. }
         pose proof (oi_uniq _ _ _ OI _ _ _ _ Hof Hom eq_refl) as E. discriminate.
    + intros o id h Eo Hin. exists (mk_entry id h false). split; [|reflexivity].
      rewrite (Hids o Eo). apply in_map_iff. exists (id, h). auto.
    + auto.
    + exact Hold.
    + intros o _. left. intros x a [].
Qed.

(* ---------------------------------------------------------------- completion *)
Lemma hlist_eqb_eq : forall a b, hlist_eqb a b = true <-> a = b.
Proof.
  induction a as [|x a IH]; intros [|y b]; cbn [hlist_eqb]; try (split; [discriminate | intros E; discriminate]).
  - tauto.
  - rewrite andb_true_iff, handle_eqb_eq, IH. split; [intros [-> ->]; reflexivity | intros E; injection E; auto].
Qed.

Lemma rval_eqb_eq a b : rval_eqb a b = true <-> a = b.
Proof.
  unfold rval_eqb. rewrite andb_true_iff, N.eqb_eq, hlist_eqb_eq. destruct a, b; cbn.
  split; [intros [-> ->]; reflexivity | intros E; injection E; auto].
Qed.

(* without struct keys the claim-stack consistency only depends on the stack and the frame keys *)
Lemma cons_nk s s' F F' : Cons skind s F -> d_stack s' = d_stack s ->
  (forall q fr', In (q, fr') F' -> exists fr, In (q, fr) F) -> Cons skind s' F'.
Proof.
  intros [a b c d] Est HF. constructor; rewrite ?Est.
  - intros q fr' Hin. destruct (HF q fr' Hin) as (fr & Hin0). exact (a q fr Hin0).
  - exact b.
  - intros q Hq0. specialize (c q Hq0). unfold Guard.cur_okb in *. rewrite Hnk in *. exact c.
  - intros q _ Hk. rewrite Hnk in Hk. discriminate.
Qed.

Lemma parents_nil s roots e : parents [] s roots e -> forall c, In c e -> In c roots.
Proof. intros P c Hc. destruct (P c Hc) as [A | (p & _ & slp & fam & m & _ & [] & _)]. exact A. Qed.

(* the slot-level effect of the deletions of a completion *)
Lemma finish_delete Hs s F q old fr log v hs dis n t0 (u0 : unit) stale :
  SInv Hs s ((q, fr) :: F) -> ~ active_loc F (loc_of q) ->
  FrameOK Hs s q old fr log (Ret v hs) dis ->
  stale = snd (drain (fr_ids fr)) ->
  match old with
  | Some o => diff_outputs [] n o q stale (fr_edges fr)
  | None => ret tt
  end s = (t0, SOk u0) ->
  let frA := set_fr_ids fr (filter te_active (fr_ids fr)) in
  SInv Hs t0 ((q, frA) :: F) /\ sext s t0 /\
  d_memo t0 = d_memo s /\ d_stack t0 = d_stack s /\
  (forall h sl, live_h s h sl -> sl_updated sl = Some (cur s) -> d_slots t0 (fst h) = d_slots s (fst h)) /\
  (forall p frp h0, In (p, frp) F -> In h0 (frame_ids frp) -> d_slots t0 (fst h0) = d_slots s (fst h0)) /\
  (forall e, In e (fr_ids fr) -> te_active e = true -> d_slots t0 (fst (te_id e)) = d_slots s (fst (te_id e))).
Proof.
  intros I Hna FO Estale H frA.
  pose proof (si_oinv _ _ _ _ _ _ _ I) as OI.
  set (F2 := (q, fr) :: F) in *. set (F1 := (q, frA) :: F).
  assert (Hq : In (q, fr) F2) by (left; reflexivity).
  assert (HF2 : NoDup (flocs F2)) by exact (oi_frames _ _ _ OI).
  assert (Hfnd' : NoDup (map (fun x => fst (te_id x)) (fr_ids fr))).
  { assert (Hfnd : NoDup (map fst (frame_ids fr))) by (apply (oi_nodup _ _ _ OI (OwF q)); exists fr; auto).
    unfold frame_ids in Hfnd. rewrite map_map in Hfnd. exact Hfnd. }
  (* the casc *)
  assert (Hc : exists e, casc s t0 e /\ (forall c, In c e <-> In c (map snd stale) /\ old <> None)).
  { destruct old as [o|] eqn:Eo.
    - destruct (diff_outputs_casc [] n o q stale (fr_edges fr) s t0) as (e & C & P & R).
      { destruct u0. exact H. }
      exists e. split; [exact C|].
      destruct (si_active _ _ _ _ _ _ _ I q fr Hq) as [Hgq _].
      pose proof (fo_old _ _ _ _ _ _ _ _ _ _ _ FO) as Hold.
      pose proof (mo_origin _ _ _ _ _ _ _ _ (memo_ok_of prog skind idhash NF Hs s F2 q o I Hgq Hold)) as Hor.
      assert (Er : diff_roots o stale = map snd stale).
      { unfold diff_roots. destruct Hor as [-> | ->]; reflexivity. }
      intros c. split.
      + intros Hc. split; [|discriminate]. rewrite <- Er. exact (parents_nil s _ e P c Hc).
      + intros [Hc _]. apply R. rewrite Er. exact Hc.
    - apply ret_ok in H. destruct H as [-> _]. exists []. split; [apply casc_refl|].
      intros c. split; [intros [] | intros [_ A]; contradiction A; reflexivity]. }
  destruct Hc as (e & C & He).
  (* stale entries *)
  assert (Hst_entry : forall c, In c e -> exists en, In en (fr_ids fr) /\ te_active en = false /\ te_id en = c).
  { intros c Hc0. apply He in Hc0. destruct Hc0 as [Hc0 _]. rewrite Estale in Hc0.
    apply (drain_stale (fr_ids fr) c) in Hc0. apply in_map_iff in Hc0. destruct Hc0 as (en & <- & Hen).
    apply filter_In in Hen. destruct Hen as [Hen Ha]. exists en. split; [exact Hen|]. split; [|reflexivity].
    destruct (te_active en); [discriminate | reflexivity]. }
  assert (Hdied : forall j, In j (map fst e) -> exists sl, d_slots s j = Some sl /\ sl_updated sl <> None /\
                    sl_updated sl <> Some (cur s) /\ d_slots t0 j = Some (dead sl)).
  { intros j Hj. apply in_map_iff in Hj. destruct Hj as (c & <- & Hc0). exact (cs_died _ _ _ C c Hc0). }
  assert (Hother : forall j, ~ In j (map fst e) -> d_slots t0 j = d_slots s j) by exact (cs_other _ _ _ C).
  assert (Hcur : cur t0 = cur s) by exact (casc_cur _ _ _ C).
  (* who holds a slot that dies: the frame of q, through a stale entry *)
  assert (Hown_died : forall o0 h0, owns skind s F2 o0 h0 -> In (fst h0) (map fst e) ->
            o0 = OwF q /\ exists en, In en (fr_ids fr) /\ te_active en = false /\ te_id en = h0).
  { intros o0 h0 Ho0 Hj. apply in_map_iff in Hj. destruct Hj as (c & Ec & Hc0).
    destruct (Hst_entry c Hc0) as (en & Hen & Ha & <-).
    assert (Hoe : owns skind s F2 (OwF q) (te_id en)).
    { apply (owns_frame skind s F2 q fr _ Hq). unfold frame_ids. apply in_map_iff. exists en. auto. }
    pose proof (oi_uniq _ _ _ OI _ _ _ _ Ho0 Hoe (eq_sym Ec)) as ->. split; [reflexivity|].
    exists en. split; [exact Hen|]. split; [exact Ha|].
    destruct Ho0 as (ids & (fr0 & Hin0 & ->) & Hin).
    pose proof (frames_fun F2 q fr0 fr HF2 Hin0 Hq) as ->.
    unfold frame_ids in Hin. apply in_map_iff in Hin. destruct Hin as (e2 & E2 & He2).
    assert (e2 = en).
    { apply (map_inj_nodup (fun x => fst (te_id x)) (fr_ids fr) e2 en Hfnd' He2 Hen). rewrite E2. symmetry. exact Ec. }
    subst e2. exact E2. }
  assert (Hactive_keep : forall en, In en (fr_ids fr) -> te_active en = true -> ~ In (fst (te_id en)) (map fst e)).
  { intros en Hen Ha Hj.
    assert (Hoe : owns skind s F2 (OwF q) (te_id en)).
    { apply (owns_frame skind s F2 q fr _ Hq). unfold frame_ids. apply in_map_iff. exists en. auto. }
    destruct (Hown_died _ _ Hoe Hj) as (_ & en2 & Hen2 & Ha2 & E2).
    assert (en2 = en).
    { apply (map_inj_nodup (fun x => fst (te_id x)) (fr_ids fr) en2 en Hfnd' Hen2 Hen). rewrite E2. reflexivity. }
    subst en2. congruence. }
  (* frames *)
  assert (HinF1 : forall q0 fr0, In (q0, fr0) F1 <-> (q0 = q /\ fr0 = frA) \/ (q0 <> q /\ In (q0, fr0) F)).
  { intros q0 fr0. unfold F1. split.
    - intros [E | Hin]; [injection E as <- <-; left; auto | right; split; [|exact Hin]].
      intros ->. apply Hna. exists q, fr0. auto.
    - intros [[-> ->] | [_ Hin]]; [left; reflexivity | right; exact Hin]. }
  assert (I1 : OInv s F1).
  { apply (oinv_frames skind s F2 F1 OI); [reflexivity|].
    intros q' fr' Hin. apply HinF1 in Hin. destruct Hin as [[-> ->] | [_ Hin]].
    - exists fr. split; [exact Hq|]. unfold frame_ids, frA. cbn [fr_ids set_fr_ids]. split.
      + intros h Hh. apply in_map_iff in Hh. destruct Hh as (e0 & <- & He0). apply filter_In in He0.
        apply in_map. exact (proj1 He0).
      + rewrite map_map. apply nodup_map_filter. exact Hfnd'.
    - exists fr'. split; [right; exact Hin|]. split; [auto|]. apply (oi_nodup _ _ _ OI (OwF q')). exists fr'. split; [right; exact Hin | reflexivity]. }
  assert (Hact_same : forall l, active_loc F1 l <-> active_loc F2 l).
  { intros l. rewrite !active_loc_flocs. reflexivity. }
  assert (OI' : OInv t0 F1).
  { apply (oinv_casc skind [] (nofams skind) s F1 t0 e e I1 C).
      + intros c Hc0. left. exact Hc0.
      + intros r Hr. destruct (Hst_entry r Hr) as (en & Hen & _ & <-).
        apply (oi_live _ _ _ OI (OwF q)). apply (owns_frame skind s F2 q fr _ Hq). unfold frame_ids. apply in_map_iff. exists en. auto.
      + intros r o0 h0 Hr Ho0 Ef.
        (* an owner in F1 is an owner in F2 *)
        assert (Ho2 : owns skind s F2 o0 h0).
        { destruct Ho0 as (ids & Hoi & Hin). destruct o0 as [q0 | l0]; cbn [Machine.owner_ids] in Hoi.
          - destruct Hoi as (fr0 & Hin0 & ->). apply HinF1 in Hin0. destruct Hin0 as [[-> ->] | [_ Hin0]].
            + apply (owns_frame skind s F2 q fr _ Hq). unfold frame_ids, frA in Hin. cbn [fr_ids set_fr_ids] in Hin.
              apply in_map_iff in Hin. destruct Hin as (e0 & <- & He0). apply filter_In in He0. apply in_map. exact (proj1 He0).
            + apply (owns_frame skind s F2 q0 fr0 _ (or_intror Hin0) Hin).
          - destruct Hoi as (Hnal & m0 & Hm0 & ->). exists (mids m0). split; [|exact Hin]. split; [|exists m0; auto].
            intros A. apply Hnal. apply Hact_same. exact A. }
        destruct (Hown_died o0 h0 Ho2) as (-> & en & Hen & Ha & <-).
        { rewrite Ef. apply in_map. exact Hr. }
        destruct Ho0 as (ids & (fr0 & Hin0 & ->) & Hin). apply HinF1 in Hin0. destruct Hin0 as [[_ ->] | [Hne _]]; [|contradiction Hne; reflexivity].
        unfold frame_ids, frA in Hin. cbn [fr_ids set_fr_ids] in Hin. apply in_map_iff in Hin. destruct Hin as (e2 & E2 & He2).
        apply filter_In in He2. destruct He2 as [He2 Ha2].
        assert (e2 = en) by (apply (map_inj_nodup (fun x => fst (te_id x)) (fr_ids fr) e2 en Hfnd' He2 Hen); rewrite E2; reflexivity).
        subst e2. congruence. }
  assert (CO' : Cons skind t0 F1).
  { apply (cons_nk s t0 F2 F1 (si_cons _ _ _ _ _ _ _ I) (cs_stack _ _ _ C)).
    intros q0 fr0 Hin. apply HinF1 in Hin. destruct Hin as [[-> _] | [_ Hin]]; [exists fr; exact Hq | exists fr0; right; exact Hin]. }
  (* extension *)
  assert (X : sext s t0).
  { constructor.
    - exact (cs_revs _ _ _ C).
    - exact (cs_in _ _ _ C).
    - exact (cs_cell _ _ _ C).
    - intros l m Hm _. rewrite (cs_memo _ _ _ C). exact Hm.
    - intros l m Hm. exists m. rewrite (cs_memo _ _ _ C). split; [exact Hm|]. split; lia.
    - intros j sl Hj Hl. rewrite Hother; [exact Hj|]. intros Hin. destruct (Hdied j Hin) as (sl0 & Hs0 & _ & Hnl & _).
      rewrite Hj in Hs0. injection Hs0 as <-. contradiction.
    - intros l m id h Hm Hv Hin.
      assert (Hstl : settled s (kq l)) by (exists m; rewrite loc_kq; auto).
      pose proof (settled_not_active prog skind idhash NF Hs s F2 (kq l) I Hstl) as Hnal. rewrite loc_kq in Hnal.
      assert (Hol : owns skind s F2 (OwM l) h).
      { exists (mids m). split; [split; [exact Hnal|]; exists m; rewrite (peek_nk skind Hnk); auto|].
        unfold mids. apply in_map_iff. exists (id, h). auto. }
      rewrite Hother; [apply slot_keeps_refl|]. intros Hj. destruct (Hown_died _ _ Hol Hj) as [E _]. discriminate.
    - intros j sl Hj. destruct (in_dec N.eq_dec j (map fst e)) as [Hin | Hnin].
      + destruct (Hdied j Hin) as (sl0 & Hs0 & _ & _ & Hd). rewrite Hj in Hs0. injection Hs0 as <-.
        exists (dead sl). split; [exact Hd|]. split; [cbn; lia|]. intros _ Hu. exfalso. apply Hu. reflexivity.
      + exists sl. rewrite (Hother j Hnin). split; [exact Hj|]. split; [lia|]. intros _ Hu. repeat split; auto; lia.
    - unfold issued. rewrite (cs_ideal _ _ _ C). intros x Hx. exact Hx. }
  split; [|split; [exact X|]].
  - apply (SInv_slots prog skind idhash rank Hrank NF Hbound Hprov Hgk Hs s F2 t0 F1 (fun h0 => In (fst h0) (map fst e)) I X (cs_memo _ _ _ C) OI' CO').
    + intros h0. destruct (in_dec N.eq_dec (fst h0) (map fst e)); auto.
    + intros l A. apply Hact_same. exact A.
    + intros d Hd A. apply Hact_same in A. exact (settled_not_active prog skind idhash NF Hs s F2 d I Hd A).
    + intros q0 fr0 Hin. apply HinF1 in Hin. destruct Hin as [[-> _] | [_ Hin]];
        [exact (si_active _ _ _ _ _ _ _ I q fr Hq) | exact (si_active _ _ _ _ _ _ _ I q0 fr0 (or_intror Hin))].
    + intros h0 sl' Hnp (Hs0 & Hu0 & Hg0). rewrite (Hother _ Hnp) in Hs0. exists sl'. split; [split; auto|]. repeat split; reflexivity.
    + intros l m id h0 Hm Hnal Hin.
      assert (Hol : owns skind s F2 (OwM l) h0).
      { exists (mids m). split; [split; [exact Hnal|]; exists m; rewrite (peek_nk skind Hnk); auto|].
        unfold mids. apply in_map_iff. exists (id, h0). auto. }
      assert (Hnp : ~ In (fst h0) (map fst e)).
      { intros Hj. destruct (Hown_died _ _ Hol Hj) as [E _]. discriminate. }
      split; [exact Hnp|]. rewrite (Hother _ Hnp). apply slot_keeps_refl.
    + intros d id h0 sl' _ Hnp _ Ho. destruct Ho as [(Hnad & md & Hmd & Hin) | (fr0 & e0 & Hin0 & Hine0 & E1 & E2)].
      * left. split; [intros A; apply Hnad; apply Hact_same; exact A|]. exists md. rewrite (cs_memo _ _ _ C). auto.
      * right. destruct Hin0 as [E | Hin0].
        -- injection E as <- <-. exists frA, e0. split; [left; reflexivity|]. split; [|auto].
           unfold frA. cbn [fr_ids set_fr_ids]. apply filter_In. split; [exact Hine0|].
           destruct (te_active e0) eqn:Ea; [reflexivity|]. exfalso. apply Hnp.
           (* an inactive entry is stale: its slot dies -- unless there is no old memo *)
           rewrite <- E2. apply in_map.
           apply He. split.
           ++ rewrite Estale. apply (drain_stale (fr_ids fr) (te_id e0)). apply in_map_iff. exists e0. split; [reflexivity|].
              apply filter_In. split; [exact Hine0 | rewrite Ea; reflexivity].
           ++ destruct (fo_seeded _ _ _ _ _ _ _ _ _ _ _ FO e0 Hine0 Ea) as (o & Eo & _). rewrite Eo. discriminate.
        -- exists fr0, e0. split; [right; exact Hin0 | auto].
    + intros l m d h0 f sl' _ _ _ _ Hp (Hs0 & Hu0 & _). destruct (Hdied _ Hp) as (sl0 & _ & _ & _ & Hd).
      rewrite Hd in Hs0. injection Hs0 as <-. exfalso. apply Hu0. reflexivity.
    + intros l m d h0 sl' _ _ _ _ Hp (Hs0 & Hu0 & _). destruct (Hdied _ Hp) as (sl0 & _ & _ & _ & Hd).
      rewrite Hd in Hs0. injection Hs0 as <-. exfalso. apply Hu0. reflexivity.
    + intros l m d id idv f0 f1 sl' _ _ _ _ Hp (Hs0 & Hu0 & _). destruct (Hdied _ Hp) as (sl0 & _ & _ & _ & Hd).
      rewrite Hd in Hs0. injection Hs0 as <-. exfalso. apply Hu0. reflexivity.
    + intros c h0 f Hp [Hi _]. split; [unfold issued in *; rewrite (cs_ideal _ _ _ C); exact Hi|].
      intros sl' (Hs0 & Hu0 & _). destruct (Hdied _ Hp) as (sl0 & _ & _ & _ & Hd).
      rewrite Hd in Hs0. injection Hs0 as <-. exfalso. apply Hu0. reflexivity.
    + intros j sl Hj Hu. rewrite Hcur. destruct (in_dec N.eq_dec j (map fst e)) as [Hin | Hnin].
      * destruct (Hdied j Hin) as (sl0 & _ & _ & _ & Hd). rewrite Hd in Hj. injection Hj as <-. exfalso. apply Hu. reflexivity.
      * rewrite (Hother j Hnin) in Hj. exact (si_slots _ _ _ _ _ _ _ I j sl Hj Hu).
    + intros j sl Hj. rewrite Hcur. destruct (in_dec N.eq_dec j (map fst e)) as [Hin | Hnin].
      * destruct (Hdied j Hin) as (sl0 & Hs0 & Hu0 & Hnl & Hd). rewrite Hd in Hj. injection Hj as <-. cbn.
        pose proof (si_gens _ _ _ _ _ _ _ I j sl0 Hs0) as G.
        pose proof (proj2 (si_slots _ _ _ _ _ _ _ I j sl0 Hs0 Hu0)) as G2.
        destruct (sl_updated sl0) as [r|] eqn:Er; [|contradiction Hu0; reflexivity].
        specialize (G2 r eq_refl). assert (r <> cur s) by (intros ->; apply Hnl; reflexivity). lia.
      * rewrite (Hother j Hnin) in Hj. exact (si_gens _ _ _ _ _ _ _ I j sl Hj).
    + intros h0 sl Hl Hu. rewrite Hcur in Hu. rewrite Hcur.
      assert (Hnp : ~ In (fst h0) (map fst e)).
      { intros Hin. destruct Hl as (Hs0 & Hu0 & _). destruct (Hdied _ Hin) as (sl0 & _ & _ & _ & Hd).
        rewrite Hd in Hs0. injection Hs0 as <-. apply Hu0. reflexivity. }
      assert (Hl0 : live_h s h0 sl).
      { destruct Hl as (Hs0 & R). rewrite (Hother _ Hnp) in Hs0. split; assumption. }
      destruct (si_lock _ _ _ _ _ _ _ I h0 sl Hl0 Hu) as [(l & m & id & Hm & Hv & Hin) | (q0 & fr0 & id & Hin0 & Hine0)].
      * left. exists l, m, id. rewrite (cs_memo _ _ _ C). auto.
      * right. destruct Hin0 as [E | Hin0].
        -- injection E as <- <-. exists q, frA, id. split; [left; reflexivity|].
           unfold frA. cbn [fr_ids set_fr_ids]. apply filter_In. split; [exact Hine0 | reflexivity].
        -- exists q0, fr0, id. split; [right; exact Hin0 | exact Hine0].
  - split; [exact (cs_memo _ _ _ C)|]. split; [exact (cs_stack _ _ _ C)|]. split.
    + intros h0 sl (Hs0 & _) Hl. apply Hother. intros Hin. destruct (Hdied _ Hin) as (sl0 & Hs1 & _ & Hnl & _).
      rewrite Hs0 in Hs1. injection Hs1 as <-. contradiction.
    + split.
      * intros p frp h0 Hp Hh0. apply Hother. intros Hin.
        assert (Hop : owns skind s F2 (OwF p) h0) by exact (owns_frame skind s F2 p frp h0 (or_intror Hp) Hh0).
        destruct (Hown_died _ _ Hop Hin) as [E _]. injection E as ->. apply Hna. exists q, frp. auto.
      * intros en Hen Ha. apply Hother. exact (Hactive_keep en Hen Ha).
Qed.

Lemma drain_active_in l id h :
  In (id, h) (fst (drain l)) <-> exists e, In e l /\ te_active e = true /\ te_ident e = id /\ te_id e = h.
Proof.
  unfold drain. cbn [fst]. rewrite in_map_iff. split.
  - intros (e & E & He). apply filter_In in He. injection E as <- <-. exists e. tauto.
  - intros (e & He & Ha & <- & <-). exists e. split; [reflexivity|]. apply filter_In. auto.
Qed.

Lemma in_map_fst_log (log : list lentry) x : In x (map fst log) <-> exists a, In (x, a) log.
Proof.
  rewrite in_map_iff. split.
  - intros ([y a] & E & Hin). cbn in E. subst y. eauto.
  - intros (a & Hin). exists (x, a). auto.
Qed.

Lemma clos_inv w q d : clos w q d -> d = q \/ exists d1, In (RQ d1) (trw w q) /\ clos w d1 d.
Proof. intros H. destruct H as [f | f d1 d2 Hin Hd]; [left; reflexivity | right; eauto]. Qed.

Theorem finish_sinv Hs s F q old fr log v hs dis n s' m' :
  SInv Hs s ((q, fr) :: F) -> ~ active_loc F (loc_of q) ->
  FrameOK Hs s q old fr log (Ret v hs) dis -> log <> [] ->
  finish_exec skind [] n q old (v, hs) fr s = (s', SOk m') ->
  SInv Hs s' F /\ sext s s' /\ d_stack s' = d_stack s /\
  (forall l, l <> loc_of q -> d_memo s' l = d_memo s l) /\
  (forall p frp h0, In (p, frp) F -> In h0 (frame_ids frp) -> d_slots s' (fst h0) = d_slots s (fst h0)) /\
  d_memo s' (loc_of q) = Some m' /\ m_verified m' = cur s /\ m_val m' = Some (v, hs) /\ m_dur m' = 0.
Proof.
  intros I Hna FO Hlne H.
  pose proof (si_oinv _ _ _ _ _ _ _ I) as OI.
  assert (Hq : In (q, fr) ((q, fr) :: F)) by (left; reflexivity).
  destruct (si_active _ _ _ _ _ _ _ I q fr Hq) as [Hgq Hlt].
  pose proof (fo_old _ _ _ _ _ _ _ _ _ _ _ FO) as Hold.
  pose proof (fo_low _ _ _ _ _ _ _ _ _ _ _ FO Hlne) as Hdur.
  (* the ownership invariant and the claim stack, end to end *)
  destruct (finish_oinv skind [] (nofams skind) n q old (v, hs) fr s _ s' m' OI Hq H) as [OIF Hmids].
  cbn [del_frame] in OIF. rewrite qk_eqb_refl in OIF.
  unfold finish_exec in H.
  destruct (drain (fr_ids fr)) as [active stale] eqn:Ed.
  destruct (backdate old (fr_dur fr) (fr_changed fr) (v, hs)) as [ch | p |] eqn:Eb;
    [|exfalso; exact (fail_ok _ _ _ _ H) | exfalso; exact (nofuel_ok _ _ _ H)].
  apply bind_ok in H. destruct H as (u0 & t0 & H0 & H).
  apply bind_ok in H. destruct H as (x & t1 & H1 & H). apply get_ok in H1. destruct H1 as [-> ->].
  apply bind_ok in H. destruct H as (u2 & t2 & H2 & H). rewrite put_memo_nk in H2. injection H2 as <- _.
  apply ret_ok in H. destruct H as [-> ->].
  rewrite Hdur in *. change (0 =? D_NEVER) with false in *. cbn [andb] in *.
  set (mm := {| m_val := Some (v, hs); m_verified := cur t0; m_changed := ch; m_dur := 0;
                m_origin := if fr_untracked fr then OUntracked else ODerived;
                m_edges := fr_edges fr; m_structs := active |}) in *.
  set (frA := set_fr_ids fr (filter te_active (fr_ids fr))).
  destruct (finish_delete Hs s F q old fr log v hs dis n t0 u0 stale I Hna FO) as (I1 & X1 & Hm1 & Hst1 & Hlocked1 & Hfroz1 & Hact1).
  { rewrite Ed. reflexivity. }
  { exact H0. }
  fold frA in I1.
  set (F1 := (q, frA) :: F) in *.
  set (s' := set_memo t0 (upd (d_memo t0) (loc_of q) (Some mm))).
  pose proof (sext_cur _ _ X1) as Hc1.
  assert (Eactive : active = fst (drain (fr_ids fr))) by (rewrite Ed; reflexivity).
  assert (Hact_in : forall id h, In (id, h) active <-> In (mk_entry id h true) (fr_ids fr)).
  { intros id h. rewrite Eactive, drain_active_in. split.
    - intros (e & He & Ha & <- & <-). destruct e as [a b c]. cbn in *. subst c. exact He.
    - intros Hin. exists (mk_entry id h true). auto. }
  assert (Hact_nd : NoDup (map fst active)).
  { rewrite Eactive. unfold drain. cbn [fst]. rewrite map_map. cbn [fst].
    apply nodup_map_filter. exact (fo_idents _ _ _ _ _ _ _ _ _ _ _ FO). }
  (* the old memo and backdating *)
  assert (Hback : forall o, old = Some o ->
            m_verified o < cur s /\
            ((ch = m_changed o /\ m_val o = Some (v, hs)) \/ (ch = fr_changed fr /\ m_verified o < fr_changed fr))).
  { intros o Eo. rewrite Eo in Hold. pose proof (Hlt o Hold) as Hlo. split; [exact Hlo|].
    pose proof (memo_ok_of prog skind idhash NF Hs s _ q o I Hgq Hold) as Hoko.
    pose proof (mo_val _ _ _ _ _ _ _ _ Hoko) as Hvo. pose proof (mo_low _ _ _ _ _ _ _ _ Hoko) as Hlo0.
    rewrite Eo in Eb. unfold backdate in Eb. rewrite Hvo, Hlo0 in Eb.
    assert (Hcb : can_backdate_dur 0 0 = true) by (apply can_backdate_dur_spec; lia). rewrite Hcb in Eb. cbn [andb] in Eb.
    destruct (rval_eqb (Er Hs s (m_verified o) q) (v, hs)) eqn:Ee.
    - apply rval_eqb_eq in Ee. destruct (changed_after (m_changed o) (fr_changed fr)); [discriminate|].
      injection Eb as <-. left. split; [reflexivity|]. rewrite Hvo, Ee. reflexivity.
    - injection Eb as <-. right. split; [reflexivity|].
      destruct (fo_div _ _ _ _ _ _ _ _ _ _ _ FO o Eo) as [Hag | Hlate]; [|exact Hlate]. exfalso.
      destruct (fo_tr _ _ _ _ _ _ _ _ _ _ _ FO _ Hag) as [_ Hrun]. cbn [run] in Hrun.
      assert (Er Hs s (m_verified o) q = (v, hs)).
      { unfold SInv.Er. rewrite (Ew_unfold idhash prog rank Hrank NF Hbound). exact Hrun. }
      rewrite H, (proj2 (rval_eqb_eq _ _) eq_refl) in Ee. discriminate. }
  assert (Hch_le : ch <= cur s).
  { destruct old as [o|] eqn:Eo.
    - destruct (Hback o eq_refl) as [Hlo [[-> _] | [-> _]]].
      + pose proof (mo_order _ _ _ _ _ _ _ _ (memo_ok_of prog skind idhash NF Hs s _ q o I Hgq Hold)). lia.
      + exact (fo_le _ _ _ _ _ _ _ _ _ _ _ FO).
    - cbn in Eb. injection Eb as <-. exact (fo_le _ _ _ _ _ _ _ _ _ _ _ FO). }
  assert (HinF1 : forall q0 fr0, In (q0, fr0) F1 <-> (q0 = q /\ fr0 = frA) \/ (q0 <> q /\ In (q0, fr0) F)).
  { intros q0 fr0. unfold F1. split.
    - intros [E | Hin]; [injection E as <- <-; left; auto | right; split; [|exact Hin]].
      intros ->. apply Hna. exists q, fr0. auto.
    - intros [[-> ->] | [_ Hin]]; [left; reflexivity | right; exact Hin]. }
  (* the stored state extends the state after the deletions *)
  assert (Hold_t0 : forall m0, d_memo t0 (loc_of q) = Some m0 -> m_verified m0 < cur t0 /\ m_changed m0 <= m_changed mm).
  { intros m0 Hm0. rewrite Hm1, Hold in Hm0. destruct (Hback m0 Hm0) as [Hlo Hb]. rewrite Hc1. split; [exact Hlo|].
    cbn. destruct Hb as [[-> _] | [-> Hl]]; [lia|].
    rewrite Hm0 in Hold. pose proof (mo_order _ _ _ _ _ _ _ _ (memo_ok_of prog skind idhash NF Hs s _ q m0 I Hgq Hold)). lia. }
  assert (X2 : sext t0 s').
  { apply (store_sext t0 s' (loc_of q) mm); try reflexivity. exact Hold_t0. }
  pose proof (sext_cur _ _ X2) as Hc2.
  assert (Hm' : d_memo s' (loc_of q) = Some mm) by (cbn; apply upd_same).
  assert (Hlog2 : Logged s' fr log).
  { apply (Logged_sext skind t0 s' F1 fr log (si_oinv _ _ _ _ _ _ _ I1) X2).
    exact (Logged_sext skind s t0 _ fr log OI X1 (fo_logged _ _ _ _ _ _ _ _ _ _ _ FO)). }
  assert (Hlok_of : forall y a, In (y, a) log -> exists pre, lok s' fr pre (y, a) /\ exists post, log = pre ++ (y, a) :: post).
  { intros y a Hin. apply in_split in Hin. destruct Hin as (l1 & l2 & El). exists l1. split; [exact (Hlog2 l1 _ l2 El) | eauto]. }
  (* the callees: settled, somewhere else *)
  assert (Hcallee : forall d a, In (RQ d, a) log -> gk d /\ loc_of d <> loc_of q /\
            exists md, d_memo t0 (loc_of d) = Some md /\ d_memo s' (loc_of d) = Some md /\ m_verified md = cur t0 /\ m_val md = Some a).
  { intros d a Hin. destruct (Hlok_of _ _ Hin) as (pre & Hlok & _). unfold lok in Hlok. cbn [fst snd] in Hlok.
    destruct Hlok as (Hgd & md & Hmd & Hvd & Hvald & _). split; [exact Hgd|].
    assert (Hne : loc_of d <> loc_of q).
    { intros E.
      assert (Hcd : In (RQ d) (map fst log)) by (apply in_map_fst_log; eauto).
      destruct (fo_tr _ _ _ _ _ _ _ _ _ _ _ FO (senv_of s fr)) as [T _].
      { exact (senv_agrees s fr log (fo_logged _ _ _ _ _ _ _ _ _ _ _ FO) (fo_idents _ _ _ _ _ _ _ _ _ _ _ FO)). }
      cbn [trace] in T. rewrite app_nil_r in T. rewrite <- T in Hcd.
      apply calls_of_trace in Hcd. pose proof (Hrank _ _ Hcd) as Hr.
      assert (d = q) by (rewrite <- (kq_loc d Hgd), <- (kq_loc q Hgq), E; reflexivity). subst d. lia. }
    split; [exact Hne|]. exists md. rewrite Hc2 in Hvd. split; [|auto].
    cbn in Hmd. rewrite upd_other in Hmd by congruence. exact Hmd. }
  (* the final environment gives the logged answers *)
  assert (Hag : agrees (envw (wcur s') q) log).
  { intros y a Hin. destruct (Hlok_of _ _ Hin) as (pre & Hlok & _). unfold lok in Hlok. cbn [fst snd] in Hlok.
    destruct y as [i | d | c | | id idv f0 f1 | h f | h]; cbn [answer SSem.envw mkenv e_in e_cell e_q e_slot e_new].
    - destruct Hlok as (-> & _). reflexivity.
    - destruct (Hcallee d a Hin) as (Hgd & Hne & md & Hmd0 & _ & Hvd & Hvald).
      pose proof (memo_ok_of prog skind idhash NF Hs t0 F1 d md I1 Hgd Hmd0) as Hokd.
      pose proof (mo_val _ _ _ _ _ _ _ _ Hokd) as Ev. rewrite Hvald, Hvd in Ev. injection Ev as Ev.
      rewrite (Er_cur prog idhash NF) in Ev. rewrite Ev.
      assert (Hsd : settled t0 d) by (exists md; auto).
      exact (proj1 (proj2 (settled_stable prog skind idhash rank Hrank NF Hbound Hprov Hgk Hs t0 F1 s' d I1 X2 Hgd Hsd))).
    - destruct Hlok as (-> & _). reflexivity.
    - destruct Hlok as (-> & _). reflexivity.
    - destruct Hlok as (h & sl & -> & Hine & _). cbn [wcur w_alloc]. rewrite Hm'. cbn [m_structs mm].
      rewrite (assoc_id_nodup active id h Hact_nd); [reflexivity|]. apply Hact_in. exact Hine.
    - destruct Hlok as (sl & -> & (Hs0 & _) & _). cbn [wcur w_slot]. rewrite Hs0, fld3_slot. reflexivity.
    - destruct Hlok as (sl & -> & (Hs0 & _) & _). cbn [wcur w_slot]. rewrite Hs0. reflexivity. }
  destruct (fo_tr _ _ _ _ _ _ _ _ _ _ _ FO _ Hag) as [Htr Hrun]. cbn [trace run] in Htr, Hrun. rewrite app_nil_r in Htr.
  assert (Etr : trr Hs s' (cur t0) q = map fst log).
  { rewrite <- Hc2, (trr_cur prog idhash NF). exact Htr. }
  assert (EE : Er Hs s' (cur t0) q = (v, hs)).
  { rewrite <- Hc2, (Er_cur prog idhash NF), (Ew_unfold idhash prog rank Hrank NF Hbound). exact Hrun. }
  assert (EW : W Hs s' (cur t0) = wcur s') by (rewrite <- Hc2; apply W_cur).
  assert (Hlogin : forall y, In y (map fst log) <-> exists a, In (y, a) log) by (intros y; apply in_map_fst_log).
  assert (Halloc_h : forall id u w z a, In (RNew id u w z, a) log ->
            exists h sl, a = (0, [h]) /\ In (mk_entry id h true) (fr_ids fr) /\ w_alloc (wcur s') q id = h /\
                         live_h s' h sl /\ slot_fields sl = (u, w, z) /\ In (id, h) active).
  { intros id u w z a Hin. destruct (Hlok_of _ _ Hin) as (pre & Hlok & _). unfold lok in Hlok. cbn [fst snd] in Hlok.
    destruct Hlok as (h & sl & -> & Hine & Hl & Hf & _). exists h, sl. split; [reflexivity|]. split; [exact Hine|].
    assert (Hina : In (id, h) active) by (apply Hact_in; exact Hine).
    split; [cbn [wcur w_alloc]; rewrite Hm'; cbn [m_structs mm]; exact (assoc_id_nodup active id h Hact_nd Hina)|]. auto. }
  assert (Hstore : SInv Hs s' F /\ sext t0 s').
  { apply (SInv_store prog skind idhash rank Hrank NF Hbound Hprov Hgk Hs t0 F1 s' F (loc_of q) mm I1); try reflexivity.
    - exact Hold_t0.
    - exact OIF.
    - apply (cons_nk s s' ((q, fr) :: F) F (si_cons _ _ _ _ _ _ _ I)); [cbn; exact Hst1|].
      intros q0 fr0 Hin. exists fr0. right. exact Hin.
    - exact Hna.
    - intros l0 Hne. split.
      + intros (q0 & fr0 & Hin & El). exists q0, fr0. split; [right; exact Hin | exact El].
      + intros (q0 & fr0 & Hin & El). apply HinF1 in Hin. destruct Hin as [[-> _] | [_ Hin]]; [contradiction Hne; auto|].
        exists q0, fr0. auto.
    - intros q0 fr0 Hin. right. exact Hin.
    - (* the new memo *)
      intros Hothers _. rewrite kq_loc by exact Hgq.
      assert (Hself : dval Hs s' F (cur t0) q).
      { constructor; rewrite ?Etr, ?EW.
        - exists mm. split; [exact Hm'|]. split; [cbn; lia|]. intros _. cbn. reflexivity.
        - intros h f sl Hin (Hs0 & _) _. cbn [wcur w_slot]. rewrite Hs0. apply fld3_slot.
        - intros h sl Hin (Hs0 & _). cbn [wcur w_slot]. rewrite Hs0. reflexivity.
        - intros id idv f0 f1 Hin. apply Hlogin in Hin. destruct Hin as (a & Hin).
          destruct (Halloc_h _ _ _ _ _ Hin) as (h & sl & _ & _ & Ea & Hl & Hf & _).
          rewrite Ea. split; [cbn [wcur w_slot]; destruct Hl as (Hs0 & _); rewrite Hs0; exact Hf|].
          exact (live_issued skind s' F h sl OIF Hl).
        - intros id idv f0 f1 sl Hin Hl. left. split; [exact Hna|]. exists mm. split; [exact Hm'|]. cbn [m_structs mm].
          apply Hlogin in Hin. destruct Hin as (a & Hin).
          destruct (Halloc_h _ _ _ _ _ Hin) as (h & sl0 & _ & _ & Ea & _ & _ & Hina). rewrite Ea. exact Hina. }
      constructor; cbn [mm m_val m_verified m_changed m_dur m_origin m_edges m_structs]; rewrite ?Etr, ?EE, ?EW.
      + rewrite Hc2. pose proof (si_cur _ _ _ _ _ _ _ I1). lia.
      + reflexivity.
      + reflexivity.
      + destruct (fr_untracked fr); auto.
      + split; [exact Hact_nd|]. intros id h. split.
        * intros Hin. pose proof Hin as Hin0. apply Hact_in in Hin.
          pose proof (proj1 (fo_active _ _ _ _ _ _ _ _ _ _ _ FO id h) Hin) as (u & w & z & Hinl).
          split; [apply in_news_ids; exists u, w, z; apply Hlogin; eauto|].
          cbn [wcur w_alloc]. rewrite Hm'. cbn [m_structs mm]. symmetry. exact (assoc_id_nodup active id h Hact_nd Hin0).
        * intros [Hin ->]. apply in_news_ids in Hin. destruct Hin as (u & w & z & Hin). apply Hlogin in Hin. destruct Hin as (a & Hin).
          destruct (Halloc_h _ _ _ _ _ Hin) as (h & sl & _ & _ & Ea & _ & _ & Hina). rewrite Ea. exact Hina.
      + intros i. rewrite Hlogin. split.
        * intros (a & Hin). destruct (Hlok_of _ _ Hin) as (pre & Hlok & _). exact (proj1 (proj2 Hlok)).
        * intros He. destruct (fo_edges _ _ _ _ _ _ _ _ _ _ _ FO _ He) as [_ (a & Hin)]. exists a. exact Hin.
      + intros d. rewrite Hlogin. split.
        * intros (a & Hin). destruct (Hlok_of _ _ Hin) as (pre & Hlok & _). unfold lok in Hlok. cbn [fst snd] in Hlok.
          destruct Hlok as (_ & md & _ & _ & _ & _ & He). exact He.
        * intros He. destruct (fo_edges _ _ _ _ _ _ _ _ _ _ _ FO _ He) as [_ (a & Hin)]. exists a. exact Hin.
      + intros h f. rewrite Hlogin. split.
        * intros (a & Hin). destruct (Hlok_of _ _ Hin) as (pre & Hlok & _). unfold lok in Hlok. cbn [fst snd] in Hlok.
          destruct Hlok as (sl & _ & _ & _ & He & _). exact He.
        * intros He. destruct (fo_edges _ _ _ _ _ _ _ _ _ _ _ FO _ He) as [_ (a & Hin)]. exists a. exact Hin.
      + intros o He. destruct (fo_edges _ _ _ _ _ _ _ _ _ _ _ FO _ He) as [Hno _]. exact (Hno o eq_refl).
      + exact (fo_eorder _ _ _ _ _ _ _ _ _ _ _ FO).
      + intros y Hy Hu. apply Hlogin in Hy. destruct Hy as (a & Hin).
        assert (Hut : fr_untracked fr = true) by (apply (fo_untr _ _ _ _ _ _ _ _ _ _ _ FO); eauto).
        rewrite Hut. reflexivity.
      + (* own structs *)
        intros _ id h Hin. apply Hact_in in Hin.
        pose proof (proj1 (fo_active _ _ _ _ _ _ _ _ _ _ _ FO id h) Hin) as (u & w & z & Hinl).
        destruct (Hlok_of _ _ Hinl) as (pre & Hlok & post & El). unfold lok in Hlok. cbn [fst snd] in Hlok.
        destruct Hlok as (h1 & sl & E1 & _ & Hl & Hf & Hu & Hd & A0 & A1 & Hcs). injection E1 as <-.
        exists sl. split; [exact Hl|]. split; [cbn [wcur w_slot]; destruct Hl as (Hs0 & _); rewrite Hs0; reflexivity|].
        split; [exact Hd|]. rewrite Hc2 in A0, A1. split; [exact A0|]. split; [exact A1|].
        destruct Hcs as [A | (y & a & Hiny & Hs0)]; [left; exact A | right].
        exists (map fst pre), u, w, z, (map fst post), y. split; [rewrite El, map_app; reflexivity|].
        split; [apply in_map_iff; exists (y, a); auto | exact Hs0].
      + (* observers *)
        intros d Hd. destruct (clos_inv _ _ _ Hd) as [-> | (d1 & Hin1 & Hd1)]; [exact Hself|].
        unfold SSem.trw in Hin1. rewrite Htr in Hin1.
        apply Hlogin in Hin1. destruct Hin1 as (a & Hin1).
        destruct (Hcallee d1 a Hin1) as (Hgd1 & Hne1 & md1 & _ & Hmd1 & Hvd1 & _).
        pose proof (Hothers (loc_of d1) md1 Hne1 Hmd1) as Hok1. rewrite (kq_loc d1 Hgd1) in Hok1.
        rewrite <- Hvd1. apply (mo_obs _ _ _ _ _ _ _ _ Hok1 d). rewrite Hvd1, EW. exact Hd1.
      + intros _ d Hin. rewrite Hc2, Etr in Hin. apply Hlogin in Hin. destruct Hin as (a & Hin).
        destruct (Hcallee d a Hin) as (_ & _ & md & _ & Hmd & Hvd & _). exists md. rewrite Hc2. auto.
    - (* observers of q *)
      intros g mg Hmg Hne Hcl Hle. rewrite (kq_loc q Hgq) in *.
      pose proof (si_memo _ _ _ _ _ _ _ I1 g mg Hmg) as Hokg.
      destruct (dv_memo _ _ _ _ _ _ _ _ (mo_obs _ _ _ _ _ _ _ _ Hokg q Hcl)) as (md & Hmd & Hvle & Hobs).
      rewrite Hm1, Hold in Hmd. destruct (Hback md Hmd) as [Hlo Hb]. cbn [mm m_changed] in Hle.
      destruct Hb as [[-> Hvo] | [-> Hlate]]; [|lia].
      rewrite EE. rewrite (Hobs Hle).
      assert (Hmd0 : d_memo t0 (loc_of q) = Some md) by (rewrite Hm1, Hold; exact Hmd).
      pose proof (mo_val _ _ _ _ _ _ _ _ (memo_ok_of prog skind idhash NF Hs t0 F1 q md I1 Hgq Hmd0)) as Ev.
      rewrite Hvo in Ev. injection Ev as Ev. symmetry. exact Ev.
    - (* the structs q held *)
      intros id h sl _ Ho. rewrite (kq_loc q Hgq) in Ho.
      destruct Ho as [(Hnaq & _) | (fr0 & e0 & Hin0 & Hine0 & E1 & E2)].
      + exfalso. apply Hnaq. exists q, frA. split; [left; reflexivity | reflexivity].
      + apply HinF1 in Hin0. destruct Hin0 as [[_ ->] | [Hneq _]]; [|contradiction Hneq; reflexivity].
        unfold frA in Hine0. cbn [fr_ids set_fr_ids] in Hine0. apply filter_In in Hine0. destruct Hine0 as [Hine0 Ha0].
        cbn [mm m_structs]. rewrite Eactive. apply drain_active_in. exists e0. auto.
    - intros q0 fr0 id h Hin0 Hine0. apply HinF1 in Hin0. destruct Hin0 as [[-> ->] | [_ Hin0]]; [right | left; exact Hin0].
      unfold frA in Hine0. cbn [fr_ids set_fr_ids] in Hine0. apply filter_In in Hine0. cbn [mm m_structs]. apply Hact_in. exact (proj1 Hine0). }
  destruct Hstore as [I' _].
  split; [exact I'|]. split; [exact (sext_trans _ _ _ X1 X2)|]. split; [cbn; exact Hst1|].
  split.
  { intros l Hne. cbn. rewrite upd_other by congruence. rewrite Hm1. reflexivity. }
  split; [intros p frp h0 Hp Hh0; cbn; exact (Hfroz1 p frp h0 Hp Hh0)|].
  split; [exact Hm'|]. split; [cbn; exact Hc1|]. split; reflexivity.
Qed.

End Exec.

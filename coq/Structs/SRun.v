(* Structs/SRun.v — running a body: every read extends the log of the execution and keeps the
   from-scratch invariant; the level interface (what fetch and maybe_changed_after guarantee). *)
From Salsa Require Import Base.
From Salsa.Kern Require Import CoreK CoreKFacts.
From Salsa.Structs Require Import Model ProofsBase ProofsCascade Machine ProofsInv ProofsStep Theorems Guard SimBase SimOps Sim
     SSem SInv SStable SSlots SStore SLock SNew SFrame SNewInv.

Lemma edge_eqb_eq a b : edge_eqb a b = true <-> a = b.
Proof.
  destruct a, b; cbn [edge_eqb]; try (split; [discriminate | intros E; discriminate]).
  - rewrite key_eqb_eq. split; [intros ->; reflexivity | intros E; injection E; auto].
  - rewrite qk_eqb_eq. split; [intros ->; reflexivity | intros E; injection E; auto].
  - rewrite andb_true_iff, handle_eqb_eq, N.eqb_eq. split; [intros [-> ->]; reflexivity | intros E; injection E; auto].
  - rewrite qk_eqb_eq. split; [intros ->; reflexivity | intros E; injection E; auto].
Qed.

Lemma In_add_edge e' es e : In e' (add_edge es e) <-> In e' es \/ e' = e.
Proof.
  unfold add_edge. destruct (existsb (edge_eqb e) es) eqn:E.
  - split; [auto|]. intros [H | ->]; [exact H|].
    apply existsb_exists in E. destruct E as (x & Hx & Ex). apply edge_eqb_eq in Ex. subst x. exact Hx.
  - rewrite in_app_iff. cbn. split; [intros [H | [<- | []]]; auto | intros [H | ->]; auto].
Qed.

Inductive nospec : body -> Prop :=
| ns_ret v hs : nospec (Ret v hs)
| ns_rdin i k : (forall v, nospec (k v)) -> nospec (RdIn i k)
| ns_call c k : (forall r, nospec (k r)) -> nospec (CallQ c k)
| ns_cell c k : (forall v, nospec (k v)) -> nospec (RdCell c k)
| ns_touch k : nospec k -> nospec (Touch k)
| ns_new idv f0 f1 k : (forall h, nospec (k h)) -> nospec (NewStruct idv f0 f1 k)
| ns_field h f k : (forall v, nospec (k v)) -> nospec (RdField h f k)
| ns_idfield h k : (forall v, nospec (k v)) -> nospec (RdIdField h k).

Definition first_read (b : body) : Prop :=
  match b with
  | RdIn _ _ | CallQ _ _ | RdCell _ _ | Touch _ => True
  | _ => False
  end.

Definition GMAX : N := 4294967295.

Section Run.
Variable prog : qk -> body.
Variable skind : N -> bool.
Variable idhash : val -> N.
Variable rank : qk -> nat.
Hypothesis Hrank : calls_below prog rank.
Variable NF : nat.
Hypothesis Hbound : forall q, (rank q < NF)%nat.
Hypothesis Hprov : no_forge idhash prog.
Hypothesis Hgk : forall q d, calls (prog q) d -> gk d.
Hypothesis Hnk : forall f, skind f = false.
Hypothesis Hfirst : forall q d, calls (prog q) d -> first_read (prog d).
Hypothesis Hns : forall q, nospec (prog q).

Notation Ew := (Ew idhash prog NF).
Notation trw := (trw idhash prog NF).
Notation envw := (envw idhash prog NF).
Notation clos := (clos idhash prog NF).
Notation SInv := (SInv prog skind idhash NF).
Notation smemo_ok := (smemo_ok prog idhash NF).
Notation dval := (dval prog idhash NF).
Notation Er := (Er prog idhash NF).
Notation trr := (trr prog idhash NF).
Notation FrameOK := (FrameOK prog idhash NF).
Notation OInv := (OInv skind).

Lemma gens_of_cur Hs s F : SInv Hs s F -> cur s < GMAX ->
  forall i sl, d_slots s i = Some sl -> next_gen (sl_gen sl) <> None.
Proof.
  intros I Hc i sl Hsl. pose proof (si_gens _ _ _ _ _ _ _ I i sl Hsl) as G.
  rewrite next_gen_spec. unfold GMAX in Hc.
  assert (Hlt : sl_gen sl + 1 < 4294967296).
  { destruct (sl_updated sl) as [r|] eqn:Eu; [|lia].
    assert (Hu : sl_updated sl <> None) by (rewrite Eu; discriminate).
    pose proof (proj2 (si_slots _ _ _ _ _ _ _ I i sl Hsl Hu) r Eu). lia. }
  apply N.ltb_lt in Hlt. rewrite Hlt. discriminate.
Qed.

(* ---------------------------------------------------------------- one more read *)
Lemma cstamp_sext s s' F t id0 c : OInv s F -> sext s s' -> cstamp s t id0 c -> cstamp s' t id0 c.
Proof.
  intros OI X [A | (pre & a & b & c0 & post & x & Et & Hx & Hs0)]; [left; exact A | right].
  exists pre, a, b, c0, post, x. split; [exact Et|]. split; [exact Hx|].
  exact (sle_sext skind s s' F c x OI X Hs0).
Qed.

Lemma frame_read Hs s s' F q old fr fr' log x a b b' dis :
  OInv s F -> sext s s' ->
  FrameOK Hs s q old fr log b dis ->
  (forall id u v w, x <> RNew id u v w) ->
  (forall e, answer e x = a ->
     trace idhash e b dis = x :: trace idhash e b' dis /\ run idhash e b dis = run idhash e b' dis) ->
  lok s' fr' log (x, a) ->
  fr_ext s' fr fr' ->
  fr_disamb fr' = fr_disamb fr -> fr_ids fr' = fr_ids fr -> fr_dur fr' = 0 ->
  cst s' (log ++ [(x, a)]) (fr_changed fr') ->
  (fr_untracked fr' = true <-> (fr_untracked fr = true \/ untr x)) ->
  (forall e, In e (fr_edges fr') -> In e (fr_edges fr) \/ (edge_rd e = x /\ forall o, e <> EOut o)) ->
  fr_edges fr' = edge_step (fr_edges fr) x ->
  d_memo s' (loc_of q) = d_memo s (loc_of q) ->
  (forall e, In e (fr_ids fr) -> te_active e = false -> d_slots s' (fst (te_id e)) = d_slots s (fst (te_id e))) ->
  (forall o, old = Some o -> m_verified o < cur s /\
     (agrees (envw (W Hs s (m_verified o)) q) log ->
      answer (envw (W Hs s (m_verified o)) q) x = a \/ m_verified o < fr_changed fr')) ->
  FrameOK Hs s' q old fr' (log ++ [(x, a)]) b' dis.
Proof.
  intros OI X FO Hx Htr Hlok FE Edis Eids Hdur Hstamp Huntr Hedges Heorder Hmemo Hfroz Hdiv.
  pose proof (sext_cur _ _ X) as Hcur.
  destruct FE as [FE1 [FE2 FE3] FE4 FE5].
  assert (FE : fr_ext s' fr fr') by (constructor; auto).
  constructor.
  - apply Logged_snoc; [|exact Hlok]. apply (Logged_ext s' fr fr' log FE).
    exact (Logged_sext skind s s' F fr log OI X (fo_logged _ _ _ _ _ _ _ _ _ _ _ FO)).
  - rewrite Edis. exact (fo_dis _ _ _ _ _ _ _ _ _ _ _ FO).
  - intros e Hag. apply agrees_app in Hag. destruct Hag as [Hag1 Hag2].
    destruct (fo_tr _ _ _ _ _ _ _ _ _ _ _ FO e Hag1) as [T1 R1].
    destruct (Htr e (Hag2 _ _ (or_introl eq_refl))) as [T2 R2].
    split; [|congruence]. rewrite T1, T2, map_app. cbn [map fst]. rewrite <- app_assoc. reflexivity.
  - exact FE3.
  - pose proof (fo_ge1 _ _ _ _ _ _ _ _ _ _ _ FO). lia.
  - exact Hstamp.
  - intros _. exact Hdur.
  - rewrite Huntr, (fo_untr _ _ _ _ _ _ _ _ _ _ _ FO). split.
    + intros [(y & c & Hin & Hu) | Hu]; [exists y, c; split; [apply in_or_app; left; exact Hin | exact Hu]|].
      exists x, a. split; [apply in_or_app; right; left; reflexivity | exact Hu].
    + intros (y & c & Hin & Hu). apply in_app_or in Hin. destruct Hin as [Hin | [E | []]]; [left; eauto|].
      injection E as <- _. right. exact Hu.
  - intros e He. destruct (Hedges e He) as [Hold | [Ee Hno]].
    + destruct (fo_edges _ _ _ _ _ _ _ _ _ _ _ FO e Hold) as [A (c & Hin)]. split; [exact A|].
      exists c. apply in_or_app. left. exact Hin.
    + split; [exact Hno|]. exists a. rewrite Ee. apply in_or_app. right. left. reflexivity.
  - rewrite map_app. cbn [map fst]. rewrite edges_of_snoc, Heorder, (fo_eorder _ _ _ _ _ _ _ _ _ _ _ FO). reflexivity.
  - intros id0 h0. rewrite Eids, (fo_active _ _ _ _ _ _ _ _ _ _ _ FO). split.
    + intros (u & v & w & Hin). exists u, v, w. apply in_or_app. left. exact Hin.
    + intros (u & v & w & Hin). apply in_app_or in Hin. destruct Hin as [Hin | [E | []]]; [eauto|].
      injection E as E _. exfalso. exact (Hx _ _ _ _ E).
  - rewrite Eids. exact (fo_idents _ _ _ _ _ _ _ _ _ _ _ FO).
  - rewrite Eids. exact (fo_cnt_act _ _ _ _ _ _ _ _ _ _ _ FO).
  - rewrite Eids. exact (fo_cnt_inact _ _ _ _ _ _ _ _ _ _ _ FO).
  - rewrite Eids. intros e He Ha.
    destruct (fo_seeded _ _ _ _ _ _ _ _ _ _ _ FO e He Ha) as (o & Eold & Hseedin & sl & Hl & Hf & Hd & A0 & A1 & Hcs & Hnl).
    exists o. split; [exact Eold|]. split; [exact Hseedin|]. exists sl.
    destruct (Hdiv o Eold) as [Hlt _].
    split; [unfold live_h; rewrite (Hfroz e He Ha); exact Hl|].
    split; [rewrite (W_same_cur Hs s s' _ Hcur Hlt); exact Hf|].
    split; [exact Hd|]. split; [exact A0|]. split; [exact A1|]. split; [|rewrite Hcur; exact Hnl].
    unfold SInv.trr. rewrite (W_same_cur Hs s s' _ Hcur Hlt). exact (cstamp_sext s s' F _ _ _ OI X Hcs).
  - rewrite Eids. exact (fo_seedall _ _ _ _ _ _ _ _ _ _ _ FO).
  - intros E. apply app_eq_nil in E. destruct E as [_ E]. discriminate.
  - rewrite Hmemo. exact (fo_old _ _ _ _ _ _ _ _ _ _ _ FO).
  - intros o Eold. destruct (Hdiv o Eold) as [Hlt Hd]. rewrite (W_same_cur Hs s s' _ Hcur Hlt).
    destruct (fo_div _ _ _ _ _ _ _ _ _ _ _ FO o Eold) as [Hag | Hlate]; [|right; lia].
    destruct (Hd Hag) as [Ea | Hl]; [left | right; exact Hl].
    apply agrees_app. split; [exact Hag|]. intros y c [E | []]. injection E as <- <-. exact Ea.
Qed.

(* ---------------------------------------------------------------- the frame of a running query may move on *)
Lemma SInv_set_frame Hs s F q fr fr1 :
  SInv Hs s F -> In (q, fr) F -> fr_ids fr1 = fr_ids fr -> SInv Hs s (set_frame F q fr1).
Proof.
  intros I Hq Eids. pose proof (si_oinv _ _ _ _ _ _ _ I) as OI.
  assert (Efr : frame_ids fr1 = frame_ids fr) by (unfold frame_ids; rewrite Eids; reflexivity).
  assert (HinF : forall q0 fr0, In (q0, fr0) (set_frame F q fr1) <-> (q0 = q /\ fr0 = fr1) \/ (q0 <> q /\ In (q0, fr0) F)).
  { intros q0 fr0. exact (in_set_frame F q fr fr1 q0 fr0 (oi_frames _ _ _ OI) Hq). }
  apply (SInv_slots prog skind idhash rank Hrank NF Hbound Hprov Hgk Hs s F s (set_frame F q fr1) (fun _ => False) I (sext_refl s) eq_refl).
  - exact (oinv_same_ids skind s F q fr fr1 OI Hq Efr).
  - exact (cons_set_frame skind s F q fr fr1 (si_cons _ _ _ _ _ _ _ I) (oi_frames _ _ _ OI) Hq).
  - intros h. right. intros [].
  - intros l. rewrite !active_loc_flocs, flocs_set_frame. tauto.
  - intros d Hd A. apply (settled_not_active prog skind idhash NF Hs s F d I Hd). revert A.
    rewrite !active_loc_flocs, flocs_set_frame. tauto.
  - intros q0 fr0 Hin. apply HinF in Hin.
    destruct Hin as [[-> _] | [_ Hin]]; [exact (si_active _ _ _ _ _ _ _ I q fr Hq) | exact (si_active _ _ _ _ _ _ _ I q0 fr0 Hin)].
  - intros h sl' _ Hl. exists sl'. split; [exact Hl|]. repeat split; reflexivity.
  - intros l m id h _ _ _. split; [intros []|]. apply slot_keeps_refl.
  - intros d id h sl' _ _ _ Ho. destruct Ho as [(Hna & md & Hmd & Hin) | (fr0 & e0 & Hin0 & Hine0 & E1 & E2)].
    + left. split; [|eauto]. intros A. apply Hna. revert A. rewrite !active_loc_flocs, flocs_set_frame. tauto.
    + right. destruct (qk_eq_dec d q) as [-> | Hne].
      * pose proof (frames_fun F q fr0 fr (oi_frames _ _ _ OI) Hin0 Hq) as ->.
        exists fr1, e0. split; [apply HinF; left; auto|]. rewrite Eids. auto.
      * exists fr0, e0. split; [apply HinF; right; auto | auto].
  - intros l m d h f sl' _ _ _ _ [].
  - intros l m d h sl' _ _ _ _ [].
  - intros l m d id idv f0 f1 sl' _ _ _ _ [].
  - intros c h f [].
  - exact (si_slots _ _ _ _ _ _ _ I).
  - exact (si_gens _ _ _ _ _ _ _ I).
  - intros h sl Hl Hu. destruct (si_lock _ _ _ _ _ _ _ I h sl Hl Hu) as [A | (q0 & fr0 & id0 & Hin0 & Hine0)]; [left; exact A | right].
    destruct (qk_eq_dec q0 q) as [-> | Hne].
    + pose proof (frames_fun F q fr0 fr (oi_frames _ _ _ OI) Hin0 Hq) as ->.
      exists q, fr1, id0. split; [apply HinF; left; auto | rewrite Eids; exact Hine0].
    + exists q0, fr0, id0. split; [apply HinF; right; auto | exact Hine0].
Qed.

(* ---------------------------------------------------------------- handles the execution may use *)
Definition hokq (s : db) (fr : frame) (h : handle) : Prop :=
  (exists l m id, d_memo s l = Some m /\ m_verified m = cur s /\ In (id, h) (m_structs m)) \/
  (exists id, In (mk_entry id h true) (fr_ids fr)).

Lemma hokq_hok s F q fr h : In (q, fr) F -> hokq s fr h -> hok s F h.
Proof. intros Hq [A | (id & Hin)]; [left; exact A | right; exists q, fr, id; auto]. Qed.

Lemma hokq_sext s s' fr fr' h : sext s s' ->
  (forall id h0, In (mk_entry id h0 true) (fr_ids fr) -> In (mk_entry id h0 true) (fr_ids fr')) ->
  hokq s fr h -> hokq s' fr' h.
Proof.
  intros X Hids [(l & m & id & Hm & Hv & Hin) | (id & Hin)]; [left | right; exists id; auto].
  exists l, m, id. split; [exact (x_valid _ _ X l m Hm Hv)|]. split; [rewrite (sext_cur _ _ X); exact Hv | exact Hin].
Qed.

Lemma hokq_live Hs s F q fr h : SInv Hs s F -> In (q, fr) F -> hokq s fr h ->
  exists sl, live_h s h sl /\ forall e, In e (fr_ids fr) -> te_active e = false -> fst (te_id e) <> fst h.
Proof.
  intros I Hq Hh. pose proof (si_oinv _ _ _ _ _ _ _ I) as OI.
  destruct Hh as [(l & m & id & Hm & Hv & Hin) | (id & Hin)].
  - assert (Hst : settled s (kq l)) by (exists m; rewrite loc_kq; auto).
    pose proof (settled_not_active prog skind idhash NF Hs s F (kq l) I Hst) as Hna. rewrite loc_kq in Hna.
    pose proof (si_memo _ _ _ _ _ _ _ I l m Hm) as Hok. rewrite <- (loc_kq l) in Hna.
    destruct (mo_own _ _ _ _ _ _ _ _ Hok Hna id h Hin) as (sl & Hl & _). exists sl. split; [exact Hl|].
    intros e He _ Ef. rewrite loc_kq in Hna.
    exact (memo_struct_other prog skind idhash NF Hnk s F Hs q fr e l m id h I Hq He Hm Hna Hin (eq_sym Ef)).
  - assert (Ho : owns skind s F (OwF q) h).
    { apply (owns_frame skind s F q fr h Hq). unfold frame_ids. apply in_map_iff. exists (mk_entry id h true). auto. }
    destruct (oi_live _ _ _ OI _ _ Ho) as (sl & Hl). exists sl. split; [exact Hl|].
    intros e He Ha Ef.
    assert (Hnd : NoDup (map fst (frame_ids fr))).
    { apply (oi_nodup _ _ _ OI (OwF q)). exists fr. auto. }
    unfold frame_ids in Hnd. rewrite map_map in Hnd.
    pose proof (map_inj_nodup (fun x => fst (te_id x)) (fr_ids fr) e (mk_entry id h true) Hnd He Hin Ef) as Ee.
    rewrite Ee in Ha. discriminate.
Qed.

(* the handles in the value of a settled query are held by memos verified now *)
Lemma result_hokq Hs s F d m a fr : SInv Hs s F -> gk d -> d_memo s (loc_of d) = Some m -> m_verified m = cur s ->
  m_val m = Some a -> forall h, In h (snd a) -> hokq s fr h.
Proof.
  intros I Hg Hm Hv Hval h Hin.
  assert (Hst : settled s d) by (exists m; auto).
  pose proof (memo_ok_of prog skind idhash NF Hs s F d m I Hg Hm) as Hok.
  pose proof (mo_val _ _ _ _ _ _ _ _ Hok) as Ev. rewrite Hval, Hv in Ev. injection Ev as Ev.
  rewrite (Er_cur prog idhash NF) in Ev.
  destruct (read_handle_listed prog skind idhash rank Hrank NF Hbound Hprov Hgk Hs s F d h I Hg Hst)
    as (A & mA & id & _ & HmA & HvA & HinA & _).
  { right. right. rewrite <- (Ew_unfold idhash prog rank Hrank NF Hbound). rewrite <- Ev. exact Hin. }
  left. exists (loc_of A), mA, id. auto.
Qed.

(* an environment that gives the logged answers *)
Definition senv_of (s : db) (fr : frame) : senv :=
  {| e_in := fun i => f_val (d_in s i);
     e_cell := d_cell s;
     e_q := fun d => match d_memo s (loc_of d) with
                     | Some m => match m_val m with Some v => v | None => (0, []) end
                     | None => (0, [])
                     end;
     e_slot := w_slot (wcur s);
     e_new := fun id => match find (fun e => key_eqb (te_ident e) id) (fr_ids fr) with
                        | Some e => te_id e
                        | None => (0, 0)
                        end |}.

Lemma find_ident l id h : NoDup (map te_ident l) -> In (mk_entry id h true) l ->
  find (fun e => key_eqb (te_ident e) id) l = Some (mk_entry id h true).
Proof.
  induction l as [|e l IH]; cbn [map find]; intros Hnd Hin; [destruct Hin|].
  apply NoDup_cons_iff in Hnd. destruct Hnd as [Hni Hnd].
  destruct Hin as [-> | Hin]; [cbn; rewrite key_eqb_refl; reflexivity|].
  destruct (key_eqb_spec (te_ident e) id) as [E | _]; [|exact (IH Hnd Hin)].
  exfalso. apply Hni. rewrite E. apply in_map_iff. exists (mk_entry id h true). auto.
Qed.

Lemma senv_agrees s fr log : Logged s fr log -> NoDup (map te_ident (fr_ids fr)) -> agrees (senv_of s fr) log.
Proof.
  intros HL Hnd x a Hin. apply in_split in Hin. destruct Hin as (l1 & l2 & El).
  pose proof (HL l1 (x, a) l2 El) as Hlok. unfold lok in Hlok. cbn [fst snd] in Hlok.
  destruct x as [i | d | c | | id idv f0 f1 | h f | h]; cbn [answer senv_of e_in e_cell e_q e_slot e_new].
  - destruct Hlok as (-> & _). reflexivity.
  - destruct Hlok as (_ & md & Hmd & _ & Hval & _). rewrite Hmd, Hval. reflexivity.
  - destruct Hlok as (-> & _). reflexivity.
  - destruct Hlok as (-> & _). reflexivity.
  - destruct Hlok as (h & sl & -> & Hine & _). rewrite (find_ident _ _ _ Hnd Hine). reflexivity.
  - destruct Hlok as (sl & -> & (Hs0 & _) & _). cbn [wcur w_slot]. rewrite Hs0, fld3_slot. reflexivity.
  - destruct Hlok as (sl & -> & (Hs0 & _) & _). cbn [wcur w_slot]. rewrite Hs0. reflexivity.
Qed.

End Run.

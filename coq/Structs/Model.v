(* Structs/Model.v — executable transcription of salsa's single-handle red/green
   algorithm (the Core algorithm) EXTENDED with tracked structs and `specify`.
   Definitions only (no proofs): total, computable, extractable Gallina.

   Mirrors (file:function, /repo line numbers in the comments next to each definition):
     tracked_struct.rs        DisambiguatorMap::disambiguate, IdentityMap::{seed,insert_entry,
                              reuse,is_active,drain}, new_struct, allocate, update,
                              delete_entity, clear_memos, lock_fields/acquire_read_lock,
                              tracked_field, untracked_field, entries, Slot::memos
     tracked_struct/tracked_field.rs   maybe_changed_after
     macro setup_tracked_struct.rs     update_fields / new_revisions
     function/diff_outputs.rs diff_outputs, report_stale_output
     function/specify.rs      specify_and_record, validate_specified_value
     function/execute.rs      execute (Panic strategy), execute_query, seed_active_query
     function/fetch.rs        fetch, fetch_hot, fetch_cold
     function/maybe_changed_after.rs   maybe_changed_after(_hot/_cold), verify_memo,
                              shallow_verify_memo(_cold), update_shallow, deep_verify_memo
                              (Derived / Assigned / DerivedUntracked arms), deep_verify_edges
                              (Input and Output arms)
     function/memo.rs         mark_as_verified, mark_outputs_as_verified, remove_outputs
     function/backdate.rs     backdate_if_appropriate
     active_query.rs          add_read, add_read_simple, add_untracked_read, add_output,
                              prepare_completion/finish
     zalsa_local.rs           disambiguate, tracked_struct_id, store_tracked_struct_id,
                              add_output, is_tracked_struct_of_active_query,
                              discard_edges_if_never_change
     input.rs / runtime.rs / database.rs  as in Core/Model.v

   Not modelled here (present in Core/Model.v): LRU eviction, fault injection.  *)
From Salsa Require Import Base.
From Salsa.gen Require Import Kernels.
From Salsa.Kern Require Import CoreK.

(* ---------------------------------------------------------------- identifiers *)
Definition handle := (N * N)%type.          (* salsa::Id = (index, generation) *)
Definition qk := (N * handle)%type.         (* DatabaseKeyIndex of a tracked fn: (family, key id) *)
Definition rval := (val * list handle)%type. (* a query result: plain data + tracked structs *)
Definition ident := (N * N)%type.           (* Identity = (hash of the id fields, disambiguator) *)

Definition handle_eqb : handle -> handle -> bool := key_eqb.
Definition qk_eqb (a b : qk) : bool := (fst a =? fst b) && handle_eqb (snd a) (snd b).

Fixpoint hlist_eqb (a b : list handle) : bool :=
  match a, b with
  | [], [] => true
  | x :: a', y :: b' => handle_eqb x y && hlist_eqb a' b'
  | _, _ => false
  end.
Definition rval_eqb (a b : rval) : bool := (fst a =? fst b) && hlist_eqb (snd a) (snd b).

(* Id: derive(Ord) on (index, generation) *)
Definition handle_ltb (a b : handle) : bool :=
  (fst a <? fst b) || ((fst a =? fst b) && (snd a <? snd b)).

(* Id::next_generation, through the translated kernel (src/id.rs:96) *)
Definition next_gen (g : N) : option N :=
  match k_id_next_generation (mk_k_Id 1 g) with
  | Some id => Some (k_Id_generation id)
  | None => None
  end.

(* canonical (history-independent) names: creator query, identity value, occurrence *)
Inductive cname := CN (cfam : N) (ckey : ckeyt) (idv : val) (occ : N)
with ckeyt := KIn (i : N) | KSt (c : cname).

(* ---------------------------------------------------------------- user code *)
Inductive body :=
| Ret (v : val) (hs : list handle)
| RdIn (i : ikey) (k : val -> body)                  (* input field getter *)
| CallQ (q : qk) (k : rval -> body)                  (* tracked fn call; key = input id or struct id *)
| RdCell (c : cell) (k : val -> body)                (* report_untracked_read(); read external cell *)
| Touch (k : body)
| NewStruct (idv f0 f1 : val) (k : handle -> body)   (* TS::new(db, idv, f0, f1) *)
| RdField (h : handle) (f : N) (k : val -> body)     (* tracked field getter (f = 0 | 1) *)
| RdIdField (h : handle) (k : val -> body)           (* identity (untracked) field getter *)
| Specify (fam : N) (h : handle) (v : rval) (k : body). (* fam::specify(db, h, v) *)

Definition CallS (fam : N) (h : handle) (k : rval -> body) : body := CallQ (fam, h) k.

(* ---------------------------------------------------------------- state *)
Inductive edge :=
| EIn (i : ikey)                 (* input field *)
| EQ (q : qk)                    (* tracked fn (input edge) *)
| EFld (h : handle) (f : N)      (* tracked field f of struct h (field ingredient, id) *)
| EOut (q : qk).                 (* output edge: `specify` *)

Definition edge_eqb (a b : edge) : bool :=
  match a, b with
  | EIn i, EIn j => key_eqb i j
  | EQ p, EQ q => qk_eqb p q
  | EFld h f, EFld h' f' => handle_eqb h h' && (f =? f')
  | EOut p, EOut q => qk_eqb p q
  | _, _ => false
  end.

Inductive origin := ODerived | OUntracked | OAssigned (by_ : qk).

Record memo := {
  m_val : option rval;
  m_verified : rev;
  m_changed : rev;
  m_dur : dur;
  m_origin : origin;
  m_edges : list edge;                    (* inputs and outputs, execution order, deduplicated *)
  m_structs : list (ident * handle)       (* QueryRevisionsExtra::tracked_struct_ids *)
}.

Record infield := { f_val : val; f_changed : rev; f_dur : dur }.

(* tracked_struct.rs:377-431 Value<C> (+ ghost sl_gen: the generation of the id most
   recently issued for this slot; the Rust slot does not store it) *)
Record slot := {
  sl_gen : N;
  sl_updated : option rev;                (* None = deleted / write-locked *)
  sl_dur : dur;
  sl_idv : val; sl_f0 : val; sl_f1 : val;
  sl_rev0 : rev; sl_rev1 : rev;
  sl_memos : N -> option memo             (* MemoTable: by function family; ignores generations *)
}.

Inductive event :=
| EvExec (q : qk)                          (* WillExecute *)
| EvValidate (q : qk)                      (* DidValidateMemoizedValue *)
| EvDiscardS (h : handle)                  (* DidDiscard { struct } *)
| EvDiscardM (q : qk)                      (* DidDiscard { memo of a fn keyed by the struct } *)
| EvWillDiscard (q : qk) (h : handle)      (* WillDiscardStaleOutput, output = tracked struct *)
| EvWillDiscardO (q : qk) (o : qk).        (* WillDiscardStaleOutput, output = specified memo *)

Record db := {
  d_revs : revs;
  d_ccount : N;
  d_in : ikey -> infield;
  d_cell : cell -> val;
  d_memo : N * N -> option memo;           (* memo tables of input slots: (family, input index) *)
  d_slots : N -> option slot;              (* tracked-struct pages: slot index -> value *)
  d_nslots : N;                            (* next never-used slot index *)
  d_free : list handle;                    (* IngredientImpl::free_list (FIFO) *)
  d_stack : list qk;                       (* claimed queries *)
  d_log : list event;                      (* newest first *)
  d_cname : list (handle * cname);         (* ghost: canonical name of every id ever issued *)
  d_ideal : list (handle * (val * val * val))
                                           (* ghost: the IDEAL struct store, keyed by the full id
                                              (index, generation): one entry per new_struct, newest
                                              first, with the fields the struct holds afterwards *)
}.

Definition cur (s : db) : rev := r_cur (d_revs s).

Definition set_revs s x := {| d_revs := x; d_ccount := d_ccount s; d_in := d_in s; d_cell := d_cell s; d_memo := d_memo s; d_slots := d_slots s; d_nslots := d_nslots s; d_free := d_free s; d_stack := d_stack s; d_log := d_log s; d_cname := d_cname s; d_ideal := d_ideal s |}.
Definition set_ccount s x := {| d_revs := d_revs s; d_ccount := x; d_in := d_in s; d_cell := d_cell s; d_memo := d_memo s; d_slots := d_slots s; d_nslots := d_nslots s; d_free := d_free s; d_stack := d_stack s; d_log := d_log s; d_cname := d_cname s; d_ideal := d_ideal s |}.
Definition set_in s x := {| d_revs := d_revs s; d_ccount := d_ccount s; d_in := x; d_cell := d_cell s; d_memo := d_memo s; d_slots := d_slots s; d_nslots := d_nslots s; d_free := d_free s; d_stack := d_stack s; d_log := d_log s; d_cname := d_cname s; d_ideal := d_ideal s |}.
Definition set_cell s x := {| d_revs := d_revs s; d_ccount := d_ccount s; d_in := d_in s; d_cell := x; d_memo := d_memo s; d_slots := d_slots s; d_nslots := d_nslots s; d_free := d_free s; d_stack := d_stack s; d_log := d_log s; d_cname := d_cname s; d_ideal := d_ideal s |}.
Definition set_memo s x := {| d_revs := d_revs s; d_ccount := d_ccount s; d_in := d_in s; d_cell := d_cell s; d_memo := x; d_slots := d_slots s; d_nslots := d_nslots s; d_free := d_free s; d_stack := d_stack s; d_log := d_log s; d_cname := d_cname s; d_ideal := d_ideal s |}.
Definition set_slots s x := {| d_revs := d_revs s; d_ccount := d_ccount s; d_in := d_in s; d_cell := d_cell s; d_memo := d_memo s; d_slots := x; d_nslots := d_nslots s; d_free := d_free s; d_stack := d_stack s; d_log := d_log s; d_cname := d_cname s; d_ideal := d_ideal s |}.
Definition set_nslots s x := {| d_revs := d_revs s; d_ccount := d_ccount s; d_in := d_in s; d_cell := d_cell s; d_memo := d_memo s; d_slots := d_slots s; d_nslots := x; d_free := d_free s; d_stack := d_stack s; d_log := d_log s; d_cname := d_cname s; d_ideal := d_ideal s |}.
Definition set_free s x := {| d_revs := d_revs s; d_ccount := d_ccount s; d_in := d_in s; d_cell := d_cell s; d_memo := d_memo s; d_slots := d_slots s; d_nslots := d_nslots s; d_free := x; d_stack := d_stack s; d_log := d_log s; d_cname := d_cname s; d_ideal := d_ideal s |}.
Definition set_stack s x := {| d_revs := d_revs s; d_ccount := d_ccount s; d_in := d_in s; d_cell := d_cell s; d_memo := d_memo s; d_slots := d_slots s; d_nslots := d_nslots s; d_free := d_free s; d_stack := x; d_log := d_log s; d_cname := d_cname s; d_ideal := d_ideal s |}.
Definition set_log s x := {| d_revs := d_revs s; d_ccount := d_ccount s; d_in := d_in s; d_cell := d_cell s; d_memo := d_memo s; d_slots := d_slots s; d_nslots := d_nslots s; d_free := d_free s; d_stack := d_stack s; d_log := x; d_cname := d_cname s; d_ideal := d_ideal s |}.
Definition set_cname s x := {| d_revs := d_revs s; d_ccount := d_ccount s; d_in := d_in s; d_cell := d_cell s; d_memo := d_memo s; d_slots := d_slots s; d_nslots := d_nslots s; d_free := d_free s; d_stack := d_stack s; d_log := d_log s; d_cname := x; d_ideal := d_ideal s |}.
Definition set_ideal s x := {| d_revs := d_revs s; d_ccount := d_ccount s; d_in := d_in s; d_cell := d_cell s; d_memo := d_memo s; d_slots := d_slots s; d_nslots := d_nslots s; d_free := d_free s; d_stack := d_stack s; d_log := d_log s; d_cname := d_cname s; d_ideal := x |}.

Definition set_sl_updated (sl : slot) (u : option rev) : slot :=
  {| sl_gen := sl_gen sl; sl_updated := u; sl_dur := sl_dur sl; sl_idv := sl_idv sl;
     sl_f0 := sl_f0 sl; sl_f1 := sl_f1 sl; sl_rev0 := sl_rev0 sl; sl_rev1 := sl_rev1 sl;
     sl_memos := sl_memos sl |}.
Definition set_sl_memos (sl : slot) (mm : N -> option memo) : slot :=
  {| sl_gen := sl_gen sl; sl_updated := sl_updated sl; sl_dur := sl_dur sl; sl_idv := sl_idv sl;
     sl_f0 := sl_f0 sl; sl_f1 := sl_f1 sl; sl_rev0 := sl_rev0 sl; sl_rev1 := sl_rev1 sl;
     sl_memos := mm |}.

(* ---------------------------------------------------------------- panics / monad *)
Inductive spanic :=
| PNeverChange        (* "never-changing inputs cannot be mutated" *)
| PCycle              (* dependency graph cycle (no recovery) *)
| PBackdate           (* backdate violation (debug builds panic) *)
| PSpecForeign        (* "can only use `specify` on salsa structs created during the current tracked fn" *)
| PSpecTwice          (* "cannot call `specify` twice for the same key in one query execution" *)
| PLock               (* read/write-lock panics of tracked_struct.rs (leaked or non-deterministic use) *)
| PAssert.            (* an internal assertion of salsa fired *)

Definition spanic_code (p : spanic) : N :=
  match p with
  | PNeverChange => 1 | PCycle => 2 | PBackdate => 3 | PSpecForeign => 6 | PSpecTwice => 8
  | PLock => 9 | PAssert => 10
  end.

Inductive sres (A : Type) :=
| SOk (a : A)
| SPanic (p : spanic)
| SFuel.
Arguments SOk {A} a.
Arguments SPanic {A} p.
Arguments SFuel {A}.

Definition M (A : Type) := db -> db * sres A.
Definition ret {A} (a : A) : M A := fun s => (s, SOk a).
Definition bind {A B} (m : M A) (f : A -> M B) : M B :=
  fun s => match m s with
           | (s', SOk a) => f a s'
           | (s', SPanic p) => (s', SPanic p)
           | (s', SFuel) => (s', SFuel)
           end.
Definition fail {A} (p : spanic) : M A := fun s => (s, SPanic p).
Definition nofuel {A} : M A := fun s => (s, SFuel).
Definition get : M db := fun s => (s, SOk s).
Definition modify (f : db -> db) : M unit := fun s => (f s, SOk tt).
Notation "x <- m ;; k" := (bind m (fun x => k)) (at level 61, m at next level, right associativity).
Notation "m ;;; k" := (bind m (fun _ => k)) (at level 61, right associativity).

Definition emit (e : event) : M unit := modify (fun s => set_log s (e :: d_log s)).

Fixpoint iterM {A} (f : A -> M unit) (l : list A) : M unit :=
  match l with
  | [] => ret tt
  | x :: l' => f x ;;; iterM f l'
  end.

(* ---------------------------------------------------------------- active query frame *)
(* tracked_struct.rs:362-376 TrackedEntry *)
Record tentry := { te_ident : ident; te_id : handle; te_active : bool }.

Record frame := {
  fr_dur : dur; fr_changed : rev; fr_edges : list edge; fr_untracked : bool;
  fr_disamb : list (N * N);        (* DisambiguatorMap: identity hash -> next disambiguator *)
  fr_ids : list tentry;            (* IdentityMap (insertion order; the hashbrown order is not modelled) *)
  fr_occ : list (val * N)          (* ghost: identity value -> number of structs created so far *)
}.

(* ActiveQuery::new / reset_for  active_query.rs:196-212, 281-330 *)
Definition frame0 : frame :=
  {| fr_dur := D_NEVER; fr_changed := REV_START; fr_edges := []; fr_untracked := false;
     fr_disamb := []; fr_ids := []; fr_occ := [] |}.

Definition set_fr_stamp (fr : frame) (d : dur) (c : rev) (es : list edge) (u : bool) : frame :=
  {| fr_dur := d; fr_changed := c; fr_edges := es; fr_untracked := u;
     fr_disamb := fr_disamb fr; fr_ids := fr_ids fr; fr_occ := fr_occ fr |}.
Definition set_fr_ids (fr : frame) (ids : list tentry) : frame :=
  {| fr_dur := fr_dur fr; fr_changed := fr_changed fr; fr_edges := fr_edges fr;
     fr_untracked := fr_untracked fr; fr_disamb := fr_disamb fr; fr_ids := ids; fr_occ := fr_occ fr |}.
Definition set_fr_disamb (fr : frame) (dm : list (N * N)) (oc : list (val * N)) : frame :=
  {| fr_dur := fr_dur fr; fr_changed := fr_changed fr; fr_edges := fr_edges fr;
     fr_untracked := fr_untracked fr; fr_disamb := dm; fr_ids := fr_ids fr; fr_occ := oc |}.

(* FxIndexSet::insert: keep first occurrence *)
Definition add_edge (es : list edge) (e : edge) : list edge :=
  if existsb (edge_eqb e) es then es else es ++ [e].

(* ActiveQuery::add_read / add_read_simple  active_query.rs:108-161 (no cycle heads,
   no persistence; accumulated values are never produced here) *)
Definition add_read (fr : frame) (e : edge) (d : dur) (c : rev) : frame :=
  set_fr_stamp fr (dur_min (fr_dur fr) d) (rev_max (fr_changed fr) c)
               (if d =? D_NEVER then fr_edges fr else add_edge (fr_edges fr) e)
               (fr_untracked fr).

(* ActiveQuery::add_untracked_read  active_query.rs:167-171 *)
Definition add_untracked (fr : frame) (now : rev) : frame :=
  set_fr_stamp fr D_LOW now (fr_edges fr) true.

(* ActiveQuery::add_output  active_query.rs:174-176 *)
Definition add_output (fr : frame) (q : qk) : frame :=
  set_fr_stamp fr (fr_dur fr) (fr_changed fr) (add_edge (fr_edges fr) (EOut q)) (fr_untracked fr).

(* association-list counters *)
Fixpoint cnt_get (l : list (N * N)) (k : N) : N :=
  match l with
  | [] => 0
  | (k', n) :: l' => if k' =? k then n else cnt_get l' k
  end.
Fixpoint cnt_bump (l : list (N * N)) (k : N) : list (N * N) :=
  match l with
  | [] => [(k, 1)]
  | (k', n) :: l' => if k' =? k then (k', n + 1) :: l' else (k', n) :: cnt_bump l' k
  end.

(* DisambiguatorMap::disambiguate  tracked_struct.rs:449-464 *)
Definition disambiguate (fr : frame) (hash : N) (idv : val) : N * N * frame :=
  (cnt_get (fr_disamb fr) hash, cnt_get (fr_occ fr) idv,
   set_fr_disamb fr (cnt_bump (fr_disamb fr) hash) (cnt_bump (fr_occ fr) idv)).

(* IdentityMap::insert_entry  tracked_struct.rs:278-302 *)
Fixpoint insert_entry (l : list tentry) (key : ident) (id : handle) (active : bool) : list tentry :=
  match l with
  | [] => [{| te_ident := key; te_id := id; te_active := active |}]
  | e :: l' => if key_eqb (te_ident e) key
               then {| te_ident := key; te_id := id; te_active := active |} :: l'
               else e :: insert_entry l' key id active
  end.

(* IdentityMap::seed  tracked_struct.rs:260-264 *)
Definition seed_ids (l : list tentry) (src : list (ident * handle)) : list tentry :=
  fold_left (fun l kv => insert_entry l (fst kv) (snd kv) false) src l.

(* IdentityMap::reuse  tracked_struct.rs:307-314 *)
Fixpoint reuse (l : list tentry) (key : ident) : option handle * list tentry :=
  match l with
  | [] => (None, [])
  | e :: l' => if key_eqb (te_ident e) key
               then (Some (te_id e), {| te_ident := te_ident e; te_id := te_id e; te_active := true |} :: l')
               else let '(r, l'') := reuse l' key in (r, e :: l'')
  end.

(* IdentityMap::is_active  tracked_struct.rs:317-326 (one struct ingredient) *)
Definition is_active (l : list tentry) (h : handle) : bool :=
  match find (fun e => handle_eqb (te_id e) h) l with
  | Some e => te_active e
  | None => false
  end.

Fixpoint insert_sorted (x : ident * handle) (l : list (ident * handle)) : list (ident * handle) :=
  match l with
  | [] => [x]
  | y :: l' => if handle_ltb (snd x) (snd y) then x :: l else y :: insert_sorted x l'
  end.

(* IdentityMap::drain  tracked_struct.rs:333-359: (active, stale sorted by id) *)
Definition drain (l : list tentry) : list (ident * handle) * list (ident * handle) :=
  (map (fun e => (te_ident e, te_id e)) (filter te_active l),
   fold_right insert_sorted []
     (map (fun e => (te_ident e, te_id e)) (filter (fun e => negb (te_active e)) l))).

(* ---------------------------------------------------------------- the algorithm *)
Section Algorithm.
Variable prog : qk -> body.
Variable skind : N -> bool.          (* family is keyed by a tracked struct *)
Variable sfams : list N.             (* struct-keyed families, in memo-ingredient order *)
Variable idhash : val -> N.          (* hash of the identity field: arbitrary, may collide *)

Definition qres := (rval * dur * rev)%type.

Record lower := {
  l_fetch : qk -> M qres;
  l_mca : qk -> rev -> M bool;       (* maybe_changed_after: true = Changed *)
  l_fuel : nat                        (* fuel for deletion cascades at this level *)
}.

Definition get_slot (i : N) : M slot :=
  s <- get ;;
  match d_slots s i with
  | Some sl => ret sl
  | None => fail PLock       (* Table::get on a slot that was never allocated *)
  end.

Definition put_slot (i : N) (sl : slot) : M unit :=
  modify (fun s => set_slots s (updN (d_slots s) i (Some sl))).

(* acquire_read_lock  tracked_struct.rs:1136-1155 *)
Definition acquire_read_lock (i : N) : M slot :=
  sl <- get_slot i ;;
  s <- get ;;
  match sl_updated sl with
  | None => fail PLock                      (* "write lock taken; value leaked ..." *)
  | Some r =>
      if r =? cur s then ret sl
      else let sl' := set_sl_updated sl (Some (cur s)) in put_slot i sl' ;;; ret sl'
  end.

(* Zalsa::memo_table_for + MemoTable::get: for a struct key, Slot::memos takes the read
   lock (tracked_struct.rs:1184-1197) and the lookup ignores the id generation
   (table.rs:320-334 uses split_id(id) = index only) *)
Definition get_memo (q : qk) : M (option memo) :=
  if skind (fst q) then
    sl <- acquire_read_lock (fst (snd q)) ;; ret (sl_memos sl (fst q))
  else
    s <- get ;; ret (d_memo s (fst q, fst (snd q))).

(* store into a memo table that has already been accessed (no further lock) *)
Definition store_memo (q : qk) (m : memo) : M unit :=
  if skind (fst q) then
    sl <- get_slot (fst (snd q)) ;;
    put_slot (fst (snd q)) (set_sl_memos sl (updN (sl_memos sl) (fst q) (Some m)))
  else
    modify (fun s => set_memo s (upd (d_memo s) (fst q, fst (snd q)) (Some m))).

(* IngredientImpl::insert_memo  function.rs:328-356 *)
Definition put_memo (q : qk) (m : memo) : M unit :=
  (if skind (fst q) then acquire_read_lock (fst (snd q)) ;;; ret tt else ret tt) ;;;
  store_memo q m.

(* MemoHeader::mark_as_verified  function/memo.rs:248-256 *)
Definition mark_verified (q : qk) (m : memo) : M memo :=
  s <- get ;;
  let m' := {| m_val := m_val m; m_verified := cur s; m_changed := m_changed m; m_dur := m_dur m;
               m_origin := m_origin m; m_edges := m_edges m; m_structs := m_structs m |} in
  emit (EvValidate q) ;;; store_memo q m' ;;; ret m'.

(* Ingredient::mark_validated_output (function.rs:470-480) + validate_specified_value
   (function/specify.rs:160-188) *)
Definition validate_specified (executor : qk) (o : qk) : M unit :=
  om <- get_memo o ;;
  match om with
  | None => ret tt
  | Some m =>
      match m_origin m with
      | OAssigned by_ => if qk_eqb by_ executor then mark_verified o m ;;; ret tt else fail PAssert
      | _ => fail PAssert
      end
  end.

Definition outputs_of (es : list edge) : list qk :=
  flat_map (fun e => match e with EOut o => [o] | _ => [] end) es.

(* MemoHeader::mark_outputs_as_verified  function/memo.rs:258-266 *)
Definition mark_outputs_verified (q : qk) (m : memo) : M unit :=
  iterM (validate_specified q) (outputs_of (m_edges m)).

Inductive shallow := ShVerified | ShHigher | ShNo.

(* MemoHeader::shallow_verify_memo (+ _cold)  maybe_changed_after.rs:346-390 *)
Definition shallow_verify (s : db) (m : memo) : shallow :=
  if m_verified m =? cur s then ShVerified
  else if shallow_ok (last_changed (d_revs s) (m_dur m)) (m_verified m) then ShHigher
  else ShNo.

(* MemoHeader::update_shallow  maybe_changed_after.rs:393-403 *)
Definition update_shallow (q : qk) (m : memo) (u : shallow) : M memo :=
  match u with
  | ShHigher => m' <- mark_verified q m ;; mark_outputs_verified q m' ;;; ret m'
  | _ => ret m
  end.

Definition claim (q : qk) : M unit :=
  s <- get ;;
  if existsb (qk_eqb q) (d_stack s) then fail PCycle
  else modify (fun s => set_stack s (q :: d_stack s)).

Definition release (q : qk) : M unit :=
  modify (fun s => set_stack s (tl (d_stack s))).

(* ---- deletion: delete_entity / clear_memos / Memo::remove_outputs ---- *)
(* tracked_struct.rs:790-824 delete_entity, 827-869 clear_memos, function/memo.rs:297-306
   remove_outputs (specified outputs: function.rs:482-491 does nothing).  Mutual recursion
   through the ownership tree; [n] bounds its depth. *)
Fixpoint delete_entity (n : nat) (h : handle) : M unit :=
  match n with
  | O => nofuel
  | S n' =>
      emit (EvDiscardS h) ;;;
      sl <- get_slot (fst h) ;;
      s <- get ;;
      match sl_updated sl with
      | None => fail PLock                  (* "cannot delete write-locked id" *)
      | Some r =>
          if r =? cur s then fail PLock     (* "cannot delete read-locked id" *)
          else
            put_slot (fst h) (set_sl_updated sl None) ;;;
            (* clear_memos(memo_table, id): take every memo in table order *)
            iterM (fun fam =>
                     match sl_memos sl fam with
                     | None => ret tt
                     | Some m =>
                         emit (EvDiscardM (fam, h)) ;;;
                         iterM (fun kv => delete_entity n' (snd kv)) (m_structs m)
                     end) sfams ;;;
            (* memo_table.reset() ; free_list.push(id) *)
            sl2 <- get_slot (fst h) ;;
            put_slot (fst h) (set_sl_memos sl2 (fun _ => None)) ;;;
            modify (fun s => set_free s (d_free s ++ [h]))
      end
  end.

(* clear_memos as called from `update` (the slot stays live) *)
Definition clear_memos (n : nat) (h : handle) : M unit :=
  sl <- get_slot (fst h) ;;
  iterM (fun fam =>
           match sl_memos sl fam with
           | None => ret tt
           | Some m =>
               emit (EvDiscardM (fam, h)) ;;;
               iterM (fun kv => delete_entity n (snd kv)) (m_structs m)
           end) sfams ;;;
  sl2 <- get_slot (fst h) ;;
  put_slot (fst h) (set_sl_memos sl2 (fun _ => None)).

(* ---- creation: new_struct / allocate / update ---- *)
Definition stamp := (dur * rev)%type.

(* IngredientImpl::allocate  tracked_struct.rs:559-612 *)
Fixpoint pop_free (fl : list handle) : option (handle * list handle) :=
  match fl with
  | [] => None
  | (i, g) :: fl' =>
      match next_gen g with
      | Some g' => Some ((i, g'), fl')
      | None => pop_free fl'          (* generation overflow: the slot is leaked *)
      end
  end.

Definition fresh_slot (g : N) (st : stamp) (now : rev) (idv f0 f1 : val) : slot :=
  {| sl_gen := g; sl_updated := Some now; sl_dur := fst st; sl_idv := idv; sl_f0 := f0; sl_f1 := f1;
     sl_rev0 := snd st; sl_rev1 := snd st; sl_memos := fun _ => None |}.

Definition allocate (st : stamp) (idv f0 f1 : val) : M handle :=
  s <- get ;;
  match pop_free (d_free s) with
  | Some (h, fl') =>
      modify (fun s => set_free s fl') ;;;
      put_slot (fst h) (fresh_slot (snd h) st (cur s) idv f0 f1) ;;;
      ret h
  | None =>
      (* every remaining free-list entry was popped and leaked (generation overflow) *)
      let i := d_nslots s in
      modify (fun s => set_free (set_nslots s (i + 1)) []) ;;;
      put_slot i (fresh_slot 0 st (cur s) idv f0 f1) ;;;
      ret (i, 0)
  end.

(* IngredientImpl::update  tracked_struct.rs:623-757 with Configuration::update_fields
   (setup_tracked_struct.rs:175-201; field 1 is #[no_eq]).  None = Err(fields): allocate anew *)
Definition update (n : nat) (id : handle) (st : stamp) (idv f0 f1 : val) : M (option handle) :=
  sl <- get_slot (fst id) ;;
  s <- get ;;
  match sl_updated sl with
  | None => fail PAssert                      (* "two concurrent writers" *)
  | Some r =>
      if r =? cur s then ret (Some id)        (* already read-locked in this revision: reuse as is *)
      else
        match next_gen (snd id) with
        | None => ret None                    (* generation at its maximum: leak, allocate anew *)
        | Some g' =>
            let rev0' := if sl_f0 sl =? f0 then sl_rev0 sl else snd st in
            let rev1' := snd st in
            let changed := negb (sl_idv sl =? idv) in
            (* updated_at := None while the fields are written *)
            put_slot (fst id)
              {| sl_gen := sl_gen sl; sl_updated := None; sl_dur := sl_dur sl;
                 sl_idv := idv; sl_f0 := f0; sl_f1 := f1; sl_rev0 := rev0'; sl_rev1 := rev1';
                 sl_memos := sl_memos sl |} ;;;
            (if changed then clear_memos n id else ret tt) ;;;
            sl1 <- get_slot (fst id) ;;
            let lower_dur := fst st <? sl_dur sl1 in
            put_slot (fst id)
              {| sl_gen := if changed then g' else sl_gen sl1;
                 sl_updated := Some (cur s); sl_dur := fst st;
                 sl_idv := sl_idv sl1; sl_f0 := sl_f0 sl1; sl_f1 := sl_f1 sl1;
                 sl_rev0 := if lower_dur then snd st else sl_rev0 sl1;
                 sl_rev1 := if lower_dur then snd st else sl_rev1 sl1;
                 sl_memos := sl_memos sl1 |} ;;;
            ret (Some (if changed then (fst id, g') else id))
        end
  end.

Definition ckey_of (s : db) (q : qk) : ckeyt :=
  if skind (fst q) then
    match find (fun kv => handle_eqb (fst kv) (snd q)) (d_cname s) with
    | Some kv => KSt (snd kv)
    | None => KIn (fst (snd q))           (* unnamed key (forged handle): never met in valid runs *)
    end
  else KIn (fst (snd q)).

(* IngredientImpl::new_struct  tracked_struct.rs:504-557 *)
Definition new_struct (n : nat) (q : qk) (idv f0 f1 : val) (fr : frame) : M (handle * frame) :=
  let '(d, occ, fr1) := disambiguate fr (idhash idv) idv in
  let st : stamp := (fr_dur fr, fr_changed fr) in
  let identity : ident := (idhash idv, d) in
  let '(found, ids1) := reuse (fr_ids fr1) identity in
  let fr2 := set_fr_ids fr1 ids1 in
  r <- match found with
       | Some id =>
           u <- update n id st idv f0 f1 ;;
           match u with
           | Some id' =>
               if handle_eqb id' id then ret (id, fr2)
               else ret (id', set_fr_ids fr2 (insert_entry (fr_ids fr2) identity id' true))
           | None =>
               id' <- allocate st idv f0 f1 ;;
               ret (id', set_fr_ids fr2 (insert_entry (fr_ids fr2) identity id' true))
           end
       | None =>
           id' <- allocate st idv f0 f1 ;;
           ret (id', set_fr_ids fr2 (insert_entry (fr_ids fr2) identity id' true))
       end ;;
  (* ghost bookkeeping: canonical name, ideal store *)
  sl <- get_slot (fst (fst r)) ;;
  modify (fun s =>
            let nm := CN (fst q) (ckey_of s q) idv occ in
            set_ideal
              (set_cname s ((fst r, nm) :: filter (fun kv => negb (handle_eqb (fst kv) (fst r))) (d_cname s)))
              ((fst r, (sl_idv sl, sl_f0 sl, sl_f1 sl)) :: d_ideal s)) ;;;
  ret r.

(* tracked_field  tracked_struct.rs:882-911 *)
Definition read_field (h : handle) (f : N) (fr : frame) : M (val * frame) :=
  sl <- acquire_read_lock (fst h) ;;
  let '(v, c) := if f =? 0 then (sl_f0 sl, sl_rev0 sl) else (sl_f1 sl, sl_rev1 sl) in
  ret (v, add_read fr (EFld h f) (sl_dur sl) c).

(* untracked_field  tracked_struct.rs:913-926: no dependency edge *)
Definition read_idfield (h : handle) : M val :=
  sl <- acquire_read_lock (fst h) ;; ret (sl_idv sl).

(* IndexSet::swap_remove: the last element takes the place of the removed one *)
Fixpoint swap_remove (l : list qk) (o : qk) : list qk :=
  match l with
  | [] => []
  | x :: l' =>
      if qk_eqb x o then
        match List.rev l' with
        | [] => []
        | lst :: r => lst :: List.rev r
        end
      else x :: swap_remove l' o
  end.

(* MemoHeader::diff_outputs  function/diff_outputs.rs:11-46 *)
Definition diff_outputs (n : nat) (old : memo) (key : qk) (stale : list (ident * handle))
           (new_edges : list edge) : M unit :=
  match m_origin old with
  | OAssigned _ => ret tt
  | _ =>
      iterM (fun kv => emit (EvWillDiscard key (snd kv)) ;;; delete_entity n (snd kv)) stale ;;;
      iterM (fun o => emit (EvWillDiscardO key o))
            (fold_left swap_remove (outputs_of new_edges) (outputs_of (m_edges old)))
  end.

(* backdate_if_appropriate  function/backdate.rs:15-60 *)
Definition backdate (old : option memo) (d : dur) (ch : rev) (v : rval) : sres rev :=
  match old with
  | Some o =>
      match m_val o with
      | Some ov =>
          if can_backdate_dur d (m_dur o) && rval_eqb ov v then
            if changed_after (m_changed o) ch then SPanic PBackdate else SOk (m_changed o)
          else SOk ch
      | None => SOk ch
      end
  | None => SOk ch
  end.

(* specify_and_record  function/specify.rs:20-152 *)
Definition specify (n : nat) (q : qk) (fam : N) (h : handle) (v : rval) (fr : frame) : M frame :=
  if negb (is_active (fr_ids fr) h) then fail PSpecForeign
  else
    let key : qk := (fam, h) in
    s0 <- get ;;
    if existsb (qk_eqb key) (d_stack s0) then ret fr      (* try_claim: Running/Cycle => return *)
    else
      om <- get_memo key ;;
      s <- get ;;
      early <- match om with
               | Some old =>
                   if (m_verified old =? cur s) && (match m_val old with Some _ => true | None => false end) then
                     match m_origin old with
                     | OAssigned by_ =>
                         if negb (qk_eqb by_ q) then fail PAssert      (* debug_assert_eq!(owner, active) *)
                         else if existsb (edge_eqb (EOut key)) (fr_edges fr) then fail PSpecTwice
                         else ret (false, add_output fr key)
                     | _ => ret (true, fr)      (* a value produced by another query wins this revision *)
                     end
                   else ret (false, fr)
               | None => ret (false, fr)
               end ;;
      if fst early then ret fr
      else
        let fr1 := snd early in
        match backdate om (fr_dur fr1) (fr_changed fr1) v with
        | SOk ch =>
            match om with
            | Some old => diff_outputs n old key (m_structs old) []
            | None => ret tt
            end ;;;
            put_memo key {| m_val := Some v; m_verified := cur s; m_changed := ch; m_dur := fr_dur fr1;
                            m_origin := OAssigned q; m_edges := []; m_structs := [] |} ;;;
            ret (add_output fr1 key)
        | SPanic p => fail p
        | SFuel => nofuel
        end.

(* running a body of query [q] against its frame *)
Fixpoint run_body (L : lower) (q : qk) (b : body) (fr : frame) : M (rval * frame) :=
  match b with
  | Ret v hs => ret ((v, hs), fr)
  | RdIn i k =>
      s <- get ;;
      let f := d_in s i in
      run_body L q (k (f_val f)) (add_read fr (EIn i) (f_dur f) (f_changed f))
  | CallQ c k =>
      r <- l_fetch L c ;;
      let '(v, d, ch) := r in
      run_body L q (k v) (add_read fr (EQ c) d ch)
  | RdCell c k =>
      s <- get ;;
      run_body L q (k (d_cell s c)) (add_untracked fr (cur s))
  | Touch k =>
      s <- get ;;
      run_body L q k (add_untracked fr (cur s))
  | NewStruct idv f0 f1 k =>
      r <- new_struct (l_fuel L) q idv f0 f1 fr ;;
      run_body L q (k (fst r)) (snd r)
  | RdField h f k =>
      r <- read_field h f fr ;;
      run_body L q (k (fst r)) (snd r)
  | RdIdField h k =>
      v <- read_idfield h ;;
      run_body L q (k v) fr
  | Specify fam h v k =>
      fr' <- specify (l_fuel L) q fam h v fr ;;
      run_body L q k fr'
  end.

(* tracked_field.rs:63-73 FieldIngredientImpl::maybe_changed_after: no lock, generation ignored *)
Definition field_mca (h : handle) (f : N) (since : rev) : M bool :=
  sl <- get_slot (fst h) ;;
  ret (k_changed_after_tracked_field (if f =? 0 then sl_rev0 sl else sl_rev1 sl) since).

(* deep_verify_edges  maybe_changed_after.rs:580-643 *)
Fixpoint walk_edges (L : lower) (q : qk) (es : list edge) (since : rev) : M bool :=
  match es with
  | [] => ret false
  | EIn i :: es' =>
      s <- get ;;
      if changed_after (f_changed (d_in s i)) since then ret true
      else walk_edges L q es' since
  | EQ c :: es' =>
      ch <- l_mca L c since ;;
      if ch then ret true else walk_edges L q es' since
  | EFld h f :: es' =>
      ch <- field_mca h f since ;;
      if ch then ret true else walk_edges L q es' since
  | EOut o :: es' =>
      validate_specified q o ;;; walk_edges L q es' since
  end.

(* MemoHeader::deep_verify_memo  maybe_changed_after.rs:463-546: true = Unchanged *)
Definition deep_verify (L : lower) (q : qk) (m : memo) : M (bool * memo) :=
  match m_origin m with
  | ODerived =>
      c <- walk_edges L q (m_edges m) (m_verified m) ;;
      if c then ret (false, m)
      else m' <- mark_verified q m ;; ret (true, m')
  | OAssigned _ => ret (false, m)
  | OUntracked => ret (false, m)
  end.

(* MemoHeader::verify_memo  maybe_changed_after.rs:299-338 *)
Definition verify_memo (L : lower) (q : qk) (m : memo) : M (bool * memo) :=
  s <- get ;;
  match shallow_verify s m with
  | ShNo => deep_verify L q m
  | u => m' <- update_shallow q m u ;; ret (true, m')
  end.

(* the tail of execute: ActiveQuery::prepare_completion (active_query.rs:217-262: drain),
   backdate_if_appropriate, diff_outputs, discard_edges_if_never_change (zalsa_local.rs:547-561),
   insert_memo   function/execute.rs:83-117 *)
Definition finish_exec (n : nat) (q : qk) (old : option memo) (v : rval) (fr : frame) : M memo :=
  let '(active, stale) := drain (fr_ids fr) in
  match backdate old (fr_dur fr) (fr_changed fr) v with
  | SOk ch =>
      match old with
      | Some o => diff_outputs n o q stale (fr_edges fr)
      | None => ret tt
      end ;;;
      s <- get ;;
      let edges := if (fr_dur fr =? D_NEVER) && negb (fr_untracked fr) then [] else fr_edges fr in
      let m := {| m_val := Some v; m_verified := cur s; m_changed := ch; m_dur := fr_dur fr;
                  m_origin := if fr_untracked fr then OUntracked else ODerived;
                  m_edges := edges; m_structs := active |} in
      put_memo q m ;;; ret m
  | SPanic p => fail p
  | SFuel => nofuel
  end.

(* execute_query: seed_active_query  function/execute.rs:398-411 (tracked_struct_ids of the old
   memo seed the identity map; the disambiguator map starts empty) *)
Definition seed_frame (old : option memo) : frame :=
  match old with
  | Some o => set_fr_ids frame0 (seed_ids [] (m_structs o))
  | None => frame0
  end.

(* execute (Panic strategy)  function/execute.rs:36-117 *)
Definition execute (L : lower) (q : qk) (old : option memo) : M memo :=
  emit (EvExec q) ;;;
  r <- run_body L q (prog q) (seed_frame old) ;;
  finish_exec (l_fuel L) q old (fst r) (snd r).

Definition memo_qres (m : memo) (v : rval) : qres := (v, m_dur m, m_changed m).

(* IngredientImpl::fetch_hot  function/fetch.rs:76-105 *)
Definition fetch_hot (q : qk) : M (option (memo * rval)) :=
  om <- get_memo q ;;
  s <- get ;;
  match om with
  | Some m =>
      match m_val m with
      | Some v =>
          match shallow_verify s m with
          | ShNo => ret None
          | u => m' <- update_shallow q m u ;; ret (Some (m', v))
          end
      | None => ret None
      end
  | None => ret None
  end.

(* IngredientImpl::fetch_cold  function/fetch.rs:107-154 *)
Definition fetch_cold (L : lower) (q : qk) : M (memo * rval) :=
  claim q ;;;
  old <- get_memo q ;;
  ok <- match old with
        | Some m =>
            match m_val m with
            | Some v => r <- verify_memo L q m ;;
                        ret (if fst r then Some (snd r, v) else None)
            | None => ret None
            end
        | None => ret None
        end ;;
  match ok with
  | Some mv => release q ;;; ret mv
  | None =>
      m <- execute L q old ;;
      release q ;;;
      match m_val m with
      | Some v => ret (m, v)
      | None => nofuel
      end
  end.

(* IngredientImpl::fetch  function/fetch.rs:15-48 *)
Definition fetch (L : lower) (q : qk) : M qres :=
  hot <- fetch_hot q ;;
  r <- match hot with
       | Some mv => ret mv
       | None => fetch_cold L q
       end ;;
  ret (memo_qres (fst r) (snd r)).

(* maybe_changed_after_cold  maybe_changed_after.rs:136-268 *)
Definition mca_cold (L : lower) (q : qk) (since : rev) : M bool :=
  claim q ;;;
  om <- get_memo q ;;
  match om with
  | None => release q ;;; ret true
  | Some old =>
      r <- verify_memo L q old ;;
      if fst r then release q ;;; ret (changed_after (m_changed (snd r)) since)
      else
        match m_val old with
        | None => release q ;;; ret true
        | Some _ =>
            mnew <- execute L q (Some old) ;;
            release q ;;;
            ret (changed_after (m_changed mnew) since)
        end
  end.

(* IngredientImpl::maybe_changed_after (+ _hot)  maybe_changed_after.rs:89-134, 272-296 *)
Definition mca (L : lower) (q : qk) (since : rev) : M bool :=
  om <- get_memo q ;;
  s <- get ;;
  match om with
  | None => ret true
  | Some m =>
      match shallow_verify s m with
      | ShNo => mca_cold L q since
      | u =>
          m' <- update_shallow q m u ;;
          ret (changed_after (m_changed m') since)
      end
  end.

Definition bottom : lower := {| l_fetch := fun _ => nofuel; l_mca := fun _ _ => nofuel; l_fuel := O |}.

Fixpoint level (n : nat) : lower :=
  match n with
  | O => bottom
  | S n' => let l := level n' in {| l_fetch := fetch l; l_mca := mca l; l_fuel := n |}
  end.

(* ---------------------------------------------------------------- operations (the API) *)
Inductive op :=
| OSet (i : ikey) (v : val) (d : option dur)
| OSynth (d : dur)
| OSetCell (c : cell) (v : val)
| OGet (q : qk)                              (* call an input-keyed tracked fn from outside *)
| OGetS (fam : N) (q : qk) (i : N)           (* call q, take its i-th struct, call fam on it *)
| OEntries.                                  (* TS::ingredient(db).entries(): number of live structs *)

Definition new_revision (s : db) : db :=
  let r := d_revs s in
  set_ccount (set_revs s {| r_cur := r_cur r + 1; r_med := r_med r; r_high := r_high r |}) 0.

Definition zalsa_mut (s : db) : db :=
  if d_ccount s =? 255 then new_revision s else set_ccount s (d_ccount s + 1).

(* entries()  tracked_struct.rs:929-942: slots whose updated_at is Some *)
Fixpoint live_slots (s : db) (n : nat) : list N :=
  match n with
  | O => []
  | S n' => live_slots s n' ++
            match d_slots s (N.of_nat n') with
            | Some sl => match sl_updated sl with Some _ => [N.of_nat n'] | None => [] end
            | None => []
            end
  end.

Definition out := sres rval.

Definition step (fuel : nat) (s : db) (o : op) : db * out :=
  match o with
  | OSet i v d =>
      let s1 := new_revision (zalsa_mut s) in
      let f := d_in s1 i in
      if f_dur f =? D_NEVER then (s1, SPanic PNeverChange)
      else
        let r1 := if f_dur f =? D_LOW then d_revs s1 else report_write (d_revs s1) (f_dur f) in
        let f' := {| f_val := v; f_changed := cur s1;
                     f_dur := match d with Some d' => d' | None => f_dur f end |} in
        (set_in (set_revs s1 r1) (upd (d_in s1) i f'), SOk (0, []))
  | OSynth d =>
      let s1 := new_revision (zalsa_mut s) in
      if d =? D_NEVER then (s1, SPanic PNeverChange)
      else (set_revs s1 (report_write (d_revs s1) d), SOk (0, []))
  | OSetCell c v => (set_cell s (updN (d_cell s) c v), SOk (0, []))
  | OGet q =>
      match fetch (level fuel) q s with
      | (s', SOk (v, _, _)) => (s', SOk v)
      | (s', SPanic p) => (set_stack s' [], SPanic p)
      | (s', SFuel) => (s', SFuel)
      end
  | OGetS fam q i =>
      match fetch (level fuel) q s with
      | (s', SOk (v, _, _)) =>
          match nth_error (snd v) (N.to_nat i) with
          | None => (s', SOk (255, []))
          | Some h =>
              match fetch (level fuel) (fam, h) s' with
              | (s'', SOk (v', _, _)) => (s'', SOk v')
              | (s'', SPanic p) => (set_stack s'' [], SPanic p)
              | (s'', SFuel) => (s'', SFuel)
              end
          end
      | (s', SPanic p) => (set_stack s' [], SPanic p)
      | (s', SFuel) => (s', SFuel)
      end
  | OEntries => (s, SOk (N.of_nat (length (live_slots s (N.to_nat (d_nslots s)))), []))
  end.

Fixpoint run_ops (fuel : nat) (s : db) (os : list op) : db * list out :=
  match os with
  | [] => (s, [])
  | o :: os' =>
      let '(s1, r) := step fuel s o in
      let '(s2, rs) := run_ops fuel s1 os' in
      (s2, r :: rs)
  end.

End Algorithm.

Definition init (iv : ikey -> val) (idur : ikey -> dur) : db :=
  {| d_revs := {| r_cur := REV_START; r_med := REV_START; r_high := REV_START |};
     d_ccount := 0;
     d_in := fun i => {| f_val := iv i; f_changed := REV_START; f_dur := idur i |};
     d_cell := fun _ => 0;
     d_memo := fun _ => None;
     d_slots := fun _ => None;
     d_nslots := 0;
     d_free := [];
     d_stack := [];
     d_log := [];
     d_cname := [];
     d_ideal := [] |}.

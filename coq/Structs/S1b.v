(* Structs/S1b.v — stage S1b in its final form (world-free, from the initial state) and its
   non-vacuity example: synthetic writes of any durability and untracked-cell writes. *)
From Coq Require Import Arith.
From Salsa Require Import Base.
From Salsa.Kern Require Import CoreK.
From Salsa.Structs Require Import Model ProofsBase Dsl Machine Theorems Sim Examples SSem SInv SRun SFetch SStale STop STop2 SAdeq SDsl S1Examples.

Theorem from_scratch_S1b_init :
  forall (prog : qk -> body) (skind : N -> bool) (idhash : val -> N) (rank : qk -> nat) (NF : nat),
  calls_below prog rank -> (forall q, (rank q < NF)%nat) ->
  no_forge idhash prog -> (forall q, nospec (prog q)) -> (forall f, skind f = false) ->
  (forall q d, calls (prog q) d -> gk d) -> (forall q d, calls (prog q) d -> first_read (prog d)) ->
  forall fuel iv os,
  s1b_ops prog true os -> 1 + 2 * N.of_nat (length os) < GMAX ->
  Forall2 okout os (snd (run_ops prog skind [] idhash fuel (init iv (fun _ => 0)) os)) ->
  gets_scratch prog skind idhash NF fuel (init iv (fun _ => 0)) os.
Proof.
  intros prog skind idhash rank NF Hrank Hbound Hprov Hns Hnk Hgk Hfirst fuel iv os Hops Hb Hok.
  apply (gets_ok_scratch prog skind idhash NF rank Hrank Hbound Hprov).
  apply (from_scratch_S1b prog skind idhash rank Hrank NF Hbound Hprov Hgk Hnk Hfirst Hns fuel os _ 0 true).
  - apply init_ok.
  - intros _. apply fresh_init.
  - cbn. unfold REV_START. lia.
  - exact Hb.
  - exact Hops.
  - exact Hok.
Qed.

Theorem dependents_S1b :
  forall (prog : qk -> body) (skind : N -> bool) (idhash : val -> N) (rank : qk -> nat) (NF : nat),
  calls_below prog rank -> (forall q, (rank q < NF)%nat) ->
  no_forge idhash prog -> (forall q, nospec (prog q)) -> (forall f, skind f = false) ->
  (forall q d, calls (prog q) d -> gk d) -> (forall q d, calls (prog q) d -> first_read (prog d)) ->
  forall fuel iv os,
  s1b_ops prog true os -> 1 + 2 * N.of_nat (length os) < GMAX ->
  Forall2 okout os (snd (run_ops prog skind [] idhash fuel (init iv (fun _ => 0)) os)) ->
  forall os1 q os2, os = os1 ++ OGet q :: os2 ->
  let s1 := fst (run_ops prog skind [] idhash fuel (init iv (fun _ => 0)) os1) in
  let s' := fst (step prog skind [] idhash fuel s1 (OGet q)) in
  exists v, snd (step prog skind [] idhash fuel s1 (OGet q)) = SOk v /\
            (forall w, same_inputs (wcur s') w -> wcons prog idhash NF w q -> v = Ew idhash prog NF w q) /\
            wcons prog idhash NF (wcur s') q /\
            (forall h, In h (snd v) -> live s' h).
Proof.
  intros prog skind idhash rank NF Hrank Hbound Hprov Hns Hnk Hgk Hfirst fuel iv os Hops Hb Hok os1 q os2 E.
  apply (gets_scratch_prefix prog skind idhash NF fuel os1 _ q os2). rewrite <- E.
  exact (from_scratch_S1b_init prog skind idhash rank NF Hrank Hbound Hprov Hns Hnk Hgk Hfirst fuel iv os Hops Hb Hok).
Qed.

(* ---------------------------------------------------------------- stale ids, top-level form *)
(* after any prefix of an S1b history: claim a query q whose stored memo m is not verified in the
   current revision and walk m's recorded edges exactly as deep verification does (any level n).
   If the walk answers "unchanged", every tracked-field edge of m is on the current id of a live
   slot.  So a dependent with a field edge on a deleted / reused id is never validated. *)
Theorem stale_edges_S1b :
  forall (prog : qk -> body) (skind : N -> bool) (idhash : val -> N) (rank : qk -> nat) (NF : nat),
  calls_below prog rank -> (forall q, (rank q < NF)%nat) ->
  no_forge idhash prog -> (forall q, nospec (prog q)) -> (forall f, skind f = false) ->
  (forall q d, calls (prog q) d -> gk d) -> (forall q d, calls (prog q) d -> first_read (prog d)) ->
  forall fuel iv os,
  s1b_ops prog true os -> 1 + 2 * N.of_nat (length os) < GMAX ->
  Forall2 okout os (snd (run_ops prog skind [] idhash fuel (init iv (fun _ => 0)) os)) ->
  forall os1 os2, os = os1 ++ os2 ->
  let s := fst (run_ops prog skind [] idhash fuel (init iv (fun _ => 0)) os1) in
  forall q m n s' b,
  gk q -> d_memo s (loc_of q) = Some m -> m_verified m < cur s ->
  walk_edges skind (level prog skind [] idhash n) q (m_edges m) (m_verified m) (set_stack s [q]) = (s', SOk b) ->
  forall h f, In (EFld h f) (m_edges m) -> ~ live s' h -> b = true.
Proof.
  intros prog skind idhash rank NF Hrank Hbound Hprov Hns Hnk Hgk Hfirst fuel iv os Hops Hb Hok os1 os2 E s q m n s' b
         Hg Hm Hv Hw h f Hin Hnl.
  assert (T0 : TopOK prog skind idhash NF (init iv (fun _ => 0))) by apply init_ok.
  assert (Hc0 : cur (init iv (fun _ => 0)) < GMAX) by (cbn; unfold REV_START, GMAX; lia).
  destruct (from_scratch_S1b_tops prog skind idhash rank Hrank NF Hbound Hprov Hgk Hnk Hfirst Hns fuel os _ 0 true T0
              (fun _ => fresh_init iv _)) as [_ Ht]; [cbn; unfold REV_START; lia | exact Hb | exact Hops | exact Hok|].
  rewrite E in Ht.
  destruct (tops_prefix prog skind idhash NF fuel os1 _ os2 T0 Hc0 Ht) as [(Hs & I & Hst) Hc]. fold s in I, Hst, Hc.
  destruct (claim_ok prog skind idhash rank Hrank NF Hbound Hprov Hgk Hnk Hs s [] q (set_stack s (q :: d_stack s)) tt I Hg) as (_ & _ & I1 & X1).
  { unfold claim, bind, get, modify. cbv beta. rewrite Hst. cbn [existsb]. cbv beta. rewrite ?Hst. reflexivity. }
  rewrite Hst in I1.
  apply (stale_field_edge_changed prog skind idhash rank Hrank NF Hbound Hprov Hgk Hnk Hfirst Hns n Hs q m (set_stack s [q]) [] s' b h f I1 Hg);
    try assumption.
  - left. reflexivity.
  - intros (q' & fr & [] & _).
Qed.

(* ---------------------------------------------------------------- example *)
(* the program of S1Examples plus  cr = (5,0): cell 0 + rd(0) *)
Definition r2_nodes : list ((N * N) * expr) :=
  r1_nodes ++ [((5, 0), EOp BAdd (ECell 0) (ECall 4 (ELit 0)))].
Definition r2_frank (fam : N) : nat := if fam =? 5 then 2%nat else if fam =? 4 then 1%nat else 0%nat.
Definition r2_NF : nat := 3.
Definition r2_ops : list op :=
  [OSetCell 0 10; OGet (5, (0, 0)); OSynth 2; OSetCell 0 20; OGet (5, (0, 0));
   OSet (0, 0) 0 None; OGet (5, (0, 0)); OEntries].

Notation r2_prog := (prog_of r1_nk skind0 r2_nodes).
Notation r2_run := (run_ops r2_prog skind0 [] r1_idhash 40%nat (init (lookup3 r1_ival) (fun _ => 0)) r2_ops).

Lemma r2_wf : forallb (fun ne => s1wf (snd ne)) r2_nodes = true.
Proof. vm_compute. reflexivity. Qed.
Lemma r2_rk : forallb (fun ne => forallb (fun fam' => Nat.ltb (r2_frank fam') (r2_frank (fst (fst ne)))) (efams (snd ne))) r2_nodes = true.
Proof. vm_compute. reflexivity. Qed.
Lemma r2_cf : forallb (fun ne => forallb (fun fam' => existsb (N.eqb fam') [1; 4]) (efams (snd ne))) r2_nodes = true.
Proof. vm_compute. reflexivity. Qed.
Lemma r2_fr : forallb (fun fam => forallb (fun k => first_readb (compile r1_nk None (lookup_node r2_nodes (fam, N.of_nat k))))
                                          (seq 0 (N.to_nat r1_nk))) [1; 4] = true.
Proof. vm_compute. reflexivity. Qed.
Lemma r2_bound : forall q : qk, (r2_frank (fst q) < r2_NF)%nat.
Proof. intros q. unfold r2_frank, r2_NF. destruct (fst q =? 5); [auto|]. destruct (fst q =? 4); auto. Qed.
Lemma r2_ops_ok : s1b_ops r2_prog true r2_ops.
Proof. cbn. repeat split; auto. Qed.
Lemma r2_answers : Forall2 okout r2_ops (snd r2_run).
Proof. apply all_okb_ok. vm_compute. reflexivity. Qed.

(* 10 + 3; after the synthetic write and the cell write 20 + 3; after in0 := 0: 20 + 99 *)
Example r2_outputs :
  snd r2_run = [SOk (0, []); SOk (13, []); SOk (0, []); SOk (0, []); SOk (23, []);
                SOk (0, []); SOk (119, []); SOk (0, [])].
Proof. vm_compute. reflexivity. Qed.

Lemma r2_hyps :
  calls_below r2_prog (fun q => r2_frank (fst q)) /\ (forall q : qk, (r2_frank (fst q) < r2_NF)%nat) /\
  no_forge r1_idhash r2_prog /\ (forall q, nospec (r2_prog q)) /\ (forall f, skind0 f = false) /\
  (forall q d, calls (r2_prog q) d -> gk d) /\ (forall q d, calls (r2_prog q) d -> first_read (r2_prog d)) /\
  s1b_ops r2_prog true r2_ops /\ 1 + 2 * N.of_nat (length r2_ops) < GMAX /\
  Forall2 okout r2_ops (snd r2_run).
Proof.
  split; [exact (table_calls_below r1_nk r2_nodes r2_wf r2_frank r2_rk)|].
  split; [exact r2_bound|].
  split; [exact (table_no_forge r1_idhash r1_nk r2_nodes r2_wf)|].
  split; [exact (table_nospec r1_nk r2_nodes r2_wf)|].
  split; [intros f; reflexivity|].
  split; [exact (table_gk r1_nk r2_nodes r2_wf)|].
  split; [exact (table_first r1_nk r2_nodes r1_nk0 r2_wf [1; 4] r2_cf r2_fr)|].
  split; [exact r2_ops_ok|].
  split; [vm_compute; reflexivity | exact r2_answers].
Qed.

(* the restriction on cell writes is necessary: a cell write after a Get of the same revision is
   not seen by the next Get (the memo verified in this revision is served) *)
Example r2_cell_after_get_is_stale :
  snd (run_ops r2_prog skind0 [] r1_idhash 40%nat (init (lookup3 r1_ival) (fun _ => 0))
         [OSetCell 0 10; OGet (5, (0, 0)); OSetCell 0 20; OGet (5, (0, 0))]) =
  [SOk (0, []); SOk (13, []); SOk (0, []); SOk (13, [])].
Proof. vm_compute. reflexivity. Qed.

(* ---------------------------------------------------------------- stale ids: what protects a dependent *)
(* a second creator B = (2,0): if in(1,0) then new(id 7; 8, 9).  rd is verified in revision 2
   holding field edges on (0,0); in revision 3 mk deletes (0,0) and B, executing for the first
   time with an input changed in revision 2, re-uses slot 0 as (0,1) with field stamps 2.  The
   dependency check of rd's field edge on the stale id (0,0), since = rd's verified_at = 2,
   answers UNCHANGED (field_mca ignores the generation); rd is nevertheless not validated: its
   earlier edge on mk answers changed, rd re-executes and returns 99. *)
Definition r3_nodes : list ((N * N) * expr) :=
  r1_nodes ++ [((2, 0), EIf (EInp 1 0) (ELet 2 (HNew (ELit 7) (ELit 8) (ELit 9)) (ERetH 2) (ELit 0)) (ELit 0))].
Definition r3_ops : list op :=
  [OGet (4, (0, 0)); OSet (1, 0) 1 None; OGet (4, (0, 0)); OSet (0, 0) 0 None; OGet (1, (0, 0)); OGet (2, (0, 0))].
Notation r3_prog := (prog_of r1_nk skind0 r3_nodes).
Notation r3_state := (fst (run_ops r3_prog skind0 [] r1_idhash 40%nat (init (lookup3 r1_ival) (fun _ => 0)) r3_ops)).

Example r3_stale_check_answers_unchanged :
  option_map m_verified (d_memo r3_state (4, 0)) = Some 2 /\
  option_map m_edges (d_memo r3_state (4, 0)) = Some [EQ (1, (0, 0)); EFld (0, 0) 0; EFld (0, 0) 1] /\
  option_map sl_gen (d_slots r3_state 0) = Some 1 /\
  snd (field_mca (0, 0) 0 2 r3_state) = SOk false /\
  snd (step r3_prog skind0 [] r1_idhash 40%nat r3_state (OGet (4, (0, 0)))) = SOk (99, []) /\
  hd_error (d_log (fst (step r3_prog skind0 [] r1_idhash 40%nat r3_state (OGet (4, (0, 0)))))) = Some (EvExec (4, (0, 0))).
Proof. vm_compute. repeat split; reflexivity. Qed.

(* the statement about dependents as first stated in Props/C07.v (every dependency check on an id
   whose slot has been reused answers changed) is false: Examples.hist1 reuses slot 2 as (2,1);
   the field check on (2,0) since revision 1 answers unchanged *)
Lemma hist1_stale_check :
  match mrun skind5 sfams5 hmod2 10%nat (init (fun _ => 0) (fun _ => 0), []) hist1 with
  | Some (s, F) =>
      option_map sl_gen (d_slots s 2) = Some 1 /\ existsb (handle_eqb (2, 0)) (issued s) = true /\
      snd (field_mca (2, 0) 0 1 s) = SOk false
  | None => False
  end.
Proof. vm_compute. repeat split; reflexivity. Qed.

Lemma dependents_first_statement_refuted :
  ~ (forall (skind : N -> bool) (sfams : list N) (idhash : val -> N) (n : nat) iv idur es s F,
     mrun skind sfams idhash n (init iv idur, []) es = Some (s, F) ->
     forall h f since sl,
       d_slots s (fst h) = Some sl -> snd h < sl_gen sl ->
       In h (issued s) ->
       fst (field_mca h f since s) = s /\ snd (field_mca h f since s) = SOk true).
Proof.
  intros H. destruct hist1_some as [[s F] E]. pose proof hist1_stale_check as C. rewrite E in C.
  destruct C as (A & B & D).
  destruct (d_slots s 2) as [sl|] eqn:Esl; [|discriminate]. cbn [option_map] in A. injection A as A.
  apply existsb_exists in B. destruct B as (x & Hx & Ex).
  assert (x = (2, 0)). { unfold handle_eqb in Ex. symmetry. destruct (key_eqb_spec (2, 0) x); [assumption | discriminate]. }
  subst x.
  destruct (H skind5 sfams5 hmod2 10%nat _ _ hist1 s F E (2, 0) 0 1 sl Esl) as [_ X]; [cbn [snd]; lia | exact Hx|].
  rewrite D in X. discriminate.
Qed.

(* the hypotheses of stale_edges_S1b hold for this history, and the walk over rd's edges in the
   final state answers changed (at the edge on mk) *)
Definition r3_frank (fam : N) : nat := if fam =? 4 then 1%nat else 0%nat.
Lemma r3_wf : forallb (fun ne => s1wf (snd ne)) r3_nodes = true.
Proof. vm_compute. reflexivity. Qed.
Lemma r3_rk : forallb (fun ne => forallb (fun fam' => Nat.ltb (r3_frank fam') (r3_frank (fst (fst ne)))) (efams (snd ne))) r3_nodes = true.
Proof. vm_compute. reflexivity. Qed.
Lemma r3_cf : forallb (fun ne => forallb (fun fam' => existsb (N.eqb fam') [1]) (efams (snd ne))) r3_nodes = true.
Proof. vm_compute. reflexivity. Qed.
Lemma r3_fr : forallb (fun fam => forallb (fun k => first_readb (compile r1_nk None (lookup_node r3_nodes (fam, N.of_nat k))))
                                          (seq 0 (N.to_nat r1_nk))) [1] = true.
Proof. vm_compute. reflexivity. Qed.
Lemma r3_bound : forall q : qk, (r3_frank (fst q) < 2)%nat.
Proof. intros q. unfold r3_frank. destruct (fst q =? 4); auto. Qed.

Lemma r3_hyps :
  calls_below r3_prog (fun q => r3_frank (fst q)) /\ (forall q : qk, (r3_frank (fst q) < 2)%nat) /\
  no_forge r1_idhash r3_prog /\ (forall q, nospec (r3_prog q)) /\ (forall f, skind0 f = false) /\
  (forall q d, calls (r3_prog q) d -> gk d) /\ (forall q d, calls (r3_prog q) d -> first_read (r3_prog d)) /\
  s1b_ops r3_prog true r3_ops /\ 1 + 2 * N.of_nat (length r3_ops) < GMAX /\
  Forall2 okout r3_ops (snd (run_ops r3_prog skind0 [] r1_idhash 40%nat (init (lookup3 r1_ival) (fun _ => 0)) r3_ops)).
Proof.
  split; [exact (table_calls_below r1_nk r3_nodes r3_wf r3_frank r3_rk)|].
  split; [exact r3_bound|].
  split; [exact (table_no_forge r1_idhash r1_nk r3_nodes r3_wf)|].
  split; [exact (table_nospec r1_nk r3_nodes r3_wf)|].
  split; [intros f; reflexivity|].
  split; [exact (table_gk r1_nk r3_nodes r3_wf)|].
  split; [exact (table_first r1_nk r3_nodes r1_nk0 r3_wf [1] r3_cf r3_fr)|].
  split; [cbn; repeat split; auto|].
  split; [vm_compute; reflexivity | apply all_okb_ok; vm_compute; reflexivity].
Qed.

Example r3_stale_walk :
  match d_memo r3_state (4, 0) with
  | Some m =>
      In (EFld (0, 0) 0) (m_edges m) /\ m_verified m < cur r3_state /\
      snd (walk_edges skind0 (level r3_prog skind0 [] r1_idhash 40%nat) (4, (0, 0)) (m_edges m) (m_verified m)
             (set_stack r3_state [(4, (0, 0))])) = SOk true
  | None => False
  end.
Proof. vm_compute. split; [right; left; reflexivity | split; reflexivity]. Qed.
